import Physt.Model.DTypeMachine
open Physt

def checkFile (cfg : Cfg) (path : String) : IO Unit := do
  let txt ← IO.FS.readFile path
  let mut s : DState := default
  let mut hist := ""
  let mut dead := false
  let mut nOk := 0
  let mut nBad := 0
  let mut nParse := 0
  for line in txt.splitOn "\n" do
    if line.startsWith "H " then
      hist := line; dead := false
    else if line.startsWith "#" || line == "" then
      pure ()
    else if !dead then
      match line.splitOn " => " with
      | [opTxt, want] =>
        match DOp.parse? opTxt with
        | none => nParse := nParse + 1; IO.println s!"PARSE {hist}: {opTxt}"; dead := true
        | some op =>
          let s' := s.step cfg op
          if s'.toString == want then nOk := nOk + 1
          else
            nBad := nBad + 1
            if nBad ≤ 25 then IO.println s!"MISMATCH {hist}: [{s}] {opTxt} -> model [{s'}] real [{want}]"
            dead := true
          s := s'
      | _ => nParse := nParse + 1
  IO.println s!"{path}: ok {nOk} mismatches {nBad} parse-failures {nParse}"

#eval checkFile Cfg.d3f2ae4 "/var/tmp/lw/c13machine/py/hist_head.txt"
#eval checkFile Cfg.b8bc97c "/var/tmp/lw/c13machine/py/hist_patched.txt"
#eval checkFile Cfg.current "/var/tmp/lw/c13machine/py/hist_current.txt"
#eval checkFile Cfg.d3f2ae4 "/var/tmp/lw/c13machine/py/hist_head_b.txt"
#eval checkFile Cfg.b8bc97c "/var/tmp/lw/c13machine/py/hist_patched_b.txt"
#eval checkFile Cfg.current "/var/tmp/lw/c13machine/py/hist_current_b.txt"

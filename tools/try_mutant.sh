#!/bin/bash
# usage: tools/try_mutant.sh <patch.diff> <Cxx> [tier]   -- applies to /repo, runs the check, reverts
set -u
patch="$1"; prop="$2"; tier="${3:-quick}"
cd /repo || exit 2
if ! git diff --quiet; then echo "/repo not clean"; exit 2; fi
git apply "$patch" || { echo "patch does not apply"; exit 2; }
cd /verif && ./check "$prop" --tier "$tier"; rc=$?
git -C /repo checkout -- .
echo "exit=$rc"

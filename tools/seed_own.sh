#!/bin/bash
# usage: tools/seed_own.sh [-j N] [ids...]      (default: every seeded change)
# Runs, for each seeded change, the quick check of ITS OWN property against it (scratch worktree of /repo's HEAD, /repo untouched,
# evidence / replays redirected) from a SNAPSHOT of /verif's committed state (so edits in /verif during the run do not interfere),
# and merges the result into seeded/matrix.json: the own-property cell of the row (other cells of an existing row are kept).
set -u
cd "$(dirname "$(readlink -f "$0")")/.."
V=$(pwd); J=8
if [ "${1:-}" = "-j" ]; then J="$2"; shift 2; fi
ids=("$@"); if [ ${#ids[@]} -eq 0 ]; then ids=($(ls seeded | grep -v matrix)); fi
snap=$(mktemp -d /var/tmp/ownsnap.XXXX)
git -C "$V" archive HEAD | tar -x -C "$snap"
cp -r "$V/lean/.lake" "$snap/lean/.lake"
tmp=$(mktemp -d /var/tmp/ownmx.XXXX)
one() {
  snap="$1"; tmp="$2"; id="$3"; prop="${id:0:3}"
  [ -f "$snap/seeded/$id/patch.diff" ] || return
  mkdir -p "$tmp/$id"
  (cd "$snap" && VERIF_EVIDENCE_DIR="$tmp/$id/ev" VERIF_REPLAY_DIR="$tmp/$id/rp" tools/try_mutant_wt.sh "seeded/$id/patch.diff" "$prop" > "$tmp/$id/log" 2>&1)
  rc=$(tail -1 "$tmp/$id/log" | sed 's/exit=//'); case "$rc" in 0|1|2) ;; *) rc=9;; esac
  echo "$rc" > "$tmp/$id/rc"
  echo "$id exit=$rc $(grep -A1 '^VIOLATION' "$tmp/$id/log" | sed -n 2p | cut -c1-140)"
}
export -f one
printf '%s\n' "${ids[@]}" | xargs -P "$J" -I{} bash -c "one $snap $tmp {}"
/venv/bin/python - "$tmp" "$V" <<'PY'
import json, sys, pathlib
t = pathlib.Path(sys.argv[1]); out = pathlib.Path(sys.argv[2]) / "seeded" / "matrix.json"
m = json.loads(out.read_text()) if out.exists() else {}
for d in sorted(t.iterdir()):
    if not (d / "rc").exists():
        continue
    prop = d.name[:3]
    row = m.get(d.name, {})
    row[prop] = int((d / "rc").read_text())
    m[d.name] = row
    v = [l for l in (d / "log").read_text().splitlines() if l.startswith("VIOLATION")]
    if v:
        m.setdefault(d.name + "_lines", {})[prop] = v[0].split(" replay=")[1].split("/")[-1]
out.write_text(json.dumps(m, indent=1))
PY
rm -rf "$tmp" "$snap"

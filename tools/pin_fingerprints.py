#!/venv/bin/python
"""Pin the source fingerprint of physt (harness/fingerprint.py) to /repo's current HEAD.  Run after every `fix:` commit."""
import json, subprocess, sys
from pathlib import Path
V = Path(__file__).resolve().parent.parent
sys.path.insert(0, str(V))
from harness import fingerprint
st = subprocess.run(["git", "-C", "/repo", "status", "--porcelain", "--untracked-files=no"], capture_output=True, text=True).stdout.strip()
if st:
    sys.exit("refusing to pin: /repo has uncommitted changes\n" + st)
head = subprocess.run(["git", "-C", "/repo", "rev-parse", "--short", "HEAD"], capture_output=True, text=True).stdout.strip()
fp = fingerprint.package_fingerprint("/repo/src/physt")
(V / "tools" / "fingerprints.json").write_text(json.dumps({"repo_head": head, "files": fp}, indent=0, sort_keys=True))
print("pinned", head, sum(len(v) for v in fp.values()), "definitions in", len(fp), "files")

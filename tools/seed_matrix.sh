#!/bin/bash
# usage: tools/seed_matrix.sh [ids...]  -- for every seeded/<id>/patch.diff: apply to /repo, run all 20 quick checks, revert.
# Writes seeded/matrix.json  {id: {Cxx: exit code}}.  /repo must be clean.
set -u
cd /verif
ids=("$@"); if [ ${#ids[@]} -eq 0 ]; then ids=($(ls seeded | grep -v matrix)); fi
tmp=$(mktemp -d /var/tmp/seedmx.XXXX)
for id in "${ids[@]}"; do
  [ -f seeded/$id/patch.diff ] || continue
  if ! git -C /repo diff --quiet; then echo "/repo not clean"; exit 2; fi
  git -C /repo apply /verif/seeded/$id/patch.diff || { echo "$id: patch does not apply"; continue; }
  mkdir -p $tmp/$id
  seq -w 1 20 | xargs -P 10 -I{} sh -c "./check C{} --tier quick > $tmp/$id/C{}.log 2>&1; echo \$? > $tmp/$id/C{}.rc"
  git -C /repo checkout -- .
  echo "$id: $(for f in $tmp/$id/*.rc; do b=$(basename $f .rc); [ "$(cat $f)" != 0 ] && echo -n "$b=$(cat $f) "; done)"
done
/venv/bin/python - "$tmp" <<'PY'
import json, sys, pathlib
t = pathlib.Path(sys.argv[1]); out = pathlib.Path("/verif/seeded/matrix.json")
m = json.loads(out.read_text()) if out.exists() else {}
for d in sorted(t.iterdir()):
    m[d.name] = {f.stem: int(f.read_text()) for f in sorted(d.glob("*.rc"))}
    first = {}
    for f in sorted(d.glob("*.log")):
        v = [l for l in f.read_text().splitlines() if l.startswith("VIOLATION")]
        if v: first[f.stem] = v[0].split(" replay=")[1].split("/")[-1] + (" no-failing-input-found" if v[0].endswith("no-failing-input-found") else "")
    m[d.name + "_lines"] = first
out.write_text(json.dumps(m, indent=1))
PY
rm -rf $tmp

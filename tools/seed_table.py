#!/venv/bin/python
"""Rewrite the table of DESIGN.md section 9.6 from seeded/matrix.json and the seeded/<id>/meta.json files."""
import json, pathlib, re
V = pathlib.Path(__file__).resolve().parent.parent
m = json.loads((V / "seeded" / "matrix.json").read_text())
rows = []
for d in sorted((V / "seeded").iterdir()):
    if not d.is_dir():
        continue
    meta = json.loads((d / "meta.json").read_text())
    r = m.get(d.name, {})
    fired = [k for k, v in sorted(r.items()) if v == 1]
    err = [k for k, v in sorted(r.items()) if v not in (0, 1)]
    own = meta["property"]
    summ = (meta.get("summary") or "").replace("|", "/").replace("\n", " ")
    if len(summ) > 230:
        summ = summ[:227] + "…"
    rows.append(f"| {d.name} | {summ} | {'**' + own + '**' if own in fired else own + ' MISSED'}{''.join(' ' + k for k in fired if k != own)}"
                f"{' (harness error: ' + ','.join(err) + ')' if err else ''} |")
table = "| id | change | checks that fire (quick tier) |\n|---|---|---|\n" + "\n".join(rows) + "\n"
p = V / "DESIGN.md"
s = p.read_text()
a = s.index("| id | change | checks that fire (quick tier) |")
b = s.index("### 9.7 Trusted base as built")
s = s[:a] + table + "\n" + s[b:]
p.write_text(s)
missed = [r for r in rows if "MISSED" in r]
print(len(rows), "rows;", len(missed), "missed by their own check")
for r in missed:
    print(r[:200])

#!/bin/bash
# usage: tools/seed_matrix_wt.sh <dir-with-patches> <id> [<id> ...]     e.g.  tools/seed_matrix_wt.sh /tmp/seed4/out C01/a C01/b
# Triage variant of seed_matrix.sh that does NOT touch /repo's working tree: every patch is applied in its own scratch
# worktree and all twenty quick checks import physt from there (PYTHONPATH).  Prints one line per patch.
set -u
dir="$1"; shift
one() {
  dir="$1"; id="$2"
  wt=$(mktemp -d /var/tmp/mxwt.XXXX); rmdir "$wt"
  git -C /repo worktree add --detach -f "$wt" HEAD >/dev/null 2>&1 || { echo "$id: worktree failed"; return; }
  if ! git -C "$wt" apply "$dir/$id.patch.diff" 2>/dev/null; then echo "$id: patch does not apply"; git -C /repo worktree remove --force "$wt"; return; fi
  fired=""
  for i in $(seq -w 1 20); do
    PYTHONPATH="$wt/src" /verif/check C$i --tier quick >/dev/null 2>&1; rc=$?
    [ $rc -ne 0 ] && fired="$fired C$i=$rc"
  done
  git -C /repo worktree remove --force "$wt"
  echo "$id:$fired"
}
export -f one
printf '%s\n' "$@" | xargs -P 6 -I{} bash -c "one $dir {}"

#!/bin/bash
# usage: tools/seed_matrix_wt2.sh [ids...]   -- like seed_matrix.sh (all twenty quick checks per seeded change, result merged into
# seeded/matrix.json) but WITHOUT touching /repo's working tree: each patch is applied in its own scratch worktree under /var/tmp
# and the checks import physt from there (PYTHONPATH); several changes run in parallel.  Evidence and replay files of these runs
# go to a scratch directory (VERIF_EVIDENCE_DIR / VERIF_REPLAY_DIR).
set -u
cd "$(dirname "$(readlink -f "$0")")/.."
V=$(pwd)
ids=("$@"); if [ ${#ids[@]} -eq 0 ]; then ids=($(ls seeded | grep -v matrix)); fi
tmp=$(mktemp -d /var/tmp/seedmx.XXXX)
one() {
  V="$1"; tmp="$2"; id="$3"
  [ -f "$V/seeded/$id/patch.diff" ] || return
  wt=$(mktemp -d /var/tmp/mxwt.XXXX); rmdir "$wt"
  git -C /repo worktree add --detach -f "$wt" HEAD >/dev/null 2>&1 || { echo "$id: worktree failed"; return; }
  if ! git -C "$wt" apply "$V/seeded/$id/patch.diff" 2>/dev/null; then echo "$id: patch does not apply"; git -C /repo worktree remove --force "$wt"; return; fi
  mkdir -p "$tmp/$id/ev" "$tmp/$id/rp"
  for i in $(seq -w 1 20); do
    (cd "$V" && PYTHONPATH="$wt/src" VERIF_EVIDENCE_DIR="$tmp/$id/ev" VERIF_REPLAY_DIR="$tmp/$id/rp" ./check C$i --tier quick > "$tmp/$id/C$i.log" 2>&1; echo $? > "$tmp/$id/C$i.rc")
  done
  git -C /repo worktree remove --force "$wt"
  echo "$id: $(for f in $tmp/$id/*.rc; do b=$(basename $f .rc); [ "$(cat $f)" != 0 ] && echo -n "$b=$(cat $f) "; done)"
}
export -f one
printf '%s\n' "${ids[@]}" | xargs -P 5 -I{} bash -c "one $V $tmp {}"
/venv/bin/python - "$tmp" "$V" <<'PY'
import json, sys, pathlib
t = pathlib.Path(sys.argv[1]); out = pathlib.Path(sys.argv[2]) / "seeded" / "matrix.json"
m = json.loads(out.read_text()) if out.exists() else {}
for d in sorted(t.iterdir()):
    if not d.is_dir():
        continue
    m[d.name] = {f.stem: int(f.read_text()) for f in sorted(d.glob("*.rc"))}
    first = {}
    for f in sorted(d.glob("*.log")):
        v = [l for l in f.read_text().splitlines() if l.startswith("VIOLATION")]
        if v: first[f.stem] = v[0].split(" replay=")[1].split("/")[-1]
    m[d.name + "_lines"] = first
out.write_text(json.dumps(m, indent=1))
PY
rm -rf $tmp

#!/venv/bin/python
"""Which lines of physt do the generated cases of the quick tier reach?

Runs, for every property module, the corpus + the quick tier's generated cases through `run_impl` (the real physt,
in-process) under coverage.py with branch measurement, and writes tools/coverage.json:
  per physt source file: percent covered, the missing line ranges, partially taken branches.
It is a measurement of the generators (DESIGN 4.3), not a check: nothing depends on it at run time.
usage: tools/coverage_report.py [Cxx ...]
"""
import importlib, json, os, sys, warnings
from pathlib import Path
V = Path(__file__).resolve().parent.parent
sys.path.insert(0, str(V))
warnings.simplefilter("ignore")
import coverage  # noqa: E402

props = sys.argv[1:] or [f"C{i:02d}" for i in range(1, 21)]
seed = int(os.environ.get("VERIF_SEED", "20260929"))
cov = coverage.Coverage(branch=True, source=["/repo/src/physt"], data_file=None)
cov.start()
from harness import core  # noqa: E402
n = 0
for p in props:
    mod = importlib.import_module(f"harness.props.{p.lower()}").PROP
    cases = []
    cdir = core.CORPUS / p
    if cdir.exists():
        cases += [json.loads(f.read_text()) for f in sorted(cdir.glob("*.json"))]
    for k in range(mod.N_QUICK):
        cases.append(mod.gen_case(core.Rng.for_case(seed, p, k), k, "quick"))
    if hasattr(mod, "exhaustive_cases"):
        cases += list(mod.exhaustive_cases("quick"))
    for c in cases:
        try:
            mod.run_impl(c)
        except Exception as e:   # a crash is the check's business, not this report's
            print("crash", p, type(e).__name__, str(e)[:80])
        n += 1
cov.stop()
out = {}
for f in sorted(cov.get_data().measured_files()):
    if "/physt/" not in f:
        continue
    _, stmts, _, missing, _ = cov.analysis2(f)
    an = cov._analyze(f)
    rel = f.split("/src/physt/")[1]
    miss_branch = {str(k): v for k, v in sorted(an.missing_branch_arcs().items())}
    out[rel] = {"statements": len(stmts), "missing": len(missing), "percent": round(100 * (1 - len(missing) / max(1, len(stmts))), 1),
                "missing_lines": missing, "partial_branches": miss_branch}
(V / "tools" / "coverage.json").write_text(json.dumps({"seed": seed, "cases": n, "properties": props, "files": out}, indent=1))
for rel, d in out.items():
    print(f"{rel:40s} {d['percent']:5.1f}%  missing {d['missing']:4d} of {d['statements']}")

#!/bin/bash
# usage: tools/try_mutant_wt.sh <patch.diff> <Cxx> [tier]
# Like try_mutant.sh but WITHOUT touching /repo's working tree: the patch is applied in a scratch worktree under /var/tmp
# and the check imports physt from there through PYTHONPATH (for triage while other jobs use /repo; the seeded matrix
# itself applies patches to /repo).
set -u
patch="$(readlink -f "$1")"; prop="$2"; tier="${3:-quick}"
verif="$(cd "$(dirname "$(readlink -f "$0")")/.." && pwd)"
wt=$(mktemp -d /var/tmp/mutwt.XXXX); rmdir "$wt"
git -C /repo worktree add --detach -f "$wt" HEAD >/dev/null 2>&1 || { echo "worktree failed"; exit 2; }
if ! git -C "$wt" apply "$patch"; then echo "patch does not apply"; git -C /repo worktree remove --force "$wt"; exit 2; fi
loc=$(PYTHONPATH="$wt/src" /venv/bin/python -c "import physt; print(physt.__file__)")
case "$loc" in "$wt"*) ;; *) echo "physt not imported from the worktree: $loc"; git -C /repo worktree remove --force "$wt"; exit 2;; esac
cd "$verif" && PYTHONPATH="$wt/src" ./check "$prop" --tier "$tier"; rc=$?
git -C /repo worktree remove --force "$wt"
echo "exit=$rc"

#!/bin/bash
# usage: tools/ingest_seed.sh <candidate dir with patch.diff demo.py meta.json> <new id, e.g. C05i> [round]
# Re-verifies a candidate seeded change independently (tools/verify_seed.sh: demo passes without / fails with the patch, the
# unedited test suite passes with it, in a scratch worktree of /repo's HEAD), stores it as seeded/<id>/ with the verification
# record in meta.json, and runs the quick check of its own property against it (scratch worktree, /repo untouched).
# Prints one line:  <id> verify=<ok|FAIL:...> own_check_exit=<rc>
set -u
cd "$(dirname "$(readlink -f "$0")")/.."
src="$(readlink -f "$1")"; id="$2"; round="${3:-6}"
prop="${id:0:3}"
out=$(tools/verify_seed.sh "$src")
ok=$(/venv/bin/python - "$out" <<'PY'
import json, sys
try:
    r = json.loads(sys.argv[1])
except Exception:
    print("FAIL:unparsable"); sys.exit()
if "error" in r: print("FAIL:" + r["error"][:80])
elif r["demo_without"] != 0: print("FAIL:demo fails without the patch")
elif r["demo_with"] == 0: print("FAIL:demo passes with the patch")
elif r["tests_rc"] != 0: print("FAIL:tests " + r["tests"])
else: print("ok")
PY
)
if [ "$ok" != "ok" ]; then echo "$id verify=$ok"; exit 1; fi
mkdir -p "seeded/$id"
cp "$src/patch.diff" "$src/demo.py" "seeded/$id/"
/venv/bin/python - "$src/meta.json" "seeded/$id/meta.json" "$id" "$round" "$out" <<'PY'
import json, sys, subprocess
m = json.load(open(sys.argv[1]))
r = json.loads(sys.argv[5])
head = subprocess.run(["git", "-C", "/repo", "rev-parse", "--short", "HEAD"], capture_output=True, text=True).stdout.strip()
m.update({"id": sys.argv[3], "round": int(sys.argv[4]),
          "origin": "round %s: written by a fresh sub-agent that saw only the property text, the list of mechanisms already known for it, and its own scratch worktree of /repo" % sys.argv[4],
          "verified_by_me": {"repo_head_at_verification": head, "how": "tools/verify_seed.sh: fresh scratch worktree of /repo's HEAD under /var/tmp (removed afterwards), PYTHONPATH=<worktree>/src",
                             "demo_without_patch_exit": r["demo_without"], "demo_with_patch_exit": r["demo_with"],
                             "demo_last_line_with_patch": r["demo_last_line"], "test_suite_with_patch": r["tests"], "test_suite_rc": r["tests_rc"]}})
json.dump(m, open(sys.argv[2], "w"), indent=1)
PY
ev=$(mktemp -d /var/tmp/ing.XXXX)
VERIF_EVIDENCE_DIR="$ev/ev" VERIF_REPLAY_DIR="$ev/rp" tools/try_mutant_wt.sh "seeded/$id/patch.diff" "$prop" > "$ev/log" 2>&1
rc=$(tail -1 "$ev/log" | sed 's/exit=//')
first=$(grep -A1 '^VIOLATION' "$ev/log" | head -2 | tail -1 | cut -c1-200)
rm -rf "$ev"
echo "$id verify=ok own_check_exit=$rc $first"

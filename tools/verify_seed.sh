#!/bin/bash
# usage: tools/verify_seed.sh <dir containing patch.diff and demo.py> [--no-tests]
# Independent re-verification of a candidate seeded change in a fresh scratch worktree of /repo's HEAD
# (under /var/tmp, removed afterwards):  demo exits 0 without the patch, non-zero with it; the patch applies
# cleanly; the unedited test suite passes with the patch.  Prints one JSON line.
set -u
d="$1"; notests="${2:-}"
wt=$(mktemp -d /var/tmp/vseed.XXXX); rmdir "$wt"
git -C /repo worktree add --detach -f "$wt" HEAD >/dev/null 2>&1 || { echo '{"error":"worktree"}'; exit 2; }
cleanup() { git -C /repo worktree remove --force "$wt" >/dev/null 2>&1; }
trap cleanup EXIT
loc=$(PYTHONPATH="$wt/src" /venv/bin/python -c "import physt; print(physt.__file__)")
case "$loc" in "$wt"*) ;; *) echo "{\"error\":\"physt imported from $loc\"}"; exit 2;; esac
(cd "$wt" && PYTHONPATH="$wt/src" timeout 600 /venv/bin/python "$d/demo.py" >/dev/null 2>"$wt/.demo0.err"); rc0=$?
if ! git -C "$wt" apply "$d/patch.diff" 2>"$wt/.apply.err"; then echo "{\"error\":\"patch does not apply: $(head -c 200 $wt/.apply.err | tr '\n"' '  ')\"}"; exit 2; fi
files=$(git -C "$wt" diff --name-only | tr '\n' ' ')
(cd "$wt" && PYTHONPATH="$wt/src" timeout 600 /venv/bin/python "$d/demo.py" >/dev/null 2>"$wt/.demo1.err"); rc1=$?
last=$(tail -1 "$wt/.demo1.err" | tr '"\\' "' " | head -c 300)
trc=-1; tsum="skipped"
if [ "$notests" != "--no-tests" ]; then
  for attempt in 1 2 3; do
    (cd "$wt" && PYTHONPATH="$wt/src" /venv/bin/python -m pytest -q -p no:cacheprovider --timeout=900 > "$wt/.tests.out" 2>&1); trc=$?
    tsum=$(grep -E "passed|failed|error" "$wt/.tests.out" | tail -1 | tr '"' "'")
    if [ $trc -eq 0 ]; then break; fi
    # the known flaky hypothesis test (fails on the unchanged pinned tree too): retry when it is the only failure
    nfail=$(grep -c "^FAILED" "$wt/.tests.out")
    if [ "$nfail" = "1" ] && grep -q "^FAILED.*test_increases_total_by_zero_or_weight" "$wt/.tests.out"; then
      # everything else passed: re-run the flaky test alone; one pass is enough (it fails now and then on the unchanged tree too)
      for again in 1 2 3 4 5; do
        if (cd "$wt" && PYTHONPATH="$wt/src" /venv/bin/python -m pytest -q -p no:cacheprovider tests/test_histogram1d.py -k test_increases_total_by_zero_or_weight >/dev/null 2>&1); then
          trc=0; tsum="$tsum (the failure is the known flaky hypothesis test; it passes when re-run alone)"; break
        fi
      done
      if [ $trc -eq 0 ]; then break; fi
      continue
    fi
    break
  done
fi
echo "{\"dir\":\"$d\",\"files\":\"$files\",\"demo_without\":$rc0,\"demo_with\":$rc1,\"demo_last_line\":\"$last\",\"tests_rc\":$trc,\"tests\":\"$tsum\"}"

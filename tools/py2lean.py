#!/venv/bin/python
"""py2lean — translate the scalar core of physt's source into Lean 4 definitions.

    tools/py2lean.py statistics [--src <dir of the physt package>] [--out <file>]

The translator reads the CURRENT source (by default the package `physt` that Python imports, i.e. /repo/src/physt or the
worktree put on PYTHONPATH), walks its AST and emits definitions over `Physt.PyF` (Python floats idealised as extended
rationals, lean/Physt/Model/PyFloat.lean).  Comments, docstrings, annotations and formatting do not matter; anything outside
the supported subset is an error (exit 3, message on stderr) — never a silent default.  The refinement theorems of
lean/PhystGen/C14_Source.lean and C06_Source.lean are stated about the GENERATED definitions, so they are re-checked against what the
code says now (harness/gen_tie.py does that in every run of the C06 and C14 checks).

Supported subset (what `statistics.py` needs):
  * a `@dataclass` class whose fields are floats with literal / np.inf / -np.inf / np.nan defaults;
  * methods `(self)` or `(self, other: Any)`; statements: docstring, `return e`, `x = e`, `if c: <returns> [else: …]` followed by
    the rest, `try: <returns> except ZeroDivisionError: <returns>`; the guards `if not isinstance(other, C): return X` and
    `if not np.isscalar(other): return X` narrow `other` by a `match`;
  * expressions: + - * / ** <nat literal>, unary -, comparisons < > with floats, `not`, conditional expressions, `self.f`,
    `other.f`, float literals, `np.nan`, `np.inf`, `float(x)`, `cast(float, x)`, `x.item()`, `np.minimum`, `np.maximum`,
    `isinstance(x, np.generic)`, `C(field=…)`, `dataclasses.replace(self, field=…)`;
  * module constants `NAME: C = C(field=…)`.
Methods listed in SKIP (with the reason) are not translated.
"""
from __future__ import annotations

import argparse
import ast
import hashlib
import os
import sys
from fractions import Fraction

SKIP = {"statistics": {"std": "np.sqrt of the variance: irrational, stated over the reals in Theorems/C14_Std.lean"}}
RENAME = {"__add__": "add", "__mul__": "mul", "__sub__": "sub", "__truediv__": "truediv"}


class Unsupported(Exception):
    pass


def fail(node, why):
    raise Unsupported(f"line {getattr(node, 'lineno', '?')}: {why}: {ast.unparse(node)[:120]}")


def rat(x) -> str:
    f = Fraction(str(x)) if isinstance(x, float) else Fraction(x)
    return f"(PyF.fin ({f.numerator} : Rat))" if f.denominator == 1 else f"(PyF.fin (({f.numerator} : Rat) / {f.denominator}))"


class Ctx:
    def __init__(self, cls, fields):
        self.cls = cls
        self.fields = fields
        self.vars = {}          # python name -> ("stats" | "float" | "obj" | "bool", lean name, extra)
        self.n = 0

    def fresh(self, base="t"):
        self.n += 1
        return f"{base}_{self.n}"

    def copy(self):
        c = Ctx(self.cls, self.fields)
        c.vars = dict(self.vars)
        c.n = self.n
        return c


def is_np(node, name):
    return isinstance(node, ast.Attribute) and isinstance(node.value, ast.Name) and node.value.id in ("np", "numpy") and node.attr == name


_COUNTER = [0]


def binds(parts, k):
    """parts: list of (term, monadic); k: function from list of pure names/terms to (term, monadic).  Returns (term, monadic)."""
    names, pre = [], []
    for i, (t, m) in enumerate(parts):
        if m:
            _COUNTER[0] += 1
            v = f"v{_COUNTER[0]}"
            pre.append((v, t))
            names.append(v)
        else:
            names.append(t)
    body, bm = k(names)
    if not pre:
        return body, bm
    if not bm:
        body = f"(Except.ok {body})"
    for v, t in reversed(pre):
        body = f"({t} >>= fun {v} => {body})"
    return body, True


def expr(ctx: Ctx, e) -> tuple[str, bool, str]:
    """returns (lean term, monadic?, type in {'float','bool','stats'})"""
    if isinstance(e, ast.Constant):
        if isinstance(e.value, bool):
            return ("true" if e.value else "false"), False, "bool"
        if isinstance(e.value, (int, float)):
            return rat(e.value), False, "float"
        fail(e, "constant")
    if is_np(e, "nan"):
        return "PyF.nan", False, "float"
    if is_np(e, "inf"):
        return "PyF.pinf", False, "float"
    if isinstance(e, ast.UnaryOp) and isinstance(e.op, ast.USub):
        t, m, ty = expr(ctx, e.operand)
        if ty != "float":
            fail(e, "negation of a non-float")
        r, rm = binds([(t, m)], lambda a: (f"(PyF.neg {a[0]})", False))
        return r, rm, "float"
    if isinstance(e, ast.UnaryOp) and isinstance(e.op, ast.Not):
        t, m, ty = expr(ctx, e.operand)
        if ty != "bool":
            fail(e, "`not` of a non-bool")
        r, rm = binds([(t, m)], lambda a: (f"(!{a[0]})", False))
        return r, rm, "bool"
    if isinstance(e, ast.Name):
        if e.id in ctx.vars:
            kind, lean, _ = ctx.vars[e.id]
            if kind in ("float", "bool", "stats"):
                return lean, False, kind
        fail(e, "name of unknown kind")
    if isinstance(e, ast.Attribute) and isinstance(e.value, ast.Name) and e.value.id in ctx.vars:
        kind, lean, _ = ctx.vars[e.value.id]
        if kind == "stats" and e.attr in ctx.fields:
            return f"{lean}.{e.attr}", False, "float"
        fail(e, "attribute")
    if isinstance(e, ast.BinOp):
        (l, lm, lt), (r, rm, rt) = expr(ctx, e.left), expr(ctx, e.right)
        if isinstance(e.op, ast.Pow):
            if not (isinstance(e.right, ast.Constant) and isinstance(e.right.value, int) and e.right.value >= 0) or lt != "float":
                fail(e, "power with a non-literal exponent")
            t, m = binds([(l, lm)], lambda a: (f"(PyF.powNat {a[0]} {e.right.value})", False))
            return t, m, "float"
        if lt != "float" or rt != "float":
            fail(e, "arithmetic on non-floats")
        op = {ast.Add: ("PyF.add", False), ast.Sub: ("PyF.sub", False), ast.Mult: ("PyF.mul", False), ast.Div: ("PyF.div", True)}.get(type(e.op))
        if op is None:
            fail(e, "operator")
        t, m = binds([(l, lm), (r, rm)], lambda a: (f"({op[0]} {a[0]} {a[1]})", op[1]))
        return t, m, "float"
    if isinstance(e, ast.Compare) and len(e.ops) == 1:
        (l, lm, lt), (r, rm, rt) = expr(ctx, e.left), expr(ctx, e.comparators[0])
        fn = {ast.Gt: "PyF.gt", ast.Lt: "PyF.lt"}.get(type(e.ops[0]))
        if fn is None or lt != "float" or rt != "float":
            fail(e, "comparison")
        t, m = binds([(l, lm), (r, rm)], lambda a: (f"({fn} {a[0]} {a[1]})", False))
        return t, m, "bool"
    if isinstance(e, ast.IfExp):
        (c, cm, ct), (a, am, at), (b, bm, bt) = expr(ctx, e.test), expr(ctx, e.body), expr(ctx, e.orelse)
        if ct != "bool" or at != bt or cm:
            fail(e, "conditional expression")
        if am or bm:
            a = a if am else f"(Except.ok {a})"
            b = b if bm else f"(Except.ok {b})"
        return f"(if {c} then {a} else {b})", (am or bm), at
    if isinstance(e, ast.Call):
        f = e.func
        # float(x), cast(float, x), x.item(): the number itself
        if isinstance(f, ast.Name) and f.id == "float" and len(e.args) == 1 and not e.keywords:
            return expr(ctx, e.args[0])
        if isinstance(f, ast.Name) and f.id == "cast" and len(e.args) == 2 and isinstance(e.args[0], ast.Name) and e.args[0].id == "float":
            return expr(ctx, e.args[1])
        if isinstance(f, ast.Attribute) and f.attr == "item" and not e.args:
            t, m, ty = expr(ctx, f.value)
            if ty != "float":
                fail(e, ".item() of a non-number")
            return t, m, ty
        if (is_np(f, "minimum") or is_np(f, "maximum")) and len(e.args) == 2 and not e.keywords:
            (l, lm, lt), (r, rm, rt) = expr(ctx, e.args[0]), expr(ctx, e.args[1])
            if lt != "float" or rt != "float":
                fail(e, "np.minimum / np.maximum of non-floats")
            t, m = binds([(l, lm), (r, rm)], lambda a: (f"(PyF.{f.attr} {a[0]} {a[1]})", False))
            return t, m, "float"
        if isinstance(f, ast.Name) and f.id == "isinstance" and len(e.args) == 2 and isinstance(e.args[0], ast.Name) \
                and is_np(e.args[1], "generic") and e.args[0].id in ctx.vars and ctx.vars[e.args[0].id][0] == "float" \
                and ctx.vars[e.args[0].id][2]:
            return ctx.vars[e.args[0].id][2], False, "bool"
        # C(field=...), dataclasses.replace(x, field=...)
        if isinstance(f, ast.Name) and f.id == ctx.cls and not e.args:
            return record(ctx, None, e.keywords, e)
        if isinstance(f, ast.Attribute) and f.attr == "replace" and isinstance(f.value, ast.Name) and f.value.id == "dataclasses" \
                and len(e.args) == 1:
            b, bm, bt = expr(ctx, e.args[0])
            if bt != "stats" or bm:
                fail(e, "dataclasses.replace of a non-instance")
            return record(ctx, b, e.keywords, e)
    fail(e, "unsupported expression")


def record(ctx, base, keywords, node):
    parts, names = [], []
    for kw in keywords:
        if kw.arg not in ctx.fields:
            fail(node, f"unknown field {kw.arg}")
        t, m, ty = expr(ctx, kw.value)
        if ty != "float":
            fail(node, f"field {kw.arg} gets a non-float")
        parts.append((t, m))
        names.append(kw.arg)

    def k(a):
        inner = ", ".join(f"{n} := {v}" for n, v in zip(names, a))
        return ("({ " + (f"{base} with " if base else "") + inner + f" }} : {ctx.cls})"), False
    t, m = binds(parts, k)
    return t, m, "stats"


def always_returns(stmts) -> bool:
    for s in stmts:
        if isinstance(s, ast.Return):
            return True
        if isinstance(s, ast.If) and s.orelse and always_returns(s.body) and always_returns(s.orelse):
            return True
        if isinstance(s, ast.Try) and always_returns(s.body) and all(always_returns(h.body) for h in s.handlers):
            return True
    return False


def block(ctx: Ctx, stmts, rty) -> str:
    """a statement list that ends by returning on every path -> term of type Except PyExc <rty>"""
    stmts = [s for s in stmts if not (isinstance(s, ast.Expr) and isinstance(s.value, ast.Constant) and isinstance(s.value.value, str))]
    if not stmts:
        raise Unsupported("a path falls off the end of a function (implicit None)")
    s, rest = stmts[0], stmts[1:]
    if isinstance(s, ast.Return):
        if s.value is None:
            fail(s, "bare return")
        t, m, ty = expr(ctx, s.value)
        if ty != rty:
            fail(s, f"returns {ty}, expected {rty}")
        return t if m else f"(Except.ok {t})"
    if isinstance(s, ast.Assign) and len(s.targets) == 1 and isinstance(s.targets[0], ast.Name):
        t, m, ty = expr(ctx, s.value)
        v = "l_" + s.targets[0].id
        c2 = ctx.copy()
        c2.vars[s.targets[0].id] = (ty, v, None)
        body = block(c2, rest, rty)
        return f"({t} >>= fun {v} => {body})" if m else f"(let {v} := {t}; {body})"
    if isinstance(s, ast.If):
        # narrowing guards
        g = s.test
        if isinstance(g, ast.UnaryOp) and isinstance(g.op, ast.Not) and isinstance(g.operand, ast.Call) and not s.orelse \
                and always_returns(s.body) and len(g.operand.args) >= 1 and isinstance(g.operand.args[0], ast.Name) \
                and ctx.vars.get(g.operand.args[0].id, ("",))[0] == "obj":
            call, name = g.operand, g.operand.args[0].id
            lean = ctx.vars[name][1]
            refused = block(ctx.copy(), s.body, rty)
            c2 = ctx.copy()
            if isinstance(call.func, ast.Name) and call.func.id == "isinstance" and isinstance(call.args[1], ast.Name) and call.args[1].id == ctx.cls:
                c2.vars[name] = ("stats", lean + "_inst", None)
                return f"(match {lean} with\n    | PyObj.inst {lean}_inst => {block(c2, rest, rty)}\n    | _ => {refused})"
            if is_np(call.func, "isscalar"):
                c2.vars[name] = ("float", lean + "_x", lean + "_np")
                return f"(match {lean} with\n    | PyObj.scalar {lean}_np {lean}_x => {block(c2, rest, rty)}\n    | _ => {refused})"
            fail(s, "guard on an argument")
        c, cm, ct = expr(ctx, s.test)
        if ct != "bool" or cm:
            fail(s, "condition")
        if not always_returns(s.body):
            fail(s, "an if-branch that does not return")
        yes = block(ctx.copy(), s.body, rty)
        no = block(ctx.copy(), (s.orelse + rest) if not always_returns(s.orelse or []) else s.orelse, rty)
        return f"(if {c} then {yes} else {no})"
    if isinstance(s, ast.Try) and not s.finalbody and not s.orelse and len(s.handlers) == 1 \
            and isinstance(s.handlers[0].type, ast.Name) and s.handlers[0].type.id == "ZeroDivisionError" and s.handlers[0].name is None \
            and always_returns(s.body) and always_returns(s.handlers[0].body):
        body = block(ctx.copy(), s.body, rty)
        h = block(ctx.copy(), s.handlers[0].body, rty)
        return f"(match {body} with\n    | Except.error PyExc.zeroDivision => {h}\n    | r => r)"
    fail(s, "unsupported statement")


def field_default(node):
    if isinstance(node, ast.Constant) and isinstance(node.value, (int, float)) and not isinstance(node.value, bool):
        return rat(node.value)
    if is_np(node, "nan"):
        return "PyF.nan"
    if is_np(node, "inf"):
        return "PyF.pinf"
    if isinstance(node, ast.UnaryOp) and isinstance(node.op, ast.USub) and is_np(node.operand, "inf"):
        return "PyF.ninf"
    fail(node, "field default")


def translate_statistics(src_dir: str) -> str:
    _COUNTER[0] = 0
    path = os.path.join(src_dir, "statistics.py")
    tree = ast.parse(open(path).read())
    cls = next((n for n in tree.body if isinstance(n, ast.ClassDef) and n.name == "Statistics"), None)
    if cls is None:
        raise Unsupported("class Statistics not found")
    if not any("dataclass" in ast.unparse(d) for d in cls.decorator_list):
        raise Unsupported("Statistics is not a dataclass")
    fields, out = {}, []
    for n in cls.body:
        if isinstance(n, ast.AnnAssign) and isinstance(n.target, ast.Name):
            if ast.unparse(n.annotation) != "float" or n.value is None:
                fail(n, "field that is not a float with a default")
            fields[n.target.id] = field_default(n.value)
    out.append("structure Statistics where")
    for f, d in fields.items():
        out.append(f"  {f} : PyF := {d}")
    out.append("  deriving DecidableEq, Repr, Inhabited\n")
    # module constants of the class type (needed before the methods that return them)
    consts = {}
    for n in tree.body:
        if isinstance(n, ast.AnnAssign) and isinstance(n.target, ast.Name) and n.value is not None and ast.unparse(n.annotation) == "Statistics":
            ctx = Ctx("Statistics", fields)
            t, m, ty = expr(ctx, n.value)
            if m or ty != "stats":
                fail(n, "module constant")
            consts[n.target.id] = t
            out.append(f"def {n.target.id} : Statistics := {t}\n")
    translated, skipped = [], []
    for n in cls.body:
        if not isinstance(n, ast.FunctionDef):
            continue
        if n.name in SKIP["statistics"]:
            skipped.append(n.name)
            continue
        args = [a.arg for a in n.args.args]
        if n.args.vararg or n.args.kwarg or n.args.kwonlyargs or n.args.defaults or args[:1] != ["self"] or len(args) > 2 or n.decorator_list:
            fail(n, "method signature")
        ctx = Ctx("Statistics", fields)
        ctx.vars["self"] = ("stats", "self", None)
        for c, t in consts.items():
            ctx.vars[c] = ("stats", c, None)
        params = "(self : Statistics)"
        if len(args) == 2:
            ctx.vars[args[1]] = ("obj", args[1], None)
            params += f" ({args[1]} : PyObj Statistics)"
        ret = ast.unparse(n.returns) if n.returns is not None else None
        rty = {"float": "float", "Statistics": "stats", "bool": "bool"}.get(ret)
        if rty is None:
            fail(n, "return annotation")
        lty = {"float": "PyF", "stats": "Statistics", "bool": "Bool"}[rty]
        body = block(ctx, n.body, rty)
        name = RENAME.get(n.name, n.name)
        out.append(f"/-- `Statistics.{n.name}` (statistics.py line {n.lineno}) -/")
        out.append(f"def Statistics.{name} {params} : Except PyExc {lty} :=\n  {body}\n")
        translated.append(n.name)
    body = "\n".join(out)
    digest = hashlib.sha256(body.encode()).hexdigest()[:16]
    head = ("import Physt.Model.PyFloat\n/-! GENERATED by tools/py2lean.py from physt/statistics.py — do not edit; regenerated and compared on every run.\n"
            f"translated: {', '.join(translated)}; not translated: " + ", ".join(f"{k} ({SKIP['statistics'][k]})" for k in skipped) + "\n"
            f"digest of the definitions: {digest} -/\n"
            "namespace Physt.Src\nopen Physt\n\n")
    return head + body + "\nend Physt.Src\n"


# ---------------------------------------------------------------- config.py

def _src(n):
    return ast.unparse(n)


def translate_config(src_dir: str) -> str:
    """`_Config` as sequences of ContextVar primitives.  Each method must have exactly the shape transcribed here; anything else
    is outside the subset (an error), because the refinement theorems speak about these shapes."""
    tree = ast.parse(open(os.path.join(src_dir, "config.py")).read())
    cls = next((n for n in tree.body if isinstance(n, ast.ClassDef) and n.name == "_Config"), None)
    if cls is None:
        raise Unsupported("class _Config not found")
    meth = {n.name + (":setter" if any("setter" in _src(d) for d in n.decorator_list) else ""): n
            for n in cls.body if isinstance(n, ast.FunctionDef)}

    def body(n):
        return [s for s in n.body if not (isinstance(s, ast.Expr) and isinstance(s.value, ast.Constant) and isinstance(s.value.value, str))]

    def need(name):
        if name not in meth:
            raise Unsupported(f"method {name} not found")
        return meth[name]

    def var_call(e, method, arg=None):
        """`getattr(self, name).<method>(<arg>)` or `var.<method>(<arg>)` where var = getattr(self, name)"""
        if not (isinstance(e, ast.Call) and isinstance(e.func, ast.Attribute) and e.func.attr == method and not e.keywords):
            return False
        if [(_src(a)) for a in e.args] != ([arg] if arg else []):
            return False
        return _src(e.func.value) in ("getattr(self, name)", "var")

    def prims(stmts, node):
        """a straight-line statement list over the variable -> list of primitives"""
        out = []
        for s in stmts:
            if isinstance(s, ast.Assign) and _src(s.targets[0]) == "var" and _src(s.value) == "getattr(self, name)":
                continue
            if isinstance(s, ast.Return) and s.value is not None and var_call(s.value, "get"):
                out.append("VarPrim.get")
            elif isinstance(s, (ast.Return, ast.Expr)) and s.value is not None and var_call(s.value, "set", "value"):
                out.append("VarPrim.set")
            elif isinstance(s, ast.Assign) and _src(s.targets[0]) == "token" and var_call(s.value, "set", "value"):
                out.append("VarPrim.setKeepToken")
            elif isinstance(s, ast.Expr) and var_call(s.value, "reset", "token"):
                out.append("VarPrim.resetToken")
            else:
                fail(s, f"statement of {node.name} that is not a ContextVar primitive")
        return out

    def is_yield(s):
        return isinstance(s, ast.Expr) and isinstance(s.value, ast.Yield) and s.value.value is None

    out = []
    # _make_var: a ContextVar per option
    mv = body(need("_make_var"))
    uses_cv = (len(mv) == 2 and _src(mv[0]) == "var = contextvars.ContextVar(name, default=default)" and _src(mv[1]) == "setattr(self, name, var)")
    if not uses_cv:
        fail(need("_make_var"), "_make_var does not create one contextvars.ContextVar per option")
    # __init__: the option and its environment default
    ini = body(need("__init__"))
    if len(ini) != 1 or not isinstance(ini[0], ast.Expr) or not isinstance(ini[0].value, ast.Call) or _src(ini[0].value.func) != "self._make_var":
        fail(need("__init__"), "__init__")
    a = ini[0].value.args
    if len(a) != 2 or not isinstance(a[0], ast.Constant):
        fail(ini[0], "__init__ arguments")
    d = a[1]
    if not (isinstance(d, ast.Compare) and len(d.ops) == 1 and isinstance(d.ops[0], ast.Eq) and isinstance(d.left, ast.Call)
            and _src(d.left.func) == "os.environ.get" and len(d.left.args) == 2 and all(isinstance(x, ast.Constant) for x in d.left.args)
            and isinstance(d.comparators[0], ast.Constant)):
        fail(d, "default of the option")
    var_name = a[0].value
    out.append("def Config.option : OptionDecl :=\n  { varName := %s, usesContextVar := true, envName := %s, envDefault := %s, envOn := %s }\n"
               % tuple(json_str(x) for x in (var_name, d.left.args[0].value, d.left.args[1].value, d.comparators[0].value)))
    out.append(f"/-- `_Config._get_value` -/\ndef Config.getValue : List VarPrim := [{', '.join(prims(body(need('_get_value')), need('_get_value')))}]\n")
    out.append(f"/-- `_Config._set_value` -/\ndef Config.setValue : List VarPrim := [{', '.join(prims(body(need('_set_value')), need('_set_value')))}]\n")
    # _change_value: generator-based context manager
    cv = need("_change_value")
    if [_src(x) for x in cv.decorator_list] != ["contextlib.contextmanager"] or [x.arg for x in cv.args.args] != ["self", "name", "value"]:
        fail(cv, "_change_value is not a contextlib.contextmanager over (name, value)")
    b = body(cv)
    enter, exit_, in_finally = None, None, None
    for i, s in enumerate(b):
        if is_yield(s):
            enter, exit_, in_finally = prims(b[:i], cv), prims(b[i + 1:], cv), False
            break
        if isinstance(s, ast.Try):
            if s.handlers or s.orelse or len(s.body) != 1 or not is_yield(s.body[0]) or b[i + 1:]:
                fail(s, "try statement of _change_value")
            enter, exit_, in_finally = prims(b[:i], cv), prims(s.finalbody, cv), True
            break
    if enter is None:
        fail(cv, "_change_value has no plain `yield`")
    out.append("/-- `_Config._change_value` -/\ndef Config.changeValue : CtxMgr :=\n  { enter := [%s], exit := [%s], exitInFinally := %s }\n"
               % (", ".join(enter), ", ".join(exit_), "true" if in_finally else "false"))
    # the public property and the public context manager must only delegate, on this option
    g, st, en = body(need("free_arithmetics")), body(need("free_arithmetics:setter")), need("enable_free_arithmetics")
    if len(g) != 1 or _src(g[0]) != f"return self._get_value({var_name!r})":
        fail(need("free_arithmetics"), "the property getter does not delegate to _get_value")
    if len(st) != 1 or _src(st[0]) != f"self._set_value({var_name!r}, value)":
        fail(need("free_arithmetics:setter"), "the property setter does not delegate to _set_value")
    eb = body(en)
    if [_src(x) for x in en.decorator_list] != ["contextlib.contextmanager"] or [x.arg for x in en.args.args] != ["self", "value"] \
            or len(en.args.defaults) != 1 or not isinstance(en.args.defaults[0], ast.Constant) or not isinstance(en.args.defaults[0].value, bool) \
            or len(eb) != 1 or not isinstance(eb[0], ast.With) or len(eb[0].items) != 1 \
            or _src(eb[0].items[0].context_expr) != f"self._change_value({var_name!r}, value)" or eb[0].items[0].optional_vars is not None \
            or len(eb[0].body) != 1 or not is_yield(eb[0].body[0]):
        fail(en, "enable_free_arithmetics does not simply wrap _change_value")
    out.append("/-- `enable_free_arithmetics(value=%s)` is `with self._change_value(option, value): yield` -/\ndef Config.enableDefault : Bool := %s\n"
               % (en.args.defaults[0].value, "true" if en.args.defaults[0].value else "false"))
    bodytxt = "\n".join(out)
    digest = hashlib.sha256(bodytxt.encode()).hexdigest()[:16]
    head = ("import Physt.Model.PyConfig\n/-! GENERATED by tools/py2lean.py from physt/config.py — do not edit; regenerated and compared on every run.\n"
            "transcribed: _make_var, __init__, _get_value, _set_value, _change_value, free_arithmetics (getter, setter), enable_free_arithmetics; "
            "not transcribed: __new__ (singleton bookkeeping)\n"
            f"digest of the definitions: {digest} -/\nnamespace Physt.Src\nopen Physt\n\n")
    return head + bodytxt + "\nend Physt.Src\n"


def json_str(x):
    import json
    return json.dumps(str(x))



# ---------------------------------------------------------------- version gate (version.py, io/json.py, io/version.py)

def _version_term(text: str) -> str:
    import re
    m = re.fullmatch(r"(\d+(?:\.\d+)*)(?:(a|b|rc)(\d+))?", text.strip())
    if not m:
        raise Unsupported(f"version string {text!r} outside the modelled PEP 440 subset (release numbers, optional a/b/rc tag)")
    rel = "[" + ", ".join(str(int(x)) for x in m.group(1).split(".")) + "]"
    pre = "none" if not m.group(2) else f"some ({ {'a': 0, 'b': 1, 'rc': 2}[m.group(2)] }, {int(m.group(3))})"
    return f"⟨{rel}, {pre}⟩"


def _module_str_const(tree, name):
    for n in tree.body:
        tgt = n.targets[0] if isinstance(n, ast.Assign) and len(n.targets) == 1 else (n.target if isinstance(n, ast.AnnAssign) else None)
        if isinstance(tgt, ast.Name) and tgt.id == name and isinstance(n.value, ast.Constant) and isinstance(n.value.value, str):
            return n.value.value
    raise Unsupported(f"module constant {name} is not a string literal")


def translate_version(src_dir: str) -> str:
    vt = ast.parse(open(os.path.join(src_dir, "version.py")).read())
    jt = ast.parse(open(os.path.join(src_dir, "io", "json.py")).read())
    gt = ast.parse(open(os.path.join(src_dir, "io", "version.py")).read())
    cur = _module_str_const(vt, "__version__")
    comp = _module_str_const(jt, "COMPATIBLE_VERSION")
    coll = _module_str_const(jt, "COLLECTION_COMPATIBLE_VERSION")
    # io/version.py: CURRENT_VERSION = __version__ ; the gate raises VersionError iff  <current> <op> <compatible>
    if not any(isinstance(n, ast.Assign) and _src(n) == "CURRENT_VERSION = __version__" for n in gt.body):
        raise Unsupported("io/version.py: CURRENT_VERSION is not __version__")
    fn = next((n for n in gt.body if isinstance(n, ast.FunctionDef) and n.name == "require_compatible_version"), None)
    if fn is None:
        raise Unsupported("require_compatible_version not found")
    raises = [n for n in ast.walk(fn) if isinstance(n, ast.If) and any(isinstance(b, ast.Raise) and "VersionError" in _src(b) for b in n.body)]
    if len(raises) != 1 or raises[0].orelse:
        fail(fn, "require_compatible_version does not have exactly one `if …: raise VersionError`")
    t = raises[0].test
    if not (isinstance(t, ast.Compare) and len(t.ops) == 1 and isinstance(t.left, ast.Name) and isinstance(t.comparators[0], ast.Name)):
        fail(t, "condition of the version gate")
    names = {"current_version": "current", "compatible_version": "compatible"}
    if {t.left.id, t.comparators[0].id} != set(names) :
        fail(t, "the version gate does not compare current_version with compatible_version")
    # both names must be what they say: current_version = parse(CURRENT_VERSION); compatible_version parsed from the argument
    if not any(isinstance(n, ast.Assign) and _src(n) == "current_version = parse(CURRENT_VERSION)" for n in ast.walk(fn)):
        fail(fn, "current_version is not parse(CURRENT_VERSION)")
    a, b = names[t.left.id], names[t.comparators[0].id]
    rel = {ast.Lt: f"({a}.cmp {b} == .lt)", ast.Gt: f"({a}.cmp {b} == .gt)",
           ast.LtE: f"({a}.cmp {b} != .gt)", ast.GtE: f"({a}.cmp {b} != .lt)"}.get(type(t.ops[0]))
    if rel is None:
        fail(t, "comparison operator of the version gate")
    # the writer: which constant goes into "physt_compatible" for which kind of object
    wr = next((n for n in jt.body if isinstance(n, ast.FunctionDef) and any("physt_compatible" in _src(x) for x in ast.walk(n) if isinstance(x, ast.Assign))), None)
    if wr is None:
        raise Unsupported("io/json.py: no function writes physt_compatible")
    assigns = [x for x in ast.walk(wr) if isinstance(x, ast.Assign) and "physt_compatible" in _src(x.targets[0])]
    vals = sorted(_src(x.value) for x in assigns)
    if vals != ["COLLECTION_COMPATIBLE_VERSION", "COMPATIBLE_VERSION"]:
        fail(wr, f"the writer stores {vals} as physt_compatible")
    if not any(isinstance(x, ast.Assign) and "physt_version" in _src(x.targets[0]) and _src(x.value) == "CURRENT_VERSION" for x in ast.walk(wr)):
        fail(wr, "the writer does not store CURRENT_VERSION as physt_version")
    body = (f"/-- `physt.__version__` = {cur!r} -/\ndef Versions.current : Version := {_version_term(cur)}\n\n"
            f"/-- `io.json.COMPATIBLE_VERSION` = {comp!r} (written into every histogram document) -/\ndef Versions.compatible : Version := {_version_term(comp)}\n\n"
            f"/-- `io.json.COLLECTION_COMPATIBLE_VERSION` = {coll!r} (written into every collection document) -/\ndef Versions.collectionCompatible : Version := {_version_term(coll)}\n\n"
            f"/-- `io.version.require_compatible_version` raises `VersionError` iff `{_src(t)}` -/\n"
            f"def Versions.gateRefuses (current compatible : Version) : Bool := {rel}\n")
    digest = hashlib.sha256(body.encode()).hexdigest()[:16]
    head = ("import Physt.Model.Json\n/-! GENERATED by tools/py2lean.py from physt/version.py, io/json.py, io/version.py — do not edit; regenerated and compared on every run.\n"
            f"digest of the definitions: {digest} -/\nnamespace Physt.Src\nopen Physt\n\n")
    return head + body + "\nend Physt.Src\n"


UNITS = {"statistics": (translate_statistics, "StatisticsSrc.lean"), "config": (translate_config, "ConfigSrc.lean"),
         "version": (translate_version, "VersionSrc.lean")}


def source_dir(arg):
    if arg:
        return arg
    import physt
    return os.path.dirname(physt.__file__)


def main():
    ap = argparse.ArgumentParser()
    ap.add_argument("unit", choices=sorted(UNITS))
    ap.add_argument("--src")
    ap.add_argument("--out")
    a = ap.parse_args()
    fn, _ = UNITS[a.unit]
    try:
        text = fn(source_dir(a.src))
    except Unsupported as e:
        print(f"py2lean: {a.unit}: outside the supported subset: {e}", file=sys.stderr)
        return 3
    if a.out:
        open(a.out, "w").write(text)
    else:
        sys.stdout.write(text)
    return 0


if __name__ == "__main__":
    sys.exit(main())

#!/venv/bin/python
"""Regenerate MANIFEST.json from tools/claims.json (one entry per claimed property) and properties.jsonl."""
import json, subprocess, sys
from pathlib import Path
V = Path(__file__).resolve().parent.parent
claims = json.loads((V / "tools" / "claims.json").read_text())
props = [json.loads(l) for l in (V / "properties.jsonl").read_text().splitlines() if l.strip()]
NOTE = ("Trusted: Lean 4.33 kernel (thorough: leanchecker); axioms propext, Classical.choice, Quot.sound only (audited each run); "
        "no native_decide/bv_decide/sorry/own axioms. The Lean model is hand-written and tied to /repo by the correspondence check "
        "of this run (differential testing bounded by the generators, positions as exact rationals); numpy/CPython semantics of "
        "the replaced calls and IEEE-754 arithmetic are assumed; the Python harness and the driver's JSON layer are trusted.")
checks, na = [], []
for p in props:
    pid = p["id"]
    c = claims.get(pid)
    if c and c.get("claimed"):
        checks.append({
            "property_id": pid,
            "quick_cmd": f"./check {pid} --tier quick",
            "thorough_cmd": f"./check {pid} --tier thorough",
            "evidence_file": f"evidence/{pid}.json",
            "replay_cmd_template": f"./check {pid} --replay {{path}}",
            "engine": "lean-model+correspondence",
            "level_claimed": {"category": "proof", "text": c["text"], "design_ref": c.get("design_ref", "DESIGN.md section 5 " + pid)},
            "level_note": NOTE + (" " + c["note"] if c.get("note") else ""),
            "technique": c.get("technique", "Lean 4 theorems about an executable model + model/implementation correspondence check + property oracle for failing-input search"),
        })
    else:
        na.append({"property_id": pid, "reason": (c or {}).get("reason", "check not built yet (work in progress in this session); no claim is made")})
hooks = subprocess.run(["git", "-C", "/repo", "log", "--format=%h", "--grep=^hook:"], capture_output=True, text=True).stdout.split()
m = {
    "version": 1,
    "setup_cmd": "cd lean && lake build Physt PhystGen physt_driver",
    "hooks": {"guard": "PHYST_VERIF", "enable": "no hooks are needed: every observation is made through physt's public API in-process (physt is an editable install of /repo/src); the checks export PHYST_VERIF=1 but the library does not read it",
              "baseline_off_cmd": "cd /repo && /venv/bin/python -m pytest -ra -q -p no:cacheprovider --timeout=900 --continue-on-collection-errors",
              "source_commits": hooks, "add_only": True},
    "engines": [{"name": "lean-model+correspondence", "path": "lean/ , harness/ , check",
                 "serves_properties": [c["property_id"] for c in checks],
                 "kind_free_text": "Lean 4 model + theorems (lake project lean/), Python correspondence harness driving the real physt and the compiled Lean driver through a JSON line protocol"}],
    "checks": checks,
    "not_applicable": na,
    "notes": "See DESIGN.md. Genuine defects found in the pinned tree were repaired by 'fix:' commits in /repo (listed under 'fixed' in known_findings.json).",
}
(V / "MANIFEST.json").write_text(json.dumps(m, indent=1))
print("claimed:", [c["property_id"] for c in checks])

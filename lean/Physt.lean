-- Root of the `Physt` library: the executable model, the driver, and every property theorem.
import Physt.Driver
import Physt.Theorems.C01

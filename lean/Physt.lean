-- Root of the `Physt` library: the executable model, the driver, and every property theorem.
import Physt.DriverND
import Physt.Theorems.C01
import Physt.Theorems.C03
import Physt.Theorems.C04
import Physt.Theorems.C05
import Physt.Theorems.C06
import Physt.Theorems.C10
import Physt.Theorems.C11
import Physt.Theorems.C13
import Physt.Theorems.C14
import Physt.Theorems.C18
import Physt.Theorems.C19
import Physt.Theorems.C02
import Physt.Theorems.C09
import Physt.Theorems.C12
import Physt.Theorems.C15
import Physt.Theorems.C16

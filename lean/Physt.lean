-- Root of the `Physt` library: the executable model, the driver, and every property theorem.
import Physt.DriverND
import Physt.Theorems.C01

-- Root of the `Physt` library: the executable model, the driver, and every property theorem.
import Physt.DriverND
import Physt.Theorems.C01
import Physt.Theorems.C03
import Physt.Theorems.C04
import Physt.Theorems.C19

import Physt.DriverND

partial def loop (h : IO.FS.Stream) (out : IO.FS.Stream) : IO Unit := do
  let line ← h.getLine
  if line.isEmpty then return ()
  let t := line.trimAscii.toString
  if !t.isEmpty then
    out.putStrLn (Physt.Driver.handleLineAll t)
  loop h out

def main : IO Unit := do
  let out ← IO.getStdout
  loop (← IO.getStdin) out
  out.flush

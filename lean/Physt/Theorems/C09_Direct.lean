import Physt.Proofs.ProjectDirect
/-!
# C09 (continued) — the projection equals the histogram built directly from the kept columns

`Theorems/C09.lean` / `C09_Laws.lean` prove that a projection holds the marginal sums, keeps the
kept axes in their original order and has the parent's total.  Here the last clause of the
property: **the projection equals the histogram constructed directly from the kept columns whenever
no row missed the dropped axes' bins** — and, without that hypothesis, exactly which rows the
projection holds.  Helper lemmas: `Proofs/ProjectDirect.lean`.

Vocabulary (all for every number of axes, every shape, every list of rows):

* `hitsAxis axes j v` — the row `v` has a `j`-th coordinate and it lies in some bin of axis `j`;
* `hitRows axes j rows` — the rows that hit axis `j`, column `j` erased;
* `keptOf A keep n` — the entries of `A` at the kept positions below `n`, in their original order
  (`Proofs/ArrayLaws.lean`; `HN.projection` keeps `keptOf h.axes …`, `HN.projection_eq`);
* `hitsDropped axes keep n v` — `v` hits every axis below `n` that is not kept;
* `keptRows axes keep n rows` — the rows that hit all dropped axes, reduced to their kept coordinates;
* `keepOf ax` — the predicate "position `i` is one of the resolved positions `ax`".
-/
namespace Physt

/-- **One axis, general form (no hypothesis on misses).**  Summing the contents (and the squared
    errors) of `calculate_nd_frequencies` over axis `j` gives the contents (squared errors), over
    the remaining axes, of exactly those rows whose `j`-th coordinate lies in some bin of axis `j`,
    with that coordinate erased.  Rows that fell into a gap of, or outside, axis `j` are in
    neither side; rows outside the *other* axes are missed on both sides.  No hypothesis on the
    rows: a row with too few coordinates is counted by neither side, surplus coordinates are
    ignored by both.  (`j < axes.length`: the axis summed over exists.) -/
theorem C09_direct_axis (axes : AxesB) (rows : List Row) (j : Nat) (hj : j < axes.length) :
    (calcND axes rows).freq.sumAxis j = (calcND (axes.eraseIdx j) (hitRows axes j rows)).freq ∧
    (calcND axes rows).err2.sumAxis j = (calcND (axes.eraseIdx j) (hitRows axes j rows)).err2 :=
  calcND_sumAxis axes rows j hj

/-- **One axis, no row missed it**: the marginal over axis `j` *is* the histogram of all the rows
    with column `j` erased. -/
theorem C09_direct_axis_nomiss (axes : AxesB) (rows : List Row) (j : Nat) (hj : j < axes.length)
    (hall : ∀ r ∈ rows, hitsAxis axes j r.1 = true) :
    (calcND axes rows).freq.sumAxis j
      = (calcND (axes.eraseIdx j) (rows.map fun r => (r.1.eraseIdx j, r.2))).freq ∧
    (calcND axes rows).err2.sumAxis j
      = (calcND (axes.eraseIdx j) (rows.map fun r => (r.1.eraseIdx j, r.2))).err2 :=
  calcND_sumAxis_all axes rows j hj hall

/-- **Any set of dropped axes, general form**, summed the way `projection` sums them
    (`dropList`: the non-kept positions in decreasing order): the result is the histogram, over the
    kept axes *in their original order*, of exactly the rows that missed none of the dropped axes,
    reduced to their kept coordinates in their original order. -/
theorem C09_direct_axes (axes : AxesB) (rows : List Row) (keep : Nat → Bool) :
    (calcND axes rows).freq.sumAxes (dropList axes.length keep)
      = (calcND (keptOf axes keep axes.length) (keptRows axes keep axes.length rows)).freq ∧
    (calcND axes rows).err2.sumAxes (dropList axes.length keep)
      = (calcND (keptOf axes keep axes.length) (keptRows axes keep axes.length rows)).err2 :=
  calcND_sumAxes axes rows keep

/-- **Any set of dropped axes, no row missed any of them**: the result is the histogram of all the
    rows reduced to their kept coordinates. -/
theorem C09_direct_axes_nomiss (axes : AxesB) (rows : List Row) (keep : Nat → Bool)
    (hall : ∀ r ∈ rows, hitsDropped axes keep axes.length r.1 = true) :
    (calcND axes rows).freq.sumAxes (dropList axes.length keep)
      = (calcND (keptOf axes keep axes.length) (rows.map fun r => (keptOf r.1 keep axes.length, r.2))).freq ∧
    (calcND axes rows).err2.sumAxes (dropList axes.length keep)
      = (calcND (keptOf axes keep axes.length) (rows.map fun r => (keptOf r.1 keep axes.length, r.2))).err2 :=
  calcND_sumAxes_all axes rows keep hall

/-- **What a projection of a constructed histogram holds.**  If `h` was constructed from `data`
    (with weights `ws`) over `axes` and `r = h.projection sel`, with `ax` the resolved positions of
    `sel`: the bins of `r` are the kept binnings in their original order, and its contents and
    squared errors are those of `calculate_nd_frequencies` over the kept axes applied to the kept
    coordinates of exactly the NaN-masked rows that missed none of the dropped axes. -/
theorem C09_projection_rows (fo : FloatOps) (axes : List Binning) (data : List (List (Option Rat)))
    (ws : Option (List Rat)) (wkind : DType) (dropna : Bool) (names : Option (List String)) (h r : HN)
    (sel : List (Sum Int String))
    (hc : HN.construct fo axes data ws wkind dropna names = .ok h) (hr : h.projection sel = .ok r) :
    ∃ ax, sel.mapM h.getAxis = .ok ax ∧
      r.axes = keptOf axes (keepOf ax) axes.length ∧
      r.freq = (calcND (axesOf fo (keptOf axes (keepOf ax) axes.length))
        (keptRows (axesOf fo axes) (keepOf ax) axes.length (maskRows data ws))).freq ∧
      r.err2 = (calcND (axesOf fo (keptOf axes (keepOf ax) axes.length))
        (keptRows (axesOf fo axes) (keepOf ax) axes.length (maskRows data ws))).err2 :=
  HN.projection_of_construct fo axes data ws wkind dropna names h r sel hc hr

/-- **The projection equals the histogram built directly from the kept columns** — weakest
    hypothesis: every data row that is NaN-free in its kept columns is NaN-free altogether and has
    a bin on every dropped axis.  (A row with a NaN in a kept column is dropped by both sides and
    may hold anything elsewhere.)  Then for *every* accepted direct construction `c` from the kept
    binnings and the kept columns with the same weights (any dtype, `dropna`, names):
    same contents, same squared errors, same bins.

    Not claimed: `missed`.  A projection reports `missed = 0` (`HN.projection_missed`), while the
    direct construction counts the weight of the rows outside the *kept* axes; nor the names when
    the direct construction is given other names. -/
theorem C09_projection_eq_direct (fo : FloatOps) (axes : List Binning) (data : List (List (Option Rat)))
    (ws : Option (List Rat)) (wkind : DType) (dropna : Bool) (names : Option (List String)) (h r : HN)
    (sel : List (Sum Int String))
    (hc : HN.construct fo axes data ws wkind dropna names = .ok h) (hr : h.projection sel = .ok r)
    (ax : List Nat) (hax : sel.mapM h.getAxis = .ok ax)
    (hnm : ∀ q ∈ data, (keptOf q (keepOf ax) axes.length).all Option.isSome = true →
      q.all Option.isSome = true ∧ hitsDropped (axesOf fo axes) (keepOf ax) axes.length (q.filterMap id) = true)
    (wkind' : DType) (dropna' : Bool) (names' : Option (List String)) (c : HN)
    (hd : HN.construct fo (keptOf axes (keepOf ax) axes.length)
      (data.map fun q => keptOf q (keepOf ax) axes.length) ws wkind' dropna' names' = .ok c) :
    r.freq = c.freq ∧ r.err2 = c.err2 ∧ r.axes = c.axes :=
  HN.projection_eq_direct fo axes data ws wkind dropna names h r sel hc hr ax hax hnm wkind' dropna' names' c hd

/-- **The property as stated**: `h` constructed from `data`, `r = h.projection sel`.  If no row has
    a NaN in, or misses the bins of, a dropped column (`NoMissDropped`), then the direct
    construction from the kept binnings and the kept columns (same weights, same `dropna`) is
    accepted, and the projection has its contents, its squared errors and its bins.  The totals
    agree in particular.  (`missed` differs in general: see `C09_projection_eq_direct`.) -/
theorem C09_projection_is_direct (fo : FloatOps) (axes : List Binning) (data : List (List (Option Rat)))
    (ws : Option (List Rat)) (wkind : DType) (dropna : Bool) (names : Option (List String)) (h r : HN)
    (sel : List (Sum Int String))
    (hc : HN.construct fo axes data ws wkind dropna names = .ok h) (hr : h.projection sel = .ok r)
    (wkind' : DType) (names' : Option (List String)) :
    ∃ ax, sel.mapM h.getAxis = .ok ax ∧
      (NoMissDropped fo axes (keepOf ax) data →
        ∃ c, HN.construct fo (keptOf axes (keepOf ax) axes.length)
            (data.map fun q => keptOf q (keepOf ax) axes.length) ws wkind' dropna names' = .ok c ∧
          r.freq = c.freq ∧ r.err2 = c.err2 ∧ r.axes = c.axes ∧ r.freq.total = c.freq.total ∧
          r.missed = some 0) := by
  obtain ⟨ax, hax, _⟩ := HN.projection_of_construct fo axes data ws wkind dropna names h r sel hc hr
  refine ⟨ax, hax, ?_⟩
  intro hno
  obtain ⟨c, hd⟩ := HN.construct_kept_accepted fo axes data ws wkind dropna names h hc (keepOf ax) wkind' names'
  have hcol := (construct_checks fo axes data ws wkind dropna names h hc).1
  obtain ⟨e1, e2, e3⟩ := HN.projection_eq_direct fo axes data ws wkind dropna names h r sel hc hr ax hax
    (noMiss_weak fo axes (keepOf ax) data hcol hno) wkind' dropna names' c hd
  exact ⟨c, hd, e1, e2, e3, by rw [e1], HN.projection_missed h r sel hr⟩

/-! ## Non-vacuity: a 3-D data set, a gapped right-open dropped axis, rows outside, a NaN row -/

namespace C09DirectExample

/-- `x`: 2 bins; `y`: 3 bins with a gap `[4, 5)`, right-open; `z`: 2 bins -/
def axes : List Binning :=
  [.static [(0, 1), (1, 2)] true, .static [(0, 2), (2, 4), (5, 6)] false, .static [(0, 3), (3, 6)] true]

/-- columns `x, y, z`.  Row 3 is outside `x`, row 4 outside `z` (kept axes: allowed), row 5 has a
    NaN in the kept column `x` (allowed); every `y` lies in a bin of the gapped axis `y`. -/
def data : List (List (Option Rat)) :=
  [[some (1 / 2), some 1, some 1],
   [some (3 / 2), some 3, some 4],
   [some 5, some 1, some 1],
   [some (3 / 2), some (11 / 2), some 7],
   [none, some 1, some 2],
   [some 2, some 3, some 6],
   [some (1 / 2), some 5, some 3]]

def weights : List Rat := [2, 1, 3, 1, 7, 1, 4]

/-- one more row whose `y = 9/2` falls into the gap of the dropped axis -/
def dataGap : List (List (Option Rat)) := data ++ [[some (1 / 2), some (9 / 2), some 1]]
def weightsGap : List Rat := weights ++ [5]

def parent : HN :=
  match HN.construct FloatOps.exact axes data (some weights) .f64 true (some ["x", "y", "z"]) with
  | .ok h => h
  | .error _ => default

theorem parent_ok :
    HN.construct FloatOps.exact axes data (some weights) .f64 true (some ["x", "y", "z"]) = .ok parent := by
  apply Except.eq_ok_of_toOption
  decide +kernel

def proj : HN :=
  match parent.projection [.inl 2, .inr "x"] with
  | .ok r => r
  | .error _ => default

theorem proj_ok : parent.projection [.inl 2, .inr "x"] = .ok proj := by
  apply Except.eq_ok_of_toOption
  decide +kernel

theorem sel_ok : [Sum.inl 2, Sum.inr "x"].mapM parent.getAxis = .ok [2, 0] := by
  apply Except.eq_ok_of_toOption
  decide +kernel

/-- the plain hypothesis holds: no row has a NaN in, or misses, the dropped column `y` -/
theorem noMiss : NoMissDropped FloatOps.exact axes (keepOf [2, 0]) data :=
  noMissDropped_of_B _ _ _ _ (by decide +kernel)

/-- **`C09_projection_is_direct` instantiated**: projecting the 3-D histogram onto (`z`, `x`) —
    requested out of order — gives the contents, squared errors and bins of the 2-D histogram built
    directly from columns `x, z` (in their original order). -/
example : ∃ c, HN.construct FloatOps.exact (keptOf axes (keepOf [2, 0]) axes.length)
      (data.map fun q => keptOf q (keepOf [2, 0]) axes.length) (some weights) .f64 true none = .ok c ∧
    proj.freq = c.freq ∧ proj.err2 = c.err2 ∧ proj.axes = c.axes := by
  obtain ⟨ax, hax, hmain⟩ := C09_projection_is_direct FloatOps.exact axes data (some weights) .f64 true
    (some ["x", "y", "z"]) parent proj [.inl 2, .inr "x"] parent_ok proj_ok .f64 none
  rw [sel_ok] at hax
  cases hax
  obtain ⟨c, hd, e1, e2, e3, _⟩ := hmain noMiss
  exact ⟨c, hd, e1, e2, e3⟩

/-- … the weakest hypothesis of `C09_projection_eq_direct` is decidable and holds here too … -/
example : ∀ q ∈ data, (keptOf q (keepOf [2, 0]) axes.length).all Option.isSome = true →
    q.all Option.isSome = true ∧
      hitsDropped (axesOf FloatOps.exact axes) (keepOf [2, 0]) axes.length (q.filterMap id) = true := by
  decide +kernel

/-- … and the objects are what one expects (computed by the kernel): the kept binnings are `x, z`,
    the kept columns are columns 0 and 2, the projection is not trivial (rows 3 and 4 are outside
    the kept axes, row 5 is masked), and the direct construction reports `missed = 4` where the
    projection reports `0`. -/
example :
    keptOf axes (keepOf [2, 0]) axes.length = [.static [(0, 1), (1, 2)] true, .static [(0, 3), (3, 6)] true] ∧
    (data.map fun q => keptOf q (keepOf [2, 0]) axes.length).take 2
      = [[some (1 / 2), some 1], [some (3 / 2), some 4]] ∧
    parent.freq.shape = [2, 3, 2] ∧ parent.missed = some 4 ∧
    proj.freq = { shape := [2, 2], data := [2, 4, 0, 2] } ∧
    proj.err2 = { shape := [2, 2], data := [4, 16, 0, 2] } ∧
    proj.names = ["x", "z"] ∧ proj.missed = some 0 ∧
    ((HN.construct FloatOps.exact (keptOf axes (keepOf [2, 0]) axes.length)
        (data.map fun q => keptOf q (keepOf [2, 0]) axes.length) (some weights) .f64 true none).toOption.map
      fun c => (c.freq, c.err2, c.axes, c.missed)) = some (proj.freq, proj.err2, proj.axes, some 4) := by
  decide +kernel

/-- **The hypothesis is needed, and the general form says what happens without it.**  With the
    extra row in the gap of `y` (weight 5): the projection still holds exactly the rows that hit
    `y` (`C09_projection_rows`: the same arrays as before), while the direct construction from
    columns `x, z` also counts the extra row. -/
example :
    let p := HN.construct FloatOps.exact axes dataGap (some weightsGap) .f64 true (some ["x", "y", "z"])
    let r := p.bind fun h => h.projection [.inl 2, .inr "x"]
    let c := HN.construct FloatOps.exact (keptOf axes (keepOf [2, 0]) 3)
      (dataGap.map fun q => keptOf q (keepOf [2, 0]) 3) (some weightsGap) .f64 true none
    (r.toOption.map fun r => r.freq.data) = some [2, 4, 0, 2] ∧
    (c.toOption.map fun c => c.freq.data) = some [7, 4, 0, 2] ∧
    (keptRows (axesOf FloatOps.exact axes) (keepOf [2, 0]) 3 (maskRows dataGap (some weightsGap))).length = 6 ∧
    (maskRows dataGap (some weightsGap)).length = 7 := by
  decide +kernel

/-- the array-level theorems on the same data: one axis (`y`, position 1) summed out -/
example :
    let rows := maskRows dataGap (some weightsGap)
    let ab := axesOf FloatOps.exact axes
    1 < ab.length ∧
    ((calcND ab rows).freq.sumAxis 1).data = [2, 4, 0, 2] ∧
    (calcND (ab.eraseIdx 1) (hitRows ab 1 rows)).freq.data = [2, 4, 0, 2] ∧
    (calcND (ab.eraseIdx 1) (rows.map fun r => (r.1.eraseIdx 1, r.2))).freq.data = [7, 4, 0, 2] := by
  decide +kernel

end C09DirectExample

end Physt

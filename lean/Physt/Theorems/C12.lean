import Physt.Theorems.C01
namespace Physt
theorem C12_placeholder : True := trivial
end Physt

import Physt.Theorems.C18
/-!
# C12 — derived histograms are independent of their sources

In the model a histogram is a *value*: the record returned by a derivation shares nothing with
its source, and an in-place operation is a function from the old value of its target to the new
one.  Independence is therefore a frame property of the register store the driver keeps — stated
and proved below for an arbitrary store — and what has to be established about the *code* is that
it behaves like this value model.  That is exactly what the correspondence check of C12 does: after
every step of every generated (derivation, mutation history) it compares **all** live histograms of
the implementation with the model's registers, so any aliasing between two Python objects shows up
as a register that changed without being written.
-/
namespace Physt
open H1

/-- a register store: histogram number `i`, if it exists -/
abbrev Store := Nat → Option H1

def Store.write (s : Store) (i : Nat) (h : H1) : Store := fun j => if j = i then some h else s j

/-- **Frame.** Writing register `i` (the result of a derivation, or the new value of the target of
    an in-place operation) leaves every other register exactly as it was. -/
theorem C12_frame (s : Store) (i j : Nat) (h : H1) (hij : j ≠ i) : (s.write i h) j = s j := by
  simp [Store.write, hij]

/-- …and this holds along every history of writes that never target `j`. -/
theorem C12_history (s : Store) (j : Nat) (ws : List (Nat × H1)) (hno : ∀ w ∈ ws, w.1 ≠ j) :
    (ws.foldl (fun s w => s.write w.1 w.2) s) j = s j := by
  induction ws generalizing s with
  | nil => rfl
  | cons w ws ih =>
    simp only [List.foldl_cons]
    rw [ih _ (fun x hx => hno x (List.mem_cons_of_mem _ hx))]
    exact C12_frame s w.1 j w.2 (fun e => hno w (List.mem_cons_self ..) e.symm)

/-- `copy()` is equal to the original in every field (class, dtype, metadata and statistics are
    fields of the value) -/
theorem C12_copy (h : H1) : h.copy true = h := rfl

/-- `copy(include_frequencies=False)` is empty over the same bins, keeps dtype and `keep_missed`,
    starts with empty (valid) statistics, and is well-formed — hence fully usable -/
theorem C12_empty_copy (fo : FloatOps) (h : H1) (w : WF fo h) :
    (h.copy false).binning = h.binning ∧ (h.copy false).dtype = h.dtype ∧ (h.copy false).keep = h.keep ∧
    (h.copy false).stats = Stats.empty ∧ (h.copy false).total = 0 ∧ WF fo (h.copy false) := by
  refine ⟨rfl, rfl, rfl, rfl, ?_, ?_⟩
  · simp [H1.copy, H1.total, zeros]
  · refine ⟨by simp [H1.copy, H1.bins, zeros, w.flen], by simp [H1.copy, H1.bins, zeros, w.elen], ?_, ?_⟩ <;>
      (intro x hx; simp [H1.copy, zeros] at hx; rw [hx.2])

/-- operations that are not in-place are functions of their operands: the operands are unchanged
    by definition (e.g. `a + b` is `a.iadd b` applied to a *copy* of `a`) -/
theorem C12_pure_ops (fo : FloatOps) (a b : H1) :
    (a.copy true).iadd fo b = a.iadd fo b ∧ (a.copy true).imul 2 .pyInt = a.imul 2 .pyInt := ⟨rfl, rfl⟩

example : (Store.write (fun _ => none) 0 ({ binning := .static [(0, 1)] true, freq := [1], err2 := [1] } : H1)) 1 = none := rfl

end Physt

import Physt.Proofs.Compose
/-!
# C01 ∘ C07 / C04 — `h1(data, <binning derived from the data>)` counts every value once and misses nothing

`C01_content` / `C01_accounting` take explicit rising bins; the factory theorems (`C07_*`, `C04_*`) say what
bins each factory derives from the data.  Here the two are composed, per factory: the binning the
factory derives FROM THE DATA ITSELF is accepted by `H1.construct`, is rising and consecutive, every
non-NaN value lies in exactly one bin, underflow = overflow = 0, `total = Σ weights` and every bin
holds the weight of the values inside it.  Helper lemmas: `Proofs/Compose.lean`.

Reading guide:
* `ArgsOk vs ws wkind dtype dropna` — the arguments pass the validations of `h1` that do not concern the
  bins (`dropna=False` only without NaN; weights have the shape of the data; no integer histogram
  from float weights);
* `CountsAll bins pts h` — `h` has one content / squared error per bin, content `i` is
  `Σ weights of the values v with inBin bins true i v` (`left ≤ v < right`, last bin `≤ right`), squared
  error `i` is the sum of their squared weights, every value lies in exactly one bin, `under = over =
  inner = 0` (read as NaN through the properties when `keep_missed=False`), `total = Σ weights`,
  and the recorded statistics weight is `Σ weights`;
* `maskPts vs ws` — the (value, weight) pairs left after the NaN mask (`C01_nan_*`);
* `fixedWidthOf fo fuel g0 ire vs` — the grid `fixed_width_binning(data)` produces from the empty grid `g0`;
* `TightOn edge g vals ire` — the grid has at least one bin, the least value lies in its first bin and the
  greatest in its last one (or, with `includes_right_edge`, exactly on the last edge).
-/
namespace Physt
open Grid H1

/-- **The generic step.**  Over ANY rising, consecutive, non-empty binning whose first edge is at or
    below and whose last edge is at or above every non-NaN value, `h1` is accepted, keeps the binning,
    and counts every value exactly once with nothing missed. -/
theorem C01_covering (fo : FloatOps) (b : Binning) (vs : List (Option Rat)) (ws : Option (List Rat))
    (wkind : DType) (dtype : Option DType) (keep dropna : Bool) (ok : ArgsOk vs ws wkind dtype dropna)
    (hr : Rising (b.bins fo)) (hc : consecutiveB (b.bins fo) = true) (hne : b.bins fo ≠ [])
    (hspan : ∀ p ∈ maskPts vs ws, ((b.bins fo).head hne).1 ≤ p.1 ∧ p.1 ≤ ((b.bins fo).getLast hne).2) :
    ∃ h : H1, H1.construct fo b vs ws wkind dtype keep dropna = .ok h ∧ h.binning = b ∧ h.keep = keep ∧
      h.dtype = constructDType ws wkind dtype ∧ CountsAll (b.bins fo) (maskPts vs ws) h :=
  construct_spanning fo b vs ws wkind dtype keep dropna ok hr hc hne hspan

/-- **`fixed_width` in exact arithmetic.**  For any positive width, any origin (aligned grid), either value of
    `includes_right_edge` and any data with at least one non-NaN value: the grid derived from the data
    is accepted by `h1`; its bins are rising, consecutive, of the requested width and origin; every
    value is counted once, nothing is missed; the grid is tight around the data. -/
theorem C01_fixed_width_exact (fuel : Nat) (g0 : Grid) (h0 : g0.count = 0) (halign : g0.align = true)
    (hw : 0 < g0.w) (ire : Bool) (vs : List (Option Rat)) (ws : Option (List Rat)) (wkind : DType)
    (dtype : Option DType) (keep dropna : Bool) (ok : ArgsOk vs ws wkind dtype dropna)
    (hdata : vs.filterMap id ≠ []) :
    let g := fixedWidthOf FloatOps.exact fuel g0 ire vs
    ∃ h : H1, H1.construct FloatOps.exact (.fixed g) vs ws wkind dtype keep dropna = .ok h ∧
      h.binning = .fixed g ∧ h.keep = keep ∧ h.dtype = constructDType ws wkind dtype ∧
      CountsAll (g.bins FloatOps.exact) (maskPts vs ws) h ∧
      Rising (g.bins FloatOps.exact) ∧ consecutiveB (g.bins FloatOps.exact) = true ∧
      g.w = g0.w ∧ g.shift = g0.shift ∧
      TightOn (FloatOps.exact.edge g0.w g0.shift) g (vs.filterMap id) ire :=
  construct_fixed_width_exact fuel g0 h0 halign hw ire vs ws wkind dtype keep dropna ok hdata

/-- **`fixed_width` in any arithmetic.**  The same for EVERY `FloatOps` instance (the parameter standing for
    the floating-point computation of the edges `k*w + shift` and of the cell estimate) under the
    hypotheses of C04: the edge function is strictly increasing, and the corrected cell search reaches
    the cells of the least and of the greatest value within its fuel.  Rounding can then neither lose a
    value nor leave one outside the bins. -/
theorem C01_fixed_width (fo : FloatOps) (fuel : Nat) (g0 : Grid) (h0 : g0.count = 0)
    (halign : g0.align = true) (hm : EdgeMono fo g0.w g0.shift) (ire : Bool)
    (vs : List (Option Rat)) (ws : Option (List Rat)) (wkind : DType) (dtype : Option DType)
    (keep dropna : Bool) (ok : ArgsOk vs ws wkind dtype dropna) (hdata : vs.filterMap id ≠ [])
    (hreach : ∀ v, (listMin (vs.filterMap id) = some v ∨ listMax (vs.filterMap id) = some v) →
      Reach fo g0.w g0.shift fuel v) :
    let g := fixedWidthOf fo fuel g0 ire vs
    ∃ h : H1, H1.construct fo (.fixed g) vs ws wkind dtype keep dropna = .ok h ∧
      h.binning = .fixed g ∧ h.keep = keep ∧ h.dtype = constructDType ws wkind dtype ∧
      CountsAll (g.bins fo) (maskPts vs ws) h ∧
      Rising (g.bins fo) ∧ consecutiveB (g.bins fo) = true ∧ g.w = g0.w ∧ g.shift = g0.shift ∧
      TightOn (fo.edge g0.w g0.shift) g (vs.filterMap id) ire :=
  construct_fixed_width fo fuel g0 h0 halign hm ire vs ws wkind dtype keep dropna ok hdata hreach

/-- **`fixed_width` with `align=False`, exact arithmetic.**  The alignment hypothesis of the two theorems above
    can be dropped in exact arithmetic: the origin then moves onto the least value, which becomes the first
    edge; the bins are accepted, of the requested width, and count every value once with nothing missed. -/
theorem C01_fixed_width_unaligned_exact (fuel : Nat) (g0 : Grid) (h0 : g0.count = 0)
    (hal : g0.align = false) (hw : 0 < g0.w) (ire : Bool)
    (vs : List (Option Rat)) (ws : Option (List Rat)) (wkind : DType) (dtype : Option DType)
    (keep dropna : Bool) (ok : ArgsOk vs ws wkind dtype dropna) (lo : Rat)
    (hmin : listMin (vs.filterMap id) = some lo) :
    let g := fixedWidthOf FloatOps.exact fuel g0 ire vs
    ∃ h : H1, H1.construct FloatOps.exact (.fixed g) vs ws wkind dtype keep dropna = .ok h ∧
      h.binning = .fixed g ∧ h.keep = keep ∧ h.dtype = constructDType ws wkind dtype ∧
      CountsAll (g.bins FloatOps.exact) (maskPts vs ws) h ∧
      Rising (g.bins FloatOps.exact) ∧ consecutiveB (g.bins FloatOps.exact) = true ∧
      g.w = g0.w ∧ 0 < g.count ∧ g.firstEdge FloatOps.exact = lo :=
  construct_fixed_width_unaligned_exact fuel g0 h0 hal hw ire vs ws wkind dtype keep dropna ok lo hmin

/-- **Any grid that spans the data** (e.g. one given by an explicit `range=`, or an adaptive grid after
    fills): with strictly increasing edges, first edge `≤` and last edge `≥` every value, `h1` counts every
    value once and misses nothing. -/
theorem C01_grid_covering (fo : FloatOps) (g : Grid) (hn : 0 < g.count) (hm : EdgeMono fo g.w g.shift)
    (vs : List (Option Rat)) (ws : Option (List Rat)) (wkind : DType) (dtype : Option DType)
    (keep dropna : Bool) (ok : ArgsOk vs ws wkind dtype dropna)
    (hlo : ∀ v ∈ vs.filterMap id, g.edgeAt fo g.tmin ≤ v)
    (hhi : ∀ v ∈ vs.filterMap id, v ≤ g.edgeAt fo (g.tmin + g.count)) :
    ∃ h : H1, H1.construct fo (.fixed g) vs ws wkind dtype keep dropna = .ok h ∧ h.binning = .fixed g ∧
      h.keep = keep ∧ h.dtype = constructDType ws wkind dtype ∧ CountsAll (g.bins fo) (maskPts vs ws) h ∧
      Rising (g.bins fo) ∧ consecutiveB (g.bins fo) = true :=
  construct_grid_spanning fo g hn hm vs ws wkind dtype keep dropna ok hlo hhi

/-- the empty grid `integer_binning` starts from: width 1, origin 0.5 -/
def integerGrid (adaptive : Bool) : Grid := { w := 1, shift := 1 / 2, adaptive := adaptive }

/-- **`integer` bins.**  The bins derived from the data have width 1 and are centred on integers (bin `i` is
    `[c - 1/2, c + 1/2)` with `c = tmin + i + 1`); `h1` accepts them and misses nothing; and when
    every value is an integer, the content of bin `i` is exactly the weight of the values EQUAL to `c`. -/
theorem C01_integer (fuel : Nat) (adaptive : Bool) (vs : List (Option Rat)) (ws : Option (List Rat))
    (wkind : DType) (dtype : Option DType) (keep dropna : Bool) (ok : ArgsOk vs ws wkind dtype dropna)
    (hdata : vs.filterMap id ≠ []) :
    let g := fixedWidthOf FloatOps.exact fuel (integerGrid adaptive) false vs
    ∃ h : H1, H1.construct FloatOps.exact (.fixed g) vs ws wkind dtype keep dropna = .ok h ∧
      h.binning = .fixed g ∧ CountsAll (g.bins FloatOps.exact) (maskPts vs ws) h ∧ 0 < g.count ∧
      (∀ i, i < g.count → (g.bins FloatOps.exact)[i]?
        = some (((g.tmin + i + 1 : Int) : Rat) - 1 / 2, ((g.tmin + i + 1 : Int) : Rat) + 1 / 2)) ∧
      ((∀ v ∈ vs.filterMap id, ∃ m : Int, v = (m : Rat)) → ∀ i, i < g.count →
        h.freq[i]? = some (wsum ((maskPts vs ws).filter fun p => decide (p.1 = ((g.tmin + i + 1 : Int) : Rat))))) := by
  intro g
  obtain ⟨h, hc, hb, _, _, hcount, _, _, hw, hs, htight⟩ :=
    construct_fixed_width_exact fuel (integerGrid adaptive) rfl rfl (by simp [integerGrid]) false vs ws wkind dtype
      keep dropna ok hdata
  have hw' : g.w = 1 := hw
  have hs' : g.shift = 1 / 2 := hs
  have hlen : (g.bins FloatOps.exact).length = g.count := by rw [bins_eq_binsFrom, binsFrom_length]
  refine ⟨h, hc, hb, hcount, htight.pos, fun i hi => (integer_bin_iff g hw' hs' i hi 0).1, ?_⟩
  intro hint i hi
  rw [hcount.content i (by rw [hlen]; exact hi)]
  congr 2
  exact integer_bin_filter g hw' hs' (maskPts vs ws)
    (fun p hp => hint p.1 (mem_vals_of_mem_maskPts vs ws ok.shape p hp)) i hi

/-- **`pretty` bins.**  Whatever raw width `range / bin_count` the pretty rule starts from, the width it
    chooses among positive candidates (in particular among the decimal candidates `{0.5, 1, 2, 2.5, 5, 10}·10^p`)
    is positive, so the fixed-width statement applies to the grid of that width. -/
theorem C01_pretty (fuel : Nat) (raw : Rat) (cands : List Rat) (hpos : ∀ c ∈ cands, 0 < c) (w : Rat)
    (hchoice : prettyChoice raw cands = some w) (g0 : Grid) (hgw : g0.w = w) (h0 : g0.count = 0)
    (halign : g0.align = true) (ire : Bool) (vs : List (Option Rat)) (ws : Option (List Rat)) (wkind : DType)
    (dtype : Option DType) (keep dropna : Bool) (ok : ArgsOk vs ws wkind dtype dropna)
    (hdata : vs.filterMap id ≠ []) :
    let g := fixedWidthOf FloatOps.exact fuel g0 ire vs
    w ∈ cands ∧ (∀ c ∈ cands, ratioDist raw w ≤ ratioDist raw c) ∧
    ∃ h : H1, H1.construct FloatOps.exact (.fixed g) vs ws wkind dtype keep dropna = .ok h ∧
      h.binning = .fixed g ∧ CountsAll (g.bins FloatOps.exact) (maskPts vs ws) h ∧ g.w = w ∧
      TightOn (FloatOps.exact.edge g0.w g0.shift) g (vs.filterMap id) ire := by
  intro g
  have hwpos : 0 < g0.w := by rw [hgw]; exact prettyChoice_pos raw cands hpos w hchoice
  have hne : cands ≠ [] := by intro h; subst h; simp [prettyChoice] at hchoice
  obtain ⟨w', hw', hmem, hbest⟩ := C07_pretty raw cands hne
  rw [hchoice] at hw'; cases hw'
  obtain ⟨h, hc, hb, _, _, hcount, _, _, hw, _, htight⟩ :=
    construct_fixed_width_exact fuel g0 h0 halign hwpos ire vs ws wkind dtype keep dropna ok hdata
  exact ⟨hmem, hbest, h, hc, hb, hcount, hw.trans hgw, htight⟩

/-- the decimal candidates are positive for a positive power of ten -/
theorem C01_pretty_candidates (p : Rat) (hp : 0 < p) : ∀ c ∈ decimalCandidates p, 0 < c :=
  decimalCandidates_pos p hp

/-- **numpy-style `bins=n` in exact arithmetic.**  With at least two different non-NaN values (least `lo`,
    greatest `hi`) and `n ≥ 1`: the `n` equal bins from `lo` to `hi` are accepted, rising, consecutive, of
    width `(hi - lo) / n`; every value is counted once (the greatest one in the last, right-closed bin)
    and nothing is missed. -/
theorem C01_numpy_exact (fo : FloatOps) (n : Nat) (hn : 0 < n) (ire : Bool)
    (vs : List (Option Rat)) (ws : Option (List Rat)) (wkind : DType) (dtype : Option DType)
    (keep dropna : Bool) (ok : ArgsOk vs ws wkind dtype dropna) (lo hi : Rat)
    (hmin : listMin (vs.filterMap id) = some lo) (hmax : listMax (vs.filterMap id) = some hi) (hlt : lo < hi) :
    let bins := edgesToBins (linspace lo hi n)
    ∃ h : H1, H1.construct fo (.static bins ire) vs ws wkind dtype keep dropna = .ok h ∧
      h.binning = .static bins ire ∧ h.keep = keep ∧ h.dtype = constructDType ws wkind dtype ∧
      CountsAll bins (maskPts vs ws) h ∧ Rising bins ∧ consecutiveB bins = true ∧ bins.length = n ∧
      ∀ b ∈ bins, b.2 - b.1 = (hi - lo) / n :=
  construct_numpy_exact fo n hn ire vs ws wkind dtype keep dropna ok lo hi hmin hmax hlt

/-- **numpy-style bins in any arithmetic.**  For ANY list of computed edges that strictly increases, starts
    at or below the least and ends at or above the greatest value (what `np.linspace(min, max, n+1)`
    guarantees: its end points are exact), the same conclusion holds.  When rounding makes two computed
    edges coincide the hypothesis fails, and `C07_refuse` / `C01_quantile` show such bins are refused. -/
theorem C01_numpy_edges (fo : FloatOps) (e : List Rat) (he : e.Pairwise (· < ·)) (h2 : 2 ≤ e.length)
    (hne : e ≠ []) (ire : Bool)
    (vs : List (Option Rat)) (ws : Option (List Rat)) (wkind : DType) (dtype : Option DType)
    (keep dropna : Bool) (ok : ArgsOk vs ws wkind dtype dropna)
    (hspan : ∀ v ∈ vs.filterMap id, e.head hne ≤ v ∧ v ≤ e.getLast hne) :
    ∃ h : H1, H1.construct fo (.static (edgesToBins e) ire) vs ws wkind dtype keep dropna = .ok h ∧
      h.binning = .static (edgesToBins e) ire ∧ h.keep = keep ∧ h.dtype = constructDType ws wkind dtype ∧
      CountsAll (edgesToBins e) (maskPts vs ws) h ∧ Rising (edgesToBins e) ∧
      consecutiveB (edgesToBins e) = true ∧ (edgesToBins e).length = e.length - 1 :=
  construct_edges fo e he h2 hne ire vs ws wkind dtype keep dropna ok hspan

/-- **`quantile` bins.**  `s` is the sorted data, the `qs` increase strictly from 0 to 1 (what
    `quantile_binning(bin_count=…)` / `q=[0, …, 1]` passes).  All edges are defined; if no two neighbouring
    quantiles coincide the bins are accepted, and every value is counted once with nothing missed; if two
    neighbouring quantiles coincide (repeated data values) the call is REFUSED ("bins not rising"). -/
theorem C01_quantile (fo : FloatOps) (s : List Rat) (qs : List Rat)
    (vs : List (Option Rat)) (ws : Option (List Rat)) (wkind : DType) (dtype : Option DType)
    (keep dropna : Bool) (ok : ArgsOk vs ws wkind dtype dropna)
    (hperm : s.Perm (vs.filterMap id)) (hs : s.Pairwise (· ≤ ·)) (hdata : vs.filterMap id ≠ [])
    (hqs : qs.Pairwise (· < ·)) (h01 : ∀ q ∈ qs, 0 ≤ q ∧ q ≤ 1) (hq0 : qs.head? = some 0)
    (hq1 : qs.getLast? = some 1) (hlen : 2 ≤ qs.length) :
    ∃ es : List Rat, qs.map (quantile s) = es.map some ∧
      ((∀ i (hi : i + 1 < es.length), es[i] ≠ es[i + 1]) →
        ∃ h : H1, H1.construct fo (.static (edgesToBins es) true) vs ws wkind dtype keep dropna = .ok h ∧
          h.binning = .static (edgesToBins es) true ∧ h.keep = keep ∧
          h.dtype = constructDType ws wkind dtype ∧ CountsAll (edgesToBins es) (maskPts vs ws) h ∧
          (edgesToBins es).length = qs.length - 1) ∧
      (¬ (∀ i (hi : i + 1 < es.length), es[i] ≠ es[i + 1]) →
        ∃ e, H1.construct fo (.static (edgesToBins es) true) vs ws wkind dtype keep dropna = .error e) :=
  construct_quantile fo s qs vs ws wkind dtype keep dropna ok hperm hs hdata hqs h01 hq0 hq1 hlen

/-! ## Non-vacuity: every theorem instantiated on weighted data with a NaN, values on edges and repeated values -/

/-- the data of the examples: five entries, one NaN, float weights -/
def exVs : List (Option Rat) := [some (17 / 10), none, some (-3 / 10), some 5, some 2]
def exWs : Option (List Rat) := some [1, 9, 2, 1 / 2, 3]

theorem exOk : ArgsOk exVs exWs .f64 none true :=
  ⟨fun h => absurd h (by decide), by decide +kernel, fun h => absurd h (by decide +kernel)⟩

/-- `fixed_width` (width 1/2): hypotheses hold, the theorem applies … -/
example :
    let g := fixedWidthOf FloatOps.exact 4 { w := 1 / 2 } false exVs
    ∃ h : H1, H1.construct FloatOps.exact (.fixed g) exVs exWs .f64 none true true = .ok h ∧
      CountsAll (g.bins FloatOps.exact) (maskPts exVs exWs) h := by
  obtain ⟨h, hc, _, _, _, hcount, _⟩ :=
    C01_fixed_width_exact 4 { w := 1 / 2 } rfl rfl (by norm_num) false exVs exWs .f64 none true true exOk
      (by decide +kernel)
  exact ⟨h, hc, hcount⟩

/-- … and the model computes what it says: 12 bins from -1/2 to 11/2, the NaN's weight 9 is dropped, the
    value 5 (on a grid edge) opens its own bin; with `includes_right_edge` it closes the 11th bin instead. -/
example :
    fixedWidthOf FloatOps.exact 4 { w := 1 / 2 } false exVs = { w := 1 / 2, tmin := -1, count := 12 } ∧
    fixedWidthOf FloatOps.exact 4 { w := 1 / 2 } true exVs = { w := 1 / 2, tmin := -1, count := 11 } ∧
    (H1.construct FloatOps.exact (.fixed (fixedWidthOf FloatOps.exact 4 { w := 1 / 2 } false exVs)) exVs exWs .f64 none
        true true).toOption.map (fun h => (h.freq, h.under, h.over, h.total))
      = some ([2, 0, 0, 0, 1, 3, 0, 0, 0, 0, 0, 1 / 2], some 0, some 0, 13 / 2) ∧
    (H1.construct FloatOps.exact (.fixed (fixedWidthOf FloatOps.exact 4 { w := 1 / 2 } true exVs)) exVs exWs .f64 none
        true true).toOption.map (fun h => (h.freq, h.under, h.over, h.total))
      = some ([2, 0, 0, 0, 1, 3, 0, 0, 0, 0, 1 / 2], some 0, some 0, 13 / 2) := by
  decide +kernel

/-- `align=False`: the origin moves to 1/5, the first edge is the least value -3/10 -/
example :
    fixedWidthOf FloatOps.exact 4 { w := 1 / 2, align := false } false exVs
      = { w := 1 / 2, shift := 1 / 5, tmin := -1, count := 11, align := false } ∧
    (H1.construct FloatOps.exact (.fixed (fixedWidthOf FloatOps.exact 4 { w := 1 / 2, align := false } false exVs)) exVs
        exWs .f64 none true true).toOption.map (fun h => (h.freq, h.under, h.over, h.total))
      = some ([2, 0, 0, 0, 4, 0, 0, 0, 0, 0, 1 / 2], some 0, some 0, 13 / 2) := by
  decide +kernel

example :
    ∃ h : H1, H1.construct FloatOps.exact (.fixed (fixedWidthOf FloatOps.exact 4 { w := 1 / 2, align := false } false exVs))
      exVs exWs .f64 none true true = .ok h ∧
      (fixedWidthOf FloatOps.exact 4 { w := 1 / 2, align := false } false exVs).firstEdge FloatOps.exact = -3 / 10 := by
  obtain ⟨h, hc, _, _, _, _, _, _, _, _, he⟩ :=
    C01_fixed_width_unaligned_exact 4 { w := 1 / 2, align := false } rfl rfl (by norm_num) false exVs exWs .f64 none
      true true exOk (-3 / 10) (by decide +kernel)
  exact ⟨h, hc, he⟩

/-- `integer`: the values 3, 5, NaN, 3, 7 give the bins centred on 3 … 7 with contents 2, 0, 1, 0, 1 -/
example :
    fixedWidthOf FloatOps.exact 4 (integerGrid false) false [some 3, some 5, none, some 3, some 7]
      = { w := 1, shift := 1 / 2, tmin := 2, count := 5 } ∧
    (H1.construct FloatOps.exact (.fixed (fixedWidthOf FloatOps.exact 4 (integerGrid false) false
        [some 3, some 5, none, some 3, some 7])) [some 3, some 5, none, some 3, some 7] none .f64 none true true).toOption.map
        (fun h => (h.freq, h.under, h.over, h.total))
      = some ([2, 0, 1, 0, 1], some 0, some 0, 4) := by
  decide +kernel

example :
    let vs : List (Option Rat) := [some 3, some 5, none, some 3, some 7]
    let g := fixedWidthOf FloatOps.exact 4 (integerGrid false) false vs
    ∃ h : H1, H1.construct FloatOps.exact (.fixed g) vs none .f64 none true true = .ok h ∧
      ∀ i, i < g.count →
        h.freq[i]? = some (wsum ((maskPts vs none).filter fun p => decide (p.1 = ((g.tmin + i + 1 : Int) : Rat)))) := by
  obtain ⟨h, hc, _, _, _, _, hint⟩ :=
    C01_integer 4 false [some 3, some 5, none, some 3, some 7] none .f64 none true true
      ⟨fun h => absurd h (by decide), rfl, fun _ => rfl⟩ (by decide +kernel)
  refine ⟨h, hc, hint ?_⟩
  intro v hv
  have : v ∈ ([3, 5, 3, 7] : List Rat) := hv
  simp only [List.mem_cons, List.not_mem_nil, or_false] at this
  rcases this with rfl | rfl | rfl | rfl
  exacts [⟨3, by norm_num⟩, ⟨5, by norm_num⟩, ⟨3, by norm_num⟩, ⟨7, by norm_num⟩]

/-- numpy-style `bins=4` over the data range `[-3/10, 5]` -/
example :
    ∃ h : H1, H1.construct FloatOps.exact (.static (edgesToBins (linspace (-3 / 10) 5 4)) true) exVs exWs .f64 none true
        true = .ok h ∧ CountsAll (edgesToBins (linspace (-3 / 10) 5 4)) (maskPts exVs exWs) h := by
  obtain ⟨h, hc, _, _, _, hcount, _⟩ :=
    C01_numpy_exact FloatOps.exact 4 (by norm_num) true exVs exWs .f64 none true true exOk (-3 / 10) 5
      (by decide +kernel) (by decide +kernel) (by norm_num)
  exact ⟨h, hc, hcount⟩

example :
    (H1.construct FloatOps.exact (.static (edgesToBins (linspace (-3 / 10) 5 4)) true) exVs exWs .f64 none true
        true).toOption.map (fun h => (h.freq, h.under, h.over, h.total))
      = some ([2, 4, 0, 1 / 2], some 0, some 0, 13 / 2) := by
  decide +kernel

/-- quantile bins with `q = [0, 1/3, 2/3, 1]`: the edges are the four order statistics -/
example :
    [0, 1 / 3, 2 / 3, 1].map (quantile [-3 / 10, 17 / 10, 2, 5]) = [-3 / 10, 17 / 10, 2, 5].map some ∧
    (H1.construct FloatOps.exact (.static (edgesToBins [-3 / 10, 17 / 10, 2, 5]) true) exVs exWs .f64 none true
        true).toOption.map (fun h => (h.freq, h.under, h.over, h.total))
      = some ([2, 1, 7 / 2], some 0, some 0, 13 / 2) := by
  decide +kernel

example : ∃ es : List Rat, [0, 1 / 3, 2 / 3, 1].map (quantile [-3 / 10, 17 / 10, 2, 5]) = es.map some := by
  obtain ⟨es, hes, _⟩ := C01_quantile FloatOps.exact [-3 / 10, 17 / 10, 2, 5] [0, 1 / 3, 2 / 3, 1] exVs exWs .f64 none
    true true exOk (by decide +kernel) (by decide +kernel) (by decide +kernel) (by decide +kernel)
    (by decide +kernel) rfl rfl (by decide)
  exact ⟨es, hes⟩

/-- … and repeated data make two quantiles coincide: the bins `[1,1], [1,2]` are refused -/
example :
    [0, 1 / 2, 1].map (quantile [1, 1, 2]) = [1, 1, 2].map some ∧
    ∃ e, H1.construct FloatOps.exact (.static (edgesToBins [1, 1, 2]) true) [some 1, some 2, some 1] none .i64 none true
        true = .error e :=
  ⟨by decide +kernel, "bins not rising", by decide +kernel⟩

end Physt

import Physt.Theorems.C01
namespace Physt
theorem C09_placeholder : True := trivial
end Physt

import Physt.Proofs.NDArray
import Physt.Model.HistND
/-!
# C09 — projections are exact marginals; T; accumulate

Array operations are defined index-wise (`Arr.gather`), so the theorems speak about every valid
index of the result.
-/
namespace Physt

/-- **The one array primitive.** Along `axis`, entry `j` of the result is the sum of the source
    entries `k ∈ src j`, all other coordinates fixed. -/
theorem C09_gather (a : Arr) (axis newN : Nat) (src : Nat → List Nat) (idx : List Nat)
    (h : validIdx (Arr.setAt a.shape axis newN) idx = true) :
    (a.gather axis newN src).get idx
      = ((src (idx[axis]?.getD 0)).map fun k => a.get (Arr.setAt idx axis k)).sum := by
  unfold Arr.gather
  rw [Arr.get_ofFn _ _ _ h]

/-- **Marginal.** Summing over an axis: each entry of the projection is the sum, over all bins
    `k` of the dropped axis, of the parent entries with `k` inserted at that axis. -/
theorem C09_marginal (a : Arr) (axis : Nat) (idx : List Nat)
    (h : validIdx (Arr.removeAt (Arr.setAt a.shape axis 1) axis) idx = true)
    (h2 : validIdx (Arr.setAt a.shape axis 1) (idx.take axis ++ [0] ++ idx.drop axis) = true) :
    (a.sumAxis axis).get idx
      = ((List.range (a.shape[axis]?.getD 0)).map fun k =>
          a.get (Arr.setAt (idx.take axis ++ [0] ++ idx.drop axis) axis k)).sum := by
  unfold Arr.sumAxis Arr.squeeze
  have hshape : (a.gather axis 1 fun _ => List.range (a.shape[axis]?.getD 0)).shape = Arr.setAt a.shape axis 1 := rfl
  rw [hshape, Arr.get_ofFn _ _ _ h, C09_gather _ _ _ _ _ h2]

/-- cumulative sums along exactly one axis: entry `j` is the sum of entries `0..j` -/
theorem C09_accumulate (a : Arr) (axis : Nat) (idx : List Nat)
    (h : validIdx (Arr.setAt a.shape axis (a.shape[axis]?.getD 0)) idx = true) :
    (a.cumsum axis).get idx
      = ((List.range ((idx[axis]?.getD 0) + 1)).map fun k => a.get (Arr.setAt idx axis k)).sum := by
  unfold Arr.cumsum
  exact C09_gather a axis _ _ idx h

/-- **T swaps contents** (2-D): `T[j, i] = h[i, j]`. -/
theorem C09_T (a : Arr) (n m i j : Nat) (hs : a.shape = [n, m]) (hi : i < n) (hj : j < m) :
    a.transpose.get [j, i] = a.get [i, j] := by
  unfold Arr.transpose
  rw [hs]
  simp only
  rw [Arr.get_ofFn _ _ _ (by simp [validIdx, hi, hj])]

/-- `T.T` reads back the original entries -/
theorem C09_T_involution (a : Arr) (n m i j : Nat) (hs : a.shape = [n, m]) (hi : i < n) (hj : j < m) :
    a.transpose.transpose.get [i, j] = a.get [i, j] := by
  have hts : a.transpose.shape = [m, n] := by unfold Arr.transpose; rw [hs]; rfl
  rw [C09_T a.transpose m n j i hts hj hi, C09_T a n m i j hs hi hj]

theorem filter_range_sorted (p : Nat → Bool) (n : Nat) : ((List.range n).filter p).Pairwise (· < ·) :=
  List.Pairwise.sublist List.filter_sublist List.pairwise_lt_range

/-- **Kept axes stay in their original order** (with their names and bins), whatever order they
    were requested in; T swaps bins and names. -/
theorem C09_order (h r : HN) (axes : List (Sum Int String)) (hr : h.projection axes = .ok r) :
    ∃ keepAx : List Nat, keepAx.Pairwise (· < ·) ∧ r.axes = keepAx.filterMap (h.axes[·]?) ∧
      r.names = keepAx.filterMap (h.names[·]?) ∧ r.dtype = (if h.dtype.isInt then .i64 else h.dtype) := by
  unfold HN.projection at hr
  simp only [bind, Except.bind, pure, Except.pure, throw, throwThe, MonadExceptOf.throw] at hr
  cases hm : axes.mapM h.getAxis with
  | error e => rw [hm] at hr; cases hr
  | ok ax =>
    rw [hm] at hr
    simp only at hr
    by_cases h1 : ax.isEmpty = true
    · simp [h1] at hr
    · by_cases h2 : (ax.eraseDups.length != ax.length) = true
      · simp [h1, h2] at hr
      · simp only [h1, h2, if_false, Bool.false_eq_true] at hr
        cases hr
        exact ⟨_, filter_range_sorted _ _, rfl, rfl, rfl⟩

/-- **Refusals**: an empty axis list, a duplicate, an index out of range or an unknown name. -/
theorem C09_refuse (h : HN) :
    (∃ e, h.projection [] = .error e) ∧
    (∀ i : Int, (i < 0 ∨ (h.axes.length : Int) ≤ i) → ∃ e, h.projection [.inl i] = .error e) ∧
    (∀ i : Int, 0 ≤ i → i < h.axes.length → ∃ e, h.projection [.inl i, .inl i] = .error e) := by
  refine ⟨?_, ?_, ?_⟩
  · simp [HN.projection, bind, Except.bind, pure, Except.pure, throw, throwThe, MonadExceptOf.throw, List.mapM_nil]
  · intro i hi
    have : ¬ (0 ≤ i ∧ i < h.axes.length) := by omega
    simp [HN.projection, HN.getAxis, List.mapM_cons, List.mapM_nil, bind, Except.bind, pure, Except.pure, throw, throwThe,
      MonadExceptOf.throw, this]
  · intro i h0 h1
    simp [HN.projection, HN.getAxis, List.mapM_cons, List.mapM_nil, bind, Except.bind, pure, Except.pure, throw, throwThe,
      MonadExceptOf.throw, h0, h1, List.eraseDups_cons]

theorem C09_T_names (h : HN) : h.transpose.axes = h.axes.reverse ∧ h.transpose.names = h.names.reverse ∧
    h.transpose.transpose.axes = h.axes ∧ h.transpose.transpose.names = h.names ∧ h.transpose.missed = h.missed := by
  simp [HN.transpose]

/-! Non-vacuity: a 2×3 array -/
example : (({ shape := [2, 3], data := [1, 2, 3, 4, 5, 6] } : Arr).sumAxis 0).data = [5, 7, 9] ∧
    (({ shape := [2, 3], data := [1, 2, 3, 4, 5, 6] } : Arr).sumAxis 1).data = [6, 15] ∧
    (({ shape := [2, 3], data := [1, 2, 3, 4, 5, 6] } : Arr).transpose).data = [1, 4, 2, 5, 3, 6] ∧
    (({ shape := [2, 3], data := [1, 2, 3, 4, 5, 6] } : Arr).cumsum 1).data = [1, 3, 6, 4, 9, 15] := by decide +kernel

end Physt

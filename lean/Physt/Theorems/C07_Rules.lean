import Physt.Proofs.Quantiles
/-!
# C07 (continued) — quantile edges, integer bins, exponential edges, agreement of the representations

Helper lemmas: `Proofs/Quantiles.lean`.  `quantile s q` is numpy's linear interpolation on the
sorted data `s`; the side condition `0 ≤ q ≤ 1` is exactly what `quantile_binning` guarantees
(kernel-checked counter-examples outside it are in the helper file).
-/
namespace Physt
open H1

/-- **A quantile lies between two neighbouring order statistics**, hence between minimum and maximum. -/
theorem C07_quantile_between (s : List Rat) (hs : s.Pairwise (· ≤ ·)) (hne : s ≠ []) (q : Rat)
    (hq0 : 0 ≤ q) (hq1 : q ≤ 1) :
    ∃ r, quantile s q = some r ∧ s.head hne ≤ r ∧ r ≤ s.getLast hne ∧
      ∃ hlo : floorNat (qpos s q) < s.length,
        s[floorNat (qpos s q)] ≤ r ∧
        (∀ h1 : floorNat (qpos s q) + 1 < s.length, r ≤ s[floorNat (qpos s q) + 1]) ∧
        (floorNat (qpos s q) + 1 = s.length → r = s.getLast hne) :=
  quantile_between s hs hne q hq0 hq1

/-- `q = 0` is the minimum, `q = 1` the maximum, `q = k/(n−1)` the k-th order statistic -/
theorem C07_quantile_points (s : List Rat) :
    quantile s 0 = s.head? ∧ quantile s 1 = s.getLast? ∧
    ∀ (hlen : 2 ≤ s.length) (k : Nat) (hk : k ≤ s.length - 1),
      quantile s ((k : Rat) / ((s.length - 1 : Nat) : Rat)) = some s[k] :=
  ⟨quantile_zero s, quantile_one s, fun hlen k hk => quantile_order_stat s hlen k hk⟩

/-- quantiles are monotone in `q` -/
theorem C07_quantile_mono (s : List Rat) (hs : s.Pairwise (· ≤ ·)) (hne : s ≠ []) (q₁ q₂ : Rat)
    (h0 : 0 ≤ q₁) (h12 : q₁ ≤ q₂) (h1 : q₂ ≤ 1) :
    ∃ r₁ r₂, quantile s q₁ = some r₁ ∧ quantile s q₂ = some r₂ ∧ r₁ ≤ r₂ :=
  quantile_mono s hs hne q₁ q₂ h0 h12 h1

/-- **Quantile edges**: for increasing `q`s the edges are the data quantiles, non-decreasing, inside
    `[min, max]` (first = min when the first `q` is 0, last = max when the last is 1), and the bins
    they form are rising — i.e. accepted — exactly when no two neighbouring quantiles coincide. -/
theorem C07_quantile_edges (s : List Rat) (hs : s.Pairwise (· ≤ ·)) (hne : s ≠ []) (qs : List Rat)
    (hqs : qs.Pairwise (· < ·)) (h01 : ∀ q ∈ qs, 0 ≤ q ∧ q ≤ 1) :
    ∃ es : List Rat, qs.map (quantile s) = es.map some ∧ es.length = qs.length ∧
      es.Pairwise (· ≤ ·) ∧
      (∀ e ∈ es, s.head hne ≤ e ∧ e ≤ s.getLast hne) ∧
      (Rising (edgesToBins es) ↔ ∀ i (hi : i + 1 < es.length), es[i] ≠ es[i + 1]) ∧
      (risingB (edgesToBins es) = true ↔ ∀ i (hi : i + 1 < es.length), es[i] ≠ es[i + 1]) ∧
      (qs.head? = some 0 → es.head? = s.head?) ∧
      (qs.getLast? = some 1 → es.getLast? = s.getLast?) :=
  quantile_edges s hs hne qs hqs h01

/-- **Fixed-width bins are regular** (exact arithmetic, width > 0): rising, consecutive, all of width `w`. -/
theorem C07_grid_regular (g : Grid) (hw : 0 < g.w) :
    Rising (g.bins FloatOps.exact) ∧ consecutiveB (g.bins FloatOps.exact) = true ∧
    (∀ b ∈ g.bins FloatOps.exact, b.2 - b.1 = g.w) ∧ (g.bins FloatOps.exact).length = g.count :=
  grid_bins_regular' g hw

/-- **Integer bins are centred on integers**: width 1 and half-integer shift (`0.5` in physt). -/
theorem C07_integer_centred (j t : Int) (n i : Nat) (hi : i < n) :
    ∃ l r, (Grid.binsFrom (FloatOps.exact.edge 1 ((j : Rat) + 1 / 2)) t n)[i]? = some (l, r) ∧
      r - l = 1 ∧ (l + r) / 2 = ((t + (i : Int) + j + 1 : Int) : Rat) :=
  integer_bins_centred j t n i hi

/-- … and every integer inside the range lies in the bin centred on it, which is the cell the
    floor-based search finds. -/
theorem C07_integer_in_its_bin (j t : Int) (n : Nat) (v : Int) (h1 : t ≤ v - j - 1)
    (h2 : v - j - 1 < t + n) (closeLast : Bool) :
    ∃ l r, (Grid.binsFrom (FloatOps.exact.edge 1 ((j : Rat) + 1 / 2)) t n)[(v - j - 1 - t).toNat]?
        = some (l, r) ∧
      (l + r) / 2 = (v : Rat) ∧ l = (v : Rat) - 1 / 2 ∧ r = (v : Rat) + 1 / 2 ∧
      inBin (Grid.binsFrom (FloatOps.exact.edge 1 ((j : Rat) + 1 / 2)) t n) closeLast
        (v - j - 1 - t).toNat (v : Rat) = true ∧
      FloatOps.exact.est 1 ((j : Rat) + 1 / 2) (v : Rat) = v - j - 1 :=
  integer_in_centred_bin j t n v h1 h2 closeLast

/-- **Exponential edges form a geometric sequence** (over ℝ): constant ratio `10^lw`, strictly
    increasing iff `lw > 0`. -/
theorem C07_exponential_geometric (logMin lw : ℝ) :
    (∀ k : ℕ, expEdge logMin lw (k + 1) / expEdge logMin lw k = (10 : ℝ) ^ lw) ∧
    (∀ k : ℕ, 0 < expEdge logMin lw k) ∧
    (StrictMono (expEdge logMin lw) ↔ 0 < lw) :=
  ⟨expEdge_ratio logMin lw, expEdge_pos logMin lw, expEdge_strictMono_iff logMin lw⟩

/-- … and with `log_min = log10 a`, `log_width = (log10 b − log10 a)/n` they start at `a`, end at
    `b`, and every `v` in `[a, b)` lies in the bin its logarithm selects (covers the range exactly;
    the implementation does so up to rounding). -/
theorem C07_exponential_cover (a b : ℝ) (ha : 0 < a) (hab : a < b) (n : ℕ) (hn : 0 < n) :
    0 < (Real.logb 10 b - Real.logb 10 a) / n ∧
    expEdge (Real.logb 10 a) ((Real.logb 10 b - Real.logb 10 a) / n) 0 = a ∧
    expEdge (Real.logb 10 a) ((Real.logb 10 b - Real.logb 10 a) / n) n = b ∧
    ∀ v, a ≤ v → v < b →
      ⌊(Real.logb 10 v - Real.logb 10 a) / ((Real.logb 10 b - Real.logb 10 a) / n)⌋₊ < n ∧
      expEdge (Real.logb 10 a) ((Real.logb 10 b - Real.logb 10 a) / n)
        ⌊(Real.logb 10 v - Real.logb 10 a) / ((Real.logb 10 b - Real.logb 10 a) / n)⌋₊ ≤ v ∧
      v < expEdge (Real.logb 10 a) ((Real.logb 10 b - Real.logb 10 a) / n)
        (⌊(Real.logb 10 v - Real.logb 10 a) / ((Real.logb 10 b - Real.logb 10 a) / n)⌋₊ + 1) :=
  expEdge_range a b ha hab n hn

/-- **The representations agree**: the masked-edge form starts and ends at the first / last edge and
    has one mask entry per bin; reading the pairs back from it gives the bins; for consecutive bins
    it is the edge form with the trivial mask, and the edge form and the pair form are inverse. -/
theorem C07_representations (bins : Bins) :
    ((maskedEdges bins).1.head? = firstEdge? bins ∧ (maskedEdges bins).1.getLast? = lastEdge? bins ∧
      (maskedEdges bins).2.length = bins.length) ∧
    (Rising bins → pairsOfMasked (maskedEdges bins) = bins ∧
      (maskedEdges bins).2.Pairwise (· < ·) ∧ (maskedEdges bins).1.Pairwise (· < ·)) ∧
    (consecutiveB bins = true → maskedEdges bins = (binsToEdges bins, List.range bins.length) ∧
      edgesToBins (binsToEdges bins) = bins) ∧
    ((binsToEdges bins).head? = firstEdge? bins ∧ (binsToEdges bins).getLast? = lastEdge? bins) :=
  ⟨maskedEdges_ends bins, pairsOfMasked_maskedEdges bins,
   fun hc => ⟨maskedEdges_consecutive bins hc, edgesToBins_binsToEdges bins hc⟩, binsToEdges_ends bins⟩

/-- **Slicing a binning** (`binning[start:stop]`): a slice of rising (consecutive) bins is rising
    (consecutive); `bin_count` is the slice length; first / last edge are those of the first / last
    kept bin. -/
theorem C07_slicing (bins : Bins) (start stop : Option Int) :
    (Rising bins → Rising (sliceList bins start stop)) ∧
    (consecutiveB bins = true → consecutiveB (sliceList bins start stop) = true) ∧
    (sliceList bins start stop).length
      = (sliceBounds bins.length start stop).2 - (sliceBounds bins.length start stop).1 :=
  let h := sliceList_binning bins start stop
  ⟨h.1, h.2.1, h.2.2.1⟩

/-! Non-vacuity -/
example : quantile [1, 2, 4, 8] (1 / 2) = some 3 ∧ quantile [1, 2, 4, 8] (1 / 3) = some 2 := by decide +kernel

end Physt

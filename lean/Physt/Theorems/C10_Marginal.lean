import Physt.Proofs.MergeMarginal
import Physt.Theorems.C10_Runs
/-!
# C10 (continued) — `merge_bins(min_frequency=…)` on all axes: every axis is grouped by the marginal
# of the ORIGINAL histogram

`HistogramND.merge_bins(axis=None, min_frequency=t)` merges the axes one after the other, and
computes the bin map of axis `k` from the marginal along `k` of the histogram *as it is after the
axes before `k` were merged*.  `Theorems/C10_Runs.lean` (`C10_all_axes`) therefore only says that
*some* step-chain map was used on every axis.  Here: merging one axis does not change the marginal
along any other axis, so the map used on axis `k` **is** `minFreqMap t` of the marginal of the
original histogram along `k`; the result, its acceptance and the threshold guarantee can all be
read off the original histogram.  Helper lemmas: `Proofs/MergeMarginal.lean`.

Vocabulary:
* `a.marginal n k` — the array `a` (with `n` axes) summed over all axes but `k`, highest axis first:
  literally the expression in `HN.mergeAxis`;
* `h.minFreqMapOf t k = minFreqMap t (h.freq.marginal h.axes.length k).data`;
* `a.mergeAxesUpTo maps i` — `a` merged along the axes `0 … i-1`, axis `k` with the map `maps k`;
* `h.axisMap k amount thr` — the map of axis `k` for either way of calling `merge_bins`, computed
  on `h` (`Proofs/MergeRuns.lean`).
-/
namespace Physt
open H1

/-! ## 1. arrays -/

/-- **Merging another axis does not change the marginal.**  `a` has `n` axes, `j ≠ k`, the bin map
    has one entry per old bin of axis `j` and every entry is below `newN`: the marginal along `k`
    of the array merged along `j` is the marginal along `k` of `a`.  (`a` need not be well-shaped;
    `k` need not even be an axis — then both sides are the grand total.) -/
theorem C10_marginal_other_axis (a : Arr) (n j k : Nat) (map : List Nat) (newN : Nat)
    (hn : a.shape.length = n) (hj : j < n) (hjk : j ≠ k)
    (hl : map.length = a.shape[j]?.getD 0) (hm : ∀ m ∈ map, m < newN) :
    (a.mergeAxis j map newN).marginal n k = a.marginal n k :=
  Arr.marginal_mergeAxis' a n j k map newN hn hj hjk hl hm

/-- the reason: **merging an axis and then summing over it is summing over it** (full equality of
    the arrays over the remaining axes) -/
theorem C10_sum_merged_axis (a : Arr) (axis : Nat) (map : List Nat) (newN : Nat)
    (hax : axis < a.shape.length) (hl : map.length = a.shape[axis]?.getD 0) (hm : ∀ m ∈ map, m < newN) :
    (a.mergeAxis axis map newN).sumAxis axis = a.sumAxis axis :=
  Arr.sumAxis_mergeAxis_self a axis map newN hax (by omega) (fun _ _ _ h => hm _ (List.mem_of_getElem? h))

/-- **The marginal along the merged axis itself is the merged marginal** (any bin map, any `newN`):
    projecting onto axis `k` and merging commute … -/
theorem C10_marginal_same_axis (a : Arr) (n k : Nat) (map : List Nat) (newN : Nat)
    (hn : a.shape.length = n) (hk : k < n) :
    (a.mergeAxis k map newN).marginal n k = (a.marginal n k).mergeAxis 0 map newN :=
  Arr.marginal_mergeAxis_self a n k map newN hn hk

/-- … and on a 1-D array the N-d merge is the 1-D one (`mergeVals`: new entry `j` is the sum of run `j`). -/
theorem C10_merge_axis0_1d (b : Arr) (s : Nat) (map : List Nat) (newN : Nat)
    (hs : b.shape = [s]) (hd : b.data.length = s) (hl : map.length = s) :
    (b.mergeAxis 0 map newN).data = mergeVals b.data map newN :=
  Arr.mergeAxis_zero_data b s map newN hs hd hl

/-! ## 2. the whole histogram -/

/-- **`merge_bins(axis=None)`, either way of calling it, when accepted**: on every axis `k` the bin
    map that was used is the one computed on the *original* histogram (`h.axisMap k`: the `amount`
    map of the original number of bins, or `minFreqMap` of the original marginal along `k`).  The
    axis had at least one bin, no run of that map has a gap inside, the new bins are `mergedByMap`
    of the old ones with the old right-edge flag, and contents / squared errors are the original
    arrays merged along axis 0, 1, … with these maps. -/
theorem C10_all_axes_original (fo : FloatOps) (h r : HN) (amount : Option Nat) (thr : Option Rat)
    (hfs : h.freq.shape = h.shape fo) (hes : h.err2.shape = h.shape fo)
    (hfw : h.freq.WellShaped) (hew : h.err2.WellShaped)
    (hr : h.mergeAll fo amount thr = .ok r) :
    (∀ (k : Nat) (bn : Binning), h.axes[k]? = some bn →
      0 < (bn.bins fo).length ∧ MapRunsMeet (bn.bins fo) (h.axisMap k amount thr) ∧
      r.axes[k]? = some (.static (mergedByMap (bn.bins fo) (h.axisMap k amount thr)) bn.ire)) ∧
    r.freq = h.freq.mergeAxesUpTo (fun k => h.axisMap k amount thr) h.axes.length ∧
    r.err2 = h.err2.mergeAxesUpTo (fun k => h.axisMap k amount thr) h.axes.length := by
  have inv := HN.mergeAll_marginal_spec fo h r amount thr hfs hes hfw hew hr
  exact ⟨fun k bn hbn => inv.maps k bn (List.getElem?_eq_some_iff.mp hbn).1 hbn, inv.freq, inv.err2⟩

/-- **What `merge_bins(min_frequency=t)` on all axes returns.**  `h` has arrays of the shape of its
    binnings; the call is accepted with result `r`.  Then for every axis `k`, with
    `m = minFreqMap t (marginal of the ORIGINAL h along k)`:
    * `m` has one entry per bin of the axis, the axis has a bin, no run of `m` has a gap inside;
    * the new bins of axis `k` are `mergedByMap bins m` (new bin `j` spans run `j`), same right-edge flag;
    * the marginal of the *result* along `k` is the 1-D merge of the original marginal: its entry `j`
      is the sum of run `j` of the original marginal.
    Contents and squared errors are the original arrays merged along every axis with these maps;
    totals, missed, names, dtype, keep are unchanged. -/
theorem C10_minfreq_all_axes (fo : FloatOps) (h r : HN) (t : Rat)
    (hfs : h.freq.shape = h.shape fo) (hes : h.err2.shape = h.shape fo)
    (hfw : h.freq.WellShaped) (hew : h.err2.WellShaped)
    (hr : h.mergeAll fo none (some t) = .ok r) :
    r.axes.length = h.axes.length ∧
    (∀ (k : Nat) (bn : Binning), h.axes[k]? = some bn →
      (h.minFreqMapOf t k).length = (bn.bins fo).length ∧ 0 < (bn.bins fo).length ∧
      MapRunsMeet (bn.bins fo) (h.minFreqMapOf t k) ∧
      r.axes[k]? = some (.static (mergedByMap (bn.bins fo) (h.minFreqMapOf t k)) bn.ire) ∧
      (r.freq.marginal h.axes.length k).data
        = mergeVals (h.freq.marginal h.axes.length k).data (h.minFreqMapOf t k) (newCount (h.minFreqMapOf t k))) ∧
    r.freq = h.freq.mergeAxesUpTo (h.minFreqMapOf t) h.axes.length ∧
    r.err2 = h.err2.mergeAxesUpTo (h.minFreqMapOf t) h.axes.length ∧
    r.freq.total = h.freq.total ∧ r.err2.total = h.err2.total ∧
    r.missed = h.missed ∧ r.names = h.names ∧ r.dtype = h.dtype ∧ r.keep = h.keep := by
  have inv := HN.mergeAll_marginal_spec fo h r none (some t) hfs hes hfw hew hr
  exact ⟨inv.base.len, fun k bn hbn => HN.mergeAll_minfreq_axis fo h r t hfs hes hfw hew hr k bn hbn,
    inv.freq, inv.err2, inv.base.ftot, inv.base.etot, inv.base.missed, inv.base.names, inv.base.dtype, inv.base.keep⟩

/-- **The grouping of every axis is characterised on the original marginal** (`C10_minfreq_characterised`):
    a map `m` is the one used on axis `k` iff it has one entry per entry of the original marginal,
    starts at 0, climbs in steps of 0 or 1, and its runs of the original marginal have the three
    threshold properties. -/
theorem C10_minfreq_axis_characterised (h : HN) (t : Rat) (k : Nat) (m : List Nat) :
    m = h.minFreqMapOf t k ↔
      m.length = (h.freq.marginal h.axes.length k).data.length ∧ StepChain 0 m ∧ (∀ x, m.head? = some x → x = 0) ∧
      (∀ j, j + 1 < newCount m →
        t < (runOf ((h.freq.marginal h.axes.length k).data.zip m) j).sum ∨
        (0 < (runOf ((h.freq.marginal h.axes.length k).data.zip m) j).sum ∧
          ∃ g, (runOf ((h.freq.marginal h.axes.length k).data.zip m) (j + 1)).head? = some g ∧ t ≤ g)) ∧
      (∀ j p q, runOf ((h.freq.marginal h.axes.length k).data.zip m) j = p ++ q → p ≠ [] → q ≠ [] → p.sum ≤ t) ∧
      (∀ j p g q, runOf ((h.freq.marginal h.axes.length k).data.zip m) j = p ++ g :: q → t ≤ g → p.sum ≤ 0) :=
  C10_minfreq_characterised t _ m

/-- **The threshold guarantee, read on the result.**  After an accepted all-axes
    `merge_bins(min_frequency=t)`, on every axis `k`: the marginal content `S` of every new bin `j`
    but the last **of the returned histogram** exceeds `t`, or it is positive and the next new bin
    starts with an old bin whose original marginal content alone reaches `t`. -/
theorem C10_minfreq_result_guarantee (fo : FloatOps) (h r : HN) (t : Rat)
    (hfs : h.freq.shape = h.shape fo) (hes : h.err2.shape = h.shape fo)
    (hfw : h.freq.WellShaped) (hew : h.err2.WellShaped)
    (hr : h.mergeAll fo none (some t) = .ok r) (k : Nat) (hk : k < h.axes.length)
    (j : Nat) (hj : j + 1 < newCount (h.minFreqMapOf t k)) :
    ∃ S, (r.freq.marginal h.axes.length k).data[j]? = some S ∧
      (t < S ∨ (0 < S ∧ ∃ g,
        (runOf ((h.freq.marginal h.axes.length k).data.zip (h.minFreqMapOf t k)) (j + 1)).head? = some g ∧ t ≤ g)) := by
  obtain ⟨_, _, _, _, hm⟩ := HN.mergeAll_minfreq_axis fo h r t hfs hes hfw hew hr k h.axes[k]
    (List.getElem?_eq_getElem hk)
  refine ⟨_, ?_, (C10_minfreq_guarantee t (h.freq.marginal h.axes.length k).data).1 j hj⟩
  rw [hm]
  exact C10_run_sum _ _ _ j (by omega)

/-- **Acceptance is decided on the original histogram**: `merge_bins(min_frequency=t)` on all axes
    is accepted iff every axis has a bin and, on every axis, no run of the `min_frequency` map *of
    the original marginal* has a gap inside.  (Otherwise nothing is returned: all-or-nothing.) -/
theorem C10_minfreq_all_axes_iff (fo : FloatOps) (h : HN) (t : Rat)
    (hfs : h.freq.shape = h.shape fo) (hes : h.err2.shape = h.shape fo)
    (hfw : h.freq.WellShaped) (hew : h.err2.WellShaped) :
    (∃ r, h.mergeAll fo none (some t) = .ok r) ↔
      ∀ (k : Nat) (bn : Binning), h.axes[k]? = some bn →
        0 < (bn.bins fo).length ∧ MapRunsMeet (bn.bins fo) (h.minFreqMapOf t k) :=
  HN.mergeAll_ok_iff fo h none (some t) (Or.inr ⟨rfl, t, rfl⟩) hfs hes hfw hew

/-- the same for either way of calling it (a positive `amount`, or a `min_frequency`) -/
theorem C10_all_axes_iff (fo : FloatOps) (h : HN) (amount : Option Nat) (thr : Option Rat)
    (hm : MergeMode amount thr)
    (hfs : h.freq.shape = h.shape fo) (hes : h.err2.shape = h.shape fo)
    (hfw : h.freq.WellShaped) (hew : h.err2.WellShaped) :
    (∃ r, h.mergeAll fo amount thr = .ok r) ↔
      ∀ (k : Nat) (bn : Binning), h.axes[k]? = some bn →
        0 < (bn.bins fo).length ∧ MapRunsMeet (bn.bins fo) (h.axisMap k amount thr) :=
  HN.mergeAll_ok_iff fo h amount thr hm hfs hes hfw hew

/-! ## 3. Non-vacuity -/

namespace C10MarginalExamples
open C10RunsExamples

/-- a 2 × 3 × 2 array -/
def a232 : Arr := { shape := [2, 3, 2], data := [1, 2, 3, 4, 5, 6, 7, 8, 9, 10, 11, 12] }

/-- its three marginals -/
example : (a232.marginal 3 0).data = [21, 57] ∧ (a232.marginal 3 1).data = [18, 26, 34] ∧
    (a232.marginal 3 2).data = [36, 42] ∧ (a232.marginal 3 1).shape = [3] := by decide +kernel

/-- `C10_marginal_other_axis`: merging the middle axis by `[0, 0, 1]` leaves the marginals along
    axes 0 and 2 alone (the arrays differ: shape `[2, 2, 2]` against `[2, 3, 2]`) … -/
example : (a232.mergeAxis 1 [0, 0, 1] 2).marginal 3 0 = a232.marginal 3 0 ∧
    (a232.mergeAxis 1 [0, 0, 1] 2).marginal 3 2 = a232.marginal 3 2 :=
  ⟨C10_marginal_other_axis a232 3 1 0 _ 2 rfl (by decide) (by decide) rfl (by decide),
   C10_marginal_other_axis a232 3 1 2 _ 2 rfl (by decide) (by decide) rfl (by decide)⟩

example : (a232.mergeAxis 1 [0, 0, 1] 2).data = [4, 6, 5, 6, 16, 18, 11, 12] := by decide +kernel

/-- … and `C10_marginal_same_axis`, `C10_merge_axis0_1d`, `C10_sum_merged_axis` on the same merge -/
example : (a232.mergeAxis 1 [0, 0, 1] 2).marginal 3 1 = (a232.marginal 3 1).mergeAxis 0 [0, 0, 1] 2 ∧
    ((a232.marginal 3 1).mergeAxis 0 [0, 0, 1] 2).data = mergeVals (a232.marginal 3 1).data [0, 0, 1] 2 ∧
    (a232.mergeAxis 1 [0, 0, 1] 2).sumAxis 1 = a232.sumAxis 1 :=
  ⟨C10_marginal_same_axis a232 3 1 _ 2 rfl (by decide),
   C10_merge_axis0_1d (a232.marginal 3 1) 3 _ 2 (by decide +kernel) (by decide +kernel) rfl,
   C10_sum_merged_axis a232 1 _ 2 (by decide) rfl (by decide)⟩

/-- the hypothesis "every map entry is below `newN`" is needed: with `newN = 1` the old bin sent
    to new bin 1 is lost and the other marginals change -/
example : (a232.mergeAxis 1 [0, 0, 1] 1).marginal 3 0 ≠ a232.marginal 3 0 := by decide +kernel

/-- a 2 × 3 × 2 histogram; the middle axis has a gap between its old bins 1 and 2 -/
def h3 : HN :=
  { axes := [.static [(0, 1), (1, 2)] true, .static [(0, 1), (1, 3), (4, 5)] false, .static [(0, 2), (2, 3)] true],
    freq := a232, err2 := a232, missed := some 2, names := ["x", "y", "z"] }

/-- the maps computed on the original marginals, threshold 30 -/
example : h3.minFreqMapOf 30 0 = [0, 1] ∧ h3.minFreqMapOf 30 1 = [0, 0, 1] ∧ h3.minFreqMapOf 30 2 = [0, 1] := by
  decide +kernel

def r3 : HN := match h3.mergeAll FloatOps.exact none (some 30) with
  | .ok r => r
  | .error _ => default

theorem r3_ok : h3.mergeAll FloatOps.exact none (some 30) = .ok r3 := by
  apply ok_of_toOption
  decide +kernel

/-- **`C10_minfreq_all_axes` instantiated** on `h3` (threshold 30): the middle axis is grouped by
    the original column sums `[18, 26, 34]` into `{0, 1}, {2}` … -/
example : r3.axes[1]? = some (.static (mergedByMap [(0, 1), (1, 3), (4, 5)] (h3.minFreqMapOf 30 1)) false) ∧
    (r3.freq.marginal 3 1).data = mergeVals (h3.freq.marginal 3 1).data (h3.minFreqMapOf 30 1)
      (newCount (h3.minFreqMapOf 30 1)) ∧
    r3.freq = h3.freq.mergeAxesUpTo (h3.minFreqMapOf 30) 3 ∧ r3.missed = some 2 := by
  obtain ⟨_, hax, hf, _, _, _, hm, _⟩ := C10_minfreq_all_axes FloatOps.exact h3 r3 30 rfl rfl (by decide +kernel)
    (by decide +kernel) r3_ok
  obtain ⟨_, _, _, h4, h5⟩ := hax 1 _ rfl
  exact ⟨h4, h5, hf, hm⟩

/-- … and this is the result: bins, contents, the marginal of the result along the middle axis -/
example : r3.axes.map (·.bins FloatOps.exact) = [[(0, 1), (1, 2)], [(0, 3), (4, 5)], [(0, 2), (2, 3)]] ∧
    r3.freq.shape = [2, 2, 2] ∧ r3.freq.data = [4, 6, 5, 6, 16, 18, 11, 12] ∧
    (r3.freq.marginal 3 1).data = [44, 34] := by decide +kernel

/-- `C10_minfreq_result_guarantee` on the middle axis: new bin 0 of the result has marginal content
    `44 > 30` -/
example : ∃ S, (r3.freq.marginal 3 1).data[0]? = some S ∧
    (30 < S ∨ (0 < S ∧ ∃ g,
      (runOf ((h3.freq.marginal 3 1).data.zip (h3.minFreqMapOf 30 1)) 1).head? = some g ∧ 30 ≤ g)) :=
  C10_minfreq_result_guarantee FloatOps.exact h3 r3 30 rfl rfl (by decide +kernel) (by decide +kernel) r3_ok 1
    (by decide) 0 (by decide +kernel)

/-- `C10_minfreq_all_axes_iff`: accepted with threshold 30 … -/
example : ∀ (k : Nat) (bn : Binning), h3.axes[k]? = some bn →
    0 < (bn.bins FloatOps.exact).length ∧ MapRunsMeet (bn.bins FloatOps.exact) (h3.minFreqMapOf 30 k) :=
  (C10_minfreq_all_axes_iff FloatOps.exact h3 30 rfl rfl (by decide +kernel) (by decide +kernel)).mp ⟨r3, r3_ok⟩

/-- … and refused with threshold 50: the original column sums `[18, 26, 34]` then form one run
    `{0, 1, 2}`, which crosses the gap of the middle axis (decided on the original histogram,
    although axis 0 is merged first) -/
example : ¬ ∃ r, h3.mergeAll FloatOps.exact none (some 50) = .ok r := by
  rw [C10_minfreq_all_axes_iff FloatOps.exact h3 50 rfl rfl (by decide +kernel) (by decide +kernel)]
  intro hall
  have hm := (hall 1 _ rfl).2
  have := hm 1 (1, 3) (4, 5) 0 (by decide +kernel) (by decide +kernel) (by decide +kernel) (by decide +kernel)
  revert this
  decide +kernel

example : (h3.mergeAll FloatOps.exact none (some 50)).toOption = none := by decide +kernel

/-- `C10_all_axes_original` in the `amount` form on the 5 × 3 histogram of `C10_Runs` -/
example : ∀ r, hn.mergeAll FloatOps.exact (some 2) none = .ok r →
    r.freq = hn.freq.mergeAxesUpTo (fun k => hn.axisMap k (some 2) none) 2 := by
  intro r hr
  exact (C10_all_axes_original FloatOps.exact hn r (some 2) none rfl rfl (by decide +kernel) (by decide +kernel) hr).2.1

end C10MarginalExamples

end Physt

import Physt.Theorems.C14_Std
import Physt.Proofs.Compose
/-!
# C14 (continued) — the recorded moments lie where the raw data lie

Sixth session.  `C14_moments` says what `mean()` and `variance()` ARE; a user who reads
`h.statistics` also relies on where they lie: the mean of data entered with non-negative weights is
between the recorded minimum and maximum, and the variance is at most the squared range.  Both are
statements for every data set, and both need the non-negative weights that `C14_variance_nonneg`
already needed (weights 3 and −1 on the values 1 and 0 give the "mean" 3/2, outside [0, 1]:
`C14_mean_outside_negative_weights`).
-/
namespace Physt
open H1 Stats

/-- `Σ v·w` lies between `lo·Σw` and `hi·Σw` when every value lies in `[lo, hi]` and no weight is negative -/
theorem sumWV_bounds (d : List Pt) (lo hi : Rat) (hv : ∀ p ∈ d, lo ≤ p.1 ∧ p.1 ≤ hi) (hp : ∀ p ∈ d, 0 ≤ p.2) :
    lo * wsum d ≤ sumWV d ∧ sumWV d ≤ hi * wsum d := by
  induction d with
  | nil => simp [sumWV, wsum]
  | cons p ps ih =>
    have ⟨h1, h2⟩ := ih (fun q hq => hv q (List.mem_cons_of_mem _ hq)) (fun q hq => hp q (List.mem_cons_of_mem _ hq))
    have ⟨hl, hh⟩ := hv p (List.mem_cons_self ..)
    have hw := hp p (List.mem_cons_self ..)
    simp only [sumWV, wsum, List.map_cons, List.sum_cons] at h1 h2 ⊢
    constructor
    · nlinarith [mul_nonneg (sub_nonneg.mpr hl) hw]
    · nlinarith [mul_nonneg (sub_nonneg.mpr hh) hw]

/-- **The mean lies between the recorded minimum and maximum** (non-negative weights, positive
    total weight): `statistics.min ≤ statistics.mean() ≤ statistics.max`, and both extremes are
    values that were entered. -/
theorem C14_mean_between (d : List Pt) (hne : d ≠ []) (hw : 0 < wsum d) (hp : ∀ p ∈ d, 0 ≤ p.2) :
    ∃ lo hi μ, (rawStats d).min = some lo ∧ (rawStats d).max = some hi ∧ (rawStats d).mean = some μ ∧
      lo ∈ d.map (·.1) ∧ hi ∈ d.map (·.1) ∧ lo ≤ μ ∧ μ ≤ hi := by
  obtain ⟨_, _, _, hmin, hmax⟩ := C14_sums d hne
  have hmean := (C14_moments d hne hw).1
  have hne' : d.map (·.1) ≠ [] := by simpa using hne
  obtain ⟨lo, hlo⟩ : ∃ lo, Grid.listMin (d.map (·.1)) = some lo := by
    cases h : d.map (·.1) with
    | nil => exact (hne' h).elim
    | cons x xs => exact ⟨_, rfl⟩
  obtain ⟨hi, hhi⟩ : ∃ hi, Grid.listMax (d.map (·.1)) = some hi := by
    cases h : d.map (·.1) with
    | nil => exact (hne' h).elim
    | cons x xs => exact ⟨_, rfl⟩
  have ⟨hlom, hlole⟩ := listMin_le _ _ hlo
  have ⟨hhim, hhile⟩ := le_listMax _ _ hhi
  have hb := sumWV_bounds d lo hi
    (fun p hpm => ⟨hlole p.1 (List.mem_map_of_mem hpm), hhile p.1 (List.mem_map_of_mem hpm)⟩) hp
  refine ⟨lo, hi, _, hmin.trans hlo, hmax.trans hhi, hmean, hlom, hhim, ?_, ?_⟩
  · rw [le_div_iff₀ hw]; exact hb.1
  · rw [div_le_iff₀ hw]; exact hb.2

/-- **The variance is at most the squared range of the recorded extremes** (non-negative weights) —
    a recorded variance larger than `(max − min)²` cannot come from the data entered. -/
theorem C14_variance_le_range (d : List Pt) (hne : d ≠ []) (hw : 0 < wsum d) (hp : ∀ p ∈ d, 0 ≤ p.2) :
    ∃ lo hi v, (rawStats d).min = some lo ∧ (rawStats d).max = some hi ∧ (rawStats d).variance = some v ∧
      0 ≤ v ∧ v ≤ (hi - lo) ^ 2 := by
  obtain ⟨lo, hi, μ, hmin, hmax, hmean, hlom, hhim, hlo, hhi⟩ := C14_mean_between d hne hw hp
  have hμ : μ = sumWV d / wsum d := by
    have := (C14_moments d hne hw).1; rw [hmean] at this; exact Option.some.inj this
  obtain ⟨v, hv, hv0⟩ := C14_variance_nonneg d hne hw hp
  refine ⟨lo, hi, v, hmin, hmax, hv, hv0, ?_⟩
  have hv' := (C14_moments d hne hw).2
  rw [hv] at hv'
  have hvv := Option.some.inj hv'
  rw [hvv, ← hμ, div_le_iff₀ hw]
  -- every summand is at most w·(hi − lo)²
  obtain ⟨_, _, _, hmin', hmax'⟩ := C14_sums d hne
  have hlo' : Grid.listMin (d.map (·.1)) = some lo := hmin'.symm.trans hmin
  have hhi' : Grid.listMax (d.map (·.1)) = some hi := hmax'.symm.trans hmax
  have hlole := (listMin_le _ _ hlo').2
  have hhile := (le_listMax _ _ hhi').2
  have key : ∀ (l : List Pt), (∀ p ∈ l, lo ≤ p.1 ∧ p.1 ≤ hi ∧ 0 ≤ p.2) →
      (l.map fun p => p.2 * (p.1 - μ) ^ 2).sum ≤ (hi - lo) ^ 2 * wsum l := by
    intro l hl
    induction l with
    | nil => simp [wsum]
    | cons p ps ih =>
      have ih' := ih fun q hq => hl q (List.mem_cons_of_mem _ hq)
      obtain ⟨a, b, c⟩ := hl p (List.mem_cons_self ..)
      simp only [wsum, List.map_cons, List.sum_cons] at ih' ⊢
      have hsq : (p.1 - μ) ^ 2 ≤ (hi - lo) ^ 2 := by
        apply sq_le_sq'
        · linarith
        · linarith
      nlinarith [mul_le_mul_of_nonneg_left hsq c]
  exact key d fun p hpm => ⟨hlole p.1 (List.mem_map_of_mem hpm), hhile p.1 (List.mem_map_of_mem hpm), hp p hpm⟩

/-- without non-negative weights the mean can leave the range of the data: weights 3 and −1 on the
    values 1 and 0: total weight 2, "mean" 3/2 > max = 1 -/
theorem C14_mean_outside_negative_weights :
    (rawStats [(1, 3), (0, -1)]).mean = some (3 / 2) ∧ (rawStats [(1, 3), (0, -1)]).max = some 1 := by
  decide +kernel

/-! Non-vacuity: 1, 2, 3, 6 with weights 1, 1, 2, 0 — min 1, max 6, mean 9/4, variance 11/16 ≤ 25. -/
example : (rawStats [(1, 1), (2, 1), (3, 2), (6, 0)]).min = some 1 ∧ (rawStats [(1, 1), (2, 1), (3, 2), (6, 0)]).max = some 6 ∧
    (rawStats [(1, 1), (2, 1), (3, 2), (6, 0)]).mean = some (9 / 4) ∧
    (rawStats [(1, 1), (2, 1), (3, 2), (6, 0)]).variance = some (11 / 16) := by
  decide +kernel

theorem sumWV_append (a b : List Pt) : sumWV (a ++ b) = sumWV a + sumWV b := by
  simp [sumWV, List.map_append, List.sum_append]

theorem wsum_append' (a b : List Pt) : wsum (a ++ b) = wsum a + wsum b := by
  simp [wsum, List.map_append, List.sum_append]

/-- **The mean of a sum of histograms is the pooled mean**: the statistics of `h(A) + h(B)` (or of two
    `fill_n` chunks) report the weight-average `(W_A·μ_A + W_B·μ_B) / (W_A + W_B)` of the two means,
    which lies between them. -/
theorem C14_pooled_mean (a b : List Pt) (ha : a ≠ []) (hb : b ≠ []) (hwa : 0 < wsum a) (hwb : 0 < wsum b) :
    ∃ μa μb μ, (rawStats a).mean = some μa ∧ (rawStats b).mean = some μb ∧
      ((rawStats a).add (rawStats b)).mean = some μ ∧
      μ = (wsum a * μa + wsum b * μb) / (wsum a + wsum b) ∧ min μa μb ≤ μ ∧ μ ≤ max μa μb := by
  have hab : a ++ b ≠ [] := by simp [ha]
  have hw : 0 < wsum (a ++ b) := by rw [wsum_append']; exact add_pos hwa hwb
  have h1 := (C14_moments a ha hwa).1
  have h2 := (C14_moments b hb hwb).1
  have h3 := (C14_moments (a ++ b) hab hw).1
  rw [← C14_hom] at h3
  rw [sumWV_append, wsum_append'] at h3
  have hwa' := ne_of_gt hwa
  have hwb' := ne_of_gt hwb
  have hsum : 0 < wsum a + wsum b := add_pos hwa hwb
  have e1 : wsum a * (sumWV a / wsum a) = sumWV a := by field_simp
  have e2 : wsum b * (sumWV b / wsum b) = sumWV b := by field_simp
  refine ⟨_, _, _, h1, h2, h3, by rw [e1, e2], ?_, ?_⟩
  · rw [le_div_iff₀ hsum]
    rcases le_total (sumWV a / wsum a) (sumWV b / wsum b) with h | h
    · rw [min_eq_left h]; nlinarith [mul_le_mul_of_nonneg_left h (le_of_lt hwb)]
    · rw [min_eq_right h]; nlinarith [mul_le_mul_of_nonneg_left h (le_of_lt hwa)]
  · rw [div_le_iff₀ hsum]
    rcases le_total (sumWV a / wsum a) (sumWV b / wsum b) with h | h
    · rw [max_eq_right h]; nlinarith [mul_le_mul_of_nonneg_left h (le_of_lt hwa)]
    · rw [max_eq_left h]; nlinarith [mul_le_mul_of_nonneg_left h (le_of_lt hwb)]

/-! Non-vacuity: A = {1, 3} (weights 1, 1), B = {6} (weight 2): means 2 and 6, pooled mean 4. -/
example : ((rawStats [(1, 1), (3, 1)]).add (rawStats [(6, 2)])).mean = some 4 := by decide +kernel

theorem sum_eq_zero_iff_of_nonneg {α} (l : List α) (f : α → Rat) (h : ∀ x ∈ l, 0 ≤ f x) :
    (l.map f).sum = 0 ↔ ∀ x ∈ l, f x = 0 := by
  induction l with
  | nil => simp
  | cons x xs ih =>
    have hx := h x (List.mem_cons_self ..)
    have hxs := fun y hy => h y (List.mem_cons_of_mem _ hy)
    have hs := sum_nonneg_of_forall xs f hxs
    simp only [List.map_cons, List.sum_cons, List.mem_cons, forall_eq_or_imp]
    rw [← ih hxs]
    constructor
    · intro e; constructor <;> linarith
    · rintro ⟨a, b⟩; linarith

/-- **The variance is zero exactly when all the weight sits on one value** (non-negative weights):
    every entry has weight 0 or the value `mean()`. -/
theorem C14_variance_zero_iff (d : List Pt) (hne : d ≠ []) (hw : 0 < wsum d) (hp : ∀ p ∈ d, 0 ≤ p.2) :
    (rawStats d).variance = some 0 ↔ ∀ p ∈ d, p.2 = 0 ∨ p.1 = sumWV d / wsum d := by
  rw [(C14_moments d hne hw).2]
  have hw' := ne_of_gt hw
  rw [Option.some.injEq, div_eq_zero_iff, or_iff_left hw',
    sum_eq_zero_iff_of_nonneg d _ fun p hpm => mul_nonneg (hp p hpm) (sq_nonneg _)]
  refine forall₂_congr fun p _ => ?_
  rw [mul_eq_zero, sq_eq_zero_iff, sub_eq_zero]

example : (rawStats [(2, 1), (2, 3), (7, 0)]).variance = some 0 := by decide +kernel


theorem sumWV2_append (a b : List Pt) : sumWV2 (a ++ b) = sumWV2 a + sumWV2 b := by
  simp [sumWV2, List.map_append, List.sum_append]

/-- variance in the "sum of squares" form the implementation computes -/
theorem C14_variance_raw (d : List Pt) (hne : d ≠ []) (hw : 0 < wsum d) :
    (rawStats d).variance = some ((sumWV2 d - sumWV d * sumWV d / wsum d) / wsum d) := by
  obtain ⟨h1, h2, h3, _, _⟩ := C14_sums d hne
  have hv : (rawStats d).valid = true := by cases d <;> simp [rawStats, statsOf, Stats.empty]
  simp only [Stats.variance, hv, h1, h2, h3, hw, decide_true, Bool.and_self, if_true]

/-- **Law of total variance for a sum of histograms**: the variance reported by `h(A) + h(B)` is the
    weight-average of the two variances plus the weight-average of the squared distances of the two
    means from the pooled mean. -/
theorem C14_pooled_variance (a b : List Pt) (ha : a ≠ []) (hb : b ≠ []) (hwa : 0 < wsum a) (hwb : 0 < wsum b) :
    ∃ μa μb μ va vb v, (rawStats a).mean = some μa ∧ (rawStats b).mean = some μb ∧
      ((rawStats a).add (rawStats b)).mean = some μ ∧
      (rawStats a).variance = some va ∧ (rawStats b).variance = some vb ∧
      ((rawStats a).add (rawStats b)).variance = some v ∧
      v = (wsum a * (va + (μa - μ) ^ 2) + wsum b * (vb + (μb - μ) ^ 2)) / (wsum a + wsum b) := by
  have hab : a ++ b ≠ [] := by simp [ha]
  have hw : 0 < wsum (a ++ b) := by rw [wsum_append']; exact add_pos hwa hwb
  have m1 := (C14_moments a ha hwa).1
  have m2 := (C14_moments b hb hwb).1
  have m3 := (C14_moments (a ++ b) hab hw).1
  have v1 := C14_variance_raw a ha hwa
  have v2 := C14_variance_raw b hb hwb
  have v3 := C14_variance_raw (a ++ b) hab hw
  rw [← C14_hom] at m3 v3
  rw [sumWV_append, wsum_append'] at m3 v3
  rw [sumWV2_append] at v3
  refine ⟨_, _, _, _, _, _, m1, m2, m3, v1, v2, v3, ?_⟩
  have hwa' := ne_of_gt hwa
  have hwb' := ne_of_gt hwb
  have hsum := ne_of_gt (add_pos hwa hwb)
  field_simp
  ring

example : ((rawStats [(1, 1), (3, 1)]).add (rawStats [(6, 2)])).variance = some (9 / 2) := by decide +kernel

end Physt

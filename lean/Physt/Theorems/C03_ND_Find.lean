import Physt.Proofs.FillFindND
/-!
# C03 in N dimensions — `find_bin` changes nothing, `fill` returns what `find_bin` returns

For histograms with ANY mix of adaptive grids, non-adaptive grids and static bins, every `FloatOps`,
every fuel, arrays of any shape and values with any number of coordinates (helper lemmas:
`Proofs/FillFindND.lean`; the non-adaptive case with tracking on is `C03_nd_fill` in `C03_ND.lean`).

* `C03_nd_find_pure` — `find_bin` reads the bins only;
* `C03_nd_fill_returns_find` — `fill` returns the result of `find_bin` on the histogram AFTER the call;
* `C03_nd_fill_nan` — nothing is returned iff a coordinate is NaN, and then nothing changed;
* `C03_nd_growth_closed_form` — what the growth step of `fill` does, axis by axis;
* `C03_nd_fill_outside_nokeep` — tracking off, point outside the bins: only dtype promotion and growth
  (zero padding of both arrays by the SAME reshape instructions), nothing else;
* `C03_nd_fill_outside_totals` — … and the totals stay, when the growth reaches the cell of each
  coordinate (`GrowthReaches`); `C03_nd_cut_counterexample`: they do not stay without that;
* `C03_nd_fill_outside_static` — with non-adaptive axes only the histogram is unchanged up to the dtype.
-/
namespace Physt
open Grid

/-- **`find_bin` changes nothing and reads the bins only.**  In the model `HN.findBin` returns an index
    and no histogram, so there is no state it could change; and its result depends on the axes alone:
    two histograms with the same axes — whatever their contents, squared errors, missed, dtype,
    `keep_missed`, names — give the same answer for every value. -/
theorem C03_nd_find_pure (fo : FloatOps) (h h' : HN) (hax : h'.axes = h.axes) (v : List Rat) :
    h'.findBin fo v = h.findBin fo v :=
  HN.findBin_axes fo h h' hax v

/-- **`fill` returns what `find_bin` returns afterwards.**  For a value without NaN, on any mix of
    adaptive and non-adaptive axes, `fill` returns the index `find_bin` gives on the histogram AFTER
    the call (i.e. in the grown bins; `None` when the point is outside them). -/
theorem C03_nd_fill_returns_find (fo : FloatOps) (fuel : Nat) (h : HN) (value : List (Option Rat)) (w : Rat)
    (wk : H1.NumKind) (hv : value.any Option.isNone = false) :
    (h.fill fo fuel value w wk).2
      = some ((h.fill fo fuel value w wk).1.findBin fo (value.filterMap id)) :=
  fill_snd_eq_findBin fo fuel h value w wk hv

/-- … and with non-adaptive axes only this is also what `find_bin` returned BEFORE the call, and the
    axes are the same (no hypothesis on the bins, the shapes or `keep_missed`, unlike `C03_nd_fill`). -/
theorem C03_nd_fill_returns_find_static (fo : FloatOps) (fuel : Nat) (h : HN) (hs : NonAdaptive h.axes)
    (value : List (Option Rat)) (w : Rat) (wk : H1.NumKind) (hv : value.any Option.isNone = false) :
    (h.fill fo fuel value w wk).2 = some (h.findBin fo (value.filterMap id)) ∧
    (h.fill fo fuel value w wk).1.axes = h.axes :=
  ⟨fill_snd_static fo fuel h hs value w wk hv, fill_axes_static fo fuel h hs value w wk⟩

/-- **NaN.**  `fill` returns nothing exactly when a coordinate of the value is NaN, and then the
    histogram is unchanged (not even the dtype is promoted). -/
theorem C03_nd_fill_nan (fo : FloatOps) (fuel : Nat) (h : HN) (value : List (Option Rat)) (w : Rat)
    (wk : H1.NumKind) :
    ((h.fill fo fuel value w wk).2 = none ↔ value.any Option.isNone = true) ∧
    (value.any Option.isNone = true → (h.fill fo fuel value w wk).1 = h) :=
  ⟨fill_snd_none_iff fo fuel h value w wk, fun hv => by rw [fill_of_nan fo fuel h value w wk hv]⟩

/-- **After the growth step `fill` touches contents, squared errors and missed only**: axes, names,
    `keep_missed` and dtype of the result are those of the histogram after dtype promotion and growth
    (`HN.grown`), and the index returned is searched in those axes. -/
theorem C03_nd_fill_fields (fo : FloatOps) (fuel : Nat) (h : HN) (value : List (Option Rat)) (w : Rat)
    (wk : H1.NumKind) (hv : value.any Option.isNone = false) :
    (h.fill fo fuel value w wk).1.axes = (h.grown fo fuel value wk).axes ∧
    (h.fill fo fuel value w wk).1.names = (h.grown fo fuel value wk).names ∧
    (h.fill fo fuel value w wk).1.keep = (h.grown fo fuel value wk).keep ∧
    (h.fill fo fuel value w wk).1.dtype = (h.grown fo fuel value wk).dtype ∧
    (h.fill fo fuel value w wk).2 = some ((h.grown fo fuel value wk).findBin fo (value.filterMap id)) :=
  fill_fields fo fuel h value w wk hv

/-- **The growth step of `fill`, axis by axis.**  Axis `i` becomes `growAxis` of the ORIGINAL axis `i`
    and coordinate `i` of the value: a non-adaptive axis (or an axis without coordinate) stays, an
    adaptive grid `g` becomes `(g.forceSingle fo fuel x g.ire).1`; the instruction for axis `i` is
    `(new bin count, reshape)` of that call; contents and squared errors BOTH go through these
    instructions (`reshapeAll` = `HN.reshapeAxis` for axis 0, then axis 1, …); nothing else changes. -/
theorem C03_nd_growth_closed_form (fo : FloatOps) (fuel : Nat) (h : HN) (v : List Rat) :
    h.adaptAxes fo fuel (v.map fun x => [x]) true =
      { h with axes := (growAxes fo fuel h.axes v).map (·.1),
               freq := reshapeAll h.freq ((growAxes fo fuel h.axes v).map (·.2)),
               err2 := reshapeAll h.err2 ((growAxes fo fuel h.axes v).map (·.2)) } ∧
    (growAxes fo fuel h.axes v).length = h.axes.length ∧
    (∀ i : Nat, (growAxes fo fuel h.axes v)[i]? = h.axes[i]?.map fun b => growAxis fo fuel b v[i]?) ∧
    (∀ b x, b.isAdaptive = false → growAxis fo fuel b x = (b, (b.bins fo).length, .noChange)) ∧
    (∀ g x, g.adaptive = true → growAxis fo fuel (.fixed g) (some x)
      = (.fixed (g.forceSingle fo fuel x g.ire).1, (g.forceSingle fo fuel x g.ire).1.count,
          (g.forceSingle fo fuel x g.ire).2)) :=
  ⟨adaptAxes_single fo fuel h v, growAxes_length fo fuel h.axes v, growAxes_getElem? fo fuel h.axes v,
    growAxis_nonadaptive fo fuel, growAxis_adaptive fo fuel⟩

/-- **Outside the bins, tracking of missed values off: only growth and dtype.**  If the value has no
    NaN, `keep_missed = False` and `fill` returns `None` (the point is outside the bins after the
    growth), then the histogram after the call is the old one with the dtype promoted, every axis
    replaced by its grown version, and contents and squared errors passed through the reshape
    instructions of that growth (the old numbers, moved and padded with zeros) — missed,
    `keep_missed` and names are the old ones and nothing is added to any cell. -/
theorem C03_nd_fill_outside_nokeep (fo : FloatOps) (fuel : Nat) (h : HN) (value : List (Option Rat)) (w : Rat)
    (wk : H1.NumKind) (hv : value.any Option.isNone = false) (hk : h.keep = false)
    (hout : (h.fill fo fuel value w wk).2 = some none) :
    (h.fill fo fuel value w wk).1 =
      { h with dtype := h.dtype.promote wk.dtype,
               axes := (growAxes fo fuel h.axes (value.filterMap id)).map (·.1),
               freq := reshapeAll h.freq ((growAxes fo fuel h.axes (value.filterMap id)).map (·.2)),
               err2 := reshapeAll h.err2 ((growAxes fo fuel h.axes (value.filterMap id)).map (·.2)) } :=
  fill_outside_nokeep fo fuel h value w wk hv hk hout

/-- what one reshape instruction does, cell by cell — the old entry, the old entry `k` cells further
    down, or zero: growth only pads with zeros -/
theorem C03_nd_reshape_cells (a : Arr) (i n : Nat) (r : Reshape) (idx : List Nat)
    (hv : validIdx (Arr.setAt a.shape i n) idx = true) (j : Nat) (hj : idx[i]? = some j) :
    (HN.reshapeAxis a i n r).get idx =
      match r with
      | .noChange => a.get idx
      | .fresh => 0
      | .shift k => if k ≤ j ∧ j - k < a.shape[i]?.getD 0 then a.get (idx.set i (j - k)) else 0 :=
  get_reshapeAxis a i n r idx hv j hj

/-- **… and the totals stay**, for arrays shaped like the bins, when on every adaptive grid that gets
    a coordinate the edges increase and the cell search reaches the cell (`GrowthReaches`; in exact
    arithmetic: positive widths, `growthReaches_exact`): every reshape instruction then has room for
    the old contents (`RoomFor`: no change, a fresh array for an axis without bins, or a shift by `k`
    with `k + old ≤ new`), and `Arr.total_shiftAxis` applies axis by axis. -/
theorem C03_nd_fill_outside_totals (fo : FloatOps) (fuel : Nat) (h : HN) (value : List (Option Rat)) (w : Rat)
    (wk : H1.NumKind) (hv : value.any Option.isNone = false) (hk : h.keep = false)
    (hout : (h.fill fo fuel value w wk).2 = some none)
    (hf : h.freq.HasShape (h.shape fo)) (he : h.err2.HasShape (h.shape fo))
    (hreach : GrowthReaches fo fuel h.axes (value.filterMap id)) :
    (h.fill fo fuel value w wk).1.freq.total = h.freq.total ∧
    (h.fill fo fuel value w wk).1.err2.total = h.err2.total :=
  fill_outside_nokeep_totals fo fuel h value w wk hv hk hout hf he hreach

/-- the array-level fact behind it: one reshape instruction per axis, each with room, keeps the total -/
theorem C03_nd_reshape_totals (a : Arr) (plan : List (Nat × Reshape)) (hw : a.WellShaped)
    (hlen : plan.length ≤ a.shape.length)
    (hroom : ∀ (i : Nat) (p : Nat × Reshape), plan[i]? = some p → RoomFor (a.shape[i]?.getD 0) p.1 p.2) :
    (reshapeAll a plan).total = a.total :=
  total_reshapeAll a plan hw hlen hroom

/-- `_force_bin_existence_single` leaves room whenever the edges increase and the search reaches the
    cell of the value -/
theorem C03_nd_growth_has_room (fo : FloatOps) (fuel : Nat) (g : Grid) (v : Rat) (ire : Bool)
    (hm : EdgeMono fo g.w g.shift) (hr : Reach fo g.w g.shift fuel v) :
    RoomFor g.count (g.forceSingle fo fuel v ire).1.count (g.forceSingle fo fuel v ire).2 :=
  forceSingle_room fo fuel g v ire hm hr

/-- **The hypothesis on the search is needed** (kernel-checked): with a `FloatOps` whose estimate is
    always 0 and fuel 0, a 1-D adaptive histogram with contents 1, 2, 3 and `keep_missed = False`
    filled with the value 10 reports "outside" and is CUT to one bin — its total drops from 6 to 1.
    (The search of the model stops when the fuel is used up; physt's loops run until the edges
    bracket the value.) -/
theorem C03_nd_cut_counterexample :
    let h : HN := { axes := [.fixed { w := 1, tmin := 0, count := 3, adaptive := true }],
                    freq := ⟨[3], [1, 2, 3]⟩, err2 := ⟨[3], [1, 2, 3]⟩, keep := false }
    (h.fill badEstimate 0 [some 10] 1 .pyInt).2 = some none ∧
    (h.fill badEstimate 0 [some 10] 1 .pyInt).1.freq = ⟨[1], [1]⟩ ∧
    h.freq.total = 6 ∧ (h.fill badEstimate 0 [some 10] 1 .pyInt).1.freq.total = 1 :=
  fill_outside_cut

/-- **All axes non-adaptive, tracking off, point outside the bins: nothing changes but the dtype.** -/
theorem C03_nd_fill_outside_static (fo : FloatOps) (fuel : Nat) (h : HN) (hs : NonAdaptive h.axes)
    (value : List (Option Rat)) (w : Rat) (wk : H1.NumKind) (hv : value.any Option.isNone = false)
    (hk : h.keep = false) (hout : h.findBin fo (value.filterMap id) = none) :
    h.fill fo fuel value w wk = (h.coerce wk.dtype, some none) :=
  fill_outside_nokeep_static fo fuel h hs value w wk hv hk hout

/-! ## Non-vacuity

`ExampleFind.h`: axis 0 an adaptive grid with the bins [0, 1), [1, 2); axis 1 static bins [0, 1),
[1, 2]; contents 1, 2, 3, 4; `keep_missed = False`. -/

open ExampleFind in
/-- the point (-3/2, 5): the grid GROWS by two cells to the left, the point is outside the static
    axis; `fill` returns `None`, the contents are the old ones two cells further up, zeros in the new
    cells, missed untouched, dtype promoted to float -/
example :
    (h.fill FloatOps.exact 8 outside 1 .pyFloat).2 = some none ∧
    (h.fill FloatOps.exact 8 outside 1 .pyFloat).1 =
      { h with dtype := .f64,
               axes := [.fixed { w := 1, tmin := -2, count := 4, adaptive := true }, .static [(0, 1), (1, 2)] true],
               freq := ⟨[4, 2], [0, 0, 0, 0, 1, 2, 3, 4]⟩, err2 := ⟨[4, 2], [0, 0, 0, 0, 1, 4, 9, 16]⟩ } ∧
    (growAxes FloatOps.exact 8 h.axes (outside.filterMap id)).map (·.2) = [(4, .shift 2), (2, .noChange)] := by
  decide +kernel

open ExampleFind in
/-- the theorems apply to it -/
example :
    (h.fill FloatOps.exact 8 outside 1 .pyFloat).1 =
      { h with dtype := h.dtype.promote H1.NumKind.pyFloat.dtype,
               axes := (growAxes FloatOps.exact 8 h.axes (outside.filterMap id)).map (·.1),
               freq := reshapeAll h.freq ((growAxes FloatOps.exact 8 h.axes (outside.filterMap id)).map (·.2)),
               err2 := reshapeAll h.err2 ((growAxes FloatOps.exact 8 h.axes (outside.filterMap id)).map (·.2)) } ∧
    (h.fill FloatOps.exact 8 outside 1 .pyFloat).1.freq.total = h.freq.total ∧
    (h.fill FloatOps.exact 8 outside 1 .pyFloat).1.err2.total = h.err2.total :=
  ⟨C03_nd_fill_outside_nokeep FloatOps.exact 8 h outside 1 .pyFloat outside_finite rfl (by decide +kernel),
    C03_nd_fill_outside_totals FloatOps.exact 8 h outside 1 .pyFloat outside_finite rfl (by decide +kernel)
      shapes.1 shapes.2 (reaches 8 _)⟩

open ExampleFind in
/-- the point (-3/2, 1/2): `find_bin` BEFORE the call finds nothing, the grid grows, `fill` returns the
    cell (0, 0) — the one `find_bin` finds AFTER the call — and the weight lands there -/
example :
    h.findBin FloatOps.exact (inside.filterMap id) = none ∧
    (h.fill FloatOps.exact 8 inside 1 .pyInt).2 = some (some [0, 0]) ∧
    (h.fill FloatOps.exact 8 inside 1 .pyInt).2
      = some ((h.fill FloatOps.exact 8 inside 1 .pyInt).1.findBin FloatOps.exact (inside.filterMap id)) ∧
    (h.fill FloatOps.exact 8 inside 1 .pyInt).1.freq = ⟨[4, 2], [1, 0, 0, 0, 1, 2, 3, 4]⟩ :=
  ⟨by decide +kernel, by decide +kernel,
    C03_nd_fill_returns_find FloatOps.exact 8 h inside 1 .pyInt inside_finite, by decide +kernel⟩

open ExampleFind in
/-- a NaN coordinate -/
example :
    (h.fill FloatOps.exact 8 [some (-3 / 2), none] 1 .pyFloat).2 = none ∧
    (h.fill FloatOps.exact 8 [some (-3 / 2), none] 1 .pyFloat).1 = h :=
  ⟨(C03_nd_fill_nan FloatOps.exact 8 h _ 1 .pyFloat).1.mpr (by decide),
    (C03_nd_fill_nan FloatOps.exact 8 h _ 1 .pyFloat).2 (by decide)⟩

/-- non-adaptive axes only (the 2-D example of `C03_ND.lean`), tracking off, a point in the gap of the
    second axis: unchanged up to the dtype -/
example :
    let h := HN.empty FloatOps.exact ExampleND.axes false none none
    h.fill FloatOps.exact 8 [some (1 / 2), some (9 / 2)] 1 .pyFloat = (h.coerce .f64, some none) :=
  C03_nd_fill_outside_static FloatOps.exact 8 _ ExampleND.static _ 1 .pyFloat (by decide) rfl (by decide +kernel)

end Physt


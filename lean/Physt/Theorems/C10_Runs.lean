import Physt.Proofs.MergeRuns
/-!
# C10 (continued) — merge_bins for ANY bin map that climbs in steps: runs, merged edges,
# min_frequency, all axes at once

Helper lemmas: `Proofs/MergeRuns.lean`.  Vocabulary:

* `runOf (xs.zip map) j` — *run `j`*: the old bins (or old contents) that the bin map sends to new
  bin `j`, in their old order (the filter used by `C10_run_content`);
* `MapRunsMeet bins map` — whenever old bins `k`, `k + 1` go to the same new bin, the right edge of
  `k` is the left edge of `k + 1` (no gap *inside* a run; gaps *between* runs are allowed);
* `mergedByMap bins map` — `last map value + 1` bins, the `j`-th from the left edge of the first bin
  of run `j` to the right edge of its last bin;
* `StepChain 0 map` with head 0 — the map starts at 0 and climbs by 0 or 1 (`amountMap`, `minFreqMap`).
-/
namespace Physt
open H1

/-! ## 1. merged edges for any step chain -/

/-- **Acceptance, for any bin map at all**: `apply_bin_map` returns bins iff no two neighbouring old
    bins with the same target are separated by a gap. -/
theorem C10_accept_iff (bins : Bins) (map : List Nat) :
    (∃ r, mergeBinsAux (bins.zip map) none = .ok r) ↔ MapRunsMeet bins map :=
  mergeBinsAux_ok_iff bins map

/-- … and for a step chain this says: **every run is a consecutive binning** (`is_consecutive`),
    i.e. within every run adjacent bins meet. -/
theorem C10_accept_runwise (bins : Bins) (map : List Nat) (hl : map.length = bins.length) (hc : StepChain 0 map) :
    MapRunsMeet bins map ↔ ∀ j, consecutiveB (runOf (bins.zip map) j) = true :=
  mapRunsMeet_iff_runs bins map hl hc

/-- **Merged edges for a step chain starting at 0** (one map entry per bin; this is the situation of
    `merge_bins(amount)` and of `merge_bins(min_frequency=…)`).  If no run has an inner gap the merge
    returns exactly `mergedByMap`; otherwise it is refused. -/
theorem C10_merged_by_map (bins : Bins) (map : List Nat) (hl : map.length = bins.length)
    (hc : StepChain 0 map) (h0 : ∀ x, map.head? = some x → x = 0) :
    (MapRunsMeet bins map → mergeBinsAux (bins.zip map) none = .ok (mergedByMap bins map)) ∧
    (¬ MapRunsMeet bins map → mergeBinsAux (bins.zip map) none = .error "merging non-consecutive bins") :=
  mergeBinsAux_stepChain bins map hl hc h0

/-- **The new bins.**  There are `last map value + 1` of them (`newCount`); new bin `j` reaches from
    the left edge of the first old bin of run `j` to the right edge of its last old bin, and no run
    is empty. -/
theorem C10_new_bin (bins : Bins) (map : List Nat) (hl : map.length = bins.length)
    (hc : StepChain 0 map) (h0 : ∀ x, map.head? = some x → x = 0) :
    (mergedByMap bins map).length = newCount map ∧
    ∀ j, j < newCount map → ∃ f l, (runOf (bins.zip map) j).head? = some f ∧
      (runOf (bins.zip map) j).getLast? = some l ∧ (mergedByMap bins map)[j]? = some (f.1, l.2) :=
  ⟨mergedByMap_length bins map, fun j hj => mergedByMap_getElem? bins map hl hc h0 j hj⟩

/-- **Every new bin is a union of adjacent old bins and nothing is lost**: the runs `0, 1, 2, …`
    written one after the other are the old list — for the bins and for the contents alike. -/
theorem C10_runs_partition {α} (xs : List α) (map : List Nat) (hl : map.length = xs.length) (hc : StepChain 0 map) :
    (List.range (newCount map)).flatMap (runOf (xs.zip map)) = xs :=
  runs_concat xs map hl hc

/-- **The outer edges are unchanged** (first left edge, last right edge), and **rising bins stay
    rising**. -/
theorem C10_outer_edges (bins : Bins) (map : List Nat) (hl : map.length = bins.length)
    (h0 : ∀ x, map.head? = some x → x = 0) :
    firstEdge? (mergedByMap bins map) = firstEdge? bins ∧ lastEdge? (mergedByMap bins map) = lastEdge? bins :=
  ⟨head?_mergedByMap bins map hl h0, getLast?_mergedByMap bins map hl⟩

theorem C10_rising (bins r : Bins) (map : List Nat) (hl : bins.length ≤ map.length) (hb : Rising bins)
    (hr : mergeBinsAux (bins.zip map) none = .ok r) : Rising r :=
  mergeBinsAux_rising bins map hl hb r hr

/-- the `amount` map is such a step chain, its acceptance condition is `RunsMeet`, and the run-wise
    description of the new bins agrees with the arithmetic one of `C10_merged_edges` -/
theorem C10_amount_instance (bins : Bins) (amount : Nat) :
    StepChain 0 (amountMap bins.length amount) ∧ (∀ x, (amountMap bins.length amount).head? = some x → x = 0) ∧
    (MapRunsMeet bins (amountMap bins.length amount) ↔ RunsMeet bins amount) ∧
    (0 < amount → RunsMeet bins amount → mergedByMap bins (amountMap bins.length amount) = mergedBins bins amount) :=
  ⟨(amountMap_stepChain _ _).1, (amountMap_stepChain _ _).2, mapRunsMeet_amount bins amount,
    mergedByMap_amount bins amount⟩

/-! ## 2. min_frequency -/

/-- **`merge_bins(min_frequency=thr)` of a 1-D histogram** with at least one bin.  With
    `m = minFreqMap thr freq`: the call is accepted iff no run of `m` has a gap inside.  Then the new
    bins are `mergedByMap` (each spans its run), contents and squared errors are the run sums
    (`mergeVals`, see `C10_run_content`) with unchanged totals, underflow / overflow / inner missed,
    dtype and the right-edge flag are untouched, the outer edges are unchanged and rising bins stay
    rising.  Otherwise the call is refused. -/
theorem C10_minfreq_1d (fo : FloatOps) (h : H1) (thr : Rat) (hpos : 0 < h.freq.length)
    (hlen : h.freq.length = (h.bins fo).length) :
    (MapRunsMeet (h.bins fo) (minFreqMap thr h.freq) →
      ∃ r, h.mergeMinFreq fo thr = .ok r ∧
        r.bins fo = mergedByMap (h.bins fo) (minFreqMap thr h.freq) ∧
        (r.bins fo).length = newCount (minFreqMap thr h.freq) ∧
        r.freq = mergeVals h.freq (minFreqMap thr h.freq) (newCount (minFreqMap thr h.freq)) ∧
        r.err2 = mergeVals h.err2 (minFreqMap thr h.freq) (newCount (minFreqMap thr h.freq)) ∧
        r.freq.sum = h.freq.sum ∧ (h.err2.length = h.freq.length → r.err2.sum = h.err2.sum) ∧
        r.under = h.under ∧ r.over = h.over ∧ r.inner = h.inner ∧ r.keep = h.keep ∧ r.dtype = h.dtype ∧
        r.binning.ire = h.binning.ire ∧
        firstEdge? (r.bins fo) = firstEdge? (h.bins fo) ∧ lastEdge? (r.bins fo) = lastEdge? (h.bins fo) ∧
        (Rising (h.bins fo) → Rising (r.bins fo))) ∧
    (¬ MapRunsMeet (h.bins fo) (minFreqMap thr h.freq) →
      h.mergeMinFreq fo thr = .error "merging non-consecutive bins") :=
  H1.mergeMinFreq_spec fo h thr hpos hlen

/-- **What the threshold guarantees** (`S j` = content of run `j` = content of new bin `j`):
    1. every run except the last has `S j > thr`, **or** `0 < S j` and the next run starts with a
       bin that reaches `thr` on its own (the docstring's "minima between high bins": such a run may
       stay below the threshold);
    2. no run is longer than needed: a proper non-empty initial part of a run sums to `≤ thr`;
    3. a bin that reaches `thr` on its own has only bins summing to `≤ 0` before it in its run
       (it starts a new run as soon as anything positive is pending).
    These three properties determine the grouping (the loop closes a run exactly when 1 allows it
    and 2, 3 force it); the examples below show that none can be strengthened. -/
theorem C10_minfreq_guarantee (thr : Rat) (freq : List Rat) :
    (∀ j, j + 1 < newCount (minFreqMap thr freq) →
      thr < (runOf (freq.zip (minFreqMap thr freq)) j).sum ∨
      (0 < (runOf (freq.zip (minFreqMap thr freq)) j).sum ∧
        ∃ g, (runOf (freq.zip (minFreqMap thr freq)) (j + 1)).head? = some g ∧ thr ≤ g)) ∧
    (∀ j p q, runOf (freq.zip (minFreqMap thr freq)) j = p ++ q → p ≠ [] → q ≠ [] → p.sum ≤ thr) ∧
    (∀ j p g q, runOf (freq.zip (minFreqMap thr freq)) j = p ++ g :: q → thr ≤ g → p.sum ≤ 0) :=
  minFreqMap_runs thr freq

/-- **The guarantees characterise the grouping exactly**: `m` is the bin map of
    `merge_bins(min_frequency=thr)` iff it has one entry per bin, starts at 0, climbs in steps of 0 or
    1 and its runs have the three properties of `C10_minfreq_guarantee`.  So nothing stronger can be
    said about the runs than what follows from these. -/
theorem C10_minfreq_characterised (thr : Rat) (freq : List Rat) (m : List Nat) :
    m = minFreqMap thr freq ↔
      m.length = freq.length ∧ StepChain 0 m ∧ (∀ x, m.head? = some x → x = 0) ∧
      (∀ j, j + 1 < newCount m →
        thr < (runOf (freq.zip m) j).sum ∨
        (0 < (runOf (freq.zip m) j).sum ∧ ∃ g, (runOf (freq.zip m) (j + 1)).head? = some g ∧ thr ≤ g)) ∧
      (∀ j p q, runOf (freq.zip m) j = p ++ q → p ≠ [] → q ≠ [] → p.sum ≤ thr) ∧
      (∀ j p g q, runOf (freq.zip m) j = p ++ g :: q → thr ≤ g → p.sum ≤ 0) := by
  constructor
  · rintro rfl
    obtain ⟨h1, h2, h3⟩ := C10_minfreq thr freq
    obtain ⟨g1, g2, g3⟩ := minFreqMap_runs thr freq
    exact ⟨h2, h1, h3, g1, g2, g3⟩
  · rintro ⟨h1, h2, h3, g1, g2, g3⟩
    exact minFreqMap_unique thr freq m h1 h2 h3 g1 g2 g3

/-- the content of new bin `j` is the sum of run `j` (link between `runOf` and `mergeVals`) -/
theorem C10_run_sum (vals : List Rat) (map : List Nat) (newN j : Nat) (hj : j < newN) :
    (mergeVals vals map newN)[j]? = some (runOf (vals.zip map) j).sum :=
  C10_run_content vals map newN j hj

/-! Sharpness of `C10_minfreq_guarantee` (threshold 4):
    * `[5, 1, 5]`: the middle run has content `1 < 4` although it is not the last — "every new bin
      but the last reaches the threshold" is false;
    * `[4, 1]`: a bin whose content *equals* the threshold is not closed (`>` in 1 is strict) …
    * `[1, 4]`: … but it does start a new run (`≤` in 3 is not strict);
    * `[5, 1]`: the last run can be anything;
    * `[0, 5]`: a high bin does not start a new run when what precedes it sums to 0 (3 says `≤ 0`,
      not "nothing");
    * `[3, 3, 3]`: runs are closed as soon as they exceed the threshold (2). -/
example : minFreqMap 4 [5, 1, 5] = [0, 1, 2] ∧ minFreqMap 4 [4, 1] = [0, 0] ∧ minFreqMap 4 [1, 4] = [0, 1] ∧
    minFreqMap 4 [5, 1] = [0, 1] ∧ minFreqMap 4 [0, 5] = [0, 0] ∧ minFreqMap 4 [3, 3, 3] = [0, 0, 1] := by
  decide +kernel

/-! ## 3. all axes at once -/

/-- **`merge_bins(axis=None)`, when accepted** (by amount or by min_frequency), for a histogram
    whose arrays have the shape of its binnings: every axis `k` has been merged by a step-chain bin
    map of its own with no gap inside a run (for the `amount` form: the `amount` map of that axis);
    its new bins are `mergedByMap` of its old bins — unions of adjacent old bins with the old outer
    edges (`C10_new_bin`, `C10_outer_edges`) — and it keeps its right-edge flag.  The totals of
    contents and of squared errors, the missed count, the names, the dtype are unchanged. -/
theorem C10_all_axes (fo : FloatOps) (h r : HN) (amount : Option Nat) (thr : Option Rat)
    (hfs : h.freq.shape = h.shape fo) (hes : h.err2.shape = h.shape fo)
    (hfw : h.freq.WellShaped) (hew : h.err2.WellShaped)
    (hr : h.mergeAll fo amount thr = .ok r) :
    r.axes.length = h.axes.length ∧
    (∀ (k : Nat) (bn : Binning), h.axes[k]? = some bn → ∃ map,
      StepChain 0 map ∧ (∀ x, map.head? = some x → x = 0) ∧ map.length = (bn.bins fo).length ∧
      MapRunsMeet (bn.bins fo) map ∧ (∀ a, amount = some a → map = amountMap (bn.bins fo).length a) ∧
      r.axes[k]? = some (.static (mergedByMap (bn.bins fo) map) bn.ire)) ∧
    r.freq.total = h.freq.total ∧ r.err2.total = h.err2.total ∧
    r.missed = h.missed ∧ r.names = h.names ∧ r.dtype = h.dtype ∧ r.keep = h.keep ∧
    r.freq.shape = r.shape fo ∧ r.err2.shape = r.shape fo := by
  have inv := HN.mergeAll_spec fo h r amount thr hfs hes hfw hew hr
  exact ⟨inv.len, fun k bn hbn => inv.done k bn (List.getElem?_eq_some_iff.mp hbn).1 hbn, inv.ftot, inv.etot,
    inv.missed, inv.names, inv.dtype, inv.keep, inv.fshape, inv.eshape⟩

/-- **`merge_bins(amount)` on all axes**: accepted when every axis has a bin and no run of `amount`
    bins has an inner gap on any axis; then every axis gets `mergedBins` (`C10_merged_edges`). -/
theorem C10_all_axes_amount (fo : FloatOps) (h : HN) (a : Nat) (thr : Option Rat) (ha : 0 < a)
    (hfs : h.freq.shape = h.shape fo) (hes : h.err2.shape = h.shape fo)
    (hfw : h.freq.WellShaped) (hew : h.err2.WellShaped)
    (hall : ∀ (k : Nat) (bn : Binning), h.axes[k]? = some bn → 0 < (bn.bins fo).length ∧ RunsMeet (bn.bins fo) a) :
    ∃ r, h.mergeAll fo (some a) thr = .ok r ∧
      ∀ (k : Nat) (bn : Binning), h.axes[k]? = some bn →
        r.axes[k]? = some (.static (mergedBins (bn.bins fo) a) bn.ire) := by
  obtain ⟨r, hr⟩ := HN.mergeAll_amount_ok fo h a thr ha hfs hes hfw hew hall
  exact ⟨r, hr, fun k bn hbn => (HN.mergeAll_amount_bins fo h r a thr hfs hes hfw hew hr k bn hbn).2⟩

/-- **All-or-nothing.**  If any one axis has a run of `amount` bins with a gap inside, the whole
    call is refused: nothing is returned (in particular no half-merged histogram). -/
theorem C10_all_axes_refused (fo : FloatOps) (h : HN) (a : Nat) (thr : Option Rat)
    (hfs : h.freq.shape = h.shape fo) (hes : h.err2.shape = h.shape fo)
    (hfw : h.freq.WellShaped) (hew : h.err2.WellShaped)
    (k : Nat) (bn : Binning) (hbn : h.axes[k]? = some bn) (hbad : ¬ RunsMeet (bn.bins fo) a) :
    ∃ e, h.mergeAll fo (some a) thr = .error e :=
  HN.mergeAll_amount_refused fo h a thr hfs hes hfw hew k bn hbn hbad

/-- the same for any way of calling it (amount, min_frequency): the error of the first refusing
    axis, met after the axes before it have been merged, is the result of the whole call -/
theorem C10_all_axes_refused_at (fo : FloatOps) (h g : HN) (amount : Option Nat) (thr : Option Rat) (i : Nat)
    (e : String) (hi : i < h.axes.length)
    (hg : (List.range i).foldlM (fun g k => g.mergeAxis fo k amount thr) h = .ok g)
    (he : g.mergeAxis fo i amount thr = .error e) : h.mergeAll fo amount thr = .error e :=
  HN.mergeAll_refused_at fo h g amount thr i e hi hg he

/-- **The order of the axes does not matter**: merging the contents along axis `i` and then along
    axis `j ≠ i` gives the same array as `j` first and `i` second (any shapes, any bin maps). -/
theorem C10_axes_commute (a : Arr) (i j : Nat) (mi mj : List Nat) (Ni Nj : Nat) (hij : i ≠ j) :
    (a.mergeAxis i mi Ni).mergeAxis j mj Nj = (a.mergeAxis j mj Nj).mergeAxis i mi Ni :=
  Arr.mergeAxis_comm a i j mi mj Ni Nj hij

/-- … and for the whole histogram (`amount` form): if axis `i` and then axis `j ≠ i` are merged
    successfully, so are `j` and then `i`, with the same result — bins, contents, squared errors and
    all other fields. -/
theorem C10_axes_commute_hist (fo : FloatOps) (h g r : HN) (i j a : Nat) (thr : Option Rat) (hij : i ≠ j)
    (h1 : h.mergeAxis fo i (some a) thr = .ok g) (h2 : g.mergeAxis fo j (some a) thr = .ok r) :
    ∃ g', h.mergeAxis fo j (some a) thr = .ok g' ∧ g'.mergeAxis fo i (some a) thr = .ok r :=
  HN.mergeAxis_amount_comm fo h g r i j a thr hij h1 h2

/-! ## 4. Non-vacuity -/

namespace C10RunsExamples

theorem ok_of_toOption {α} (x : R α) (r : α) (h : x.toOption = some r) : x = .ok r := by
  cases x with
  | error e => cases h
  | ok v => cases h; rfl

/-- irregular widths; the gap `(7/2, 4)` lies between old bins 2 and 3 -/
def binsA : Bins := [(0, 1), (1, 3), (3, 7 / 2), (4, 6), (6, 7)]
/-- irregular widths; the gap `(3, 7/2)` lies between old bins 1 and 2 -/
def binsB : Bins := [(0, 1), (1, 3), (7 / 2, 4), (4, 6), (6, 7)]
def freqA : List Rat := [1, 1, 3, 2, 1]

/-- the `min_frequency = 4` grouping of `freqA`: runs `{0, 1, 2}` and `{3, 4}` -/
example : minFreqMap 4 freqA = [0, 0, 0, 1, 1] ∧ newCount (minFreqMap 4 freqA) = 2 ∧
    runOf (binsA.zip (minFreqMap 4 freqA)) 0 = [(0, 1), (1, 3), (3, 7 / 2)] ∧
    runOf (binsA.zip (minFreqMap 4 freqA)) 1 = [(4, 6), (6, 7)] ∧
    runOf (freqA.zip (minFreqMap 4 freqA)) 0 = [1, 1, 3] ∧
    mergedByMap binsA (minFreqMap 4 freqA) = [(0, 7 / 2), (4, 7)] := by decide +kernel

/-- on `binsA` the gap lies between the two runs: accepted … -/
theorem meetA : MapRunsMeet binsA (minFreqMap 4 freqA) :=
  (C10_accept_iff _ _).mp ⟨[(0, 7 / 2), (4, 7)], ok_of_toOption _ _ (by decide +kernel)⟩

/-- … on `binsB` it lies inside run 0: not accepted -/
theorem not_meetB : ¬ MapRunsMeet binsB (minFreqMap 4 freqA) := by
  intro hm
  have := hm 1 (1, 3) (7 / 2, 4) 0 (by decide +kernel) (by decide +kernel) (by decide +kernel) (by decide +kernel)
  revert this
  decide +kernel

/-- run by run (`C10_accept_runwise`): run 0 of `binsB` is not consecutive -/
example : consecutiveB (runOf (binsA.zip (minFreqMap 4 freqA)) 0) = true ∧
    consecutiveB (runOf (binsB.zip (minFreqMap 4 freqA)) 0) = false := by decide +kernel

/-- `C10_merged_by_map` and `C10_new_bin` instantiated -/
example : mergeBinsAux (binsA.zip (minFreqMap 4 freqA)) none = .ok (mergedByMap binsA (minFreqMap 4 freqA)) :=
  (C10_merged_by_map binsA _ (by decide +kernel) (C10_minfreq 4 freqA).1 (C10_minfreq 4 freqA).2.2).1 meetA

example : mergeBinsAux (binsB.zip (minFreqMap 4 freqA)) none = .error "merging non-consecutive bins" :=
  (C10_merged_by_map binsB _ (by decide +kernel) (C10_minfreq 4 freqA).1 (C10_minfreq 4 freqA).2.2).2 not_meetB

/-- `C10_new_bin`, `C10_runs_partition`, `C10_outer_edges`, `C10_rising` instantiated -/
example : ∃ f l, (runOf (binsA.zip (minFreqMap 4 freqA)) 1).head? = some f ∧
    (runOf (binsA.zip (minFreqMap 4 freqA)) 1).getLast? = some l ∧
    (mergedByMap binsA (minFreqMap 4 freqA))[1]? = some (f.1, l.2) :=
  (C10_new_bin binsA _ (by decide +kernel) (C10_minfreq 4 freqA).1 (C10_minfreq 4 freqA).2.2).2 1 (by decide +kernel)

example : (List.range (newCount (minFreqMap 4 freqA))).flatMap (runOf (binsA.zip (minFreqMap 4 freqA))) = binsA ∧
    (List.range (newCount (minFreqMap 4 freqA))).flatMap (runOf (freqA.zip (minFreqMap 4 freqA))) = freqA :=
  ⟨C10_runs_partition binsA _ (by decide +kernel) (C10_minfreq 4 freqA).1,
   C10_runs_partition freqA _ (by decide +kernel) (C10_minfreq 4 freqA).1⟩

example : firstEdge? (mergedByMap binsA (minFreqMap 4 freqA)) = some 0 ∧
    lastEdge? (mergedByMap binsA (minFreqMap 4 freqA)) = some 7 := by
  obtain ⟨h1, h2⟩ := C10_outer_edges binsA (minFreqMap 4 freqA) (by decide +kernel) (C10_minfreq 4 freqA).2.2
  exact ⟨h1.trans (by decide +kernel), h2.trans (by decide +kernel)⟩

example : Rising [(0, 7 / 2), (4, 7)] :=
  C10_rising binsA _ (minFreqMap 4 freqA) (by decide +kernel) ((risingB_iff _).mp (by decide +kernel))
    (ok_of_toOption _ _ (by decide +kernel))

def hA : H1 := { binning := .static binsA true, freq := freqA, err2 := freqA, under := some 2, over := some 1 }
def hB : H1 := { hA with binning := .static binsB true }

/-- `C10_minfreq_1d` instantiated: accepted on `hA` (and what comes out), refused on `hB` -/
example : ∃ r, hA.mergeMinFreq FloatOps.exact 4 = .ok r ∧ r.freq.sum = hA.freq.sum ∧ r.under = some 2 ∧
    lastEdge? (r.bins FloatOps.exact) = some 7 := by
  obtain ⟨r, hr, _, _, _, _, hs, _, hu, _, _, _, _, _, _, hl, _⟩ :=
    (C10_minfreq_1d FloatOps.exact hA 4 (by decide) rfl).1 meetA
  exact ⟨r, hr, hs, hu, hl.trans (by decide +kernel)⟩

example : ((hA.mergeMinFreq FloatOps.exact 4).toOption.map fun r => (r.bins FloatOps.exact, r.freq, r.err2, r.under, r.over))
    = some ([(0, 7 / 2), (4, 7)], [5, 3], [5, 3], some 2, some 1) := by decide +kernel

example : hB.mergeMinFreq FloatOps.exact 4 = .error "merging non-consecutive bins" :=
  (C10_minfreq_1d FloatOps.exact hB 4 (by decide) rfl).2 not_meetB

/-- `C10_minfreq_guarantee` on `[2, 1, 5, 1, 6, 0, 0]` (threshold 4): run 0 = `[2, 1]` stays below
    the threshold because the next bin alone reaches it; run 1 = `[5]`; run 2 = `[1]` likewise;
    run 3 = `[6]`; the last run `[0, 0]` is whatever is left -/
example : minFreqMap 4 [2, 1, 5, 1, 6, 0, 0] = [0, 0, 1, 2, 3, 4, 4] ∧
    mergeVals [2, 1, 5, 1, 6, 0, 0] (minFreqMap 4 [2, 1, 5, 1, 6, 0, 0]) 5 = [3, 5, 1, 6, 0] := by decide +kernel

/-- a 5 × 3 histogram; axis 0 has the bins `binsB` (gap between old bins 1 and 2) -/
def hn : HN :=
  { axes := [.static binsB true, .static [(0, 1), (1, 2), (2, 4)] false],
    freq := { shape := [5, 3], data := [1, 2, 3, 4, 5, 6, 7, 8, 9, 10, 11, 12, 13, 14, 15] },
    err2 := { shape := [5, 3], data := [1, 2, 3, 4, 5, 6, 7, 8, 9, 10, 11, 12, 13, 14, 15] },
    missed := some 3, names := ["x", "y"] }

/-- the same with `binsA` on axis 0 (gap between old bins 2 and 3) -/
def hnBad : HN := { hn with axes := [.static binsA true, .static [(0, 1), (1, 2), (2, 4)] false] }

theorem runsMeetB : RunsMeet binsB 2 :=
  (mapRunsMeet_amount binsB 2).mp ((C10_accept_iff _ _).mp ⟨[(0, 3), (7 / 2, 6), (6, 7)], ok_of_toOption _ _ (by decide +kernel)⟩)

theorem runsMeetY : RunsMeet [(0, 1), (1, 2), (2, 4)] 2 :=
  (mapRunsMeet_amount _ 2).mp ((C10_accept_iff _ _).mp ⟨[(0, 2), (2, 4)], ok_of_toOption _ _ (by decide +kernel)⟩)

theorem not_runsMeetA : ¬ RunsMeet binsA 2 := by
  intro h
  have := h 2 (by decide) (by decide)
  revert this
  decide +kernel

/-- `merge_bins(2)` on both axes of `hn`: in twos the gap of `binsB` lies between run 0 and run 1 —
    accepted (`C10_all_axes_amount`) … -/
example : ∃ r, hn.mergeAll FloatOps.exact (some 2) none = .ok r ∧
    r.axes[0]? = some (.static (mergedBins binsB 2) true) ∧
    r.axes[1]? = some (.static (mergedBins [(0, 1), (1, 2), (2, 4)] 2) false) := by
  obtain ⟨r, hr, hax⟩ := C10_all_axes_amount FloatOps.exact hn 2 none (by decide) rfl rfl (by decide +kernel)
    (by decide +kernel) (by
      intro k bn hbn
      match k, hbn with
      | 0, hbn => cases hbn; exact ⟨by decide, runsMeetB⟩
      | 1, hbn => cases hbn; exact ⟨by decide, runsMeetY⟩
      | k + 2, hbn => cases hbn)
  exact ⟨r, hr, hax 0 _ rfl, hax 1 _ rfl⟩

/-- … and this is what comes out -/
example : ((hn.mergeAll FloatOps.exact (some 2) none).toOption.map fun r =>
      (r.axes.map (·.bins FloatOps.exact), r.freq.shape, r.freq.data))
    = some ([[(0, 3), (7 / 2, 6), (6, 7)], [(0, 2), (2, 4)]], [3, 2], [12, 9, 36, 21, 27, 15]) ∧
    ((hn.mergeAll FloatOps.exact (some 2) none).toOption.map fun r => (r.freq.total, r.missed, r.names))
    = some (120, some 3, ["x", "y"]) := by
  decide +kernel

/-- on `hnBad` the gap lies inside run 1 of axis 0: the whole call is refused (`C10_all_axes_refused`),
    although axis 1 alone would merge -/
example : ∃ e, hnBad.mergeAll FloatOps.exact (some 2) none = .error e :=
  C10_all_axes_refused FloatOps.exact hnBad 2 none rfl rfl (by decide +kernel) (by decide +kernel) 0 _ rfl not_runsMeetA

/-- `C10_all_axes_refused_at`: the error is the one of axis 0 -/
example : hnBad.mergeAll FloatOps.exact (some 2) none = .error "merging non-consecutive bins" :=
  C10_all_axes_refused_at FloatOps.exact hnBad hnBad (some 2) none 0 _ (by decide) rfl (by decide +kernel)

example : (hnBad.mergeAll FloatOps.exact (some 2) none).toOption = none ∧
    (hnBad.mergeAxis FloatOps.exact 1 (some 2) none).toOption.isSome = true := by decide +kernel

/-- `merge_bins(min_frequency=20)` on both axes of `hn` (row sums 6, 15, 24, 33, 42: groups
    `{0, 1}, {2}, {3}, {4}`; column sums 35, 40, 45: nothing to merge): `C10_all_axes` applies … -/
example : ∀ r, hn.mergeAll FloatOps.exact none (some 20) = .ok r → r.freq.total = 120 ∧ r.missed = some 3 := by
  intro r hr
  obtain ⟨_, _, ht, _, hm, _⟩ := C10_all_axes FloatOps.exact hn r none (some 20) rfl rfl (by decide +kernel)
    (by decide +kernel) hr
  exact ⟨ht.trans (by decide +kernel), hm⟩

/-- … to this result; with `min_frequency=30` row 2 would join rows 0 and 1 across the gap: refused -/
example : ((hn.mergeAll FloatOps.exact none (some 20)).toOption.map fun r =>
      (r.axes.map (·.bins FloatOps.exact), r.freq.shape, r.freq.data))
    = some ([[(0, 3), (7 / 2, 4), (4, 6), (6, 7)], [(0, 1), (1, 2), (2, 4)]], [4, 3],
        [5, 7, 9, 7, 8, 9, 10, 11, 12, 13, 14, 15]) ∧
    (hn.mergeAll FloatOps.exact none (some 30)).toOption = none := by decide +kernel

/-- merging along two axes in either order (`C10_axes_commute`) -/
example : (hn.freq.mergeAxis 0 [0, 0, 1, 1, 2] 3).mergeAxis 1 [0, 0, 1] 2
    = (hn.freq.mergeAxis 1 [0, 0, 1] 2).mergeAxis 0 [0, 0, 1, 1, 2] 3 :=
  C10_axes_commute hn.freq 0 1 _ _ 3 2 (by decide)

example : ((hn.freq.mergeAxis 1 [0, 0, 1] 2).mergeAxis 0 [0, 0, 1, 1, 2] 3).data = [12, 9, 36, 21, 27, 15] := by
  decide +kernel

/-- `C10_axes_commute_hist` on `hn`: axis 0 then 1, and 1 then 0 -/
example : ((hn.mergeAxis FloatOps.exact 0 (some 2) none).bind fun g => g.mergeAxis FloatOps.exact 1 (some 2) none)
    = ((hn.mergeAxis FloatOps.exact 1 (some 2) none).bind fun g => g.mergeAxis FloatOps.exact 0 (some 2) none) ∧
    ((hn.mergeAxis FloatOps.exact 0 (some 2) none).bind fun g => g.mergeAxis FloatOps.exact 1 (some 2) none).toOption.isSome
      = true := by
  decide +kernel

end C10RunsExamples

end Physt

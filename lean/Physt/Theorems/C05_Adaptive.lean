import Physt.Proofs.AdaptiveAdd
/-!
# C05 (continued) — adding adaptive fixed-width histograms: union of the ranges, nothing lost

Helper lemmas: `Proofs/AdaptiveAdd.lean`, on top of the invariant `GridTracks` of
`Proofs/AdaptiveHistory.lean` (an adaptive, aligned, right-open grid histogram holding exactly the
batch histogram of its data).  `InnerOK b` — the right operand recorded no value in a gap — is what
`__iadd__` itself demands before it adapts ("other has missed values").
-/
namespace Physt
open Grid H1

/-- **h(A) + h(B) = h(A and B together) for adaptive operands**: the sum is accepted, lives on the
    same grid (`w`, `shift`), spans exactly the union of both ranges, and holds the histogram of
    `A ++ B`. -/
theorem C05_adaptive (fo : FloatOps) (a b : H1) (ga gb : Grid) (A B : List Pt)
    (ta : GridTracks fo a ga A) (tb : GridTracks fo b gb B) (hw : ga.w = gb.w) (hs : ga.shift = gb.shift)
    (hm : EdgeMono fo ga.w ga.shift) (hin : InnerOK b) :
    ∃ (r : H1) (g' : Grid), a.iadd fo b = .ok r ∧ GridTracks fo r g' (A ++ B) ∧
      g'.w = ga.w ∧ g'.shift = ga.shift ∧
      (0 < ga.count → 0 < gb.count →
        g'.tmin = min ga.tmin gb.tmin ∧ g'.tmin + g'.count = max (ga.tmin + ga.count) (gb.tmin + gb.count)) ∧
      (gb.count = 0 → g'.tmin = ga.tmin ∧ g'.count = ga.count) ∧
      (ga.count = 0 → 0 < gb.count → g'.tmin = gb.tmin ∧ g'.count = gb.count) :=
  gridTracks_iadd fo a b ga gb A B ta tb hw hs hm hin

/-- **Nothing is lost**: total = sum of the totals = weight of all the data; underflow and overflow
    stay zero; contents and squared errors are those of the combined data over the final bins; every
    value is found in the bin of its cell on the common grid. -/
theorem C05_adaptive_nothing_lost (fo : FloatOps) (a b : H1) (ga gb : Grid) (A B : List Pt)
    (ta : GridTracks fo a ga A) (tb : GridTracks fo b gb B) (hw : ga.w = gb.w) (hs : ga.shift = gb.shift)
    (hm : EdgeMono fo ga.w ga.shift) (hin : InnerOK b) :
    ∃ (r : H1) (g' : Grid), a.iadd fo b = .ok r ∧ r.binning = .fixed g' ∧
      r.total = a.total + b.total ∧ r.total = wsum (A ++ B) ∧
      r.under = some 0 ∧ r.over = some 0 ∧ r.underflow = some 0 ∧ r.overflow = some 0 ∧
      r.freq = (calc1d (r.bins fo) (A ++ B)).freq ∧ r.err2 = (calc1d (r.bins fo) (A ++ B)).err2 ∧
      r.under = (calc1d (r.bins fo) (A ++ B)).under ∧ r.over = (calc1d (r.bins fo) (A ++ B)).over ∧
      (∀ p ∈ A ++ B, ∃ k : Int, CellOf (fo.edge ga.w ga.shift) p.1 k ∧ g'.tmin ≤ k ∧ k < g'.tmin + g'.count ∧
        r.findBin fo p.1 = .bin (k - g'.tmin).toNat ∧
        (r.bins fo)[(k - g'.tmin).toNat]? = some (fo.edge ga.w ga.shift k, fo.edge ga.w ga.shift (k + 1))) :=
  gridTracks_iadd_nothing_lost fo a b ga gb A B ta tb hw hs hm hin

/-- **Commutative** in everything the property pins: bins, contents, squared errors, underflow,
    overflow, total, statistics, dtype. -/
theorem C05_adaptive_comm (fo : FloatOps) (a b : H1) (ga gb : Grid) (A B : List Pt)
    (ta : GridTracks fo a ga A) (tb : GridTracks fo b gb B) (hw : ga.w = gb.w) (hs : ga.shift = gb.shift)
    (hm : EdgeMono fo ga.w ga.shift) (hina : InnerOK a) (hinb : InnerOK b) :
    ∃ r1 r2 : H1, a.iadd fo b = .ok r1 ∧ b.iadd fo a = .ok r2 ∧
      r1.bins fo = r2.bins fo ∧ r1.freq = r2.freq ∧ r1.err2 = r2.err2 ∧
      r1.under = r2.under ∧ r1.over = r2.over ∧ r1.total = r2.total ∧
      r1.stats = r2.stats ∧ r1.dtype = r2.dtype ∧ r1.keep = r2.keep ∧
      (a.inner = some 0 → b.inner = some 0 → r1.inner = r2.inner) :=
  gridTracks_iadd_comm fo a b ga gb A B ta tb hw hs hm hina hinb

/-- **Associative** likewise. -/
theorem C05_adaptive_assoc (fo : FloatOps) (a b c : H1) (ga gb gc : Grid) (A B C : List Pt)
    (ta : GridTracks fo a ga A) (tb : GridTracks fo b gb B) (tc : GridTracks fo c gc C)
    (hw : ga.w = gb.w) (hs : ga.shift = gb.shift) (hw2 : gb.w = gc.w) (hs2 : gb.shift = gc.shift)
    (hm : EdgeMono fo ga.w ga.shift) (hinb : InnerOK b) (hinc : InnerOK c) :
    ∃ ab abc bc abc' : H1, a.iadd fo b = .ok ab ∧ ab.iadd fo c = .ok abc ∧
      b.iadd fo c = .ok bc ∧ a.iadd fo bc = .ok abc' ∧
      abc.bins fo = abc'.bins fo ∧ abc.freq = abc'.freq ∧ abc.err2 = abc'.err2 ∧
      abc.under = abc'.under ∧ abc.over = abc'.over ∧ abc.total = abc'.total ∧ abc.dtype = abc'.dtype :=
  gridTracks_iadd_assoc fo a b c ga gb gc A B C ta tb tc hw hs hw2 hs2 hm hinb hinc

/-- **sum() over any list of adaptive chunk histograms** (a partition of the data, dask chunks):
    accepted, and the result holds the histogram of all the data on the hull of all the ranges. -/
theorem C05_adaptive_sum (fo : FloatOps) (w s : Rat) (hm : EdgeMono fo w s)
    (rest : List (H1 × Grid × List Pt))
    (hrest : ∀ p ∈ rest, GridTracks fo p.1 p.2.1 p.2.2 ∧ p.2.1.w = w ∧ p.2.1.shift = s ∧ InnerOK p.1)
    (first : H1) (gf : Grid) (F : List Pt) (tf : GridTracks fo first gf F) (hw : gf.w = w) (hs : gf.shift = s) :
    ∃ (r : H1) (g' : Grid), rest.foldlM (fun acc p => acc.iadd fo p.1) first = .ok r ∧
      GridTracks fo r g' (F ++ (rest.map (·.2.2)).flatten) ∧ g'.w = w ∧ g'.shift = s ∧
      SpanList (gf :: rest.map (·.2.1)) g' :=
  gridTracks_sum fo w s hm rest hrest first gf F tf hw hs

end Physt

import Physt.Theorems.C05
import Physt.Theorems.C02
/-!
# C17 — every supported input container gives the same histogram as its array

What physt does with a container is (1) turn it into a flat list of values (rows) and a NaN mask,
(2) filter values and weights by that one mask, (3) run the array pipeline of C01 / C02.  The
third-party conversions of step (1) (pandas, polars, dask, xarray) are exercised by the
correspondence check, not modelled; the theorems are about steps (2) and (3), i.e. about
everything that is physt's own logic.
-/
namespace Physt
open H1

/-- **Same mask for values and weights** (1-D): the pairs entering the histogram are exactly the
    zipped (value, weight) pairs whose value is not NaN — an entry is never paired with the weight
    of another entry. -/
theorem C17_align (vs : List (Option Rat)) (ws : List Rat) (h : ws.length = vs.length) :
    maskPts vs (some ws) = (vs.zip ws).filterMap fun vw => vw.1.map fun v => (v, vw.2) :=
  C01_nan_weighted vs ws h

/-- the same for rows of an (n, d) input: a row is dropped iff it contains a NaN, with its weight -/
theorem C17_align_rows (rows : List (List (Option Rat))) (ws : List Rat) (h : ws.length = rows.length) :
    maskRows rows (some ws)
      = ((rows.zip ws).filter fun p => p.1.all Option.isSome).map fun p => (p.1.filterMap id, p.2) :=
  C02_nan_rows_weighted rows ws h

/-- **The container matters only through its (value, weight) pairs**: two inputs with the same
    masked pairs — in any order, any shape — give the same contents, errors, underflow and overflow. -/
theorem C17_same (bins : Bins) (hb : Rising bins) (vs vs' : List (Option Rat)) (ws ws' : Option (List Rat))
    (hp : (maskPts vs ws).Perm (maskPts vs' ws')) :
    calc1d bins (maskPts vs ws) = calc1d bins (maskPts vs' ws') :=
  C01_flatten bins _ _ hb hp

/-- **Chunked input** (dask arrays, any chunking): the sum of the chunk histograms is the
    histogram of the whole array. -/
theorem C17_chunks (fo : FloatOps) (bins : Bins) (ire : Bool) (hb : Rising bins) (hne : bins ≠ [])
    (first : H1) (F : List Pt) (tf : Tracks bins ire first F)
    (rest : List (H1 × List Pt)) (hrest : ∀ p ∈ rest, Tracks bins ire p.1 p.2)
    (r : H1) (hr : rest.foldlM (fun acc p => acc.iadd fo p.1) first = .ok r) :
    Tracks bins ire r (F ++ (rest.map (·.2)).flatten) :=
  C05_chunks fo bins ire hb hne first F tf rest hrest r hr

/-- the record a 1-D histogram is exported to (xarray Dataset: variables `frequencies`, `errors2`,
    `bins`; attributes `underflow`, `overflow`, `inner_missed`, `keep_missed`) -/
structure ExportRecord where
  bins : Bins
  freq : List Rat
  err2 : List Rat
  under : NRat
  over : NRat
  inner : NRat
  keep : Bool
  deriving DecidableEq

/-- `to_xarray`: the *properties* are exported (NaN when tracking is off) -/
def exportRecord (fo : FloatOps) (h : H1) : ExportRecord :=
  { bins := h.bins fo, freq := h.freq, err2 := h.err2, under := h.underflow, over := h.overflow,
    inner := h.innerMissed, keep := h.keep }

/-- `from_xarray`: the constructor is called with the bins as a static binning -/
def importRecord (r : ExportRecord) (dtype : DType) : H1 :=
  { binning := .static r.bins true, freq := r.freq, err2 := r.err2,
    under := if r.keep then r.under else some 0, over := if r.keep then r.over else some 0,
    inner := if r.keep then r.inner else some 0, keep := r.keep, dtype := dtype, stats := Stats.invalid }

/-- **Export then import preserves bins, contents, errors and underflow / overflow.** -/
theorem C17_export (fo : FloatOps) (h : H1) :
    exportRecord fo (importRecord (exportRecord fo h) h.dtype) = exportRecord fo h := by
  unfold exportRecord importRecord H1.underflow H1.overflow H1.innerMissed
  cases hk : h.keep <;> simp [hk, H1.bins, Binning.bins]

example : (exportRecord FloatOps.exact { binning := .static [(0, 1)] true, freq := [3], err2 := [3], under := some 2 }).under = some 2 := rfl

end Physt

import Physt.Proofs.HistoryND
/-!
# C18 in N dimensions — every history keeps a histogram well-formed; refused calls change nothing

`Proofs/HistoryND.lean` defines `WFN` (contents and squared errors have the shape of the bins of
all axes, the flat data have the matching length, nothing is negative, one name per axis), the
operation language `OpN'` of the 17 public N-d operations (fill, fill_n, `+=`, `-=`, `*=`, `/=`,
normalize, projection, integer and slice selection, T, accumulate, merge_bins on one axis and on
all axes, partial_normalize, set_dtype, copy; axes by index or by name), `stepN'`, the state
`keptN` a refused call leaves behind (as the driver and physt do: at most a promoted dtype) and
`runN` (refused calls are caught, the object is used further).  Adaptive growth is included; no
hypothesis on the axis kinds is needed.  `T` is defined for two axes, as in physt.
-/
namespace Physt

/-- **Well-formed after any N-d history** (non-negative weights, well-formed operands, free arithmetics off). -/
theorem C18_nd_history (fo : FloatOps) (fuel : Nat) (h : HN) (ops : List OpN') (w : WFN fo h)
    (ok : ∀ op ∈ ops, OpOKN fo op) : WFN fo (runN fo fuel h ops) :=
  wfn_history fo fuel h ops w ok

/-- in plain words: nothing negative, shapes of contents / errors / bins always match, one name per axis -/
theorem C18_nd_no_negative_content (fo : FloatOps) (fuel : Nat) (h : HN) (ops : List OpN') (w : WFN fo h)
    (ok : ∀ op ∈ ops, OpOKN fo op) :
    (∀ x ∈ (runN fo fuel h ops).freq.data, 0 ≤ x) ∧ (∀ x ∈ (runN fo fuel h ops).err2.data, 0 ≤ x) ∧
    (runN fo fuel h ops).freq.shape = (runN fo fuel h ops).axes.map (fun b => (b.bins fo).length) ∧
    (runN fo fuel h ops).err2.shape = (runN fo fuel h ops).axes.map (fun b => (b.bins fo).length) ∧
    (runN fo fuel h ops).freq.data.length = prodL ((runN fo fuel h ops).axes.map fun b => (b.bins fo).length) ∧
    (runN fo fuel h ops).err2.data.length = prodL ((runN fo fuel h ops).axes.map fun b => (b.bins fo).length) ∧
    (runN fo fuel h ops).names.length = (runN fo fuel h ops).axes.length :=
  no_negative_content_nd fo fuel h ops w ok

/-- **A refused N-d call changes nothing**: bins of every axis, contents, squared errors, missed,
    `keep_missed`, names are what they were; the dtype is unchanged or a lossless promotion.  For
    every operation — the N-d `fill_n` validates before it grows adaptive axes, and the all-axes
    `merge_bins` is all-or-nothing. -/
theorem C18_nd_refused (fo : FloatOps) (fuel : Nat) (h : HN) (op : OpN') (e : String)
    (hs : stepN' fo fuel h op = .error e) :
    SameRecordN (nextN fo fuel h op) h ∧ DTypeKeptN (nextN fo fuel h op) h :=
  refused_changes_nothing_nd fo fuel h op e hs

/-- one accepted step keeps well-formedness -/
theorem C18_nd_step (fo : FloatOps) (fuel : Nat) (h h' : HN) (op : OpN') (w : WFN fo h) (ok : OpOKN fo op)
    (hs : stepN' fo fuel h op = .ok h') : WFN fo h' :=
  wfn_step fo fuel h h' op w ok hs

/-! Non-vacuity: the kernel-checked histories of `Proofs/HistoryND.lean` (`DemoND`) -/
example : WFN FloatOps.exact (HN.empty FloatOps.exact [.static [(0, 1), (1, 2)] true, .static [(0, 2), (2, 4), (5, 6)] false] true none none) :=
  wfn_empty _ _ _ _

end Physt

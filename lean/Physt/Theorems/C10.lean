import Physt.Theorems.C01
namespace Physt
theorem C10_placeholder : True := trivial
end Physt

import Physt.Proofs.Lists
import Mathlib.Tactic.Ring
/-!
# C10 — merge_bins conserves content and bin boundaries
-/
namespace Physt
open H1

theorem sum_zipAdd (a b : List Rat) (h : a.length = b.length) : (zipAdd a b).sum = a.sum + b.sum := by
  induction a generalizing b with
  | nil => cases b <;> simp_all [zipAdd]
  | cons x xs ih =>
    cases b with
    | nil => simp at h
    | cons y ys =>
      have := ih ys (by simpa using h)
      simp only [zipAdd, List.zipWith_cons_cons, List.sum_cons] at this ⊢
      rw [this]; ring

theorem sum_indicator (n i : Nat) (w : Rat) (hi : i < n) : (indicator n i w).sum = w := by
  induction n generalizing i with
  | zero => omega
  | succ n ih =>
    unfold indicator
    rw [List.range_succ, List.map_append, List.sum_append]
    by_cases h : i = n
    · subst h
      have : ((List.range i).map fun j => if j = i then w else 0) = (List.range i).map fun _ => (0 : Rat) := by
        apply List.map_congr_left
        intro j hj
        have : j ≠ i := by have := List.mem_range.mp hj; omega
        simp [this]
      rw [this]
      simp
    · have := ih i (by omega)
      unfold indicator at this
      rw [this]
      have hn : ¬ n = i := fun e => h e.symm
      simp [hn]

/-- the per-run sums of `vals` grouped by `map`, as a function of the zipped list -/
def groupSums (zs : List (Rat × Nat)) (n : Nat) : List Rat :=
  (List.range n).map fun j => ((zs.filter (·.2 == j)).map (·.1)).sum

theorem groupSums_cons (z : Rat × Nat) (zs : List (Rat × Nat)) (n : Nat) :
    groupSums (z :: zs) n = zipAdd (indicator n z.2 z.1) (groupSums zs n) := by
  apply List.ext_getElem?
  intro j
  simp only [groupSums, zipAdd_getElem?, indicator, List.getElem?_map]
  by_cases hj : j < n
  · simp only [List.getElem?_range hj, Option.map_some, Option.bind_some, List.filter_cons]
    by_cases hz : z.2 = j
    · subst hz; simp
    · have h2 : ¬ j = z.2 := fun e => hz e.symm
      have h3 : (z.2 == j) = false := by simpa using hz
      simp [h2, h3]
  · simp [List.getElem?_eq_none (show (List.range n).length ≤ j by simp; omega)]

theorem groupSums_sum (zs : List (Rat × Nat)) (n : Nat) (h : ∀ z ∈ zs, z.2 < n) :
    (groupSums zs n).sum = (zs.map (·.1)).sum := by
  induction zs with
  | nil => simp [groupSums]
  | cons z zs ih =>
    rw [groupSums_cons, sum_zipAdd _ _ (by simp [indicator, groupSums]),
      sum_indicator n z.2 z.1 (h z (List.mem_cons_self ..)), ih (fun q hq => h q (List.mem_cons_of_mem _ hq))]
    simp

/-- **Conservation.** Whatever the bin map (runs of `amount` bins, or the `min_frequency`
    grouping), as long as it sends every old bin to one of the new bins, the merged contents (and
    squared errors) have the same total: nothing is lost and nothing is counted twice. -/
theorem C10_conserve (vals : List Rat) (map : List Nat) (newN : Nat) (hl : map.length = vals.length)
    (hm : ∀ j ∈ map, j < newN) : (mergeVals vals map newN).sum = vals.sum := by
  have : mergeVals vals map newN = groupSums (vals.zip map) newN := rfl
  rw [this, groupSums_sum]
  · rw [List.map_fst_zip (by omega)]
  · intro z hz
    exact hm z.2 (List.of_mem_zip hz).2

/-- the map of `merge_bins(amount)`: old bin `k` goes to new bin `k / amount`, i.e. new bin `j`
    collects exactly the run `j*amount ≤ k < (j+1)*amount` (the last run may be shorter) -/
theorem C10_runs (n amount k j : Nat) (ha : 0 < amount) :
    (amountMap n amount)[k]? = some j ↔ k < n ∧ j * amount ≤ k ∧ k < (j + 1) * amount := by
  unfold amountMap
  simp only [List.getElem?_map]
  by_cases hk : k < n
  · simp only [List.getElem?_range hk, Option.map_some, Option.some.injEq, hk, true_and]
    rw [Nat.div_eq_iff ha]
    have e : (j + 1) * amount = j * amount + amount := by ring
    constructor <;> intro h <;> constructor <;> omega
  · simp [List.getElem?_eq_none (show (List.range n).length ≤ k by simp; omega), hk]

/-- the merged content of new bin `j` is the sum of the contents of its run -/
theorem C10_run_content (vals : List Rat) (map : List Nat) (newN j : Nat) (hj : j < newN) :
    (mergeVals vals map newN)[j]? = some (((vals.zip map).filter (·.2 == j)).map (·.1)).sum := by
  simp [mergeVals, List.getElem?_map, List.getElem?_range hj]

/-- missed counts, the other fields and (for a copying merge) the original are untouched -/
theorem C10_untouched (fo : FloatOps) (h r : H1) (map : List Nat) (hr : h.mergeWithMap fo map = .ok r) :
    r.under = h.under ∧ r.over = h.over ∧ r.inner = h.inner ∧ r.dtype = h.dtype ∧ r.keep = h.keep := by
  unfold mergeWithMap at hr
  by_cases hem : map.isEmpty = true
  · simp [hem, bind, Except.bind, throw, throwThe, MonadExceptOf.throw] at hr
  simp only [hem, Bool.false_eq_true, if_false, bind, Except.bind, pure, Except.pure] at hr
  cases hb : mergeBinsAux ((h.bins fo).zip map) none with
  | error e => simp [hb] at hr
  | ok nb => simp only [hb] at hr; cases hr; exact ⟨rfl, rfl, rfl, rfl, rfl⟩

/-- a bin map that climbs in steps of 0 or 1 from `start` (or `start + 1`): consecutive old bins
    go to the same or to the next new bin, so every new bin is a union of adjacent old bins -/
def StepChain : Nat → List Nat → Prop
  | _, [] => True
  | s, x :: xs => (x = s ∨ x = s + 1) ∧ StepChain x xs

theorem minFreqMapAux_chain (thr : Rat) (fs : List Rat) (cur : Nat) (sum : Rat) :
    StepChain cur (minFreqMapAux thr fs cur sum) ∧
    (sum = 0 → ∀ x, (minFreqMapAux thr fs cur sum).head? = some x → x = cur) := by
  induction fs generalizing cur sum with
  | nil => simp [minFreqMapAux, StepChain]
  | cons f fs ih =>
    simp only [minFreqMapAux]
    by_cases h1 : thr ≤ f ∧ 0 < sum
    · simp only [h1, and_self, if_true]
      constructor
      · refine ⟨Or.inr rfl, ?_⟩
        split
        · have := (ih (cur + 1 + 1) 0).1
          -- the next entry is `cur+1+1` or stays: it is a chain from `cur+1` because a fresh group
          -- (sum = 0) starts exactly at its own index
          cases hm : minFreqMapAux thr fs (cur + 1 + 1) 0 with
          | nil => trivial
          | cons y ys =>
            have hy := (ih (cur + 1 + 1) 0).2 rfl y (by simp [hm])
            rw [hm] at this
            exact ⟨Or.inr hy, this.2⟩
        · exact (ih (cur + 1) _).1
      · intro hs; exfalso; rw [hs] at h1; exact lt_irrefl _ h1.2
    · simp only [h1, if_false]
      constructor
      · refine ⟨Or.inl rfl, ?_⟩
        split
        · cases hm : minFreqMapAux thr fs (cur + 1) 0 with
          | nil => trivial
          | cons y ys =>
            have hy := (ih (cur + 1) 0).2 rfl y (by simp [hm])
            have := (ih (cur + 1) 0).1
            rw [hm] at this
            exact ⟨Or.inr hy, this.2⟩
        · exact (ih cur _).1
      · intro _ x hx; simpa using hx.symm

/-- **min_frequency.** The grouping starts at new bin 0 and climbs in steps of 0 or 1: every new
    bin is a union of adjacent old bins, in order, and no old bin is left out. -/
theorem C10_minfreq (thr : Rat) (freq : List Rat) :
    StepChain 0 (minFreqMap thr freq) ∧ (minFreqMap thr freq).length = freq.length ∧
    ∀ x, (minFreqMap thr freq).head? = some x → x = 0 := by
  refine ⟨(minFreqMapAux_chain thr freq 0 0).1, ?_, (minFreqMapAux_chain thr freq 0 0).2 rfl⟩
  unfold minFreqMap
  generalize (0 : Nat) = c
  generalize (0 : Rat) = s
  induction freq generalizing c s with
  | nil => rfl
  | cons f fs ih => simp only [minFreqMapAux, List.length_cons]; split <;> split <;> simp [ih]

/-- **Merging across a gap is refused**: two adjacent bins of one run whose edges do not meet. -/
theorem C10_refuse_gap (b c : Bin) (rest : List (Bin × Nat)) (j : Nat) (hgap : b.2 ≠ c.1) :
    ∃ e, mergeBinsAux ((c, j) :: rest) (some (b, j)) = .error e := by
  simp [mergeBinsAux, hgap, throw, throwThe, MonadExceptOf.throw]

/-- a non-positive (here: zero) amount is refused -/
theorem C10_refuse_amount (fo : FloatOps) (h : H1) : ∃ e, h.mergeAmount fo 0 = .error e := by
  simp [mergeAmount, throw, throwThe, MonadExceptOf.throw, bind, Except.bind]

/-! Non-vacuity -/
example : amountMap 5 2 = [0, 0, 1, 1, 2] ∧ mergeVals [1, 2, 3, 4, 5] (amountMap 5 2) 3 = [3, 7, 5] := by
  decide +kernel
example : minFreqMap 4 [2, 1, 5, 1, 6, 0, 0] = [0, 0, 1, 2, 3, 4, 4] := by decide +kernel
example : (mergeBinsAux ([(0, 1), (1, 2), (3, 4)].zip [0, 0, 1]) none).toOption = some [(0, 2), (3, 4)] := by
  decide +kernel

end Physt

import Physt.Model.Json
/-!
# C08 — JSON round trip reproduces the histogram exactly
-/
namespace Physt
open H1

/-- **Round trip.** Reading back what was written reproduces bins (type and parameters), contents,
    squared errors, dtype, the three missed slots (NaN markers included), `keep_missed` and
    adaptivity. -/
theorem C08_roundtrip (fo : FloatOps) (h : H1) : fromDict (toDict fo h) = canon fo h := by
  unfold fromDict toDict canon
  cases hk : h.keep <;> simp [hk]

/-- the pinned observables are literally preserved -/
theorem C08_fields (fo : FloatOps) (h : H1) :
    (fromDict (toDict fo h)).freq = h.freq ∧ (fromDict (toDict fo h)).err2 = h.err2 ∧
    (fromDict (toDict fo h)).dtype = h.dtype ∧ (fromDict (toDict fo h)).keep = h.keep ∧
    (fromDict (toDict fo h)).underflow = h.underflow ∧ (fromDict (toDict fo h)).overflow = h.overflow ∧
    (fromDict (toDict fo h)).innerMissed = h.innerMissed ∧
    (fromDict (toDict fo h)).binning.isAdaptive = h.binning.isAdaptive := by
  refine ⟨rfl, rfl, rfl, rfl, ?_, ?_, ?_, ?_⟩
  · unfold underflow fromDict toDict; cases hk : h.keep <;> simp [hk]
  · unfold overflow fromDict toDict; cases hk : h.keep <;> simp [hk]
  · unfold innerMissed fromDict toDict; cases hk : h.keep <;> simp [hk]
  · unfold fromDict toDict; cases h.binning <;> rfl

theorem binning_dict_roundtrip (fo : FloatOps) (b : Binning) : (b.toDict fo).toBinning.toDict fo = b.toDict fo := by
  cases b <;> rfl

/-- the bins (bit-identical edges) survive; for a fixed-width binning the grid parameters do -/
theorem C08_bins (fo : FloatOps) (h : H1) : (fromDict (toDict fo h)).bins fo = h.bins fo := by
  unfold fromDict toDict H1.bins
  cases h.binning with
  | static b i => rfl
  | fixed g => simp [Binning.toDict, BinningDict.toBinning, Binning.bins, Grid.bins, Grid.edgeAt]

/-- **Stability.** Serialising the parsed object again gives the same document. -/
theorem C08_stable (fo : FloatOps) (h : H1) (hk : h.keep = true) : toDict fo (fromDict (toDict fo h)) = toDict fo h := by
  unfold toDict fromDict
  simp [hk, binning_dict_roundtrip]

theorem C08_stable_off (fo : FloatOps) (h : H1) (hk : h.keep = false) :
    toDict fo (fromDict (toDict fo (fromDict (toDict fo h)))) = toDict fo (fromDict (toDict fo h)) := by
  unfold toDict fromDict
  simp [hk, binning_dict_roundtrip]

theorem cmpRelease_refl (a : List Nat) : cmpRelease a a = .eq := by
  induction a with
  | nil => rfl
  | cons x xs ih => simp [cmpRelease, ih]

theorem cmpPre_refl (a : Option (Nat × Nat)) : cmpPre a a = .eq := by
  cases a with
  | none => rfl
  | some p => obtain ⟨k, n⟩ := p; simp [cmpPre]

/-- **Version gate.** A document is refused iff the running version is older than the one it
    requires; a document requiring exactly the running version (or an older one, e.g. a smaller
    patch number) is accepted; a newer patch, minor or major number is refused; a pre-release of a
    version is older than the version itself. -/
theorem C08_version (cur : Version) :
    versionRefused cur cur = false ∧
    versionRefused ⟨[0, 8, 4], none⟩ ⟨[0, 8, 5], none⟩ = true ∧
    versionRefused ⟨[0, 8, 4], none⟩ ⟨[0, 8, 14], none⟩ = true ∧
    versionRefused ⟨[0, 8, 4], none⟩ ⟨[0, 9], none⟩ = true ∧
    versionRefused ⟨[0, 8, 4], none⟩ ⟨[1], none⟩ = true ∧
    versionRefused ⟨[0, 8, 4], none⟩ ⟨[0, 8, 4, 0], none⟩ = false ∧
    versionRefused ⟨[0, 8, 4], none⟩ ⟨[0, 8, 3], none⟩ = false ∧
    versionRefused ⟨[0, 8, 4], none⟩ ⟨[0, 3, 20], none⟩ = false ∧
    versionRefused ⟨[0, 8, 4], some (2, 1)⟩ ⟨[0, 8, 4], none⟩ = true ∧
    versionRefused ⟨[0, 8, 4], none⟩ ⟨[0, 8, 4], some (2, 1)⟩ = false := by
  refine ⟨?_, by decide, by decide, by decide, by decide, by decide, by decide, by decide, by decide, by decide⟩
  simp [versionRefused, Version.cmp, cmpRelease_refl, cmpPre_refl]

theorem cmpRelease_nil_right (l : List Nat) : cmpRelease l [] ≠ .lt := by
  induction l with
  | nil => simp [cmpRelease, allZero]
  | cons z zs ih => simp only [cmpRelease]; split <;> simp_all

theorem cmpRelease_nil_left (l : List Nat) (h : cmpRelease [] l = .lt) : cmpRelease l [] = .gt := by
  induction l with
  | nil => simp [cmpRelease, allZero] at h
  | cons y ys ih =>
    simp only [cmpRelease, allZero] at h ⊢
    by_cases hy : y = 0
    · subst hy
      simp only [beq_self_eq_true, Bool.true_and] at h
      simp only [if_true]
      apply ih
      simp only [cmpRelease]; exact h
    · simp [hy]

/-- the order on release tuples is antisymmetric in the sense the gate needs: if `a` is older than
    `b` then `b` is newer than `a` (so the two directions can never both be refused) -/
theorem cmpRelease_antisymm (a b : List Nat) : cmpRelease a b = .lt → cmpRelease b a = .gt := by
  induction a generalizing b with
  | nil => exact cmpRelease_nil_left b
  | cons x xs ih =>
    cases b with
    | nil => intro h; exact absurd h (cmpRelease_nil_right _)
    | cons y ys =>
      simp only [cmpRelease]
      by_cases h1 : x < y
      · have : ¬ y < x := by omega
        simp [h1, this]
      · by_cases h2 : y < x
        · simp [h1, h2]
        · simp only [h1, h2, if_false]; exact ih ys

/-! Non-vacuity: a histogram with NaN markers and tracking on -/
example : fromDict (toDict FloatOps.exact
    { binning := .static [(0, 1), (2, 3)] true, freq := [1, 2], err2 := [1, 4], under := none, over := none, keep := true })
    = { binning := .static [(0, 1), (2, 3)] true, freq := [1, 2], err2 := [1, 4], under := none, over := none, keep := true,
        stats := Stats.invalid } := by decide +kernel

end Physt

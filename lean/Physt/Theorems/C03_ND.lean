import Physt.Proofs.PathsND
import Physt.Proofs.MaskedEdges
/-!
# C03 / C05 in N dimensions — every entry path gives the histogram of all the rows

Helper lemmas: `Proofs/PathsND.lean` (additivity of `calcND`, the `TracksN` invariant) and
`Proofs/MaskedEdges.lean` (construction and `find_bin` search the same way).
-/
namespace Physt

/-- the bridge `PathsND` is parametrised by, discharged -/
theorem cellBridge : CellBridge := fun bins ire x hb => axisCell_eq_findBinAxis bins hb ire x

/-- **One `fill` = the one-row batch** (non-adaptive rising axes, tracking on): contents, squared
    errors and missed grow by the histogram of the single row; the index returned is the one
    `find_bin` returns, and `find_bin` does not look at the contents. -/
theorem C03_nd_fill (fo : FloatOps) (fuel : Nat) (h : HN) (hs : NonAdaptive h.axes)
    (hr : ∀ b ∈ h.axes, Rising (b.bins fo)) (hk : h.keep = true)
    (hf : h.freq.HasShape (h.shape fo)) (he : h.err2.HasShape (h.shape fo))
    (v : List Rat) (hl : v.length = h.axes.length) (w : Rat) (wk : H1.NumKind) :
    (h.fill fo fuel (v.map some) w wk).1.freq
      = Arr.zipWith (· + ·) h.freq (calcND (h.axesBins fo) [(v, w)]).freq ∧
    (h.fill fo fuel (v.map some) w wk).1.err2
      = Arr.zipWith (· + ·) h.err2 (calcND (h.axesBins fo) [(v, w)]).err2 ∧
    (h.fill fo fuel (v.map some) w wk).1.missed
      = nadd h.missed (some (calcND (h.axesBins fo) [(v, w)]).missing) ∧
    (h.fill fo fuel (v.map some) w wk).2 = some (h.findBin fo v) :=
  let r := fill_eq_single cellBridge fo fuel h hs hr hk hf he v hl w wk
  ⟨r.1, r.2.1, r.2.2.1, r.2.2.2.1⟩

/-- **Any interleaving of `fill` and `fill_n` calls** (any chunking, empty batches, NaN rows) on a
    histogram that holds the rows `rows0` ends holding `rows0` followed by all rows entered. -/
theorem C03_nd_paths (fo : FloatOps) (fuel : Nat) (axes : List Binning)
    (hr : ∀ b ∈ axes, Rising (b.bins fo)) (ops : List OpN) (hv : ∀ op ∈ ops, op.Valid axes.length)
    (h0 : HN) (rows0 : List Row) (t0 : TracksN fo axes h0 rows0) (r : HN)
    (hrun : ops.foldlM (OpN.apply fo fuel) h0 = .ok r) :
    TracksN fo axes r (rows0 ++ (ops.map OpN.rows).flatten) :=
  pathsND cellBridge fo fuel axes hr ops hv h0 rows0 t0 r hrun

/-- … and every such path is accepted when each batch has matching shapes -/
theorem C03_nd_paths_accepted (fo : FloatOps) (fuel : Nat) (axes : List Binning)
    (hr : ∀ b ∈ axes, Rising (b.bins fo)) (ops : List OpN) (hv : ∀ op ∈ ops, op.Valid axes.length)
    (hacc : ∀ op ∈ ops, op.Accepted axes.length)
    (h0 : HN) (rows0 : List Row) (t0 : TracksN fo axes h0 rows0) :
    ∃ r, ops.foldlM (OpN.apply fo fuel) h0 = .ok r :=
  pathsND_accepted cellBridge fo fuel axes hr ops hv hacc h0 rows0 t0

/-- **Filling from empty = construction**, in any order: contents, squared errors, missed, bins. -/
theorem C03_nd_eq_construct (fo : FloatOps) (fuel : Nat) (axes : List Binning)
    (hs : NonAdaptive axes) (ops : List OpN) (hv : ∀ op ∈ ops, op.Valid axes.length)
    (dt : Option DType) (names : Option (List String)) (r : HN)
    (hrun : ops.foldlM (OpN.apply fo fuel) (HN.empty fo axes true dt names) = .ok r)
    (all : List (List (Option Rat))) (ws : Option (List Rat)) (wkind : DType) (dropna : Bool)
    (names' : Option (List String)) (c : HN)
    (hc : HN.construct fo axes all ws wkind dropna names' = .ok c)
    (hp : (maskRows all ws).Perm (ops.map OpN.rows).flatten) :
    r.freq = c.freq ∧ r.err2 = c.err2 ∧ r.missed = c.missed ∧ r.axes = c.axes ∧ r.keep = c.keep :=
  pathsND_eq_construct cellBridge fo fuel axes hs ops hv dt names r hrun all ws wkind dropna names' c hc hp

/-- the order in which rows were entered does not matter -/
theorem C03_nd_order (fo : FloatOps) (axes : List Binning) (h h' : HN) (rows rows' : List Row)
    (t : TracksN fo axes h rows) (t' : TracksN fo axes h' rows') (hp : rows.Perm rows') :
    h.freq = h'.freq ∧ h.err2 = h'.err2 ∧ h.missed = h'.missed :=
  pathsND_order fo axes h h' rows rows' t t' hp

/-- C02's accounting identity holds along every path: `total + missed` = weight entered -/
theorem C03_nd_account (fo : FloatOps) (axes : List Binning) (h : HN) (rows : List Row)
    (t : TracksN fo axes h rows) : ∃ m, h.missed = some m ∧ h.freq.total + m = (rows.map (·.2)).sum :=
  t.account

/-! Non-vacuity: a 2-D histogram (one gapped right-open axis) filled by a mixed history. -/
example : ∃ r, ExampleND.ops.foldlM (OpN.apply FloatOps.exact 8) (HN.empty FloatOps.exact ExampleND.axes true none none) = .ok r ∧
    TracksN FloatOps.exact ExampleND.axes r (ExampleND.ops.map OpN.rows).flatten := by
  obtain ⟨r, hr⟩ := C03_nd_paths_accepted FloatOps.exact 8 ExampleND.axes (ExampleND.rising _) ExampleND.ops
    ExampleND.valid ExampleND.accepted _ [] (tracksN_empty _ _ ExampleND.static none none)
  have t := C03_nd_paths FloatOps.exact 8 ExampleND.axes (ExampleND.rising _) ExampleND.ops
    ExampleND.valid _ [] (tracksN_empty _ _ ExampleND.static none none) r hr
  rw [List.nil_append] at t
  exact ⟨r, hr, t⟩

end Physt

import Physt.Proofs.AdaptiveHistory
/-!
# C04 (continued) — any sequence of `fill` / `fill_n` calls on an adaptive histogram

`Theorems/C04.lean` proves the single step.  Here the step is lifted to arbitrary histories with
the invariant `GridTracks fo h g pts` (`Proofs/AdaptiveHistory.lean`): `h` is an adaptive,
aligned, right-open grid histogram whose contents are the batch histogram of `pts` over its own
bins, with zero underflow / overflow and every point inside the grid.

`ire = false` (the binning does not include its right edge) is part of `GridState`: physt refuses
to build an adaptive binning that includes its right edge (`BinningBase.__init__`: "Adaptivity
does not work together with right-edge inclusion"), and without that refusal the property would
be false (counter-example at the end of `Proofs/AdaptiveHistory.lean`, kernel-checked).
-/
namespace Physt
open Grid H1

/-- **Contents recorded earlier stay attached to the same interval.**  Growing the grid by `a`
    cells on the left and `b` on the right pads the histogram of the data (all inside the old
    range) with zeros: no content moves to another interval. -/
theorem C04_grow_keeps_intervals {edge : Int → Rat} (hm : ∀ a b : Int, a < b → edge a < edge b) (t : Int)
    (n a b : Nat) (pts : List Pt) (h : Inside edge t n pts) :
    (calc1d (binsFrom edge (t - a) (a + n + b)) pts).freq
      = List.replicate a 0 ++ (calc1d (binsFrom edge t n) pts).freq ++ List.replicate b 0 ∧
    (calc1d (binsFrom edge (t - a) (a + n + b)) pts).err2
      = List.replicate a 0 ++ (calc1d (binsFrom edge t n) pts).err2 ++ List.replicate b 0 :=
  calc1d_grid_grow hm t n a b pts h

/-- **C04 for every history.**  For every `FloatOps` instance with strictly increasing edges, every
    list of `fill` / `fill_n` calls (NaN values, empty batches, weights) on a histogram satisfying the
    invariant (the empty one: `gridTracks_empty`; or pre-filled), every value having its cell within
    reach of the search: every call is accepted; the result **equals the fixed-bin histogram of all
    the data over the final bins** (contents, squared errors, underflow, overflow); total = initial
    total + weight entered; underflow = overflow = 0; every value entered is found in the bin
    `[edge k, edge (k+1))` of its cell on the *original* grid `k·w + s`; and the final range is the
    hull of the initial range and the cells needed (`SpanHull`: nothing more, nothing less). -/
theorem C04_every_history (fo : FloatOps) (fuel : Nat) (w s : Rat) (hm : EdgeMono fo w s) (ops : List FillOp)
    (hok : ∀ op ∈ ops, op.ok = true) (hreach : ∀ p ∈ opsPts ops, Reach fo w s fuel p.1)
    (h : H1) (g : Grid) (pts : List Pt) (hw : g.w = w) (hs : g.shift = s) (tr : GridTracks fo h g pts) :
    ∃ (h' : H1) (g' : Grid), runOps fo fuel h ops = .ok h' ∧ GridTracks fo h' g' (pts ++ opsPts ops) ∧
      SpanHull (fo.edge w s) g g' ((opsPts ops).map (·.1)) ∧
      h'.freq = (calc1d (h'.bins fo) (pts ++ opsPts ops)).freq ∧
      h'.err2 = (calc1d (h'.bins fo) (pts ++ opsPts ops)).err2 ∧
      h'.under = (calc1d (h'.bins fo) (pts ++ opsPts ops)).under ∧
      h'.over = (calc1d (h'.bins fo) (pts ++ opsPts ops)).over ∧
      h'.total = h.total + wsum (opsPts ops) ∧
      h'.underflow = some 0 ∧ h'.overflow = some 0 ∧
      (∀ p ∈ pts ++ opsPts ops, ∃ k : Int, CellOf (fo.edge w s) p.1 k ∧ g'.tmin ≤ k ∧ k < g'.tmin + g'.count ∧
        h'.findBin fo p.1 = .bin (k - g'.tmin).toNat ∧
        (h'.bins fo)[(k - g'.tmin).toNat]? = some (fo.edge w s k, fo.edge w s (k + 1))) :=
  C04_any_history fo fuel w s hm ops hok hreach h g pts hw hs tr

/-- in exact arithmetic the only hypothesis left is a positive width -/
theorem C04_every_history_exact (fuel : Nat) (ops : List FillOp) (hok : ∀ op ∈ ops, op.ok = true)
    (h : H1) (g : Grid) (pts : List Pt) (hw : 0 < g.w) (tr : GridTracks FloatOps.exact h g pts) :
    ∃ (h' : H1) (g' : Grid), runOps FloatOps.exact fuel h ops = .ok h' ∧
      GridTracks FloatOps.exact h' g' (pts ++ opsPts ops) ∧
      SpanHull (FloatOps.exact.edge g.w g.shift) g g' ((opsPts ops).map (·.1)) ∧
      h'.total = h.total + wsum (opsPts ops) ∧ h'.underflow = some 0 ∧ h'.overflow = some 0 :=
  C04_any_history_exact fuel ops hok h g pts hw tr

/-- **Started empty, the bins span exactly from the lowest to the highest cell ever needed.** -/
theorem C04_span_from_empty (fo : FloatOps) (fuel : Nat) (g : Grid) (hm : EdgeMono fo g.w g.shift)
    (hc : g.count = 0) (had : g.adaptive = true) (hal : g.align = true) (hire : g.ire = false)
    (dt : Option DType) (hist : List (Pt × NumKind)) (hne : hist ≠ [])
    (hreach : ∀ e ∈ hist, Reach fo g.w g.shift fuel e.1.1) :
    ∃ g' : Grid, GridTracks fo (fillAll fo fuel (H1.empty fo (.fixed g) true dt) hist) g' (hist.map (·.1)) ∧
      g'.w = g.w ∧ g'.shift = g.shift ∧ 0 < g'.count ∧
      (∃ e ∈ hist, CellOf (fo.edge g.w g.shift) e.1.1 g'.tmin) ∧
      (∃ e ∈ hist, CellOf (fo.edge g.w g.shift) e.1.1 (g'.tmin + g'.count - 1)) ∧
      (∀ e ∈ hist, ∃ k : Int, CellOf (fo.edge g.w g.shift) e.1.1 k ∧ g'.tmin ≤ k ∧ k < g'.tmin + g'.count) ∧
      (fillAll fo fuel (H1.empty fo (.fixed g) true dt) hist).total = wsum (hist.map (·.1)) :=
  C04_history_from_empty fo fuel g hm hc had hal hire dt hist hne hreach

/-- **One `fill_n` batch = the same pairs entered one by one**: same grid, contents, squared
    errors, underflow, overflow (the batch routine looks at the minimum and maximum only). -/
theorem C04_batch_eq_singles (fo : FloatOps) (fuel : Nat) (h : H1) (g : Grid) (pts : List Pt)
    (tr : GridTracks fo h g pts) (hm : EdgeMono fo g.w g.shift) (vs : List (Option Rat))
    (ws : Option (List Rat)) (wkind : DType) (wk : NumKind) (hok : weightsShapeOk vs ws = true)
    (hreach : ∀ v ∈ vs.filterMap id, Reach fo g.w g.shift fuel v) :
    ∃ h' : H1, h.fillN fo fuel vs ws wkind = .ok h' ∧
      h'.binning = (fillAll fo fuel h ((maskPts vs ws).map fun p => (p, wk))).binning ∧
      h'.freq = (fillAll fo fuel h ((maskPts vs ws).map fun p => (p, wk))).freq ∧
      h'.err2 = (fillAll fo fuel h ((maskPts vs ws).map fun p => (p, wk))).err2 ∧
      h'.under = (fillAll fo fuel h ((maskPts vs ws).map fun p => (p, wk))).under ∧
      h'.over = (fillAll fo fuel h ((maskPts vs ws).map fun p => (p, wk))).over ∧
      h'.keep = (fillAll fo fuel h ((maskPts vs ws).map fun p => (p, wk))).keep :=
  fillN_eq_singles fo fuel h g pts tr hm vs ws wkind wk hok hreach

/-- in exact arithmetic with a positive width every value is within reach, whatever the fuel -/
theorem C04_reach_exact (w s : Rat) (hw : 0 < w) (fuel : Nat) (v : Rat) : Reach FloatOps.exact w s fuel v :=
  reach_exact w s hw fuel v

/-! Non-vacuity: width 1/10, the values 17/10, −3/10 and 5 entered into the empty adaptive histogram. -/
example : ∃ (h' : H1) (g' : Grid),
    runOps FloatOps.exact 4 (H1.empty FloatOps.exact (.fixed { w := 1 / 10, adaptive := true }) true none)
      [.one (some (17 / 10)) 1 .pyInt, .one (some (-3 / 10)) 2 .pyInt, .many [some 5, none] none .i64] = .ok h' ∧
    h'.total = (H1.empty FloatOps.exact (.fixed { w := 1 / 10, adaptive := true }) true none).total
      + wsum (opsPts [.one (some (17 / 10)) 1 .pyInt, .one (some (-3 / 10)) 2 .pyInt, .many [some 5, none] none .i64]) ∧
    h'.underflow = some 0 ∧ h'.overflow = some 0 := by
  obtain ⟨h', g', he, _, _, ht, hu, ho⟩ := C04_every_history_exact 4
    [.one (some (17 / 10)) 1 .pyInt, .one (some (-3 / 10)) 2 .pyInt, .many [some 5, none] none .i64]
    (by decide) _ { w := 1 / 10, adaptive := true } [] (by decide +kernel)
    (gridTracks_empty FloatOps.exact { w := 1 / 10, adaptive := true } rfl rfl rfl rfl none)
  exact ⟨h', g', he, ht, hu, ho⟩

end Physt

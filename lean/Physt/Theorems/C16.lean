import Physt.Model.Special
import Mathlib.Analysis.SpecialFunctions.Trigonometric.Basic
/-!
# C16 — densities, bin geometry and cumulative values are consistent

The bin-measure formulas of every histogram class, instantiated with the real numbers.
-/
namespace Physt
open Real

noncomputable instance : Scalar ℝ where
  two := 2
  three := 3
  cos := Real.cos
  pi := Real.pi

open Measure

/-- **density · bin size = frequency** for every bin with non-zero measure -/
theorem C16_density (f size : ℝ) (h : size ≠ 0) : f / size * size = f := div_mul_cancel₀ f h

/-- the formulas are the stated measures (unfolding the polymorphic definitions over ℝ) -/
theorem C16_formulas (r1 r2 t1 t2 p1 p2 z1 z2 : ℝ) :
    polar r1 r2 p1 p2 = (r2 ^ 2 - r1 ^ 2) / 2 * (p2 - p1) ∧
    radial r1 r2 = π * (r2 ^ 2 - r1 ^ 2) ∧
    spherical r1 r2 t1 t2 p1 p2 = (r2 ^ 3 - r1 ^ 3) / 3 * (cos t1 - cos t2) * (p2 - p1) ∧
    sphereSurface t1 t2 p1 p2 = (cos t1 - cos t2) * (p2 - p1) ∧
    cylindrical r1 r2 p1 p2 z1 z2 = (r2 ^ 2 - r1 ^ 2) / 2 * (p2 - p1) * (z2 - z1) ∧
    cylinderSurface p1 p2 z1 z2 = (p2 - p1) * (z2 - z1) := by
  refine ⟨?_, ?_, ?_, ?_, ?_, ?_⟩ <;>
    simp only [polar, radial, spherical, sphereSurface, cylindrical, cylinderSurface, Scalar.cos, Scalar.pi, Scalar.two,
      Scalar.three] <;> ring

/-- **Additivity under merging adjacent bins**, on every axis of every class -/
theorem C16_additive (a b c t1 t2 p1 p2 z1 z2 : ℝ) :
    width a b + width b c = width a c ∧
    polar a b p1 p2 + polar b c p1 p2 = polar a c p1 p2 ∧
    polar t1 t2 a b + polar t1 t2 b c = polar t1 t2 a c ∧
    radial a b + radial b c = radial a c ∧
    spherical a b t1 t2 p1 p2 + spherical b c t1 t2 p1 p2 = spherical a c t1 t2 p1 p2 ∧
    spherical z1 z2 a b p1 p2 + spherical z1 z2 b c p1 p2 = spherical z1 z2 a c p1 p2 ∧
    spherical z1 z2 t1 t2 a b + spherical z1 z2 t1 t2 b c = spherical z1 z2 t1 t2 a c ∧
    sphereSurface a b p1 p2 + sphereSurface b c p1 p2 = sphereSurface a c p1 p2 ∧
    sphereSurface t1 t2 a b + sphereSurface t1 t2 b c = sphereSurface t1 t2 a c ∧
    cylindrical a b p1 p2 z1 z2 + cylindrical b c p1 p2 z1 z2 = cylindrical a c p1 p2 z1 z2 ∧
    cylindrical t1 t2 a b z1 z2 + cylindrical t1 t2 b c z1 z2 = cylindrical t1 t2 a c z1 z2 ∧
    cylindrical t1 t2 p1 p2 a b + cylindrical t1 t2 p1 p2 b c = cylindrical t1 t2 p1 p2 a c ∧
    cylinderSurface a b z1 z2 + cylinderSurface b c z1 z2 = cylinderSurface a c z1 z2 ∧
    cylinderSurface p1 p2 a b + cylinderSurface p1 p2 b c = cylinderSurface p1 p2 a c := by
  simp only [width, polar, radial, spherical, sphereSurface, cylindrical, cylinderSurface, Scalar.cos, Scalar.pi, Scalar.two, Scalar.three]
  refine ⟨by ring, by ring, by ring, by ring, by ring, by ring, by ring, by ring, by ring, by ring, by ring, by ring,
    by ring, by ring⟩

/-- **Totals for full angular ranges**: disc `πR²`, sphere surface `4π`, ball `4/3·πR³`, cylinder
    `πR²·H`, cylinder surface (unit radius) `2π·H` -/
theorem C16_totals (R H : ℝ) :
    polar 0 R 0 (2 * π) = π * R ^ 2 ∧ radial 0 R = π * R ^ 2 ∧
    sphereSurface 0 π 0 (2 * π) = 4 * π ∧
    spherical 0 R 0 π 0 (2 * π) = 4 / 3 * π * R ^ 3 ∧
    cylindrical 0 R 0 (2 * π) 0 H = π * R ^ 2 * H ∧ cylinderSurface 0 (2 * π) 0 H = 2 * π * H := by
  refine ⟨?_, ?_, ?_, ?_, ?_, ?_⟩ <;>
    simp only [polar, radial, spherical, sphereSurface, cylindrical, cylinderSurface, Scalar.cos, Scalar.pi, Scalar.two,
      Scalar.three, Real.cos_zero, Real.cos_pi] <;> ring

/-- edges, centres and widths are mutually consistent -/
theorem C16_edges (l r : ℝ) : l + width l r = r ∧ (l + r) / 2 - l = width l r / 2 ∧ r - (l + r) / 2 = width l r / 2 := by
  simp only [width]; refine ⟨by ring, by ring, by ring⟩

/-- the ND measure is the product of the widths -/
theorem C16_box (l1 r1 l2 r2 l3 r3 : ℝ) :
    box [(l1, r1), (l2, r2)] 1 = (r1 - l1) * (r2 - l2) ∧
    box [(l1, r1), (l2, r2), (l3, r3)] 1 = (r1 - l1) * (r2 - l2) * (r3 - l3) := by
  simp [box]

/-- cumulative frequencies: the running sum, whose last entry is the total -/
def cumsumL : List ℚ → ℚ → List ℚ
  | [], _ => []
  | x :: xs, acc => (acc + x) :: cumsumL xs (acc + x)

theorem C16_cumulative (l : List ℚ) (acc : ℚ) :
    (cumsumL l acc).length = l.length ∧ (l ≠ [] → (cumsumL l acc).getLast? = some (acc + l.sum)) := by
  induction l generalizing acc with
  | nil => simp [cumsumL]
  | cons x xs ih =>
    refine ⟨by simp [cumsumL, (ih (acc + x)).1], fun _ => ?_⟩
    cases xs with
    | nil => simp [cumsumL]
    | cons y ys =>
      have := (ih (acc + x)).2 (by simp)
      simp only [cumsumL, List.getLast?_cons_cons] at this ⊢
      rw [this]; simp [add_assoc]

example : cumsumL [1, 2, 3] 0 = [1, 3, 6] := by decide +kernel

/-- **`cumulative_frequencies` is the running sum, entry by entry** (sixth session; `C16_cumulative` gave
    the length and the last entry): entry `k` is the sum of the contents of bins `0 … k`. -/
theorem C16_cumulative_entries (l : List ℚ) (acc : ℚ) (k : Nat) (hk : k < l.length) :
    (cumsumL l acc)[k]? = some (acc + (l.take (k + 1)).sum) := by
  induction l generalizing acc k with
  | nil => simp at hk
  | cons x xs ih =>
    cases k with
    | zero => simp [cumsumL]
    | succ k =>
      have := ih (acc + x) k (by simpa using hk)
      simp only [cumsumL, List.getElem?_cons_succ, List.take_succ_cons, List.sum_cons]
      rw [this, add_assoc]

/-- consecutive cumulative entries differ by the content of the bin between them, so the contents are
    recovered from the cumulative values and, for non-negative contents, the cumulative values never decrease -/
theorem C16_cumulative_step (l : List ℚ) (acc : ℚ) (k : Nat) (hk : k + 1 < l.length) :
    ∃ a b x, (cumsumL l acc)[k]? = some a ∧ (cumsumL l acc)[k + 1]? = some b ∧ l[k + 1]? = some x ∧ b = a + x := by
  refine ⟨_, _, l[k + 1], C16_cumulative_entries l acc k (by omega), C16_cumulative_entries l acc (k + 1) hk,
    by simp [hk], ?_⟩
  rw [List.take_add_one (i := k + 1), List.sum_append]
  simp [hk, add_assoc]

example : (cumsumL [1, 2, 3, 4] 0)[2]? = some (0 + ([1, 2, 3, 4].take 3).sum) := C16_cumulative_entries _ _ 2 (by simp)

end Physt

import Physt.Theorems.C02
import Physt.Proofs.MaskedEdges
/-!
# C02 (continued) — the masked-edge route finds the bin that contains the coordinate

`calculate_nd_frequencies` never tests interval containment: per axis it builds *all* edges, those
of gaps included (`to_numpy_bins_with_mask`), lets `numpy.histogramdd` search them, and selects the
real bins with the mask.  These theorems close the gap between that route and the property's
wording ("the cell whose bins contain each coordinate").  Helper lemmas: `Proofs/MaskedEdges.lean`.
-/
namespace Physt

/-- **Masked edges + histogramdd search + mask lookup = interval containment.**  For every rising
    binning (gaps allowed, any number of bins) the route finds bin `i` exactly when
    `left_i ≤ x < right_i`, the last bin being right-closed iff the axis includes its right edge. -/
theorem C02_cell_iff (bins : Bins) (hb : Rising bins) (ire : Bool) (x : Rat) (i : Nat) :
    axisCell bins ire x = some i ↔ inBin bins ire i x = true :=
  axisCell_spec bins hb ire x i

/-- `find_bin` along an axis, for either right-edge rule -/
theorem C02_find_bin_iff (bins : Bins) (hb : Rising bins) (ire : Bool) (v : Rat) (i : Nat) :
    HN.findBinAxis bins ire v = some i ↔ inBin bins ire i v = true :=
  findBinAxis_spec bins hb ire v i

/-- construction (`histogramdd` route) and `find_bin` / `fill` (`searchsorted` route) locate every
    coordinate in the same bin -/
theorem C02_same_search (bins : Bins) (hb : Rising bins) (ire : Bool) (x : Rat) :
    axisCell bins ire x = HN.findBinAxis bins ire x :=
  axisCell_eq_findBinAxis bins hb ire x

/-- **The cell of a row**: index `idx` iff, on every axis `a`, bin `idx[a]` of that axis contains
    coordinate `a` of the row. -/
theorem C02_row_cell (axes : List (Bins × Bool)) (hr : ∀ ax ∈ axes, Rising ax.1) (row : List Rat) (idx : List Nat)
    (hl : axes.length = row.length) :
    rowCell axes row = some idx ↔
      idx.length = axes.length ∧ ∀ a (ha : a < axes.length) (hr : a < row.length) (hi : a < idx.length),
        inBin axes[a].1 axes[a].2 idx[a] row[a] = true := by
  rw [C02_axes axes row idx hl]
  constructor
  · rintro ⟨h1, h2⟩
    exact ⟨h1, fun a ha hra hi => (axisCell_spec _ (hr _ (List.getElem_mem ha)) _ _ _).mp (h2 a ha hra hi)⟩
  · rintro ⟨h1, h2⟩
    exact ⟨h1, fun a ha hra hi => (axisCell_spec _ (hr _ (List.getElem_mem ha)) _ _ _).mpr (h2 a ha hra hi)⟩

end Physt

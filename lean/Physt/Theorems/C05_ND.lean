import Physt.Theorems.C03_ND
/-!
# C05 in N dimensions — adding histograms = histogramming the combined rows
Helper lemmas: `Proofs/PathsND.lean` (`calcND_append`, `TracksN`).
-/
namespace Physt

/-- **C05, ND: h(A) + h(B) = h(A and B together)** — the sum is accepted and holds `A ++ B`. -/
theorem C05_nd_combined (fo : FloatOps) (axes : List Binning) (a b : HN) (A B : List Row)
    (ta : TracksN fo axes a A) (tb : TracksN fo axes b B) :
    ∃ r, a.iadd fo b = .ok r ∧ TracksN fo axes r (A ++ B) :=
  tracksN_iadd fo axes a b A B ta tb

/-- **C05, ND: any partition into chunks** sums to the histogram of all the rows. -/
theorem C05_nd_chunks (fo : FloatOps) (axes : List Binning) (first : HN) (F : List Row)
    (tf : TracksN fo axes first F) (rest : List (HN × List Row))
    (hrest : ∀ p ∈ rest, TracksN fo axes p.1 p.2) :
    ∃ r, rest.foldlM (fun acc p => acc.iadd fo p.1) first = .ok r ∧
      TracksN fo axes r (F ++ (rest.map (·.2)).flatten) :=
  tracksN_chunks fo axes first F tf rest hrest

/-! Non-vacuity: two chunk histograms over the example axes add up to the histogram of all rows. -/
example : ∃ r, (HN.empty FloatOps.exact ExampleND.axes true none none).iadd FloatOps.exact
      (HN.empty FloatOps.exact ExampleND.axes true none none) = .ok r ∧
    TracksN FloatOps.exact ExampleND.axes r ([] ++ []) :=
  C05_nd_combined _ _ _ _ [] [] (tracksN_empty _ _ ExampleND.static none none)
    (tracksN_empty _ _ ExampleND.static none none)

end Physt

import Physt.Proofs.NDArray
import Physt.Proofs.FindBin
import Physt.Model.HistND
/-!
# C02 — ND construction: each row counted once, in the cell that contains it

`calcND` is the model of `calculate_nd_frequencies` (masked edges + `histogramdd` + mask
selection per axis).  `numpy.histogramdd` itself is assumed at its documented semantics.
-/
namespace Physt

/-- **Cell content.** For every valid cell index the content is the weight of the rows whose cell
    (the tuple of per-axis bins found for the row's coordinates) is that index, and the squared
    error is the sum of their squared weights. -/
theorem C02_content (axes : List (Bins × Bool)) (rows : List Row) (idx : List Nat)
    (h : validIdx (axes.map (·.1.length)) idx = true) :
    (calcND axes rows).freq.get idx
      = ((rows.filter fun r => rowCell axes r.1 == some idx).map (·.2)).sum ∧
    (calcND axes rows).err2.get idx
      = ((rows.filter fun r => rowCell axes r.1 == some idx).map fun r => r.2 * r.2).sum := by
  unfold calcND
  simp only
  rw [Arr.get_ofFn _ _ _ h, Arr.get_ofFn _ _ _ h]
  constructor
  · simp only [List.filter_map, List.map_map]; rfl
  · simp only [List.filter_map, List.map_map]; rfl

/-- **Accounting.** `total + missed` is the total weight of the rows (after the NaN mask). -/
theorem C02_missed (axes : List (Bins × Bool)) (rows : List Row) :
    (calcND axes rows).freq.total + (calcND axes rows).missing = (rows.map (·.2)).sum := by
  unfold calcND; simp only; ring

/-- **Axes are never mixed up.** The cell of a row is found coordinate by coordinate: coordinate
    `a` is looked up in the bins of axis `a` and nowhere else. -/
theorem C02_axes (axes : List (Bins × Bool)) (row : List Rat) (idx : List Nat) (hl : axes.length = row.length) :
    rowCell axes row = some idx ↔
      idx.length = axes.length ∧ ∀ a (ha : a < axes.length) (hr : a < row.length) (hi : a < idx.length),
        axisCell axes[a].1 axes[a].2 row[a] = some idx[a] := by
  unfold rowCell
  induction axes generalizing row idx with
  | nil =>
    cases row with
    | nil => cases idx <;> simp [List.mapM_nil]
    | cons _ _ => simp at hl
  | cons ax axs ih =>
    cases row with
    | nil => simp at hl
    | cons x xs =>
      have hl' : axs.length = xs.length := by simpa using hl
      simp only [List.zip_cons_cons, List.mapM_cons, Option.bind_eq_bind, Option.pure_def]
      cases hc : axisCell ax.1 ax.2 x with
      | none =>
        simp only [Option.bind_none]
        constructor
        · intro h; cases h
        · intro h
          cases idx with
          | nil => simp at h
          | cons i is =>
            have := h.2 0 (by simp) (by simp) (by simp)
            simp [hc] at this
      | some c =>
        simp only [Option.bind_some]
        cases hm : List.mapM (fun x => axisCell x.1.1 x.1.2 x.2) (axs.zip xs) with
        | none =>
          simp only [Option.bind_none]
          constructor
          · intro h; cases h
          · intro h
            cases idx with
            | nil => simp at h
            | cons i is =>
              have hrest := (ih xs is hl').mpr ⟨by simpa using h.1, fun a ha hr hi => by
                have := h.2 (a + 1) (by simp; omega) (by simp; omega) (by simp; omega)
                simpa using this⟩
              rw [hm] at hrest; cases hrest
        | some cs =>
          simp only [Option.bind_some, Option.some.injEq]
          have hcs := (ih xs cs hl').mp hm
          constructor
          · intro h
            subst h
            refine ⟨by simp [hcs.1], ?_⟩
            intro a ha hr hi
            cases a with
            | zero => simpa using hc
            | succ a => simpa using hcs.2 a (by simpa using ha) (by simpa using hr) (by simpa using hi)
          · intro h
            cases idx with
            | nil => simp at h
            | cons i is =>
              have h0 := h.2 0 (by simp) (by simp) (by simp)
              simp only [List.getElem_cons_zero, hc, Option.some.injEq] at h0
              have hrest := (ih xs is hl').mpr ⟨by simpa using h.1, fun a ha hr hi => by
                have := h.2 (a + 1) (by simp; omega) (by simp; omega) (by simp; omega)
                simpa using this⟩
              rw [hm] at hrest
              rw [h0, Option.some.inj hrest]

/-- **NaN rows** are dropped together with their weights (no weights: weight 1). -/
theorem C02_nan_rows (rows : List (List (Option Rat))) :
    maskRows rows none = (rows.filter fun r => r.all Option.isSome).map fun r => (r.filterMap id, 1) := by
  induction rows with
  | nil => rfl
  | cons r rs ih => by_cases h : r.all Option.isSome = true <;> simp [maskRows, h, ih]

theorem C02_nan_rows_weighted (rows : List (List (Option Rat))) (ws : List Rat) (hl : ws.length = rows.length) :
    maskRows rows (some ws)
      = ((rows.zip ws).filter fun p => p.1.all Option.isSome).map fun p => (p.1.filterMap id, p.2) := by
  induction rows generalizing ws with
  | nil => simp [maskRows]
  | cons r rs ih =>
    cases ws with
    | nil => simp at hl
    | cons w ws =>
      have hl' : ws.length = rs.length := by simpa using hl
      by_cases h : r.all Option.isSome = true <;> simp [maskRows, h, ih ws hl']

/-- **find_bin along an axis** agrees with the 1-D search when the axis includes its right edge,
    hence (C03) returns bin `i` iff `left ≤ x < right` (last bin right-closed). -/
theorem C02_find_bin_axis (bins : Bins) (hb : Rising bins) (v : Rat) (i : Nat) :
    HN.findBinAxis bins true v = some i ↔ inBin bins true i v = true := by
  rw [← findBinIn_bin_iff bins hb v i]
  unfold HN.findBinAxis H1.findBinIn
  simp only
  by_cases h0 : (bins.filter fun b => decide (b.1 ≤ v)).length = 0
  · simp [h0]
  · simp only [h0, if_false]
    cases bins[(bins.filter fun b => decide (b.1 ≤ v)).length - 1]? with
    | none => simp
    | some b =>
      obtain ⟨l, r⟩ := b
      simp only
      by_cases hn : (bins.filter fun b => decide (b.1 ≤ v)).length = bins.length
      · simp only [hn, if_true, and_true]
        by_cases hv : v ≤ r
        · have : v < r ∨ v = r := lt_or_eq_of_le hv
          simp [hv, this]
        · have : ¬ (v < r ∨ v = r) := fun h => hv (h.elim le_of_lt le_of_eq)
          simp [hv, this]
      · simp only [hn, if_false]
        by_cases hv : v < r <;> simp [hv]

/-- a right-open axis (fixed-width binnings) does not contain its last edge -/
theorem C02_right_open (bins : Bins) (l r : Rat) (hlast : bins.getLast? = some (l, r)) (hb : Rising bins) :
    HN.findBinAxis bins false r = none := by
  have hne : bins ≠ [] := by intro h; subst h; simp at hlast
  have hlastidx : bins[bins.length - 1]? = some (l, r) := by
    rw [← List.getLast?_eq_getElem?]; exact hlast
  have hlen : 0 < bins.length := List.length_pos_iff.mpr hne
  -- every left edge is ≤ r, so the search lands on the last bin
  have hall : (bins.filter fun b => decide (b.1 ≤ r)).length = bins.length := by
    rw [List.filter_eq_self.mpr]
    intro b hbm
    simp only [decide_eq_true_eq]
    have hlt := hb.lt b hbm
    obtain ⟨j, hj, rfl⟩ := List.getElem_of_mem hbm
    rcases Nat.lt_or_ge j (bins.length - 1) with h | h
    · have := List.pairwise_iff_getElem.mp hb.pairwise j (bins.length - 1) hj (by omega) h
      rw [(List.getElem?_eq_some_iff.mp hlastidx).2] at this
      have hl' : l < r := hb.lt (l, r) (List.mem_of_getElem? hlastidx)
      simp only at this; linarith
    · have : j = bins.length - 1 := by omega
      subst this
      rw [(List.getElem?_eq_some_iff.mp hlastidx).2]; exact le_of_lt (hb.lt (l, r) (List.mem_of_getElem? hlastidx))
  unfold HN.findBinAxis
  simp only [hall]
  have : ¬ bins.length = 0 := by omega
  simp [this, hlastidx]

/-! Non-vacuity: a gapped axis, a right-closed and a right-open axis -/
example : axisCell [(0, 1), (2, 3)] true (3 / 2) = none ∧ axisCell [(0, 1), (2, 3)] true 3 = some 1 ∧
    axisCell [(0, 1), (1, 2)] false 2 = none ∧ axisCell [(0, 1), (1, 2)] true 2 = some 1 ∧
    axisCell [(0, 1), (2, 3)] true 2 = some 1 ∧ axisCell [(0, 1), (2, 3)] true 1 = none := by decide +kernel
example : (calcND [([(0, 1), (1, 2)], true), ([(0, 2)], false)] [([1 / 2, 1], 2), ([3 / 2, 2], 1), ([5, 1], 1)]).freq.data
    = [2, 0] := by decide +kernel

end Physt

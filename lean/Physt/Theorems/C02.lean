import Physt.Theorems.C01
namespace Physt
theorem C02_placeholder : True := trivial
end Physt

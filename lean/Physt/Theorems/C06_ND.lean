import Physt.Proofs.ScaleND
/-!
# C06 (continued) — scaling and normalising N-d histograms, partial_normalize, normalize_bins

Helper lemmas: `Proofs/ScaleND.lean`.  Index-wise statements hold for every index tuple (a read
outside the array is 0 and every scaling fixes 0), so no shape hypotheses are needed for them.
-/
namespace Physt

/-- **`h * c` in N dimensions**: every content and the missed count × c, every squared error × c²;
    bins, names, `keep_missed` untouched; totals scale likewise. -/
theorem C06_nd_mul (h r : HN) (c : Rat) (k : H1.NumKind) (hr : h.imul c k = .ok r) :
    r.freq = h.freq.map (· * c) ∧ r.err2 = h.err2.map (· * (c * c)) ∧ r.missed = nscale h.missed c ∧
    r.axes = h.axes ∧ r.keep = h.keep ∧ r.names = h.names ∧ r.dtype = h.dtype.promote k.dtype ∧
    r.freq.shape = h.freq.shape ∧ r.err2.shape = h.err2.shape ∧
    (∀ idx, r.freq.get idx = h.freq.get idx * c) ∧
    (∀ idx, r.err2.get idx = h.err2.get idx * (c * c)) ∧
    r.freq.total = h.freq.total * c ∧ r.err2.total = h.err2.total * (c * c) :=
  C06_ND_mul h r c k hr

/-- **`h / c` in N dimensions** -/
theorem C06_nd_div (h r : HN) (c : Rat) (hr : h.idiv c = .ok r) :
    c ≠ 0 ∧ r.freq = h.freq.map (· / c) ∧ r.err2 = h.err2.map (· / (c * c)) ∧
    r.missed = nscale h.missed (1 / c) ∧
    r.axes = h.axes ∧ r.keep = h.keep ∧ r.names = h.names ∧ r.dtype = h.dtype.promote DType.f64 ∧
    r.freq.shape = h.freq.shape ∧ r.err2.shape = h.err2.shape ∧
    (∀ idx, r.freq.get idx = h.freq.get idx / c) ∧
    (∀ idx, r.err2.get idx = h.err2.get idx / (c * c)) ∧
    r.freq.total = h.freq.total / c ∧ r.err2.total = h.err2.total / (c * c) :=
  C06_ND_div h r c hr

/-- `(h * c) / c = h` -/
theorem C06_nd_mul_div (h m r : HN) (c : Rat) (k : H1.NumKind) (hc : c ≠ 0) (hm : h.imul c k = .ok m)
    (hr : m.idiv c = .ok r) :
    r.freq = h.freq ∧ r.err2 = h.err2 ∧ r.missed = h.missed ∧ r.axes = h.axes ∧ r.keep = h.keep ∧
    r.names = h.names :=
  C06_ND_mul_div h m r c k hc hm hr

/-- **Refusals, and only these**: division by zero; a factor / divisor that makes some content negative. -/
theorem C06_nd_refuse (h : HN) (c : Rat) (k : H1.NumKind) :
    (∃ e, h.idiv 0 = .error e) ∧
    (∀ idx, h.freq.get idx * c < 0 → ∃ e, h.imul c k = .error e) ∧
    (∀ idx, h.freq.get idx / c < 0 → ∃ e, h.idiv c = .error e) ∧
    (((h.freq.map (· * c)).data.any (· < 0)) = false → ∃ r, h.imul c k = .ok r) ∧
    (c ≠ 0 → ((h.freq.map (· / c)).data.any (· < 0)) = false → ∃ r, h.idiv c = .ok r) :=
  C06_ND_refuse h c k

/-- **`normalize()` in N dimensions**: total 1 (100), every content keeps its share; a zero total is refused. -/
theorem C06_nd_normalize (h r : HN) (percent : Bool) (hr : h.normalize false percent = .ok r) :
    h.freq.total ≠ 0 ∧
    r.freq.total = (if percent then 100 else 1) ∧
    (∀ idx, r.freq.get idx * h.freq.total = h.freq.get idx * (if percent then 100 else 1)) ∧
    (∀ idx, r.freq.get idx = h.freq.get idx / h.freq.total * (if percent then 100 else 1)) ∧
    (∀ idx, r.err2.get idx = h.err2.get idx / (h.freq.total * h.freq.total)
        * ((if percent then 100 else 1) * (if percent then 100 else 1))) ∧
    r.axes = h.axes ∧ r.keep = h.keep ∧ r.names = h.names ∧ r.freq.shape = h.freq.shape :=
  C06_ND_normalize h r percent hr

theorem C06_nd_normalize_zero (h : HN) (p : Bool) (hz : h.freq.total = 0) : ∃ e, h.normalize false p = .error e :=
  C06_ND_normalize_zero h p hz

/-- **`partial_normalize(axis=0)`** (numpy sense: the sum runs over the first index): every column
    with a non-zero sum sums to 1, contents are `old / s_j`, squared errors `old / s_j²`; an
    all-zero-sum column is left alone. -/
theorem C06_partial_axis0 (h : HN) (n m j : Nat) (hs : h.freq.shape = [n, m]) (hj : j < m) :
    (h.freq.colSum n j ≠ 0 →
      (h.partialNormalize 0).freq.colSum n j = 1 ∧
      ∀ i, i < n →
        (h.partialNormalize 0).freq.get [i, j] = h.freq.get [i, j] / h.freq.colSum n j ∧
        (h.partialNormalize 0).err2.get [i, j]
          = h.err2.get [i, j] / (h.freq.colSum n j * h.freq.colSum n j)) ∧
    (h.freq.colSum n j = 0 →
      ∀ i, i < n → (h.partialNormalize 0).freq.get [i, j] = h.freq.get [i, j] ∧
        (h.partialNormalize 0).err2.get [i, j] = h.err2.get [i, j]) :=
  C06_partialNormalize_axis0 h n m j hs hj

/-- **`partial_normalize(axis=1)`**: every row with a non-zero sum sums to 1. -/
theorem C06_partial_axis1 (h : HN) (n m i : Nat) (hs : h.freq.shape = [n, m]) (hi : i < n) :
    (h.freq.rowSum m i ≠ 0 →
      (h.partialNormalize 1).freq.rowSum m i = 1 ∧
      ∀ j, j < m →
        (h.partialNormalize 1).freq.get [i, j] = h.freq.get [i, j] / h.freq.rowSum m i ∧
        (h.partialNormalize 1).err2.get [i, j]
          = h.err2.get [i, j] / (h.freq.rowSum m i * h.freq.rowSum m i)) ∧
    (h.freq.rowSum m i = 0 →
      ∀ j, j < m → (h.partialNormalize 1).freq.get [i, j] = h.freq.get [i, j] ∧
        (h.partialNormalize 1).err2.get [i, j] = h.err2.get [i, j]) :=
  C06_partialNormalize_axis1 h n m i hs hi

/-- `partial_normalize` leaves bins, names, missed, `keep_missed` and the shapes alone; dtype → float -/
theorem C06_partial_frame (h : HN) (axis n m : Nat) (hs : h.freq.shape = [n, m]) :
    (h.partialNormalize axis).axes = h.axes ∧ (h.partialNormalize axis).names = h.names ∧
    (h.partialNormalize axis).missed = h.missed ∧ (h.partialNormalize axis).keep = h.keep ∧
    (h.partialNormalize axis).dtype = h.dtype.promote .f64 ∧
    (h.partialNormalize axis).freq.shape = h.freq.shape ∧
    (h.partialNormalize axis).err2.shape = h.err2.shape ∧
    (h.partialNormalize axis).freq.WellShaped ∧ (h.partialNormalize axis).err2.WellShaped :=
  HN.partialNormalize_frame h axis n m hs

/-- **`HistogramCollection.normalize_bins`**: in every bin whose members' sum is not zero the shares
    sum to 1, each member's content is `old / sum`, its squared error `old / sum²`; member count,
    bins, missed slots and statistics are untouched; every member becomes float. -/
theorem C06_normalize_bins (hs : List H1) (n : Nat)
    (hf : ∀ m ∈ hs, m.freq.length = n) (he : ∀ m ∈ hs, m.err2.length = n) :
    (H1.normalizeBins hs).length = hs.length ∧
    (∀ (k : Nat) (m : H1), hs[k]? = some m → ∃ m' : H1, (H1.normalizeBins hs)[k]? = some m' ∧
        m'.binning = m.binning ∧ m'.under = m.under ∧ m'.over = m.over ∧ m'.inner = m.inner ∧
        m'.keep = m.keep ∧ m'.stats = m.stats ∧ m'.dtype = DType.f64 ∧
        m'.freq.length = n ∧ m'.err2.length = n ∧
        ∀ i : Nat, i < n → (H1.binSums hs)[i]?.getD 0 ≠ 0 →
          m'.freq[i]?.getD 0 = m.freq[i]?.getD 0 / (H1.binSums hs)[i]?.getD 0 ∧
          m'.err2[i]?.getD 0
            = m.err2[i]?.getD 0 / ((H1.binSums hs)[i]?.getD 0 * (H1.binSums hs)[i]?.getD 0)) ∧
    (∀ i : Nat, i < n → (H1.binSums hs)[i]?.getD 0 = (hs.map fun m => m.freq[i]?.getD 0).sum) ∧
    (∀ i : Nat, i < n → (H1.binSums hs)[i]?.getD 0 ≠ 0 →
        ((H1.normalizeBins hs).map fun m => m.freq[i]?.getD 0).sum = 1) :=
  C06_normalizeBins hs n hf he

/-! Non-vacuity -/
example : (H1.normalizeBins [{ binning := .static [(0, 1), (1, 2)] true, freq := [1, 2], err2 := [1, 2] },
    { binning := .static [(0, 1), (1, 2)] true, freq := [3, 2], err2 := [3, 2] }]).map (·.freq) = [[1 / 4, 1 / 2], [3 / 4, 1 / 2]] := by
  decide +kernel

end Physt

import Physt.Proofs.AdaptiveAddND
import Physt.Theorems.C04_ND
/-!
# C05 (continued) — adding N-dimensional histograms with adaptive fixed-width axes

"For adaptive fixed-width histograms the bins are first extended to the union of both ranges on the common
grid and nothing is lost.  Addition is commutative and associative, so `sum()` over any list, collection or
partition of the data gives the same histogram …  Operands with incompatible bins, a different dimension …
are refused."  Here: the adapting branch of the N-d `__iadd__` (`HN.iadd`).  Helper lemmas:
`Proofs/AdaptiveAddND.lean`, on top of the invariant `TracksA fo h grids rows` of `Proofs/AdaptiveND.lean`
(`Theorems/C04_ND.lean`): all axes adaptive, aligned, right-open grids; contents and squared errors are the
batch histogram (`calcND`, the model of `calculate_nd_frequencies`) of `rows` over the current bins;
`missed = 0`; every row inside every axis.

Hypotheses (those of the 1-D theorem, per axis):
* `lattice ga = lattice gb` — both operands have the same width and origin on every axis (and as many axes);
  this is what `FixedWidthBinning._adapt` checks, see the refusals below;
* `MonoGrids fo ga` — the edge function of every axis is strictly increasing (rounding does not reorder
  edges; holds in exact arithmetic for positive widths: `monoGrids_exact`).
No condition on `missed` is needed: the invariant pins `missed = 0` (the N-d histogram has one missed slot).

Finding (kept as a hypothesis of the refusal theorems): an axis that is EMPTY in both operands has equal
bins (`[]`) whatever the two widths are, `adapt` answers "nothing to do" before `_adapt` compares widths,
and the sum silently keeps the left operand's width on that axis (kernel-checked example at the end).
-/
namespace Physt
open Grid H1

/-- **1. h(A) + h(B) = h(A and B together), N dimensions, all axes adaptive.**  `a` holds the histogram of
    the rows `A` on its grids `ga`, `b` that of `B` on grids `gb` with the same width and origin per axis.
    Then `a += b` is accepted; per axis the grid of the result has the width, origin and flags of `a`'s
    axis and its range is the UNION of both ranges (`UnionN` / `SpanUnion`: both non-empty — from the lower
    first cell to the higher last cell; one empty — the other one's range); and the result holds the
    histogram of `A ++ B` over its bins (invariant `TracksA`). -/
theorem C05_nd_adaptive (fo : FloatOps) (a b : HN) (ga gb : List Grid) (A B : List Row)
    (ta : TracksA fo a ga A) (tb : TracksA fo b gb B) (hlat : lattice ga = lattice gb) (hm : MonoGrids fo ga) :
    ∃ (r : HN) (gr : List Grid), a.iadd fo b = .ok r ∧ TracksA fo r gr (A ++ B) ∧ UnionN ga gb gr ∧
      r.dtype = a.dtype.promote b.dtype ∧ r.keep = a.keep ∧ r.names = a.names :=
  tracksA_iadd_full fo a b ga gb A B ta tb hlat hm

/-- the union written out for one axis `i` -/
theorem C05_nd_adaptive_axis {ga gb gr : List Grid} (u : UnionN ga gb gr) (i : Nat) (g1 g2 g' : Grid)
    (h1 : ga[i]? = some g1) (h2 : gb[i]? = some g2) (h' : gr[i]? = some g') :
    g'.w = g1.w ∧ g'.shift = g1.shift ∧
    (0 < g1.count → 0 < g2.count →
      g'.tmin = min g1.tmin g2.tmin ∧ g'.tmin + g'.count = max (g1.tmin + g1.count) (g2.tmin + g2.count)) ∧
    (g2.count = 0 → g'.tmin = g1.tmin ∧ g'.count = g1.count) ∧
    (g1.count = 0 → 0 < g2.count → g'.tmin = g2.tmin ∧ g'.count = g2.count) := by
  obtain ⟨hw, hs, _, _, _, sp⟩ := u.each i g1 g2 g' h1 h2 h'
  exact ⟨hw, hs, sp.both, sp.rightEmpty, sp.leftEmpty⟩

/-- **Nothing is lost.**  The sum is accepted; contents and squared errors are those
    `calculate_nd_frequencies` computes from ALL the rows over the final bins, `missed` is `0` and is the
    missed weight of that computation, the total is the sum of the totals = the weight of all the rows, and
    `find_bin` finds every row of `A` and of `B` in the bin `[edge k, edge (k+1))` of its cell `k` on each
    axis' grid. -/
theorem C05_nd_adaptive_nothing_lost (fo : FloatOps) (a b : HN) (ga gb : List Grid) (A B : List Row)
    (ta : TracksA fo a ga A) (tb : TracksA fo b gb B) (hlat : lattice ga = lattice gb) (hm : MonoGrids fo ga) :
    ∃ (r : HN) (gr : List Grid), a.iadd fo b = .ok r ∧ r.axes = gr.map Binning.fixed ∧ UnionN ga gb gr ∧
      r.freq = (calcND (r.axesBins fo) (A ++ B)).freq ∧ r.err2 = (calcND (r.axesBins fo) (A ++ B)).err2 ∧
      r.missed = some 0 ∧ r.missed = some (calcND (r.axesBins fo) (A ++ B)).missing ∧
      r.total = a.total + b.total ∧ r.total = ((A ++ B).map (·.2)).sum ∧
      (∀ row ∈ A ++ B, ∃ idx, r.findBin fo row.1 = some idx ∧ validIdx (r.shape fo) idx = true ∧
        ∀ (i : Nat) (g : Grid) (x : Rat), gr[i]? = some g → row.1[i]? = some x →
          ∃ k : Int, CellOf (fo.edge g.w g.shift) x k ∧ g.tmin ≤ k ∧ k < g.tmin + g.count ∧
            idx[i]? = some (k - g.tmin).toNat ∧
            (g.bins fo)[(k - g.tmin).toNat]? = some (fo.edge g.w g.shift k, fo.edge g.w g.shift (k + 1))) := by
  obtain ⟨r, gr, e, t, u, _⟩ := tracksA_iadd_full fo a b ga gb A B ta tb hlat hm
  have hmr : MonoGrids fo gr := hm.of_lattice u.lattice
  have hmb : MonoGrids fo gb := hm.of_lattice hlat.symm
  refine ⟨r, gr, e, t.hax, u, t.freq, t.err2, t.missed, ?_, ?_, t.total hmr, fun row hrow => t.in_bin hmr row hrow⟩
  · rw [t.missing_zero hmr]; exact t.missed
  · rw [t.total hmr, ta.total hm, tb.total hmb, List.map_append, List.sum_append]

/-- **`a + b` is the histogram obtained by FILLING the rows of `b` into `a`**: same axis records, contents,
    squared errors and missed — for any sequence `ops` of `fill` / `fill_n` calls that enters the rows `B`
    (`C04_nd_every_history`), provided the ranges of `b` are exactly the hull of its own rows (`b` was filled
    from empty grids `g0`; a `b` that was given extra empty bins makes the sum wider than the filled
    histogram).  By commutativity the same holds, bins-wise, for filling the rows of `a` into `b`. -/
theorem C05_nd_adaptive_eq_fill (fo : FloatOps) (fuel : Nat) (a b : HN) (ga gb g0 : List Grid) (A B : List Row)
    (ta : TracksA fo a ga A) (tb : TracksA fo b gb B) (hlat : lattice ga = lattice gb) (hm : MonoGrids fo ga)
    (hb0 : HullN fo g0 gb (B.map (·.1))) (hz : ∀ g ∈ g0, g.count = 0)
    (ops : List OpN) (hops : enteredRows ops = B)
    (hv : ∀ op ∈ ops, op.Valid ga.length) (hacc : ∀ op ∈ ops, op.Accepted ga.length)
    (hreach : ∀ r ∈ B, ReachGrids fo fuel ga r.1) :
    ∃ r r' : HN, a.iadd fo b = .ok r ∧ ops.foldlM (OpN.apply fo fuel) a = .ok r' ∧
      r.axes = r'.axes ∧ r.freq = r'.freq ∧ r.err2 = r'.err2 ∧ r.missed = r'.missed :=
  tracksA_iadd_eq_fill fo fuel a b ga gb g0 A B ta tb hlat hm hb0 hz ops hops hv hacc hreach

/-- **2. Commutative**: `a + b` and `b + a` are both accepted and have the same bins (and right-edge rule) on
    every axis, the same contents, squared errors, missed, total and dtype.  The axis RECORDS are equal too
    unless some axis is empty in both operands (then the unobservable first-cell numbers may differ, as in
    one dimension). -/
theorem C05_nd_adaptive_comm (fo : FloatOps) (a b : HN) (ga gb : List Grid) (A B : List Row)
    (ta : TracksA fo a ga A) (tb : TracksA fo b gb B) (hlat : lattice ga = lattice gb) (hm : MonoGrids fo ga) :
    ∃ r1 r2 : HN, a.iadd fo b = .ok r1 ∧ b.iadd fo a = .ok r2 ∧
      r1.axesBins fo = r2.axesBins fo ∧ r1.freq = r2.freq ∧ r1.err2 = r2.err2 ∧ r1.missed = r2.missed ∧
      r1.total = r2.total ∧ r1.dtype = r2.dtype ∧
      ((∀ (i : Nat) (g1 g2 : Grid), ga[i]? = some g1 → gb[i]? = some g2 → 0 < g1.count ∨ 0 < g2.count) →
        r1.axes = r2.axes) :=
  tracksA_iadd_comm fo a b ga gb A B ta tb hlat hm

/-- **Associative**: `(a + b) + c` and `a + (b + c)` are accepted at every step and agree likewise. -/
theorem C05_nd_adaptive_assoc (fo : FloatOps) (a b c : HN) (ga gb gc : List Grid) (A B C : List Row)
    (ta : TracksA fo a ga A) (tb : TracksA fo b gb B) (tc : TracksA fo c gc C)
    (hlat : lattice ga = lattice gb) (hlat2 : lattice gb = lattice gc) (hm : MonoGrids fo ga) :
    ∃ ab abc bc abc' : HN, a.iadd fo b = .ok ab ∧ ab.iadd fo c = .ok abc ∧
      b.iadd fo c = .ok bc ∧ a.iadd fo bc = .ok abc' ∧
      abc.axesBins fo = abc'.axesBins fo ∧ abc.freq = abc'.freq ∧ abc.err2 = abc'.err2 ∧
      abc.missed = abc'.missed ∧ abc.total = abc'.total ∧ abc.dtype = abc'.dtype :=
  tracksA_iadd_assoc fo a b c ga gb gc A B C ta tb tc hlat hlat2 hm

/-- **`sum()` over any list of chunk histograms** (a partition of the rows, dask chunks; N-d analogue of
    `C05_adaptive_sum`): every chunk `p.1` holds the histogram of its rows `p.2.2` on its own grids `p.2.1`,
    all with the widths and origins `lat`.  Folding `+=` over the chunks is accepted at every step, and the
    result holds the histogram of ALL the rows; per axis its range is the hull of all the chunk ranges
    (`HullAll` / `SpanList`: every non-empty range is contained and both ends are attained). -/
theorem C05_nd_adaptive_chunks (fo : FloatOps) (lat : List (Rat × Rat)) (hm : ∀ p ∈ lat, EdgeMono fo p.1 p.2)
    (rest : List (HN × List Grid × List Row))
    (hrest : ∀ p ∈ rest, TracksA fo p.1 p.2.1 p.2.2 ∧ lattice p.2.1 = lat)
    (first : HN) (gf : List Grid) (F : List Row) (tf : TracksA fo first gf F) (hlf : lattice gf = lat) :
    ∃ (r : HN) (gr : List Grid), rest.foldlM (fun acc p => acc.iadd fo p.1) first = .ok r ∧
      TracksA fo r gr (F ++ (rest.map (·.2.2)).flatten) ∧ lattice gr = lat ∧
      HullAll (gf :: rest.map (·.2.1)) gr :=
  tracksA_sum fo lat hm rest hrest first gf F tf hlf

/-- **Any bracketing**: a tree of additions over chunk histograms (`SumTree`: leaves = chunks, nodes = `+`) is
    accepted at every node and gives the histogram of all the rows on the hull of all the chunk ranges. -/
theorem C05_nd_adaptive_any_bracketing (fo : FloatOps) (lat : List (Rat × Rat))
    (hm : ∀ p ∈ lat, EdgeMono fo p.1 p.2) (t : SumTree) (good : t.Good fo lat) :
    ∃ (r : HN) (gr : List Grid), t.eval fo = .ok r ∧ TracksA fo r gr t.rows ∧ lattice gr = lat ∧
      HullAll t.grids gr :=
  sumTree_spec fo lat hm t good

/-- **Any bracketing and any order**: two trees of additions over the same chunks (the leaves of one are a
    permutation of the leaves of the other) are both accepted and give the same bins on every axis, the same
    contents, squared errors, missed and total. -/
theorem C05_nd_adaptive_any_order (fo : FloatOps) (lat : List (Rat × Rat)) (hm : ∀ p ∈ lat, EdgeMono fo p.1 p.2)
    (t1 t2 : SumTree) (good1 : t1.Good fo lat) (hp : t1.leaves.Perm t2.leaves) :
    ∃ r1 r2 : HN, t1.eval fo = .ok r1 ∧ t2.eval fo = .ok r2 ∧
      r1.axesBins fo = r2.axesBins fo ∧ r1.freq = r2.freq ∧ r1.err2 = r2.err2 ∧ r1.missed = r2.missed ∧
      r1.total = r2.total :=
  sumTree_agree fo lat hm t1 t2 good1 hp

/-! ## 3. Refusals (a refused call returns `.error`: the caller's histogram is what it was) -/

/-- a different number of axes -/
theorem C05_nd_refuse_dimension (fo : FloatOps) (a b : HN) (hl : a.axes.length ≠ b.axes.length) :
    a.iadd fo b = .error "different dimensions" :=
  iaddN_dim_refused fo a b hl

/-- **A width or origin mismatch on SOME axis refuses the whole call**, whatever the other axes look like
    (the common grids of all axes are planned before any array is touched).  Hypothesis `hbins`: the bins of
    that axis differ — an axis empty in both operands is not compared (see the last example). -/
theorem C05_nd_refuse_lattice (fo : FloatOps) (a b : HN) (ga gb : List Grid) (ha : a.axes = ga.map Binning.fixed)
    (hb : b.axes = gb.map Binning.fixed) (hlen : ga.length = gb.length)
    (i : Nat) (g1 g2 : Grid) (h1 : ga[i]? = some g1) (h2 : gb[i]? = some g2)
    (hbins : g1.bins fo ≠ g2.bins fo) (hmis : g1.w ≠ g2.w ∨ g1.shift ≠ g2.shift) :
    ∃ e, a.iadd fo b = .error e :=
  iaddN_lattice_refused fo a b ga gb ha hb hlen i g1 g2 h1 h2 hbins hmis

/-- … and for an all-adaptive left operand and a right operand without positive missed the message is the one
    of `FixedWidthBinning._adapt` -/
theorem C05_nd_refuse_lattice_msg (fo : FloatOps) (a b : HN) (ga gb : List Grid) (ha : a.axes = ga.map Binning.fixed)
    (hb : b.axes = gb.map Binning.fixed) (hlen : ga.length = gb.length)
    (hall : ∀ g ∈ ga, g.adaptive = true) (hmiss : ∀ m, b.missed = some m → ¬ 0 < m)
    (i : Nat) (g1 g2 : Grid) (h1 : ga[i]? = some g1) (h2 : gb[i]? = some g2)
    (hbins : g1.bins fo ≠ g2.bins fo) (hmis : g1.w ≠ g2.w ∨ g1.shift ≠ g2.shift) :
    ∃ e, a.iadd fo b = .error e ∧ (e = "different widths" ∨ e = "different shifts") :=
  iaddN_lattice_refused_msg fo a b ga gb ha hb hlen hall hmiss i g1 g2 h1 h2 hbins hmis

/-- a right operand with positive `missed` is refused as soon as the bins differ (any kind of axes on the
    right) … -/
theorem C05_nd_refuse_missed (fo : FloatOps) (a b : HN) (hl : a.axes.length = b.axes.length)
    (hs : a.sameBins fo b = false) (ha : a.axes.all Binning.isAdaptive = true) (m : Rat)
    (hm : b.missed = some m) (hpos : 0 < m) : a.iadd fo b = .error "other has missed values" :=
  iaddN_missed_refused fo a b hl hs ha m hm hpos

/-- … while with equal bins the same operand is accepted and its missed weight is added -/
theorem C05_nd_same_bins_adds_missed (fo : FloatOps) (a b : HN) (hl : a.axes.length = b.axes.length)
    (hs : a.sameBins fo b = true) :
    a.iadd fo b = .ok { a with dtype := a.dtype.promote b.dtype, freq := Arr.zipWith (· + ·) a.freq b.freq,
                               err2 := Arr.zipWith (· + ·) a.err2 b.err2, missed := nadd a.missed b.missed } :=
  iaddN_same_eq fo a b hl hs

/-- different bins and a left operand that is not adaptive on every axis -/
theorem C05_nd_refuse_nonadaptive (fo : FloatOps) (a b : HN) (hl : a.axes.length = b.axes.length)
    (hs : a.sameBins fo b = false) (ha : a.axes.all Binning.isAdaptive = false) :
    a.iadd fo b = .error "incompatible binning" :=
  iaddN_nonadaptive_refused fo a b hl hs ha

/-! ## 4. Non-vacuity: two 2-D adaptive histograms, widths 1/2 and 2

`a` is filled with the rows `(1/4, 1)` and `(3, 5)` (weight 2): axis 0 spans the cells `0 … 6` of the grid
`k/2`, axis 1 the cells `0 … 2` of the grid `2k`.  `b` is filled by one weighted `fill_n` batch (with a NaN
row) with `(-2, 3)` and `(-1/2, 9)`: axis 0 spans the cells `-4 … -1` — DISJOINT from `a`'s range —, axis 1
the cells `1 … 4` — OVERLAPPING `a`'s range.  `h0` is the empty histogram (no bins on either axis). -/

namespace ExampleAdaptiveAddND

def grids0 : List Grid := [{ w := 1 / 2, adaptive := true }, { w := 2, adaptive := true }]
def h0 : HN := HN.empty FloatOps.exact (grids0.map Binning.fixed) true none none

def opsA : List OpN := [.fill [some (1 / 4), some 1] 1 .pyInt, .fill [some 3, some 5] 2 .pyInt]
def opsB : List OpN :=
  [.fillN [[some (-2), some 3], [none, some 7], [some (-1 / 2), some 9]] (some [1, 5, 3]) .i64]

def rowsA : List Row := [([1 / 4, 1], 1), ([3, 5], 2)]
def rowsB : List Row := [([-2, 3], 1), ([-1 / 2, 9], 3)]

theorem rowsA_eq : enteredRows opsA = rowsA := by decide +kernel
theorem rowsB_eq : enteredRows opsB = rowsB := by decide +kernel

theorem flags : ∀ g ∈ grids0, g.adaptive = true ∧ g.align = true ∧ g.ire = false := by
  intro g hg
  simp only [grids0, List.mem_cons, List.not_mem_nil, or_false] at hg
  rcases hg with rfl | rfl <;> exact ⟨rfl, rfl, rfl⟩

theorem widths : ∀ g ∈ grids0, 0 < g.w := by
  intro g hg
  simp only [grids0, List.mem_cons, List.not_mem_nil, or_false] at hg
  rcases hg with rfl | rfl <;> norm_num

theorem mono : ∀ p ∈ lattice grids0, EdgeMono FloatOps.exact p.1 p.2 := by
  intro p hp
  simp only [lattice, grids0, List.map_cons, List.map_nil, List.mem_cons, List.not_mem_nil, or_false] at hp
  rcases hp with rfl | rfl <;> exact C04_exact_mono _ _ (by norm_num)

theorem start : TracksA FloatOps.exact h0 grids0 [] := tracksA_empty _ grids0 flags true none none

/-- the two operands exist and satisfy the hypotheses of the theorems: each holds the histogram of its rows on
    its own grids, on the lattice of `grids0`; the grids of each are the hull of its rows -/
theorem operands : ∃ (a b : HN) (ga gb : List Grid),
    opsA.foldlM (OpN.apply FloatOps.exact 4) h0 = .ok a ∧ opsB.foldlM (OpN.apply FloatOps.exact 4) h0 = .ok b ∧
    TracksA FloatOps.exact a ga rowsA ∧ TracksA FloatOps.exact b gb rowsB ∧
    lattice ga = lattice grids0 ∧ lattice gb = lattice grids0 ∧
    HullN FloatOps.exact grids0 ga (rowsA.map (·.1)) ∧ HullN FloatOps.exact grids0 gb (rowsB.map (·.1)) := by
  obtain ⟨a, ga, ea, ta, ua, _⟩ := C04_nd_every_history_exact 4 opsA h0 grids0 [] start widths
    (by intro op hop
        simp only [opsA, List.mem_cons, List.not_mem_nil, or_false] at hop
        rcases hop with rfl | rfl <;> simp [OpN.Valid, grids0])
    (by intro op hop
        simp only [opsA, List.mem_cons, List.not_mem_nil, or_false] at hop
        rcases hop with rfl | rfl <;> simp [OpN.Accepted])
  obtain ⟨b, gb, eb, tb, ub, _⟩ := C04_nd_every_history_exact 4 opsB h0 grids0 [] start widths
    (by intro op hop
        simp only [opsB, List.mem_cons, List.not_mem_nil, or_false] at hop
        subst hop; simp [OpN.Valid])
    (by intro op hop
        simp only [opsB, List.mem_cons, List.not_mem_nil, or_false] at hop
        subst hop; simp [OpN.Accepted, grids0])
  rw [List.nil_append, rowsA_eq] at ta
  rw [List.nil_append, rowsB_eq] at tb
  rw [rowsA_eq] at ua
  rw [rowsB_eq] at ub
  exact ⟨a, b, ga, gb, ea, eb, ta, tb, ua.lattice_eq, ub.lattice_eq, ua, ub⟩

/-- **Theorems 1 and "nothing lost" applied**: `a + b` is accepted, holds the histogram of the four rows on
    the union grids, total `7 = 3 + 4`, nothing missed. -/
example : ∃ (a b r : HN) (ga gb gr : List Grid),
    opsA.foldlM (OpN.apply FloatOps.exact 4) h0 = .ok a ∧ opsB.foldlM (OpN.apply FloatOps.exact 4) h0 = .ok b ∧
    a.iadd FloatOps.exact b = .ok r ∧ TracksA FloatOps.exact r gr (rowsA ++ rowsB) ∧ UnionN ga gb gr ∧
    r.freq = (calcND (r.axesBins FloatOps.exact) (rowsA ++ rowsB)).freq ∧ r.missed = some 0 ∧
    r.total = a.total + b.total := by
  obtain ⟨a, b, ga, gb, ea, eb, ta, tb, la, lb, _, _⟩ := operands
  have hm : MonoGrids FloatOps.exact ga := monoGrids_of_lattice mono la
  obtain ⟨r, gr, e, t, u, _⟩ := C05_nd_adaptive FloatOps.exact a b ga gb rowsA rowsB ta tb (la.trans lb.symm) hm
  obtain ⟨r', gr', e', _, _, hf, _, hz, _, ht, _⟩ :=
    C05_nd_adaptive_nothing_lost FloatOps.exact a b ga gb rowsA rowsB ta tb (la.trans lb.symm) hm
  rw [e] at e'
  cases e'
  exact ⟨a, b, r, ga, gb, gr, ea, eb, e, t, u, hf, hz, ht⟩

/-- **Commutativity, "= filling", and sums in any order applied** to these operands and the empty histogram. -/
example : ∃ (a b : HN),
    opsA.foldlM (OpN.apply FloatOps.exact 4) h0 = .ok a ∧ opsB.foldlM (OpN.apply FloatOps.exact 4) h0 = .ok b ∧
    (∃ r1 r2, a.iadd FloatOps.exact b = .ok r1 ∧ b.iadd FloatOps.exact a = .ok r2 ∧
      r1.axesBins FloatOps.exact = r2.axesBins FloatOps.exact ∧ r1.freq = r2.freq ∧ r1.err2 = r2.err2 ∧
      r1.missed = r2.missed) ∧
    (∃ r r', a.iadd FloatOps.exact b = .ok r ∧ opsB.foldlM (OpN.apply FloatOps.exact 4) a = .ok r' ∧
      r.axes = r'.axes ∧ r.freq = r'.freq ∧ r.err2 = r'.err2 ∧ r.missed = r'.missed) ∧
    (∃ r1 r2 ga gb, (SumTree.add (.add (.leaf a ga rowsA) (.leaf b gb rowsB)) (.leaf h0 grids0 [])).eval FloatOps.exact = .ok r1 ∧
      (SumTree.add (.leaf b gb rowsB) (.add (.leaf h0 grids0 []) (.leaf a ga rowsA))).eval FloatOps.exact = .ok r2 ∧
      r1.axesBins FloatOps.exact = r2.axesBins FloatOps.exact ∧ r1.freq = r2.freq ∧ r1.err2 = r2.err2 ∧
      r1.missed = r2.missed ∧ r1.total = r2.total) := by
  obtain ⟨a, b, ga, gb, ea, eb, ta, tb, la, lb, _, ub⟩ := operands
  have hm : MonoGrids FloatOps.exact ga := monoGrids_of_lattice mono la
  have hlat := la.trans lb.symm
  have hlen : ga.length = 2 := by rw [← lattice_length, la]; rfl
  refine ⟨a, b, ea, eb, ?_, ?_, ?_⟩
  · obtain ⟨r1, r2, e1, e2, h1, h2, h3, h4, _⟩ := C05_nd_adaptive_comm FloatOps.exact a b ga gb rowsA rowsB ta tb hlat hm
    exact ⟨r1, r2, e1, e2, h1, h2, h3, h4⟩
  · apply C05_nd_adaptive_eq_fill FloatOps.exact 4 a b ga gb grids0 rowsA rowsB ta tb hlat hm ub
      (by intro g hg
          simp only [grids0, List.mem_cons, List.not_mem_nil, or_false] at hg
          rcases hg with rfl | rfl <;> rfl) opsB rowsB_eq
    · intro op hop
      simp only [opsB, List.mem_cons, List.not_mem_nil, or_false] at hop
      subst hop; simp [OpN.Valid]
    · intro op hop
      simp only [opsB, List.mem_cons, List.not_mem_nil, or_false] at hop
      subst hop; simp [OpN.Accepted, hlen]
    · intro r _
      apply reachGrids_exact ga _ 4 r.1
      intro g hg
      have hp : (g.w, g.shift) ∈ lattice ga := List.mem_map_of_mem (f := fun g : Grid => (g.w, g.shift)) hg
      rw [la] at hp
      simp only [lattice, grids0, List.map_cons, List.map_nil, List.mem_cons, List.not_mem_nil, or_false,
        Prod.mk.injEq] at hp
      rcases hp with ⟨h, _⟩ | ⟨h, _⟩ <;> rw [h] <;> norm_num
  · obtain ⟨r1, r2, e1, e2, h⟩ := C05_nd_adaptive_any_order FloatOps.exact (lattice grids0) mono
      (.add (.add (.leaf a ga rowsA) (.leaf b gb rowsB)) (.leaf h0 grids0 []))
      (.add (.leaf b gb rowsB) (.add (.leaf h0 grids0 []) (.leaf a ga rowsA)))
      (by intro p hp
          simp only [SumTree.leaves, List.cons_append, List.nil_append, List.mem_cons, List.not_mem_nil, or_false] at hp
          rcases hp with rfl | rfl | rfl
          · exact ⟨ta, la⟩
          · exact ⟨tb, lb⟩
          · exact ⟨start, rfl⟩)
      (by simp only [SumTree.leaves, List.cons_append, List.nil_append]
          exact (List.Perm.swap _ _ _).trans (List.Perm.cons _ (List.Perm.swap _ _ _)))
    exact ⟨r1, r2, ga, gb, e1, e2, h⟩

/-! ### … and the model computes what the theorems say -/

def resA : R HN := opsA.foldlM (OpN.apply FloatOps.exact 4) h0
def resB : R HN := opsB.foldlM (OpN.apply FloatOps.exact 4) h0
def plus (x y : R HN) : R HN := x.bind fun a => y.bind fun b => a.iadd FloatOps.exact b

/-- the operands: axis 0 disjoint (`0 … 6` and `-4 … -1`), axis 1 overlapping (`0 … 2` and `1 … 4`); the bins
    differ, so `+` takes the adapting branch -/
example :
    resA.map (fun r => (r.axes, r.total)) =
      .ok ([.fixed { w := 1 / 2, tmin := 0, count := 7, adaptive := true },
            .fixed { w := 2, tmin := 0, count := 3, adaptive := true }], 3) ∧
    resB.map (fun r => (r.axes, r.total)) =
      .ok ([.fixed { w := 1 / 2, tmin := -4, count := 4, adaptive := true },
            .fixed { w := 2, tmin := 1, count := 4, adaptive := true }], 4) ∧
    (resA.bind fun a => resB.map fun b => a.sameBins FloatOps.exact b) = .ok false := by
  refine ⟨by decide +kernel, by decide +kernel, by decide +kernel⟩

/-- `a + b`: axis 0 spans `-4 … 6` (11 cells), axis 1 spans `0 … 4` (5 cells) — the unions; total `7`; nothing
    missed; the four weights sit in the cells of their rows; the contents are the batch histogram of all four
    rows over the final bins -/
example :
    (plus resA resB).map (fun r => (r.axes, r.freq.shape, r.total, r.missed)) =
      .ok ([.fixed { w := 1 / 2, tmin := -4, count := 11, adaptive := true },
            .fixed { w := 2, tmin := 0, count := 5, adaptive := true }], [11, 5], 7, some 0) ∧
    (plus resA resB).map (fun r => (r.freq.get [4, 0], r.freq.get [10, 2], r.freq.get [0, 1], r.freq.get [3, 4]))
      = .ok (1, 2, 1, 3) ∧
    (plus resA resB).map (fun r => (r.err2.get [3, 4], r.findBin FloatOps.exact [-1 / 2, 9])) = .ok (9, some [3, 4]) ∧
    (plus resA resB).map (fun r => decide (r.freq = (calcND (r.axesBins FloatOps.exact) (rowsA ++ rowsB)).freq ∧
        r.err2 = (calcND (r.axesBins FloatOps.exact) (rowsA ++ rowsB)).err2)) = .ok true := by
  refine ⟨by decide +kernel, by decide +kernel, by decide +kernel, by decide +kernel⟩

/-- `a + b` and `b + a` have the same axis records, contents, squared errors and missed; both equal the
    histogram obtained by filling all four rows into the empty histogram, and by filling `b`'s rows into `a` -/
example :
    (plus resA resB).map (fun r => (r.axes, r.freq, r.err2, r.missed)) =
      (plus resB resA).map (fun r => (r.axes, r.freq, r.err2, r.missed)) ∧
    (plus resA resB).map (fun r => (r.axes, r.freq, r.err2, r.missed)) =
      ((opsA ++ opsB).foldlM (OpN.apply FloatOps.exact 4) h0).map (fun r => (r.axes, r.freq, r.err2, r.missed)) ∧
    (plus resA resB).map (fun r => (r.axes, r.freq, r.err2, r.missed)) =
      (resA.bind fun a => opsB.foldlM (OpN.apply FloatOps.exact 4) a).map (fun r => (r.axes, r.freq, r.err2, r.missed)) := by
  refine ⟨by decide +kernel, by decide +kernel, by decide +kernel⟩

/-- **one empty operand** (no bins on either axis; the `.fresh` instruction): `h0 + b` and `b + h0` are `b` -/
example :
    (plus (.ok h0) resB).map (fun r => (r.axes, r.freq, r.err2, r.missed)) =
      resB.map (fun r => (r.axes, r.freq, r.err2, r.missed)) ∧
    (plus resB (.ok h0)).map (fun r => (r.axes, r.freq, r.err2, r.missed)) =
      resB.map (fun r => (r.axes, r.freq, r.err2, r.missed)) := by
  refine ⟨by decide +kernel, by decide +kernel⟩

/-- the theorem applied to the empty left operand -/
example : ∃ (b r : HN) (gb gr : List Grid), opsB.foldlM (OpN.apply FloatOps.exact 4) h0 = .ok b ∧
    h0.iadd FloatOps.exact b = .ok r ∧ TracksA FloatOps.exact r gr ([] ++ rowsB) ∧ UnionN grids0 gb gr := by
  obtain ⟨_, b, _, gb, _, eb, _, tb, _, lb, _, _⟩ := operands
  obtain ⟨r, gr, e, t, u, _⟩ := C05_nd_adaptive FloatOps.exact h0 b grids0 gb [] rowsB start tb lb.symm
    (monoGrids_exact grids0 widths)
  exact ⟨b, r, gb, gr, eb, e, t, u⟩

/-- **(a + b) + h0 and b + (h0 + a)**: any bracketing, any order -/
example :
    (plus (plus resA resB) (.ok h0)).map (fun r => (r.axes, r.freq, r.err2, r.missed)) =
      (plus resB (plus (.ok h0) resA)).map (fun r => (r.axes, r.freq, r.err2, r.missed)) := by
  decide +kernel

/-! ### Refusals, computed -/

/-- a 1-D operand; a width mismatch on axis 1 only (axis 0 fits); an origin mismatch on axis 0 only; a right
    operand with positive missed (different bins: refused; equal bins: accepted, missed added) -/
example :
    plus resA (.ok (HN.empty FloatOps.exact [.fixed { w := 1 / 2, adaptive := true }] true none none))
      = .error "different dimensions" ∧
    plus resA (.ok (HN.empty FloatOps.exact
        [.fixed { w := 1 / 2, tmin := 1, count := 2, adaptive := true }, .fixed { w := 3, count := 1, adaptive := true }]
        true none none)) = .error "different widths" ∧
    plus resA (.ok (HN.empty FloatOps.exact
        [.fixed { w := 1 / 2, shift := 1 / 8, count := 2, adaptive := true }, .fixed { w := 2, count := 1, adaptive := true }]
        true none none)) = .error "different shifts" ∧
    (resA.bind fun a => resB.bind fun b => a.iadd FloatOps.exact { b with missed := some 1 })
      = .error "other has missed values" ∧
    (resA.bind fun a => (a.iadd FloatOps.exact { a with missed := some 1 }).map fun r => (r.total, r.missed))
      = .ok (6, some 1) := by
  refine ⟨by decide +kernel, by decide +kernel, by decide +kernel, by decide +kernel, by decide +kernel⟩

/-- the refusal theorem applied: a width mismatch on axis 1 (bins `[0, 3)` against `[0,2) [2,4) [4,6)`) -/
example : ∃ a e, opsA.foldlM (OpN.apply FloatOps.exact 4) h0 = .ok a ∧
    a.iadd FloatOps.exact (HN.empty FloatOps.exact
      [.fixed { w := 1 / 2, tmin := 1, count := 2, adaptive := true }, .fixed { w := 3, count := 1, adaptive := true }]
      true none none) = .error e ∧ (e = "different widths" ∨ e = "different shifts") := by
  obtain ⟨a, _, ga, _, ea, _, ta, _, la, _, ua, _⟩ := operands
  have hlen : ga.length = 2 := by rw [← lattice_length, la]; rfl
  obtain ⟨g1, hg1⟩ : ∃ g1, ga[1]? = some g1 := ⟨ga[1], List.getElem?_eq_getElem (by omega)⟩
  have sp := ua.each 1 _ g1 (by rfl : grids0[1]? = some { w := 2, adaptive := true }) hg1
  have hw : g1.w = 2 := sp.w
  obtain ⟨e, he, hmsg⟩ := C05_nd_refuse_lattice_msg FloatOps.exact a
    (HN.empty FloatOps.exact
      [.fixed { w := 1 / 2, tmin := 1, count := 2, adaptive := true }, .fixed { w := 3, count := 1, adaptive := true }]
      true none none) ga
    [{ w := 1 / 2, tmin := 1, count := 2, adaptive := true }, { w := 3, count := 1, adaptive := true }]
    ta.hax rfl hlen (fun g hg => (ta.flags g hg).1) (by intro m hm; cases hm; exact lt_irrefl _)
    1 g1 { w := 3, count := 1, adaptive := true } hg1 rfl
    (by
      intro hb
      have h0 := congrArg (fun l => l[0]?.map (fun p => p.2 - p.1)) hb
      have hp : 0 < g1.count := sp.pos (Or.inr (by decide))
      simp only [bins_eq_binsFrom, binsFrom_getElem? _ _ _ 0 hp, binsFrom_getElem? _ _ _ 0 (by decide : 0 < 1),
        Option.map_some, Option.some.injEq, Grid.edgeAt, FloatOps.exact, hw] at h0
      norm_num at h0
      linarith)
    (Or.inl (by rw [hw]; norm_num))
  exact ⟨a, e, ea, he, hmsg⟩

/-- **Finding: an axis that is empty in BOTH operands is not compared.**  Two histograms without any bins whose
    second axes have widths `2` and `3` "have the same bins" and add up silently; and when the first axes have
    (different) bins and only the second axes are empty, the adapting branch plans "nothing to do" for the
    second axis and the sum keeps the LEFT operand's width `2` there: no refusal although the widths differ.
    (Such operands hold no content — an N-d histogram with an empty axis has no cells.) -/
example :
    (h0.iadd FloatOps.exact (HN.empty FloatOps.exact
        [.fixed { w := 1 / 2, adaptive := true }, .fixed { w := 3, adaptive := true }] true none none)).map (·.axes)
      = .ok h0.axes ∧
    ((HN.empty FloatOps.exact
        [.fixed { w := 1 / 2, count := 2, adaptive := true }, .fixed { w := 2, adaptive := true }] true none none).iadd
      FloatOps.exact (HN.empty FloatOps.exact
        [.fixed { w := 1 / 2, tmin := 5, count := 1, adaptive := true }, .fixed { w := 3, adaptive := true }]
        true none none)).map (·.axes)
      = .ok [.fixed { w := 1 / 2, count := 6, adaptive := true }, .fixed { w := 2, adaptive := true }] := by
  refine ⟨by decide +kernel, by decide +kernel⟩

end ExampleAdaptiveAddND

end Physt

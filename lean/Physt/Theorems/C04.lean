import Physt.Proofs.GridCover
import Mathlib.Algebra.Order.Floor.Ring
import Mathlib.Data.Rat.Floor
import Mathlib.Algebra.Order.Field.Rat
/-!
# C04 — adaptive fixed-width histograms never lose a value when bins grow

The implementation computes grid edges `k*width + shift` and the cell estimate
`floor((v - shift)/width)` in floating point.  The theorems quantify over **every** `FloatOps`
instance (the parameter standing for those computations) whose edge function is strictly
increasing, and over **every** estimate within the search fuel: rounding can then neither lose a
value nor mis-place it.  For exact arithmetic the hypotheses are proved (`C04_exact_*`); for IEEE
doubles the driver checks strict monotonicity on every case it runs.
-/
namespace Physt
open Grid H1

/-- **The corrected cell search.** For any strictly increasing edge function and any estimate,
    `_find_grid_index` returns the unique cell `k` with `edge k ≤ v < edge (k+1)`. -/
theorem C04_locate (edge : Int → Rat) (hmono : ∀ a b : Int, a < b → edge a < edge b) (v : Rat)
    (k est : Int) (fuel : Nat) (hk : edge k ≤ v ∧ v < edge (k + 1)) (hf : (est - k).natAbs ≤ fuel) :
    locate edge v fuel est = k :=
  locate_spec edge v hmono k est fuel hk hf

/-- In exact arithmetic a positive width gives a strictly increasing edge function … -/
theorem C04_exact_mono (w s : Rat) (hw : 0 < w) : EdgeMono FloatOps.exact w s := by
  intro a b hab
  simp only [FloatOps.exact]
  have : (a : Rat) < (b : Rat) := by exact_mod_cast hab
  nlinarith

/-- … and the floor of the quotient *is* the cell, so the search needs no correction at all. -/
theorem C04_exact_cell (w s v : Rat) (hw : 0 < w) :
    CellOf (FloatOps.exact.edge w s) v (FloatOps.exact.est w s v) := by
  simp only [FloatOps.exact, CellOf]
  have h1 : ((⌊(v - s) / w⌋ : Int) : Rat) ≤ (v - s) / w := Int.floor_le _
  have h2 : (v - s) / w < ((⌊(v - s) / w⌋ : Int) : Rat) + 1 := Int.lt_floor_add_one _
  have hfl : ((v - s) / w).floor = ⌊(v - s) / w⌋ := rfl
  rw [hfl]
  constructor
  · have := mul_le_mul_of_nonneg_right h1 (le_of_lt hw)
    rw [div_mul_cancel₀ _ (ne_of_gt hw)] at this
    linarith
  · have := mul_lt_mul_of_pos_right h2 hw
    rw [div_mul_cancel₀ _ (ne_of_gt hw)] at this
    push_cast
    linarith

theorem sum_replicate_zero (n : Nat) : (List.replicate n (0 : Rat)).sum = 0 := by
  induction n with
  | zero => rfl
  | succ n ih => simp [List.replicate_succ, ih]

/-- moving the contents to their new position keeps them all (sum and length) -/
theorem reshape1_shift (old : List Rat) (k newSize : Nat) (h : k + old.length ≤ newSize) :
    (reshape1 old newSize (.shift k)).sum = old.sum ∧ (reshape1 old newSize (.shift k)).length = newSize ∧
    ∀ j, j < old.length → (reshape1 old newSize (.shift k))[k + j]? = old[j]? := by
  have hlen : (List.replicate k (0 : Rat) ++ old ++ List.replicate (newSize - k - old.length) 0).length = newSize := by
    simp; omega
  have htake : (List.replicate k (0 : Rat) ++ old ++ List.replicate (newSize - k - old.length) 0).take newSize
      = List.replicate k 0 ++ old ++ List.replicate (newSize - k - old.length) 0 := by
    rw [List.take_of_length_le (by omega)]
  simp only [reshape1, htake]
  refine ⟨by simp [sum_replicate_zero], hlen, ?_⟩
  intro j hj
  rw [List.append_assoc, List.getElem?_append_right (by simp)]
  simp only [List.length_replicate, Nat.add_sub_cancel_left]
  rw [List.getElem?_append_left hj]

theorem addAt_sum (l : List Rat) (i : Nat) (w : Rat) (hi : i < l.length) : (addAt l i w).sum = l.sum + w := by
  induction l generalizing i with
  | nil => simp at hi
  | cons a t ih =>
    cases i with
    | zero => simp [addAt, List.modify]; ring
    | succ i =>
      have := ih i (by simpa using hi)
      simp only [addAt, List.modify_succ_cons, List.sum_cons] at this ⊢
      rw [this]; ring

/-- What `C04_fill` needs to know about the state: an adaptive, aligned, right-open grid whose
    contents have the grid's length, with tracking of missed values on. -/
structure GridState (h : H1) (g : Grid) : Prop where
  binning : h.binning = .fixed g
  adaptive : g.adaptive = true
  align : g.align = true
  ire : g.ire = false
  keep : h.keep = true
  flen : h.freq.length = g.count
  elen : h.err2.length = g.count

/-- **A filled value is never lost.**  For every strictly increasing edge function and every
    estimate within the fuel: `fill(v, w)` on an adaptive histogram grows the grid so that it covers
    the cell of `v` *and* every cell it covered before, reports a bin (never underflow, overflow or
    a gap), adds `w` to the total, and leaves underflow / overflow untouched. -/
theorem C04_fill (fo : FloatOps) (fuel : Nat) (h : H1) (g : Grid) (st : GridState h g) (v w : Rat) (wk : NumKind)
    (k : Int) (hm : EdgeMono fo g.w g.shift) (hk : CellOf (g.edgeAt fo) v k)
    (hf : (fo.est g.w g.shift v - k).natAbs ≤ fuel) :
    ∃ g' : Grid, GridState (h.fill fo fuel (some v) w wk).1 g' ∧
      g'.w = g.w ∧ g'.shift = g.shift ∧
      g'.tmin ≤ k ∧ k < g'.tmin + g'.count ∧
      (0 < g.count → g'.tmin = min g.tmin k ∧ g'.tmin + g'.count = max (g.tmin + g.count) (k + 1)) ∧
      (g.count = 0 → g'.tmin = k ∧ g'.count = 1) ∧
      (h.fill fo fuel (some v) w wk).2 = some (.bin (k - g'.tmin).toNat) ∧
      (h.fill fo fuel (some v) w wk).1.freq.sum = h.freq.sum + w ∧
      (h.fill fo fuel (some v) w wk).1.under = h.under ∧ (h.fill fo fuel (some v) w wk).1.over = h.over := by
  have cov := forceSingle_covers fo fuel g v k st.align hm hk hf
  simp only at cov
  obtain ⟨hw, hs, hal, had, hire, hlo, hhi, hzero, hpos⟩ := cov
  -- the reshape instruction matches the growth
  have hreshape : ∀ old : List Rat, old.length = g.count →
      (reshape1 old (g.forceSingle fo fuel v false).1.count (g.forceSingle fo fuel v false).2).sum = old.sum ∧
      (reshape1 old (g.forceSingle fo fuel v false).1.count (g.forceSingle fo fuel v false).2).length
        = (g.forceSingle fo fuel v false).1.count := by
    intro old hold
    have hloc : g.findIndex fo fuel v = k := locate_spec (g.edgeAt fo) v hm k _ fuel hk hf
    unfold forceSingle
    by_cases h0 : g.count = 0
    · have : old = [] := List.length_eq_zero_iff.mp (by omega)
      subst this
      simp [h0, st.align, reshape1, sum_replicate_zero]
    · simp only [h0, if_false]
      by_cases h1 : v < g.firstEdge fo
      · have hkt : k < g.tmin := cell_lt_of_lt hm hk h1
        have hal' : (g.tmin - k).toNat ≠ 0 := by omega
        simp only [h1, if_true, hloc, hal', if_false]
        have := reshape1_shift old (g.tmin - k).toNat (g.count + (g.tmin - k).toNat) (by omega)
        exact ⟨this.1, this.2.1⟩
      · simp only [h1, if_false]
        by_cases h2 : g.lastEdge fo ≤ v
        · have hkt : g.tmin + g.count ≤ k := cell_ge_of_le hm hk h2
          have hne : ¬ (k - g.tmin + 1 - (if g.edgeAt fo k = v ∧ false = true then 1 else 0) - (g.count : Int) = 0) := by
            simp; omega
          simp only [h2, if_true, hloc, hne, if_false]
          have := reshape1_shift old 0 ((g.count : Int) + (k - g.tmin + 1 - (if g.edgeAt fo k = v ∧ false = true then 1 else 0) - (g.count : Int))).toNat
            (by simp; omega)
          exact ⟨this.1, this.2.1⟩
        · simp [h2, reshape1, hold]
  refine ⟨(g.forceSingle fo fuel v false).1, ?_⟩
  have hfind : findBinIn ((g.forceSingle fo fuel v false).1.bins fo) v
      = .bin (k - (g.forceSingle fo fuel v false).1.tmin).toNat := by
    rw [bins_eq_binsFrom]
    have hm' : ∀ a b : Int, a < b → (g.forceSingle fo fuel v false).1.edgeAt fo a < (g.forceSingle fo fuel v false).1.edgeAt fo b := by
      intro a b hab; simp only [edgeAt, hw, hs]; exact hm a b hab
    have hk' : CellOf ((g.forceSingle fo fuel v false).1.edgeAt fo) v k := by
      simp only [CellOf, edgeAt, hw, hs]; exact hk
    exact findBinIn_grid _ hm' _ _ v k hk' hlo hhi
  have hidx : (k - (g.forceSingle fo fuel v false).1.tmin).toNat < (g.forceSingle fo fuel v false).1.count := by omega
  unfold fill
  simp only [adapt, coerce, st.binning, st.adaptive, if_true, st.ire, findBin, H1.bins, Binning.bins, hfind]
  have rf := hreshape h.freq st.flen
  have re := hreshape h.err2 st.elen
  refine ⟨⟨rfl, by rw [had]; exact st.adaptive, by rw [hal]; exact st.align, by rw [hire]; exact st.ire, st.keep, ?_, ?_⟩,
    hw, hs, hlo, hhi, hpos, hzero, by trivial, ?_, by trivial, by trivial⟩
  · simp [addAt, rf.2]
  · simp [addAt, re.2]
  · rw [addAt_sum _ _ _ (by rw [rf.2]; exact hidx), rf.1]

/-! Non-vacuity: the exact instance with width 1/10 and the value 17/10 (the decimal literal that the
    uncorrected code lost) satisfies every hypothesis of `C04_fill`; and whatever the estimate, the
    search lands on cell 17. -/
example : EdgeMono FloatOps.exact (1 / 10) 0 ∧ CellOf (FloatOps.exact.edge (1 / 10) 0) (17 / 10) 17 :=
  ⟨C04_exact_mono _ _ (by norm_num), by simp only [CellOf, FloatOps.exact]; constructor <;> norm_num⟩
example : locate (FloatOps.exact.edge (1 / 10) 0) (17 / 10) 8 16 = 17 ∧
    locate (FloatOps.exact.edge (1 / 10) 0) (17 / 10) 8 19 = 17 := by decide +kernel

end Physt

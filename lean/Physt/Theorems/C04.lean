import Physt.Theorems.C01
namespace Physt
theorem C04_placeholder : True := trivial
end Physt

import Physt.Proofs.Heap
/-!
# C12 (continued) — derived histograms are independent of their sources: the object graph

`Theorems/C12.lean` treats histograms as values, so independence is a triviality there.  This
file speaks about the object graph of the real code (`Model/Heap.lean`): a heap of cells
(binning objects, numpy arrays, the `_meta_data` dict, frozen `Statistics` objects, immutable edge
buffers), histogram objects that are records of references, every derivation of the property
modelled by WHICH cells it allocates and every in-place operation by which cells it writes and
which references it re-assigns — as read off the Python source (file:line in `Model/Heap.lean`).

What is shared in the real code, and why it is harmless (or not):
* `Statistics` objects are frozen and `INVALID_STATISTICS` is one object referenced by many
  histograms (every slice, projection, parsed histogram): immutable, not part of `Sep`.
* slicing a `StaticBinning` gives a NEW binning object whose `_bins` is a numpy view of the
  source's buffer, and `NumpyBinning.copy()` keeps the same `_numpy_bins` buffer: physt never
  writes into such a buffer, it only re-assigns the attribute — buffers are immutable cells here.
* `HistogramCollection.copy()` / `create()` — BEFORE fix 10ef3a5 every member of a copied collection
  (and every created member) referenced ONE binning object: with an adaptive binning, filling one
  member changed the bins of its siblings and left them ill-formed (kernel-checked witness in the last
  section, on the old variant `collCopyShared`).  The current code (`collCopy`, `Deriv.create`) gives
  every member its own binning copy, so `Sep` and the frame theorem need NO exception any more: they
  hold for all pairs of distinct live objects.
-/
namespace Physt
namespace Hp

/-- **(a) Separation is an invariant of every history.**  In a world where every live histogram
    object is well-typed, the mutable references of each object (binning objects, `_frequencies`,
    `_errors2`, `_missed`, `_meta_data`) are pairwise distinct and two distinct live objects share
    no mutable cell (no exception: members of a copied collection are separated from each other too);
    the same holds after ANY list of derivations (copy, arithmetic, normalize, merge_bins,
    projection, indexing, select, T, partial_normalize, accumulate, JSON round trip, collection copy, `collection.create`;
    the result joins the live set) and in-place operations (fill with adaptive growth, `+=`, `*=`, `/=`,
    dtype change, in-place merge, metadata edits, `set_adaptive`, …) on arbitrary live objects. -/
theorem C12_sep_history (w : World) (iv : Inv w) (steps : List Step) : Inv (w.run steps) :=
  inv_run iv steps

/-- one step: a derivation adds a separated, well-typed object -/
theorem C12_sep_derive (w : World) (iv : Inv w) (i : Nat) (d : Deriv) : Inv (w.step (.derive i d)) :=
  inv_step iv _

/-- one step: an in-place operation keeps all live objects separated and well-typed -/
theorem C12_sep_mutate (w : World) (iv : Inv w) (i : Nat) (m : Mut) : Inv (w.step (.mutate i m)) :=
  inv_step iv _

/-- one step: `HistogramCollection.copy()` -/
theorem C12_sep_collCopy (w : World) (iv : Inv w) (is : List Nat) : Inv (w.step (.collCopy is)) :=
  inv_step iv _

/-- the initial world (only `INVALID_STATISTICS` on the heap, no histogram) satisfies the invariant -/
theorem C12_sep_init : Inv { heap := Heap.init, live := [] } := invB_sound (by decide)

/-- `HistogramCollection.copy()` in detail (after fix 10ef3a5): no old cell is touched; every new member
    is well-typed, all its mutable references are new cells and pairwise distinct; two different members
    share nothing; and the new collection's own binning object is a new cell that no member references -/
theorem C12_collCopy_fresh (h : Heap) (ms : List HObj) (wx : ∀ x ∈ ms, WT h x) :
    Agree h (collCopy h ms).1 ∧
    (∀ y ∈ (collCopy h ms).2, WT (collCopy h ms).1 y ∧ (∀ l ∈ y.refs, h.length ≤ l) ∧ y.refs.Nodup) ∧
    (∀ (i j : Nat) (y z : HObj), (collCopy h ms).2[i]? = some y → (collCopy h ms).2[j]? = some z → i ≠ j →
        ∀ l ∈ y.refs, l ∉ z.refs) ∧
    (∀ b0, collBinning ms = some b0 →
        h.length ≤ (copyBin h b0).2 ∧ binOk (collCopy h ms).1 (copyBin h b0).2 = true ∧
        (collCopy h ms).2.length = ms.length ∧ ∀ y ∈ (collCopy h ms).2, (copyBin h b0).2 ∉ y.refs) :=
  collCopy_spec ms wx

/-- what a derivation produces, in detail: no old cell is touched; every mutable reference of the
    result is a NEW cell (`≥ heap.length`); they are pairwise distinct; the result is well-typed -/
theorem C12_derive_fresh (h : Heap) (x : HObj) (w : WT h x) (d : Deriv) :
    Agree h (derive h x d).1 ∧ (∀ l ∈ (derive h x d).2.refs, h.length ≤ l) ∧
    (derive h x d).2.refs.Nodup ∧ WT (derive h x d).1 (derive h x d).2 :=
  let f := derive_fresh w d
  ⟨f.agree, f.refs, f.nodup, f.wt⟩

/-- what an in-place operation on `x` does, in detail: cells not referenced by `x` are untouched;
    every cell keeps its kind, and statistics objects, edge buffers and array-backed binnings keep
    their contents; the references of the updated object are old references of `x` or new cells -/
theorem C12_mutate_effect (h : Heap) (x : HObj) (w : WT h x) (m : Mut) :
    (∀ l, l < h.length → l ∉ x.refs → (mutate h x m).1[l]? = h[l]?) ∧
    Pres h (mutate h x m).1 ∧
    (∀ l ∈ (mutate h x m).2.refs, l ∈ x.refs ∨ h.length ≤ l) ∧
    WT (mutate h x m).1 (mutate h x m).2 := by
  have e := mutate_eff w m
  refine ⟨e.frame, e.pres, fun l hl => ?_, e.wt⟩
  rcases mem_refs.mp hl with h1 | h1
  · exact (e.bins l h1).imp (fun h2 => mem_refs.mpr (Or.inl h2)) id
  · exact (e.arrs l h1).imp (fun h2 => mem_refs.mpr (Or.inr h2)) id

/-- **(b) Frame — for ALL pairs of distinct live objects.**  An in-place operation on the live
    object number `i` leaves every other live object (`j ≠ i`) and EVERYTHING IT REPORTS — bins,
    contents, squared errors, missed, metadata, statistics, dtype — exactly as it was.  In particular
    the other object stays well-formed (`shapeOk`). -/
theorem C12_frame (w : World) (iv : Inv w) (i j : Nat) (y : HObj)
    (hy : w.live[j]? = some y) (ne : i ≠ j) (m : Mut) :
    (w.step (.mutate i m)).live[j]? = some y ∧
    snapshot (w.step (.mutate i m)).heap y = snapshot w.heap y ∧
    (snapshot (w.step (.mutate i m)).heap y).shapeOk = (snapshot w.heap y).shapeOk := by
  obtain ⟨a, b⟩ := frame_mutate iv hy ne m
  exact ⟨a, b, by rw [b]⟩

/-- **(b) Frame along every history.**  Whatever happens to the other objects — derivations from
    any object (including `y` itself), collection copies, `create`, in-place operations on any
    object other than `y` — `y` reports the same. -/
theorem C12_frame_history (w : World) (iv : Inv w) (j : Nat) (y : HObj) (hy : w.live[j]? = some y)
    (steps : List Step) (hno : ∀ i m, Step.mutate i m ∈ steps → i ≠ j) :
    (w.run steps).live[j]? = some y ∧ snapshot (w.run steps).heap y = snapshot w.heap y := by
  refine frame_run iv hy steps (fun s hs => ?_)
  cases s with
  | mutate i m => exact hno i m hs
  | derive i d => trivial
  | collCopy is => trivial

/-- **(c) Operations that are not in-place never modify their operands** (nor any other live
    object): after a derivation from `live[i]`, every live object `y` — the source included — is the
    same record of references and reports the same. -/
theorem C12_operands_unchanged (w : World) (iv : Inv w) (i j : Nat) (y : HObj) (hy : w.live[j]? = some y)
    (d : Deriv) :
    (w.step (.derive i d)).live[j]? = some y ∧
    snapshot (w.step (.derive i d)).heap y = snapshot w.heap y :=
  frame_derive iv hy d

/-- …the same for `HistogramCollection.copy()` -/
theorem C12_collCopy_unchanged (w : World) (iv : Inv w) (j : Nat) (y : HObj) (hy : w.live[j]? = some y)
    (is : List Nat) :
    (w.step (.collCopy is)).live[j]? = some y ∧
    snapshot (w.step (.collCopy is)).heap y = snapshot w.heap y :=
  frame_collCopy iv hy is

/-- **(d) Refinement, derivations.**  What the derived object reports is a function
    (`deriveSnap`, `Model/Heap.lean`) of what the source reports and of the derivation alone —
    no other part of the heap matters.  This is what justifies the value model of the other
    theorem files (a derivation there is a function from histogram values to histogram values). -/
theorem C12_refine_derive (h : Heap) (x : HObj) (w : WT h x) (d : Deriv) :
    snapshot (derive h x d).1 (derive h x d).2 = deriveSnap (snapshot h x) d :=
  derive_snap w d

/-- **(d) Refinement, in-place operations.**  What `x` reports after an in-place operation is a
    function (`mutateSnap`) of what it reported before — provided its own references are pairwise
    distinct (otherwise a write through one attribute would show through another). -/
theorem C12_refine_mutate (h : Heap) (x : HObj) (w : WT h x) (nd : x.refs.Nodup) (m : Mut) :
    snapshot (mutate h x m).1 (mutate h x m).2 = mutateSnap (snapshot h x) m :=
  mutate_snap w nd m

/-- `copy()` reports exactly what the original reports (bins, contents, missed, metadata,
    statistics, dtype, keep_missed); `copy(include_frequencies=False)` reports zero contents and
    missed counts of the same shapes, empty statistics, and the same bins, metadata and dtype -/
theorem C12_copy_reports (h : Heap) (x : HObj) (w : WT h x) :
    snapshot (derive h x (.copy true)).1 (derive h x (.copy true)).2 = snapshot h x ∧
    snapshot (derive h x (.copy false)).1 (derive h x (.copy false)).2 =
      { snapshot h x with freq := (snapshot h x).freq.map zerosLike, err2 := (snapshot h x).err2.map zerosLike,
                          missed := (snapshot h x).missed.map zerosLike,
                          stats := (snapshot h x).stats.map fun _ => some .empty } :=
  ⟨derive_snap w (.copy true), derive_snap w (.copy false)⟩

/-- the two refinements at the level of worlds: after a step, the new / updated live object reports
    the value-level image of what the source / target reported -/
theorem C12_refine_step (w : World) (iv : Inv w) (i : Nat) (x : HObj) (hx : w.live[i]? = some x) :
    (∀ d, ∃ x', (w.step (.derive i d)).live[w.live.length]? = some x' ∧
        snapshot (w.step (.derive i d)).heap x' = deriveSnap (snapshot w.heap x) d) ∧
    (∀ m, ∃ x', (w.step (.mutate i m)).live[i]? = some x' ∧
        snapshot (w.step (.mutate i m)).heap x' = mutateSnap (snapshot w.heap x) m) := by
  have wx := iv.wt x (List.mem_of_getElem? hx)
  have ilt : i < w.live.length := (List.getElem?_eq_some_iff.mp hx).1
  refine ⟨fun d => ⟨(derive w.heap x d).2, ?_, ?_⟩, fun m => ⟨(mutate w.heap x m).2, ?_, ?_⟩⟩
  · simp [World.step, hx]
  · simp only [World.step, hx]; exact derive_snap wx d
  · simp only [World.step, hx]; simp [ilt]
  · simp only [World.step, hx]; exact mutate_snap wx (iv.sep.own x (List.mem_of_getElem? hx)) m

/-- **`sepB` is sound** (it also checks well-typedness): a driver can evaluate it on the object
    graph observed at run time. -/
theorem C12_sepB_sound (h : Heap) (live : List HObj) (e : sepB h live = true) :
    (∀ x ∈ live, WT h x) ∧ Sep live := sepB_sound e

/-! ## Non-vacuity: a concrete history

A 2-d histogram `H`: axis 0 an adaptive fixed-width binning (2 cells of width 1 from 0), axis 1 a
`StaticBinning` with 3 bins; then

  `p = H.projection(0)`; `s = H[:, 1:3]`; `H.fill((-0.5, 1.5))` (axis 0 grows to 4 cells in place);
  `p *= 2`; `q = p[0:1]`; `H.T`; `p' = p.copy()`; `c = HistogramCollection(p, p').copy()` (two 1-d
  members, objects 6 and 7); `r = c.create("r", […])` (object 8); `c[0].fill(-0.5)` (the adaptive binning of
  member 6 grows — its OWN binning object, after fix 10ef3a5). -/

def exHeap : Heap :=
  [.stats .invalid, .binning (.grid 1 0 0 2 true false), .buf [(0, 1), (1, 2), (2, 3)],
   .binning (.arr false 2 0 3 true), .arr [1, 2, 3, 4, 5, 6], .arr [1, 2, 3, 4, 5, 6], .arr [0],
   .dict [("name", "H")]]

def exH : HObj :=
  { binnings := [1, 3], freq := 4, err2 := 5, missed := 6, md := 7, stats := none, dtype := 0, keep := true }

def exW : World := { heap := exHeap, live := [exH] }

def exSteps : List Step :=
  [.derive 0 (.reduce [0] [6, 15] [6, 15] [("name", "H")] 0),                    -- 1: p = H.projection(0)
   .derive 0 (.selectSlice 1 1 2 [2, 3, 5, 6] [2, 3, 5, 6]),                      -- 2: s = H[:, 1:3]
   .mutate 0 (.fill { grow := [(0, -1, 4)], reshape := true,
                      freq := [0, 1, 0, 1, 2, 3, 4, 5, 6, 0, 0, 0],
                      err2 := [0, 1, 0, 1, 2, 3, 4, 5, 6, 0, 0, 0], missed := [0] }),  -- H.fill((-0.5, 1.5))
   .mutate 1 (.scale { freq := [12, 30], err2 := [24, 60], missed := [0, 0, 0], missedInPlace := false,
                       stats := some .invalid }),                                 -- p *= 2
   .derive 1 (.getitem1 (.slice 0 1) [12] [24] [0, 30, 0] [("name", "H")] true),  -- 3: q = p[0:1]
   .derive 0 (.transpose [("name", "H")] [0, 1, 4, 0, 0, 2, 5, 0, 1, 3, 6, 0] [0, 1, 4, 0, 0, 2, 5, 0, 1, 3, 6, 0]),  -- 4: H.T
   .derive 1 (.copy true),                                                         -- 5: p.copy()
   .collCopy [1, 5],                                                               -- 6, 7: HistogramCollection(p, p').copy()
   .derive 6 (.create 2 [("name", "r")] 0 { freq := [1, 1], err2 := [1, 1], missed := [0, 0, 0],
                                             stats := some (.vals [2]) }),        -- 8: c.create("r", [0.5, 1.5])
   .mutate 6 (.fill { grow := [(0, -1, 3)], reshape := true, freq := [1, 12, 30], err2 := [1, 24, 60],
                      missed := [0, 0, 0], stats := some (.vals [1]) })]           -- c[0].fill(-0.5)

example : Inv exW := invB_sound (by decide +kernel)

/-- the invariant at the end of the history, by the theorem … -/
example : Inv (exW.run exSteps) := C12_sep_history exW (invB_sound (by decide +kernel)) exSteps

/-- … and, independently, by running the executable check on the final world (9 live objects) -/
example : (exW.run exSteps).live.length = 9 ∧ invB (exW.run exSteps) = true := by decide +kernel

/-- the world after the two derivations, before `H.fill` -/
def exW2 : World := exW.run (exSteps.take 2)

/-- the projection `p` (object 1) reports after `H.fill` (which grew H's axis-0 binning in place)
    exactly what it reported before: instance of the frame theorem -/
example : snapshot (exW2.step (exSteps[2])).heap exW2.live[1]! = snapshot exW2.heap exW2.live[1]! := by
  have iv : Inv exW2 := C12_sep_history exW (invB_sound (by decide +kernel)) _
  exact (C12_frame exW2 iv 0 1 exW2.live[1]! (by decide +kernel) (by decide) _).2.1

/-- the frame is not vacuous: the same `fill` DID change what `H` itself reports (axis 0 has 4 cells now) -/
example :
    (snapshot (exW.run (exSteps.take 3)).heap ((exW.run (exSteps.take 3)).live[0]!)).bins[0]? =
      some (some (.grid 1 0 (-1) 4 true false)) ∧
    (snapshot (exW.run (exSteps.take 2)).heap ((exW.run (exSteps.take 2)).live[0]!)).bins[0]? =
      some (some (.grid 1 0 0 2 true false)) := by decide +kernel

/-- every object is shape-well-formed at the end -/
example : ((exW.run exSteps).live.map fun x => (snapshot (exW.run exSteps).heap x).shapeOk) =
    [true, true, true, true, true, true, true, true, true] := by decide +kernel

/-- refinement on the example: the slice `s = H[:, 1:3]` (object 2) reports the value-level image of what
    `H` reported, namely axis 0 unchanged, axis 1 the static bins `[1,2), [2,3)`, the new contents -/
example :
    snapshot exW2.heap exW2.live[2]! = deriveSnap (snapshot exW.heap exH) (.selectSlice 1 1 2 [2, 3, 5, 6] [2, 3, 5, 6]) ∧
    deriveSnap (snapshot exW.heap exH) (.selectSlice 1 1 2 [2, 3, 5, 6] [2, 3, 5, 6]) =
      { bins := [some (.grid 1 0 0 2 true false), some (.arr false [(1, 2), (2, 3)] true)],
        freq := some [2, 3, 5, 6], err2 := some [2, 3, 5, 6], missed := some [0], md := some [("name", "H")],
        stats := none, dtype := 0, keep := true } := by
  refine ⟨?_, by decide +kernel⟩
  have iv : Inv (exW.run (exSteps.take 1)) := C12_sep_history exW (invB_sound (by decide +kernel)) _
  have hH : (exW.run (exSteps.take 1)).live[0]? = some exH := by decide +kernel
  have := C12_refine_derive (exW.run (exSteps.take 1)).heap exH (iv.wt exH (List.mem_of_getElem? hH))
    (.selectSlice 1 1 2 [2, 3, 5, 6] [2, 3, 5, 6])
  have e2 : snapshot (exW.run (exSteps.take 1)).heap exH = snapshot exW.heap exH :=
    (C12_operands_unchanged exW (invB_sound (by decide +kernel)) 0 0 exH (by decide +kernel) _).2
  rw [e2] at this
  rw [← this]
  decide +kernel

/-- the last step, `c[0].fill(-0.5)` on member 6 of the copied collection, DID change what member 6
    reports (3 cells now) and left its sibling 7 and the created member 8 exactly as they were:
    instances of the frame theorem for members of one collection -/
example :
    let w₀ := exW.run (exSteps.take 9)
    let w₁ := w₀.step (exSteps[9])
    (snapshot w₁.heap w₁.live[6]!).bins = [some (.grid 1 0 (-1) 3 true false)] ∧
    (snapshot w₀.heap w₀.live[6]!).bins = [some (.grid 1 0 0 2 true false)] ∧
    snapshot w₁.heap w₀.live[7]! = snapshot w₀.heap w₀.live[7]! ∧
    snapshot w₁.heap w₀.live[8]! = snapshot w₀.heap w₀.live[8]! := by
  intro w₀ w₁
  have iv : Inv w₀ := C12_sep_history exW (invB_sound (by decide +kernel)) _
  refine ⟨by decide +kernel, by decide +kernel, ?_, ?_⟩
  · exact (C12_frame w₀ iv 6 7 w₀.live[7]! (by decide +kernel) (by decide) _).2.1
  · exact (C12_frame w₀ iv 6 8 w₀.live[8]! (by decide +kernel) (by decide) _).2.1

/-- `sharing` at the end: `H` and its slice `s` share only the (immutable) edge buffer of the sliced
    static axis; the slice `q` of `p` and `p` share only `INVALID_STATISTICS`; `p` and its copy, the two
    members of the copied collection, and a member and the created histogram share nothing -/
example :
    sharing (exW.run exSteps).heap (exW.run exSteps).live[0]! (exW.run exSteps).live[2]! =
      [("binnings[1]._bins", "binnings[1]._bins")] ∧
    sharing (exW.run exSteps).heap (exW.run exSteps).live[1]! (exW.run exSteps).live[3]! =
      [("stats", "stats")] ∧
    sharing (exW.run exSteps).heap (exW.run exSteps).live[1]! (exW.run exSteps).live[5]! = [] ∧
    sharing (exW.run exSteps).heap (exW.run exSteps).live[6]! (exW.run exSteps).live[7]! = [] ∧
    sharing (exW.run exSteps).heap (exW.run exSteps).live[6]! (exW.run exSteps).live[8]! = [] := by
  decide +kernel

/-! ## Before fix 10ef3a5: members of a copied collection were not independent

`HistogramCollection.copy()` re-pointed every copied member to ONE `binning_copy`
(`collCopyShared`; histogram_collection.py:66-69 before the fix).  With an adaptive binning,
`c2[0].fill(v)` made `force_bin_existence` rewrite that shared object in place and reshaped only
`c2[0]`'s arrays: the sibling `c2[1]` then reported 4 bins with 2 contents.  Python (before the fix):

    a = h1([0.5, 1.5], "fixed_width", bin_width=1, adaptive=True); b = a.copy()
    c2 = HistogramCollection(a, b).copy()
    c2[0].fill(-0.5)          # c2[1].binning.bin_count == 3, c2[1].frequencies.shape == (2,)
    c2[1].densities           # ValueError: operands could not be broadcast together
-/

def fillMember : Step :=
  .mutate 5 (.fill { grow := [(0, -1, 4)], reshape := true, freq := [1, 12, 30, 0], err2 := [1, 24, 60, 0],
                     missed := [0, 0, 0], stats := some (.vals [1]) })

/-- kernel-checked witness on the OLD variant: the world is separated before the collection copy, the
    old copy breaks separation (`sepB` fails: members 5 and 6 share `binnings[0]`), and after the fill on
    member 5 the sibling 6 — the same record of references — reports different bins and is no longer
    shape-well-formed -/
theorem C12_collection_members_not_independent_before_fix :
    let w := (exW.run (exSteps.take 5)).step (.derive 1 (.copy true))
    let w₀ := w.stepShared [1, 4]
    let w₁ := w₀.step fillMember
    invB w = true ∧ invB w₀ = false ∧
    sharing w₀.heap w₀.live[5]! w₀.live[6]! = [("binnings[0]", "binnings[0]")] ∧
    w₁.live[6]! = w₀.live[6]! ∧
    snapshot w₁.heap w₁.live[6]! ≠ snapshot w₀.heap w₀.live[6]! ∧
    (snapshot w₀.heap w₀.live[6]!).shapeOk = true ∧
    (snapshot w₁.heap w₁.live[6]!).shapeOk = false := by
  decide +kernel

/-- the same history on the CURRENT code: separation holds throughout and the sibling is untouched -/
theorem C12_collection_members_independent_after_fix :
    let w := (exW.run (exSteps.take 5)).step (.derive 1 (.copy true))
    let w₀ := w.step (.collCopy [1, 4])
    let w₁ := w₀.step fillMember
    invB w₀ = true ∧ invB w₁ = true ∧
    sharing w₀.heap w₀.live[5]! w₀.live[6]! = [] ∧
    snapshot w₁.heap w₁.live[6]! = snapshot w₀.heap w₀.live[6]! ∧
    (snapshot w₁.heap w₁.live[6]!).shapeOk = true := by
  decide +kernel

end Hp
end Physt

import Physt.Proofs.ArrayLaws
/-!
# C09 (continued) — totals, projecting in steps, accumulate ends at the marginal

`Theorems/C09.lean` states the marginal index-wise.  Here: the consequences the property names —
the projection has the parent's total; projecting in steps equals projecting once; the last
cumulative entry is the marginal.  Helper lemmas: `Proofs/ArrayLaws.lean` (an extensionality
principle for well-shaped arrays, `sum_allIdx_split`, …).  `WellShaped a` = the flat data has
`prod shape` entries (what numpy guarantees).
-/
namespace Physt

/-- summing over one axis keeps the total -/
theorem C09_total_axis (a : Arr) (hw : a.WellShaped) (axis : Nat) (hax : axis < a.shape.length) :
    (a.sumAxis axis).total = a.total :=
  Arr.total_sumAxis a hw axis hax

/-- **The projection's total equals the parent's total** (contents and squared errors). -/
theorem C09_total (h r : HN) (axes : List (Sum Int String))
    (hf : h.freq.WellShaped) (he : h.err2.WellShaped)
    (hfs : h.freq.shape.length = h.axes.length) (hes : h.err2.shape.length = h.axes.length)
    (hr : h.projection axes = .ok r) : r.freq.total = h.freq.total ∧ r.err2.total = h.err2.total :=
  HN.projection_total h r axes hf he hfs hes hr

/-- summing over two axes in either order gives the same array -/
theorem C09_sum_comm (a : Arr) (i j : Nat) (hij : i < j) (hj : j < a.shape.length) :
    (a.sumAxis j).sumAxis i = (a.sumAxis i).sumAxis (j - 1) :=
  Arr.sumAxis_comm' a i j hij hj

/-- **Projecting in steps equals projecting once onto the final axes — the whole histogram**: if the
    resolved positions `ax` of the one-step request are the composition of those of the two steps
    (`ax2` being positions in the intermediate result), the results are equal: bins and names in
    the same order, contents, squared errors, missed, dtype, flags. -/
theorem C09_steps (h r1 r2 r : HN) (axes1 axes2 axes : List (Sum Int String))
    (hfs : h.axes.length ≤ h.freq.shape.length) (hes : h.axes.length ≤ h.err2.shape.length)
    (hns : h.axes.length ≤ h.names.length)
    (h1 : h.projection axes1 = .ok r1) (h2 : r1.projection axes2 = .ok r2) (h3 : h.projection axes = .ok r) :
    ∃ ax1 ax2 ax, axes1.mapM h.getAxis = .ok ax1 ∧ axes2.mapM r1.getAxis = .ok ax2 ∧ axes.mapM h.getAxis = .ok ax ∧
      ((∀ i, i < h.axes.length →
          ax.contains i = composeKeep (fun i => ax1.contains i) (fun i => ax2.contains i) i) → r = r2) :=
  HN.projection_steps_eq h r1 r2 r axes1 axes2 axes hfs hes hns h1 h2 h3

/-- **accumulate ends at the marginal**: along the accumulated axis the last cumulative entry is the
    sum over that axis (for a 1-D histogram: `cumulative_frequencies[-1] == total`, C16). -/
theorem C09_accumulate_last (a : Arr) (axis : Nat) (js : List Nat) (hax : axis < a.shape.length)
    (hv : validIdx (Arr.removeAt a.shape axis) js = true) :
    (a.cumsum axis).get (insAt js axis (a.shape[axis]?.getD 0 - 1)) = (a.sumAxis axis).get js :=
  Arr.cumsum_last a axis js hax hv

/-- accumulate leaves the shape (hence the other axes) alone -/
theorem C09_accumulate_shape (a : Arr) (axis : Nat) : (a.cumsum axis).shape = a.shape :=
  Arr.shape_cumsum a axis

/-! Non-vacuity -/
example : ({ shape := [2, 3], data := [1, 2, 3, 4, 5, 6] } : Arr).WellShaped ∧
    (({ shape := [2, 3], data := [1, 2, 3, 4, 5, 6] } : Arr).sumAxis 1).total = 21 ∧
    ((({ shape := [2, 3], data := [1, 2, 3, 4, 5, 6] } : Arr).cumsum 1).get [1, 2]) = 15 := by decide +kernel

end Physt

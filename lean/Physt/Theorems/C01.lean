import Physt.Proofs.Account1D
/-!
# C01 — 1D construction: each value counted once, in the bin that contains it

Property theorems only (helper lemmas live in `Physt/Proofs`).  `calc1d` is the model of
`calculate_1d_frequencies` (sort + `searchsorted` slices); the theorems show that it refines the
abstract spec, for every data list and every rising binning, with no bound on sizes.
-/
namespace Physt

/-- **Content and errors.** For every rising binning and every data list, the content of bin `i`
    is the sum of the weights of the values `v` with `left ≤ v < right` (last bin: `≤ right`),
    and its squared error is the sum of the squared weights. -/
theorem C01_content (bins : Bins) (data : List Pt) (hb : Rising bins) (i : Nat)
    (hi : i < bins.length) :
    (calc1d bins data).freq[i]? = some (wsum (data.filter fun p => inBin bins true i p.1)) ∧
    (calc1d bins data).err2[i]? = some (w2sum (data.filter fun p => inBin bins true i p.1)) := by
  obtain ⟨⟨l, r⟩, hget⟩ : ∃ b, bins[i]? = some b := ⟨bins[i], List.getElem?_eq_getElem hi⟩
  have hlt : l < r := hb.lt (l, r) (List.mem_of_getElem? hget)
  have hs := sortPts_sorted data
  have hpred : (fun p : Pt => inBin bins true i p.1) = fun p : Pt =>
      decide (l ≤ p.1) && (if i + 1 = bins.length then decide (p.1 ≤ r) else decide (p.1 < r)) := by
    funext p; exact inBin_eq bins i l r hget p.1
  have hcell : (sweepAux (sortPts data) bins.length 0 bins)[i]?
      = some ((sortPts data).filter fun p => inBin bins true i p.1) := by
    rw [sweepAux_getElem?, hget, hpred]
    simp only [Option.map_some, Nat.zero_add]
    rw [binSlice_eq_filter _ hs _ _ (l, r) hlt]
  constructor
  · simp only [calc1d, List.getElem?_map, hcell, Option.map_some]
    rw [wsum_filter_sort]
  · simp only [calc1d, List.getElem?_map, hcell, Option.map_some]
    rw [w2sum_filter_sort]

/-- The histogram has exactly one content and one error per bin. -/
theorem C01_shape (bins : Bins) (data : List Pt) :
    (calc1d bins data).freq.length = bins.length ∧ (calc1d bins data).err2.length = bins.length := by
  simp [calc1d, sweepAux_length]

/-- **Counted once.** In a rising binning a value lies in at most one bin. -/
theorem C01_once (bins : Bins) (hb : Rising bins) (v : Rat) (i j : Nat)
    (hi : inBin bins true i v = true) (hj : inBin bins true j v = true) : i = j := by
  -- wlog i ≤ j, by symmetry of the statement
  have key : ∀ i j : Nat, i < j → inBin bins true i v = true → inBin bins true j v = true → False := by
    intro i j hij hi hj
    unfold inBin at hi hj
    cases hgi : bins[i]? with
    | none => simp [hgi] at hi
    | some bi =>
      cases hgj : bins[j]? with
      | none => simp [hgj] at hj
      | some bj =>
        obtain ⟨li, ri⟩ := bi; obtain ⟨lj, rj⟩ := bj
        simp only [hgi, hgj, Bool.and_eq_true, Bool.or_eq_true, decide_eq_true_eq,
          beq_iff_eq] at hi hj
        have hjlen : j < bins.length := by
          rcases List.getElem?_eq_some_iff.mp hgj with ⟨h, _⟩; exact h
        have hilen : i < bins.length := lt_trans hij hjlen
        have hpw := List.pairwise_iff_getElem.mp hb.pairwise i j hilen hjlen hij
        have e1 : bins[i] = (li, ri) := by
          rcases List.getElem?_eq_some_iff.mp hgi with ⟨_, h⟩; exact h
        have e2 : bins[j] = (lj, rj) := by
          rcases List.getElem?_eq_some_iff.mp hgj with ⟨_, h⟩; exact h
        rw [e1, e2] at hpw
        simp only at hpw
        rcases hi.2 with h | h
        · linarith [hj.1]
        · have : i + 1 = bins.length := h.1.2
          omega
  rcases Nat.lt_trichotomy i j with h | h | h
  · exact (key i j h hi hj).elim
  · exact h
  · exact (key j i h hj hi).elim

/-- **Underflow / overflow** for consecutive bins: exactly the weight below the first and above
    the last edge. -/
theorem C01_under_over (bins : Bins) (data : List Pt) (hc : consecutiveB bins = true)
    (b0 bl : Bin) (h0 : bins.head? = some b0) (hl : bins.getLast? = some bl) :
    (calc1d bins data).under = some (wsum (data.filter fun p => decide (p.1 < b0.1))) ∧
    (calc1d bins data).over = some (wsum (data.filter fun p => decide (bl.2 < p.1))) := by
  have hs := sortPts_sorted data
  have h1 := takeWhile_drop_of_downClosed _ (downClosed_lt b0.1) _ hs
  have h2 := takeWhile_drop_of_downClosed _ (downClosed_le bl.2) _ hs
  constructor
  · simp only [calc1d, hc, if_true, h0, ssLeft]
    rw [take_length_takeWhile, h1.1, wsum_filter_sort]
  · simp only [calc1d, hc, if_true, hl, ssRight]
    rw [h2.2, wsum_filter_sort]
    have hq : (fun x : Pt => !decide (x.1 ≤ bl.2)) = fun p : Pt => decide (bl.2 < p.1) := by
      funext p
      by_cases h : p.1 ≤ bl.2
      · simp [h, not_lt.mpr h]
      · simp [h, not_le.mp h]
    rw [hq]

/-- **Gaps.** With non-consecutive bins underflow and overflow read as unknown (NaN); by
    `C01_content` a value lying in a gap satisfies no `inBin` and is counted in no bin. -/
theorem C01_gaps (bins : Bins) (data : List Pt) (hc : consecutiveB bins = false) :
    (calc1d bins data).under = none ∧ (calc1d bins data).over = none := by
  simp [calc1d, hc]

/-- **Accounting.** For consecutive rising bins `total + underflow + overflow` is the total
    input weight: nothing is lost and nothing is counted twice. -/
theorem C01_accounting (bins : Bins) (data : List Pt) (hne : bins ≠ []) (hb : Rising bins)
    (hc : consecutiveB bins = true) :
    ∃ u o, (calc1d bins data).under = some u ∧ (calc1d bins data).over = some o ∧
      (calc1d bins data).freq.sum + u + o = wsum data := by
  obtain ⟨b, bs, rfl⟩ : ∃ b bs, bins = b :: bs := by
    cases bins with
    | nil => exact (hne rfl).elim
    | cons b bs => exact ⟨b, bs, rfl⟩
  have hC : Consecutive (b :: bs) := (consecutiveB_iff _).mp hc
  have hsum := sweep_sum_consecutive (sortPts data) (b :: bs).length b bs 0 (by simp) hb hC
  have hlast : (b :: bs).getLast? = some ((b :: bs).getLast (by simp)) := List.getLast?_eq_some_getLast _
  refine ⟨wsum ((sortPts data).take (ssLeft (sortPts data) b.1)),
    wsum ((sortPts data).drop (ssRight (sortPts data) ((b :: bs).getLast (by simp)).2)), ?_, ?_, ?_⟩
  · simp [calc1d, hc]
  · simp only [calc1d, hc, if_true, hlast]
  · have htot : wsum (sortPts data) = wsum data := wsum_perm (sortPts_perm data)
    have hsplit : ∀ k, wsum ((sortPts data).take k) + wsum ((sortPts data).drop k) = wsum (sortPts data) := by
      intro k; rw [← wsum_append, List.take_append_drop]
    have h3 := hsplit (ssRight (sortPts data) ((b :: bs).getLast (by simp)).2)
    simp only [calc1d]
    rw [hsum]
    linarith

/-- **NaN handling (no weights).** The entries kept are exactly the non-NaN ones, each with
    weight 1. -/
theorem C01_nan_unweighted (vs : List (Option Rat)) :
    maskPts vs none = (vs.filterMap id).map fun v => (v, 1) := by
  induction vs with
  | nil => simp [maskPts]
  | cons v vs ih => cases v <;> simp [maskPts, ih]

/-- **NaN handling (weights).** A NaN entry is dropped *together with its weight*: the pairs
    kept are exactly the pairs of the zipped input whose value is not NaN. -/
theorem C01_nan_weighted (vs : List (Option Rat)) (ws : List Rat) (h : ws.length = vs.length) :
    maskPts vs (some ws) = (vs.zip ws).filterMap fun vw => vw.1.map fun v => (v, vw.2) := by
  induction vs generalizing ws with
  | nil => simp [maskPts]
  | cons v vs ih =>
    cases ws with
    | nil => simp at h
    | cons w ws =>
      have h' : ws.length = vs.length := by simpa using h
      cases v <;> simp [maskPts, ih ws h']

/-- **Shape / order independence.** The histogram depends only on the multiset of
    (value, weight) pairs: any flattening order of a multi-dimensional input gives the same
    contents, errors, underflow and overflow. -/
theorem C01_flatten (bins : Bins) (data data' : List Pt) (hb : Rising bins)
    (hp : data.Perm data') : calc1d bins data = calc1d bins data' := by
  have hf : (calc1d bins data).freq = (calc1d bins data').freq := by
    apply List.ext_getElem?
    intro i
    by_cases hi : i < bins.length
    · rw [(C01_content bins data hb i hi).1, (C01_content bins data' hb i hi).1]
      congr 1; exact wsum_perm (hp.filter _)
    · have h1 := (C01_shape bins data).1
      have h2 := (C01_shape bins data').1
      rw [List.getElem?_eq_none (by omega), List.getElem?_eq_none (by omega)]
  have he : (calc1d bins data).err2 = (calc1d bins data').err2 := by
    apply List.ext_getElem?
    intro i
    by_cases hi : i < bins.length
    · rw [(C01_content bins data hb i hi).2, (C01_content bins data' hb i hi).2]
      congr 1; exact w2sum_perm (hp.filter _)
    · have h1 := (C01_shape bins data).2
      have h2 := (C01_shape bins data').2
      rw [List.getElem?_eq_none (by omega), List.getElem?_eq_none (by omega)]
  have hempty : data.isEmpty = data'.isEmpty := by
    cases data with
    | nil => have := hp.length_eq; cases data' with
      | nil => rfl
      | cons _ _ => simp at this
    | cons a as => have := hp.length_eq; cases data' with
      | nil => simp at this
      | cons _ _ => rfl
  have hu : (calc1d bins data).under = (calc1d bins data').under ∧
      (calc1d bins data).over = (calc1d bins data').over := by
    by_cases hc : consecutiveB bins = true
    · cases h0 : bins.head? with
      | none =>
        have : bins = [] := by cases bins <;> simp_all
        subst this
        simp [calc1d, consecutiveB, hempty]
      | some b0 =>
        have hne : bins ≠ [] := by intro h; subst h; simp at h0
        have hl : bins.getLast? = some (bins.getLast hne) := List.getLast?_eq_some_getLast _
        have a := C01_under_over bins data hc b0 _ h0 hl
        have a' := C01_under_over bins data' hc b0 _ h0 hl
        rw [a.1, a.2, a'.1, a'.2]
        exact ⟨by congr 1; exact wsum_perm (hp.filter _), by congr 1; exact wsum_perm (hp.filter _)⟩
    · have hc' : consecutiveB bins = false := by simpa using hc
      rw [(C01_gaps bins data hc').1, (C01_gaps bins data hc').2, (C01_gaps bins data' hc').1,
        (C01_gaps bins data' hc').2]
      exact ⟨rfl, rfl⟩
  cases h1 : calc1d bins data; cases h2 : calc1d bins data'
  simp only [h1, h2] at hf he hu
  simp [hf, he, hu.1, hu.2]

/-! Non-vacuity: a gapped, irregular binning with values on edges, in the gap and outside
    satisfies the hypotheses, and the model computes what the statement says. -/
example : Rising [(0, 1), (2, 3), (3, 11 / 2)] ∧ consecutiveB [(0, 1), (2, 3), (3, 11 / 2)] = false :=
  ⟨(risingB_iff _).mp (by decide +kernel), by decide +kernel⟩
example :
    calc1d [(0, 1), (2, 3), (3, 11 / 2)]
      [(1 / 2, 1), (1, 1), (2, 3), (3, 2), (11 / 2, 1 / 2), (-1, 1), (6, 1)]
      = { freq := [1, 3, 5 / 2], err2 := [1, 9, 17 / 4], under := none, over := none } := by
  decide +kernel
example : Rising [(0, 1), (1, 3)] ∧ consecutiveB [(0, 1), (1, 3)] = true ∧ [(0, 1), (1, 3)] ≠ ([] : Bins) :=
  ⟨(risingB_iff _).mp (by decide +kernel), by decide +kernel, by simp⟩

end Physt

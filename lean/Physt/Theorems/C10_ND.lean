import Physt.Proofs.ArrayLaws
/-!
# C10 (continued) — the merged bins' edges; merge_bins on one axis of an N-d histogram

Helper lemmas: `Proofs/ArrayLaws.lean`.  `mergedBins bins amount` is the list whose bin `j` reaches
from the left edge of old bin `j·amount` to the right edge of old bin `min((j+1)·amount, n) − 1`;
`RunsMeet bins amount` says no run has a gap inside (gaps *between* runs are allowed) — exactly
the condition under which the merge is accepted.
-/
namespace Physt

/-- **Each run becomes one bin from its first left edge to its last right edge**, and there are
    `⌈n / amount⌉` of them (the last run may be shorter). -/
theorem C10_merged_edges (bins : Bins) (amount : Nat) (ha : 0 < amount) (hc : RunsMeet bins amount) :
    H1.mergeBinsAux (bins.zip (H1.amountMap bins.length amount)) none = .ok (mergedBins bins amount) ∧
    (mergedBins bins amount).length = (bins.length + amount - 1) / amount ∧
    ∀ j, j < (bins.length + amount - 1) / amount →
      (mergedBins bins amount)[j]? =
        some ((binAt bins (j * amount)).1, (binAt bins (min ((j + 1) * amount) bins.length - 1)).2) :=
  ⟨mergeBinsAux_amount bins amount ha hc, mergedBins_length bins amount, fun j hj => mergedBins_getElem? bins amount j hj⟩

/-- **`merge_bins(amount)` of a 1-D histogram** with at least one bin (a histogram without bins is
    refused: physt takes `max()` of an empty bin map): accepted; new bins as above; contents and squared
    errors are the run sums and keep their totals. -/
theorem C10_merge_1d (fo : FloatOps) (h : H1) (amount : Nat) (ha : 0 < amount) (hpos : 0 < h.freq.length)
    (hlen : h.freq.length = (h.bins fo).length) (hc : RunsMeet (h.bins fo) amount) :
    ∃ r, h.mergeAmount fo amount = .ok r ∧ r.bins fo = mergedBins (h.bins fo) amount ∧
      (r.bins fo).length = (h.freq.length + amount - 1) / amount ∧
      r.freq = H1.mergeVals h.freq (H1.amountMap h.freq.length amount) ((h.freq.length + amount - 1) / amount) ∧
      r.err2 = H1.mergeVals h.err2 (H1.amountMap h.freq.length amount) ((h.freq.length + amount - 1) / amount) ∧
      r.freq.sum = h.freq.sum ∧ (h.err2.length = h.freq.length → r.err2.sum = h.err2.sum) :=
  H1.mergeAmount_spec fo h amount ha hpos hlen hc

/-- **`merge_bins(amount, axis)` of an N-d histogram**: the chosen axis gets the merged bins; the
    other axes, their shape entries, the names and the missed count are unchanged; contents and
    squared errors are gathered run by run along that axis and keep their totals. -/
theorem C10_merge_nd (fo : FloatOps) (h : HN) (axis amount : Nat) (thr : Option Rat) (bn : Binning) (ha : 0 < amount)
    (hbn : h.axes[axis]? = some bn) (hpos : 0 < (bn.bins fo).length)
    (hn : h.freq.shape[axis]?.getD 0 = (bn.bins fo).length) (hc : RunsMeet (bn.bins fo) amount) :
    ∃ r ire, h.mergeAxis fo axis (some amount) thr = .ok r ∧
      r.axes = h.axes.set axis (.static (mergedBins (bn.bins fo) amount) ire) ∧
      r.freq = h.freq.mergeAxis axis (H1.amountMap (bn.bins fo).length amount) (((bn.bins fo).length + amount - 1) / amount) ∧
      r.err2 = h.err2.mergeAxis axis (H1.amountMap (bn.bins fo).length amount) (((bn.bins fo).length + amount - 1) / amount) ∧
      r.freq.shape = Arr.setAt h.freq.shape axis (((bn.bins fo).length + amount - 1) / amount) ∧
      r.missed = h.missed ∧ r.names = h.names ∧
      (h.freq.WellShaped → axis < h.freq.shape.length → r.freq.total = h.freq.total) ∧
      (h.err2.WellShaped → h.err2.shape = h.freq.shape → axis < h.freq.shape.length → r.err2.total = h.err2.total) :=
  HN.mergeAxis_amount fo h axis amount thr bn ha hbn hpos hn hc

/-- any regrouping along an axis in which every old bin lands in exactly one new bin keeps the total
    (merging by amount or by min_frequency, adaptive growth) -/
theorem C10_regroup_total (a : Arr) (hw : a.WellShaped) (axis newN : Nat) (src : Nat → List Nat)
    (hax : axis < a.shape.length)
    (hsrc : ∀ k, k < a.shape[axis]?.getD 0 → ((List.range newN).flatMap src).count k = 1) :
    (a.gather axis newN src).total = a.total ∧ (a.gather axis newN src).shape = Arr.setAt a.shape axis newN :=
  ⟨Arr.total_gather a hw axis newN src hax hsrc, Arr.shape_gather a axis newN src⟩

/-! Non-vacuity: five bins with a gap between the runs, merged in twos -/
example : RunsMeet [(0, 1), (1, 2), (5 / 2, 3), (3, 4), (4, 5)] 2 ∧
    mergedBins [(0, 1), (1, 2), (5 / 2, 3), (3, 4), (4, 5)] 2 = [(0, 2), (5 / 2, 4), (4, 5)] := by
  constructor
  · intro k hk he
    have hk4 : k < 4 := by simp at hk; omega
    match k, hk4, he with
    | 0, _, _ => decide +kernel
    | 1, _, he => exact absurd he (by decide)
    | 2, _, _ => decide +kernel
    | 3, _, he => exact absurd he (by decide)
  · decide +kernel

end Physt

import Physt.Theorems.C01
namespace Physt
theorem C13_placeholder : True := trivial
end Physt

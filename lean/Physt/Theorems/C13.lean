import Physt.Proofs.Ops
import Mathlib.Algebra.Order.Ring.Rat
import Mathlib.Tactic.Linarith
import Physt.Model.HistND
/-!
# C13 — content dtype is consistent and never loses information

In the model a histogram has *one* dtype field that stands for the declared dtype and the element
type of `frequencies` and `errors2` alike; that the implementation keeps the three equal is
checked on every step of every generated history (the correspondence's `_freq_dtype` /
`_err2_dtype` facts).  The theorems are about the rules by which that dtype moves.  The two 7×7
tables are finite: `decide` over all pairs *is* the proof.
-/
namespace Physt
open DType

/-- promotion is commutative, idempotent and associative on the seven dtypes -/
theorem C13_promote_algebra :
    (∀ a ∈ DType.all, ∀ b ∈ DType.all, promote a b = promote b a) ∧
    (∀ a ∈ DType.all, promote a a = a) ∧
    (∀ a ∈ DType.all, ∀ b ∈ DType.all, ∀ c ∈ DType.all, promote (promote a b) c = promote a (promote b c)) := by
  decide

theorem DType.mem_all (d : DType) : d ∈ DType.all := by cases d <;> simp [DType.all]

/-- **Implicit conversions are lossless**: both operands of a promotion can be cast safely to the
    result (numpy `can_cast`, "safe"), so no value is truncated or wrapped by an implicit change. -/
theorem C13_lossless (a b : DType) : canCast a (promote a b) = true ∧ canCast b (promote a b) = true := by
  cases a <;> cases b <;> decide

/-- safe castability is reflexive and transitive; a float never casts safely to an integer -/
theorem C13_cancast (a b c : DType) :
    canCast a a = true ∧ (canCast a b = true → canCast b c = true → canCast a c = true) ∧
    (a.isInt = false → b.isInt = true → canCast a b = false) := by
  cases a <;> cases b <;> cases c <;> decide

/-- **Unweighted counting stays integral**: `fill` with the default (python int) weight and
    `fill_n` without weights keep an integer histogram in an integer type. -/
theorem C13_counting (d : DType) (h : d.isInt = true) :
    (promote d (H1.NumKind.pyInt).dtype).isInt = true := by
  cases d <;> simp_all [H1.NumKind.dtype, promote, isInt, rank]

/-- **Float weights, float factors, division and normalisation promote to float**, never truncate. -/
theorem C13_float_promotes (d f : DType) (hf : f.isInt = false) : (promote d f).isInt = false := by
  cases d <;> cases f <;> simp_all [promote, promote.promoteIF, isInt, rank]

theorem adapt_dtype (fo : FloatOps) (fuel : Nat) (x : H1) (vs : List Rat) (single : Bool) :
    (x.adapt fo fuel vs single).dtype = x.dtype := by
  unfold H1.adapt
  cases x.binning with
  | static b i => rfl
  | fixed g => by_cases hg : g.adaptive = true <;> simp [hg]

theorem C13_fill_dtype (fo : FloatOps) (fuel : Nat) (h : H1) (v : Rat) (w : Rat) (k : H1.NumKind) :
    (h.fill fo fuel (some v) w k).1.dtype = promote h.dtype k.dtype := by
  unfold H1.fill
  simp only
  have hd : ((h.coerce k.dtype).adapt fo fuel [v] true).dtype = promote h.dtype k.dtype := by
    rw [adapt_dtype]; rfl
  generalize (h.coerce k.dtype).adapt fo fuel [v] true = h2 at hd
  cases H1.findBin fo h2 v <;> simp only <;> (try split) <;> simp [hd]

theorem C13_idiv_float (h r : H1) (c : Rat) (hr : h.idiv c = .ok r) : r.dtype.isInt = false := by
  rw [(idiv_ok h r c hr).2.1]
  exact C13_float_promotes _ _ rfl

/-- **Histogram ⊕ histogram uses numpy promotion** (same bins): the sum has the promoted dtype. -/
theorem C13_iadd_dtype (fo : FloatOps) (h o r : H1) (hs : h.sameBins fo o = true) (hr : h.iadd fo o = .ok r) :
    r.dtype = promote h.dtype o.dtype :=
  (iadd_same_ok fo h o r hs hr).1

/-- subtraction, too, ends in the promoted dtype -/
theorem C13_isub_dtype (fo : FloatOps) (h o r : H1) (hr : h.isub fo o = .ok r) :
    r.dtype = promote h.dtype o.dtype :=
  (isub_ok fo h o r hr).1

/-- a scalar factor promotes by the factor's numpy dtype (python int -> int64, python float -> float64) -/
theorem C13_imul_dtype (h r : H1) (c : Rat) (k : H1.NumKind) (hr : h.imul c k = .ok r) :
    r.dtype = promote h.dtype k.dtype :=
  (imul_ok h r c k hr).1

/-- **Explicit change of dtype**: accepted exactly when the decision `setDTypeOk` holds — a safe
    cast, or every content and squared error integral (integer target from a float type) and
    within the target's range; when accepted only the dtype changes, when refused there is no new
    state at all (validation comes before conversion). -/
theorem C13_set (h : H1) (d : DType) :
    (H1.setDTypeOk h d = true → ∃ r, h.setDType d = .ok r ∧ r.dtype = d ∧ r.freq = h.freq ∧ r.err2 = h.err2 ∧
      r.binning = h.binning ∧ r.stats = h.stats) ∧
    (H1.setDTypeOk h d = false → ∃ e, h.setDType d = .error e) := by
  unfold H1.setDType
  constructor
  · intro hok
    refine ⟨{ h with dtype := d, under := H1.truncN d h.under, over := H1.truncN d h.over,
                     inner := H1.truncN d h.inner }, ?_, rfl, rfl, rfl, rfl, rfl⟩
    simp [hok, pure, Except.pure]
  · intro hno; simp [hno, throw, throwThe, MonadExceptOf.throw]

/-- a float histogram holding a non-integral content or squared error cannot become integral -/
theorem C13_set_refuse_nonintegral (h : H1) (d : DType) (hd : d.isInt = true) (hh : h.dtype.isInt = false)
    (x : Rat) (hx : x ∈ h.freq ++ h.err2) (hnon : H1.isIntegral x = false) :
    H1.setDTypeOk h d = false := by
  have hne : (d == h.dtype) = false := by
    cases hdd : (d == h.dtype)
    · rfl
    · have : d = h.dtype := by simpa using hdd
      rw [this] at hd; rw [hd] at hh; cases hh
  have hcc : h.dtype.canCast d = false := (C13_cancast h.dtype d d).2.2 hh hd
  have hall : (h.freq ++ h.err2).all H1.isIntegral = false := by
    cases hq : (h.freq ++ h.err2).all H1.isIntegral
    · rfl
    · rw [List.all_eq_true] at hq
      have := hq x hx
      rw [hnon] at this; cases this
  simp [H1.setDTypeOk, hne, hcc, hd, hh, hall]

/-- a value outside the target's range refuses the change (narrower integer or float type) -/
theorem C13_set_refuse_range (h : H1) (lo hi : Int) (d : DType) (hr : d.intRange = some (lo, hi))
    (hcast : h.dtype.canCast d = false) (hne : (d == h.dtype) = false)
    (x : Rat) (hx : x ∈ h.freq ++ h.err2) (hout : (hi : Rat) < x ∨ x < (lo : Rat)) :
    H1.setDTypeOk h d = false := by
  have : H1.fitsRange (h.freq ++ h.err2) d = false := by
    unfold H1.fitsRange
    rw [hr]
    simp only
    cases hq : (h.freq ++ h.err2).all fun x => decide ((lo : Rat) ≤ x) && decide (x ≤ (hi : Rat))
    · rfl
    · rw [List.all_eq_true] at hq
      have := hq x hx
      simp only [Bool.and_eq_true, decide_eq_true_eq] at this
      rcases hout with h1 | h1 <;> linarith [this.1, this.2]
  simp [H1.setDTypeOk, hne, hcast, this]

/-- requesting an integer histogram with float weights is refused -/
theorem C13_refuse_int_float (fo : FloatOps) (b : Binning) (vs : List (Option Rat)) (ws : List Rat)
    (wk dt : DType) (keep dropna : Bool) (hwk : wk.isInt = false) (hdt : dt.isInt = true) :
    ∃ e, H1.construct fo b vs (some ws) wk (some dt) keep dropna = .error e := by
  unfold H1.construct
  simp only [bind, Except.bind, pure, Except.pure, Option.isSome_some, if_true, Option.getD_some, hdt, hwk,
    Bool.not_false, Bool.and_self]
  repeat (split <;> try exact ⟨_, rfl⟩)

/-! Non-vacuity -/
example : promote .i16 .f16 = .f32 ∧ promote .i64 .f32 = .f64 ∧ canCast .i64 .f64 = true ∧ canCast .i16 .f16 = false := by
  decide

end Physt

import Physt.Proofs.Account1D
import Physt.Proofs.Lists
/-!
# C11 — indexing and slicing follow numpy semantics on the bin grid (1-D theorems; ND: C09/NDArray)
-/
namespace Physt
open H1

/-- **A slice is the list slice** of bins, contents and squared errors (Python slice
    normalisation of negative / out-of-range bounds is `sliceBounds`). -/
theorem C11_slice (fo : FloatOps) (h : H1) (start stop : Option Int) :
    (h.getSlice fo start stop).bins fo = sliceList (h.bins fo) start stop ∧
    (h.getSlice fo start stop).freq = sliceList h.freq start stop ∧
    (h.getSlice fo start stop).err2 = sliceList h.err2 start stop ∧
    (h.getSlice fo start stop).dtype = h.dtype ∧ (h.getSlice fo start stop).keep = h.keep :=
  ⟨rfl, rfl, rfl, rfl, rfl⟩

theorem sum_take_add_drop (l : List Rat) (k : Nat) : (l.take k).sum + (l.drop k).sum = l.sum := by
  rw [← List.sum_append, List.take_append_drop]

theorem sum_pySlice (l : List Rat) (a b : Nat) (hab : a ≤ b) :
    (l.take a).sum + (pySlice l a b).sum + (l.drop b).sum = l.sum := by
  unfold pySlice
  have h1 := sum_take_add_drop l a
  have h2 := sum_take_add_drop (l.drop a) (b - a)
  have h3 : (l.drop a).drop (b - a) = l.drop b := by rw [List.drop_drop]; congr 1; omega
  rw [h3] at h2
  linarith

theorem normIdx_le (n : Nat) (i : Int) : normIdx n i ≤ n := by
  unfold normIdx; split <;> omega

def loBound (n : Nat) (start : Option Int) : Nat := match start with | none => 0 | some s => normIdx n s
def hiBound (n : Nat) (stop : Option Int) : Nat := match stop with | none => n | some s => normIdx n s

theorem sliceBounds_eq (n : Nat) (start stop : Option Int) :
    sliceBounds n start stop = (loBound n start, hiBound n stop) := by
  cases start <;> cases stop <;> rfl

def cutLeft (freq : List Rat) (start : Option Int) : Rat :=
  match start with
  | none => 0
  | some s => if s = 0 then 0 else (sliceList freq none (some s)).sum

def cutRight (freq : List Rat) (stop : Option Int) : Rat :=
  match stop with
  | none => 0
  | some s => if s = 0 then 0 else (sliceList freq (some s) none).sum

/-- what is cut off on the left is the content of the bins before the slice -/
theorem cutLeft_eq (freq : List Rat) (start : Option Int) :
    cutLeft freq start = (freq.take (loBound freq.length start)).sum := by
  cases start with
  | none => simp [cutLeft, loBound]
  | some s =>
    by_cases hs : s = 0
    · subst hs; simp [cutLeft, loBound, normIdx]
    · simp [cutLeft, loBound, hs, sliceList, sliceBounds, pySlice]

/-- what is cut off on the right is the content of the bins after the slice (the slice is not empty) -/
theorem cutRight_eq (freq : List Rat) (stop : Option Int) (hpos : 0 < hiBound freq.length stop) :
    cutRight freq stop = (freq.drop (hiBound freq.length stop)).sum := by
  cases stop with
  | none => simp [cutRight, hiBound]
  | some s =>
    by_cases hs : s = 0
    · subst hs; simp [hiBound, normIdx] at hpos
    · have hle := normIdx_le freq.length s
      simp only [cutRight, hiBound, hs, if_false, sliceList, sliceBounds, pySlice]
      rw [List.take_of_length_le (by simp)]

/-- **Conservation.** For a non-empty contiguous slice of a histogram that tracks its missed
    values, the contents cut off on the left go to underflow and those on the right to overflow:
    `total + underflow + overflow` is unchanged. -/
theorem C11_conserve (fo : FloatOps) (h : H1) (start stop : Option Int) (u o : Rat)
    (hk : h.keep = true) (hu : h.under = some u) (ho : h.over = some o)
    (hne : loBound h.freq.length start < hiBound h.freq.length stop) :
    ∃ u' o', (h.getSlice fo start stop).under = some u' ∧ (h.getSlice fo start stop).over = some o' ∧
      (h.getSlice fo start stop).total + u' + o' = h.total + u + o := by
  have hcl := cutLeft_eq h.freq start
  have hcr := cutRight_eq h.freq stop (by omega)
  have hunder : (h.getSlice fo start stop).under = some (u + cutLeft h.freq start) := by
    simp only [getSlice, hk, if_true, underflow, hu, nadd, cutLeft]; rfl
  have hover : (h.getSlice fo start stop).over = some (o + cutRight h.freq stop) := by
    simp only [getSlice, hk, if_true, overflow, ho, nadd, cutRight]; rfl
  refine ⟨_, _, hunder, hover, ?_⟩
  have hs := sum_pySlice h.freq _ _ (le_of_lt hne)
  have htot : (h.getSlice fo start stop).total
      = (pySlice h.freq (loBound h.freq.length start) (hiBound h.freq.length stop)).sum := by
    simp only [getSlice, H1.total, sliceList, sliceBounds_eq]
  rw [htot, hcl, hcr]
  unfold H1.total
  linarith

/-- **Non-contiguous selections** (mask, index array): the selected bins, contents and errors in
    increasing bin order; underflow / overflow read as unknown (NaN). -/
theorem C11_unknown (fo : FloatOps) (h : H1) (idx : List Nat) :
    (h.getIndices fo idx).underflow = none ∧ (h.getIndices fo idx).overflow = none ∧
    (h.getIndices fo idx).freq = idx.filterMap (h.freq[·]?) ∧
    (h.getIndices fo idx).err2 = idx.filterMap (h.err2[·]?) ∧
    (h.getIndices fo idx).bins fo = idx.filterMap ((h.bins fo)[·]?) :=
  ⟨rfl, rfl, rfl, rfl, rfl⟩

/-- an index array is taken in increasing order, every bin at most once; an entry out of range
    refuses the whole selection -/
theorem C11_index_array (n : Nat) (idx : List Int) (l : List Nat) (h : normIndexArray n idx = .ok l) :
    l.Pairwise (· < ·) ∧ ∀ j ∈ l, j < n := by
  unfold normIndexArray at h
  simp only [bind, Except.bind, pure, Except.pure] at h
  split at h
  · cases h
  · cases h
    constructor
    · exact List.Pairwise.sublist List.filter_sublist (List.pairwise_lt_range)
    · intro j hj
      exact List.mem_range.mp (List.mem_filter.mp hj).1

theorem C11_index_array_refuse (n : Nat) (i : Int) (rest : List Int) (hout : ¬ (0 ≤ i ∧ i < n) ∧ ¬ (i < 0 ∧ -(n : Int) ≤ i)) :
    ∃ e, normIndexArray n (i :: rest) = .error e := by
  unfold normIndexArray
  simp [List.mapM_cons, bind, Except.bind, hout.1, hout.2, throw, throwThe, MonadExceptOf.throw]

/-! Non-vacuity -/
example : sliceList [10, 20, 30, 40, 50] (some (-3)) (some 4) = ([30, 40] : List Rat) := by decide +kernel
example : (normIndexArray 5 [2, -1, 2, 0]).toOption = some [0, 2, 4] := by decide +kernel

end Physt

import Physt.Theorems.C01
namespace Physt
theorem C11_placeholder : True := trivial
end Physt

import Physt.Theorems.C01
namespace Physt
theorem C06_placeholder : True := trivial
end Physt

import Physt.Proofs.Ops
import Physt.Theorems.C14
import Mathlib.Tactic.FieldSimp
/-!
# C06 — scaling, division and normalisation are exactly linear (exact-arithmetic form)

The floating-point statements `(h*c)/c == h` and `total == 1` hold "up to rounding"; the theorems
are about the rational model, the correspondence check compares bit-exactly on dyadic inputs and
with a relative tolerance elsewhere.
-/
namespace Physt
open H1

/-- **Multiplication.** Every content and missed count is multiplied by `c`, every squared error
    by `c²`; bins, `keep_missed` and the operand are untouched (the operand is a value). -/
theorem C06_mul (h r : H1) (c : Rat) (k : NumKind) (hr : h.imul c k = .ok r) :
    r.freq = h.freq.map (· * c) ∧ r.err2 = h.err2.map (· * (c * c)) ∧
    r.under = nscale h.under c ∧ r.over = nscale h.over c ∧ r.inner = nscale h.inner c ∧
    r.binning = h.binning ∧ r.keep = h.keep := by
  obtain ⟨_, a, b, c1, d, e, _, f, g, _⟩ := imul_ok h r c k hr
  exact ⟨a, b, c1, d, e, f, g⟩

/-- **Division** likewise by `1/c` and `1/c²`. -/
theorem C06_div (h r : H1) (c : Rat) (hr : h.idiv c = .ok r) :
    r.freq = h.freq.map (· / c) ∧ r.err2 = h.err2.map (· / (c * c)) ∧
    r.under = nscale h.under (1 / c) ∧ r.over = nscale h.over (1 / c) ∧ r.inner = nscale h.inner (1 / c) ∧
    r.binning = h.binning := by
  obtain ⟨_, _, a, b, c1, d, e, _, f, _⟩ := idiv_ok h r c hr
  exact ⟨a, b, c1, d, e, f⟩

/-! `c * h == h * c`: the model has a single scaling operation (`__rmul__` is `__mul__` in physt), so
    there is nothing to prove *in the model*; that the implementation's two spellings agree is checked
    by the correspondence (ops `mul` and `rmul` are both compared with `imul`) and by the oracle. -/

theorem nscale_nscale (a : NRat) (c : Rat) (hc : c ≠ 0) : nscale (nscale a c) (1 / c) = a := by
  cases a with
  | none => rfl
  | some x => simp only [nscale, Option.map_some]; congr 1; field_simp

/-- **`(h * c) / c = h`** (c ≠ 0): contents, squared errors and missed counts come back exactly. -/
theorem C06_mul_div (h m r : H1) (c : Rat) (k : NumKind) (hc : c ≠ 0) (hm : h.imul c k = .ok m)
    (hr : m.idiv c = .ok r) :
    r.freq = h.freq ∧ r.err2 = h.err2 ∧ r.under = h.under ∧ r.over = h.over ∧ r.inner = h.inner ∧
    r.binning = h.binning := by
  obtain ⟨f1, e1, u1, o1, i1, b1, _⟩ := C06_mul h m c k hm
  obtain ⟨f2, e2, u2, o2, i2, b2⟩ := C06_div m r c hr
  refine ⟨?_, ?_, ?_, ?_, ?_, by rw [b2, b1]⟩
  · rw [f2, f1, List.map_map]
    conv_rhs => rw [← List.map_id h.freq]
    apply List.map_congr_left; intro x _; simp only [Function.comp, id]; field_simp
  · rw [e2, e1, List.map_map]
    conv_rhs => rw [← List.map_id h.err2]
    apply List.map_congr_left; intro x _; simp only [Function.comp, id]; field_simp
  · rw [u2, u1]; exact nscale_nscale _ _ hc
  · rw [o2, o1]; exact nscale_nscale _ _ hc
  · rw [i2, i1]; exact nscale_nscale _ _ hc

theorem sum_map_div (l : List Rat) (c : Rat) : (l.map (· / c)).sum = l.sum / c := by
  induction l with
  | nil => simp
  | cons a t ih => simp only [List.map_cons, List.sum_cons, ih]; ring

theorem sum_map_mul (l : List Rat) (c : Rat) : (l.map (· * c)).sum = l.sum * c := by
  induction l with
  | nil => simp
  | cons a t ih => simp only [List.map_cons, List.sum_cons, ih]; ring

/-- **Normalisation.** `normalize()` gives total 1 (100 with `percent`) and every content keeps
    its share of the total. -/
theorem C06_normalize (h r : H1) (percent : Bool) (hr : h.normalize false percent = .ok r) :
    r.total = (if percent then 100 else 1) ∧
    r.freq = h.freq.map fun x => x / h.total * (if percent then 100 else 1) := by
  unfold H1.normalize at hr
  simp only [Bool.false_eq_true, if_false, bind, Except.bind] at hr
  cases hd : h.idiv h.total with
  | error e => simp [hd] at hr
  | ok d =>
    simp only [hd] at hr
    obtain ⟨hne, _, fd, _⟩ := idiv_ok h d h.total hd
    obtain ⟨_, fr, _⟩ := imul_ok d r _ _ hr
    have hfreq : r.freq = h.freq.map fun x => x / h.total * (if percent then 100 else 1) := by
      rw [fr, fd, List.map_map]; rfl
    refine ⟨?_, hfreq⟩
    unfold H1.total at hne ⊢
    rw [fr, fd, sum_map_mul, sum_map_div]
    show h.freq.sum / h.freq.sum * (if percent = true then 100 else 1) = if percent = true then 100 else 1
    rw [div_self hne, one_mul]

/-- a zero total cannot be normalised: the call is refused -/
theorem C06_normalize_zero (h : H1) (p : Bool) (hz : h.total = 0) : ∃ e, h.normalize false p = .error e := by
  unfold H1.normalize H1.idiv
  simp [hz, bind, Except.bind, throw, throwThe, MonadExceptOf.throw]

/-- **Refusals.** A factor that would make a content negative is refused (free arithmetics off),
    and division by zero is refused. -/
theorem C06_refuse (h : H1) (c : Rat) (k : NumKind) :
    (((h.freq.map (· * c)).any (· < 0)) = true → ∃ e, h.imul c k = .error e) ∧ (∃ e, h.idiv 0 = .error e) := by
  refine ⟨imul_refused h c k, ?_⟩
  unfold H1.idiv
  simp [bind, Except.bind, throw, throwThe, MonadExceptOf.throw]

/-- **Statistics under positive scaling** (from C14): mean, variance, minimum and maximum are
    unchanged, the recorded weight scales by `c`. -/
theorem C06_stats (h r : H1) (c : Rat) (k : NumKind) (hc : 0 < c) (hv : h.stats.valid = true)
    (hr : h.imul c k = .ok r) :
    r.stats.mean = h.stats.mean ∧ r.stats.variance = h.stats.variance ∧ r.stats.min = h.stats.min ∧
    r.stats.max = h.stats.max ∧ r.stats.weight = h.stats.weight * c := by
  rw [(imul_ok h r c k hr).2.2.2.2.2.2.1]
  exact C14_scale h.stats c hc hv

/-! Non-vacuity -/
example : (({ binning := .static [(0, 1), (1, 2)] true, freq := [2, 3], err2 := [2, 3] } : H1).imul (1 / 2) .pyFloat).toOption.map
    (fun r => (r.freq, r.err2)) = some ([1, 3 / 2], [1 / 2, 3 / 4]) := by decide +kernel

end Physt

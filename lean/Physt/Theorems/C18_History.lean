import Physt.Proofs.History1D
import Physt.Proofs.AdaptiveHistory
/-!
# C18 (continued) — every history of public operations keeps a histogram well-formed

`Theorems/C18.lean` has the per-operation lemmas.  `Proofs/History1D.lean` defines the operation
language `Op1` (fill, fill_n, `+=`, `-=`, `*=`, `/=`, normalize, merge_bins by amount and by
min_frequency, slice, index array, mask, set_dtype, copy), `step` (one call: a new state or a
refusal), `kept` (what the caller holds after a refusal: exactly what the driver — and physt —
leave behind, i.e. the dtype may already be promoted, and an adaptive `fill_n` may already have
grown its bins) and `run` (a history in which refused calls are caught and the object is used
further).  The premises `OpOK` are the property's own: non-negative weights, well-formed operands,
free arithmetics off (the guarded `-=` and `*=`).  Every binning kind is covered, adaptive growth
included, for every `FloatOps` instance and every search fuel.
-/
namespace Physt
open Grid H1

/-- **Well-formed after any history**: shapes of contents, squared errors and bins match, no squared
    error and no content is negative — whatever calls were made, accepted or refused. -/
theorem C18_history (fo : FloatOps) (fuel : Nat) (h : H1) (ops : List Op1) (w : WF fo h)
    (ok : ∀ op ∈ ops, OpOK fo op) : WF fo (run fo fuel h ops) :=
  wf_history' fo fuel h ops w ok

/-- the same in plain words -/
theorem C18_no_negative_content (fo : FloatOps) (fuel : Nat) (h : H1) (ops : List Op1) (w : WF fo h)
    (ok : ∀ op ∈ ops, OpOK fo op) :
    (∀ x ∈ (run fo fuel h ops).freq, 0 ≤ x) ∧ (∀ x ∈ (run fo fuel h ops).err2, 0 ≤ x) ∧
    (run fo fuel h ops).freq.length = ((run fo fuel h ops).bins fo).length ∧
    (run fo fuel h ops).err2.length = ((run fo fuel h ops).bins fo).length :=
  no_negative_content fo fuel h ops w ((allOK_iff fo fuel h ops).mpr ok)

/-- **A refused call changes nothing**: contents, squared errors, the three missed slots, bins,
    `keep_missed` and statistics are what they were; the dtype is what it was or a *lossless*
    promotion of it.  (All operations; `fill_n` on an adaptive histogram: next theorem.) -/
theorem C18_refused (fo : FloatOps) (fuel : Nat) (h : H1) (op : Op1) (e : String)
    (hs : step fo fuel h op = .error e)
    (hna : ∀ vs ws wk, op = .fillN vs ws wk → h.binning.isAdaptive = false) :
    SameRecord (next fo fuel h op) h ∧ DTypeKept (next fo fuel h op) h :=
  refused_changes_nothing fo fuel h op e hs hna

/-- A refused `fill_n` on an *adaptive* histogram has already grown the bins (physt adapts before it
    checks the weights): missed slots, statistics, dtype are untouched and the arrays are the old ones
    moved by the reshape instruction of the growth … -/
theorem C18_refused_fill_n_adaptive (fo : FloatOps) (fuel : Nat) (h : H1) (vs : List (Option Rat))
    (ws : Option (List Rat)) (wk : DType) (e : String) (hs : step fo fuel h (.fillN vs ws wk) = .error e) :
    next fo fuel h (.fillN vs ws wk) = h.adapt fo fuel (vs.filterMap id) false ∧
    (next fo fuel h (.fillN vs ws wk)).under = h.under ∧ (next fo fuel h (.fillN vs ws wk)).over = h.over ∧
    (next fo fuel h (.fillN vs ws wk)).inner = h.inner ∧ (next fo fuel h (.fillN vs ws wk)).keep = h.keep ∧
    (next fo fuel h (.fillN vs ws wk)).stats = h.stats ∧ (next fo fuel h (.fillN vs ws wk)).dtype = h.dtype ∧
    ∃ n r, (next fo fuel h (.fillN vs ws wk)).freq = reshape1 h.freq n r ∧
           (next fo fuel h (.fillN vs ws wk)).err2 = reshape1 h.err2 n r :=
  refused_fillN_adaptive_partial fo fuel h vs ws wk e hs

/-- … and **every recorded content stays on its interval**: for a well-formed adaptive grid histogram
    (strictly increasing edges, every value of the batch within reach of the search) the refused
    call leaves a grid on the same `w`, `shift` that contains the old range, and the arrays are the
    old ones padded with zeros — `a` new cells on the left, the rest on the right.  No content per
    bin interval changes, which is what the property asks of a call that raises. -/
theorem C18_refused_fill_n_adaptive_intervals (fo : FloatOps) (fuel : Nat) (h : H1) (g : Grid) (st : GridState h g)
    (hpos : 0 < g.count) (hm : EdgeMono fo g.w g.shift) (vs : List (Option Rat)) (ws : Option (List Rat)) (wk : DType)
    (e : String) (hs : step fo fuel h (.fillN vs ws wk) = .error e)
    (hreach : ∀ v ∈ vs.filterMap id, Reach fo g.w g.shift fuel v) :
    ∃ g' : Grid, (next fo fuel h (.fillN vs ws wk)).binning = .fixed g' ∧ g'.w = g.w ∧ g'.shift = g.shift ∧
      g'.tmin ≤ g.tmin ∧ g.tmin + g.count ≤ g'.tmin + g'.count ∧
      (next fo fuel h (.fillN vs ws wk)).freq
        = List.replicate (g.tmin - g'.tmin).toNat 0 ++ h.freq ++
          List.replicate (g'.count - (g.tmin - g'.tmin).toNat - g.count) 0 ∧
      (next fo fuel h (.fillN vs ws wk)).err2
        = List.replicate (g.tmin - g'.tmin).toNat 0 ++ h.err2 ++
          List.replicate (g'.count - (g.tmin - g'.tmin).toNat - g.count) 0 := by
  obtain ⟨hnext, _⟩ := refused_fillN_adaptive_partial fo fuel h vs ws wk e hs
  rw [hnext]
  obtain ⟨_, _, _, hok, hull⟩ := forceMany_spec fo fuel g st.align st.ire hm (vs.filterMap id) hreach
  have hadapt : h.adapt fo fuel (vs.filterMap id) false =
      { h with binning := .fixed (g.forceMany fo fuel (vs.filterMap id) g.ire).1,
               freq := reshape1 h.freq (g.forceMany fo fuel (vs.filterMap id) g.ire).1.count (g.forceMany fo fuel (vs.filterMap id) g.ire).2,
               err2 := reshape1 h.err2 (g.forceMany fo fuel (vs.filterMap id) g.ire).1.count (g.forceMany fo fuel (vs.filterMap id) g.ire).2 } := by
    unfold H1.adapt
    simp only [st.binning, st.adaptive, if_true, Bool.false_eq_true, if_false]
  rw [hadapt]
  have rf := (reshape1_of_ok hok h.freq st.flen).2 hpos
  have re := (reshape1_of_ok hok h.err2 st.elen).2 hpos
  exact ⟨_, rfl, hull.w, hull.shift, hull.keepLo hpos, hull.keepHi hpos, rf, re⟩

/-- **Subtracting more than is there is refused** (same bins, free arithmetics off). -/
theorem C18_sub_larger_refused (fo : FloatOps) (h o : H1) (hs : h.sameBins fo o = true) (i : Nat)
    (hi : i < h.freq.length) (hi' : i < o.freq.length) (hlt : h.freq[i] < o.freq[i]) :
    ∃ e, h.isub fo o = .error e :=
  isub_refused_of_larger fo h o hs i hi hi' hlt

end Physt

import Physt.Proofs.AdaptiveND
/-!
# C04 in N dimensions — adaptive fixed-width axes never lose a row when bins grow

The N-d counterpart of `Theorems/C04.lean` / `C04_History.lean`, and the adaptive counterpart of
`Theorems/C03_ND.lean`.  Helper lemmas: `Proofs/AdaptiveND.lean`.

Two invariants:

* `TracksA fo h grids rows` — **all axes adaptive** grids (`.fixed g`, `g.adaptive`, aligned,
  right-open): contents and squared errors are the batch histogram (`calcND`, the model of
  `calculate_nd_frequencies`) of `rows` over the current bins, `missed = 0`, every row inside the
  current range of every axis;
* `TracksM fo h axes rows` — **mixed axes** (adaptive grids next to any non-adaptive rising bins):
  the same, with `missed` = the weight of the rows outside the non-adaptive bins, and "inside the
  range" asked of the adaptive axes only.  `TracksA` is `TracksM` on `grids.map .fixed`
  (`TracksA.toM`, `TracksM.toA`).

The hypotheses are those of the 1-D theorem, per axis: the edge function of every adaptive grid is
strictly increasing (`MonoGrids` / `EdgesOK`: rounding does not reorder edges; proved for exact
arithmetic with positive widths) and every coordinate entered has its cell within reach of the
corrected search (`ReachGrids` / `ReachRow`; proved for exact arithmetic).  `ire = false` on adaptive
axes is part of the invariant: physt refuses adaptive binnings that include the right edge, and
without that the 1-D property already fails (`Proofs/AdaptiveHistory.lean`, last examples).
-/
namespace Physt
open Grid H1

/-- **Contents recorded earlier stay attached to the same interval (one axis of N).**  Replace the
    bins of axis `i` by bins in which every row's coordinate `i` is found `a` bins further up (the
    grid grew by `a` cells on the left, any number on the right).  Then the batch histogram of the
    rows over the new axes is the old one moved by `a` cells along axis `i` (`Arr.shiftAxis`, which
    is what `_reshape_data` does) and zero elsewhere: no content moves to another interval. -/
theorem C04_nd_grow_keeps_intervals (axes : AxesB) (i : Nat) (p p' : Bins × Bool) (a : Nat)
    (hi : axes[i]? = some p) (rows : List Row)
    (hrows : ∀ r ∈ rows, r.1.length = axes.length ∧ ∃ x c, r.1[i]? = some x ∧ axisCell p.1 p.2 x = some c ∧
      c < p.1.length ∧ axisCell p'.1 p'.2 x = some (c + a)) :
    (calcND (axes.set i p') rows).freq = (calcND axes rows).freq.shiftAxis i a p'.1.length ∧
    (calcND (axes.set i p') rows).err2 = (calcND axes rows).err2.shiftAxis i a p'.1.length :=
  calcND_set_axis axes i p p' a hi rows hrows

/-- the same with the grid written out (N-d analogue of `C04_grow_keeps_intervals`): axis `i` holds the
    cells `t … t+n-1` of a strictly increasing edge function and every row has coordinate `i` in one
    of them; over the cells `t-a … t+n+b-1` the histogram is the old one moved `a` cells up along
    axis `i`, with zeros in the `a + b` new slices. -/
theorem C04_nd_grid_grow {edge : Int → Rat} (hm : ∀ a b : Int, a < b → edge a < edge b) (axes : AxesB) (i : Nat)
    (t : Int) (n a b : Nat) (hi : axes[i]? = some (binsFrom edge t n, false)) (rows : List Row)
    (hrows : ∀ r ∈ rows, r.1.length = axes.length ∧
      ∃ (x : Rat) (k : Int), r.1[i]? = some x ∧ CellOf edge x k ∧ t ≤ k ∧ k < t + n) :
    (calcND (axes.set i (binsFrom edge (t - a) (a + n + b), false)) rows).freq
      = (calcND axes rows).freq.shiftAxis i a (a + n + b) ∧
    (calcND (axes.set i (binsFrom edge (t - a) (a + n + b), false)) rows).err2
      = (calcND axes rows).err2.shiftAxis i a (a + n + b) :=
  calcND_grid_grow hm axes i t n a b hi rows hrows

/-- … in terms of grids: axis `i` grows from the grid `g` to a grid `g'` with the same width and origin
    that contains it, as `_force_bin_existence` instructs (`ReshapeOK`); the rows have their
    coordinate `i` inside `g`.  Contents and squared errors over the new bins are the old arrays
    reshaped along axis `i`, and the missed weight is unchanged. -/
theorem C04_nd_regrid (fo : FloatOps) (axes : List Binning) (i : Nat) (g g' : Grid) (r : Reshape)
    (hi : axes[i]? = some (.fixed g)) (hm : EdgeMono fo g.w g.shift) (hw : g'.w = g.w) (hs : g'.shift = g.shift)
    (hire : g.ire = false) (hire' : g'.ire = false) (ok : ReshapeOK g g' r) (rows : List Row)
    (hrows : ∀ r ∈ rows, r.1.length = axes.length ∧ ∃ x, r.1[i]? = some x ∧ InGrid fo g x) :
    (calcND (axesOf fo (axes.set i (.fixed g'))) rows).freq
      = HN.reshapeAxis (calcND (axesOf fo axes) rows).freq i g'.count r ∧
    (calcND (axesOf fo (axes.set i (.fixed g'))) rows).err2
      = HN.reshapeAxis (calcND (axesOf fo axes) rows).err2 i g'.count r ∧
    (calcND (axesOf fo (axes.set i (.fixed g'))) rows).missing = (calcND (axesOf fo axes) rows).missing :=
  calcND_regrid fo axes i g g' r hi hm hw hs hire hire' ok rows hrows

/-- **One `fill` of a finite point never loses it.**  On an all-adaptive histogram satisfying the
    invariant, for increasing edges and reachable cells: the result satisfies the invariant for the
    old rows followed by the new one; every axis keeps width and origin and its range is the hull
    (`SpanHull`) of its old range and the cell of the coordinate; the call returns `some idx`, the
    index `find_bin` gives afterwards. -/
theorem C04_nd_fill (fo : FloatOps) (fuel : Nat) (h : HN) (grids : List Grid) (rows : List Row)
    (t : TracksA fo h grids rows) (hm : MonoGrids fo grids) (v : List Rat) (hl : v.length = grids.length)
    (hreach : ReachGrids fo fuel grids v) (w : Rat) (wk : H1.NumKind) :
    ∃ grids' idx, TracksA fo (h.fill fo fuel (v.map some) w wk).1 grids' (rows ++ [(v, w)]) ∧
      HullN fo grids grids' [v] ∧
      (h.fill fo fuel (v.map some) w wk).2 = some (some idx) ∧
      (h.fill fo fuel (v.map some) w wk).1.findBin fo v = some idx :=
  tracksA_fill fo fuel h grids rows t hm v hl hreach w wk

/-- **One `fill_n` batch never loses a row** (NaN rows are skipped with their weights; the empty batch
    changes nothing; weights or none): the call is accepted, the result satisfies the invariant for
    the old rows followed by the masked batch, every axis grows to the hull of its old range and
    the cells of its column of the batch. -/
theorem C04_nd_fill_n (fo : FloatOps) (fuel : Nat) (h : HN) (grids : List Grid) (rows : List Row)
    (t : TracksA fo h grids rows) (hm : MonoGrids fo grids) (batch : List (List (Option Rat)))
    (ws : Option (List Rat)) (wkind : DType) (hcol : ∀ x ∈ batch, x.length = grids.length)
    (hw : ∀ w, ws = some w → w.length = batch.length)
    (hreach : ∀ r ∈ maskRows batch ws, ReachGrids fo fuel grids r.1) :
    ∃ r grids', h.fillN fo fuel batch ws wkind = .ok r ∧ TracksA fo r grids' (rows ++ maskRows batch ws) ∧
      HullN fo grids grids' ((maskRows batch ws).map (·.1)) :=
  tracksA_fillN fo fuel h grids rows t hm batch ws wkind hcol hw hreach

/-- **C04 for every history, N dimensions, all axes adaptive.**  For every `FloatOps` with strictly
    increasing edges on every axis, every list of `fill` / `fill_n` calls (NaN coordinates, NaN rows,
    empty batches, weights of any kind) whose finite values have one coordinate per axis and whose
    batches have matching shapes, every coordinate having its cell within reach, on a histogram
    satisfying the invariant (empty: `tracksA_empty`; or pre-filled):
    every call is accepted; the result satisfies the invariant for all rows, so it **equals the
    fixed-bin histogram of all the data over the final bins** (contents, squared errors, missed);
    `missed = 0`; total = initial total + weight entered; every row is found by `find_bin` in the bin
    `[edge k, edge (k+1))` of its cell `k` on each axis' original grid; per axis the final range is
    the hull of the initial range and the cells needed (`HullN`: same width and origin, nothing more,
    nothing less). -/
theorem C04_nd_every_history (fo : FloatOps) (fuel : Nat) (ops : List OpN) (h : HN) (grids : List Grid)
    (rows0 : List Row) (t : TracksA fo h grids rows0) (hm : MonoGrids fo grids)
    (hv : ∀ op ∈ ops, op.Valid grids.length) (hacc : ∀ op ∈ ops, op.Accepted grids.length)
    (hreach : ∀ r ∈ enteredRows ops, ReachGrids fo fuel grids r.1) :
    ∃ r grids', ops.foldlM (OpN.apply fo fuel) h = .ok r ∧ TracksA fo r grids' (rows0 ++ enteredRows ops) ∧
      HullN fo grids grids' ((enteredRows ops).map (·.1)) ∧
      r.freq = (calcND (r.axesBins fo) (rows0 ++ enteredRows ops)).freq ∧
      r.err2 = (calcND (r.axesBins fo) (rows0 ++ enteredRows ops)).err2 ∧
      r.missed = some (calcND (r.axesBins fo) (rows0 ++ enteredRows ops)).missing ∧
      r.missed = some 0 ∧
      r.total = h.total + ((enteredRows ops).map (·.2)).sum ∧
      (∀ row ∈ rows0 ++ enteredRows ops, ∃ idx, r.findBin fo row.1 = some idx ∧ validIdx (r.shape fo) idx = true ∧
        ∀ (i : Nat) (g : Grid) (x : Rat), grids'[i]? = some g → row.1[i]? = some x →
          ∃ k : Int, CellOf (fo.edge g.w g.shift) x k ∧ g.tmin ≤ k ∧ k < g.tmin + g.count ∧
            idx[i]? = some (k - g.tmin).toNat ∧
            (g.bins fo)[(k - g.tmin).toNat]? = some (fo.edge g.w g.shift k, fo.edge g.w g.shift (k + 1))) := by
  obtain ⟨r, grids', e, t', hu, hm'⟩ := tracksA_history fo fuel ops h grids rows0 t hm hv hacc hreach
  refine ⟨r, grids', e, t', hu, t'.freq, t'.err2, ?_, t'.missed, ?_, fun row hrow => t'.in_bin hm' row hrow⟩
  · rw [t'.missing_zero hm']; exact t'.missed
  · rw [t'.total hm', t.total hm, List.map_append, List.sum_append]

/-- in exact arithmetic the only hypothesis left on the grids is a positive width on every axis -/
theorem C04_nd_every_history_exact (fuel : Nat) (ops : List OpN) (h : HN) (grids : List Grid)
    (rows0 : List Row) (t : TracksA FloatOps.exact h grids rows0) (hw : ∀ g ∈ grids, 0 < g.w)
    (hv : ∀ op ∈ ops, op.Valid grids.length) (hacc : ∀ op ∈ ops, op.Accepted grids.length) :
    ∃ r grids', ops.foldlM (OpN.apply FloatOps.exact fuel) h = .ok r ∧
      TracksA FloatOps.exact r grids' (rows0 ++ enteredRows ops) ∧
      HullN FloatOps.exact grids grids' ((enteredRows ops).map (·.1)) ∧
      r.missed = some 0 ∧ r.total = h.total + ((enteredRows ops).map (·.2)).sum ∧
      (∀ row ∈ rows0 ++ enteredRows ops, ∃ idx, r.findBin FloatOps.exact row.1 = some idx) := by
  obtain ⟨r, grids', e, t', hu, _, _, _, hz, ht, hb⟩ := C04_nd_every_history FloatOps.exact fuel ops h grids rows0 t
    (monoGrids_exact grids hw) hv hacc (fun r _ => reachGrids_exact grids hw fuel r.1)
  exact ⟨r, grids', e, t', hu, hz, ht, fun row hrow => by
    obtain ⟨idx, hi, _⟩ := hb row hrow
    exact ⟨idx, hi⟩⟩

/-- **The result equals a fixed-bin histogram of the same data over the final bins.**  Build a
    histogram from all the rows at once (in any order) over the *static copy* of the final axes
    (`StaticBinning` with the final bins): its contents, squared errors and missed are those of the
    adaptively filled histogram. -/
theorem C04_nd_eq_fixed_bins (fo : FloatOps) (h : HN) (grids : List Grid) (rows : List Row)
    (t : TracksA fo h grids rows) (hm : MonoGrids fo grids)
    (all : List (List (Option Rat))) (ws : Option (List Rat)) (wkind : DType) (dropna : Bool)
    (names : Option (List String)) (c : HN)
    (hc : HN.construct fo (h.axes.map (Binning.asStatic fo)) all ws wkind dropna names = .ok c)
    (hp : (maskRows all ws).Perm rows) : c.freq = h.freq ∧ c.err2 = h.err2 ∧ c.missed = h.missed := by
  have tm := t.toM hm
  exact tm.eq_construct _ (by rw [axesOf_asStatic, tm.hax]) all ws wkind dropna names c hc hp

/-- **Chunking does not matter**: histories that enter the same rows in the same order — one `fill_n`
    batch, single `fill`s, any split — end on the same bins with the same contents, squared errors and
    missed (`_force_bin_existence` for an array looks at min and max only; the result is the same hull). -/
theorem C04_nd_chunking (fo : FloatOps) (fuel : Nat) (ops1 ops2 : List OpN) (h : HN) (grids : List Grid)
    (rows0 : List Row) (t : TracksA fo h grids rows0) (hm : MonoGrids fo grids)
    (hv1 : ∀ op ∈ ops1, op.Valid grids.length) (ha1 : ∀ op ∈ ops1, op.Accepted grids.length)
    (hv2 : ∀ op ∈ ops2, op.Valid grids.length) (ha2 : ∀ op ∈ ops2, op.Accepted grids.length)
    (hsame : enteredRows ops1 = enteredRows ops2)
    (hreach : ∀ r ∈ enteredRows ops1, ReachGrids fo fuel grids r.1) :
    ∃ r1 r2, ops1.foldlM (OpN.apply fo fuel) h = .ok r1 ∧ ops2.foldlM (OpN.apply fo fuel) h = .ok r2 ∧
      r1.axes = r2.axes ∧ r1.freq = r2.freq ∧ r1.err2 = r2.err2 ∧ r1.missed = r2.missed :=
  tracksA_chunking fo fuel ops1 ops2 h grids rows0 t hm hv1 ha1 hv2 ha2 hsame hreach

/-- **The bins of every axis stay contiguous on the original grid.** -/
theorem C04_nd_bins_on_grid (fo : FloatOps) (h : HN) (grids : List Grid) (rows : List Row)
    (t : TracksA fo h grids rows) (i : Nat) (g : Grid) (hg : grids[i]? = some g) :
    (h.axesBins fo)[i]? = some (g.bins fo, false) ∧ consecutiveB (g.bins fo) = true ∧
    (g.bins fo).length = g.count ∧
    ∀ j, j < g.count →
      (g.bins fo)[j]? = some (fo.edge g.w g.shift (g.tmin + j), fo.edge g.w g.shift (g.tmin + j + 1)) :=
  t.axis_bins i g hg

/-- **Started empty, each axis spans exactly from the lowest to the highest cell ever needed.**
    (`count = 0` on every axis; at least one row entered.) -/
theorem C04_nd_span_from_empty (fo : FloatOps) (grids grids' : List Grid) (entered : List (List Rat))
    (hu : HullN fo grids grids' entered) (i : Nat) (g g' : Grid) (hg : grids[i]? = some g)
    (hg' : grids'[i]? = some g') (h0 : g.count = 0) (hne : col i entered ≠ []) :
    g'.w = g.w ∧ g'.shift = g.shift ∧ 0 < g'.count ∧
    (∃ x ∈ col i entered, CellOf (fo.edge g.w g.shift) x g'.tmin) ∧
    (∃ x ∈ col i entered, CellOf (fo.edge g.w g.shift) x (g'.tmin + g'.count - 1)) ∧
    (∀ x ∈ col i entered, ∃ k : Int, CellOf (fo.edge g.w g.shift) x k ∧ g'.tmin ≤ k ∧ k < g'.tmin + g'.count) := by
  have sp := hu.each i g g' hg hg'
  have hp := sp.pos (Or.inr hne)
  refine ⟨sp.w, sp.shift, hp, ?_, ?_, sp.covers⟩
  · rcases sp.loTight hp with ⟨h1, _⟩ | h1
    · omega
    · exact h1
  · rcases sp.hiTight hp with ⟨h1, _⟩ | h1
    · omega
    · exact h1

/-! ## Mixed axes: adaptive grids next to non-adaptive bins -/

/-- **C04 for every history, N dimensions, any mix of adaptive and non-adaptive axes.**  Every call is
    accepted; the result holds the fixed-bin histogram of all the rows over the final bins (contents,
    squared errors, missed — rows can be missed on the non-adaptive axes only); `total + missed` is the
    weight entered; every adaptive axis has grown to the hull of its range and the cells of its
    column (all rows count, also those missed on another axis), every other axis is untouched
    (`AxesGrown`); every row lies inside the range of every adaptive axis (`TracksM.fits`). -/
theorem C04_nd_mixed_history (fo : FloatOps) (fuel : Nat) (ops : List OpN) (h : HN) (axes : List Binning)
    (rows0 : List Row) (tr : TracksM fo h axes rows0) (ok : EdgesOK fo axes)
    (hv : ∀ op ∈ ops, op.Valid axes.length) (ha : ∀ op ∈ ops, op.Accepted axes.length)
    (hreach : ∀ r ∈ enteredRows ops, ReachRow fo fuel axes r.1) :
    ∃ r axes' m, ops.foldlM (OpN.apply fo fuel) h = .ok r ∧ TracksM fo r axes' (rows0 ++ enteredRows ops) ∧
      AxesGrown fo axes axes' ((enteredRows ops).map (·.1)) ∧
      r.missed = some m ∧ r.total + m = ((rows0 ++ enteredRows ops).map (·.2)).sum := by
  obtain ⟨r, axes', e, t', g, _⟩ := tracksM_history fo fuel ops h axes rows0 tr ok hv ha hreach
  obtain ⟨m, h1, h2⟩ := t'.account
  exact ⟨r, axes', m, e, t', g, h1, h2⟩

/-- mixed axes in exact arithmetic: positive widths of the adaptive grids, rising bins elsewhere -/
theorem C04_nd_mixed_history_exact (fuel : Nat) (ops : List OpN) (h : HN) (axes : List Binning)
    (rows0 : List Row) (tr : TracksM FloatOps.exact h axes rows0)
    (hw : ∀ (i : Nat) (g : Grid), axes[i]? = some (Binning.fixed g) → g.adaptive = true → 0 < g.w)
    (hr : ∀ b ∈ axes, b.isAdaptive = false → Rising (b.bins FloatOps.exact))
    (hv : ∀ op ∈ ops, op.Valid axes.length) (ha : ∀ op ∈ ops, op.Accepted axes.length) :
    ∃ r axes' m, ops.foldlM (OpN.apply FloatOps.exact fuel) h = .ok r ∧
      TracksM FloatOps.exact r axes' (rows0 ++ enteredRows ops) ∧
      AxesGrown FloatOps.exact axes axes' ((enteredRows ops).map (·.1)) ∧
      r.missed = some m ∧ r.total + m = ((rows0 ++ enteredRows ops).map (·.2)).sum :=
  C04_nd_mixed_history FloatOps.exact fuel ops h axes rows0 tr (edgesOK_exact axes hw hr) hv ha
    (fun r _ => reachRow_exact axes hw fuel r.1)

/-! ## Non-vacuity: a concrete 2-D adaptive histogram (widths 1/10 and 2), started empty -/

namespace ExampleAdaptiveND

/-- two adaptive axes without bins yet (`count = 0`) -/
def grids : List Grid := [{ w := 1 / 10, adaptive := true }, { w := 2, adaptive := true }]

/-- a `fill`, a weighted batch with a NaN row (growth to the left and to the right on both axes), the
    empty batch, and a `fill` with a NaN coordinate -/
def ops : List OpN :=
  [.fill [some (17 / 10), some 3] 1 .pyInt,
   .fillN [[some (-3 / 10), some (-5)], [none, some 1], [some 5, some (1 / 2)]] (some [2, 9, 1 / 2]) .f64,
   .fillN [] none .i64,
   .fill [some 2, none] 7 .pyFloat]

def h0 : HN := HN.empty FloatOps.exact (grids.map Binning.fixed) true none none

theorem flags : ∀ g ∈ grids, g.adaptive = true ∧ g.align = true ∧ g.ire = false := by
  intro g hg
  simp only [grids, List.mem_cons, List.not_mem_nil, or_false] at hg
  rcases hg with rfl | rfl <;> exact ⟨rfl, rfl, rfl⟩

theorem widths : ∀ g ∈ grids, 0 < g.w := by
  intro g hg
  simp only [grids, List.mem_cons, List.not_mem_nil, or_false] at hg
  rcases hg with rfl | rfl <;> norm_num

theorem valid : ∀ op ∈ ops, op.Valid grids.length := by
  intro op hop
  simp only [ops, List.mem_cons, List.not_mem_nil, or_false] at hop
  rcases hop with rfl | rfl | rfl | rfl <;> simp [OpN.Valid, grids]

theorem accepted : ∀ op ∈ ops, op.Accepted grids.length := by
  intro op hop
  simp only [ops, List.mem_cons, List.not_mem_nil, or_false] at hop
  rcases hop with rfl | rfl | rfl | rfl <;> simp [OpN.Accepted, grids]

/-- the rows the history enters: the NaN row and the NaN value are gone, weights stay attached -/
example : enteredRows ops = [([17 / 10, 3], 1), ([-3 / 10, -5], 2), ([5, 1 / 2], 1 / 2)] := by decide +kernel

/-- the theorem applied: the history is accepted, the result satisfies the invariant for the three
    rows, nothing is missed, the total is the weight entered, every row is found by `find_bin` -/
example : ∃ r grids', ops.foldlM (OpN.apply FloatOps.exact 4) h0 = .ok r ∧
    TracksA FloatOps.exact r grids' (enteredRows ops) ∧
    HullN FloatOps.exact grids grids' ((enteredRows ops).map (·.1)) ∧
    r.missed = some 0 ∧ r.total = h0.total + ((enteredRows ops).map (·.2)).sum ∧
    (∀ row ∈ enteredRows ops, ∃ idx, r.findBin FloatOps.exact row.1 = some idx) := by
  have := C04_nd_every_history_exact 4 ops h0 grids [] (tracksA_empty _ grids flags true none none) widths
    valid accepted
  simpa using this

/-- … and the model computes what the theorem says: axis 0 spans the cells `-3 … 50` of the grid
    `k/10`, axis 1 the cells `-3 … 1` of the grid `2k`; total `7/2`; the three weights sit in the cells
    of their rows; nothing missed; the contents are the fixed-bin histogram of the rows over the
    final bins. -/
example :
    ((ops.foldlM (OpN.apply FloatOps.exact 4) h0).toOption.map fun r => (r.axes, r.total, r.missed, r.freq.shape))
      = some ([.fixed { w := 1 / 10, tmin := -3, count := 54, adaptive := true },
               .fixed { w := 2, tmin := -3, count := 5, adaptive := true }], 7 / 2, some 0, [54, 5]) ∧
    ((ops.foldlM (OpN.apply FloatOps.exact 4) h0).toOption.map fun r =>
      (r.freq.get [20, 4], r.freq.get [0, 0], r.freq.get [53, 3], r.findBin FloatOps.exact [17 / 10, 3]))
      = some (1, 2, 1 / 2, some [20, 4]) ∧
    ((ops.foldlM (OpN.apply FloatOps.exact 4) h0).toOption.map fun r =>
      decide (r.freq = (calcND (r.axesBins FloatOps.exact) (enteredRows ops)).freq)) = some true := by
  refine ⟨by decide +kernel, by decide +kernel, by decide +kernel⟩

/-- the same rows entered one by one in one batch, and constructed at once (in another order) over the
    static copy of the final bins: same contents -/
example :
    ((ops.foldlM (OpN.apply FloatOps.exact 4) h0).toOption.map fun r => (r.axes, r.freq, r.err2, r.missed))
      = ((HN.fillN FloatOps.exact 4 h0 [[some (17 / 10), some 3], [some (-3 / 10), some (-5)], [some 5, some (1 / 2)]]
          (some [1, 2, 1 / 2]) .f64).toOption.map fun r => (r.axes, r.freq, r.err2, r.missed)) ∧
    ((ops.foldlM (OpN.apply FloatOps.exact 4) h0).toOption.bind fun r =>
      (HN.construct FloatOps.exact (r.axes.map (Binning.asStatic FloatOps.exact))
        [[some 5, some (1 / 2)], [some (17 / 10), some 3], [some (-3 / 10), some (-5)]] (some [1 / 2, 1, 2]) .f64 true
        none).toOption.map fun c => decide (c.freq = r.freq ∧ c.err2 = r.err2 ∧ c.missed = r.missed)) = some true := by
  refine ⟨by decide +kernel, by decide +kernel⟩

/-- the single-`fill` theorem instantiated on the empty histogram (`count = 0` on both axes) -/
example : ∃ grids' idx,
    TracksA FloatOps.exact ((h0.fill FloatOps.exact 4 ([17 / 10, 3].map some) 1 .pyInt).1) grids' ([] ++ [([17 / 10, 3], 1)]) ∧
    HullN FloatOps.exact grids grids' [[17 / 10, 3]] ∧
    (h0.fill FloatOps.exact 4 ([17 / 10, 3].map some) 1 .pyInt).2 = some (some idx) ∧
    (h0.fill FloatOps.exact 4 ([17 / 10, 3].map some) 1 .pyInt).1.findBin FloatOps.exact [17 / 10, 3] = some idx :=
  C04_nd_fill FloatOps.exact 4 h0 grids [] (tracksA_empty _ grids flags true none none)
    (monoGrids_exact grids widths) [17 / 10, 3] rfl (reachGrids_exact grids widths 4 _) 1 .pyInt

/-- pre-filled: the state after the first two calls satisfies the invariant, and the theorem applies
    again to the remaining calls from there -/
example : ∃ r1 grids1 r2 grids2, (ops.take 2).foldlM (OpN.apply FloatOps.exact 4) h0 = .ok r1 ∧
    TracksA FloatOps.exact r1 grids1 (enteredRows (ops.take 2)) ∧
    (ops.drop 2).foldlM (OpN.apply FloatOps.exact 4) r1 = .ok r2 ∧
    TracksA FloatOps.exact r2 grids2 (enteredRows (ops.take 2) ++ enteredRows (ops.drop 2)) ∧
    r2.total = r1.total + ((enteredRows (ops.drop 2)).map (·.2)).sum := by
  obtain ⟨r1, grids1, e1, t1, hu1, _⟩ := C04_nd_every_history_exact 4 (ops.take 2) h0 grids []
    (tracksA_empty _ grids flags true none none) widths
    (fun op hop => valid op (List.mem_of_mem_take hop)) (fun op hop => accepted op (List.mem_of_mem_take hop))
  have hw1 : ∀ g ∈ grids1, 0 < g.w := by
    intro g hg
    obtain ⟨i, hi, rfl⟩ := List.getElem_of_mem hg
    have hi' : i < grids.length := by rw [← hu1.len]; exact hi
    rw [(hu1.each i _ _ (List.getElem?_eq_getElem hi') (List.getElem?_eq_getElem hi)).w]
    exact widths _ (List.getElem_mem hi')
  obtain ⟨r2, grids2, e2, t2, _, _, ht, _⟩ := C04_nd_every_history_exact 4 (ops.drop 2) r1 grids1 _ t1 hw1
    (fun op hop => by rw [hu1.len]; exact valid op (List.mem_of_mem_drop hop))
    (fun op hop => by rw [hu1.len]; exact accepted op (List.mem_of_mem_drop hop))
  rw [List.nil_append] at t1 t2
  exact ⟨r1, grids1, r2, grids2, e1, t1, e2, t2, ht⟩

end ExampleAdaptiveND

/-! ## Non-vacuity: mixed axes — an adaptive grid next to a static right-closed axis -/

namespace ExampleMixedND

def axes : List Binning := [.fixed { w := 1 / 10, adaptive := true }, .static [(0, 1), (1, 2)] true]

/-- the second row of the batch is outside the static axis: it is missed, yet its first coordinate
    makes the adaptive axis grow (as in physt, where all coordinates are handed to
    `_force_bin_existence` before the cells are looked up) -/
def ops : List OpN :=
  [.fill [some (17 / 10), some (1 / 2)] 1 .pyInt,
   .fillN [[some (1 / 2), some 2], [some (-3 / 10), some 5], [none, none]] none .i64]

def h0 : HN := HN.empty FloatOps.exact axes true none none

theorem start : TracksM FloatOps.exact h0 axes [] := by
  apply tracksM_empty _ _ _ (Or.inl rfl)
  intro i g hg ha
  have : Binning.fixed g ∈ axes := List.mem_of_getElem? hg
  simp only [axes, List.mem_cons, List.not_mem_nil, or_false, reduceCtorEq, Binning.fixed.injEq] at this
  subst this
  exact ⟨rfl, rfl⟩

example : ∃ r axes' m, ops.foldlM (OpN.apply FloatOps.exact 4) h0 = .ok r ∧
    TracksM FloatOps.exact r axes' (([] : List Row) ++ enteredRows ops) ∧
    AxesGrown FloatOps.exact axes axes' ((enteredRows ops).map (·.1)) ∧
    r.missed = some m ∧ r.total + m = ((([] : List Row) ++ enteredRows ops).map (·.2)).sum := by
  apply C04_nd_mixed_history_exact 4 ops h0 axes [] start
  · intro i g hg _
    have : Binning.fixed g ∈ axes := List.mem_of_getElem? hg
    simp only [axes, List.mem_cons, List.not_mem_nil, or_false, reduceCtorEq, Binning.fixed.injEq] at this
    subst this
    norm_num
  · intro b hb hna
    simp only [axes, List.mem_cons, List.not_mem_nil, or_false] at hb
    rcases hb with rfl | rfl
    · cases hna
    · exact (risingB_iff [(0, 1), (1, 2)]).mp (by decide +kernel)
  · intro op hop
    simp only [ops, List.mem_cons, List.not_mem_nil, or_false] at hop
    rcases hop with rfl | rfl <;> simp [OpN.Valid, axes]
  · intro op hop
    simp only [ops, List.mem_cons, List.not_mem_nil, or_false] at hop
    rcases hop with rfl | rfl <;> simp [OpN.Accepted, axes]

/-- computed: the adaptive axis spans the cells `-3 … 17` (the missed row's `-3/10` included), the
    static axis is untouched, two rows counted, one missed -/
example :
    ((ops.foldlM (OpN.apply FloatOps.exact 4) h0).toOption.map fun r => (r.axes, r.total, r.missed, r.freq.shape))
      = some ([.fixed { w := 1 / 10, tmin := -3, count := 21, adaptive := true }, .static [(0, 1), (1, 2)] true],
              2, some 1, [21, 2]) := by
  decide +kernel

end ExampleMixedND

end Physt

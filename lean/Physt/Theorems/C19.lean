import Physt.Model.Config
/-!
# C19 — the free-arithmetics switch is scoped, restored and isolated per context
-/
namespace Physt

/-- Operation sequences a block body can consist of: anything well-bracketed (plain settings,
    reads, arithmetic, and complete nested blocks — a block that is left because its body raised
    is still left by exactly one `exit`). -/
inductive Balanced : List COp → Prop
  | nil : Balanced []
  | set (v : Bool) {ops} : Balanced ops → Balanced (.set v :: ops)
  | read {ops} : Balanced ops → Balanced (.read :: ops)
  | arith {ops} : Balanced ops → Balanced (.arith :: ops)
  | block (v : Bool) {body rest} : Balanced body → Balanced rest →
      Balanced (.enter v :: body ++ .exit :: rest)

theorem Ctx.run_append (dflt : Bool) (c : Ctx) (a b : List COp) :
    (c.run dflt (a ++ b)).1 = ((c.run dflt a).1.run dflt b).1 := by
  induction a generalizing c with
  | nil => rfl
  | cons op ops ih => simp only [List.cons_append, Ctx.run]; exact ih _

/-- A balanced sequence never touches the tokens below it. -/
theorem balanced_stack (dflt : Bool) {ops : List COp} (h : Balanced ops) (c : Ctx) :
    (c.run dflt ops).1.stack = c.stack := by
  induction h generalizing c with
  | nil => rfl
  | set v _ ih => simp only [Ctx.run, Ctx.step]; exact ih _
  | read _ ih => simp only [Ctx.run, Ctx.step]; exact ih _
  | arith _ ih => simp only [Ctx.run, Ctx.step]; exact ih _
  | @block v body rest _ _ ihb ihr =>
    have hcons : (Ctx.run dflt c (.enter v :: body ++ .exit :: rest)).1
        = (Ctx.run dflt (Ctx.run dflt { val := some v, stack := c.val :: c.stack } body).1 (.exit :: rest)).1 := by
      rw [show (COp.enter v :: body ++ COp.exit :: rest) = COp.enter v :: (body ++ COp.exit :: rest) from rfl]
      simp only [Ctx.run, Ctx.step]
      exact Ctx.run_append dflt _ body (.exit :: rest)
    rw [hcons]
    have hb := ihb { val := some v, stack := c.val :: c.stack }
    simp only [Ctx.run]
    generalize hc1 : (Ctx.run dflt { val := some v, stack := c.val :: c.stack } body).1 = c1 at hb ⊢
    simp only at hb
    simp only [Ctx.step, hb]
    exact ihr _

/-- **Restore.** `with enable_free_arithmetics(v): body` — for every well-bracketed body, nested
    to any depth, whether blocks are left normally or by an exception — leaves the value and the
    token stack exactly as they were before the block. -/
theorem C19_restore (dflt : Bool) (v : Bool) (body : List COp) (hb : Balanced body) (c : Ctx) :
    (c.run dflt (.enter v :: body ++ [.exit])).1 = c := by
  have hcons : (Ctx.run dflt c (.enter v :: body ++ [.exit])).1
      = (Ctx.run dflt (Ctx.run dflt { val := some v, stack := c.val :: c.stack } body).1 [.exit]).1 := by
    rw [show (COp.enter v :: body ++ [COp.exit]) = COp.enter v :: (body ++ [COp.exit]) from rfl]
    simp only [Ctx.run, Ctx.step]
    exact Ctx.run_append dflt _ body [.exit]
  rw [hcons]
  have hs := balanced_stack dflt hb { val := some v, stack := c.val :: c.stack }
  generalize (Ctx.run dflt { val := some v, stack := c.val :: c.stack } body).1 = c1 at hs ⊢
  simp only at hs
  simp only [Ctx.run, Ctx.step, hs]

/-- inside the block the value is the one requested, until it is changed inside the block -/
theorem C19_inside (dflt : Bool) (v : Bool) (c : Ctx) :
    ((c.run dflt [.enter v, .read]).2) = [.none, .value v] := by
  simp [Ctx.run, Ctx.step, Ctx.read]

/-- the operations of thread `t` inside a schedule -/
def own (t : Nat) (sched : List (Nat × COp)) : List COp := (sched.filter (·.1 = t)).map (·.2)

/-- no operation of the schedule starts (re-initialises) thread `t` -/
def NotSpawned (t : Nat) (sched : List (Nat × COp)) : Prop :=
  ∀ p ∈ sched, p.2 ≠ .spawnThread t ∧ p.2 ≠ .spawnTask t

theorem World.step_other (dflt : Bool) (w : World) (u : Nat) (op : COp) (t : Nat) (hut : u ≠ t)
    (h1 : op ≠ .spawnThread t) (h2 : op ≠ .spawnTask t) : (w.step dflt u op).1 t = w t := by
  unfold World.step
  cases op <;> simp [World.set, Ne.symm hut] <;> rename_i child <;>
    (by_cases hc : t = child
     · subst hc; simp_all
     · simp [hc])

theorem World.step_own (dflt : Bool) (w : World) (t : Nat) (op : COp)
    (h1 : op ≠ .spawnThread t) (h2 : op ≠ .spawnTask t) :
    (w.step dflt t op).1 t = ((w t).step dflt op).1 ∧ (w.step dflt t op).2 = ((w t).step dflt op).2 := by
  unfold World.step
  cases op <;> simp [World.set] <;> rename_i child <;>
    (by_cases hc : t = child
     · subst hc; simp_all
     · simp [hc])

/-- **Isolation.** Under every schedule — every interleaving of any number of threads and tasks —
    what thread `t` observes, and the context it ends with, are exactly what it observes when it
    runs its own operations alone from the context it started with: no `set`, `enter` or `exit`
    of another thread or task is ever visible to it. -/
theorem C19_isolate (dflt : Bool) (sched : List (Nat × COp)) (t : Nat) (w : World)
    (hns : NotSpawned t sched) :
    ((w.run dflt sched).1 t) = ((w t).run dflt (own t sched)).1 ∧
    ((w.run dflt sched).2.filter (·.1 = t)).map (·.2) = ((w t).run dflt (own t sched)).2 := by
  induction sched generalizing w with
  | nil => simp [World.run, Ctx.run, own]
  | cons p rest ih =>
    obtain ⟨u, op⟩ := p
    have hp := hns (u, op) (List.mem_cons_self ..)
    have hrest : NotSpawned t rest := fun q hq => hns q (List.mem_cons_of_mem _ hq)
    simp only [World.run]
    by_cases hut : u = t
    · subst hut
      have hs := World.step_own dflt w u op hp.1 hp.2
      have ih' := ih (w.step dflt u op).1 hrest
      simp only [own, List.filter_cons, decide_true, if_true, List.map_cons, Ctx.run] at ih' ⊢
      rw [hs.1] at ih'
      refine ⟨ih'.1, ?_⟩
      rw [ih'.2, hs.2]
    · have hs := World.step_other dflt w u op t hut hp.1 hp.2
      have ih' := ih (w.step dflt u op).1 hrest
      have hf : decide (u = t) = false := by simp [hut]
      simp only [own, List.filter_cons, hf] at ih' ⊢
      rw [hs] at ih'
      exact ih'

/-- **Gate.** Array operands / negative contents are accepted exactly when the value the current
    context reads is true; a context in which nothing was set reads the environment default. -/
theorem C19_gate (dflt : Bool) (c : Ctx) :
    (c.step dflt .arith).2 = .accepted (c.read dflt) ∧ (({} : Ctx).read dflt) = dflt := by
  simp [Ctx.step, Ctx.read]

/-- a fresh thread sees the default, a fresh task sees its creator's value at creation -/
theorem C19_spawn (dflt : Bool) (w : World) (p child : Nat) :
    ((w.step dflt p (.spawnThread child)).1 child).read dflt = dflt ∧
    ((w.step dflt p (.spawnTask child)).1 child).read dflt = (w p).read dflt := by
  simp [World.step, World.set, Ctx.step, Ctx.read]

/-! Non-vacuity: a nested body with an inner block left by an exception is `Balanced`. -/
example : Balanced [.set true, .enter false, .read, .enter true, .arith, .exit, .exit, .read] :=
  .set true (.block false (body := [.read, .enter true, .arith, .exit])
    (.read (.block true (body := [.arith]) (.arith .nil) .nil)) (.read .nil))

example : (({ val := some true } : Ctx).run false
    [.enter false, .read, .enter true, .set false, .exit, .read, .exit, .read]).2
    = [.none, .value false, .none, .none, .none, .value false, .none, .value true] := by
  decide

end Physt

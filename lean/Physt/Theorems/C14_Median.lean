import Physt.Proofs.Quantiles
/-!
# C14 (continued) — the median recorded by an unweighted construction is the data median
Helper lemmas: `Proofs/Quantiles.lean`.
-/
namespace Physt

/-- **Construction records the median of the values entered** (NaN dropped). -/
theorem C14_construct_median (fo : FloatOps) (b : Binning) (vs : List (Option Rat)) (wkind : DType)
    (dtype : Option DType) (keep dropna : Bool) (r : H1)
    (h : H1.construct fo b vs none wkind dtype keep dropna = .ok r) :
    r.stats.median = H1.medianOf (vs.filterMap id) :=
  construct_median fo b vs wkind dtype keep dropna r h

/-- **It is the median**, whatever sorting algorithm is used: for any sorted permutation `s` of the
    data it is the middle order statistic (odd count) or the mean of the two middle ones (even). -/
theorem C14_median_sorted (vs s : List Rat) (hp : s.Perm vs) (hs : s.Pairwise (· ≤ ·)) :
    (s.length = 0 → H1.medianOf vs = none) ∧
    (∀ h : s.length % 2 = 1, H1.medianOf vs = some (s[s.length / 2]'(by omega))) ∧
    (∀ (h : s.length % 2 = 0) (hpos : 0 < s.length),
      H1.medianOf vs = some ((s[s.length / 2 - 1]'(by omega) + s[s.length / 2]'(by omega)) / 2)) :=
  medianOf_sorted_perm vs s hp hs

/-- at least half of the values are ≤ the median and at least half are ≥ it -/
theorem C14_median_halves (vs : List Rat) (m : Rat) (h : H1.medianOf vs = some m) :
    (vs.length + 1) / 2 ≤ vs.countP (fun v => decide (v ≤ m)) ∧
    (vs.length + 1) / 2 ≤ vs.countP (fun v => decide (m ≤ v)) :=
  medianOf_count vs m h

/-- the order of the data does not matter; the median is the 50 % quantile -/
theorem C14_median_perm_quantile (vs ws s : List Rat) (h : vs.Perm ws) (hp : s.Perm vs) (hs : s.Pairwise (· ≤ ·)) :
    H1.medianOf vs = H1.medianOf ws ∧ H1.medianOf vs = quantile s (1 / 2) :=
  ⟨medianOf_perm vs ws h, medianOf_eq_quantile vs s hp hs⟩

example : H1.medianOf [5, 1, 4, 2] = some 3 ∧ H1.medianOf [3, 1, 2] = some 2 := by decide +kernel

end Physt

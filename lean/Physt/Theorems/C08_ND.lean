import Physt.Theorems.C08
import Physt.Model.JsonND
/-!
# C08 (continued) — round trip of N-d histograms and of collections
-/
namespace Physt

theorem map_binning_roundtrip (fo : FloatOps) (axes : List Binning) :
    (axes.map fun b => ((b.toDict fo).toBinning).toDict fo) = axes.map (Binning.toDict fo) := by
  induction axes with
  | nil => rfl
  | cons b bs ih => simp only [List.map_cons, binning_dict_roundtrip, ih]

/-- **Round trip, N dimensions.** Reading back what was written reproduces the bins of every axis
    (type and parameters), the shape, contents, squared errors, dtype, missed, `keep_missed` and
    the axis names. -/
theorem C08_nd_roundtrip (fo : FloatOps) (h : HN) : HN.fromDict (h.toDict fo) = h.canon fo := by
  unfold HN.fromDict HN.toDict HN.canon
  simp [List.map_map, Function.comp_def]

/-- the bins of every axis survive bit for bit -/
theorem C08_nd_bins (fo : FloatOps) (h : HN) :
    (HN.fromDict (h.toDict fo)).axes.map (·.bins fo) = h.axes.map (·.bins fo) := by
  unfold HN.fromDict HN.toDict
  simp only [List.map_map]
  apply List.map_congr_left
  intro b _
  cases b with
  | static bins ire => rfl
  | fixed g => rfl

/-- **Stability, N dimensions**: serialising the parsed object again gives the same document
    (the document carries one shape for both arrays). -/
theorem C08_nd_stable (fo : FloatOps) (h : HN) :
    (HN.fromDict (h.toDict fo)).toDict fo = h.toDict fo := by
  unfold HN.toDict HN.fromDict
  simp [List.map_map, Function.comp_def, binning_dict_roundtrip]

/-- **Round trip of a collection**: name, title, the shared binning and every member. -/
theorem C08_coll_roundtrip (fo : FloatOps) (c : Coll) : Coll.fromDict (c.toDict fo) = c.canon fo := by
  unfold Coll.fromDict Coll.toDict Coll.canon
  simp only [List.map_map]
  have : c.members.map (H1.fromDict ∘ H1.toDict fo) = c.members.map (H1.canon fo) :=
    List.map_congr_left fun m _ => C08_roundtrip fo m
  rw [this]

/-! Non-vacuity -/
def exampleGrid : Grid := { w := 1 / 2, tmin := 3, count := 2 }
def exampleHN : HN :=
  { axes := [.static [(0, 1), (1, 2)] true, .fixed exampleGrid],
    freq := { shape := [2, 2], data := [1, 2, 3, 4] }, err2 := { shape := [2, 2], data := [1, 2, 3, 4] },
    missed := some 2, names := ["x", "y"] }
example : HN.fromDict (exampleHN.toDict FloatOps.exact) = exampleHN.canon FloatOps.exact ∧
    (HN.fromDict (exampleHN.toDict FloatOps.exact)).freq.data = [1, 2, 3, 4] ∧
    (HN.fromDict (exampleHN.toDict FloatOps.exact)).missed = some 2 :=
  ⟨C08_nd_roundtrip _ _, rfl, rfl⟩

end Physt

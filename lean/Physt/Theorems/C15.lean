import Physt.Model.Special
import Mathlib.Analysis.SpecialFunctions.Complex.Arg
/-!
# C15 — transformed histograms bin points by their true coordinates

`atan2(y, x)` is `Complex.arg (x + y·i)`; numpy's `% (2π)` folds the negative half into `[π, 2π)`.
-/
namespace Physt
open Real Complex

/-- `np.arctan2(y, x) % (2π)` over the reals -/
noncomputable def phiOf (x y : ℝ) : ℝ :=
  let a := Complex.arg ⟨x, y⟩
  if a < 0 then a + 2 * π else a

/-- `np.hypot(x, y)` -/
noncomputable def rhoOf (x y : ℝ) : ℝ := ‖(⟨x, y⟩ : ℂ)‖

theorem rhoOf_sq (x y : ℝ) : rhoOf x y ^ 2 = x ^ 2 + y ^ 2 := by
  unfold rhoOf
  rw [← Complex.normSq_eq_norm_sq, Complex.normSq_mk]; ring

theorem phiOf_neg (x y : ℝ) (h : Complex.arg ⟨x, y⟩ < 0) : phiOf x y = Complex.arg ⟨x, y⟩ + 2 * π := by
  unfold phiOf; simp only [h, if_true]

theorem phiOf_nonneg (x y : ℝ) (h : ¬ Complex.arg ⟨x, y⟩ < 0) : phiOf x y = Complex.arg ⟨x, y⟩ := by
  unfold phiOf; simp only [h, if_false]

/-- **Polar coordinates.** `r ≥ 0`, `r² = x² + y²`, `φ ∈ [0, 2π)`, and the inverse formulas
    `x = r cos φ`, `y = r sin φ` recover the point. -/
theorem C15_polar (x y : ℝ) :
    0 ≤ rhoOf x y ∧ rhoOf x y ^ 2 = x ^ 2 + y ^ 2 ∧ 0 ≤ phiOf x y ∧ phiOf x y < 2 * π ∧
    rhoOf x y * Real.cos (phiOf x y) = x ∧ rhoOf x y * Real.sin (phiOf x y) = y := by
  have hc : rhoOf x y * Real.cos (Complex.arg ⟨x, y⟩) = x := Complex.norm_mul_cos_arg _
  have hs : rhoOf x y * Real.sin (Complex.arg ⟨x, y⟩) = y := Complex.norm_mul_sin_arg _
  have h1 := Complex.neg_pi_lt_arg (⟨x, y⟩ : ℂ)
  have h2 := Complex.arg_le_pi (⟨x, y⟩ : ℂ)
  have hpi := Real.pi_pos
  refine ⟨norm_nonneg _, rhoOf_sq x y, ?_, ?_, ?_, ?_⟩
  · by_cases ha : Complex.arg ⟨x, y⟩ < 0
    · rw [phiOf_neg x y ha]; linarith
    · rw [phiOf_nonneg x y ha]; linarith
  · by_cases ha : Complex.arg ⟨x, y⟩ < 0
    · rw [phiOf_neg x y ha]; linarith
    · rw [phiOf_nonneg x y ha]; linarith
  · by_cases ha : Complex.arg ⟨x, y⟩ < 0
    · rw [phiOf_neg x y ha, Real.cos_add_two_pi]; exact hc
    · rw [phiOf_nonneg x y ha]; exact hc
  · by_cases ha : Complex.arg ⟨x, y⟩ < 0
    · rw [phiOf_neg x y ha, Real.sin_add_two_pi]; exact hs
    · rw [phiOf_nonneg x y ha]; exact hs

/-- the polar angle `θ = atan2(ρ, z)` with `ρ = hypot(x, y) ≥ 0` -/
noncomputable def thetaOf (x y z : ℝ) : ℝ := Complex.arg ⟨z, rhoOf x y⟩
noncomputable def rOf (x y z : ℝ) : ℝ := ‖(⟨z, rhoOf x y⟩ : ℂ)‖

/-- **Spherical coordinates.** `r ≥ 0`, `r² = x² + y² + z²`, `θ ∈ [0, π]` measured from the `+z`
    axis, `φ ∈ [0, 2π)`, and `x = r sin θ cos φ`, `y = r sin θ sin φ`, `z = r cos θ`. -/
theorem C15_spherical (x y z : ℝ) :
    0 ≤ rOf x y z ∧ rOf x y z ^ 2 = x ^ 2 + y ^ 2 + z ^ 2 ∧ 0 ≤ thetaOf x y z ∧ thetaOf x y z ≤ π ∧
    rOf x y z * Real.cos (thetaOf x y z) = z ∧
    rOf x y z * Real.sin (thetaOf x y z) * Real.cos (phiOf x y) = x ∧
    rOf x y z * Real.sin (thetaOf x y z) * Real.sin (phiOf x y) = y := by
  have hρ : 0 ≤ rhoOf x y := norm_nonneg _
  have hc : rOf x y z * Real.cos (thetaOf x y z) = z := Complex.norm_mul_cos_arg (⟨z, rhoOf x y⟩ : ℂ)
  have hs : rOf x y z * Real.sin (thetaOf x y z) = rhoOf x y := Complex.norm_mul_sin_arg (⟨z, rhoOf x y⟩ : ℂ)
  have hp := C15_polar x y
  refine ⟨norm_nonneg _, ?_, ?_, Complex.arg_le_pi _, hc, ?_, ?_⟩
  · unfold rOf
    rw [← Complex.normSq_eq_norm_sq, Complex.normSq_mk]
    have := rhoOf_sq x y
    nlinarith
  · unfold thetaOf
    rw [Complex.arg_nonneg_iff]; exact hρ
  · rw [hs]; exact hp.2.2.2.2.1
  · rw [hs]; exact hp.2.2.2.2.2

/-- **Cylindrical coordinates**: `(ρ, φ)` are the polar coordinates of `(x, y)`, `z` is unchanged. -/
theorem C15_cylindrical (x y z : ℝ) :
    0 ≤ rhoOf x y ∧ rhoOf x y ^ 2 = x ^ 2 + y ^ 2 ∧ rhoOf x y * Real.cos (phiOf x y) = x ∧
    rhoOf x y * Real.sin (phiOf x y) = y ∧ z = z :=
  ⟨(C15_polar x y).1, (C15_polar x y).2.1, (C15_polar x y).2.2.2.2.1, (C15_polar x y).2.2.2.2.2, rfl⟩

section paths
variable {P T S R : Type} (m : Mixin P T S R)

/-- **All entry paths agree.** Entering a Cartesian point is entering its transformed coordinates
    with `transformed=True`: for `find_bin`, `fill` and (any list of points) `fill_n`; the point is
    transformed exactly once. -/
theorem C15_paths (s : S) (p : P) (ps : List P) :
    m.findBin s (.inl p) = m.findBin s (.inr (m.transform p)) ∧
    m.fill s (.inl p) = m.fill s (.inr (m.transform p)) ∧
    m.fillN s (ps.map .inl) = m.fillN s (ps.map fun p => .inr (m.transform p)) := by
  refine ⟨rfl, rfl, ?_⟩
  induction ps generalizing s with
  | nil => rfl
  | cons q qs ih => simp only [List.map_cons, Mixin.fillN, List.foldl_cons]; exact ih _

/-- `fill` puts the point where `find_bin` finds it, when the inherited `fill` does so -/
theorem C15_fill_find (hbase : ∀ s t, (m.baseFill s t).2 = m.baseFind s t) (s : S) (v : Sum P T) :
    (m.fill s v).2 = m.findBin s v := by
  cases v <;> simp [Mixin.fill, Mixin.findBin, hbase]

end paths

/-- **Projection classes** (`_projection_class_map`): radial / azimuthal parts of polar and
    cylindrical histograms, the sphere surface of a spherical one, the cylinder surface `(φ, z)` of a
    cylindrical one; anything else is a plain histogram. -/
theorem C15_projection_classes :
    projectionClass "PolarHistogram" [0] = some "RadialHistogram" ∧
    projectionClass "PolarHistogram" [1] = some "AzimuthalHistogram" ∧
    projectionClass "SphericalHistogram" [1, 2] = some "SphericalSurfaceHistogram" ∧
    projectionClass "SphericalHistogram" [0] = some "RadialHistogram" ∧
    projectionClass "CylindricalHistogram" [0, 1] = some "PolarHistogram" ∧
    projectionClass "CylindricalHistogram" [1, 2] = some "CylindricalSurfaceHistogram" ∧
    projectionClass "CylindricalHistogram" [0, 2] = none ∧ projectionClass "SphericalHistogram" [0, 1] = none := by
  decide

/-! Non-vacuity: the negative x half-axis has φ = π, the negative y half-axis φ = 3π/2 -/
example : phiOf (-1) 0 = π := by
  have : Complex.arg (⟨-1, 0⟩ : ℂ) = π := by
    have : (⟨-1, 0⟩ : ℂ) = -1 := by apply Complex.ext <;> simp
    rw [this, Complex.arg_neg_one]
  unfold phiOf; simp only [this]
  simp [not_lt.mpr (le_of_lt Real.pi_pos)]

end Physt

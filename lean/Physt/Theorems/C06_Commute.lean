import Physt.Proofs.ComposeScale
/-!
# C06 (composition) — chains of scalings, commutation with the linear operations, idempotence of `normalize`

In the model `h * c` and `c * h` are the same function (`__rmul__` is `__mul__` in physt), and the in-place
and the copying spellings are the same function on values.  What IS meaningful, and proved here for
histograms of every size and chains of every length (helper lemmas: `Proofs/ComposeScale.lean`):

* (i)   a chain of `*= c` / `/= c` equals ONE scaling by the product of the factors — contents and missed
        slots × p, squared errors × p², statistics sums and weight × p — and the dtype it ends in is the
        initial one promoted with every scalar's (`float64` for a division);
* (ii)  scalings commute with one another (any reordering of a chain), with `+=` over equal bins, with
        `merge_bins` (explicit map / `amount`), with slicing and with `projection`;
* (iii) `normalize` is idempotent.

Every statement has the form "if the calls are accepted then …": the sign refusal (`negative frequencies`,
free arithmetics off) and division by zero are explicit, and `C06_chain_accepted` gives a sufficient
condition for acceptance.  Acceptance itself does NOT commute — see `C06_acceptance_order`.

Reading guide: `ScaleOp.mul c k` is `h *= c` with a scalar of kind `k`, `ScaleOp.div c` is `h /= c`;
`chainFactor ops` is the product of the factors (`c`, resp. `1 / c`); `chainDType d ops` is `d` promoted with
every step's dtype in turn; `ScaledBy h r p` says that `r` is `h` with contents, underflow, overflow and
inner-missed × p, squared errors × p², same bins and `keep_missed` (`ScaledByN` likewise in N dimensions).
-/
namespace Physt
open H1

/-! ## (i) chains -/

/-- **A chain of scalings is one scaling by the product** (1-D).  If `((h op₁) op₂) … opₙ` is accepted then every
    division was by a non-zero number, the result is `h` scaled by the product `p` of the factors, its dtype
    is `h`'s promoted with every step's, and (for a non-empty chain) its statistics are `h`'s scaled by `p`
    and no content is negative. -/
theorem C06_chain (ops : List ScaleOp) (h r : H1) (hr : h.scaleChain ops = .ok r) :
    ScaledBy h r (chainFactor ops) ∧ r.dtype = chainDType h.dtype ops ∧
    (ops ≠ [] → r.stats = h.stats.scale (chainFactor ops) ∧ r.freq.any (· < 0) = false) ∧
    (∀ op ∈ ops, op.defined) :=
  let ⟨a, b, _, c, d⟩ := scaleChain_ok ops h r hr
  ⟨a, b, c, d⟩

/-- … and the single multiplication by the product is itself accepted and returns the same histogram
    (the dtype aside, which a chain promotes step by step). -/
theorem C06_chain_single (ops : List ScaleOp) (hne : ops ≠ []) (h r : H1) (hr : h.scaleChain ops = .ok r)
    (k : NumKind) :
    ∃ r', h.imul (chainFactor ops) k = .ok r' ∧ r = { r' with dtype := chainDType h.dtype ops } :=
  scaleChain_eq_single ops hne h r hr k

/-- statistics under a chain: recorded weight, `Σ w·x` and `Σ w·x²` are multiplied by the product -/
theorem C06_chain_stats (ops : List ScaleOp) (hne : ops ≠ []) (h r : H1) (hr : h.scaleChain ops = .ok r)
    (hv : h.stats.valid = true) :
    r.stats.weight = h.stats.weight * chainFactor ops ∧ r.stats.sum = h.stats.sum * chainFactor ops ∧
    r.stats.sum2 = h.stats.sum2 * chainFactor ops ∧ r.stats.min = h.stats.min ∧ r.stats.max = h.stats.max := by
  obtain ⟨_, _, st, _⟩ := C06_chain ops h r hr
  rw [(st hne).1]
  simp [Stats.scale, hv]

/-- **A chain whose factors multiply to 1 reproduces `h`** — `(h * c) / c`, `((h * a) * b) / (a * b)`, … : contents,
    squared errors, missed slots and bins come back exactly (the dtype has been promoted on the way). -/
theorem C06_chain_identity (ops : List ScaleOp) (h r : H1) (hr : h.scaleChain ops = .ok r)
    (hp : chainFactor ops = 1) :
    r.freq = h.freq ∧ r.err2 = h.err2 ∧ r.under = h.under ∧ r.over = h.over ∧ r.inner = h.inner ∧
    r.binning = h.binning ∧ r.keep = h.keep :=
  ((C06_chain ops h r hr).1.congr hp).one

/-- **Acceptance.**  A chain of non-negative factors (no division by zero) on non-negative contents is accepted. -/
theorem C06_chain_accepted (ops : List ScaleOp) (h : H1) (hpos : ∀ x ∈ h.freq, 0 ≤ x)
    (hops : ∀ op ∈ ops, op.defined ∧ 0 ≤ op.factor) : ∃ r, h.scaleChain ops = .ok r :=
  scaleChain_accepted ops h hpos hops

/-- the dtype a chain ends in does not depend on the order of its steps, and is `h`'s dtype promoted with the
    join of the steps' dtypes (`promote` is commutative, associative and idempotent) -/
theorem C06_chain_dtype (a b : List ScaleOp) (hp : a.Perm b) (d : DType) : chainDType d a = chainDType d b :=
  chainDType_perm hp d

/-! ## (ii) commutation -/

/-- **Scalings commute** (1-D): two accepted chains made of the same steps in any order give the same histogram —
    contents, squared errors, missed slots, dtype, statistics. -/
theorem C06_commute (a b : List ScaleOp) (hp : a.Perm b) (h r₁ r₂ : H1) (h1 : h.scaleChain a = .ok r₁)
    (h2 : h.scaleChain b = .ok r₂) : r₁ = r₂ :=
  scaleChain_perm a b hp h r₁ r₂ h1 h2

/-- the two-step form: `(h * c) * d = (h * d) * c` -/
theorem C06_commute_two (h m₁ r₁ m₂ r₂ : H1) (c d : Rat) (kc kd : NumKind)
    (h1 : h.imul c kc = .ok m₁) (h2 : m₁.imul d kd = .ok r₁)
    (h3 : h.imul d kd = .ok m₂) (h4 : m₂.imul c kc = .ok r₂) : r₁ = r₂ := by
  apply C06_commute [.mul c kc, .mul d kd] [.mul d kd, .mul c kc] (List.Perm.swap _ _ _) h
  · simp only [H1.scaleChain, H1.scaleOp, bind, Except.bind, h1, h2]; rfl
  · simp only [H1.scaleChain, H1.scaleOp, bind, Except.bind, h3, h4]; rfl

/-- **Acceptance does not commute.**  `(h * 0) * (-1)` is accepted (every content is 0 after the first step),
    `(h * (-1)) * 0` is refused at its first step: the sign check looks at every intermediate result. -/
theorem C06_acceptance_order :
    let h : H1 := { binning := .static [(0, 1), (1, 2)] true, freq := [2, 3], err2 := [2, 3] }
    (h.scaleChain [.mul 0 .pyInt, .mul (-1) .pyInt]).toOption.map (·.freq) = some [0, 0] ∧
    (h.scaleChain [.mul (-1) .pyInt, .mul 0 .pyInt]).toOption = none := by
  decide +kernel

/-- **`(a + b) * c = a * c + b * c`** over equal bins (1-D): contents, squared errors (× c²), missed slots,
    dtype and statistics of the two sides coincide whenever all the calls are accepted. -/
theorem C06_distrib_add (fo : FloatOps) (a b s r a' b' r' : H1) (c : Rat) (k : NumKind)
    (hs : a.sameBins fo b = true) (h1 : a.iadd fo b = .ok s) (h2 : s.imul c k = .ok r)
    (h3 : a.imul c k = .ok a') (h4 : b.imul c k = .ok b') (h5 : a'.iadd fo b' = .ok r') : r = r' :=
  iadd_imul_distrib fo a b s r a' b' r' c k hs h1 h2 h3 h4 h5

/-- **`merge_bins` commutes with scaling** (1-D, explicit bin map). -/
theorem C06_merge_comm (fo : FloatOps) (h m r h' r' : H1) (map : List Nat) (c : Rat) (k : NumKind)
    (h1 : mergeWithMap fo h map = .ok m) (h2 : m.imul c k = .ok r)
    (h3 : h.imul c k = .ok h') (h4 : mergeWithMap fo h' map = .ok r') : r = r' :=
  mergeWithMap_imul_comm fo h m r h' r' map c k h1 h2 h3 h4

/-- … in particular `merge_bins(amount=…)`.  (`merge_bins(min_frequency=…)` does NOT commute with scaling: its
    bin map is computed from the contents themselves.) -/
theorem C06_merge_amount_comm (fo : FloatOps) (h m r h' r' : H1) (amount : Nat) (c : Rat) (k : NumKind)
    (h1 : mergeAmount fo h amount = .ok m) (h2 : m.imul c k = .ok r)
    (h3 : h.imul c k = .ok h') (h4 : mergeAmount fo h' amount = .ok r') : r = r' :=
  mergeAmount_imul_comm fo h m r h' r' amount c k h1 h2 h3 h4

/-- **Slicing commutes with scaling** (1-D): `h[a:b] * c = (h * c)[a:b]`, including the weight that the slice
    moves into underflow / overflow. -/
theorem C06_slice_comm (fo : FloatOps) (h r h' : H1) (start stop : Option Int) (c : Rat) (k : NumKind)
    (h2 : (getSlice fo h start stop).imul c k = .ok r) (h3 : h.imul c k = .ok h') :
    r = getSlice fo h' start stop :=
  getSlice_imul_comm fo h r h' start stop c k h2 h3

/-! ## (iii) idempotence of `normalize` -/

/-- **`normalize` is idempotent** (1-D; in place or copying, with or without `percent`): normalising an accepted
    normalisation is accepted and changes nothing — contents, squared errors, missed slots, dtype, statistics.
    A zero total is refused by the first call already (`C06_normalize_zero`), so no hypothesis on the total is
    needed here. -/
theorem C06_normalize_idem (h r : H1) (inplace percent : Bool) (hr : h.normalize inplace percent = .ok r) :
    r.normalize inplace percent = .ok r :=
  normalize_idem h r inplace percent hr

/-! ## N dimensions -/

/-- **A chain of scalings is one scaling by the product** (N-d, any shape). -/
theorem C06_nd_chain (ops : List ScaleOp) (h r : HN) (hr : h.scaleChain ops = .ok r) :
    ScaledByN h r (chainFactor ops) ∧ r.dtype = chainDType h.dtype ops ∧
    (ops ≠ [] → r.freq.data.any (· < 0) = false) ∧ (∀ op ∈ ops, op.defined) :=
  let ⟨a, b, _, c, d⟩ := HN.scaleChain_ok ops h r hr
  ⟨a, b, c, d⟩

theorem C06_nd_chain_single (ops : List ScaleOp) (hne : ops ≠ []) (h r : HN) (hr : h.scaleChain ops = .ok r)
    (k : NumKind) :
    ∃ r', h.imul (chainFactor ops) k = .ok r' ∧ r = { r' with dtype := chainDType h.dtype ops } :=
  HN.scaleChain_eq_single ops hne h r hr k

/-- **Scalings commute** (N-d). -/
theorem C06_nd_commute (a b : List ScaleOp) (hp : a.Perm b) (h r₁ r₂ : HN) (h1 : h.scaleChain a = .ok r₁)
    (h2 : h.scaleChain b = .ok r₂) : r₁ = r₂ :=
  HN.scaleChain_perm a b hp h r₁ r₂ h1 h2

/-- **`(a + b) * c = a * c + b * c`** over equal bins (N-d). -/
theorem C06_nd_distrib_add (fo : FloatOps) (a b s r a' b' r' : HN) (c : Rat) (k : NumKind)
    (hs : a.sameBins fo b = true) (h1 : a.iadd fo b = .ok s) (h2 : s.imul c k = .ok r)
    (h3 : a.imul c k = .ok a') (h4 : b.imul c k = .ok b') (h5 : a'.iadd fo b' = .ok r') : r = r' :=
  HN.iadd_imul_distrib fo a b s r a' b' r' c k hs h1 h2 h3 h4 h5

/-- **`projection` commutes with scaling**: `projection(h) * c` and `projection(h * c)` have the same bins, names,
    contents, squared errors, missed count; they are the same histogram except for the dtype in ONE situation:
    `int16` contents scaled by a `float16` / `float32` scalar (`C06_nd_projection_dtype`). -/
theorem C06_nd_projection_comm (h p r h' r' : HN) (axes : List (Sum Int String)) (c : Rat) (k : NumKind)
    (h1 : h.projection axes = .ok p) (h2 : p.imul c k = .ok r) (h3 : h.imul c k = .ok h')
    (h4 : h'.projection axes = .ok r') :
    r.axes = r'.axes ∧ r.names = r'.names ∧ r.freq = r'.freq ∧ r.err2 = r'.err2 ∧ r.missed = r'.missed ∧
    r.keep = r'.keep ∧ ((h.dtype = .i16 → k.dtype ≠ .f16 ∧ k.dtype ≠ .f32) → r = r') :=
  HN.projection_imul_comm h p r h' r' axes c k h1 h2 h3 h4

/-- **`select(axis, slice)` commutes with scaling** (N-d). -/
theorem C06_nd_select_comm (fo : FloatOps) (h r h' : HN) (axis : Nat) (start stop : Option Int) (c : Rat)
    (k : NumKind) (h2 : (h.selectSlice fo axis start stop).imul c k = .ok r) (h3 : h.imul c k = .ok h') :
    r = h'.selectSlice fo axis start stop :=
  HN.selectSlice_imul_comm fo h r h' axis start stop c k h2 h3

/-- **`merge_bins(axis)` commutes with scaling** (N-d, explicit bin map). -/
theorem C06_nd_merge_comm (fo : FloatOps) (h m r h' r' : HN) (axis : Nat) (map : List Nat) (c : Rat)
    (k : NumKind) (h1 : h.mergeAxisWithMap fo axis map = .ok m) (h2 : m.imul c k = .ok r)
    (h3 : h.imul c k = .ok h') (h4 : h'.mergeAxisWithMap fo axis map = .ok r') : r = r' :=
  HN.mergeAxisWithMap_imul_comm fo h m r h' r' axis map c k h1 h2 h3 h4

/-- **`normalize` is idempotent** (N-d). -/
theorem C06_nd_normalize_idem (h r : HN) (inplace percent : Bool) (hr : h.normalize inplace percent = .ok r) :
    r.normalize inplace percent = .ok r :=
  HN.normalize_idem h r inplace percent hr

/-! ## Non-vacuity and the limits of the statements -/

namespace CommuteExamples

def h3 : H1 :=
  { binning := .static [(0, 1), (1, 2), (2, 3)] true, freq := [2, 3, 5], err2 := [2, 3, 5], under := some 1,
    over := some 4, dtype := .i32,
    stats := { valid := true, sum := 17, sum2 := 30, min := some (1 / 4), max := some (11 / 4), weight := 10 } }

def chain : List ScaleOp := [.mul 3 .pyInt, .div 2, .mul (1 / 2) .pyFloat, .mul 4 (.np .i16)]

/-- a chain of four steps with product 3: accepted, contents × 3, errors × 9, missed × 3, weight × 3, float64 -/
example : chainFactor chain = 3 ∧ chainDType h3.dtype chain = .f64 ∧
    (h3.scaleChain chain).toOption.map (fun r => (r.freq, r.err2, r.under, r.over, r.dtype, r.stats.weight))
      = some ([6, 9, 15], [18, 27, 45], some 3, some 12, .f64, 30) := by decide +kernel

example : ∃ r, h3.scaleChain chain = .ok r ∧ ScaledBy h3 r 3 := by
  obtain ⟨r, hr⟩ := C06_chain_accepted chain h3 (by decide +kernel) (by
    intro op hop
    simp only [chain, List.mem_cons, List.not_mem_nil, or_false] at hop
    rcases hop with rfl | rfl | rfl | rfl <;> simp [ScaleOp.defined, ScaleOp.factor])
  have h := (C06_chain chain h3 r hr).1
  rw [show chainFactor chain = 3 by decide +kernel] at h
  exact ⟨r, hr, h⟩

/-- the same steps in reverse order: the same histogram -/
example : h3.scaleChain chain = h3.scaleChain chain.reverse ∧ (h3.scaleChain chain).toOption.isSome = true := by
  decide +kernel

/-- a chain that ends in an integer dtype: int32 contents, int and int16 scalars -/
example : (h3.scaleChain [.mul 3 .pyInt, .mul 2 (.np .i16)]).toOption.map (fun r => (r.freq, r.dtype))
    = some ([12, 18, 30], .i64) := by decide +kernel

/-- `(a + b) * c = a * c + b * c`, `merge_bins`, slicing on a concrete histogram -/
example :
    ((h3.iadd FloatOps.exact h3).toOption.bind fun s => (s.imul (1 / 2) .pyFloat).toOption)
      = ((h3.imul (1 / 2) .pyFloat).toOption.bind fun a => (a.iadd FloatOps.exact a).toOption) ∧
    ((mergeAmount FloatOps.exact h3 2).toOption.bind fun m => (m.imul 3 .pyInt).toOption)
      = ((h3.imul 3 .pyInt).toOption.bind fun a => (mergeAmount FloatOps.exact a 2).toOption) ∧
    ((getSlice FloatOps.exact h3 (some 1) none).imul 3 .pyInt).toOption
      = (h3.imul 3 .pyInt).toOption.map (fun a => getSlice FloatOps.exact a (some 1) none) ∧
    ((getSlice FloatOps.exact h3 (some 1) none).imul 3 .pyInt).toOption.map (fun r => (r.freq, r.under))
      = some ([9, 15], some 9) := by
  decide +kernel

/-- **`merge_bins(min_frequency=…)` does not commute with scaling**: with threshold 4 the contents `[2, 3, 5]` merge
    into two bins, the contents `[6, 9, 15]` (scaled by 3 first) stay three bins -/
example :
    ((mergeMinFreq FloatOps.exact h3 4).toOption.bind fun m => (m.imul 3 .pyInt).toOption).map (·.freq) = some [15, 15] ∧
    ((h3.imul 3 .pyInt).toOption.bind fun a => (mergeMinFreq FloatOps.exact a 4).toOption).map (·.freq)
      = some [6, 9, 15] := by
  decide +kernel

/-- `((h * 3) * 4) / 12` reproduces `h` (as float64) -/
example : (h3.scaleChain [.mul 3 .pyInt, .mul 4 .pyInt, .div 12]).toOption
    = some { h3 with dtype := .f64 } := by decide +kernel

/-- `normalize` twice = once, all four variants; the totals are 1, 100 and (in place with `percent`)
    the reciprocal of the double nearest to 0.01 -/
example :
    (∀ ip p : Bool, ((h3.normalize ip p).toOption.bind fun r => (r.normalize ip p).toOption)
      = (h3.normalize ip p).toOption ∧ (h3.normalize ip p).toOption.isSome = true) ∧
    (h3.normalize false false).toOption.map (·.total) = some 1 ∧
    (h3.normalize false true).toOption.map (·.total) = some 100 ∧
    (h3.normalize true true).toOption.map (·.total) = some (1 / centiDouble) := by
  decide +kernel

/-- a 2 × 3 histogram with `int16` contents -/
def g23 : HN :=
  { axes := [.static [(0, 1), (1, 2)] true, .static [(0, 1), (1, 2), (2, 3)] true],
    freq := { shape := [2, 3], data := [1, 2, 3, 4, 5, 6] },
    err2 := { shape := [2, 3], data := [1, 2, 3, 4, 5, 6] }, names := ["x", "y"], dtype := .i16 }

example : (g23.scaleChain chain).toOption.map (fun r => (r.freq.data, r.err2.data, r.dtype))
    = some ([3, 6, 9, 12, 15, 18], [9, 18, 27, 36, 45, 54], .f64) := by decide +kernel

/-- projection onto `y` and scaling by a python float commute entirely … -/
example :
    ((g23.projection [.inr "y"]).toOption.bind fun p => (p.imul (1 / 2) .pyFloat).toOption)
      = ((g23.imul (1 / 2) .pyFloat).toOption.bind fun a => (a.projection [.inr "y"]).toOption) ∧
    ((g23.projection [.inr "y"]).toOption.bind fun p => (p.imul (1 / 2) .pyFloat).toOption).map
      (fun r => (r.freq.data, r.err2.data, r.dtype)) = some ([5 / 2, 7 / 2, 9 / 2], [5 / 4, 7 / 4, 9 / 4], .f64) := by
  decide +kernel

/-- **… but with a `float32` scalar the dtypes differ** (`C06_nd_projection_dtype`): `projection` sums `int16`
    contents in `int64`, and `int64 * float32` is `float64`; scaling first gives `int16 * float32 = float32`, which
    the projection keeps.  Contents and errors agree. -/
theorem C06_nd_projection_dtype :
    ((g23.projection [.inr "y"]).toOption.bind fun p => (p.imul 2 (.np .f32)).toOption).map
      (fun r => (r.freq.data, r.dtype)) = some ([10, 14, 18], .f64) ∧
    ((g23.imul 2 (.np .f32)).toOption.bind fun a => (a.projection [.inr "y"]).toOption).map
      (fun r => (r.freq.data, r.dtype)) = some ([10, 14, 18], .f32) := by
  decide +kernel

/-- N-d: slicing, merging, addition and `normalize` on the 2 × 3 histogram -/
example :
    ((g23.selectSlice FloatOps.exact 1 (some 1) none).imul 3 .pyInt).toOption
      = (g23.imul 3 .pyInt).toOption.map (fun a => a.selectSlice FloatOps.exact 1 (some 1) none) ∧
    ((g23.mergeAxisWithMap FloatOps.exact 1 [0, 0, 1]).toOption.bind fun m => (m.imul 3 .pyInt).toOption)
      = ((g23.imul 3 .pyInt).toOption.bind fun a => (a.mergeAxisWithMap FloatOps.exact 1 [0, 0, 1]).toOption) ∧
    ((g23.mergeAxisWithMap FloatOps.exact 1 [0, 0, 1]).toOption.bind fun m => (m.imul 3 .pyInt).toOption).map
      (fun r => r.freq.data) = some [9, 9, 27, 18] ∧
    ((g23.iadd FloatOps.exact g23).toOption.bind fun s => (s.imul 3 .pyInt).toOption)
      = ((g23.imul 3 .pyInt).toOption.bind fun a => (a.iadd FloatOps.exact a).toOption) ∧
    (∀ ip p : Bool, ((g23.normalize ip p).toOption.bind fun r => (r.normalize ip p).toOption)
      = (g23.normalize ip p).toOption ∧ (g23.normalize ip p).toOption.isSome = true) := by
  decide +kernel

end CommuteExamples

end Physt

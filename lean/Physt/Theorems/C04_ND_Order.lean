import Physt.Proofs.AdaptiveNDPerm
import Physt.Theorems.C04_ND
import Physt.Theorems.C04_History
/-!
# C04 — the ORDER in which rows are entered into an adaptive histogram does not matter

`Theorems/C04_History.lean` (1-D) and `Theorems/C04_ND.lean` (N-d) say what any accepted history of
`fill` / `fill_n` calls does to an adaptive fixed-width histogram, and `C04_nd_chunking` compares
histories that enter the same rows *in the same order*.  Here the order is dropped: two histories
from the same start whose entered rows (after the NaN mask, weights attached) are permutations of one
another end with the **same axes, contents, squared errors and missed** — all axes adaptive
(`C04_nd_order`), any mix of adaptive and non-adaptive axes (`C04_nd_order_mixed`), one dimension
(`C04_order_1d`).  Helper lemmas: `Proofs/AdaptiveNDPerm.lean`.

Contents and errors are order-independent because the state is the fixed-bin histogram of the rows
over the final bins (`calcND_perm`, `C03_order`).  The bins are order-independent because the final
range of an adaptive axis is the hull of its initial range and the cells of the values entered, and
that hull is characterised without any reference to order (`C04_hull_least_greatest`): it starts at
the LEAST and ends at the GREATEST cell needed — `tmin' = min (tmin, cells)`,
`tmin' + count' = max (tmin + count, cells + 1)` (`C04_hull_min_max`) — so it depends on the *set* of
values only (`C04_hull_set_only`).

Hypotheses are those of the history theorems (invariant `TracksA` / `TracksM` / `GridTracks` on the
start, strictly increasing edges, every coordinate within reach of the corrected search; in exact
arithmetic: positive widths only).  The flags inside the invariants are needed — kernel-checked at
the end of this file: with `align = False` the first value entered anchors the grid, and with
`include_right_edge` (refused by physt for adaptive binnings) the bins themselves depend on the
order.  NOT claimed: equality of the content type (`dtype`) — it follows the kinds of the weights,
which are not part of the rows (`fill(v, 1)` vs `fill(v, 1.0)`, example at the end).
-/
namespace Physt
open Grid H1

/-! ## The hull of a grid and a set of values -/

/-- **The hull depends on the set of values only.**  Two ranges that are hulls (`SpanHull`) of the same
    grid for two lists of values with the same members — any order, any multiplicities — are the same
    range (for a strictly increasing edge function). -/
theorem C04_hull_set_only {edge : Int → Rat} (hm : ∀ a b : Int, a < b → edge a < edge b) {g g' g'' : Grid}
    {vs vs' : List Rat} (h : ∀ v, v ∈ vs ↔ v ∈ vs') (a : SpanHull edge g g' vs) (b : SpanHull edge g g'' vs') :
    g'.w = g''.w ∧ g'.shift = g''.shift ∧ g'.tmin = g''.tmin ∧ g'.count = g''.count :=
  a.unique_of_mem hm h b

/-- **The hull, characterised without reference to any order.**  `g'` is the hull of the grid `g` and
    the values `vs` iff: width and origin are kept; every value has a cell; if no cell is needed (no
    old cells, no values) nothing changes; otherwise `g'` has cells, its first cell is the least and
    its last cell the greatest *cell needed* (`NeedsCell`: a cell of the old range `tmin … tmin+count-1`
    or the cell of a value of `vs`). -/
theorem C04_hull_least_greatest {edge : Int → Rat} (hm : ∀ a b : Int, a < b → edge a < edge b) (g g' : Grid)
    (vs : List Rat) :
    SpanHull edge g g' vs ↔
      g'.w = g.w ∧ g'.shift = g.shift ∧ (∀ v ∈ vs, ∃ k : Int, CellOf edge v k) ∧
      (g.count = 0 → vs = [] → g'.tmin = g.tmin ∧ g'.count = g.count) ∧
      (0 < g.count ∨ vs ≠ [] → 0 < g'.count ∧ NeedsCell edge g vs g'.tmin ∧
        NeedsCell edge g vs (g'.tmin + g'.count - 1) ∧
        ∀ k, NeedsCell edge g vs k → g'.tmin ≤ k ∧ k ≤ g'.tmin + g'.count - 1) :=
  spanHull_iff hm g g' vs

/-- **`tmin' = min (tmin, cells needed)` and `tmin' + count' = max (tmin + count, cells needed + 1)`**
    (`hullLo`, `hullEnd`: folds of `min` / `max`; for a grid without cells the old `tmin` does not take
    part), for any function `c` giving the cell of every value entered. -/
theorem C04_hull_min_max {edge : Int → Rat} (hm : ∀ a b : Int, a < b → edge a < edge b) {g g' : Grid}
    {vs : List Rat} (sp : SpanHull edge g g' vs) (c : Rat → Int) (hc : ∀ v ∈ vs, CellOf edge v (c v)) :
    g'.tmin = hullLo g (vs.map c) ∧ g'.tmin + g'.count = hullEnd g (vs.map c) :=
  sp.eq_min_max hm c hc

/-- in exact arithmetic the cell of `v` is `⌊(v - shift) / w⌋` (`FloatOps.exact.est`) -/
theorem C04_hull_min_max_exact {g g' : Grid} {vs : List Rat} (hw : 0 < g.w)
    (sp : SpanHull (FloatOps.exact.edge g.w g.shift) g g' vs) :
    g'.tmin = hullLo g (vs.map (FloatOps.exact.est g.w g.shift)) ∧
    g'.tmin + g'.count = hullEnd g (vs.map (FloatOps.exact.est g.w g.shift)) :=
  sp.eq_min_max (C04_exact_mono g.w g.shift hw) _ (fun v _ => C04_exact_cell g.w g.shift v hw)

/-! ## N dimensions, all axes adaptive -/

/-- **The order of the rows does not matter (N-d, all axes adaptive).**  Two lists of `fill` / `fill_n`
    calls (NaN coordinates, NaN rows, empty batches, weights of any kind, any chunking) run on the same
    histogram satisfying the invariant, whose entered rows are permutations of one another, every
    coordinate within reach: both are accepted and end with the same axes (bins), contents, squared
    errors and missed. -/
theorem C04_nd_order (fo : FloatOps) (fuel : Nat) (ops1 ops2 : List OpN) (h : HN) (grids : List Grid)
    (rows0 : List Row) (t : TracksA fo h grids rows0) (hm : MonoGrids fo grids)
    (hv1 : ∀ op ∈ ops1, op.Valid grids.length) (ha1 : ∀ op ∈ ops1, op.Accepted grids.length)
    (hv2 : ∀ op ∈ ops2, op.Valid grids.length) (ha2 : ∀ op ∈ ops2, op.Accepted grids.length)
    (hperm : (enteredRows ops1).Perm (enteredRows ops2))
    (hreach : ∀ r ∈ enteredRows ops1, ReachGrids fo fuel grids r.1) :
    ∃ r1 r2, ops1.foldlM (OpN.apply fo fuel) h = .ok r1 ∧ ops2.foldlM (OpN.apply fo fuel) h = .ok r2 ∧
      r1.axes = r2.axes ∧ r1.freq = r2.freq ∧ r1.err2 = r2.err2 ∧ r1.missed = r2.missed := by
  obtain ⟨r1, r2, _, e1, e2, _, _, _, a, b, c, d⟩ :=
    tracksA_order fo fuel ops1 ops2 h grids rows0 t hm hv1 ha1 hv2 ha2 hperm hreach
  exact ⟨r1, r2, e1, e2, a, b, c, d⟩

/-- … with the common final state described: both results are on the grids `grids'`, per axis the hull
    of the initial grid and the column of the rows entered (in either order), and both hold the
    fixed-bin histogram of `rows0` followed by the rows of the first history (invariant `TracksA`). -/
theorem C04_nd_order_state (fo : FloatOps) (fuel : Nat) (ops1 ops2 : List OpN) (h : HN) (grids : List Grid)
    (rows0 : List Row) (t : TracksA fo h grids rows0) (hm : MonoGrids fo grids)
    (hv1 : ∀ op ∈ ops1, op.Valid grids.length) (ha1 : ∀ op ∈ ops1, op.Accepted grids.length)
    (hv2 : ∀ op ∈ ops2, op.Valid grids.length) (ha2 : ∀ op ∈ ops2, op.Accepted grids.length)
    (hperm : (enteredRows ops1).Perm (enteredRows ops2))
    (hreach : ∀ r ∈ enteredRows ops1, ReachGrids fo fuel grids r.1) :
    ∃ r1 r2 grids', ops1.foldlM (OpN.apply fo fuel) h = .ok r1 ∧ ops2.foldlM (OpN.apply fo fuel) h = .ok r2 ∧
      TracksA fo r1 grids' (rows0 ++ enteredRows ops1) ∧ TracksA fo r2 grids' (rows0 ++ enteredRows ops1) ∧
      HullN fo grids grids' ((enteredRows ops1).map (·.1)) ∧
      HullN fo grids grids' ((enteredRows ops2).map (·.1)) := by
  obtain ⟨r1, r2, g', e1, e2, t1, t2, u, _⟩ :=
    tracksA_order fo fuel ops1 ops2 h grids rows0 t hm hv1 ha1 hv2 ha2 hperm hreach
  exact ⟨r1, r2, g', e1, e2, t1, t2, u, u.perm (hperm.map _)⟩

/-- **Exact arithmetic, with the final bins written out.**  Positive widths are the only hypothesis on
    the grids.  Both histories are accepted and end on the same axes `grids'.map .fixed` with the same
    contents, squared errors and missed; axis `i` keeps width and origin and spans from
    `min (tmin, ⌊(x - shift)/w⌋ …)` to `max (tmin + count, ⌊(x - shift)/w⌋ + 1 …)` over the coordinates
    `x` of column `i` — of either history. -/
theorem C04_nd_order_exact (fuel : Nat) (ops1 ops2 : List OpN) (h : HN) (grids : List Grid)
    (rows0 : List Row) (t : TracksA FloatOps.exact h grids rows0) (hw : ∀ g ∈ grids, 0 < g.w)
    (hv1 : ∀ op ∈ ops1, op.Valid grids.length) (ha1 : ∀ op ∈ ops1, op.Accepted grids.length)
    (hv2 : ∀ op ∈ ops2, op.Valid grids.length) (ha2 : ∀ op ∈ ops2, op.Accepted grids.length)
    (hperm : (enteredRows ops1).Perm (enteredRows ops2)) :
    ∃ (r1 r2 : HN) (grids' : List Grid), ops1.foldlM (OpN.apply FloatOps.exact fuel) h = .ok r1 ∧
      ops2.foldlM (OpN.apply FloatOps.exact fuel) h = .ok r2 ∧
      r1.axes = grids'.map Binning.fixed ∧ r2.axes = grids'.map Binning.fixed ∧
      r1.freq = r2.freq ∧ r1.err2 = r2.err2 ∧ r1.missed = r2.missed ∧ grids'.length = grids.length ∧
      ∀ (i : Nat) (g g' : Grid), grids[i]? = some g → grids'[i]? = some g' →
        g'.w = g.w ∧ g'.shift = g.shift ∧
        g'.tmin = hullLo g ((col i ((enteredRows ops1).map (·.1))).map (FloatOps.exact.est g.w g.shift)) ∧
        g'.tmin + g'.count = hullEnd g ((col i ((enteredRows ops1).map (·.1))).map (FloatOps.exact.est g.w g.shift)) ∧
        g'.tmin = hullLo g ((col i ((enteredRows ops2).map (·.1))).map (FloatOps.exact.est g.w g.shift)) ∧
        g'.tmin + g'.count = hullEnd g ((col i ((enteredRows ops2).map (·.1))).map (FloatOps.exact.est g.w g.shift)) := by
  obtain ⟨r1, r2, g', e1, e2, t1, t2, u, _, b, c, d⟩ :=
    tracksA_order FloatOps.exact fuel ops1 ops2 h grids rows0 t (monoGrids_exact grids hw) hv1 ha1 hv2 ha2 hperm
      (fun r _ => reachGrids_exact grids hw fuel r.1)
  refine ⟨r1, r2, g', e1, e2, t1.hax, t2.hax, b, c, d, u.len, ?_⟩
  intro i g gi hg hgi
  have hwg := hw g (List.mem_of_getElem? hg)
  have sp := u.each i g gi hg hgi
  have sp2 := (u.perm (hperm.map (·.1))).each i g gi hg hgi
  obtain ⟨x1, x2⟩ := C04_hull_min_max_exact hwg sp
  obtain ⟨y1, y2⟩ := C04_hull_min_max_exact hwg sp2
  exact ⟨sp.w, sp.shift, x1, x2, y1, y2⟩

/-! ## N dimensions, any mix of adaptive and non-adaptive axes -/

/-- **The order of the rows does not matter (N-d, mixed axes).**  Adaptive grids next to any rising
    non-adaptive bins (rows can be missed on the latter; they still make the adaptive axes grow): two
    histories from the same state whose entered rows are permutations of one another are both
    accepted and end with the same axes, contents, squared errors and missed. -/
theorem C04_nd_order_mixed (fo : FloatOps) (fuel : Nat) (ops1 ops2 : List OpN) (h : HN) (axes : List Binning)
    (rows0 : List Row) (tr : TracksM fo h axes rows0) (ok : EdgesOK fo axes)
    (hv1 : ∀ op ∈ ops1, op.Valid axes.length) (ha1 : ∀ op ∈ ops1, op.Accepted axes.length)
    (hv2 : ∀ op ∈ ops2, op.Valid axes.length) (ha2 : ∀ op ∈ ops2, op.Accepted axes.length)
    (hperm : (enteredRows ops1).Perm (enteredRows ops2))
    (hreach : ∀ r ∈ enteredRows ops1, ReachRow fo fuel axes r.1) :
    ∃ r1 r2, ops1.foldlM (OpN.apply fo fuel) h = .ok r1 ∧ ops2.foldlM (OpN.apply fo fuel) h = .ok r2 ∧
      r1.axes = r2.axes ∧ r1.freq = r2.freq ∧ r1.err2 = r2.err2 ∧ r1.missed = r2.missed := by
  obtain ⟨r1, r2, _, e1, e2, _, _, _, a, b, c, d⟩ :=
    tracksM_order fo fuel ops1 ops2 h axes rows0 tr ok hv1 ha1 hv2 ha2 hperm hreach
  exact ⟨r1, r2, e1, e2, a, b, c, d⟩

/-- … with the common final state described (`TracksM` on the same axes `axes'`, grown from `axes` for
    the rows of either history: `AxesGrown`) -/
theorem C04_nd_order_mixed_state (fo : FloatOps) (fuel : Nat) (ops1 ops2 : List OpN) (h : HN) (axes : List Binning)
    (rows0 : List Row) (tr : TracksM fo h axes rows0) (ok : EdgesOK fo axes)
    (hv1 : ∀ op ∈ ops1, op.Valid axes.length) (ha1 : ∀ op ∈ ops1, op.Accepted axes.length)
    (hv2 : ∀ op ∈ ops2, op.Valid axes.length) (ha2 : ∀ op ∈ ops2, op.Accepted axes.length)
    (hperm : (enteredRows ops1).Perm (enteredRows ops2))
    (hreach : ∀ r ∈ enteredRows ops1, ReachRow fo fuel axes r.1) :
    ∃ r1 r2 axes', ops1.foldlM (OpN.apply fo fuel) h = .ok r1 ∧ ops2.foldlM (OpN.apply fo fuel) h = .ok r2 ∧
      TracksM fo r1 axes' (rows0 ++ enteredRows ops1) ∧ TracksM fo r2 axes' (rows0 ++ enteredRows ops1) ∧
      AxesGrown fo axes axes' ((enteredRows ops1).map (·.1)) ∧
      AxesGrown fo axes axes' ((enteredRows ops2).map (·.1)) := by
  obtain ⟨r1, r2, x, e1, e2, t1, t2, g, _⟩ :=
    tracksM_order fo fuel ops1 ops2 h axes rows0 tr ok hv1 ha1 hv2 ha2 hperm hreach
  exact ⟨r1, r2, x, e1, e2, t1, t2, g, g.perm (hperm.map _)⟩

/-- mixed axes in exact arithmetic: positive widths of the adaptive grids, rising bins elsewhere -/
theorem C04_nd_order_mixed_exact (fuel : Nat) (ops1 ops2 : List OpN) (h : HN) (axes : List Binning)
    (rows0 : List Row) (tr : TracksM FloatOps.exact h axes rows0)
    (hw : ∀ (i : Nat) (g : Grid), axes[i]? = some (Binning.fixed g) → g.adaptive = true → 0 < g.w)
    (hr : ∀ b ∈ axes, b.isAdaptive = false → Rising (b.bins FloatOps.exact))
    (hv1 : ∀ op ∈ ops1, op.Valid axes.length) (ha1 : ∀ op ∈ ops1, op.Accepted axes.length)
    (hv2 : ∀ op ∈ ops2, op.Valid axes.length) (ha2 : ∀ op ∈ ops2, op.Accepted axes.length)
    (hperm : (enteredRows ops1).Perm (enteredRows ops2)) :
    ∃ r1 r2, ops1.foldlM (OpN.apply FloatOps.exact fuel) h = .ok r1 ∧
      ops2.foldlM (OpN.apply FloatOps.exact fuel) h = .ok r2 ∧
      r1.axes = r2.axes ∧ r1.freq = r2.freq ∧ r1.err2 = r2.err2 ∧ r1.missed = r2.missed :=
  C04_nd_order_mixed FloatOps.exact fuel ops1 ops2 h axes rows0 tr (edgesOK_exact axes hw hr) hv1 ha1 hv2 ha2 hperm
    (fun r _ => reachRow_exact axes hw fuel r.1)

/-! ## One dimension -/

/-- **The order of the values does not matter (1-D).**  Two sequences of `fill` / `fill_n` calls on the
    same adaptive histogram whose entered (value, weight) pairs are permutations of one another: both
    are accepted and end with the same binning (the same grid, hence the same bins), contents, squared
    errors, underflow and overflow. -/
theorem C04_order_1d (fo : FloatOps) (fuel : Nat) (w s : Rat) (hm : EdgeMono fo w s) (ops1 ops2 : List FillOp)
    (hok1 : ∀ op ∈ ops1, op.ok = true) (hok2 : ∀ op ∈ ops2, op.ok = true)
    (hperm : (opsPts ops1).Perm (opsPts ops2)) (hreach : ∀ p ∈ opsPts ops1, Reach fo w s fuel p.1)
    (h : H1) (g : Grid) (pts : List Pt) (hw : g.w = w) (hs : g.shift = s) (tr : GridTracks fo h g pts) :
    ∃ h1 h2 : H1, runOps fo fuel h ops1 = .ok h1 ∧ runOps fo fuel h ops2 = .ok h2 ∧
      h1.binning = h2.binning ∧ h1.freq = h2.freq ∧ h1.err2 = h2.err2 ∧ h1.under = h2.under ∧
      h1.over = h2.over := by
  obtain ⟨h1, h2, _, e1, e2, _, _, _, a, b, c, d, e, _⟩ :=
    gridTracks_order fo fuel w s hm ops1 ops2 hok1 hok2 hperm hreach h g pts hw hs tr
  exact ⟨h1, h2, e1, e2, a, b, c, d, e⟩

/-- 1-D, exact arithmetic (positive width), with the final grid written out: both histories end on the
    grid `g'` with the width and origin of `g` that spans from the least to the greatest cell needed,
    `⌊(v - shift)/w⌋` being the cell of `v`. -/
theorem C04_order_1d_exact (fuel : Nat) (ops1 ops2 : List FillOp)
    (hok1 : ∀ op ∈ ops1, op.ok = true) (hok2 : ∀ op ∈ ops2, op.ok = true)
    (hperm : (opsPts ops1).Perm (opsPts ops2))
    (h : H1) (g : Grid) (pts : List Pt) (hw : 0 < g.w) (tr : GridTracks FloatOps.exact h g pts) :
    ∃ (h1 h2 : H1) (g' : Grid), runOps FloatOps.exact fuel h ops1 = .ok h1 ∧
      runOps FloatOps.exact fuel h ops2 = .ok h2 ∧
      h1.binning = .fixed g' ∧ h2.binning = .fixed g' ∧ h1.freq = h2.freq ∧ h1.err2 = h2.err2 ∧
      h1.under = h2.under ∧ h1.over = h2.over ∧ g'.w = g.w ∧ g'.shift = g.shift ∧
      g'.tmin = hullLo g (((opsPts ops1).map (·.1)).map (FloatOps.exact.est g.w g.shift)) ∧
      g'.tmin + g'.count = hullEnd g (((opsPts ops1).map (·.1)).map (FloatOps.exact.est g.w g.shift)) := by
  obtain ⟨h1, h2, g', e1, e2, t1, t2, sp, _, b, c, d, e, _⟩ :=
    gridTracks_order FloatOps.exact fuel g.w g.shift (C04_exact_mono _ _ hw) ops1 ops2 hok1 hok2 hperm
      (fun p _ => reach_exact g.w g.shift hw fuel p.1) h g pts rfl rfl tr
  obtain ⟨x1, x2⟩ := C04_hull_min_max_exact hw sp
  exact ⟨h1, h2, g', e1, e2, t1.state.binning, t2.state.binning, b, c, d, e, sp.w, sp.shift, x1, x2⟩

/-! ## Non-vacuity: the 2-D adaptive example of `Theorems/C04_ND.lean`, entered in another order -/

namespace ExampleOrderND
open ExampleAdaptiveND

/-- the rows of `ExampleAdaptiveND.ops` in another order and another chunking (one batch with a NaN row
    first, then a single `fill` with a float weight) -/
def ops2 : List OpN :=
  [.fillN [[some 5, some (1 / 2)], [none, none], [some (-3 / 10), some (-5)]] (some [1 / 2, 4, 2]) .f64,
   .fill [some (17 / 10), some 3] 1 .pyFloat]

theorem valid2 : ∀ op ∈ ops2, op.Valid grids.length := by
  intro op hop
  simp only [ops2, List.mem_cons, List.not_mem_nil, or_false] at hop
  rcases hop with rfl | rfl <;> simp [OpN.Valid, grids]

theorem accepted2 : ∀ op ∈ ops2, op.Accepted grids.length := by
  intro op hop
  simp only [ops2, List.mem_cons, List.not_mem_nil, or_false] at hop
  rcases hop with rfl | rfl <;> simp [OpN.Accepted, grids]

/-- the two histories enter the same three rows, in different orders -/
theorem perm : (enteredRows ops).Perm (enteredRows ops2) := by decide +kernel

example : enteredRows ops ≠ enteredRows ops2 := by decide +kernel

/-- the theorem applied -/
example : ∃ r1 r2, ops.foldlM (OpN.apply FloatOps.exact 4) h0 = .ok r1 ∧
    ops2.foldlM (OpN.apply FloatOps.exact 4) h0 = .ok r2 ∧
    r1.axes = r2.axes ∧ r1.freq = r2.freq ∧ r1.err2 = r2.err2 ∧ r1.missed = r2.missed :=
  C04_nd_order FloatOps.exact 4 ops ops2 h0 grids [] (tracksA_empty _ grids flags true none none)
    (monoGrids_exact grids widths) valid accepted valid2 accepted2 perm
    (fun r _ => reachGrids_exact grids widths 4 r.1)

/-- … and the exact version with the final bins written out -/
example : ∃ (r1 r2 : HN) (grids' : List Grid), ops.foldlM (OpN.apply FloatOps.exact 4) h0 = .ok r1 ∧
    ops2.foldlM (OpN.apply FloatOps.exact 4) h0 = .ok r2 ∧
    r1.axes = grids'.map Binning.fixed ∧ r2.axes = grids'.map Binning.fixed ∧
    r1.freq = r2.freq ∧ r1.err2 = r2.err2 ∧ r1.missed = r2.missed ∧ grids'.length = grids.length := by
  obtain ⟨r1, r2, g', e1, e2, a1, a2, b, c, d, l, _⟩ := C04_nd_order_exact 4 ops ops2 h0 grids []
    (tracksA_empty _ grids flags true none none) widths valid accepted valid2 accepted2 perm
  exact ⟨r1, r2, g', e1, e2, a1, a2, b, c, d, l⟩

/-- the model computes what the theorem says: same axes, contents, errors, missed … -/
example :
    ((ops.foldlM (OpN.apply FloatOps.exact 4) h0).toOption.map fun r => (r.axes, r.freq, r.err2, r.missed))
      = ((ops2.foldlM (OpN.apply FloatOps.exact 4) h0).toOption.map fun r => (r.axes, r.freq, r.err2, r.missed)) ∧
    ((ops2.foldlM (OpN.apply FloatOps.exact 4) h0).toOption.map fun r => r.axes)
      = some [.fixed { w := 1 / 10, tmin := -3, count := 54, adaptive := true },
              .fixed { w := 2, tmin := -3, count := 5, adaptive := true }] := by
  refine ⟨by decide +kernel, by decide +kernel⟩

/-- … and the explicit formula gives those bins: on axis 0 (width 1/10, no cells at the start) the
    cells of 17/10, -3/10, 5 are 17, -3, 50: `tmin' = -3`, `tmin' + count' = 51`; on axis 1 (width 2)
    the cells of 3, -5, 1/2 are 1, -3, 0: `tmin' = -3`, `tmin' + count' = 2` -/
example :
    hullLo { w := 1 / 10, adaptive := true }
        ((col 0 ((enteredRows ops2).map (·.1))).map (FloatOps.exact.est (1 / 10) 0)) = -3 ∧
    hullEnd { w := 1 / 10, adaptive := true }
        ((col 0 ((enteredRows ops2).map (·.1))).map (FloatOps.exact.est (1 / 10) 0)) = 51 ∧
    hullLo { w := 2, adaptive := true }
        ((col 1 ((enteredRows ops).map (·.1))).map (FloatOps.exact.est 2 0)) = -3 ∧
    hullEnd { w := 2, adaptive := true }
        ((col 1 ((enteredRows ops).map (·.1))).map (FloatOps.exact.est 2 0)) = 2 := by
  decide +kernel

/-- **Not claimed: the content type.**  The kind of a weight is not part of the row; `fill(v, 1)` and
    `fill(v, 1.0)` enter the same row and end with different dtypes. -/
example :
    enteredRows [.fill [some (1 / 2), some 3] 1 .pyInt] = enteredRows [.fill [some (1 / 2), some 3] 1 .pyFloat] ∧
    ([OpN.fill [some (1 / 2), some 3] 1 .pyInt].foldlM (OpN.apply FloatOps.exact 4) h0).toOption.map (·.dtype)
      = some .i64 ∧
    ([OpN.fill [some (1 / 2), some 3] 1 .pyFloat].foldlM (OpN.apply FloatOps.exact 4) h0).toOption.map (·.dtype)
      = some .f64 := by
  decide +kernel

end ExampleOrderND

/-! ## Non-vacuity: mixed axes -/

namespace ExampleOrderMixed
open ExampleMixedND

/-- the rows of `ExampleMixedND.ops` (one of them missed on the static axis) in another order -/
def ops2 : List OpN :=
  [.fill [some (-3 / 10), some 5] 1 .pyInt,
   .fillN [[some (1 / 2), some 2], [none, some 1], [some (17 / 10), some (1 / 2)]] none .i64]

theorem perm : (enteredRows ops).Perm (enteredRows ops2) := by decide +kernel

example : ∃ r1 r2, ops.foldlM (OpN.apply FloatOps.exact 4) h0 = .ok r1 ∧
    ops2.foldlM (OpN.apply FloatOps.exact 4) h0 = .ok r2 ∧
    r1.axes = r2.axes ∧ r1.freq = r2.freq ∧ r1.err2 = r2.err2 ∧ r1.missed = r2.missed := by
  apply C04_nd_order_mixed_exact 4 ops ops2 h0 axes [] start
  · intro i g hg _
    have : Binning.fixed g ∈ axes := List.mem_of_getElem? hg
    simp only [axes, List.mem_cons, List.not_mem_nil, or_false, reduceCtorEq, Binning.fixed.injEq] at this
    subst this
    norm_num
  · intro b hb hna
    simp only [axes, List.mem_cons, List.not_mem_nil, or_false] at hb
    rcases hb with rfl | rfl
    · cases hna
    · exact (risingB_iff [(0, 1), (1, 2)]).mp (by decide +kernel)
  · intro op hop
    simp only [ops, List.mem_cons, List.not_mem_nil, or_false] at hop
    rcases hop with rfl | rfl <;> simp [OpN.Valid, axes]
  · intro op hop
    simp only [ops, List.mem_cons, List.not_mem_nil, or_false] at hop
    rcases hop with rfl | rfl <;> simp [OpN.Accepted, axes]
  · intro op hop
    simp only [ops2, List.mem_cons, List.not_mem_nil, or_false] at hop
    rcases hop with rfl | rfl <;> simp [OpN.Valid, axes]
  · intro op hop
    simp only [ops2, List.mem_cons, List.not_mem_nil, or_false] at hop
    rcases hop with rfl | rfl <;> simp [OpN.Accepted, axes]
  · exact perm

/-- computed: the missed row comes first in `ops2` and makes the adaptive axis start at cell -3; the
    end state is the same -/
example :
    ((ops.foldlM (OpN.apply FloatOps.exact 4) h0).toOption.map fun r => (r.axes, r.freq, r.err2, r.missed))
      = ((ops2.foldlM (OpN.apply FloatOps.exact 4) h0).toOption.map fun r => (r.axes, r.freq, r.err2, r.missed)) ∧
    ((ops2.foldlM (OpN.apply FloatOps.exact 4) h0).toOption.map fun r => (r.axes, r.total, r.missed))
      = some ([.fixed { w := 1 / 10, tmin := -3, count := 21, adaptive := true }, .static [(0, 1), (1, 2)] true],
              2, some 1) := by
  refine ⟨by decide +kernel, by decide +kernel⟩

end ExampleOrderMixed

/-! ## Non-vacuity: one dimension -/

namespace ExampleOrder1D

def g0 : Grid := { w := 1 / 10, adaptive := true }
def h0 : H1 := H1.empty FloatOps.exact (.fixed g0) true none
def ops1 : List FillOp := [.one (some (17 / 10)) 1 .pyInt, .one (some (-3 / 10)) 2 .pyInt, .many [some 5, none] none .i64]
def ops2 : List FillOp := [.many [some 5, none, some (-3 / 10)] (some [1, 7, 2]) .f64, .one (some (17 / 10)) 1 .pyFloat]

theorem perm : (opsPts ops1).Perm (opsPts ops2) := by decide +kernel

example : opsPts ops1 ≠ opsPts ops2 := by decide +kernel

example : ∃ (h1 h2 : H1) (g' : Grid), runOps FloatOps.exact 4 h0 ops1 = .ok h1 ∧ runOps FloatOps.exact 4 h0 ops2 = .ok h2 ∧
    h1.binning = .fixed g' ∧ h2.binning = .fixed g' ∧ h1.freq = h2.freq ∧ h1.err2 = h2.err2 ∧
    h1.under = h2.under ∧ h1.over = h2.over := by
  obtain ⟨h1, h2, g', e1, e2, b1, b2, a, b, c, d, _⟩ := C04_order_1d_exact 4 ops1 ops2 (by decide) (by decide) perm
    h0 g0 [] (by decide +kernel) (gridTracks_empty FloatOps.exact g0 rfl rfl rfl rfl none)
  exact ⟨h1, h2, g', e1, e2, b1, b2, a, b, c, d⟩

/-- computed: the cells -3 … 50 of the grid `k/10` in both orders -/
example :
    ((runOps FloatOps.exact 4 h0 ops1).toOption.map fun r => (r.binning, r.freq, r.err2, r.under, r.over))
      = ((runOps FloatOps.exact 4 h0 ops2).toOption.map fun r => (r.binning, r.freq, r.err2, r.under, r.over)) ∧
    ((runOps FloatOps.exact 4 h0 ops2).toOption.map fun r => r.binning)
      = some (.fixed { w := 1 / 10, tmin := -3, count := 54, adaptive := true }) ∧
    hullLo g0 (((opsPts ops2).map (·.1)).map (FloatOps.exact.est (1 / 10) 0)) = -3 ∧
    hullEnd g0 (((opsPts ops2).map (·.1)).map (FloatOps.exact.est (1 / 10) 0)) = 51 := by
  refine ⟨by decide +kernel, by decide +kernel, by decide +kernel, by decide +kernel⟩

end ExampleOrder1D

/-! ## The limits of the statement: the flags inside the invariants are needed -/

/-- **`align = False` makes the result depend on the order** (`FixedWidthBinning(bin_width=1,
    adaptive=True, align=False)`, a combination physt accepts).  The first value entered into the empty
    grid moves the origin onto itself.  Width 1: `1/2` then `1/4` gives the bins `[-1/2, 1/2), [1/2, 3/2)`
    with contents `[1, 1]`; `1/4` then `1/2` gives the single bin `[1/4, 5/4)` with contents `[2]`.
    The invariants `GridTracks` / `TracksA` / `TracksM` ask for `align = true`. -/
example :
    let g : Grid := { w := 1, adaptive := true, align := false }
    let a := fillAll FloatOps.exact 4 (H1.empty FloatOps.exact (.fixed g) true none) [((1 / 2, 1), .pyInt), ((1 / 4, 1), .pyInt)]
    let b := fillAll FloatOps.exact 4 (H1.empty FloatOps.exact (.fixed g) true none) [((1 / 4, 1), .pyInt), ((1 / 2, 1), .pyInt)]
    a.binning = .fixed { w := 1, shift := 1 / 2, tmin := -1, count := 2, adaptive := true, align := false } ∧
    a.freq = [1, 1] ∧
    b.binning = .fixed { w := 1, shift := 1 / 4, tmin := 0, count := 1, adaptive := true, align := false } ∧
    b.freq = [2] := by
  decide +kernel

/-- the same in two dimensions (axis 0 not aligned) -/
example :
    let grids : List Grid := [{ w := 1, adaptive := true, align := false }, { w := 2, adaptive := true }]
    let h0 : HN := HN.empty FloatOps.exact (grids.map Binning.fixed) true none none
    let a := [OpN.fill [some (1 / 2), some 3] 1 .pyInt, .fill [some (1 / 4), some 0] 1 .pyInt]
    let b := [OpN.fill [some (1 / 4), some 0] 1 .pyInt, .fill [some (1 / 2), some 3] 1 .pyInt]
    (enteredRows a).Perm (enteredRows b) ∧
    ((a.foldlM (OpN.apply FloatOps.exact 4) h0).toOption.map fun r => r.freq.shape) = some [2, 2] ∧
    ((b.foldlM (OpN.apply FloatOps.exact 4) h0).toOption.map fun r => r.freq.shape) = some [1, 2] := by
  refine ⟨by decide +kernel, by decide +kernel, by decide +kernel⟩

/-- **`include_right_edge` on an adaptive grid makes the bins depend on the order** (physt refuses the
    combination; the invariants ask for `ire = false`).  Width 1, values `1/2` and `2`: entered in this
    order the value 2, ON the edge beyond the last one, is put into the right-closed bin `[1, 2]` — two
    bins; entered as `2`, `1/2` the grid starts with the cell `[2, 3]` of 2 — three bins. -/
example :
    let g : Grid := { w := 1, adaptive := true, ire := true }
    let a := fillAll FloatOps.exact 4 (H1.empty FloatOps.exact (.fixed g) true none) [((1 / 2, 1), .pyInt), ((2, 1), .pyInt)]
    let b := fillAll FloatOps.exact 4 (H1.empty FloatOps.exact (.fixed g) true none) [((2, 1), .pyInt), ((1 / 2, 1), .pyInt)]
    a.binning = .fixed { w := 1, tmin := 0, count := 2, adaptive := true, ire := true } ∧ a.freq = [1, 1] ∧
    b.binning = .fixed { w := 1, tmin := 0, count := 3, adaptive := true, ire := true } ∧ b.freq = [1, 0, 1] := by
  decide +kernel

end Physt

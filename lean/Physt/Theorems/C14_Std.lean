import Physt.Theorems.C14
import Mathlib.Analysis.Real.Sqrt
import Mathlib.Algebra.Order.Ring.Rat
import Mathlib.Tactic.Positivity
/-!
# C14 (continued) — `std()`

`Statistics.std()` is `sqrt(variance())`.  The model keeps rational numbers, so the square root lives
in ℝ (Mathlib's `Real.sqrt`); what the property states about `std()` is that it is the weighted
population standard deviation of the raw data, i.e. the non-negative number whose square is the
weighted population variance.  That needs the variance to be non-negative, which holds exactly when
the weights are non-negative — the hypothesis is forced and is stated.
-/
namespace Physt
open H1 Stats

/-- `std()`; `none` = NaN -/
noncomputable def Stats.std (a : Stats) : Option ℝ := a.variance.map fun v => Real.sqrt (v : ℝ)

theorem sum_nonneg_of_forall {α} (l : List α) (f : α → Rat) (h : ∀ x ∈ l, 0 ≤ f x) : 0 ≤ (l.map f).sum := by
  induction l with
  | nil => simp
  | cons x xs ih =>
    simp only [List.map_cons, List.sum_cons]
    exact add_nonneg (h x (List.mem_cons_self ..)) (ih fun y hy => h y (List.mem_cons_of_mem _ hy))

/-- **The variance of data entered with non-negative weights is non-negative** (it is a weighted
    mean of squares), so it has a real square root. -/
theorem C14_variance_nonneg (d : List Pt) (hne : d ≠ []) (hw : 0 < wsum d) (hp : ∀ p ∈ d, 0 ≤ p.2) :
    ∃ v, (rawStats d).variance = some v ∧ 0 ≤ v := by
  refine ⟨_, (C14_moments d hne hw).2, ?_⟩
  apply div_nonneg _ (le_of_lt hw)
  exact sum_nonneg_of_forall d _ fun p hpm => mul_nonneg (hp p hpm) (sq_nonneg _)

/-- **`std()` is the weighted population standard deviation of the raw data**: it is non-negative
    and its square is the weighted population variance `Σ w·(v − mean)² / Σ w`. -/
theorem C14_std (d : List Pt) (hne : d ≠ []) (hw : 0 < wsum d) (hp : ∀ p ∈ d, 0 ≤ p.2) :
    ∃ s : ℝ, (rawStats d).std = some s ∧ 0 ≤ s ∧
      s ^ 2 = (((d.map fun p => p.2 * (p.1 - sumWV d / wsum d) ^ 2).sum / wsum d : Rat) : ℝ) := by
  obtain ⟨v, hv, hv0⟩ := C14_variance_nonneg d hne hw hp
  have hv' := (C14_moments d hne hw).2
  have hvv : v = (d.map fun p => p.2 * (p.1 - sumWV d / wsum d) ^ 2).sum / wsum d := by
    rw [hv] at hv'; exact Option.some.inj hv'
  subst hvv
  refine ⟨Real.sqrt ((((d.map fun p => p.2 * (p.1 - sumWV d / wsum d) ^ 2).sum / wsum d : Rat)) : ℝ), ?_,
    Real.sqrt_nonneg _, ?_⟩
  · unfold Stats.std; rw [hv]; rfl
  · rw [Real.sq_sqrt]
    exact_mod_cast hv0

/-- without non-negative weights the statement is false: the recorded "variance" can be negative
    (weights 3 and −1 on the values 0 and 1: total weight 2 > 0, variance −3/4) and `std()` is then NaN
    in numpy (`Real.sqrt` of a negative number is 0 in Mathlib — another reason to state the hypothesis) -/
theorem C14_variance_negative_weights : (rawStats [(0, 3), (1, -1)]).variance = some (-3 / 4) := by
  decide +kernel

/-- `std()` is NaN exactly when `variance()` is (empty, zero total weight or invalidated statistics) -/
theorem C14_std_nan (s : Stats) : s.std = none ↔ s.variance = none := by
  cases h : s.variance <;> simp [Stats.std, h]

/-- positive rescaling leaves `std()` unchanged -/
theorem C14_std_scale (s : Stats) (c : Rat) (hc : 0 < c) (hv : s.valid = true) : (s.scale c).std = s.std := by
  simp [Stats.std, (C14_scale s c hc hv).2.1]

/-! Non-vacuity: the data 1, 2, 3, 6 with weights 1, 1, 2, 0: mean 9/4, variance 11/16, std² = 11/16. -/
example : ∃ s : ℝ, (rawStats [(1, 1), (2, 1), (3, 2), (6, 0)]).std = some s ∧ 0 ≤ s ∧ s ^ 2 = ((11 / 16 : Rat) : ℝ) := by
  obtain ⟨s, h1, h2, h3⟩ := C14_std [(1, 1), (2, 1), (3, 2), (6, 0)] (by simp) (by decide +kernel) (by decide +kernel)
  refine ⟨s, h1, h2, ?_⟩
  rw [h3]
  congr 1
  decide +kernel

end Physt

import Physt.Proofs.Ops
import Physt.Theorems.C03
import Physt.Theorems.C13
/-!
# C05 — adding histograms equals histogramming the combined data
-/
namespace Physt
open H1

/-- **Addition with equal bins is pointwise**: contents, squared errors, underflow / overflow /
    inner-missed and statistics add; the dtype is numpy's promotion; bins are unchanged.
    (Operands are values: `add` builds a new record, `iadd` only replaces its left operand.) -/
theorem C05_pointwise (fo : FloatOps) (h o r : H1) (hs : h.sameBins fo o = true) (hr : h.iadd fo o = .ok r) :
    r.freq = zipAdd h.freq o.freq ∧ r.err2 = zipAdd h.err2 o.err2 ∧
    r.under = nadd h.under o.under ∧ r.over = nadd h.over o.over ∧ r.inner = nadd h.inner o.inner ∧
    r.stats = h.stats.add o.stats ∧ r.dtype = h.dtype.promote o.dtype ∧ r.binning = h.binning := by
  obtain ⟨a, b, c, d, e, f, g, i, _⟩ := iadd_same_ok fo h o r hs hr
  exact ⟨b, c, d, e, f, g, a, i⟩

theorem zipAdd_comm (a b : List Rat) : zipAdd a b = zipAdd b a := by
  apply List.ext_getElem?
  intro i
  simp only [zipAdd_getElem?]
  cases a[i]? <;> cases b[i]? <;> simp [add_comm]

theorem nadd_comm (a b : NRat) : nadd a b = nadd b a := by
  cases a <;> cases b <;> simp [nadd, add_comm]

theorem minO_comm (a b : Option Rat) : Stats.minO a b = Stats.minO b a := by
  cases a <;> cases b <;> simp only [Stats.minO]
  rename_i x y
  congr 1
  by_cases h1 : y < x <;> by_cases h2 : x < y <;> simp [h1, h2] <;> linarith

theorem maxO_comm (a b : Option Rat) : Stats.maxO a b = Stats.maxO b a := by
  cases a <;> cases b <;> simp only [Stats.maxO]
  rename_i x y
  congr 1
  by_cases h1 : y < x <;> by_cases h2 : x < y <;> simp [h1, h2] <;> linarith

theorem stats_add_comm (a b : Stats) : a.add b = b.add a := by
  unfold Stats.add
  by_cases ha : a.valid = true <;> by_cases hb : b.valid = true <;>
    simp [ha, hb, add_comm, minO_comm a.min b.min, maxO_comm a.max b.max]

theorem sameBins_symm (fo : FloatOps) (a b : H1) : a.sameBins fo b = b.sameBins fo a := by
  unfold sameBins
  by_cases h : a.bins fo = b.bins fo
  · simp [h]
  · have : ¬ b.bins fo = a.bins fo := fun e => h e.symm
    simp [h, this]

/-- **Commutativity**: `a + b` and `b + a` agree on everything the property pins. -/
theorem C05_comm (fo : FloatOps) (a b r1 r2 : H1) (hs : a.sameBins fo b = true)
    (h1 : a.iadd fo b = .ok r1) (h2 : b.iadd fo a = .ok r2) :
    r1.freq = r2.freq ∧ r1.err2 = r2.err2 ∧ r1.under = r2.under ∧ r1.over = r2.over ∧ r1.inner = r2.inner ∧
    r1.stats = r2.stats ∧ r1.dtype = r2.dtype ∧ r1.bins fo = r2.bins fo := by
  obtain ⟨f1, e1, u1, o1, i1, s1, d1, b1⟩ := C05_pointwise fo a b r1 hs h1
  obtain ⟨f2, e2, u2, o2, i2, s2, d2, b2⟩ := C05_pointwise fo b a r2 (by rw [sameBins_symm]; exact hs) h2
  have hb : a.bins fo = b.bins fo := by simpa [sameBins] using hs
  refine ⟨by rw [f1, f2, zipAdd_comm], by rw [e1, e2, zipAdd_comm], by rw [u1, u2, nadd_comm],
    by rw [o1, o2, nadd_comm], by rw [i1, i2, nadd_comm], by rw [s1, s2, stats_add_comm], ?_, ?_⟩
  · rw [d1, d2]; exact (C13_promote_algebra.1 _ (DType.mem_all _) _ (DType.mem_all _))
  · simp only [H1.bins, b1, b2] at hb ⊢; exact hb

/-- **Associativity** of the pointwise sums (contents, errors, missed counts). -/
theorem C05_assoc (a b c : List Rat) (x y z : NRat) :
    zipAdd (zipAdd a b) c = zipAdd a (zipAdd b c) ∧ nadd (nadd x y) z = nadd x (nadd y z) :=
  ⟨zipAdd_assoc a b c, nadd_assoc x y z⟩

/-- **h(A) + h(B) = h(A and B together)**: if `a` holds the histogram of `A` and `b` that of `B`
    over the same static bins, their sum holds the histogram of `A ++ B`. -/
theorem C05_combined (fo : FloatOps) (bins : Bins) (ire : Bool) (hb : Rising bins) (hne : bins ≠ [])
    (a b r : H1) (A B : List Pt) (ta : Tracks bins ire a A) (tb : Tracks bins ire b B)
    (hr : a.iadd fo b = .ok r) : Tracks bins ire r (A ++ B) := by
  have hs : a.sameBins fo b = true := by simp [sameBins, H1.bins, ta.binning, tb.binning]
  obtain ⟨f, e, u, o, _, _, _, bn⟩ := C05_pointwise fo a b r hs hr
  have hk := (iadd_same_ok fo a b r hs hr).2.2.2.2.2.2.2.2
  have hm := calc1d_append_missed bins hne A B
  exact ⟨by rw [bn, ta.binning], by rw [hk, ta.keep],
    by rw [f, ta.freq, tb.freq, calc1d_append_freq bins hb],
    by rw [e, ta.err2, tb.err2, calc1d_append_err2 bins hb],
    by rw [u, ta.under, tb.under, hm.1], by rw [o, ta.over, tb.over, hm.2]⟩

/-- **Any partition into chunks** (a list, a collection, dask chunks): summing the chunk
    histograms in order gives the histogram of all the data; by `C03_order` / `C01_flatten` the
    order of the chunks and of the data inside them does not matter either. -/
theorem C05_chunks (fo : FloatOps) (bins : Bins) (ire : Bool) (hb : Rising bins) (hne : bins ≠ [])
    (first : H1) (F : List Pt) (tf : Tracks bins ire first F)
    (rest : List (H1 × List Pt)) (hrest : ∀ p ∈ rest, Tracks bins ire p.1 p.2)
    (r : H1) (hr : rest.foldlM (fun acc p => acc.iadd fo p.1) first = .ok r) :
    Tracks bins ire r (F ++ (rest.map (·.2)).flatten) := by
  induction rest generalizing first F with
  | nil => simp only [List.foldlM_nil, pure, Except.pure] at hr; cases hr; simpa using tf
  | cons p ps ih =>
    simp only [List.foldlM_cons, bind, Except.bind] at hr
    cases h1 : first.iadd fo p.1 with
    | error e => simp [h1] at hr
    | ok m =>
      simp only [h1] at hr
      have tm := C05_combined fo bins ire hb hne first p.1 m F p.2 tf (hrest p (List.mem_cons_self ..)) h1
      have := ih m (F ++ p.2) tm (fun q hq => hrest q (List.mem_cons_of_mem _ hq)) hr
      simpa [List.append_assoc] using this

/-- **Refusal.** Operands with different bins are refused unless the left one is adaptive. -/
theorem C05_refuse (fo : FloatOps) (h o : H1) (hs : h.sameBins fo o = false) (ha : h.binning.isAdaptive = false) :
    ∃ e, h.iadd fo o = .error e :=
  iadd_refused fo h o hs ha

/-- **Union of two ranges on the common grid.** For two non-empty grids of the same width and
    shift the adapted grid starts at the lower of the two first cells and ends at the higher of the
    two last cells; different widths or shifts are refused. -/
theorem C05_union (g o : Grid) (hg : 0 < g.count) (ho : 0 < o.count) :
    (g.w = o.w → g.shift = o.shift → ∃ g' r1 r2, adaptGrids g o = .ok (g', r1, r2) ∧
      g'.tmin = min g.tmin o.tmin ∧ g'.tmin + g'.count = max (g.tmin + g.count) (o.tmin + o.count) ∧
      g'.w = g.w ∧ g'.shift = g.shift) ∧
    (g.w ≠ o.w → ∃ e, adaptGrids g o = .error e) := by
  constructor
  · intro hw hs
    unfold adaptGrids
    have h1 : ¬ o.count = 0 := by omega
    have h2 : ¬ g.count = 0 := by omega
    simp only [hw, hs, bne_self_eq_false, Bool.false_eq_true, if_false, h1, h2, bind, Except.bind, pure, Except.pure]
    refine ⟨_, _, _, rfl, rfl, ?_, hw.symm ▸ rfl, rfl⟩
    simp only
    omega
  · intro hw
    unfold adaptGrids
    have : (g.w != o.w) = true := by simpa using hw
    simp [this, bind, Except.bind, throw, throwThe, MonadExceptOf.throw]

/-! Non-vacuity -/
example : (adaptGrids { w := 1, tmin := 2, count := 3 } { w := 1, tmin := -1, count := 2 }).toOption.map
    (fun p => (p.1.tmin, p.1.count)) = some (-1, 6) := by decide +kernel

end Physt

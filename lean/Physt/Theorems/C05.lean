import Physt.Theorems.C01
namespace Physt
theorem C05_placeholder : True := trivial
end Physt

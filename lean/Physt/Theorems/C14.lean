import Physt.Proofs.Paths
import Mathlib.Tactic.FieldSimp
import Mathlib.Tactic.Ring
/-!
# C14 — statistics are those of the raw data entered, not of the bins
-/
namespace Physt
open H1 Stats

/-- the statistics of a data set, without the median (which only construction provides) -/
def rawStats (data : List Pt) : Stats := statsOf data false none

def sumWV (d : List Pt) : Rat := (d.map fun p => p.1 * p.2).sum
def sumWV2 (d : List Pt) : Rat := (d.map fun p => p.1 * p.1 * p.2).sum

def fmin (a b : Rat) : Rat := if b < a then b else a
def fmax (a b : Rat) : Rat := if a < b then b else a

theorem fmin_assoc (a b c : Rat) : fmin (fmin a b) c = fmin a (fmin b c) := by
  unfold fmin
  by_cases h1 : b < a <;> by_cases h2 : c < b <;> by_cases h3 : c < a <;> simp [h1, h2, h3] <;> linarith

theorem fmax_assoc (a b c : Rat) : fmax (fmax a b) c = fmax a (fmax b c) := by
  unfold fmax
  by_cases h1 : a < b <;> by_cases h2 : b < c <;> by_cases h3 : a < c <;> simp [h1, h2, h3] <;> linarith

theorem foldl_fmin (ys : List Rat) (a y : Rat) : ys.foldl fmin (fmin a y) = fmin a (ys.foldl fmin y) := by
  induction ys generalizing a y with
  | nil => rfl
  | cons z zs ih =>
    simp only [List.foldl_cons]
    rw [ih (fmin a y) z, ih y z, fmin_assoc]

theorem foldl_fmax (ys : List Rat) (a y : Rat) : ys.foldl fmax (fmax a y) = fmax a (ys.foldl fmax y) := by
  induction ys generalizing a y with
  | nil => rfl
  | cons z zs ih =>
    simp only [List.foldl_cons]
    rw [ih (fmax a y) z, ih y z, fmax_assoc]

theorem listMin_append (a b : List Rat) :
    Grid.listMin (a ++ b) = minO (Grid.listMin a) (Grid.listMin b) := by
  cases a with
  | nil => cases b <;> rfl
  | cons x xs =>
    cases b with
    | nil => simp [Grid.listMin, minO]
    | cons y ys =>
      simp only [List.cons_append, Grid.listMin, List.foldl_append, List.foldl_cons, minO]
      show some (List.foldl fmin (fmin (List.foldl fmin x xs) y) ys) = some (fmin (xs.foldl fmin x) (ys.foldl fmin y))
      rw [foldl_fmin]

theorem listMax_append (a b : List Rat) :
    Grid.listMax (a ++ b) = maxO (Grid.listMax a) (Grid.listMax b) := by
  cases a with
  | nil => cases b <;> rfl
  | cons x xs =>
    cases b with
    | nil => simp [Grid.listMax, maxO]
    | cons y ys =>
      simp only [List.cons_append, Grid.listMax, List.foldl_append, List.foldl_cons, maxO]
      show some (List.foldl fmax (fmax (List.foldl fmax x xs) y) ys) = some (fmax (xs.foldl fmax x) (ys.foldl fmax y))
      rw [foldl_fmax]

/-- **Accumulation is a homomorphism.** The statistics of two data sets entered one after the
    other (two `fill_n` chunks, two added histograms) are the statistics of the combined data:
    sums, sums of squares and weights add, minimum and maximum combine. -/
theorem C14_hom (a b : List Pt) : (rawStats a).add (rawStats b) = rawStats (a ++ b) := by
  cases a with
  | nil =>
    cases b with
    | nil => simp [rawStats, statsOf, Stats.add, Stats.empty, minO, maxO]
    | cons y ys => simp [rawStats, statsOf, Stats.add, Stats.empty, minO, maxO, wsum, Grid.listMin, Grid.listMax]
  | cons x xs =>
    cases b with
    | nil => simp [rawStats, statsOf, Stats.add, Stats.empty, minO, maxO, wsum, Grid.listMin, Grid.listMax]
    | cons y ys =>
      simp only [rawStats, statsOf, Stats.add, Bool.and_self, if_true, List.cons_append]
      have hmin := listMin_append ((x :: xs).map (·.1)) ((y :: ys).map (·.1))
      have hmax := listMax_append ((x :: xs).map (·.1)) ((y :: ys).map (·.1))
      simp only [List.map_cons, List.cons_append, ← List.map_append] at hmin hmax
      simp only [List.map_cons, List.map_append, List.sum_cons, List.sum_append, wsum, hmin, hmax]
      simp only [List.map_cons, List.sum_cons, Bool.false_eq_true, if_false]
      congr 1 <;> ring

/-- the median is the only thing `statsOf` adds to `rawStats` -/
theorem C14_construct_raw (d : List Pt) (e : Bool) (m : Option Rat) :
    { statsOf d e m with median := none } = rawStats d := by
  cases d <;> simp [rawStats, statsOf, Stats.empty]

/-- **`fill` accumulates one point**: the same as adding the statistics of a one-point data set. -/
theorem C14_fill (s : Stats) (hs : s.valid = true) (v w : Rat) :
    s.addPoint v w = s.add (rawStats [(v, w)]) := by
  simp only [addPoint, hs, if_true, Stats.add, rawStats, statsOf, Bool.and_self, List.map_cons, List.map_nil,
    List.sum_cons, List.sum_nil, Grid.listMin, Grid.listMax, List.foldl_nil, wsum, add_zero]
  congr 1 <;> ring

/-- weighted moments in terms of the raw data -/
theorem C14_sums (d : List Pt) (hne : d ≠ []) :
    (rawStats d).sum = sumWV d ∧ (rawStats d).sum2 = sumWV2 d ∧ (rawStats d).weight = wsum d ∧
    (rawStats d).min = Grid.listMin (d.map (·.1)) ∧ (rawStats d).max = Grid.listMax (d.map (·.1)) := by
  cases d with
  | nil => exact (hne rfl).elim
  | cons x xs => simp [rawStats, statsOf, sumWV, sumWV2]

theorem sum_sq_dev (d : List Pt) (μ : Rat) :
    (d.map fun p => p.2 * (p.1 - μ) ^ 2).sum = sumWV2 d - 2 * μ * sumWV d + μ ^ 2 * wsum d := by
  induction d with
  | nil => simp [sumWV2, sumWV, wsum]
  | cons p ps ih =>
    simp only [List.map_cons, List.sum_cons, sumWV2, sumWV, wsum] at ih ⊢
    rw [ih]; ring

/-- **Moments.** `mean()` is the weighted mean `Σ w·v / Σ w` and `variance()` the weighted
    population variance `Σ w·(v − mean)² / Σ w` of the raw data (total weight > 0). -/
theorem C14_moments (d : List Pt) (hne : d ≠ []) (hw : 0 < wsum d) :
    (rawStats d).mean = some (sumWV d / wsum d) ∧
    (rawStats d).variance = some ((d.map fun p => p.2 * (p.1 - sumWV d / wsum d) ^ 2).sum / wsum d) := by
  obtain ⟨h1, h2, h3, _, _⟩ := C14_sums d hne
  have hv : (rawStats d).valid = true := by cases d <;> simp [rawStats, statsOf, Stats.empty]
  have hw' : wsum d ≠ 0 := ne_of_gt hw
  constructor
  · simp [Stats.mean, hv, h1, h3, hw']
  · simp only [Stats.variance, hv, h1, h2, h3, hw, decide_true, Bool.and_self, if_true]
    rw [sum_sq_dev]
    congr 1
    field_simp
    ring

/-- **Positive rescaling.** Scaling by `c ≠ 0` multiplies the weight by `c` and leaves mean,
    minimum and maximum unchanged; for `c > 0` the variance is unchanged too. -/
theorem C14_scale (s : Stats) (c : Rat) (hc : 0 < c) (hv : s.valid = true) :
    (s.scale c).mean = s.mean ∧ (s.scale c).variance = s.variance ∧
    (s.scale c).min = s.min ∧ (s.scale c).max = s.max ∧ (s.scale c).weight = s.weight * c := by
  · have hc' : c ≠ 0 := ne_of_gt hc
    refine ⟨?_, ?_, by simp [Stats.scale, hv], by simp [Stats.scale, hv], by simp [Stats.scale, hv]⟩
    · simp only [Stats.mean, Stats.scale, hv, if_true, Bool.true_and]
      by_cases hw : s.weight = 0
      · simp [hw]
      · have : s.weight * c ≠ 0 := mul_ne_zero hw hc'
        simp only [bne_iff_ne, ne_eq, hw, not_false_eq_true, this, if_true]
        congr 1
        field_simp
    · simp only [Stats.variance, Stats.scale, hv, if_true, Bool.true_and]
      by_cases hw : 0 < s.weight
      · have : 0 < s.weight * c := mul_pos hw hc
        have hw' : s.weight ≠ 0 := ne_of_gt hw
        simp only [hw, this, decide_true, if_true]
        congr 1
        field_simp
      · have : ¬ 0 < s.weight * c := by
          intro h
          have : 0 < s.weight := by
            by_contra hn
            have : s.weight ≤ 0 := not_lt.mp hn
            nlinarith
          exact hw this
        simp [hw, this]

/-- **Invalid, never wrong.** Once the statistics cannot be maintained (array arithmetic,
    subtraction, bare frequencies: `INVALID_STATISTICS`) they stay invalid under further
    accumulation and scaling, and every derived number reads NaN. -/
theorem C14_invalid (s : Stats) (c : Rat) (v w : Rat) :
    Stats.invalid.add s = Stats.invalid ∧ s.add Stats.invalid = Stats.invalid ∧
    Stats.invalid.scale c = Stats.invalid ∧ Stats.invalid.addPoint v w = Stats.invalid ∧
    Stats.invalid.mean = none ∧ Stats.invalid.variance = none := by
  simp [Stats.add, Stats.invalid, Stats.scale, Stats.addPoint, Stats.mean, Stats.variance]

/-- an empty histogram reports weight 0 and a NaN mean -/
theorem C14_empty : Stats.empty.weight = 0 ∧ Stats.empty.mean = none ∧ Stats.empty.variance = none := by
  simp [Stats.empty, Stats.mean, Stats.variance]

/-- subtraction (`isub`) and construction from bare arrays (`ofArrays`) leave invalid statistics -/
theorem C14_invalidated (fo : FloatOps) (h o r : H1) (hr : h.isub fo o = .ok r) : r.stats = Stats.invalid := by
  unfold isub at hr
  simp only [bind, Except.bind] at hr
  repeat (split at hr <;> try contradiction)
  all_goals (first | (cases hr; rfl) | skip)

/-- **Median** of an unweighted construction: the middle order statistic (mean of the two middle
    ones for an even count). -/
theorem C14_median_example :
    medianOf [3, 1, 2] = some 2 ∧ medianOf [4, 1, 3, 2] = some (5 / 2) ∧ medianOf [] = none := by
  decide +kernel

/-! Non-vacuity -/
example : (rawStats [(1, 2), (3, 1 / 2)]).mean = some (7 / 5) := by decide +kernel
example : (0 : Rat) < wsum [(1, 2), (3, 1 / 2)] ∧ ([(1, 2), (3, 1 / 2)] : List Pt) ≠ [] := by
  constructor
  · decide +kernel
  · simp

end Physt

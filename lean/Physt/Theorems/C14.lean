import Physt.Theorems.C01
namespace Physt
theorem C14_placeholder : True := trivial
end Physt

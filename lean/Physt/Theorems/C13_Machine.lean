import Physt.Proofs.DTypeMachine
import Physt.Model.Hist1D
/-!
# C13 (continued) — the reported dtype **is** the element type of `frequencies` and `errors2`

`Theorems/C13.lean` is about the rules by which the single `dtype` field of the value-level model
moves.  Here the *three* types the real object carries (`_dtype`, `_frequencies.dtype`,
`_errors2.dtype`, and `_missed.dtype`) are followed separately through every operation by the
dtype machine of `Model/DTypeMachine.lean`, and the first sentence of C13 is proved over all
histories: `Consistent s := s.freq = s.reported ∧ s.err2 = s.reported`.

The machine mirrors three versions of physt (`Cfg`): `Cfg.d3f2ae4` (the setters store
`np.asarray(values)` as it comes; `accumulate` writes `_frequencies`), `Cfg.b8bc97c` (setters
repaired: `_as_contents`) and `Cfg.current` (57bdc7e: `accumulate` also assigns through the
setter).  For the current code the invariant holds after **every** history, with no exception
(`C13m_every_history_current`); for the two earlier versions the operations that break it are
characterised exactly (`C13m_step`) and the witnesses are kernel-checked ("before fix").  The
transitions were replayed against the real library (numpy 2.5.3): 9000 random histories, about
38 000 operations, for each of the three versions, all five observables equal after every
operation.

## What each `DOp` stands for

| `DOp`                               | Python                                                              |
|-------------------------------------|---------------------------------------------------------------------|
| `construct arr explicit nan`        | `Histogram1D(bins, np.array(…, dtype=arr), dtype=explicit, underflow=nan?)`, `HistogramND(…)`; `h1(data, weights=np.array(…, dtype=arr), dtype=explicit)`, `h(…)` (`arr = none`: no frequencies / no weights) |
| `fill w reshaped gap`               | `h.fill(v, weight=w)` (`w` python int / float / numpy scalar; default `1` = `pyInt`) |
| `fillN w reshaped nd gap`           | `h.fill_n(vs, weights=np.array(…, dtype=w))` (`none`: no weights)      |
| `add o adaptive`                    | `h += o`, `h + o`                                                   |
| `sub o`                             | `h -= o`, `h - o`                                                   |
| `mul c`                             | `h *= c`, `h * c`, `c * h`                                          |
| `div c`                             | `h /= c`, `h / c`                                                   |
| `normalize inplace`                 | `h.normalize(inplace=…, percent=…)`                                 |
| `merge`                             | `h.merge_bins(amount, axis=…, inplace=…)`                           |
| `reshape`                           | `h._change_binning(…)` / `_reshape_data` (adaptive growth)          |
| `setDType d fit`                    | `h.dtype = d`, `h.set_dtype(d)`                                     |
| `copy withFreq`                     | `h.copy(include_frequencies=withFreq)`                              |
| `projection`                        | `hnd.projection(*axes)`                                             |
| `select1D keepMissed`               | `h1d[a:b]`, `h1d[mask]`, `h1d[[i, j]]`, `h1d.select(0, …)`          |
| `selectNDInt`                       | `hnd.select(axis, i)`, `hnd[i]`                                     |
| `selectNDSlice`                     | `hnd.select(axis, slice)`, `h2d.T`                                  |
| `accumulate`                        | `hnd.accumulate(axis)`                                              |
| `partialNormalize`                  | `h2d.partial_normalize(axis, inplace=…)`                            |
| `refusedAfterCoerce k`              | `h *= -1.5`, `h -= bigger`, adaptive `h -= o` with other bins, `hnd.fill_n(…, weights=float128)`: refused, but after `_coerce_dtype(k)` |
-/
namespace Physt
open DType DState

/-! ## The invariant over all histories -/

/-- **A new histogram is consistent**: whatever `frequencies` array, `dtype=` argument and missed
    values the constructor is given, the reported dtype is the element type of both arrays. -/
theorem C13m_construct (arr explicit : Option DType) (nan : Bool) :
    Consistent (DState.construct arr explicit nan) :=
  construct_consistent arr explicit nan

/-- **One operation, exactly.**  On a consistent histogram (histogram operands of `+` consistent,
    too) the result of an operation is consistent **if and only if** the operation is not
    * (unless both repairs are in) `HistogramND.accumulate` on an int16 / int32 histogram, or
    * (setters of d3f2ae4 only) division by a float128 numpy scalar of a narrower histogram. -/
theorem C13m_step (cfg : Cfg) (s : DState) (op : DOp) (h : Consistent s)
    (ho : ∀ o ∈ op.addends, Consistent o) :
    Consistent (s.step cfg op) ↔ op.diverges cfg s = false :=
  step_consistent_iff cfg op h ho

/-- **Every history.**  From a consistent histogram, after *every* operation of *any* list of
    operations the histogram is consistent, provided no step is one of the diverging operations
    in the state it meets and the `+` operands are consistent (`Admissible`). -/
theorem C13m_every_history (cfg : Cfg) (s : DState) (ops : List DOp) (hs : Consistent s)
    (ha : Admissible cfg s ops) :
    (∀ t ∈ DState.trace cfg s ops, Consistent t) ∧ Consistent (DState.run cfg s ops) :=
  ⟨trace_consistent cfg ops s hs ha, run_consistent cfg ops s hs ha⟩

/-- in the current code no operation diverges, whatever the state -/
theorem C13m_current_never_diverges (s : DState) (op : DOp) : op.diverges Cfg.current s = false := by
  cases op with
  | div c => cases c <;> rfl
  | _ => rfl

/-- **THE CURRENT CODE (57bdc7e), EVERY HISTORY.**  From a consistent histogram — in particular
    from any constructor — after every operation of any list of the nineteen kinds of operation
    (construct, fill, fill_n, `+`, `-`, `*`, `/`, normalize, merge, reshape, set dtype accepted or
    refused, copy, projection, selections, accumulate, partial_normalize, refusals after the
    coercion) the dtype the histogram reports is the element type of its `frequencies` and of its
    `errors2`.  The only hypothesis: the histograms *added* are consistent, too (they are, being
    products of such histories: `C13m_reachable`). -/
theorem C13m_every_history_current (s : DState) (ops : List DOp) (hs : Consistent s)
    (hops : ∀ op ∈ ops, ∀ o ∈ op.addends, Consistent o) :
    (∀ t ∈ DState.trace Cfg.current s ops, Consistent t) ∧ Consistent (DState.run Cfg.current s ops) := by
  have ha : Admissible Cfg.current s ops := by
    refine admissible_of_safe _ ops ?_ hops s
    intro op _
    cases op with
    | div c => cases c <;> rfl
    | _ => rfl
  exact ⟨trace_consistent _ ops s hs ha, run_consistent _ ops s hs ha⟩

/-- **Before the repairs (d3f2ae4)** a history must not contain `accumulate` nor a division by a
    float128 numpy scalar; every other history keeps the three types equal. -/
theorem C13m_every_history_before (s : DState) (ops : List DOp) (hs : Consistent s)
    (hacc : DOp.accumulate ∉ ops) (hdiv : DOp.div (.np f128) ∉ ops)
    (hops : ∀ op ∈ ops, ∀ o ∈ op.addends, Consistent o) :
    ∀ t ∈ DState.trace Cfg.d3f2ae4 s ops, Consistent t := by
  refine trace_consistent _ ops s hs (admissible_of_safe _ ops ?_ hops s)
  intro op hop
  cases op with
  | accumulate => exact absurd hop hacc
  | div c =>
    cases c with
    | pyInt => rfl
    | pyFloat => rfl
    | np k =>
      cases k <;> first | rfl | exact absurd hop hdiv
  | _ => rfl

/-- **Closed under operands**: every state produced by a constructor and non-diverging operations,
    the histogram operands being such products themselves, is consistent and satisfies the
    `_missed` invariant. -/
theorem C13m_reachable (cfg : Cfg) (s : DState) (h : Reachable cfg s) : Consistent s ∧ MissedInv s :=
  h.inv

/-- in the current code the reachable states are closed under *every* operation (no side
    condition), so `C13m_reachable` covers everything the nineteen operations can produce -/
theorem C13m_reachable_current_closed (s : DState) (op : DOp) (h : Reachable Cfg.current s)
    (ho : ∀ o ∈ op.operands, Reachable Cfg.current o) : Reachable Cfg.current (s.step Cfg.current op) :=
  Reachable.step op h ho (C13m_current_never_diverges s op)

/-- the first diverging operation of a history does break the invariant -/
theorem C13m_divergence (cfg : Cfg) (s : DState) (ops : List DOp) (op : DOp) (hs : Consistent s)
    (ha : Admissible cfg s ops) (ho : ∀ o ∈ op.addends, Consistent o)
    (hd : op.diverges cfg (DState.run cfg s ops) = true) :
    ¬ Consistent (DState.run cfg s (ops ++ [op])) :=
  run_diverges cfg ops op s hs ha ho hd

/-! ## The defects, kernel-checked -/

/-- **BEFORE THE FIX b8bc97c (setters of d3f2ae4)**:
    `h = Histogram1D([0,1,2,3], [1,2,3], dtype=np.float64); h /= np.longdouble(2)` reports
    float64 over float128 `frequencies` and `errors2` (`_missed`, divided in place, stays float64).
    Observed on the real library at d3f2ae4. -/
theorem C13m_before_fix_div_longdouble :
    DState.run Cfg.d3f2ae4 (DState.construct (some i64) (some f64) false) [.div (.np f128)]
      = { reported := f64, freq := f128, err2 := f128, missed := f64, missedNaN := false } ∧
    ¬ Consistent (DState.run Cfg.d3f2ae4 (DState.construct (some i64) (some f64) false) [.div (.np f128)]) := by
  decide

/-- … and for every histogram narrower than float128, consistent or not. -/
theorem C13m_before_fix_div_longdouble_all (s : DState) (hs : s.reported ≠ f128) :
    (s.step Cfg.d3f2ae4 (.div (.np f128))).reported = f64 ∧ (s.step Cfg.d3f2ae4 (.div (.np f128))).freq = f128 ∧
    (s.step Cfg.d3f2ae4 (.div (.np f128))).err2 = f128 :=
  divStep_head_f128 rfl hs

/-- **AFTER THE FIX b8bc97c (`_as_contents`)** the same call promotes the histogram to float128. -/
theorem C13m_after_fix_div_longdouble (s : DState) (h : Consistent s) :
    (s.step Cfg.current (.div (.np f128))).reported = f128 ∧ Consistent (s.step Cfg.current (.div (.np f128))) :=
  divStep_patched_f128 rfl h

/-- **BEFORE THE FIX 997ef1a** (with the old and with the repaired setters):
    `h2(x, y, bins, dtype=np.int16).accumulate(0)` reports int16 over int64 `frequencies`
    (`np.cumsum` widens, the result was stored past the setter; `errors2` stays int16).
    Observed on the real library at d3f2ae4 and at b8bc97c. -/
theorem C13m_before_fix_accumulate (castOnAssign : Bool) :
    DState.run ⟨castOnAssign, false⟩ (DState.construct none (some i16) false) [.accumulate]
      = { reported := i16, freq := i64, err2 := i16, missed := i16, missedNaN := false } ∧
    ¬ Consistent (DState.run ⟨castOnAssign, false⟩ (DState.construct none (some i16) false) [.accumulate]) := by
  cases castOnAssign <;> decide

/-- **AFTER THE FIX 997ef1a**: the cumulative sums are assigned through the setter, which promotes
    the histogram: everything is int64. -/
theorem C13m_after_fix_accumulate :
    DState.run Cfg.current (DState.construct none (some i16) false) [.accumulate] = DState.fresh i64 := by
  decide

/-- **A refused operation can change the dtype** (both versions): `h *= -1.5` on an int64
    histogram raises "Cannot have negative frequencies" from the setter — after
    `_coerce_dtype(float64)` has converted `_dtype` and all arrays.  The three types stay equal,
    but "refused ⇒ nothing changes" does not hold for the dtype. -/
theorem C13m_refused_changes_dtype (cfg : Cfg) :
    DState.step cfg (DState.fresh i64) (.refusedAfterCoerce f64) = DState.fresh f64 := by
  obtain ⟨b, c⟩ := cfg
  cases b <;> cases c <;> decide

/-! ## The kind clauses -/

/-- **Unweighted counting stays integral**: `fill` with a python-int (default) or numpy-integer
    weight and `fill_n` without weights or with integer weights keep an integer histogram in an
    integer type — all three types. -/
theorem C13m_counting (cfg : Cfg) (s : DState) (h : Consistent s) (hi : s.reported.isInt = true) :
    (∀ (w : DScalar) (r g : Bool), w.dtype.isInt = true →
      (s.step cfg (.fill w r g)).reported.isInt = true ∧ Consistent (s.step cfg (.fill w r g))) ∧
    (∀ r nd g : Bool, (s.step cfg (.fillN none r nd g)).reported = s.reported ∧
      Consistent (s.step cfg (.fillN none r nd g))) ∧
    (∀ (k : DType) (r nd g : Bool), k.isInt = true →
      (s.step cfg (.fillN (some k) r nd g)).reported.isInt = true ∧
      Consistent (s.step cfg (.fillN (some k) r nd g))) := by
  refine ⟨fun w r g hw => ⟨?_, fill_consistent cfg h w r g⟩,
          fun r nd g => ⟨by rw [fillN_reported], fillN_consistent cfg h none r nd g⟩,
          fun k r nd g hk => ⟨?_, fillN_consistent cfg h (some k) r nd g⟩⟩
  · rw [fill_reported]; exact promote_int _ _ hi hw
  · rw [fillN_reported]; exact promote_int _ _ hi hk

/-- **Float weights promote to float**: after `fill` / `fill_n` with a float weight the reported
    dtype — hence, by consistency, both arrays — is a float type to which the old dtype and the
    weight's dtype cast safely. -/
theorem C13m_float_weight (cfg : Cfg) (s : DState) (h : Consistent s) :
    (∀ (w : DScalar) (r g : Bool), w.dtype.isInt = false →
      (s.step cfg (.fill w r g)).reported.isInt = false ∧ (s.step cfg (.fill w r g)).freq.isInt = false ∧
      (s.step cfg (.fill w r g)).err2.isInt = false) ∧
    (∀ (k : DType) (r nd g : Bool), k.isInt = false →
      (s.step cfg (.fillN (some k) r nd g)).reported.isInt = false ∧
      (s.step cfg (.fillN (some k) r nd g)).freq.isInt = false ∧
      (s.step cfg (.fillN (some k) r nd g)).err2.isInt = false) := by
  constructor
  · intro w r g hw
    have hc := fill_consistent cfg h w r g
    have hr : (s.step cfg (.fill w r g)).reported.isInt = false := by
      rw [fill_reported]; exact promote_float_right _ _ hw
    exact ⟨hr, by rw [hc.1]; exact hr, by rw [hc.2]; exact hr⟩
  · intro k r nd g hk
    have hc := fillN_consistent cfg h (some k) r nd g
    have hr : (s.step cfg (.fillN (some k) r nd g)).reported.isInt = false := by
      rw [fillN_reported]; exact promote_float_right _ _ hk
    exact ⟨hr, by rw [hc.1]; exact hr, by rw [hc.2]; exact hr⟩

/-- **A scalar factor promotes by its numpy dtype** (python int → int64, python float → float64,
    numpy scalar → its own dtype), all three types; a float factor gives a float type. -/
theorem C13m_mul (cfg : Cfg) (s : DState) (h : Consistent s) (c : DScalar) :
    (s.step cfg (.mul c)).reported = promote s.reported c.dtype ∧ Consistent (s.step cfg (.mul c)) ∧
    (c.dtype.isInt = false → (s.step cfg (.mul c)).reported.isInt = false) := by
  obtain ⟨h1, h2⟩ := mulStep_spec cfg h c
  refine ⟨h1, h2, fun hc => ?_⟩
  show (s.mulStep cfg c).reported.isInt = false
  rw [h1]; exact promote_float_right _ _ hc

/-- **Division gives float types** — reported dtype and both arrays, for every divisor (python
    or numpy scalar) and with either setter, even in the diverging case. -/
theorem C13m_div_float (cfg : Cfg) (s : DState) (h : Consistent s) (c : DScalar) :
    (s.step cfg (.div c)).reported.isInt = false ∧ (s.step cfg (.div c)).freq.isInt = false ∧
    (s.step cfg (.div c)).err2.isInt = false :=
  divStep_float cfg h c

/-- division is consistent exactly when it is not (old setter, float128 scalar, narrower histogram) -/
theorem C13m_div (cfg : Cfg) (s : DState) (h : Consistent s) (c : DScalar) :
    Consistent (s.step cfg (.div c)) ↔ ¬ (cfg.castOnAssign = false ∧ c = .np f128 ∧ s.reported ≠ f128) := by
  rw [show s.step cfg (.div c) = s.divStep cfg c from rfl, div_consistent_iff cfg h c]
  cases c with
  | pyInt => simp [DOp.diverges]
  | pyFloat => simp [DOp.diverges]
  | np k => simp [DOp.diverges]

/-- **Normalisation gives a float type and stays consistent** (in place or not, either setter). -/
theorem C13m_normalize (cfg : Cfg) (s : DState) (h : Consistent s) (inplace : Bool) :
    (s.step cfg (.normalize inplace)).reported.isInt = false ∧ Consistent (s.step cfg (.normalize inplace)) :=
  ⟨normalize_float cfg h inplace, normalize_consistent cfg h inplace⟩

/-- **Histogram + histogram uses numpy promotion** (same bins or adapted bins, either setter). -/
theorem C13m_add (cfg : Cfg) (s o : DState) (h : Consistent s) (ho : Consistent o) (adaptive : Bool) :
    (s.step cfg (.add o adaptive)).reported = promote s.reported o.reported ∧
    (s.step cfg (.add o adaptive)).freq = promote s.reported o.reported ∧
    (s.step cfg (.add o adaptive)).err2 = promote s.reported o.reported := by
  obtain ⟨h1, h2⟩ := addStep_spec cfg h ho adaptive
  exact ⟨h1, h2.1.trans h1, h2.2.trans h1⟩

/-- **Histogram − histogram, too** — whatever the types of the operand's arrays. -/
theorem C13m_sub (cfg : Cfg) (s o : DState) (h : Consistent s) :
    (s.step cfg (.sub o)).reported = promote s.reported o.reported ∧
    (s.step cfg (.sub o)).freq = promote s.reported o.reported ∧
    (s.step cfg (.sub o)).err2 = promote s.reported o.reported := by
  obtain ⟨h1, h2⟩ := subStep_spec cfg h o
  exact ⟨h1, h2.1.trans h1, h2.2.trans h1⟩

/-- **Explicit change of dtype**: accepted (`d` is the current dtype, or the cast is safe, or the
    value checks pass) — all three types are `d`; refused — the state is unchanged.  A safe cast
    never consults the values. -/
theorem C13m_set (cfg : Cfg) (s : DState) (h : Consistent s) (d : DType) (fit : Bool) :
    (s.setDTypeAccepted d fit = true →
      (s.step cfg (.setDType d fit)).reported = d ∧ (s.step cfg (.setDType d fit)).freq = d ∧
      (s.step cfg (.setDType d fit)).err2 = d) ∧
    (s.setDTypeAccepted d fit = false → s.step cfg (.setDType d fit) = s) ∧
    (canCast s.reported d = true → s.setDTypeAccepted d fit = true) :=
  ⟨setDType_accepted h d fit, setDType_refused s d fit, fun hc => setDType_safe_cast s d hc fit⟩

/-- the decision of the machine is the decision of the value-level model (`H1.setDTypeOk`), the
    flag `fit` being its value check: integral contents and squared errors if an integer type is
    asked of a float histogram, and all of them within the target's range -/
theorem C13m_set_agrees (x : H1) (s : DState) (hs : s.reported = x.dtype) (d : DType) :
    H1.setDTypeOk x d = s.setDTypeAccepted d
      ((!(d.isInt && !x.dtype.isInt) || (x.freq ++ x.err2).all H1.isIntegral) && H1.fitsRange (x.freq ++ x.err2) d) := by
  simp only [H1.setDTypeOk, setDTypeAccepted, hs]
  congr 2

/-- **Requesting an integer histogram with float weights is refused** (and nothing else is). -/
theorem C13m_construct_refused (w d : Option DType) :
    DState.constructRefused w d = true ↔ ∃ wk dt, w = some wk ∧ d = some dt ∧ dt.isInt = true ∧ wk.isInt = false := by
  cases w <;> cases d <;> simp [DState.constructRefused]

/-- **No implicit conversion loses information**: after any operation other than a constructor
    and an explicit `set_dtype`, the old reported dtype casts *safely* to the new one. -/
theorem C13m_lossless (cfg : Cfg) (s : DState) (op : DOp) (h : Consistent s) (he : op.explicit = false) :
    canCast s.reported (s.step cfg op).reported = true :=
  step_lossless cfg s op h.1 he

/-! ## `_missed` is *not* kept in step -/

/-- What does hold of `_missed` after any operation (consistent or not, either setter): its type
    is the reported dtype or a float type, and a float type whenever it holds a NaN. -/
theorem C13m_missed_step (cfg : Cfg) (s : DState) (op : DOp) (h : MissedInv s)
    (ho : ∀ o ∈ op.operands, MissedInv o) : MissedInv (s.step cfg op) :=
  step_missedInv cfg op h ho

/-- `_missed` leaves the reported dtype by design: `Histogram1D([[0,1],[2,3]], [1,2]).fill(1.5)`
    (a value in the gap between bins makes under/overflow NaN) — int64 histogram, float64 `_missed`;
    `copy(include_frequencies=False)` then keeps a float64 `_missed` of zeros under int64. -/
theorem C13m_missed_leaves (cfg : Cfg) :
    DState.run cfg (DState.construct (some i64) none false) [.fill .pyInt false true]
      = { reported := i64, freq := i64, err2 := i64, missed := f64, missedNaN := true } ∧
    DState.run cfg (DState.construct (some i64) none false) [.fill .pyInt false true, .copy false]
      = { reported := i64, freq := i64, err2 := i64, missed := f64, missedNaN := false } := by
  obtain ⟨b, c⟩ := cfg
  cases b <;> cases c <;> decide

/-- … and it can differ from a *float* reported dtype as well: a float16 histogram `+=` an int16
    histogram built with `underflow=np.nan` reports float32 over a float64 `_missed`. -/
theorem C13m_missed_float_mismatch (cfg : Cfg) :
    DState.step cfg (DState.construct none (some f16) false) (.add (DState.construct none (some i16) true) false)
      = { reported := f32, freq := f32, err2 := f32, missed := f64, missedNaN := true } := by
  obtain ⟨b, c⟩ := cfg
  cases b <;> cases c <;> decide

/-! ## Non-vacuity -/

/-- the history of the task: an int16 histogram; `fill(v, weight=np.float32(0.5))`; `*= 2`;
    `+=` an int64 histogram; `/ 2` — after every step, with either setter (observed on the real
    library: float32, float64, float64, float64) -/
example (cfg : Cfg) :
    (DState.trace cfg (DState.construct none (some i16) false)
      [.fill (.np f32) false false, .mul .pyInt, .add (DState.fresh i64) false, .div .pyInt]).map DState.toString
      = ["float32 float32 float32 float32 0", "float64 float64 float64 float64 0",
         "float64 float64 float64 float64 0", "float64 float64 float64 float64 0"] := by
  obtain ⟨b, c⟩ := cfg
  cases b <;> cases c <;> decide

/-- the general theorem applied to that history (the `+` operand is consistent, nothing diverges) -/
example (cfg : Cfg) :
    ∀ t ∈ DState.trace cfg (DState.construct none (some i16) false)
      [.fill (.np f32) false false, .mul .pyInt, .add (DState.fresh i64) false, .div .pyInt], Consistent t := by
  refine (C13m_every_history cfg _ _ (C13m_construct _ _ _) ?_).1
  obtain ⟨b, c⟩ := cfg
  cases b <;> cases c <;>
    exact ⟨rfl, fun _ h => (by cases h), rfl, fun _ h => (by cases h), rfl,
      fun o ho => (by simp only [DOp.addends, List.mem_singleton] at ho; subst ho; exact fresh_consistent _),
      rfl, fun _ h => (by cases h), trivial⟩

/-- the current-code theorem on a history through many kinds of operation, `accumulate` and a
    float128 divisor included -/
example :
    ∀ t ∈ DState.trace Cfg.current (DState.construct none (some i16) false)
      [.fill .pyInt true false, .fillN (some f16) false false true, .div (.np f128), .setDType i32 true,
       .sub (DState.fresh f32), .merge, .accumulate, .projection, .select1D true, .normalize false, .copy false],
      Consistent t := by
  refine (C13m_every_history_current _ _ (C13m_construct _ _ _) ?_).1
  intro op hop o ho
  simp only [List.mem_cons, List.not_mem_nil, or_false] at hop
  rcases hop with rfl | rfl | rfl | rfl | rfl | rfl | rfl | rfl | rfl | rfl | rfl <;> cases ho

/-- `Reachable` is inhabited beyond constructors: the float128 state after the division -/
example : Reachable Cfg.current ((DState.construct none none false).step Cfg.current (.div (.np f128))) :=
  Reachable.step _ (Reachable.construct _ _ _) (fun _ h => by cases h) rfl

/- the replay interface: text lines in, states out (evaluated at build time; string splitting
   does not reduce in the kernel, so this is a test, not a theorem) -/
#guard DState.replay Cfg.d3f2ae4 default
      ["construct none int16 0", "fill np:float32 0 0", "mul py:int", "add int64 int64 int64 int64 0 0", "div py:int",
       "div np:float128"]
      == some ["int16 int16 int16 int16 0", "float32 float32 float32 float32 0", "float64 float64 float64 float64 0",
               "float64 float64 float64 float64 0", "float64 float64 float64 float64 0",
               "float64 float128 float128 float64 0"]

end Physt

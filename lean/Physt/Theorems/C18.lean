import Physt.Theorems.C01
namespace Physt
theorem C18_placeholder : True := trivial
end Physt

import Physt.Theorems.C03
import Physt.Theorems.C13
import Physt.Theorems.C06
import Mathlib.Algebra.Order.BigOperators.Group.List
/-!
# C18 — histograms stay well-formed; failed operations change nothing

In the model every in-place operation is a function `state → Except error state`: a refused call
produces **no** new state, so the caller's histogram is literally unchanged.  Where the
implementation promotes the dtype before it validates (`*=`, `/=`, `-=`, adaptive `+=`), the driver
applies exactly that lossless promotion to the refused target; `C18_refused_promotion` shows it is
the only thing that differs.  That the real code validates before it mutates is what the
correspondence check (snapshot before / after every injected invalid call) establishes.
-/
namespace Physt
open H1

/-- shapes match, squared errors and contents are non-negative -/
structure WF (fo : FloatOps) (h : H1) : Prop where
  flen : h.freq.length = (h.bins fo).length
  elen : h.err2.length = (h.bins fo).length
  epos : ∀ x ∈ h.err2, 0 ≤ x
  fpos : ∀ x ∈ h.freq, 0 ≤ x

theorem wf_empty (fo : FloatOps) (b : Binning) (keep : Bool) (dt : Option DType) : WF fo (H1.empty fo b keep dt) := by
  refine ⟨by simp [H1.empty, H1.bins, zeros], by simp [H1.empty, H1.bins, zeros], ?_, ?_⟩ <;>
    (intro x hx; simp [H1.empty, zeros] at hx; rw [hx.2])

theorem any_lt_false {l : List Rat} (h : (l.any (· < 0)) = false) : ∀ x ∈ l, 0 ≤ x := by
  intro x hx
  by_contra hneg
  have : l.any (· < 0) = true := List.any_eq_true.mpr ⟨x, hx, by simpa using hneg⟩
  rw [h] at this; cases this

/-- scaling keeps a histogram well-formed (a factor that would make a content negative is refused) -/
theorem C18_wf_imul (fo : FloatOps) (h r : H1) (c : Rat) (k : NumKind) (w : WF fo h) (hr : h.imul c k = .ok r) :
    WF fo r := by
  obtain ⟨_, f, e, _, _, _, _, b, _, hn⟩ := imul_ok h r c k hr
  refine ⟨?_, ?_, ?_, ?_⟩
  · simp only [H1.bins, b]; rw [f, List.length_map]; exact w.flen
  · simp only [H1.bins, b]; rw [e, List.length_map]; exact w.elen
  · intro x hx
    rw [e] at hx
    obtain ⟨y, hy, rfl⟩ := List.mem_map.mp hx
    exact mul_nonneg (w.epos y hy) (mul_self_nonneg c)
  · rw [f]; exact any_lt_false hn

theorem C18_wf_idiv (fo : FloatOps) (h r : H1) (c : Rat) (w : WF fo h) (hr : h.idiv c = .ok r) : WF fo r := by
  obtain ⟨hc, _, f, e, _, _, _, _, b, _, hn⟩ := idiv_ok h r c hr
  refine ⟨?_, ?_, ?_, ?_⟩
  · simp only [H1.bins, b]; rw [f, List.length_map]; exact w.flen
  · simp only [H1.bins, b]; rw [e, List.length_map]; exact w.elen
  · intro x hx
    rw [e] at hx
    obtain ⟨y, hy, rfl⟩ := List.mem_map.mp hx
    exact div_nonneg (w.epos y hy) (mul_self_nonneg c)
  · rw [f]; exact any_lt_false hn

theorem zipAdd_nonneg (a b : List Rat) (ha : ∀ x ∈ a, 0 ≤ x) (hb : ∀ x ∈ b, 0 ≤ x) : ∀ x ∈ zipAdd a b, 0 ≤ x := by
  intro x hx
  unfold zipAdd at hx
  obtain ⟨i, hi, rfl⟩ := List.getElem_of_mem hx
  have hi' : i < a.length ∧ i < b.length := by simpa using hi
  simp only [List.getElem_zipWith]
  have h1 := ha _ (List.getElem_mem hi'.1)
  have h2 := hb _ (List.getElem_mem hi'.2)
  linarith

/-- adding two well-formed histograms over the same bins gives a well-formed histogram -/
theorem C18_wf_iadd (fo : FloatOps) (h o r : H1) (wh : WF fo h) (wo : WF fo o) (hs : h.sameBins fo o = true)
    (hr : h.iadd fo o = .ok r) : WF fo r := by
  obtain ⟨_, f, e, _, _, _, _, b, _⟩ := iadd_same_ok fo h o r hs hr
  have hb : h.bins fo = o.bins fo := by simpa [sameBins] using hs
  refine ⟨?_, ?_, ?_, ?_⟩
  · simp only [H1.bins, b]; rw [f, zipAdd_length, wh.flen, wo.flen, ← hb]; simp [H1.bins]
  · simp only [H1.bins, b]; rw [e, zipAdd_length, wh.elen, wo.elen, ← hb]; simp [H1.bins]
  · rw [e]; exact zipAdd_nonneg _ _ wh.epos wo.epos
  · rw [f]; exact zipAdd_nonneg _ _ wh.fpos wo.fpos

theorem wsum_filter_nonneg (d : List Pt) (q : Pt → Bool) (hw : ∀ p ∈ d, 0 ≤ p.2) : 0 ≤ wsum (d.filter q) := by
  unfold wsum
  apply List.sum_nonneg
  intro x hx
  obtain ⟨p, hp, rfl⟩ := List.mem_map.mp hx
  exact hw p (List.mem_filter.mp hp).1

theorem w2sum_filter_nonneg (d : List Pt) (q : Pt → Bool) : 0 ≤ w2sum (d.filter q) := by
  unfold w2sum
  apply List.sum_nonneg
  intro x hx
  obtain ⟨p, _, rfl⟩ := List.mem_map.mp hx
  exact mul_self_nonneg _

/-- **Filling keeps a histogram well-formed**: a `fill_n` batch with non-negative weights over
    static rising bins. -/
theorem C18_wf_fill_n (fo : FloatOps) (h : H1) (bins : Bins) (ire : Bool) (hb : Rising bins)
    (hbin : h.binning = .static bins ire) (w : WF fo h) (d : List Pt) (hw : ∀ p ∈ d, 0 ≤ p.2) :
    WF fo (h.fillData fo d) := by
  have hbins : h.bins fo = bins := by simp [H1.bins, hbin, Binning.bins]
  have cf : ∀ x ∈ (calc1d bins d).freq, 0 ≤ x := by
    intro x hx
    obtain ⟨i, hi, rfl⟩ := List.getElem_of_mem hx
    have hi' : i < bins.length := by rw [calc1d_freq_length] at hi; exact hi
    have := (C01_content bins d hb i hi').1
    rw [List.getElem?_eq_getElem hi] at this
    rw [Option.some.inj this]
    exact wsum_filter_nonneg d _ hw
  have ce : ∀ x ∈ (calc1d bins d).err2, 0 ≤ x := by
    intro x hx
    obtain ⟨i, hi, rfl⟩ := List.getElem_of_mem hx
    have hi' : i < bins.length := by rw [calc1d_err2_length] at hi; exact hi
    have := (C01_content bins d hb i hi').2
    rw [List.getElem?_eq_getElem hi] at this
    rw [Option.some.inj this]
    exact w2sum_filter_nonneg d _
  refine ⟨?_, ?_, ?_, ?_⟩
  · simp only [fillData, H1.bins, hbin, Binning.bins]
    rw [zipAdd_length, calc1d_freq_length, w.flen, hbins]; simp
  · simp only [fillData, H1.bins, hbin, Binning.bins]
    rw [zipAdd_length, calc1d_err2_length, w.elen, hbins]; simp
  · simp only [fillData, hbins]; exact zipAdd_nonneg _ _ w.epos ce
  · simp only [fillData, hbins]; exact zipAdd_nonneg _ _ w.fpos cf

/-- a slice of a well-formed histogram is well-formed -/
theorem C18_wf_slice (fo : FloatOps) (h : H1) (w : WF fo h) (a b : Option Int) : WF fo (h.getSlice fo a b) := by
  have hl : ∀ {α} (l : List α) (n : Nat), l.length = n → ∀ (m : List Rat), m.length = n →
      (sliceList m a b).length = (sliceList l a b).length := by
    intro α l n hl m hm; simp [sliceList, pySlice, sliceBounds, hl, hm]
  refine ⟨?_, ?_, ?_, ?_⟩
  · exact hl (h.bins fo) _ rfl h.freq w.flen
  · exact hl (h.bins fo) _ rfl h.err2 w.elen
  · intro x hx
    have : x ∈ h.err2 := List.mem_of_mem_drop (List.mem_of_mem_take (by simpa [getSlice, sliceList, pySlice] using hx))
    exact w.epos x this
  · intro x hx
    have : x ∈ h.freq := List.mem_of_mem_drop (List.mem_of_mem_take (by simpa [getSlice, sliceList, pySlice] using hx))
    exact w.fpos x this

/-- **A refused call changes nothing.**  Every validating operation of the model returns either a
    new state or an error *instead of* a state; e.g. for `*=`: when the call is refused, the only
    thing the implementation has touched is the dtype, and that promotion is lossless. -/
theorem C18_refused_promotion (h : H1) (d : DType) :
    (h.coerce d).freq = h.freq ∧ (h.coerce d).err2 = h.err2 ∧ (h.coerce d).under = h.under ∧
    (h.coerce d).over = h.over ∧ (h.coerce d).inner = h.inner ∧ (h.coerce d).binning = h.binning ∧
    DType.canCast h.dtype (h.coerce d).dtype = true :=
  ⟨rfl, rfl, rfl, rfl, rfl, rfl, (C13_lossless h.dtype d).1⟩

/-- an operation that would make a content negative (negative factor, subtracting more than is
    there) is refused -/
theorem C18_refuse_negative (h : H1) (c : Rat) (k : NumKind) (x : Rat) (hx : x ∈ h.freq) (hneg : x * c < 0) :
    ∃ e, h.imul c k = .error e :=
  imul_refused h c k (List.any_eq_true.mpr ⟨x * c, List.mem_map.mpr ⟨x, hx, rfl⟩, by simpa using hneg⟩)

theorem C18_isub_nonneg (fo : FloatOps) (h o r : H1) (hr : h.isub fo o = .ok r) : ∀ x ∈ r.freq, 0 ≤ x :=
  any_lt_false (isub_ok fo h o r hr).2.2.2.2

/-! Non-vacuity -/
example : ∃ e, ({ binning := .static [(0, 1)] true, freq := [2], err2 := [2] } : H1).imul (-1) .pyInt = .error e :=
  C18_refuse_negative _ _ _ 2 (by simp) (by norm_num)

end Physt

import Physt.Proofs.Paths
/-!
# C03 — incremental filling (fill / fill_n) equals batch construction

1-D histograms over fixed (non-adaptive) bins.  `H1.fill` / `H1.fillData` are the models of
`Histogram1D.fill` / the counting core of `fill_n`; `calc1d` is batch construction (C01).
-/
namespace Physt
open H1

/-- **find_bin returns the bin that contains the value** (rising bins): index `i` iff
    `left_i ≤ v < right_i` (last bin right-closed). -/
theorem C03_find_bin (bins : Bins) (hb : Rising bins) (v : Rat) (i : Nat) :
    findBinIn bins v = .bin i ↔ inBin bins true i v = true :=
  findBinIn_bin_iff bins hb v i

/-- `-1` (underflow) exactly for values below the first edge. -/
theorem C03_find_bin_under (b0 : Bin) (bs : Bins) (hb : Rising (b0 :: bs)) (v : Rat) :
    findBinIn (b0 :: bs) v = .under ↔ v < b0.1 := by
  have spec := leCount_spec (b0 :: bs) hb v 0 b0 rfl
  unfold findBinIn
  simp only
  rw [show ((b0 :: bs).filter fun b => decide (b.1 ≤ v)).length = leCount (b0 :: bs) v from rfl]
  constructor
  · intro h
    by_cases hk0 : leCount (b0 :: bs) v = 0
    · have : ¬ b0.1 ≤ v := fun hle => by have := spec.mpr hle; omega
      exact not_le.mp this
    · simp only [hk0, if_false] at h
      have hkle : leCount (b0 :: bs) v ≤ (b0 :: bs).length := List.length_filter_le _ _
      have hlt : leCount (b0 :: bs) v - 1 < (b0 :: bs).length := by omega
      rw [List.getElem?_eq_getElem hlt] at h
      simp only at h
      split at h <;> (try split at h) <;> simp at h
  · intro hv
    have : leCount (b0 :: bs) v = 0 := by
      by_contra hne
      have : b0.1 ≤ v := spec.mp (by omega)
      linarith
    simp [this]

/-- `fill` returns what `find_bin` returns, and `find_bin` is a pure function of the bins. -/
theorem C03_fill_ret (fo : FloatOps) (fuel : Nat) (h : H1) (bins : Bins) (ire : Bool)
    (hbin : h.binning = .static bins ire) (v w : Rat) (k : NumKind) :
    (h.fill fo fuel (some v) w k).2 = some (findBinIn bins v) := by
  unfold fill
  simp only [adapt, coerce, hbin, findBin, H1.bins, Binning.bins]
  cases findBinIn bins v <;> rfl

/-- the histogram `h` holds exactly the batch histogram of the points `pts` over `bins` -/
structure Tracks (bins : Bins) (ire : Bool) (h : H1) (pts : List Pt) : Prop where
  binning : h.binning = .static bins ire
  keep : h.keep = true
  freq : h.freq = (calc1d bins pts).freq
  err2 : h.err2 = (calc1d bins pts).err2
  under : h.under = (calc1d bins pts).under
  over : h.over = (calc1d bins pts).over

theorem tracks_empty (fo : FloatOps) (bins : Bins) (ire : Bool) (hb : Rising bins)
    (hc : consecutiveB bins = true) (hne : bins ≠ []) (dt : Option DType) :
    Tracks bins ire (H1.empty fo (.static bins ire) true dt) [] := by
  obtain ⟨b0, h0⟩ : ∃ b0, bins.head? = some b0 := by
    cases bins with
    | nil => exact (hne rfl).elim
    | cons x xs => exact ⟨x, rfl⟩
  have hl : bins.getLast? = some (bins.getLast hne) := List.getLast?_eq_some_getLast _
  have e := C01_under_over bins [] hc b0 _ h0 hl
  refine ⟨rfl, rfl, ?_, ?_, ?_, ?_⟩
  · simp [H1.empty, Binning.bins, calc1d_nil_freq bins hb]
  · simp [H1.empty, Binning.bins, calc1d_nil_err2 bins hb]
  · rw [e.1]; simp [H1.empty, wsum]
  · rw [e.2]; simp [H1.empty, wsum]

/-- a `fill_n` batch extends the tracked data by the batch -/
theorem tracks_fillData (fo : FloatOps) (bins : Bins) (ire : Bool) (hb : Rising bins) (hne : bins ≠ [])
    (h : H1) (pts d : List Pt) (t : Tracks bins ire h pts) :
    Tracks bins ire (h.fillData fo d) (pts ++ d) := by
  have hm := calc1d_append_missed bins hne pts d
  refine ⟨?_, ?_, ?_, ?_, ?_, ?_⟩
  · simp [fillData, t.binning]
  · simp [fillData, t.keep]
  · simp only [fillData, H1.bins, t.binning, Binning.bins]
    rw [calc1d_append_freq bins hb, t.freq]
  · simp only [fillData, H1.bins, t.binning, Binning.bins]
    rw [calc1d_append_err2 bins hb, t.err2]
  · simp only [fillData, H1.bins, t.binning, Binning.bins, t.keep, if_true]
    rw [hm.1, t.under]
  · simp only [fillData, H1.bins, t.binning, Binning.bins, t.keep, if_true]
    rw [hm.2, t.over]

/-- **Contents after one `fill`.** For every rising binning, `fill(v, w)` adds exactly the
    histogram of the single point `(v, w)` to contents and squared errors — whatever `find_bin`
    says (a bin, underflow, overflow or a gap). -/
theorem C03_fill_content (fo : FloatOps) (fuel : Nat) (h : H1) (bins : Bins) (ire : Bool) (hb : Rising bins)
    (hbin : h.binning = .static bins ire) (hf : h.freq.length = bins.length)
    (he : h.err2.length = bins.length) (v w : Rat) (k : NumKind) :
    (h.fill fo fuel (some v) w k).1.freq = zipAdd h.freq (calc1d bins [(v, w)]).freq ∧
    (h.fill fo fuel (some v) w k).1.err2 = zipAdd h.err2 (calc1d bins [(v, w)]).err2 := by
  have hsingle := calc1d_single bins hb v w
  have hnone : (∀ i, findBinIn bins v ≠ .bin i) → ∀ i, inBin bins true i v = false := by
    intro hno i
    by_contra hne
    have : inBin bins true i v = true := by simpa using hne
    exact hno i ((findBinIn_bin_iff bins hb v i).mpr this)
  unfold fill
  simp only [adapt, coerce, hbin, findBin, H1.bins, Binning.bins]
  cases hfb : findBinIn bins v with
  | bin i =>
    have hi := (findBinIn_bin_iff bins hb v i).mp hfb
    simp only [(hsingle.1 i hi).1, (hsingle.1 i hi).2]
    rw [addAt_eq_zipAdd, addAt_eq_zipAdd, hf, he]
    exact ⟨rfl, rfl⟩
  | under =>
    have hz := hsingle.2 (hnone (by intro i; rw [hfb]; simp))
    have e1 : zipAdd h.freq (zeros bins.length) = h.freq := by rw [← hf]; exact zipAdd_zeros_right _
    have e2 : zipAdd h.err2 (zeros bins.length) = h.err2 := by rw [← he]; exact zipAdd_zeros_right _
    rw [hz.1, hz.2, e1, e2]
    by_cases hk : h.keep = true <;> simp [hk]
  | over =>
    have hz := hsingle.2 (hnone (by intro i; rw [hfb]; simp))
    have e1 : zipAdd h.freq (zeros bins.length) = h.freq := by rw [← hf]; exact zipAdd_zeros_right _
    have e2 : zipAdd h.err2 (zeros bins.length) = h.err2 := by rw [← he]; exact zipAdd_zeros_right _
    rw [hz.1, hz.2, e1, e2]
    by_cases hk : h.keep = true <;> simp [hk]
  | gap =>
    have hz := hsingle.2 (hnone (by intro i; rw [hfb]; simp))
    have e1 : zipAdd h.freq (zeros bins.length) = h.freq := by rw [← hf]; exact zipAdd_zeros_right _
    have e2 : zipAdd h.err2 (zeros bins.length) = h.err2 := by rw [← he]; exact zipAdd_zeros_right _
    rw [hz.1, hz.2, e1, e2]
    by_cases hk : h.keep = true <;> simp [hk]

/-- **Any chunking.** For consecutive rising bins, entering the data in any list of `fill_n`
    batches (empty batches included) gives what construction from all the data at once gives:
    contents, squared errors, underflow and overflow. -/
theorem C03_paths_fill_n (fo : FloatOps) (bins : Bins) (ire : Bool) (hb : Rising bins)
    (hc : consecutiveB bins = true) (hne : bins ≠ []) (dt : Option DType) (batches : List (List Pt)) :
    Tracks bins ire (batches.foldl (fun h d => h.fillData fo d) (H1.empty fo (.static bins ire) true dt))
      batches.flatten := by
  have gen : ∀ (bs : List (List Pt)) (h : H1) (pts : List Pt), Tracks bins ire h pts →
      Tracks bins ire (bs.foldl (fun h d => h.fillData fo d) h) (pts ++ bs.flatten) := by
    intro bs
    induction bs with
    | nil => intro h pts t; simpa using t
    | cons d ds ih =>
      intro h pts t
      have := ih (h.fillData fo d) (pts ++ d) (tracks_fillData fo bins ire hb hne h pts d t)
      simpa [List.flatten_cons, List.append_assoc] using this
  simpa using gen batches _ [] (tracks_empty fo bins ire hb hc hne dt)

/-- **Any order.** Construction (and hence, by `C03_paths_fill_n`, any chunked filling) does not
    depend on the order in which the data are entered. -/
theorem C03_order (bins : Bins) (hb : Rising bins) (d d' : List Pt) (hp : d.Perm d') :
    calc1d bins d = calc1d bins d' :=
  C01_flatten bins d d' hb hp

/-- **Tracking switched off.** With `keep_missed = False` a value outside every bin changes
    nothing at all (contents, errors, the three missed slots, statistics). -/
theorem C03_keep_off (fo : FloatOps) (fuel : Nat) (h : H1) (bins : Bins) (ire : Bool)
    (hbin : h.binning = .static bins ire) (hk : h.keep = false) (v w : Rat)
    (hout : ∀ i, findBinIn bins v ≠ .bin i) :
    let h' := (h.fill fo fuel (some v) w .pyInt).1
    h'.freq = h.freq ∧ h'.err2 = h.err2 ∧ h'.under = h.under ∧ h'.over = h.over ∧
    h'.inner = h.inner ∧ h'.stats = h.stats := by
  unfold fill
  simp only [adapt, coerce, hbin, findBin, H1.bins, Binning.bins, hk]
  cases hfb : findBinIn bins v with
  | bin i => exact (hout i hfb).elim
  | under => simp
  | over => simp
  | gap => simp

/-- A NaN is skipped by `fill` exactly as `fill_n` skips it: nothing changes. -/
theorem C03_fill_nan (fo : FloatOps) (fuel : Nat) (h : H1) (w : Rat) (k : NumKind) :
    h.fill fo fuel none w k = (h, none) := rfl

/-! Non-vacuity -/
example : Rising [(0, 1), (1, 3)] ∧ consecutiveB [(0, 1), (1, 3)] = true :=
  ⟨(risingB_iff _).mp (by decide +kernel), by decide +kernel⟩
example : findBinIn [(0, 1), (2, 3)] (3 / 2) = .gap ∧ findBinIn [(0, 1), (2, 3)] 3 = .bin 1 ∧
    findBinIn [(0, 1), (2, 3)] (-1) = .under ∧ findBinIn [(0, 1), (2, 3)] 4 = .over := by
  decide +kernel

end Physt

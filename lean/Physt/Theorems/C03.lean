import Physt.Theorems.C01
namespace Physt
theorem C03_placeholder : True := trivial
end Physt

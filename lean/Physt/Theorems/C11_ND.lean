import Physt.Proofs.ArrayLaws
import Mathlib.Tactic.Linarith
/-!
# C11 (continued) — per-axis integer and slice selection of N-d arrays

Helper lemmas: `Proofs/ArrayLaws.lean`.
-/
namespace Physt

/-- **An integer index drops its axis** and reads the entries with that index inserted. -/
theorem C11_select_int (a : Arr) (axis i : Nat) (idx : List Nat) (hax : axis < a.shape.length)
    (hv : validIdx (Arr.removeAt a.shape axis) idx = true) :
    (a.selectInt axis i).shape = Arr.removeAt a.shape axis ∧
    (a.selectInt axis i).get idx = a.get (idx.take axis ++ [i] ++ idx.drop axis) :=
  ⟨Arr.shape_selectInt a axis i, Arr.get_selectInt a axis i idx hax hv⟩

/-- **A slice keeps the axis** with length `hi − lo` and reads the entries shifted by `lo`; the
    other axes are untouched. -/
theorem C11_select_slice (a : Arr) (axis lo hi : Nat) (idx : List Nat)
    (hv : validIdx (Arr.setAt a.shape axis (hi - lo)) idx = true) :
    (a.selectSlice axis lo hi).shape = Arr.setAt a.shape axis (hi - lo) ∧
    (a.selectSlice axis lo hi).get idx = a.get (Arr.setAt idx axis (lo + idx[axis]?.getD 0)) :=
  ⟨Arr.shape_selectSlice a axis lo hi, Arr.get_selectSlice a axis lo hi idx hv⟩

/-- slicing an axis and then summing it gives the partial sums over the slice -/
theorem C11_slice_sum (a : Arr) (axis lo hi : Nat) (js : List Nat) (hax : axis < a.shape.length)
    (hv : validIdx (Arr.removeAt a.shape axis) js = true) :
    ((a.selectSlice axis lo hi).sumAxis axis).get js
      = ((List.range (hi - lo)).map fun k => a.get (insAt js axis (lo + k))).sum :=
  Arr.get_sumAxis_selectSlice a axis lo hi js hax hv

/-- **`h[..., i, ...]` on a histogram**: an integer index (negative counted from the end) inside the
    range drops the axis with its bins and its name, and contents / squared errors are those selected
    entries; an index outside `[-n, n)` is refused. -/
theorem C11_nd_int (h : HN) (axis : Nat) (i : Int) :
    let n : Int := ((h.freq.shape[axis]?.getD 0 : Nat) : Int)
    let k : Int := if i < 0 then i + n else i
    (0 ≤ k ∧ k < n → h.selectInt axis i = .ok
        { h with axes := h.axes.eraseIdx axis, names := h.names.eraseIdx axis,
                 freq := h.freq.selectInt axis k.toNat, err2 := h.err2.selectInt axis k.toNat,
                 missed := some 0, keep := true }) ∧
    (¬ (0 ≤ k ∧ k < n) → ∃ e, h.selectInt axis i = .error e) := by
  intro n k
  constructor
  · intro hk
    have hneg : ¬ (k < 0 ∨ k ≥ n) := by omega
    unfold HN.selectInt
    simp only [bind, Except.bind, pure, Except.pure]
    have : ¬ ((if i < 0 then i + ((h.freq.shape[axis]?.getD 0 : Nat) : Int) else i) < 0 ∨
        (if i < 0 then i + ((h.freq.shape[axis]?.getD 0 : Nat) : Int) else i) ≥ ((h.freq.shape[axis]?.getD 0 : Nat) : Int)) := hneg
    simp only [this, if_false]
    rfl
  · intro hk
    have hpos : k < 0 ∨ k ≥ n := by omega
    unfold HN.selectInt
    have : ((if i < 0 then i + ((h.freq.shape[axis]?.getD 0 : Nat) : Int) else i) < 0 ∨
        (if i < 0 then i + ((h.freq.shape[axis]?.getD 0 : Nat) : Int) else i) ≥ ((h.freq.shape[axis]?.getD 0 : Nat) : Int)) := hpos
    simp only [bind, Except.bind, this, if_true, throw, throwThe, MonadExceptOf.throw]
    exact ⟨_, rfl⟩

/-- **`h[..., a:b, ...]` on a histogram**: the bins of the sliced axis are the list slice of its bins
    (Python bounds), the other axes, the names, missed and dtype are untouched, contents and squared
    errors are the sliced arrays. -/
theorem C11_nd_slice (fo : FloatOps) (h : HN) (axis : Nat) (start stop : Option Int) (bn : Binning)
    (hbn : h.axes[axis]? = some bn) :
    let n := h.freq.shape[axis]?.getD 0
    let a := (H1.sliceBounds n start stop).1
    let b := if (H1.sliceBounds n start stop).2 < a then a else (H1.sliceBounds n start stop).2
    (h.selectSlice fo axis start stop).axes = h.axes.set axis (.static (pySlice (bn.bins fo) a b) bn.ire) ∧
    (h.selectSlice fo axis start stop).names = h.names ∧
    (h.selectSlice fo axis start stop).missed = h.missed ∧
    (h.selectSlice fo axis start stop).dtype = h.dtype ∧
    (h.selectSlice fo axis start stop).freq = h.freq.selectSlice axis a b ∧
    (h.selectSlice fo axis start stop).err2 = h.err2.selectSlice axis a b := by
  intro n a b
  unfold HN.selectSlice
  simp only [hbn]
  refine ⟨?_, ?_, ?_, ?_, ?_, ?_⟩ <;> trivial

example : ((({ shape := [2, 3], data := [1, 2, 3, 4, 5, 6] } : Arr).selectInt 0 1).data = [4, 5, 6]) ∧
    ((({ shape := [2, 3], data := [1, 2, 3, 4, 5, 6] } : Arr).selectSlice 1 1 3).data = [2, 3, 5, 6]) := by decide +kernel

end Physt

import Physt.Proofs.ArrayLaws
/-!
# C11 (continued) — per-axis integer and slice selection of N-d arrays

Helper lemmas: `Proofs/ArrayLaws.lean`.
-/
namespace Physt

/-- **An integer index drops its axis** and reads the entries with that index inserted. -/
theorem C11_select_int (a : Arr) (axis i : Nat) (idx : List Nat) (hax : axis < a.shape.length)
    (hv : validIdx (Arr.removeAt a.shape axis) idx = true) :
    (a.selectInt axis i).shape = Arr.removeAt a.shape axis ∧
    (a.selectInt axis i).get idx = a.get (idx.take axis ++ [i] ++ idx.drop axis) :=
  ⟨Arr.shape_selectInt a axis i, Arr.get_selectInt a axis i idx hax hv⟩

/-- **A slice keeps the axis** with length `hi − lo` and reads the entries shifted by `lo`; the
    other axes are untouched. -/
theorem C11_select_slice (a : Arr) (axis lo hi : Nat) (idx : List Nat)
    (hv : validIdx (Arr.setAt a.shape axis (hi - lo)) idx = true) :
    (a.selectSlice axis lo hi).shape = Arr.setAt a.shape axis (hi - lo) ∧
    (a.selectSlice axis lo hi).get idx = a.get (Arr.setAt idx axis (lo + idx[axis]?.getD 0)) :=
  ⟨Arr.shape_selectSlice a axis lo hi, Arr.get_selectSlice a axis lo hi idx hv⟩

/-- slicing an axis and then summing it gives the partial sums over the slice -/
theorem C11_slice_sum (a : Arr) (axis lo hi : Nat) (js : List Nat) (hax : axis < a.shape.length)
    (hv : validIdx (Arr.removeAt a.shape axis) js = true) :
    ((a.selectSlice axis lo hi).sumAxis axis).get js
      = ((List.range (hi - lo)).map fun k => a.get (insAt js axis (lo + k))).sum :=
  Arr.get_sumAxis_selectSlice a axis lo hi js hax hv

example : ((({ shape := [2, 3], data := [1, 2, 3, 4, 5, 6] } : Arr).selectInt 0 1).data = [4, 5, 6]) ∧
    ((({ shape := [2, 3], data := [1, 2, 3, 4, 5, 6] } : Arr).selectSlice 1 1 3).data = [2, 3, 5, 6]) := by decide +kernel

end Physt

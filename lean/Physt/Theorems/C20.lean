import Physt.Model.Plot
import Mathlib.Algebra.Order.Floor.Ring
import Mathlib.Data.Rat.Floor
import Mathlib.Algebra.Order.Field.Rat
import Mathlib.Tactic.Linarith
import Mathlib.Tactic.FieldSimp
/-!
# C20 — plots show exactly the histogram's data and never modify it

Plot functions are pure in the model (they map a histogram value to lists of marks), so
"plotting never modifies the histogram" is a correspondence-only clause (snapshot before / after);
rendering, colour maps and layout of the backends are outside the model.
-/
namespace Physt

theorem cumsumFrom_length (acc : Rat) (l : List Rat) : (cumsumFrom acc l).length = l.length := by
  induction l generalizing acc with
  | nil => rfl
  | cons x xs ih => simp [cumsumFrom, ih]

theorem cumsumFrom_last (acc : Rat) (l : List Rat) (h : l ≠ []) : (cumsumFrom acc l).getLast? = some (acc + l.sum) := by
  induction l generalizing acc with
  | nil => exact (h rfl).elim
  | cons x xs ih =>
    cases xs with
    | nil => simp [cumsumFrom]
    | cons y ys =>
      have := ih (acc + x) (by simp)
      simp only [cumsumFrom, List.getLast?_cons_cons] at this ⊢
      rw [this]; simp [add_assoc]

/-- **Heights**: the frequencies, the densities (`density=True`) or the cumulative sums
    (`cumulative=True`, ending at the total). -/
theorem C20_heights (freq sizes : List Rat) :
    getData freq sizes false false = freq ∧
    getData freq sizes true false = List.zipWith (· / ·) freq sizes ∧
    (getData freq sizes false true).length = freq.length ∧
    (freq ≠ [] → (getData freq sizes false true).getLast? = some freq.sum) := by
  refine ⟨rfl, rfl, cumsumFrom_length 0 freq, fun h => ?_⟩
  have := cumsumFrom_last 0 freq h
  simpa [getData] using this

/-- **Bars sit at the bins' left edges with the bins' widths** and the requested heights; line /
    scatter / fill marks sit at the bin centres. -/
theorem C20_bar_geometry (bins : Bins) (data : List Rat) (i : Nat) (b : Bin) (d : Rat)
    (hb : bins[i]? = some b) (hd : data[i]? = some d) :
    (barMarks bins data)[i]? = some { left := b.1, width := b.2 - b.1, height := d } ∧
    (centreMarks bins data)[i]? = some ((b.1 + b.2) / 2, d) := by
  simp [barMarks, centreMarks, List.getElem?_zipWith, hb, hd]

/-- one bar / one point per bin -/
theorem C20_one_mark_per_bin (bins : Bins) (data : List Rat) (h : data.length = bins.length) :
    (barMarks bins data).length = bins.length ∧ (centreMarks bins data).length = bins.length := by
  simp [barMarks, centreMarks, h]

/-- **Error bars**: `err² = errors2`, divided by the squared bin size for densities -/
theorem C20_errors (err2 sizes : List Rat) :
    getErr2Data err2 sizes false = err2 ∧
    getErr2Data err2 sizes true = List.zipWith (fun e s => e / (s * s)) err2 sizes := ⟨rfl, rfl⟩

/-- **2-D maps: one cell per bin, at the bin's position** (lower-left corner and widths) -/
theorem C20_map_cells (xb yb : Bins) (data : List Rat) (h : data.length = xb.length * yb.length) :
    (mapCells xb yb data).length = xb.length * yb.length := by
  have : (xb.flatMap fun bx => yb.map fun b => (bx, b)).length = xb.length * yb.length := by
    induction xb with
    | nil => simp
    | cons a t ih => simp [List.flatMap_cons, ih, Nat.succ_mul, Nat.add_comm]
  simp [mapCells, this, h]

/-- **Colour is monotone in the value**: the normalisation fed to the colour map never decreases
    when the value increases (so any monotone colour map gives a monotone colour). -/
theorem C20_colour_monotone (lo hi v w : Rat) (hlh : lo < hi) (hvw : v ≤ w) :
    normalizeColor lo hi v ≤ normalizeColor lo hi w ∧ 0 ≤ normalizeColor lo hi v ∧ normalizeColor lo hi v ≤ 1 := by
  have hpos : 0 < hi - lo := by linarith
  have hmono : (v - lo) / (hi - lo) ≤ (w - lo) / (hi - lo) := by
    apply div_le_div_of_nonneg_right (by linarith) (le_of_lt hpos)
  unfold normalizeColor
  simp only
  refine ⟨?_, ?_, ?_⟩
  · by_cases h1 : (v - lo) / (hi - lo) < 0 <;> by_cases h2 : 1 < (v - lo) / (hi - lo) <;>
      by_cases h3 : (w - lo) / (hi - lo) < 0 <;> by_cases h4 : 1 < (w - lo) / (hi - lo) <;>
      simp only [h1, h2, h3, h4, if_true, if_false] <;> linarith
  · by_cases h1 : (v - lo) / (hi - lo) < 0 <;> by_cases h2 : 1 < (v - lo) / (hi - lo) <;>
      simp only [h1, h2, if_true, if_false] <;> linarith
  · by_cases h1 : (v - lo) / (hi - lo) < 0 <;> by_cases h2 : 1 < (v - lo) / (hi - lo) <;>
      simp only [h1, h2, if_true, if_false] <;> linarith

/-- **Refusal by dimension**: 1-D kinds refuse 2-D histograms and vice versa; an unknown kind is
    accepted for no dimension. -/
theorem C20_refuse :
    plotAccepted "bar" 1 = true ∧ plotAccepted "bar" 2 = false ∧ plotAccepted "map" 2 = true ∧ plotAccepted "map" 1 = false ∧
    plotAccepted "image" 1 = false ∧ plotAccepted "step" 2 = false ∧ plotAccepted "no_such_kind" 1 = false ∧
    plotAccepted "hbar" 2 = false := by decide

/-- **Time ticks are exactly the multiples of the unit inside the range**: every tick is `k·w`
    with `lo ≤ k·w ≤ hi`, and every such multiple is a tick. -/
theorem C20_ticks (lo hi w : Rat) (hw : 0 < w) (t : Rat) :
    t ∈ timeTicks lo hi w ↔ ∃ k : Int, t = (k : Rat) * w ∧ lo ≤ t ∧ t ≤ hi := by
  have hfirst : -((-(lo / w)).floor) = ⌈lo / w⌉ := by
    show -⌊-(lo / w)⌋ = ⌈lo / w⌉
    rw [Int.floor_neg]; simp
  have hlast : (hi / w).floor = ⌊hi / w⌋ := rfl
  unfold timeTicks
  simp only [List.mem_map, List.mem_range, hfirst, hlast]
  constructor
  · rintro ⟨i, hi', rfl⟩
    refine ⟨⌈lo / w⌉ + i, rfl, ?_, ?_⟩
    · have h1 : lo / w ≤ (⌈lo / w⌉ : Rat) := Int.le_ceil _
      have : lo / w ≤ ((⌈lo / w⌉ + (i : Int) : Int) : Rat) := by push_cast; linarith [show (0 : Rat) ≤ (i : Rat) by positivity]
      calc lo = lo / w * w := by field_simp
        _ ≤ _ := mul_le_mul_of_nonneg_right this (le_of_lt hw)
    · have h2 : (⌊hi / w⌋ : Rat) ≤ hi / w := Int.floor_le _
      have hle : (⌈lo / w⌉ + (i : Int)) ≤ ⌊hi / w⌋ := by omega
      have : ((⌈lo / w⌉ + (i : Int) : Int) : Rat) ≤ hi / w := by
        have : ((⌈lo / w⌉ + (i : Int) : Int) : Rat) ≤ (⌊hi / w⌋ : Rat) := by exact_mod_cast hle
        linarith
      calc _ ≤ hi / w * w := mul_le_mul_of_nonneg_right this (le_of_lt hw)
        _ = hi := by field_simp
  · rintro ⟨k, rfl, h1, h2⟩
    have hk1 : ⌈lo / w⌉ ≤ k := by
      apply Int.ceil_le.mpr
      rw [div_le_iff₀ hw]; exact h1
    have hk2 : k ≤ ⌊hi / w⌋ := by
      apply Int.le_floor.mpr
      rw [le_div_iff₀ hw]; exact h2
    refine ⟨(k - ⌈lo / w⌉).toNat, by omega, ?_⟩
    congr 1
    have : ((k - ⌈lo / w⌉).toNat : Int) = k - ⌈lo / w⌉ := Int.toNat_of_nonneg (by omega)
    exact_mod_cast (by omega : ⌈lo / w⌉ + ((k - ⌈lo / w⌉).toNat : Int) = k)

/-- one label per tick -/
theorem C20_labels (ticks : List Rat) (fmt : Rat → String) : (ticks.map fmt).length = ticks.length := by simp

/-! Non-vacuity -/
example : timeTicks (-150) 150 60 = [-120, -60, 0, 60, 120] ∧ timeTicks 30 100 60 = [60] := by decide +kernel
example : asciiBars [1, 2, 1] 8 = [2, 4, 2] ∧ roundHalfEven (5 / 2) = 2 ∧ roundHalfEven (7 / 2) = 4 := by decide +kernel
example : stepMarks [0, 1, 2] [5, 7] = [(0, 5), (1, 5), (2, 7)] := by decide +kernel

end Physt

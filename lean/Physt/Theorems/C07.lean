import Physt.Proofs.Account1D
import Physt.Proofs.GridCover
import Physt.Theorems.C04
import Physt.Model.Factories
import Mathlib.Tactic.FieldSimp
import Mathlib.Tactic.Positivity
/-!
# C07 — every binning schema is well-formed, covers its data and obeys its rule
-/
namespace Physt

/-- the pair form and the edge form of a binning are inverse to each other (consecutive bins) -/
theorem C07_edges_pairs (e : List Rat) (h : 2 ≤ e.length) : binsToEdges (edgesToBins e) = e := by
  induction e with
  | nil => simp at h
  | cons a t ih =>
    cases t with
    | nil => simp at h
    | cons b u =>
      cases u with
      | nil => simp [edgesToBins, binsToEdges]
      | cons c v =>
        have := ih (by simp)
        simp only [edgesToBins, binsToEdges, List.map_cons] at this ⊢
        simp only [List.cons.injEq, true_and]
        cases hv : edgesToBins (c :: v) with
        | nil =>
          rw [hv] at this
          simp only [List.map_nil] at this
          cases v with
          | nil => simp [edgesToBins] at this ⊢
          | cons d w => simp [edgesToBins] at hv
        | cons p ps =>
          rw [hv] at this
          simp only [List.map_cons, List.cons.injEq] at this
          simp [this.2.1, this.2.2]

theorem C07_bin_count (e : List Rat) : (edgesToBins e).length = e.length - 1 := by
  induction e with
  | nil => rfl
  | cons a t ih =>
    cases t with
    | nil => rfl
    | cons b u => simp only [edgesToBins, List.length_cons] at ih ⊢; omega

/-- bins made from edges are consecutive; they are rising iff the edges strictly increase -/
theorem C07_edges_consecutive (e : List Rat) : consecutiveB (edgesToBins e) = true := by
  induction e with
  | nil => rfl
  | cons a t ih =>
    cases t with
    | nil => rfl
    | cons b u =>
      cases u with
      | nil => rfl
      | cons c v => simp only [edgesToBins, consecutiveB, decide_true, Bool.true_and] at ih ⊢; exact ih

theorem C07_edges_rising (e : List Rat) (h : e.Pairwise (· < ·)) : Rising (edgesToBins e) := by
  induction e with
  | nil => trivial
  | cons a t ih =>
    rw [List.pairwise_cons] at h
    cases t with
    | nil => trivial
    | cons b u =>
      have hab : a < b := h.1 b (List.mem_cons_self ..)
      cases u with
      | nil => exact hab
      | cons c v =>
        have := ih h.2
        simp only [edgesToBins] at this ⊢
        exact ⟨hab, le_refl _, this⟩

/-- **Well-formed = refused otherwise**: the validation `is_rising` is exactly "every bin has
    left < right and no bin starts before its predecessor ends"; unsorted, overlapping and
    zero-width specifications fail it. -/
theorem C07_refuse :
    risingB [(0, 1), (1 / 2, 2)] = false ∧ risingB [(1, 2), (0, 1)] = false ∧ risingB [(0, 0)] = false ∧
    risingB [(0, 1), (1, 1)] = false ∧ risingB [(0, 1), (2, 3)] = true := by decide +kernel

/-- **numpy-style bins** (`linspace`): `n + 1` edges from `start` to `stop`, strictly rising, equally
    spaced — hence `n` rising, consecutive, equal-width bins covering `[start, stop]`. -/
theorem C07_linspace (start stop : Rat) (n : Nat) (hn : 0 < n) (h : start < stop) :
    (linspace start stop n).length = n + 1 ∧ (linspace start stop n).head? = some start ∧
    (linspace start stop n).getLast? = some stop ∧ (linspace start stop n).Pairwise (· < ·) ∧
    ∀ i, i < n → ∃ a b, (linspace start stop n)[i]? = some a ∧ (linspace start stop n)[i + 1]? = some b ∧
      b - a = (stop - start) / n := by
  have hn' : (0 : Rat) < n := by exact_mod_cast hn
  refine ⟨by simp [linspace], ?_, ?_, ?_, ?_⟩
  · simp [linspace, List.head?_map, List.head?_range]
  · simp only [linspace, List.getLast?_map, List.getLast?_range, Nat.add_sub_cancel]
    simp only [Nat.succ_ne_zero, if_false, Option.map_some]
    congr 1; field_simp; ring
  · unfold linspace
    rw [List.pairwise_map]
    apply List.Pairwise.imp _ List.pairwise_lt_range
    intro i j hij
    have : (i : Rat) < (j : Rat) := by exact_mod_cast hij
    have hd : 0 < (stop - start) / n := div_pos (by linarith) hn'
    have e1 : ∀ k : Nat, (k : Rat) * (stop - start) / n = k * ((stop - start) / n) := fun k => by ring
    rw [e1, e1]; nlinarith
  · intro i hi
    refine ⟨start + (i : Rat) * (stop - start) / n, start + ((i + 1 : Nat) : Rat) * (stop - start) / n, ?_, ?_, ?_⟩
    · simp [linspace, List.getElem?_range (show i < n + 1 by omega)]
    · simp [linspace, List.getElem?_range (show i + 1 < n + 1 by omega)]
    · push_cast; ring

/-- **Fixed-width / integer / pretty bins derived from data** cover the data: growing an (empty or
    non-empty) grid for a value puts the value's cell inside the grid (C04), all bins have the same
    width and lie on the grid `origin + k·width` (exact instance). -/
theorem C07_fixed_width_cover (g : Grid) (v : Rat) (fuel : Nat) (halign : g.align = true) (hw : 0 < g.w) :
    let g' := (g.forceSingle FloatOps.exact fuel v false).1
    let k := FloatOps.exact.est g.w g.shift v
    g'.tmin ≤ k ∧ k < g'.tmin + g'.count ∧ g'.w = g.w ∧ g'.shift = g.shift ∧
    FloatOps.exact.edge g.w g.shift k ≤ v ∧ v < FloatOps.exact.edge g.w g.shift (k + 1) := by
  have hm : Grid.EdgeMono FloatOps.exact g.w g.shift := C04_exact_mono g.w g.shift hw
  have hcell : Grid.CellOf (g.edgeAt FloatOps.exact) v (FloatOps.exact.est g.w g.shift v) :=
    C04_exact_cell g.w g.shift v hw
  have cov := Grid.forceSingle_covers FloatOps.exact fuel g v _ halign hm hcell (by simp)
  simp only at cov ⊢
  exact ⟨cov.2.2.2.2.2.1, cov.2.2.2.2.2.2.1, cov.1, cov.2.1, hcell.1, hcell.2⟩

theorem grid_bins_regular (g : Grid) :
    Rising (g.bins FloatOps.exact) ∨ ¬ 0 < g.w := by
  by_cases hw : 0 < g.w
  · left
    rw [Grid.bins_eq_binsFrom]
    apply Grid.binsFrom_rising
    intro a b hab
    simp only [Grid.edgeAt, FloatOps.exact]
    have : (a : Rat) < (b : Rat) := by exact_mod_cast hab
    nlinarith
  · right; exact hw

/-- **Pretty width**: the chosen width is one of the candidates and no candidate is closer to the
    raw width `range / bin_count` (distance = ratio, i.e. |log|). -/
theorem C07_pretty (raw : Rat) (cands : List Rat) (hne : cands ≠ []) :
    ∃ w, prettyChoice raw cands = some w ∧ w ∈ cands ∧ ∀ c ∈ cands, ratioDist raw w ≤ ratioDist raw c := by
  induction cands with
  | nil => exact (hne rfl).elim
  | cons c cs ih =>
    cases cs with
    | nil => exact ⟨c, rfl, by simp, by intro x hx; simp at hx; rw [hx]⟩
    | cons d ds =>
      obtain ⟨b, hb, hmem, hmin⟩ := ih (by simp)
      simp only [prettyChoice] at hb ⊢
      rw [hb]
      by_cases hlt : ratioDist raw b < ratioDist raw c
      · simp only [hlt, if_true]
        refine ⟨b, rfl, List.mem_cons_of_mem _ hmem, ?_⟩
        intro x hx
        rcases List.mem_cons.mp hx with rfl | hx
        · exact le_of_lt hlt
        · exact hmin x hx
      · simp only [hlt, if_false]
        refine ⟨c, rfl, List.mem_cons_self .., ?_⟩
        intro x hx
        rcases List.mem_cons.mp hx with rfl | hx
        · exact le_refl _
        · exact le_trans (not_lt.mp hlt) (hmin x hx)

/-- the candidates are `{1, 2, 2.5, 5}·10^k` (0.5 and 10 times a power of ten are 5 and 1 times
    the neighbouring powers) -/
theorem C07_pretty_set (p : Rat) : decimalCandidates p = [p / 2, p, 2 * p, 5 / 2 * p, 5 * p, 10 * p] := by
  simp only [decimalCandidates, List.map_cons, List.map_nil]
  congr 1 <;> (try ring_nf) <;> simp <;> (try ring_nf)

/-- **Bin-count rules**: `sqrt` gives the least `k` with `k² ≥ n`, `sturges` `⌈log₂ n⌉ + 1`. -/
theorem C07_count_rules :
    idealBinCount "sqrt" 10 = some 4 ∧ idealBinCount "sqrt" 16 = some 4 ∧ idealBinCount "sqrt" 17 = some 5 ∧
    idealBinCount "sturges" 8 = some 4 ∧ idealBinCount "sturges" 9 = some 5 ∧ idealBinCount "sturges" 100 = some 8 ∧
    idealBinCount "rice" 8 = some 4 ∧ idealBinCount "rice" 27 = some 6 ∧ idealBinCount "rice" 100 = some 10 ∧
    idealBinCount "default" 20 = some 7 ∧ idealBinCount "sqrt" 0 = some 1 := by decide +kernel

theorem leastFrom_spec (p : Nat → Bool) (f k : Nat) (hex : ∃ j, k ≤ j ∧ j ≤ k + f ∧ p j = true) :
    p (leastFrom p f k) = true ∧ ∀ j, k ≤ j → j < leastFrom p f k → p j = false := by
  induction f generalizing k with
  | zero =>
    obtain ⟨j, h1, h2, h3⟩ := hex
    have : j = k := by omega
    subst this
    exact ⟨h3, fun i hi hlt => by simp [leastFrom] at hlt; omega⟩
  | succ f ih =>
    unfold leastFrom
    by_cases hk : p k = true
    · rw [if_pos hk]
      exact ⟨hk, fun i hi hlt => by omega⟩
    · rw [if_neg hk]
      obtain ⟨j, h1, h2, h3⟩ := hex
      have hjk : j ≠ k := fun e => hk (e ▸ h3)
      obtain ⟨a, b⟩ := ih (k + 1) ⟨j, by omega, by omega, h3⟩
      refine ⟨a, ?_⟩
      intro i hi hlt
      by_cases hik : i = k
      · subst hik; simpa using hk
      · exact b i (by omega) hlt

/-- `sqrt` rule: the least `k` with `k² ≥ n` -/
theorem C07_sqrt_rule (n : Nat) : n ≤ ceilSqrt n * ceilSqrt n ∧ ∀ k, k < ceilSqrt n → k * k < n := by
  have := leastFrom_spec (fun k => decide (n ≤ k * k)) n 0 ⟨n, by omega, by omega, by
    simp only [decide_eq_true_eq]; nlinarith⟩
  unfold ceilSqrt
  refine ⟨by simpa using this.1, fun k hk => ?_⟩
  have := this.2 k (by omega) hk
  simpa using this

/-- `sturges` rule: `⌈log₂ n⌉` is the least `k` with `2^k ≥ n` -/
theorem C07_sturges_rule (n : Nat) : n ≤ 2 ^ ceilLog2 n ∧ ∀ k, k < ceilLog2 n → 2 ^ k < n := by
  have hpow : n ≤ 2 ^ n := Nat.le_of_lt Nat.lt_two_pow_self
  have := leastFrom_spec (fun k => decide (n ≤ 2 ^ k)) n 0 ⟨n, by omega, by omega, by simpa using hpow⟩
  unfold ceilLog2
  refine ⟨by simpa using this.1, fun k hk => ?_⟩
  have := this.2 k (by omega) hk
  simpa using this

/-- **Quantile edges** are the data quantiles: 0 ↦ minimum, 1 ↦ maximum, 1/2 ↦ median. -/
theorem C07_quantile_examples :
    quantile [1, 2, 4, 8] 0 = some 1 ∧ quantile [1, 2, 4, 8] 1 = some 8 ∧ quantile [1, 2, 4, 8] (1 / 2) = some 3 ∧
    quantile [1, 2, 4, 8] (1 / 3) = some 2 ∧ quantile [5] (3 / 4) = some 5 := by decide +kernel

end Physt

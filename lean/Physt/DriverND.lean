import Physt.Driver
import Physt.Model.JsonND
import Physt.Model.HistND
import Physt.Model.Config
import Physt.Model.Special
import Physt.Model.Factories
import Physt.Model.Plot
/-! ND part of the line-protocol driver. -/
open Lean (Json)
namespace Physt.Driver

def jStrs (l : List String) : Json := Json.arr (l.map Json.str).toArray
def jNats (l : List Nat) : Json := Json.arr (l.map fun (n : Nat) => Json.num n).toArray

def snapN (fo : FloatOps) (h : HN) : Json :=
  Json.mkObj [("bins", Json.arr ((h.axes.map fun b => jBins (b.bins fo)).toArray)),
    ("shape", jNats h.freq.shape), ("freq", jRats h.freq.data), ("err2", jRats h.err2.data),
    ("missed", jNRat h.missed), ("keep", h.keep), ("dtype", h.dtype.name), ("names", jStrs h.names),
    ("total", jRat h.total), ("ndim", Json.num h.axes.length),
    ("adaptive", h.axes.all Binning.isAdaptive)]

structure StN where
  regs : Array (Option HN) := #[]

def StN.get (s : StN) (i : Nat) : E HN :=
  match s.regs[i]? with
  | some (some h) => pure h
  | _ => throw s!"register {i} empty"

def StN.set (s : StN) (i : Nat) (h : HN) : StN :=
  let regs := if i < s.regs.size then s.regs else s.regs ++ Array.replicate (i + 1 - s.regs.size) none
  { regs := regs.set! i (some h) }

def getAxisRef (j : Json) : E (Sum Int String) :=
  match j with
  | Json.str s => pure (.inr s)
  | _ => do pure (.inl (← j.getInt?))

def getRowsN (j : Json) : E (List (List (Option Rat))) := getList (getList getNRat) j

def getNames (j : Json) : E (Option (List String)) := getOpt (getList fun x => x.getStr?) j

def jIdx : Option (List Nat) → Json
  | none => Json.null
  | some l => jNats l

/-- one sub-index of `h[...]`: an int or a slice -/
inductive SubIdx
  | int (i : Int) | slice (a b : Option Int)

def getSubIdx (j : Json) : E SubIdx :=
  match j.getObjVal? "s" with
  | .ok sl => do
    match ← getList getIntOpt sl with
    | [a, b] => pure (.slice a b)
    | _ => throw "slice = [start, stop]"
  | .error _ => do pure (.int (← j.getInt?))

def stepN (fo : FloatOps) (fuel : Nat) (s : StN) (op : Json) : E (StN × Json) := do
  let name ← (← field op "op").getStr?
  let reg (k : String) : E Nat := do (← field op k).getNat?
  let refusable (r : R (StN × Json)) : E (StN × Json) :=
    match r with
    | .ok x => pure x
    | .error _ => pure (s, Json.str "REFUSED")
  match name with
  | "construct" =>
    let axes ← getList (getBinningWith fo) (← field op "axes")
    let rows ← getRowsN (← field op "rows")
    let ws ← getOpt (getList getRat) (fieldD op "weights")
    let wk ← getOpt getDType (fieldD op "wkind")
    let names ← getNames (fieldD op "names")
    let out ← reg "out"
    refusable do
      let h ← HN.construct fo axes rows ws (wk.getD .i64) (getBoolD op "dropna" true) names
      pure (s.set out h, Json.str "ok")
  | "empty" =>
    let axes ← getList (getBinningWith fo) (← field op "axes")
    let dt ← getOpt getDType (fieldD op "dtype")
    let names ← getNames (fieldD op "names")
    pure (s.set (← reg "out") (HN.empty fo axes (getBoolD op "keep" true) dt names), Json.str "ok")
  | "of_arrays" =>
    let axes ← getList (getBinningWith fo) (← field op "axes")
    let f ← getList getRat (← field op "freq")
    let e ← getOpt (getList getRat) (fieldD op "err2")
    let m ← getNRat (fieldD op "missed")
    let dt ← getDType (← field op "dtype")
    let names ← getNames (fieldD op "names")
    let out ← reg "out"
    refusable do
      let h ← HN.ofArrays fo axes f e m (getBoolD op "keep" true) dt names
      pure (s.set out h, Json.str "ok")
  | "fill" =>
    let r ← reg "h"
    let h ← s.get r
    let v ← getList getNRat (← field op "v")
    let w ← getRat (← field op "w")
    let wk ← getNumKind (← field op "wk")
    if v.length != h.axes.length then pure (s, Json.str "REFUSED")
    else
      let (h', ret) := h.fill fo fuel v w wk
      pure (s.set r h', match ret with | none => Json.str "nan" | some x => jIdx x)
  | "find_bin" =>
    let h ← s.get (← reg "h")
    let v ← getList getRat (← field op "v")
    if v.length != h.axes.length then pure (s, Json.str "REFUSED")
    else pure (s, jIdx (h.findBin fo v))
  | "fill_n" =>
    let r ← reg "h"
    let h ← s.get r
    let rows ← getRowsN (← field op "rows")
    let ws ← getOpt (getList getRat) (fieldD op "ws")
    let wk ← getOpt getDType (fieldD op "wkind")
    refusable do pure (s.set r (← h.fillN fo fuel rows ws (wk.getD .i64)), Json.str "ok")
  | "iadd" =>
    let r ← reg "h"
    let h ← s.get r
    let o ← s.get (← reg "o")
    match h.iadd fo o with
    | .ok h' => pure (s.set r h', Json.str "ok")
    | .error e =>
      pure (if e == "different widths" || e == "different shifts" then s.set r (h.coerce o.dtype) else s,
            Json.str "REFUSED")
  | "add" =>
    let a ← s.get (← reg "a")
    let b ← s.get (← reg "b")
    let out ← reg "out"
    refusable do pure (s.set out (← a.iadd fo b), Json.str "ok")
  | "isub" =>
    let r ← reg "h"
    let h ← s.get r
    let o ← s.get (← reg "o")
    match h.isub fo o with
    | .ok h' => pure (s.set r h', Json.str "ok")
    | .error e =>
      pure (if e == "negative frequencies" || e == "shape changed" then s.set r (h.coerce o.dtype) else s,
            Json.str "REFUSED")
  | "sub" =>
    let a ← s.get (← reg "a")
    let b ← s.get (← reg "b")
    let out ← reg "out"
    refusable do pure (s.set out (← a.isub fo b), Json.str "ok")
  | "imul" | "mul" =>
    let r ← reg "h"
    let h ← s.get r
    let c ← getRat (← field op "c")
    let k ← getNumKind (← field op "k")
    let out ← if name == "imul" then pure r else reg "out"
    match h.imul c k with
    | .ok h' => pure (s.set out h', Json.str "ok")
    | .error _ => pure (if name == "imul" then s.set r (h.coerce k.dtype) else s, Json.str "REFUSED")
  | "idiv" | "div" =>
    let r ← reg "h"
    let h ← s.get r
    let c ← getRat (← field op "c")
    let out ← if name == "idiv" then pure r else reg "out"
    match h.idiv c with
    | .ok h' => pure (s.set out h', Json.str "ok")
    | .error _ => pure (if name == "idiv" && c != 0 then s.set r (h.coerce .f64) else s, Json.str "REFUSED")
  | "normalize" =>
    let r ← reg "h"
    let h ← s.get r
    let inplace := getBoolD op "inplace" false
    let out ← if inplace then pure r else reg "out"
    match h.normalize inplace (getBoolD op "percent" false) with
    | .ok h' => pure (s.set out h', Json.str "ok")
    | .error _ => pure (if inplace && h.total != 0 then s.set r (h.coerce .f64) else s, Json.str "REFUSED")
  | "projection" =>
    let h ← s.get (← reg "h")
    let axes ← getList getAxisRef (← field op "axes")
    let out ← reg "out"
    refusable do pure (s.set out (← h.projection axes), Json.str "ok")
  | "getitem" =>
    let h ← s.get (← reg "h")
    let idx ← getList getSubIdx (← field op "index")
    let out ← reg "out"
    let nd := h.axes.length
    if idx.length > nd then pure (s, Json.str "REFUSED")
    else
      refusable do
        -- `current.select(i + current.ndim - self.ndim, subindex)` for each sub-index in turn
        let (cur, _) ← idx.foldlM (fun (acc : HN × Nat) sub => do
          let (cur, i) := acc
          let axis := i + cur.axes.length - nd
          match sub with
          | .int k => do let c ← cur.selectInt axis k; pure (c, i + 1)
          | .slice none none => pure (cur, i + 1)   -- `select(axis, slice(None))` returns the object itself
          | .slice a b => pure (cur.selectSlice fo axis a b, i + 1)) (h, 0)
        if cur.axes.length = 0 then
          -- all indices are integers: the call returns (bin edges, content)
          pure (s, Json.mkObj [("value", jRat (cur.freq.data.headD 0))])
        else pure (s.set out cur, Json.str "ok")
  | "select" =>
    let h ← s.get (← reg "h")
    let ax ← getAxisRef (← field op "axis")
    let sub ← getSubIdx (← field op "index")
    let out ← reg "out"
    refusable do
      let axis ← h.getAxis ax
      match sub with
      | .int k => do
        let c ← h.selectInt axis k
        pure (s.set out c, Json.str "ok")
      | .slice a b => pure (s.set out (h.selectSlice fo axis a b), Json.str "ok")
  | "T" =>
    let h ← s.get (← reg "h")
    pure (s.set (← reg "out") h.transpose, Json.str "ok")
  | "accumulate" =>
    let h ← s.get (← reg "h")
    let ax ← getAxisRef (← field op "axis")
    let out ← reg "out"
    refusable do pure (s.set out (h.accumulate (← h.getAxis ax)), Json.str "ok")
  | "merge" =>
    let r ← reg "h"
    let h ← s.get r
    let amount ← getOpt (fun x => x.getNat?) (fieldD op "amount")
    let thr ← getOpt getRat (fieldD op "min_freq")
    let ax ← getOpt getAxisRef (fieldD op "axis")
    let out ← if getBoolD op "inplace" false then pure r else reg "out"
    refusable do
      let h' ← match ax with
        | none => h.mergeAll fo amount thr
        | some a => do h.mergeAxis fo (← h.getAxis a) amount thr
      pure (s.set out h', Json.str "ok")
  | "partial_normalize" =>
    let r ← reg "h"
    let h ← s.get r
    let ax ← getAxisRef (← field op "axis")
    let out ← if getBoolD op "inplace" false then pure r else reg "out"
    refusable do pure (s.set out (h.partialNormalize (← h.getAxis ax)), Json.str "ok")
  | "set_dtype" =>
    let r ← reg "h"
    let h ← s.get r
    let d ← getDType (← field op "dtype")
    refusable do pure (s.set r (← h.setDType d), Json.str "ok")
  | "set_meta" | "append_meta" =>
    -- meta-data edits: the model's histograms carry no meta data (values): nothing changes
    let _ ← s.get (← reg "h")
    pure (s, Json.str "ok")
  | "set_adaptive" =>
    -- `h.set_adaptive(v)` (all axes; refused unless every axis is fixed-width) or, with "axis", the flag of that axis'
    -- binning object (`h.binnings[i].set_adaptive(v)`: only making a static binning adaptive is refused)
    let r ← reg "h"
    let h ← s.get r
    let v := getBoolD op "value" true
    let setB (b : Binning) : Binning := match b with
      | .fixed g => .fixed { g with adaptive := v }
      | x => x
    match (fieldD op "axis").getNat? with
    | .ok i =>
      match h.axes[i]? with
      | some (.fixed _) => pure (s.set r { h with axes := h.axes.modify i setB }, Json.str "ok")
      | some (.static _ _) => pure (s, Json.str (if v then "REFUSED" else "ok"))
      | none => pure (s, Json.str "REFUSED")
    | .error _ =>
      if h.axes.all Binning.adaptiveAllowed then pure (s.set r { h with axes := h.axes.map setB }, Json.str "ok")
      else pure (s, Json.str "REFUSED")
  | "set_keep" =>
    -- `h.keep_missed = v`: a plain attribute; the stored missed weight stays as it is
    let r ← reg "h"
    let h ← s.get r
    pure (s.set r { h with keep := getBoolD op "value" true }, Json.str "ok")
  | "copy" =>
    let h ← s.get (← reg "h")
    pure (s.set (← reg "out") (h.copy (getBoolD op "with_freq" true)), Json.str "ok")
  | "roundtrip" =>
    -- `parse_json(h.to_json())`: the document written, and the object read back
    let h ← s.get (← reg "h")
    let d := h.toDict fo
    let jb (b : BinningDict) : Json := match b with
      | .static bs => Json.mkObj [("t", "static"), ("bins", jBins bs)]
      | .fixed a c w sh t => Json.mkObj [("t", "fixed"), ("adaptive", a), ("count", Json.num c), ("w", jRat w),
          ("shift", jRat sh), ("tmin", Json.num t)]
    let doc := Json.mkObj [("histogram_type", d.histogramType), ("binnings", Json.arr (d.binnings.map jb).toArray),
      ("shape", jNats d.shape), ("freq", jRats d.freq), ("err2", jRats d.err2), ("dtype", d.dtype.name),
      ("missed", Json.arr (d.missed.map jNRat).toArray), ("missed_keep", d.missedKeep), ("axis_names", jStrs d.axisNames)]
    pure (s.set (← reg "out") (HN.fromDict d), doc)
  | "invalid" =>
    -- refused calls leave the state alone, except that `fill` has already promoted the dtype for its (default, python
    -- int) weight when it finds the value's shape wrong -- a lossless promotion, as the property allows
    match (fieldD op "what").getStr?.toOption with
    | some "fill_wrong_dim" =>
      match (do let r ← reg "h"; let h ← s.get r; pure (r, h) : E (Nat × HN)) with
      | .ok (r, h) => pure (s.set r (h.coerce .i64), Json.str "REFUSED")
      | .error _ => pure (s, Json.str "REFUSED")
    | _ => pure (s, Json.str "REFUSED")
  | _ => throw s!"unknown ND op {name}"

def runHistN (fo : FloatOps) (case : Json) : E Json := do
  let fuel := ((fieldD case "fuel").getNat?).toOption.getD 64
  let ops ← (← field case "ops").getArr?
  let mut s : StN := {}
  let mut outs : Array Json := #[]
  for op in ops do
    let (s', ret) ← match stepN fo fuel s op with
      | .ok x => pure x
      | .error e => if e.startsWith "register" then pure (s, Json.str "REFUSED") else throw e
    s := s'
    let regs := s.regs.map fun r => match r with
      | none => Json.null
      | some h => snapN fo h
    outs := outs.push (Json.mkObj [("ret", ret), ("regs", Json.arr regs)])
  pure (Json.arr outs)

def getCOp (j : Json) : E COp := do
  let name ← (← field j "op").getStr?
  match name with
  | "set" => pure (.set (getBoolD j "v" false))
  | "enter" => pure (.enter (getBoolD j "v" false))
  | "exit" => pure .exit
  | "read" => pure .read
  | "arith" => pure .arith
  | "spawn_thread" => do pure (.spawnThread (← (← field j "child").getNat?))
  | "spawn_task" => do pure (.spawnTask (← (← field j "child").getNat?))
  | _ => throw s!"unknown config op {name}"

def jCObs : CObs → Json
  | .none => Json.null
  | .value b => Json.mkObj [("value", b)]
  | .accepted b => Json.mkObj [("accepted", b)]
  | .underflow => "underflow"

/-- a schedule of config operations: `[{"t": thread, "op": ..}, ...]` -/
def runConfig (case : Json) : E Json := do
  let dflt := getBoolD case "default" false
  let sched ← getList (fun j => do
    let t ← (← field j "t").getNat?
    let op ← getCOp j
    pure (t, op)) (← field case "sched")
  let (_, obs) := World.run dflt World.init sched
  pure (Json.arr (obs.map fun (t, o) => Json.mkObj [("t", Json.num t), ("obs", jCObs o)]).toArray)

instance : Scalar Float where
  two := 2
  three := 3
  cos := Float.cos
  pi := 3.141592653589793

/-- bin measures of a special / plain histogram class for per-axis bins given as doubles -/
def runMeasure (case : Json) : E Json := do
  let klass ← (← field case "class").getStr?
  let axes ← getList (getList getBin) (← field case "axes")
  let fl (b : Bin) : Float × Float := (ratToFloat b.1, ratToFloat b.2)
  let ax := axes.map fun a => a.map fl
  let out : List Float ← match klass, ax with
    | "Histogram1D", [a] => pure (a.map fun (l, r) => Measure.width l r)
    | "AzimuthalHistogram", [a] => pure (a.map fun (l, r) => Measure.width l r)
    | "RadialHistogram", [a] => pure (a.map fun (l, r) => Measure.radial l r)
    | "PolarHistogram", [a, b] => pure (a.flatMap fun (r1, r2) => b.map fun (p1, p2) => Measure.polar r1 r2 p1 p2)
    | "SphericalSurfaceHistogram", [a, b] =>
      pure (a.flatMap fun (t1, t2) => b.map fun (p1, p2) => Measure.sphereSurface t1 t2 p1 p2)
    | "CylindricalSurfaceHistogram", [a, b] =>
      pure (a.flatMap fun (p1, p2) => b.map fun (z1, z2) => Measure.cylinderSurface p1 p2 z1 z2)
    | "SphericalHistogram", [a, b, c] =>
      pure (a.flatMap fun (r1, r2) => b.flatMap fun (t1, t2) => c.map fun (p1, p2) => Measure.spherical r1 r2 t1 t2 p1 p2)
    | "CylindricalHistogram", [a, b, c] =>
      pure (a.flatMap fun (q1, q2) => b.flatMap fun (p1, p2) => c.map fun (z1, z2) => Measure.cylindrical q1 q2 p1 p2 z1 z2)
    | "HistogramND", _ =>
      let rec go : List (List (Float × Float)) → List Float
        | [] => [1]
        | a :: rest => a.flatMap fun (l, r) => (go rest).map fun x => (r - l) * x
      pure (go ax)
    | _, _ => throw s!"unknown class {klass}"
  pure (Json.arr (out.map fun x => jRat (floatToRat x)).toArray)

def getVersion (j : Json) : E Version := do
  let rel ← getList (fun x => x.getNat?) (← field j "release")
  let pre ← getOpt (fun x => do
    match ← getList (fun y => y.getNat?) x with
    | [k, n] => pure (k, n)
    | _ => throw "pre = [kind, n]") (fieldD j "pre")
  pure { release := rel, pre := pre }

def runVersion (case : Json) : E Json := do
  let cur ← getVersion (← field case "current")
  let docs ← getList getVersion (← field case "required")
  pure (Json.arr (docs.map fun d => Json.bool (versionRefused cur d)).toArray)

/-- representations of a binning given as pairs, and the exact-arithmetic factories -/
def runBinning (case : Json) : E Json := do
  let what ← (← field case "what").getStr?
  match what with
  | "repr" =>
    let bins ← getList getBin (← field case "bins")
    let (es, mask) := maskedEdges bins
    pure (Json.mkObj [("rising", risingB bins), ("consecutive", consecutiveB bins), ("count", Json.num bins.length),
      ("first", jNRat (firstEdge? bins)), ("last", jNRat (lastEdge? bins)),
      ("edges", if consecutiveB bins then jRats (binsToEdges bins) else Json.null),
      ("masked_edges", jRats es), ("mask", jNats mask),
      ("pairs_of_edges", if consecutiveB bins then jBins (edgesToBins (binsToEdges bins)) else Json.null)])
  | "linspace" =>
    let a ← getRat (← field case "start")
    let b ← getRat (← field case "stop")
    let n ← (← field case "n").getNat?
    pure (jRats (linspace a b n))
  | "pretty" =>
    let raw ← getRat (← field case "raw")
    let cands ← getList getRat (← field case "candidates")
    pure (jNRat (prettyChoice raw cands))
  | "count" =>
    let m ← (← field case "method").getStr?
    let n ← (← field case "n").getNat?
    pure (match idealBinCount m n with | some k => Json.num k | none => Json.null)
  | "quantile" =>
    let sorted ← getList getRat (← field case "sorted")
    let qs ← getList getRat (← field case "q")
    pure (Json.arr (qs.map fun q => jNRat (quantile sorted q)).toArray)
  | _ => throw s!"unknown binning query {what}"

/-- plot data of a 1-D histogram given by bins, contents and squared errors -/
def runPlot (case : Json) : E Json := do
  let what ← (← field case "what").getStr?
  match what with
  | "marks1d" =>
    let bins ← getList getBin (← field case "bins")
    let freq ← getList getRat (← field case "freq")
    let err2 ← getList getRat (← field case "err2")
    let density := getBoolD case "density" false
    let cumulative := getBoolD case "cumulative" false
    let sizes := bins.map fun b => b.2 - b.1
    let data := getData freq sizes density cumulative
    let bars := barMarks bins data
    let e2 := getErr2Data err2 sizes density
    pure (Json.mkObj [("data", jRats data),
      ("bars", Json.arr (bars.map fun b => Json.arr #[jRat b.left, jRat b.width, jRat b.height]).toArray),
      ("centres", Json.arr ((centreMarks bins data).map fun p => Json.arr #[jRat p.1, jRat p.2]).toArray),
      ("step", Json.arr ((stepMarks (binsToEdges bins) data).map fun p => Json.arr #[jRat p.1, jRat p.2]).toArray),
      ("err2", jRats e2)])
  | "map2d" =>
    let xb ← getList getBin (← field case "xbins")
    let yb ← getList getBin (← field case "ybins")
    let data ← getList getRat (← field case "data")
    pure (Json.arr ((mapCells xb yb data).map fun c =>
      Json.arr #[jRat c.x, jRat c.y, jRat c.dx, jRat c.dy, jRat c.value]).toArray)
  | "ticks" =>
    let lo ← getRat (← field case "lo")
    let hi ← getRat (← field case "hi")
    let w ← getRat (← field case "w")
    pure (jRats (timeTicks lo hi w))
  | "ascii" =>
    let freq ← getList getRat (← field case "freq")
    let width ← (← field case "width").getNat?
    pure (Json.arr ((asciiBars freq width).map fun (k : Int) => Json.num k).toArray)
  | "accepted" =>
    let kind ← (← field case "plot_kind").getStr?
    let nd ← (← field case "ndim").getNat?
    pure (Json.bool (plotAccepted kind nd))
  | _ => throw s!"unknown plot query {what}"

def runCaseAll (case : Json) : E Json := do
  let kind ← (← field case "kind").getStr?
  let fo := if getBoolD case "exact" false then FloatOps.exact else FloatOps.ieee
  match kind with
  | "histn" => runHistN fo case
  | "config" => runConfig case
  | "measure" => runMeasure case
  | "version" => runVersion case
  | "binning" => runBinning case
  | "plot" => runPlot case
  | _ => runCase case

def handleLineAll (line : String) : String :=
  match Json.parse line with
  | .error e => (Json.mkObj [("error", Json.str s!"parse: {e}")]).compress
  | .ok j =>
    match runCaseAll j with
    | .ok r => (Json.mkObj [("ok", r)]).compress
    | .error e => (Json.mkObj [("error", Json.str e)]).compress

end Physt.Driver

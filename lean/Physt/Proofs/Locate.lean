import Physt.Model.Grid
import Mathlib.Algebra.Order.Ring.Rat
import Mathlib.Tactic.Linarith
/-! The corrected grid-cell search: for ANY strictly increasing edge function and ANY estimate. -/
namespace Physt
namespace Grid

variable (edge : Int → Rat) (v : Rat)

theorem walkDown_le (hmono : ∀ a b : Int, a < b → edge a < edge b) (k : Int) (hk : edge k ≤ v)
    (n : Nat) (c : Int) (hc : c ≤ k) : walkDown edge v n c = c := by
  cases n with
  | zero => rfl
  | succ n =>
    unfold walkDown
    have : ¬ v < edge c := by
      rcases lt_or_eq_of_le hc with h | h
      · have := hmono c k h; linarith
      · subst h; linarith
    simp [this]

theorem walkDown_ge (hmono : ∀ a b : Int, a < b → edge a < edge b) (k : Int)
    (hk : edge k ≤ v ∧ v < edge (k + 1)) (n : Nat) (c : Int) (hc : k ≤ c) (hn : (c - k).toNat ≤ n) :
    walkDown edge v n c = k := by
  induction n generalizing c with
  | zero =>
    have : c = k := by omega
    subst this; rfl
  | succ n ih =>
    rcases lt_or_eq_of_le hc with h | h
    · unfold walkDown
      have h1 : v < edge c := by
        have : k + 1 ≤ c := h
        rcases lt_or_eq_of_le this with h2 | h2
        · have := hmono (k + 1) c h2; linarith [hk.2]
        · rw [← h2]; exact hk.2
      have h2 : edge (c - 1) < edge c := hmono _ _ (by omega)
      simp only [h1, h2, and_self, if_true]
      exact ih (c - 1) (by omega) (by omega)
    · subst h
      exact walkDown_le edge v hmono k hk.1 _ k (le_refl _)

theorem walkUp_le (hmono : ∀ a b : Int, a < b → edge a < edge b) (k : Int)
    (hk : edge k ≤ v ∧ v < edge (k + 1)) (n : Nat) (c : Int) (hc : c ≤ k) (hn : (k - c).toNat ≤ n) :
    walkUp edge v n c = k := by
  induction n generalizing c with
  | zero =>
    have : c = k := by omega
    subst this; rfl
  | succ n ih =>
    rcases lt_or_eq_of_le hc with h | h
    · unfold walkUp
      have h1 : edge (c + 1) ≤ v := by
        have : c + 1 ≤ k := h
        rcases lt_or_eq_of_le this with h2 | h2
        · have := hmono (c + 1) k h2; linarith [hk.1]
        · rw [h2]; exact hk.1
      have h2 : edge c < edge (c + 1) := hmono _ _ (by omega)
      simp only [h1, h2, and_self, if_true]
      exact ih (c + 1) (by omega) (by omega)
    · subst h
      cases n with
      | zero => unfold walkUp; simp [not_le.mpr hk.2]
      | succ n => unfold walkUp; simp [not_le.mpr hk.2]

/-- `_find_grid_index` returns THE cell of the value, whatever the (rounded) estimate was. -/
theorem locate_spec (hmono : ∀ a b : Int, a < b → edge a < edge b) (k est : Int) (fuel : Nat)
    (hk : edge k ≤ v ∧ v < edge (k + 1)) (hf : (est - k).natAbs ≤ fuel) :
    locate edge v fuel est = k := by
  unfold locate
  rcases le_or_gt est k with h | h
  · rw [walkDown_le edge v hmono k hk.1 fuel est h]
    exact walkUp_le edge v hmono k hk fuel est h (by omega)
  · rw [walkDown_ge edge v hmono k hk fuel est (le_of_lt h) (by omega)]
    exact walkUp_le edge v hmono k hk fuel k (le_refl _) (by omega)

end Grid
end Physt

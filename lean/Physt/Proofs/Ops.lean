import Physt.Model.Hist1D
/-! What each arithmetic operation of the 1-D model returns when it is accepted. -/
namespace Physt
open H1

theorem idiv_ok (h r : H1) (c : Rat) (hr : h.idiv c = .ok r) :
    c ≠ 0 ∧ r.dtype = h.dtype.promote DType.f64 ∧ r.freq = h.freq.map (· / c) ∧ r.err2 = h.err2.map (· / (c * c)) ∧
    r.under = nscale h.under (1 / c) ∧ r.over = nscale h.over (1 / c) ∧ r.inner = nscale h.inner (1 / c) ∧
    r.stats = h.stats.scale (1 / c) ∧ r.binning = h.binning ∧ r.keep = h.keep ∧
    ((h.freq.map (· / c)).any (· < 0)) = false := by
  unfold H1.idiv at hr
  simp only [bind, Except.bind, pure, Except.pure, throw, throwThe, MonadExceptOf.throw, H1.coerce] at hr
  by_cases hc : c = 0
  · simp [hc] at hr
  · by_cases hneg : ((h.freq.map (· / c)).any (· < 0)) = true
    · simp [hc, hneg] at hr
    · simp only [hc, hneg, if_false] at hr
      cases hr
      exact ⟨hc, rfl, rfl, rfl, rfl, rfl, rfl, rfl, rfl, rfl, by simpa using hneg⟩

theorem imul_ok (h r : H1) (c : Rat) (k : NumKind) (hr : h.imul c k = .ok r) :
    r.dtype = h.dtype.promote k.dtype ∧ r.freq = h.freq.map (· * c) ∧ r.err2 = h.err2.map (· * (c * c)) ∧
    r.under = nscale h.under c ∧ r.over = nscale h.over c ∧ r.inner = nscale h.inner c ∧
    r.stats = h.stats.scale c ∧ r.binning = h.binning ∧ r.keep = h.keep ∧
    ((h.freq.map (· * c)).any (· < 0)) = false := by
  unfold H1.imul at hr
  simp only [bind, Except.bind, pure, Except.pure, throw, throwThe, MonadExceptOf.throw, H1.coerce] at hr
  by_cases hneg : ((h.freq.map (· * c)).any (· < 0)) = true
  · simp [hneg] at hr
  · simp only [hneg, if_false] at hr
    cases hr
    exact ⟨rfl, rfl, rfl, rfl, rfl, rfl, rfl, rfl, rfl, by simpa using hneg⟩

theorem imul_refused (h : H1) (c : Rat) (k : NumKind) (hneg : ((h.freq.map (· * c)).any (· < 0)) = true) :
    ∃ e, h.imul c k = .error e := by
  unfold H1.imul
  simp only [bind, Except.bind, pure, Except.pure, throw, throwThe, MonadExceptOf.throw, H1.coerce, hneg, if_true]
  exact ⟨_, rfl⟩

theorem iadd_same_ok (fo : FloatOps) (h o r : H1) (hs : h.sameBins fo o = true) (hr : h.iadd fo o = .ok r) :
    r.dtype = h.dtype.promote o.dtype ∧ r.freq = zipAdd h.freq o.freq ∧ r.err2 = zipAdd h.err2 o.err2 ∧
    r.under = nadd h.under o.under ∧ r.over = nadd h.over o.over ∧ r.inner = nadd h.inner o.inner ∧
    r.stats = h.stats.add o.stats ∧ r.binning = h.binning ∧ r.keep = h.keep := by
  unfold H1.iadd at hr
  simp only [hs, if_true, H1.coerce, pure, Except.pure] at hr
  cases hr
  exact ⟨rfl, rfl, rfl, rfl, rfl, rfl, rfl, rfl, rfl⟩

theorem iadd_refused (fo : FloatOps) (h o : H1) (hs : h.sameBins fo o = false) (ha : h.binning.isAdaptive = false) :
    ∃ e, h.iadd fo o = .error e := by
  unfold H1.iadd
  simp only [hs, ha, Bool.false_eq_true, if_false, throw, throwThe, MonadExceptOf.throw]
  exact ⟨_, rfl⟩

theorem isub_ok (fo : FloatOps) (h o r : H1) (hr : h.isub fo o = .ok r) :
    r.dtype = h.dtype.promote o.dtype ∧ r.stats = Stats.invalid ∧ r.binning = h.binning ∧ r.keep = h.keep ∧
    (r.freq.any (· < 0)) = false := by
  unfold H1.isub at hr
  simp only [bind, Except.bind, pure, Except.pure, throw, throwThe, MonadExceptOf.throw, H1.coerce] at hr
  cases h1 : o.imul 0 .pyInt with
  | error e => simp [h1] at hr
  | ok o0 =>
    cases h2 : h.imul 0 .pyInt with
    | error e => simp [h1, h2] at hr
    | ok h0 =>
      cases h3 : h.iadd fo o0 with
      | error e => simp [h1, h2, h3] at hr
      | ok aS =>
        cases h4 : h0.iadd fo o with
        | error e => simp [h1, h2, h3, h4] at hr
        | ok aO =>
          simp only [h1, h2, h3, h4] at hr
          by_cases hlen : (aS.freq.length != h.freq.length) = true
          · simp [hlen] at hr
          · by_cases hneg : ((List.zipWith (· - ·) aS.freq aO.freq).any (· < 0)) = true
            · simp [hlen, hneg] at hr
            · simp only [hlen, hneg, if_false] at hr
              cases hr
              exact ⟨rfl, rfl, rfl, rfl, by simpa using hneg⟩

end Physt

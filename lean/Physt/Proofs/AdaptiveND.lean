import Physt.Proofs.AdaptiveHistory
import Physt.Proofs.HistoryND
import Physt.Theorems.C02_Cells
import Physt.Theorems.C03_ND
/-!
# Histories of `fill` / `fill_n` on an N-dimensional histogram with adaptive fixed-width axes

The N-d counterpart of `Proofs/AdaptiveHistory.lean` (1-D, `GridTracks`) and the adaptive
counterpart of `Proofs/PathsND.lean` (N-d, fixed bins, `TracksN`).

* `rowCell_set_axis`, `tally_set_axis`, `calcND_set_axis`, `calcND_grid_grow` — the array lemma: when the
  bins of ONE axis are replaced by bins in which every row is found `a` bins further up, the batch
  histogram is the old one shifted by `a` along that axis (`Arr.shiftAxis`), zeros elsewhere;
* `calcND_regrid` — the same for a grid axis and the instruction `_reshape_data` is given (`ReshapeOK`
  of the 1-D theory: fresh / no change / shift), missed weight unchanged;
* `adaptAxes_spec` — the growth loop of `fill` / `fill_n` over all axes: adaptive grids grow to the hull
  (`SpanHull`) of their range and their column, other axes stay, the arrays follow (`AxisGrown`,
  `AxesGrown`);
* `TracksM fo h axes rows` — the invariant for ANY mix of adaptive grids and non-adaptive rising bins;
  `tracksM_fill`, `tracksM_fill_opt`, `tracksM_fillN`, `tracksM_apply`, `tracksM_history`; consequences
  `TracksM.account`, and with adaptive axes only `TracksM.missed_zero`, `TracksM.total`, `TracksM.in_bin`;
* `TracksA fo h grids rows` — the invariant for all-adaptive histograms in terms of the list of grids
  (`missed = 0`, every row inside every axis), `TracksA.toM` / `TracksM.toA`, `HullN`, and
  `tracksA_fill`, `tracksA_fillN`, `tracksA_history`, `TracksA.total`, `TracksA.in_bin`,
  `TracksA.axis_bins`; exact arithmetic: `monoGrids_exact`, `reachGrids_exact`, `edgesOK_exact`.
-/
namespace Physt
open Grid H1

/-! ## The cell of a coordinate on a grid axis -/

/-- on a right-open grid axis the search of `calculate_nd_frequencies` finds the cell of the value -/
theorem axisCell_grid {edge : Int → Rat} (hm : ∀ a b : Int, a < b → edge a < edge b) (t : Int) (n : Nat)
    (x : Rat) (k : Int) (hk : CellOf edge x k) (h1 : t ≤ k) (h2 : k < t + n) :
    axisCell (binsFrom edge t n) false x = some (k - t).toNat := by
  rw [axisCell_spec _ (binsFrom_rising edge hm t n)]
  unfold inBin
  have hi : (k - t).toNat < n := by omega
  rw [binsFrom_getElem? edge t n _ hi]
  have : t + ((k - t).toNat : Int) = k := by omega
  simp only [this]
  simp [hk.1, hk.2]

/-! ## The cell of a row, coordinate by coordinate -/

/-- component `i` of the cell of a row is the bin found for coordinate `i` on axis `i` -/
theorem rowCell_component (axes : AxesB) (row : List Rat) (hl : row.length = axes.length) (l : List Nat)
    (h : rowCell axes row = some l) (i : Nat) (p : Bins × Bool) (x : Rat) (hp : axes[i]? = some p)
    (hx : row[i]? = some x) : l[i]? = axisCell p.1 p.2 x ∧ l.length = axes.length := by
  obtain ⟨h1, h2⟩ := (C02_axes axes row l hl.symm).mp h
  obtain ⟨hi, rfl⟩ := List.getElem?_eq_some_iff.mp hp
  obtain ⟨hi', rfl⟩ := List.getElem?_eq_some_iff.mp hx
  have := h2 i hi hi' (by omega)
  rw [this, List.getElem?_eq_getElem (by omega)]
  exact ⟨rfl, h1⟩

/-- **Replacing the bins of one axis.**  If coordinate `i` of the row is found in bin `c` of the old
    bins of axis `i` and in bin `c + a` of the new ones, the row's cell over the new axes is its cell
    over the old axes with component `i` moved up by `a`. -/
theorem rowCell_set_axis (axes : AxesB) (i : Nat) (p p' : Bins × Bool) (a : Nat) (hi : axes[i]? = some p)
    (row : List Rat) (hl : row.length = axes.length) (x : Rat) (hx : row[i]? = some x) (c : Nat)
    (hc : axisCell p.1 p.2 x = some c) (hc' : axisCell p'.1 p'.2 x = some (c + a)) (idx : List Nat) :
    rowCell (axes.set i p') row = some idx ↔
      idx[i]? = some (c + a) ∧ rowCell axes row = some (idx.set i c) := by
  obtain ⟨hia, rfl⟩ := List.getElem?_eq_some_iff.mp hi
  obtain ⟨hir, rfl⟩ := List.getElem?_eq_some_iff.mp hx
  rw [C02_axes (axes.set i p') row idx (by simp [hl]), C02_axes axes row (idx.set i c) hl.symm]
  simp only [List.length_set]
  constructor
  · rintro ⟨h1, h2⟩
    have hii : i < idx.length := by omega
    have e := h2 i (by simpa using hia) hir hii
    simp only [List.getElem_set_self, hc', Option.some.injEq] at e
    refine ⟨by rw [List.getElem?_eq_getElem hii, ← e], h1, ?_⟩
    intro j hj hjr hji
    by_cases hij : i = j
    · subst hij
      simp only [List.getElem_set_self]
      exact hc
    · have := h2 j (by simpa using hj) hjr (by simpa using hji)
      rw [List.getElem_set_ne hij] at this
      rw [List.getElem_set_ne hij]
      exact this
  · rintro ⟨h0, h1, h2⟩
    refine ⟨h1, ?_⟩
    intro j hj hjr hji
    by_cases hij : i = j
    · subst hij
      simp only [List.getElem_set_self, hc']
      rw [List.getElem?_eq_getElem hji] at h0
      exact h0.symm
    · have := h2 j (by simpa using hj) hjr (by simpa using hji)
      rw [List.getElem_set_ne hij] at this ⊢
      exact this

/-! ## Batch histograms as tallies; one axis grows -/

/-- the array `calcND` builds, for any per-row quantity `F` (weight: contents; squared weight: errors) -/
def tally (axes : AxesB) (rows : List Row) (F : Row → Rat) : Arr :=
  Arr.ofFn (axes.map (·.1.length)) fun idx => ((rows.filter fun r => rowCell axes r.1 == some idx).map F).sum

theorem calcND_freq_tally (axes : AxesB) (rows : List Row) : (calcND axes rows).freq = tally axes rows (·.2) := by
  simp only [calcND, tally]
  apply Arr.ofFn_congr
  intro idx
  simp only [List.filter_map, List.map_map]; rfl

theorem calcND_err2_tally (axes : AxesB) (rows : List Row) :
    (calcND axes rows).err2 = tally axes rows (fun r => r.2 * r.2) := by
  simp only [calcND, tally]
  apply Arr.ofFn_congr
  intro idx
  simp only [List.filter_map, List.map_map]; rfl

theorem validIdx_getElem? (shape idx : List Nat) (h : validIdx shape idx = true) (i n : Nat)
    (hn : shape[i]? = some n) : ∃ j, idx[i]? = some j ∧ j < n := by
  induction shape generalizing idx i with
  | nil => simp at hn
  | cons m rest ih =>
    cases idx with
    | nil => simp [validIdx] at h
    | cons j js =>
      simp only [validIdx, Bool.and_eq_true, decide_eq_true_eq] at h
      cases i with
      | zero => simp only [List.getElem?_cons_zero, Option.some.injEq] at hn; subst hn; exact ⟨j, rfl, h.1⟩
      | succ i => simpa using ih js h.2 i (by simpa using hn)

/-- changing one component of a valid index tuple to a value below the length of that axis -/
theorem validIdx_set (shape idx : List Nat) (i n k : Nat) (h : validIdx (Arr.setAt shape i n) idx = true)
    (m : Nat) (hm : shape[i]? = some m) (hk : k < m) : validIdx shape (idx.set i k) = true := by
  induction shape generalizing idx i with
  | nil => simp at hm
  | cons m' rest ih =>
    cases idx with
    | nil => cases i <;> simp [Arr.setAt, validIdx] at h
    | cons j js =>
      cases i with
      | zero =>
        simp only [List.getElem?_cons_zero, Option.some.injEq] at hm
        subst hm
        simp only [Arr.setAt, List.set_cons_zero, validIdx, Bool.and_eq_true, decide_eq_true_eq] at h ⊢
        exact ⟨hk, h.2⟩
      | succ i =>
        simp only [Arr.setAt, List.set_cons_succ, validIdx, Bool.and_eq_true, decide_eq_true_eq] at h ⊢
        exact ⟨h.1, ih js i h.2 (by simpa using hm)⟩

theorem shape_set_axis (axes : AxesB) (i : Nat) (p' : Bins × Bool) :
    (axes.set i p').map (·.1.length) = Arr.setAt (axes.map (·.1.length)) i p'.1.length := by
  simp [Arr.setAt, List.map_set]

/-- reading a shifted array: entry `j` along the axis is the old entry `j - k` (zero outside the old range) -/
theorem Arr.get_shiftAxis (A : Arr) (axis k newN : Nat) (idx : List Nat)
    (hv : validIdx (Arr.setAt A.shape axis newN) idx = true) (j : Nat) (hj : idx[axis]? = some j) :
    (A.shiftAxis axis k newN).get idx
      = if k ≤ j ∧ j - k < A.shape[axis]?.getD 0 then A.get (idx.set axis (j - k)) else 0 := by
  show (Arr.ofFn (Arr.setAt A.shape axis newN) _).get idx = _
  rw [Arr.get_ofFn _ _ idx hv]
  simp only [hj, Option.getD_some]
  split
  · simp [Arr.setAt]
  · simp

/-- **One axis grows, the contents stay attached to their intervals** (N-d analogue of
    `calc1d_grid_grow`).  Replace the bins of axis `i` by bins in which every row's coordinate `i` is
    found `a` bins further up (the grid grew by `a` cells on the left and any number on the right).
    Then the batch histogram over the new axes is the old one moved by `a` along axis `i`
    (`Arr.shiftAxis`, what `_reshape_data` does), zeros elsewhere. -/
theorem tally_set_axis (axes : AxesB) (i : Nat) (p p' : Bins × Bool) (a : Nat) (hi : axes[i]? = some p)
    (rows : List Row)
    (hrows : ∀ r ∈ rows, r.1.length = axes.length ∧ ∃ x c, r.1[i]? = some x ∧ axisCell p.1 p.2 x = some c ∧
      c < p.1.length ∧ axisCell p'.1 p'.2 x = some (c + a)) (F : Row → Rat) :
    tally (axes.set i p') rows F = (tally axes rows F).shiftAxis i a p'.1.length := by
  have hold : (axes.map (·.1.length))[i]? = some p.1.length := by simp [hi]
  have wl : (tally (axes.set i p') rows F).WellShaped := Arr.wellShaped_ofFn _ _
  have wr : ((tally axes rows F).shiftAxis i a p'.1.length).WellShaped := Arr.wellShaped_gather _ _ _ _
  apply Arr.ext_get _ _ wl wr
  · rw [Arr.shape_shiftAxis]; exact shape_set_axis axes i p'
  · intro idx hv
    have hv' : validIdx (Arr.setAt (axes.map (·.1.length)) i p'.1.length) idx = true := by
      rw [← shape_set_axis]; exact hv
    have hnew : (Arr.setAt (axes.map (·.1.length)) i p'.1.length)[i]? = some p'.1.length := by
      have : i < axes.length := (List.getElem?_eq_some_iff.mp hi).1
      simp [Arr.setAt, this]
    obtain ⟨j, hj, hjn⟩ := validIdx_getElem? _ idx hv' i _ hnew
    rw [show (tally (axes.set i p') rows F).get idx = _ from Arr.get_ofFn _ _ idx hv]
    rw [Arr.get_shiftAxis _ i a _ idx hv' j hj]
    have hsh : (tally axes rows F).shape[i]?.getD 0 = p.1.length := by
      show (axes.map (·.1.length))[i]?.getD 0 = _
      rw [hold]; rfl
    rw [hsh]
    by_cases hin : a ≤ j ∧ j - a < p.1.length
    · rw [if_pos hin]
      rw [show (tally axes rows F).get (idx.set i (j - a)) = _ from
        Arr.get_ofFn _ _ _ (validIdx_set _ idx i _ (j - a) hv' _ hold hin.2)]
      apply congrArg List.sum
      apply congrArg (List.map F)
      apply List.filter_congr
      intro r hr
      obtain ⟨hl, x, c, hx, hc, hcl, hc'⟩ := hrows r hr
      have key := rowCell_set_axis axes i p p' a hi r.1 hl x hx c hc hc' idx
      rw [Bool.eq_iff_iff, beq_iff_eq, beq_iff_eq, key, hj]
      constructor
      · rintro ⟨e, h2⟩
        have : j - a = c := by simp only [Option.some.injEq] at e; omega
        rw [this]; exact h2
      · intro h2
        have hcomp := (rowCell_component axes r.1 hl _ h2 i p x hi hx).1
        have hlen : i < idx.length := by
          rcases Nat.lt_or_ge i idx.length with h | h
          · exact h
          · rw [List.getElem?_eq_none h] at hj; cases hj
        rw [List.getElem?_set_self hlen, hc] at hcomp
        have e : j - a = c := Option.some.inj hcomp
        refine ⟨by congr 1; omega, by rw [← e]; exact h2⟩
    · rw [if_neg hin]
      have : (rows.filter fun r => rowCell (axes.set i p') r.1 == some idx) = [] := by
        rw [List.filter_eq_nil_iff]
        intro r hr hm
        obtain ⟨hl, x, c, hx, hc, hcl, hc'⟩ := hrows r hr
        have key := (rowCell_set_axis axes i p p' a hi r.1 hl x hx c hc hc' idx).mp (by simpa using hm)
        rw [hj] at key
        have : j = c + a := Option.some.inj key.1
        exact hin ⟨by omega, by omega⟩
      rw [this]; rfl

/-- the same for the two arrays of `calcND` -/
theorem calcND_set_axis (axes : AxesB) (i : Nat) (p p' : Bins × Bool) (a : Nat) (hi : axes[i]? = some p)
    (rows : List Row)
    (hrows : ∀ r ∈ rows, r.1.length = axes.length ∧ ∃ x c, r.1[i]? = some x ∧ axisCell p.1 p.2 x = some c ∧
      c < p.1.length ∧ axisCell p'.1 p'.2 x = some (c + a)) :
    (calcND (axes.set i p') rows).freq = (calcND axes rows).freq.shiftAxis i a p'.1.length ∧
    (calcND (axes.set i p') rows).err2 = (calcND axes rows).err2.shiftAxis i a p'.1.length := by
  rw [calcND_freq_tally, calcND_freq_tally, calcND_err2_tally, calcND_err2_tally]
  exact ⟨tally_set_axis axes i p p' a hi rows hrows _, tally_set_axis axes i p p' a hi rows hrows _⟩

/-- **Growing one grid axis by `a` cells on the left and `b` on the right** (the literal N-d analogue of
    `calc1d_grid_grow`): axis `i` has the bins of cells `t … t+n-1` of a strictly increasing edge
    function, every row has its coordinate `i` in one of those cells.  Over the bins of cells
    `t-a … t+n+b-1` the batch histogram is the old one moved `a` cells up along axis `i`, zeros in the
    `a + b` new slices. -/
theorem calcND_grid_grow {edge : Int → Rat} (hm : ∀ a b : Int, a < b → edge a < edge b) (axes : AxesB) (i : Nat)
    (t : Int) (n a b : Nat) (hi : axes[i]? = some (binsFrom edge t n, false)) (rows : List Row)
    (hrows : ∀ r ∈ rows, r.1.length = axes.length ∧
      ∃ (x : Rat) (k : Int), r.1[i]? = some x ∧ CellOf edge x k ∧ t ≤ k ∧ k < t + n) :
    (calcND (axes.set i (binsFrom edge (t - a) (a + n + b), false)) rows).freq
      = (calcND axes rows).freq.shiftAxis i a (a + n + b) ∧
    (calcND (axes.set i (binsFrom edge (t - a) (a + n + b), false)) rows).err2
      = (calcND axes rows).err2.shiftAxis i a (a + n + b) := by
  have := calcND_set_axis axes i (binsFrom edge t n, false) (binsFrom edge (t - a) (a + n + b), false) a hi rows (by
    intro r hr
    obtain ⟨hl, x, k, hx, hk, k1, k2⟩ := hrows r hr
    refine ⟨hl, x, (k - t).toNat, hx, axisCell_grid hm t n x k hk k1 k2, by rw [binsFrom_length]; omega, ?_⟩
    have e : (k - t).toNat + a = (k - (t - (a : Int))).toNat := by omega
    rw [e]
    exact axisCell_grid hm _ _ x k hk (by omega) (by push_cast; omega))
  simpa only [binsFrom_length] using this

/-! ## One grid axis grows: what happens to the batch histogram of rows inside the old range -/

/-- the cell of `x` lies in the current range of the grid -/
def InGrid (fo : FloatOps) (g : Grid) (x : Rat) : Prop :=
  ∃ k : Int, CellOf (g.edgeAt fo) x k ∧ g.tmin ≤ k ∧ k < g.tmin + g.count

theorem InGrid.mono {fo : FloatOps} {g g' : Grid} {x : Rat} (h : InGrid fo g x) (hw : g'.w = g.w)
    (hs : g'.shift = g.shift) (hlo : g'.tmin ≤ g.tmin) (hhi : g.tmin + g.count ≤ g'.tmin + g'.count) :
    InGrid fo g' x := by
  obtain ⟨k, hk, h1, h2⟩ := h
  have hedge : g'.edgeAt fo = g.edgeAt fo := by funext c; simp only [edgeAt, hw, hs]
  exact ⟨k, by rw [hedge]; exact hk, by omega, by omega⟩

theorem axesOf_set (fo : FloatOps) (axes : List Binning) (i : Nat) (b : Binning) :
    axesOf fo (axes.set i b) = (axesOf fo axes).set i (b.bins fo, b.ire) := by
  simp [axesOf, List.map_set]

theorem axesOf_getElem? (fo : FloatOps) (axes : List Binning) (i : Nat) (b : Binning) (h : axes[i]? = some b) :
    (axesOf fo axes)[i]? = some (b.bins fo, b.ire) := by
  simp [axesOf, h]

/-- **Growing one grid axis as `_reshape_data` is told** (`ReshapeOK`, the instruction the 1-D theory
    shows `_force_bin_existence` to issue): the batch histogram of rows whose coordinate `i` lies in
    the old range, taken over the new bins, is the old one reshaped along axis `i`. -/
theorem calcND_regrid (fo : FloatOps) (axes : List Binning) (i : Nat) (g g' : Grid) (r : Reshape)
    (hi : axes[i]? = some (.fixed g)) (hm : EdgeMono fo g.w g.shift) (hw : g'.w = g.w) (hs : g'.shift = g.shift)
    (hire : g.ire = false) (hire' : g'.ire = false) (ok : ReshapeOK g g' r) (rows : List Row)
    (hrows : ∀ r ∈ rows, r.1.length = axes.length ∧ ∃ x, r.1[i]? = some x ∧ InGrid fo g x) :
    (calcND (axesOf fo (axes.set i (.fixed g'))) rows).freq
      = HN.reshapeAxis (calcND (axesOf fo axes) rows).freq i g'.count r ∧
    (calcND (axesOf fo (axes.set i (.fixed g'))) rows).err2
      = HN.reshapeAxis (calcND (axesOf fo axes) rows).err2 i g'.count r ∧
    (calcND (axesOf fo (axes.set i (.fixed g'))) rows).missing = (calcND (axesOf fo axes) rows).missing := by
  have hedge : g'.edgeAt fo = g.edgeAt fo := by funext c; simp only [edgeAt, hw, hs]
  have hshape : (axesOf fo (axes.set i (.fixed g'))).map (·.1.length)
      = Arr.setAt ((axesOf fo axes).map (·.1.length)) i g'.count := by
    rw [axesOf_set, shape_set_axis]
    simp only [Binning.bins, grid_bins_length]
  rcases ok with ⟨h0, rfl⟩ | ⟨rfl, h1, h2⟩ | ⟨hp, rfl, h1, h2⟩
  · -- the axis was empty: there can be no rows
    have hnil : rows = [] := by
      cases rows with
      | nil => rfl
      | cons r rs =>
        obtain ⟨_, x, _, k, _, h1, h2⟩ := hrows r (List.mem_cons_self ..)
        omega
    subst hnil
    obtain ⟨z1, z2, z3⟩ := calcND_nil (axesOf fo (axes.set i (.fixed g')))
    rw [z1, z2, z3, hshape, (calcND_nil (axesOf fo axes)).2.2]
    exact ⟨rfl, rfl, rfl⟩
  · -- nothing changes
    have hb : g'.bins fo = g.bins fo := by rw [bins_eq_binsFrom, bins_eq_binsFrom, hedge, h1, h2]
    have : axesOf fo (axes.set i (.fixed g')) = axesOf fo axes := by
      rw [axesOf_set]
      simp only [Binning.bins, Binning.ire, hb, hire']
      rw [← hire]
      exact setAt_of_getElem? _ _ _ (axesOf_getElem? fo axes i _ hi)
    rw [this]
    exact ⟨rfl, rfl, rfl⟩
  · -- the old contents move by the cells added on the left
    have hi' := axesOf_getElem? fo axes i _ hi
    have hmE : ∀ a b : Int, a < b → g.edgeAt fo a < g.edgeAt fo b := hm
    have := calcND_set_axis (axesOf fo axes) i ((Binning.fixed g).bins fo, (Binning.fixed g).ire)
      ((Binning.fixed g').bins fo, (Binning.fixed g').ire) (g.tmin - g'.tmin).toNat hi' rows (by
        intro r hr
        obtain ⟨hl, x, hx, k, hk, k1, k2⟩ := hrows r hr
        refine ⟨by rw [hl]; simp [axesOf], x, (k - g.tmin).toNat, hx, ?_, ?_, ?_⟩
        · simp only [Binning.bins, Binning.ire, hire, bins_eq_binsFrom]
          exact axisCell_grid hmE _ _ x k hk k1 k2
        · simp only [Binning.bins, grid_bins_length]; omega
        · simp only [Binning.bins, Binning.ire, hire', bins_eq_binsFrom, hedge]
          have e : (k - g.tmin).toNat + (g.tmin - g'.tmin).toNat = (k - g'.tmin).toNat := by omega
          rw [e]
          exact axisCell_grid hmE _ _ x k hk (by omega) (by omega))
    rw [axesOf_set]
    simp only [Binning.bins, grid_bins_length] at this ⊢
    refine ⟨this.1, this.2, ?_⟩
    have c1 := C02_missed ((axesOf fo axes).set i (g'.bins fo, (Binning.fixed g').ire)) rows
    have c2 := C02_missed (axesOf fo axes) rows
    have ht : ((calcND (axesOf fo axes) rows).freq.shiftAxis i (g.tmin - g'.tmin).toNat g'.count).total
        = (calcND (axesOf fo axes) rows).freq.total := by
      have hsA := (calcND_freq_hasShape (axesOf fo axes) rows)
      apply Arr.total_shiftAxis _ hsA.wellShaped
      · rw [hsA.1]; simpa using (List.getElem?_eq_some_iff.mp hi').1
      · rw [hsA.1]
        have : ((axesOf fo axes).map (·.1.length))[i]? = some g.count := by
          simp [hi', Binning.bins, grid_bins_length]
        rw [this]; simp only [Option.getD_some]; omega
    rw [this.1, ht] at c1
    linarith

/-- the growth of one grid for the values of its column: `fill` hands over one value, `fill_n` the whole
    column; either way the grid keeps its flags, the new range is the hull (`SpanHull`), and the
    reshape instruction is the right one for that growth (`ReshapeOK`) -/
theorem adaptGrid_spec (fo : FloatOps) (fuel : Nat) (g : Grid) (halign : g.align = true) (hire : g.ire = false)
    (hm : EdgeMono fo g.w g.shift) (vs : List Rat) (single : Bool) (hsingle : single = true → ∃ v, vs = [v])
    (hreach : ∀ v ∈ vs, Reach fo g.w g.shift fuel v) :
    (adaptGrid fo fuel g vs single).1.align = g.align ∧
    (adaptGrid fo fuel g vs single).1.adaptive = g.adaptive ∧
    (adaptGrid fo fuel g vs single).1.ire = g.ire ∧
    ReshapeOK g (adaptGrid fo fuel g vs single).1 (adaptGrid fo fuel g vs single).2 ∧
    SpanHull (fo.edge g.w g.shift) g (adaptGrid fo fuel g vs single).1 vs := by
  cases single with
  | false => exact forceMany_spec fo fuel g halign hire hm vs hreach
  | true =>
    obtain ⟨v, rfl⟩ := hsingle rfl
    obtain ⟨k, hk, hf⟩ := hreach v (List.mem_singleton.mpr rfl)
    have e : adaptGrid fo fuel g [v] true = g.forceSingle fo fuel v false := by
      simp [adaptGrid, hire]
    rw [e]
    have cov := forceSingle_covers fo fuel g v k halign hm hk hf
    simp only at cov
    obtain ⟨hw, hs, hal, had, hir, _, _, hzero, hpos⟩ := cov
    exact ⟨hal, had, hir, forceSingle_reshapeOK fo fuel g v k hm hk hf,
      SpanHull.step hk hw hs hpos hzero (SpanHull.refl _ _)⟩

/-! ## `adaptAxes`: every adaptive axis grows to the hull of its column, the contents follow -/

/-- an adaptive axis the theory applies to: aligned, right-open, strictly increasing edges -/
structure GoodGrid (fo : FloatOps) (g : Grid) : Prop where
  align : g.align = true
  ire : g.ire = false
  mono : EdgeMono fo g.w g.shift

/-- what the growth step does to one axis, given the column `vs` of values entered on it: a non-adaptive
    axis is left alone; an adaptive grid keeps its flags and grows to the hull (`SpanHull`) of its old
    range and the cells of `vs` -/
def AxisGrown (fo : FloatOps) (b b' : Binning) (vs : List Rat) : Prop :=
  (b.isAdaptive = false → b' = b) ∧
  ∀ g, b = .fixed g → g.adaptive = true →
    ∃ g', b' = .fixed g' ∧ g'.align = g.align ∧ g'.adaptive = g.adaptive ∧ g'.ire = g.ire ∧
      SpanHull (fo.edge g.w g.shift) g g' vs

/-- the row has one coordinate per axis, and on every adaptive axis its coordinate lies in the grid -/
def RowFits (fo : FloatOps) (axes : List Binning) (row : List Rat) : Prop :=
  row.length = axes.length ∧
  ∀ (i : Nat) (g : Grid) (x : Rat), axes[i]? = some (Binning.fixed g) → g.adaptive = true → row[i]? = some x →
    InGrid fo g x

theorem adaptStep_grow (fo : FloatOps) (fuel : Nat) (cols : List (List Rat)) (single : Bool) (h : HN) (i : Nat)
    (g : Grid) (vs : List Rat) (hg : h.axes[i]? = some (.fixed g)) (hc : cols[i]? = some vs)
    (ha : g.adaptive = true) :
    adaptStep fo fuel cols single h i =
      { h with axes := h.axes.set i (.fixed (adaptGrid fo fuel g vs single).1),
               freq := HN.reshapeAxis h.freq i (adaptGrid fo fuel g vs single).1.count (adaptGrid fo fuel g vs single).2,
               err2 := HN.reshapeAxis h.err2 i (adaptGrid fo fuel g vs single).1.count (adaptGrid fo fuel g vs single).2 } := by
  unfold adaptStep
  simp only [hg, hc, ha, if_true]

theorem adaptStep_stay (fo : FloatOps) (fuel : Nat) (cols : List (List Rat)) (single : Bool) (h : HN) (i : Nat)
    (b : Binning) (hb : h.axes[i]? = some b) (ha : b.isAdaptive = false) :
    adaptStep fo fuel cols single h i = h := by
  unfold adaptStep
  cases b with
  | static bs ire => simp only [hb]
  | fixed g =>
    have : g.adaptive = false := ha
    cases hc : cols[i]? with
    | none => simp only [hb]
    | some vs => simp [hb, this]

theorem axisGrown_refl_of_static (fo : FloatOps) (b : Binning) (vs : List Rat) (ha : b.isAdaptive = false) :
    AxisGrown fo b b vs := by
  refine ⟨fun _ => rfl, ?_⟩
  intro g hg hga
  subst hg
  simp [Binning.isAdaptive, hga] at ha

/-- **The growth step of `fill` / `fill_n` in N dimensions.**  Every adaptive axis grows to the hull of
    its old range and the cells of its column, all other axes stay, and the two arrays — which held
    the batch histogram of `rows` over the old bins — hold the batch histogram of the same rows over
    the new bins. -/
theorem adaptAxes_spec (fo : FloatOps) (fuel : Nat) (h : HN) (cols : List (List Rat)) (single : Bool)
    (rows : List Row)
    (hgood : ∀ (i : Nat) (g : Grid), h.axes[i]? = some (Binning.fixed g) → g.adaptive = true → GoodGrid fo g)
    (hcols : cols.length = h.axes.length)
    (hsingle : single = true → ∀ vs ∈ cols, ∃ v, vs = [v])
    (hreach : ∀ (i : Nat) (g : Grid) (vs : List Rat), h.axes[i]? = some (Binning.fixed g) → g.adaptive = true →
      cols[i]? = some vs → ∀ v ∈ vs, Reach fo g.w g.shift fuel v)
    (hrows : ∀ r ∈ rows, RowFits fo h.axes r.1)
    (hf : h.freq = (calcND (axesOf fo h.axes) rows).freq)
    (he : h.err2 = (calcND (axesOf fo h.axes) rows).err2) :
    (h.adaptAxes fo fuel cols single).axes.length = h.axes.length ∧
    (∀ (i : Nat) (b : Binning) (vs : List Rat), h.axes[i]? = some b → cols[i]? = some vs →
      ∃ b', (h.adaptAxes fo fuel cols single).axes[i]? = some b' ∧ AxisGrown fo b b' vs) ∧
    (h.adaptAxes fo fuel cols single).freq
      = (calcND (axesOf fo (h.adaptAxes fo fuel cols single).axes) rows).freq ∧
    (h.adaptAxes fo fuel cols single).err2
      = (calcND (axesOf fo (h.adaptAxes fo fuel cols single).axes) rows).err2 ∧
    (calcND (axesOf fo (h.adaptAxes fo fuel cols single).axes) rows).missing
      = (calcND (axesOf fo h.axes) rows).missing := by
  rw [adaptAxes_eq]
  -- the state after the first `n` rounds
  have key : ∀ n, n ≤ h.axes.length →
      ((List.range n).foldl (adaptStep fo fuel cols single) h).axes.length = h.axes.length ∧
      (∀ (i : Nat) (b : Binning), h.axes[i]? = some b →
        ∃ b', ((List.range n).foldl (adaptStep fo fuel cols single) h).axes[i]? = some b' ∧
          (i < n → ∀ vs, cols[i]? = some vs → AxisGrown fo b b' vs) ∧ (n ≤ i → b' = b)) ∧
      ((List.range n).foldl (adaptStep fo fuel cols single) h).freq
        = (calcND (axesOf fo ((List.range n).foldl (adaptStep fo fuel cols single) h).axes) rows).freq ∧
      ((List.range n).foldl (adaptStep fo fuel cols single) h).err2
        = (calcND (axesOf fo ((List.range n).foldl (adaptStep fo fuel cols single) h).axes) rows).err2 ∧
      (calcND (axesOf fo ((List.range n).foldl (adaptStep fo fuel cols single) h).axes) rows).missing
        = (calcND (axesOf fo h.axes) rows).missing := by
    intro n
    induction n with
    | zero =>
      intro _
      refine ⟨rfl, ?_, hf, he, rfl⟩
      intro i b hb
      exact ⟨b, hb, fun hi => by omega, fun _ => rfl⟩
    | succ n ih =>
      intro hn
      obtain ⟨ilen, iax, ifr, ier, imi⟩ := ih (by omega)
      rw [List.range_succ, List.foldl_append, List.foldl_cons, List.foldl_nil]
      generalize (List.range n).foldl (adaptStep fo fuel cols single) h = hn' at *
      obtain ⟨b, hb⟩ : ∃ b, h.axes[n]? = some b := ⟨_, List.getElem?_eq_getElem (by omega)⟩
      obtain ⟨vs, hvs⟩ : ∃ vs, cols[n]? = some vs := ⟨_, List.getElem?_eq_getElem (by omega)⟩
      obtain ⟨b0, hb0, _, hsame⟩ := iax n b hb
      have hb0' : b0 = b := hsame (le_refl _)
      subst hb0'
      by_cases had : b0.isAdaptive = false
      · -- a non-adaptive axis: nothing happens
        rw [adaptStep_stay fo fuel cols single hn' n b0 hb0 had]
        refine ⟨ilen, ?_, ifr, ier, imi⟩
        intro i b hbi
        obtain ⟨b', hb', h1, h2⟩ := iax i b hbi
        refine ⟨b', hb', ?_, fun hi => h2 (by omega)⟩
        intro hi vs' hvs'
        by_cases hin : i = n
        · subst hin
          have : b' = b := h2 (le_refl _)
          subst this
          rw [hb] at hbi
          cases hbi
          exact axisGrown_refl_of_static fo _ vs' had
        · exact h1 (by omega) vs' hvs'
      · -- an adaptive grid
        cases b0 with
        | static bs ire => exact (had rfl).elim
        | fixed g =>
          have hga : g.adaptive = true := by simpa [Binning.isAdaptive] using had
          have gg := hgood n g hb hga
          obtain ⟨s1, s2, s3, ok, sp⟩ := adaptGrid_spec fo fuel g gg.align gg.ire gg.mono vs single
            (fun hs => hsingle hs vs (List.mem_of_getElem? hvs)) (hreach n g vs hb hga hvs)
          rw [adaptStep_grow fo fuel cols single hn' n g vs hb0 hvs hga]
          generalize (adaptGrid fo fuel g vs single).1 = g' at *
          generalize (adaptGrid fo fuel g vs single).2 = r at *
          have rg := calcND_regrid fo hn'.axes n g g' r hb0 gg.mono sp.w sp.shift gg.ire (s3.trans gg.ire) ok rows (by
            intro row hrow
            obtain ⟨hl, hin⟩ := hrows row hrow
            obtain ⟨x, hx⟩ : ∃ x, row.1[n]? = some x := ⟨_, List.getElem?_eq_getElem (by omega)⟩
            exact ⟨by rw [hl, ilen], x, hx, hin n g x hb hga hx⟩)
          refine ⟨by simp [ilen], ?_, ?_, ?_, rg.2.2.trans imi⟩
          · intro i b hbi
            by_cases hin : i = n
            · subst hin
              rw [hb] at hbi
              cases hbi
              refine ⟨.fixed g', by simp [List.getElem?_set_self (show i < hn'.axes.length by omega)], ?_,
                fun hi => by omega⟩
              intro _ vs' hvs'
              rw [hvs] at hvs'
              cases hvs'
              refine ⟨fun hna => by simp [Binning.isAdaptive, hga] at hna, ?_⟩
              intro g0 hg0 _
              cases hg0
              exact ⟨g', rfl, s1, s2, s3, sp⟩
            · obtain ⟨b', hb', h1, h2⟩ := iax i b hbi
              refine ⟨b', ?_, fun hi => h1 (by omega), fun hi => h2 (by omega)⟩
              show (hn'.axes.set n (.fixed g'))[i]? = some b'
              rw [List.getElem?_set_ne (fun h => hin h.symm)]
              exact hb'
          · show HN.reshapeAxis hn'.freq n g'.count r = _
            rw [ifr]; exact rg.1.symm
          · show HN.reshapeAxis hn'.err2 n g'.count r = _
            rw [ier]; exact rg.2.1.symm
  obtain ⟨k1, k2, k3, k4, k5⟩ := key h.axes.length (le_refl _)
  refine ⟨k1, ?_, k3, k4, k5⟩
  intro i b vs hb hvs
  obtain ⟨b', hb', h1, _⟩ := k2 i b hb
  exact ⟨b', hb', h1 (List.getElem?_eq_some_iff.mp hb).1 vs hvs⟩

/-! ## Growth of all the axes of a histogram -/

/-- column `i` of a list of rows -/
def col (i : Nat) (rows : List (List Rat)) : List Rat := rows.filterMap (·[i]?)

theorem col_append (i : Nat) (a b : List (List Rat)) : col i (a ++ b) = col i a ++ col i b := by
  simp [col, List.filterMap_append]

theorem mem_col {i : Nat} {rows : List (List Rat)} {x : Rat} (h : x ∈ col i rows) :
    ∃ r ∈ rows, r[i]? = some x := by
  simpa [col, List.mem_filterMap] using h

theorem col_mem {i : Nat} {rows : List (List Rat)} {r : List Rat} {x : Rat} (hr : r ∈ rows) (hx : r[i]? = some x) :
    x ∈ col i rows := by
  simp only [col, List.mem_filterMap]
  exact ⟨r, hr, hx⟩

/-- every axis of `axes'` is the axis of `axes` at the same position, grown (if adaptive) to the hull of
    its old range and column `i` of the rows `entered` -/
structure AxesGrown (fo : FloatOps) (axes axes' : List Binning) (entered : List (List Rat)) : Prop where
  len : axes'.length = axes.length
  each : ∀ (i : Nat) (b : Binning), axes[i]? = some b →
    ∃ b', axes'[i]? = some b' ∧ AxisGrown fo b b' (col i entered)

theorem AxisGrown.refl (fo : FloatOps) (b : Binning) : AxisGrown fo b b [] :=
  ⟨fun _ => rfl, fun g _ _ => ⟨g, by assumption, rfl, rfl, rfl, SpanHull.refl _ g⟩⟩

theorem AxisGrown.trans {fo : FloatOps} {b b1 b2 : Binning} {vs1 vs2 : List Rat} (a1 : AxisGrown fo b b1 vs1)
    (a2 : AxisGrown fo b1 b2 vs2) : AxisGrown fo b b2 (vs1 ++ vs2) := by
  refine ⟨fun hna => ?_, ?_⟩
  · have e1 := a1.1 hna
    subst e1
    exact a2.1 hna
  · intro g hg hga
    obtain ⟨g1, e1, al1, ad1, ir1, sp1⟩ := a1.2 g hg hga
    obtain ⟨g2, e2, al2, ad2, ir2, sp2⟩ := a2.2 g1 e1 (ad1.trans hga)
    rw [sp1.w, sp1.shift] at sp2
    exact ⟨g2, e2, al2.trans al1, ad2.trans ad1, ir2.trans ir1, sp1.trans sp2⟩

/-- read backwards: an adaptive grid after the growth was an adaptive grid before -/
theorem AxisGrown.inv {fo : FloatOps} {b : Binning} {g' : Grid} {vs : List Rat}
    (a : AxisGrown fo b (.fixed g') vs) (ha : g'.adaptive = true) :
    ∃ g, b = .fixed g ∧ g.adaptive = true ∧ g'.align = g.align ∧ g'.ire = g.ire ∧
      SpanHull (fo.edge g.w g.shift) g g' vs := by
  cases b with
  | static bs ire => have := a.1 rfl; cases this
  | fixed g =>
    by_cases hga : g.adaptive = true
    · obtain ⟨g1, e1, al1, _, ir1, sp1⟩ := a.2 g rfl hga
      cases e1
      exact ⟨g, rfl, hga, al1, ir1, sp1⟩
    · have : (Binning.fixed g).isAdaptive = false := by simpa [Binning.isAdaptive] using hga
      have e := a.1 this
      cases e
      exact (hga ha).elim

/-- a non-adaptive axis after the growth is the same axis as before -/
theorem AxisGrown.inv_static {fo : FloatOps} {b b' : Binning} {vs : List Rat} (a : AxisGrown fo b b' vs)
    (ha : b'.isAdaptive = false) : b' = b := by
  cases b with
  | static bs ire => exact a.1 rfl
  | fixed g =>
    by_cases hga : g.adaptive = true
    · obtain ⟨g1, e1, _, ad1, _, _⟩ := a.2 g rfl hga
      subst e1
      have : g1.adaptive = false := ha
      rw [ad1, hga] at this
      cases this
    · exact a.1 (by simpa [Binning.isAdaptive] using hga)

theorem AxesGrown.refl (fo : FloatOps) (axes : List Binning) : AxesGrown fo axes axes [] :=
  ⟨rfl, fun _ b hb => ⟨b, hb, AxisGrown.refl fo b⟩⟩

theorem AxesGrown.trans {fo : FloatOps} {axes axes1 axes2 : List Binning} {e1 e2 : List (List Rat)}
    (a1 : AxesGrown fo axes axes1 e1) (a2 : AxesGrown fo axes1 axes2 e2) : AxesGrown fo axes axes2 (e1 ++ e2) := by
  refine ⟨a2.len.trans a1.len, ?_⟩
  intro i b hb
  obtain ⟨b1, hb1, g1⟩ := a1.each i b hb
  obtain ⟨b2, hb2, g2⟩ := a2.each i b1 hb1
  exact ⟨b2, hb2, by rw [col_append]; exact g1.trans g2⟩

/-- the axis at position `i` before the growth -/
theorem AxesGrown.back {fo : FloatOps} {axes axes' : List Binning} {e : List (List Rat)} (a : AxesGrown fo axes axes' e)
    (i : Nat) (b' : Binning) (hb' : axes'[i]? = some b') :
    ∃ b, axes[i]? = some b ∧ AxisGrown fo b b' (col i e) := by
  have hi : i < axes.length := by rw [← a.len]; exact (List.getElem?_eq_some_iff.mp hb').1
  obtain ⟨b1, h1, g1⟩ := a.each i _ (List.getElem?_eq_getElem hi)
  rw [hb'] at h1
  cases h1
  exact ⟨_, List.getElem?_eq_getElem hi, g1⟩

/-- the hypotheses on the edges: adaptive grids have strictly increasing edge functions (rounding may
    not reorder edges), all other axes have rising bins -/
structure EdgesOK (fo : FloatOps) (axes : List Binning) : Prop where
  mono : ∀ (i : Nat) (g : Grid), axes[i]? = some (Binning.fixed g) → g.adaptive = true → EdgeMono fo g.w g.shift
  rising : ∀ b ∈ axes, b.isAdaptive = false → Rising (b.bins fo)

theorem EdgesOK.grown {fo : FloatOps} {axes axes' : List Binning} {e : List (List Rat)} (ok : EdgesOK fo axes)
    (a : AxesGrown fo axes axes' e) : EdgesOK fo axes' := by
  refine ⟨?_, ?_⟩
  · intro i g' hg' ha
    obtain ⟨b, hb, gr⟩ := a.back i _ hg'
    obtain ⟨g, rfl, hga, _, _, sp⟩ := gr.inv ha
    rw [sp.w, sp.shift]
    exact ok.mono i g hb hga
  · intro b' hb' ha
    obtain ⟨i, hi, rfl⟩ := List.getElem_of_mem hb'
    obtain ⟨b, hb, gr⟩ := a.back i _ (List.getElem?_eq_getElem hi)
    rw [gr.inv_static ha]
    exact ok.rising b (List.mem_of_getElem? hb) (by rw [← gr.inv_static ha]; exact ha)

/-- every bins list is rising -/
theorem EdgesOK.all_rising {fo : FloatOps} {axes : List Binning} (ok : EdgesOK fo axes) :
    ∀ b ∈ axes, Rising (b.bins fo) := by
  intro b hb
  by_cases ha : b.isAdaptive = false
  · exact ok.rising b hb ha
  · cases b with
    | static bs ire => exact (ha rfl).elim
    | fixed g =>
      have hga : g.adaptive = true := by simpa [Binning.isAdaptive] using ha
      obtain ⟨i, hi, he⟩ := List.getElem_of_mem hb
      have hm := ok.mono i g (by rw [List.getElem?_eq_getElem hi, he]) hga
      show Rising (g.bins fo)
      rw [bins_eq_binsFrom]
      exact binsFrom_rising _ hm _ _

/-- the coordinates of the row on the adaptive axes have cells the corrected search can reach -/
def ReachRow (fo : FloatOps) (fuel : Nat) (axes : List Binning) (row : List Rat) : Prop :=
  ∀ (i : Nat) (g : Grid) (x : Rat), axes[i]? = some (Binning.fixed g) → g.adaptive = true → row[i]? = some x →
    Reach fo g.w g.shift fuel x

theorem ReachRow.grown {fo : FloatOps} {fuel : Nat} {axes axes' : List Binning} {e : List (List Rat)} {row : List Rat}
    (r : ReachRow fo fuel axes row) (a : AxesGrown fo axes axes' e) : ReachRow fo fuel axes' row := by
  intro i g' x hg' ha hx
  obtain ⟨b, hb, gr⟩ := a.back i _ hg'
  obtain ⟨g, rfl, hga, _, _, sp⟩ := gr.inv ha
  rw [sp.w, sp.shift]
  exact r i g x hb hga hx

/-- rows that fitted before the growth still fit -/
theorem RowFits.grown {fo : FloatOps} {axes axes' : List Binning} {e : List (List Rat)} {row : List Rat}
    (f : RowFits fo axes row) (a : AxesGrown fo axes axes' e) : RowFits fo axes' row := by
  refine ⟨f.1.trans a.len.symm, ?_⟩
  intro i g' x hg' ha hx
  obtain ⟨b, hb, gr⟩ := a.back i _ hg'
  obtain ⟨g, rfl, hga, _, _, sp⟩ := gr.inv ha
  have hin := f.2 i g x hb hga hx
  have hp : 0 < g.count := by obtain ⟨k, _, h1, h2⟩ := hin; omega
  exact hin.mono sp.w sp.shift (sp.keepLo hp) (sp.keepHi hp)

/-- rows whose coordinates were entered fit after the growth -/
theorem RowFits.entered {fo : FloatOps} {axes axes' : List Binning} {e : List (List Rat)} {row : List Rat}
    (a : AxesGrown fo axes axes' e) (hr : row ∈ e) (hl : row.length = axes.length) : RowFits fo axes' row := by
  refine ⟨hl.trans a.len.symm, ?_⟩
  intro i g' x hg' ha hx
  obtain ⟨b, hb, gr⟩ := a.back i _ hg'
  obtain ⟨g, rfl, hga, _, _, sp⟩ := gr.inv ha
  obtain ⟨k, hk, h1, h2⟩ := sp.covers x (col_mem hr hx)
  refine ⟨k, ?_, h1, h2⟩
  show CellOf (fo.edge g'.w g'.shift) x k
  rw [sp.w, sp.shift]; exact hk

/-! ## The invariant -/

/-- every axis is an adaptive grid -/
def AllAdaptive (axes : List Binning) : Prop := ∀ b ∈ axes, b.isAdaptive = true

theorem AllAdaptive.grown {fo : FloatOps} {axes axes' : List Binning} {e : List (List Rat)} (al : AllAdaptive axes)
    (a : AxesGrown fo axes axes' e) : AllAdaptive axes' := by
  intro b' hb'
  obtain ⟨i, hi, rfl⟩ := List.getElem_of_mem hb'
  obtain ⟨b, hb, gr⟩ := a.back i _ (List.getElem?_eq_getElem hi)
  have hba := al b (List.mem_of_getElem? hb)
  cases b with
  | static bs ire => cases hba
  | fixed g =>
    obtain ⟨g', e', _, ad, _, _⟩ := gr.2 g rfl hba
    rw [e']
    exact ad.trans hba

/-- **The state holds the fixed-bin histogram of the rows entered so far, over its current bins.**
    `h` has the axes `axes`; contents and squared errors are those `calculate_nd_frequencies` computes
    from `rows` over the current bins, `missed` is the weight of the rows outside all bins (possible on
    non-adaptive axes only; tracking of missed values is on, or every axis is adaptive and there is
    nothing to miss); every row has one coordinate per axis and lies inside the current range of
    every adaptive axis; adaptive axes are aligned and right-open (`include_right_edge` off — physt
    refuses that combination). -/
structure TracksM (fo : FloatOps) (h : HN) (axes : List Binning) (rows : List Row) : Prop where
  hax : h.axes = axes
  keep : h.keep = true ∨ AllAdaptive axes
  flags : ∀ (i : Nat) (g : Grid), axes[i]? = some (Binning.fixed g) → g.adaptive = true →
    g.align = true ∧ g.ire = false
  freq : h.freq = (calcND (axesOf fo axes) rows).freq
  err2 : h.err2 = (calcND (axesOf fo axes) rows).err2
  missed : h.missed = some (calcND (axesOf fo axes) rows).missing
  fits : ∀ r ∈ rows, RowFits fo axes r.1

theorem flags_grown {fo : FloatOps} {axes axes' : List Binning} {e : List (List Rat)}
    (fl : ∀ (i : Nat) (g : Grid), axes[i]? = some (Binning.fixed g) → g.adaptive = true →
      g.align = true ∧ g.ire = false) (a : AxesGrown fo axes axes' e) :
    ∀ (i : Nat) (g : Grid), axes'[i]? = some (Binning.fixed g) → g.adaptive = true →
      g.align = true ∧ g.ire = false := by
  intro i g' hg' ha
  obtain ⟨b, hb, gr⟩ := a.back i _ hg'
  obtain ⟨g, rfl, hga, al, ir, _⟩ := gr.inv ha
  have := fl i g hb hga
  exact ⟨al.trans this.1, ir.trans this.2⟩

theorem TracksM.shapes {fo : FloatOps} {h : HN} {axes : List Binning} {rows : List Row} (t : TracksM fo h axes rows) :
    h.freq.HasShape (h.shape fo) ∧ h.err2.HasShape (h.shape fo) := by
  have e : h.shape fo = (axesOf fo axes).map (·.1.length) := by
    rw [axesOf_shape, ← t.hax]; rfl
  rw [e, t.freq, t.err2]
  exact ⟨calcND_freq_hasShape _ _, calcND_err2_hasShape _ _⟩

/-- the empty histogram satisfies the invariant with no rows (any axes with the right flags) -/
theorem tracksM_empty (fo : FloatOps) (axes : List Binning) (keep : Bool) (hk : keep = true ∨ AllAdaptive axes)
    (fl : ∀ (i : Nat) (g : Grid), axes[i]? = some (Binning.fixed g) → g.adaptive = true →
      g.align = true ∧ g.ire = false) (dt : Option DType) (names : Option (List String)) :
    TracksM fo (HN.empty fo axes keep dt names) axes [] := by
  obtain ⟨z1, z2, z3⟩ := calcND_nil (axesOf fo axes)
  refine ⟨rfl, hk, fl, ?_, ?_, ?_, ?_⟩
  · rw [z1, axesOf_shape]; rfl
  · rw [z2, axesOf_shape]; rfl
  · rw [z3]; rfl
  · intro r hr; cases hr

/-! ## Rows with a cell -/

theorem rowCell_isSome (axes : AxesB) (row : List Rat) (hl : row.length = axes.length)
    (h : ∀ (i : Nat) (p : Bins × Bool) (x : Rat), axes[i]? = some p → row[i]? = some x →
      ∃ c, axisCell p.1 p.2 x = some c ∧ c < p.1.length) :
    ∃ idx, rowCell axes row = some idx ∧ validIdx (axes.map (·.1.length)) idx = true := by
  induction axes generalizing row with
  | nil =>
    cases row with
    | nil => exact ⟨[], rfl, rfl⟩
    | cons _ _ => simp at hl
  | cons a as ih =>
    cases row with
    | nil => simp at hl
    | cons x xs =>
      obtain ⟨c, hc, hcl⟩ := h 0 a x rfl rfl
      obtain ⟨cs, hcs, hv⟩ := ih xs (by simpa using hl)
        (fun i p y hp hy => h (i + 1) p y (by simpa using hp) (by simpa using hy))
      refine ⟨c :: cs, ?_, ?_⟩
      · unfold rowCell at hcs ⊢
        simp only [List.zip_cons_cons, List.mapM_cons, hc, hcs]
        rfl
      · simp [validIdx, hcl, hv]

/-- rows that all have a valid cell leave nothing missed -/
theorem calcND_missing_zero (axes : AxesB) (rows : List Row)
    (h : ∀ r ∈ rows, ∃ idx, rowCell axes r.1 = some idx ∧ validIdx (axes.map (·.1.length)) idx = true) :
    (calcND axes rows).missing = 0 := by
  induction rows with
  | nil => exact (calcND_nil axes).2.2
  | cons r rs ih =>
    obtain ⟨idx, hc, hv⟩ := h r (List.mem_cons_self ..)
    have e : r :: rs = [(r.1, r.2)] ++ rs := rfl
    rw [e, calcND_append_missing, (calcND_single_some axes r.1 r.2 idx hc hv).2.2,
      ih (fun q hq => h q (List.mem_cons_of_mem _ hq))]
    simp

/-- **On adaptive axes every fitting row has a cell**: per axis, the bin of its cell `k` on the grid
    `k·w + s`, at position `k - tmin`. -/
theorem fits_rowCell (fo : FloatOps) (axes : List Binning) (al : AllAdaptive axes) (ok : EdgesOK fo axes)
    (fl : ∀ (i : Nat) (g : Grid), axes[i]? = some (Binning.fixed g) → g.adaptive = true →
      g.align = true ∧ g.ire = false) (row : List Rat) (f : RowFits fo axes row) :
    ∃ idx, rowCell (axesOf fo axes) row = some idx ∧
      validIdx ((axesOf fo axes).map (·.1.length)) idx = true ∧
      ∀ (i : Nat) (g : Grid) (x : Rat), axes[i]? = some (Binning.fixed g) → row[i]? = some x →
        ∃ k : Int, CellOf (fo.edge g.w g.shift) x k ∧ g.tmin ≤ k ∧ k < g.tmin + g.count ∧
          idx[i]? = some (k - g.tmin).toNat := by
  have hlen : row.length = (axesOf fo axes).length := by rw [f.1]; simp [axesOf]
  have cellOf : ∀ (i : Nat) (g : Grid) (x : Rat), axes[i]? = some (Binning.fixed g) → row[i]? = some x →
      ∃ k : Int, CellOf (fo.edge g.w g.shift) x k ∧ g.tmin ≤ k ∧ k < g.tmin + g.count ∧
        axisCell (g.bins fo) g.ire x = some (k - g.tmin).toNat := by
    intro i g x hg hx
    have hga : g.adaptive = true := al _ (List.mem_of_getElem? hg)
    obtain ⟨k, hk, h1, h2⟩ := f.2 i g x hg hga hx
    refine ⟨k, hk, h1, h2, ?_⟩
    rw [(fl i g hg hga).2, bins_eq_binsFrom]
    exact axisCell_grid (ok.mono i g hg hga) _ _ x k hk h1 h2
  obtain ⟨idx, hc, hv⟩ := rowCell_isSome (axesOf fo axes) row hlen (by
    intro i p x hp hx
    have hi : i < axes.length := by simpa [axesOf] using (List.getElem?_eq_some_iff.mp hp).1
    have hb : axes[i]? = some axes[i] := List.getElem?_eq_getElem hi
    have hba := al _ (List.mem_of_getElem? hb)
    rcases hbi : axes[i] with _ | g
    · rw [hbi] at hba; cases hba
    · rw [hbi] at hb
      rw [axesOf_getElem? fo axes i _ hb] at hp
      cases hp
      obtain ⟨k, _, h1, h2, hcell⟩ := cellOf i g x hb hx
      exact ⟨_, hcell, by simp only [Binning.bins, grid_bins_length]; omega⟩)
  refine ⟨idx, hc, hv, ?_⟩
  intro i g x hg hx
  obtain ⟨k, hk, h1, h2, hcell⟩ := cellOf i g x hg hx
  refine ⟨k, hk, h1, h2, ?_⟩
  rw [(rowCell_component (axesOf fo axes) row hlen idx hc i _ x (axesOf_getElem? fo axes i _ hg) hx).1]
  exact hcell

/-! ## One `fill` -/

theorem fill_value (fo : FloatOps) (fuel : Nat) (h : HN) (v : List Rat) (w : Rat) (wk : H1.NumKind) :
    h.fill fo fuel (v.map some) w wk =
      match ((h.coerce wk.dtype).adaptAxes fo fuel (v.map fun x => [x]) true).findBin fo v with
      | none =>
        (if ((h.coerce wk.dtype).adaptAxes fo fuel (v.map fun x => [x]) true).keep
          then { (h.coerce wk.dtype).adaptAxes fo fuel (v.map fun x => [x]) true with
                 missed := nadd ((h.coerce wk.dtype).adaptAxes fo fuel (v.map fun x => [x]) true).missed (some w) }
          else (h.coerce wk.dtype).adaptAxes fo fuel (v.map fun x => [x]) true, some none)
      | some idx =>
        ({ (h.coerce wk.dtype).adaptAxes fo fuel (v.map fun x => [x]) true with
           freq := HN.addAtIdx ((h.coerce wk.dtype).adaptAxes fo fuel (v.map fun x => [x]) true).freq idx w,
           err2 := HN.addAtIdx ((h.coerce wk.dtype).adaptAxes fo fuel (v.map fun x => [x]) true).err2 idx (w * w) },
         some (some idx)) := by
  unfold HN.fill
  simp only [any_isNone_map_some, filterMap_id_map_some, Bool.false_eq_true, if_false]
  rfl

theorem col_single (i : Nat) (v : List Rat) (x : Rat) (hx : v[i]? = some x) : col i [v] = [x] := by
  simp [col, hx]

theorem TracksM.coerce {fo : FloatOps} {h : HN} {axes : List Binning} {rows : List Row}
    (t : TracksM fo h axes rows) (d : DType) : TracksM fo (h.coerce d) axes rows :=
  ⟨t.hax, t.keep, t.flags, t.freq, t.err2, t.missed, t.fits⟩

/-- **The growth step keeps the invariant**: the axes grow to the hulls of the columns of the rows
    `entered` (`cols` is their transpose), the arrays follow, the rows tracked so far are the same. -/
theorem tracksM_adapt (fo : FloatOps) (fuel : Nat) (h : HN) (axes : List Binning) (rows : List Row)
    (tr : TracksM fo h axes rows) (ok : EdgesOK fo axes) (cols : List (List Rat)) (single : Bool)
    (entered : List (List Rat)) (hcols : cols.length = axes.length)
    (hcol : ∀ i, i < axes.length → cols[i]? = some (col i entered))
    (hsingle : single = true → ∀ vs ∈ cols, ∃ v, vs = [v])
    (hreach : ∀ r ∈ entered, ReachRow fo fuel axes r) :
    AxesGrown fo axes (h.adaptAxes fo fuel cols single).axes entered ∧
    TracksM fo (h.adaptAxes fo fuel cols single) (h.adaptAxes fo fuel cols single).axes rows := by
  have hax := tr.hax
  obtain ⟨s1, s2, s3, s4, s5⟩ := adaptAxes_spec fo fuel h cols single rows
    (by
      intro i g hg ha
      rw [hax] at hg
      exact ⟨(tr.flags i g hg ha).1, (tr.flags i g hg ha).2, ok.mono i g hg ha⟩)
    (by rw [hax]; exact hcols) hsingle
    (by
      intro i g vs hg ha hvs y hy
      rw [hax] at hg
      rw [hcol i (List.getElem?_eq_some_iff.mp hg).1] at hvs
      cases hvs
      obtain ⟨r, hr, hx⟩ := mem_col hy
      exact hreach r hr i g y hg ha hx)
    (by rw [hax]; exact tr.fits) (by rw [hax]; exact tr.freq) (by rw [hax]; exact tr.err2)
  have grown : AxesGrown fo axes (h.adaptAxes fo fuel cols single).axes entered := by
    refine ⟨by rw [s1, hax], ?_⟩
    intro i b hb
    exact s2 i b _ (by rw [hax]; exact hb) (hcol i (List.getElem?_eq_some_iff.mp hb).1)
  obtain ⟨f1, f2, f3, _⟩ := adaptAxes_fields fo fuel h cols single
  refine ⟨grown, rfl, ?_, flags_grown tr.flags grown, s3, s4, by rw [f2, tr.missed, s5, hax], ?_⟩
  · rcases tr.keep with hk | hk
    · exact Or.inl (by rw [f3]; exact hk)
    · exact Or.inr (hk.grown grown)
  · intro r hr
    exact (tr.fits r hr).grown grown

theorem findBin_eq_rowCell (fo : FloatOps) (h : HN) (hr : ∀ b ∈ h.axes, Rising (b.bins fo)) (v : List Rat) :
    rowCell (axesOf fo h.axes) v = h.findBin fo v := by
  have hrB : ∀ a ∈ axesOf fo h.axes, Rising a.1 := by
    intro a ha
    simp only [axesOf, List.mem_map] at ha
    obtain ⟨b, hb, rfl⟩ := ha
    exact hr b hb
  exact rowCell_eq_findBin cellBridge _ hrB v

/-- after the growth, a value that `find_bin` does not find is counted as missed -/
theorem tracksM_fillCore_none (fo : FloatOps) (h1 : HN) (axes1 : List Binning) (rows : List Row)
    (tr1 : TracksM fo h1 axes1 rows) (ok1 : EdgesOK fo axes1) (v : List Rat) (hv : RowFits fo axes1 v) (w : Rat)
    (hfb : h1.findBin fo v = none) :
    h1.keep = true ∧ TracksM fo { h1 with missed := nadd h1.missed (some w) } axes1 (rows ++ [(v, w)]) := by
  have hax := tr1.hax
  have hrc : rowCell (axesOf fo axes1) v = none := by
    rw [← hax, findBin_eq_rowCell fo h1 (by rw [hax]; exact ok1.all_rising) v]; exact hfb
  have hk : h1.keep = true := by
    rcases tr1.keep with hk | hk
    · exact hk
    · obtain ⟨idx, hc, _⟩ := fits_rowCell fo axes1 hk ok1 tr1.flags v hv
      rw [hrc] at hc; cases hc
  obtain ⟨z1, z2, z3⟩ := calcND_single_none (axesOf fo axes1) v w hrc
  obtain ⟨a1, a2, a3⟩ := calcND_append (axesOf fo axes1) rows [(v, w)]
  have sh := tr1.shapes
  have e : h1.shape fo = (axesOf fo axes1).map (·.1.length) := by rw [axesOf_shape, ← hax]; rfl
  rw [e] at sh
  refine ⟨hk, hax, Or.inl hk, tr1.flags, ?_, ?_, ?_, ?_⟩
  · show h1.freq = _
    rw [a1, z1, ← tr1.freq, Arr.zipWith_zeros_right _ _ sh.1]
  · show h1.err2 = _
    rw [a2, z2, ← tr1.err2, Arr.zipWith_zeros_right _ _ sh.2]
  · show nadd h1.missed (some w) = _
    rw [a3, z3, tr1.missed]; rfl
  · intro r hr
    rcases List.mem_append.mp hr with hr | hr
    · exact tr1.fits r hr
    · rw [List.mem_singleton.mp hr]; exact hv

/-- after the growth, the weight goes to the cell `find_bin` reports -/
theorem tracksM_fillCore_some (fo : FloatOps) (h1 : HN) (axes1 : List Binning) (rows : List Row)
    (tr1 : TracksM fo h1 axes1 rows) (ok1 : EdgesOK fo axes1) (v : List Rat) (hv : RowFits fo axes1 v) (w : Rat)
    (idx : List Nat) (hfb : h1.findBin fo v = some idx) :
    TracksM fo { h1 with freq := HN.addAtIdx h1.freq idx w, err2 := HN.addAtIdx h1.err2 idx (w * w) } axes1
      (rows ++ [(v, w)]) := by
  have hax := tr1.hax
  have hrc : rowCell (axesOf fo axes1) v = some idx := by
    rw [← hax, findBin_eq_rowCell fo h1 (by rw [hax]; exact ok1.all_rising) v]; exact hfb
  have hvalid : validIdx ((axesOf fo axes1).map (·.1.length)) idx = true := by
    rw [← hax]
    exact findBin_valid (h1.axesBins fo) v idx (by rw [hv.1, ← hax]; simp [HN.axesBins]) hfb
  obtain ⟨z1, z2, z3⟩ := calcND_single_some (axesOf fo axes1) v w idx hrc hvalid
  obtain ⟨a1, a2, a3⟩ := calcND_append (axesOf fo axes1) rows [(v, w)]
  have sh := tr1.shapes
  have e : h1.shape fo = (axesOf fo axes1).map (·.1.length) := by rw [axesOf_shape, ← hax]; rfl
  rw [e] at sh
  refine ⟨hax, tr1.keep, tr1.flags, ?_, ?_, ?_, ?_⟩
  · show HN.addAtIdx h1.freq idx w = _
    rw [a1, z1 _ sh.1, tr1.freq]
  · show HN.addAtIdx h1.err2 idx (w * w) = _
    rw [a2, z2 _ sh.2, tr1.err2]
  · show h1.missed = _
    rw [a3, z3, tr1.missed]; simp
  · intro r hr
    rcases List.mem_append.mp hr with hr | hr
    · exact tr1.fits r hr
    · rw [List.mem_singleton.mp hr]; exact hv

theorem cols_single (v : List Rat) (i : Nat) (hi : i < v.length) :
    (v.map fun x => [x])[i]? = some (col i [v]) := by
  simp [col, List.getElem?_eq_getElem hi]

/-- **B. One `fill` of a finite point keeps the invariant** (any kind of weight).  The axes grow to the
    hulls of their old ranges and the cells of the point's coordinates (`AxesGrown`: width and origin
    kept, `SpanHull` per axis); the new state holds the fixed-bin histogram of the old rows followed by
    the new one over the grown bins; the index returned is the one `find_bin` gives afterwards. -/
theorem tracksM_fill (fo : FloatOps) (fuel : Nat) (h : HN) (axes : List Binning) (rows : List Row)
    (tr : TracksM fo h axes rows) (ok : EdgesOK fo axes) (v : List Rat) (hl : v.length = axes.length)
    (hreach : ReachRow fo fuel axes v) (w : Rat) (wk : H1.NumKind) :
    ∃ axes', TracksM fo (h.fill fo fuel (v.map some) w wk).1 axes' (rows ++ [(v, w)]) ∧
      AxesGrown fo axes axes' [v] ∧
      (h.fill fo fuel (v.map some) w wk).2 = some ((h.fill fo fuel (v.map some) w wk).1.findBin fo v) := by
  obtain ⟨grown, tr1⟩ := tracksM_adapt fo fuel (h.coerce wk.dtype) axes rows (tr.coerce _) ok
    (v.map fun x => [x]) true [v] (by simp [hl]) (fun i hi => cols_single v i (by omega))
    (by
      intro _ vs hvs
      obtain ⟨x, _, rfl⟩ := List.mem_map.mp hvs
      exact ⟨x, rfl⟩)
    (by intro r hr; rw [List.mem_singleton.mp hr]; exact hreach)
  have ok1 := ok.grown grown
  have hv : RowFits fo ((h.coerce wk.dtype).adaptAxes fo fuel (v.map fun x => [x]) true).axes v :=
    RowFits.entered grown (List.mem_singleton.mpr rfl) hl
  rw [fill_value]
  generalize (h.coerce wk.dtype).adaptAxes fo fuel (v.map fun x => [x]) true = h1 at *
  refine ⟨h1.axes, ?_⟩
  split
  · rename_i hfb
    obtain ⟨hk, t⟩ := tracksM_fillCore_none fo h1 h1.axes rows tr1 ok1 v hv w hfb
    rw [if_pos hk]
    exact ⟨t, grown, congrArg some ((HN.findBin_axes fo h1 _ rfl v).trans hfb).symm⟩
  · rename_i idx hfb
    have t := tracksM_fillCore_some fo h1 h1.axes rows tr1 ok1 v hv w idx hfb
    exact ⟨t, grown, congrArg some ((HN.findBin_axes fo h1 _ rfl v).trans hfb).symm⟩

/-- `fill` of any value: a value with a NaN coordinate is skipped, exactly as the NaN mask of `fill_n`
    drops it (`maskRows [value] (some [w])` is then empty) -/
theorem tracksM_fill_opt (fo : FloatOps) (fuel : Nat) (h : HN) (axes : List Binning) (rows : List Row)
    (tr : TracksM fo h axes rows) (ok : EdgesOK fo axes) (value : List (Option Rat)) (w : Rat) (wk : H1.NumKind)
    (hl : value.all Option.isSome = true → value.length = axes.length)
    (hreach : ∀ r ∈ maskRows [value] (some [w]), ReachRow fo fuel axes r.1) :
    ∃ axes', TracksM fo (h.fill fo fuel value w wk).1 axes' (rows ++ maskRows [value] (some [w])) ∧
      AxesGrown fo axes axes' ((maskRows [value] (some [w])).map (·.1)) := by
  by_cases hall : value.all Option.isSome = true
  · have hv := map_some_filterMap_id value hall
    have hlen : (value.filterMap id).length = axes.length := by
      rw [← hl hall]; conv => rhs; rw [← hv]
      simp
    have hm : maskRows [value] (some [w]) = [(value.filterMap id, w)] := by simp [maskRows, hall]
    rw [hm] at hreach ⊢
    obtain ⟨axes', t, g, _⟩ := tracksM_fill fo fuel h axes rows tr ok (value.filterMap id) hlen
      (hreach _ (List.mem_singleton.mpr rfl)) w wk
    rw [hv] at t
    exact ⟨axes', t, g⟩
  · have hany := any_isNone_of_not_all value hall
    have e : h.fill fo fuel value w wk = (h, none) := by
      unfold HN.fill; simp [hany]
    have hm : maskRows [value] (some [w]) = [] := by simp [maskRows, hall]
    rw [e, hm]
    exact ⟨axes, by simpa using tr, AxesGrown.refl fo axes⟩

/-! ## One `fill_n` batch -/

theorem maskRows_mem (batch : List (List (Option Rat))) (ws : Option (List Rat)) (r : Row)
    (hr : r ∈ maskRows batch ws) : ∃ x ∈ batch, x.all Option.isSome = true ∧ r.1 = x.filterMap id := by
  induction batch generalizing ws with
  | nil => simp [maskRows] at hr
  | cons v vs ih =>
    cases ws with
    | none =>
      simp only [maskRows] at hr
      split at hr
      · rename_i hall
        rcases List.mem_cons.mp hr with rfl | hr
        · exact ⟨v, List.mem_cons_self .., hall, rfl⟩
        · obtain ⟨x, hx, h1, h2⟩ := ih none hr
          exact ⟨x, List.mem_cons_of_mem _ hx, h1, h2⟩
      · obtain ⟨x, hx, h1, h2⟩ := ih none hr
        exact ⟨x, List.mem_cons_of_mem _ hx, h1, h2⟩
    | some l =>
      cases l with
      | nil => simp [maskRows] at hr
      | cons a l =>
        simp only [maskRows] at hr
        split at hr
        · rename_i hall
          rcases List.mem_cons.mp hr with rfl | hr
          · exact ⟨v, List.mem_cons_self .., hall, rfl⟩
          · obtain ⟨x, hx, h1, h2⟩ := ih (some l) hr
            exact ⟨x, List.mem_cons_of_mem _ hx, h1, h2⟩
        · obtain ⟨x, hx, h1, h2⟩ := ih (some l) hr
          exact ⟨x, List.mem_cons_of_mem _ hx, h1, h2⟩

/-- the rows that pass the NaN mask have as many coordinates as the rows of the batch -/
theorem maskRows_width (batch : List (List (Option Rat))) (ws : Option (List Rat)) (d : Nat)
    (hcol : ∀ x ∈ batch, x.length = d) : ∀ r ∈ maskRows batch ws, r.1.length = d := by
  intro r hr
  obtain ⟨x, hx, hall, he⟩ := maskRows_mem batch ws r hr
  rw [he, ← hcol x hx]
  conv => rhs; rw [← map_some_filterMap_id x hall]
  simp

theorem fillN_eq (fo : FloatOps) (fuel : Nat) (h : HN) (batch : List (List (Option Rat)))
    (ws : Option (List Rat)) (wkind : DType) (hcol : ∀ x ∈ batch, x.length = h.axes.length)
    (hw : ∀ w, ws = some w → w.length = batch.length) :
    h.fillN fo fuel batch ws wkind = .ok
      { (if ws.isSome then h.coerce wkind else h).adaptAxes fo fuel
          (HN.transposeCols ((maskRows batch ws).map (·.1)) (if ws.isSome then h.coerce wkind else h).axes.length) false with
        freq := Arr.zipWith (· + ·)
          ((if ws.isSome then h.coerce wkind else h).adaptAxes fo fuel
            (HN.transposeCols ((maskRows batch ws).map (·.1)) (if ws.isSome then h.coerce wkind else h).axes.length) false).freq
          (calcND (((if ws.isSome then h.coerce wkind else h).adaptAxes fo fuel
            (HN.transposeCols ((maskRows batch ws).map (·.1)) (if ws.isSome then h.coerce wkind else h).axes.length) false).axesBins fo)
            (maskRows batch ws)).freq,
        err2 := Arr.zipWith (· + ·)
          ((if ws.isSome then h.coerce wkind else h).adaptAxes fo fuel
            (HN.transposeCols ((maskRows batch ws).map (·.1)) (if ws.isSome then h.coerce wkind else h).axes.length) false).err2
          (calcND (((if ws.isSome then h.coerce wkind else h).adaptAxes fo fuel
            (HN.transposeCols ((maskRows batch ws).map (·.1)) (if ws.isSome then h.coerce wkind else h).axes.length) false).axesBins fo)
            (maskRows batch ws)).err2,
        missed :=
          if ((if ws.isSome then h.coerce wkind else h).adaptAxes fo fuel
            (HN.transposeCols ((maskRows batch ws).map (·.1)) (if ws.isSome then h.coerce wkind else h).axes.length) false).keep
          then nadd ((if ws.isSome then h.coerce wkind else h).adaptAxes fo fuel
            (HN.transposeCols ((maskRows batch ws).map (·.1)) (if ws.isSome then h.coerce wkind else h).axes.length) false).missed
            (some (calcND (((if ws.isSome then h.coerce wkind else h).adaptAxes fo fuel
              (HN.transposeCols ((maskRows batch ws).map (·.1)) (if ws.isSome then h.coerce wkind else h).axes.length) false).axesBins fo)
              (maskRows batch ws)).missing)
          else ((if ws.isSome then h.coerce wkind else h).adaptAxes fo fuel
            (HN.transposeCols ((maskRows batch ws).map (·.1)) (if ws.isSome then h.coerce wkind else h).axes.length) false).missed } := by
  unfold HN.fillN
  simp only [bind, Except.bind, pure, Except.pure, throw, throwThe, MonadExceptOf.throw]
  have hc : ¬ (batch.any fun r => r.length != h.axes.length) = true := by
    rw [List.any_eq_true]
    rintro ⟨x, hx, hne⟩
    simp [hcol x hx] at hne
  cases ws with
  | none => simp only [hc]; rfl
  | some w =>
    have : ¬ (w.length != batch.length) = true := by simp [hw w rfl]
    simp only [hc, this]; rfl

/-- adding the batch histogram of rows that fit the (already grown) axes -/
theorem tracksM_fillCore_batch (fo : FloatOps) (h1 : HN) (axes1 : List Binning) (rows : List Row)
    (tr1 : TracksM fo h1 axes1 rows) (ok1 : EdgesOK fo axes1) (data : List Row)
    (hd : ∀ r ∈ data, RowFits fo axes1 r.1) :
    TracksM fo { h1 with
        freq := Arr.zipWith (· + ·) h1.freq (calcND (h1.axesBins fo) data).freq,
        err2 := Arr.zipWith (· + ·) h1.err2 (calcND (h1.axesBins fo) data).err2,
        missed := if h1.keep then nadd h1.missed (some (calcND (h1.axesBins fo) data).missing) else h1.missed }
      axes1 (rows ++ data) := by
  have hax := tr1.hax
  have hab : h1.axesBins fo = axesOf fo axes1 := by rw [← hax]; rfl
  obtain ⟨a1, a2, a3⟩ := calcND_append (axesOf fo axes1) rows data
  refine ⟨hax, tr1.keep, tr1.flags, ?_, ?_, ?_, ?_⟩
  · show Arr.zipWith (· + ·) h1.freq (calcND (h1.axesBins fo) data).freq = _
    rw [hab, a1, tr1.freq]
  · show Arr.zipWith (· + ·) h1.err2 (calcND (h1.axesBins fo) data).err2 = _
    rw [hab, a2, tr1.err2]
  · show (if h1.keep then nadd h1.missed (some (calcND (h1.axesBins fo) data).missing) else h1.missed) = _
    rw [hab, a3, tr1.missed]
    by_cases hk : h1.keep = true
    · rw [if_pos hk]; rfl
    · rw [if_neg hk]
      rcases tr1.keep with hk' | al
      · exact (hk hk').elim
      · have : (calcND (axesOf fo axes1) data).missing = 0 :=
          calcND_missing_zero _ _ (fun r hr => by
            obtain ⟨idx, hc, hv, _⟩ := fits_rowCell fo axes1 al ok1 tr1.flags r.1 (hd r hr)
            exact ⟨idx, hc, hv⟩)
        rw [this]; simp
  · intro r hr
    rcases List.mem_append.mp hr with hr | hr
    · exact tr1.fits r hr
    · exact hd r hr

theorem transposeCols_length (rows : List (List Rat)) (d : Nat) : (HN.transposeCols rows d).length = d := by
  simp [HN.transposeCols]

theorem transposeCols_getElem? (rows : List (List Rat)) (d i : Nat) (hi : i < d) :
    (HN.transposeCols rows d)[i]? = some (col i rows) := by
  simp [HN.transposeCols, col, List.getElem?_map, List.getElem?_range hi]

/-- **One `fill_n` batch keeps the invariant** (NaN rows, the empty batch, weights or none): with one
    coordinate per axis in every row and as many weights as rows the call is accepted; the axes grow
    to the hulls of their old ranges and the columns of the batch; the new state holds the fixed-bin
    histogram of the old rows followed by the (NaN-masked) batch over the grown bins. -/
theorem tracksM_fillN (fo : FloatOps) (fuel : Nat) (h : HN) (axes : List Binning) (rows : List Row)
    (tr : TracksM fo h axes rows) (ok : EdgesOK fo axes) (batch : List (List (Option Rat)))
    (ws : Option (List Rat)) (wkind : DType) (hcol : ∀ x ∈ batch, x.length = axes.length)
    (hw : ∀ w, ws = some w → w.length = batch.length)
    (hreach : ∀ r ∈ maskRows batch ws, ReachRow fo fuel axes r.1) :
    ∃ r axes', h.fillN fo fuel batch ws wkind = .ok r ∧ TracksM fo r axes' (rows ++ maskRows batch ws) ∧
      AxesGrown fo axes axes' ((maskRows batch ws).map (·.1)) := by
  have hax := tr.hax
  rw [fillN_eq fo fuel h batch ws wkind (by rw [hax]; exact hcol) hw]
  have tr0 : TracksM fo (if ws.isSome then h.coerce wkind else h) axes rows := by
    split
    · exact tr.coerce _
    · exact tr
  have hax0 : (if ws.isSome then h.coerce wkind else h).axes.length = axes.length := by rw [tr0.hax]
  have hwid := maskRows_width batch ws axes.length hcol
  obtain ⟨grown, tr1⟩ := tracksM_adapt fo fuel _ axes rows tr0 ok
    (HN.transposeCols ((maskRows batch ws).map (·.1)) (if ws.isSome then h.coerce wkind else h).axes.length) false
    ((maskRows batch ws).map (·.1)) (by rw [transposeCols_length, hax0])
    (fun i hi => transposeCols_getElem? _ _ i (by rw [hax0]; exact hi))
    (fun hs => by cases hs)
    (by
      intro r hr
      obtain ⟨q, hq, rfl⟩ := List.mem_map.mp hr
      exact hreach q hq)
  have ok1 := ok.grown grown
  generalize (if ws.isSome then h.coerce wkind else h).adaptAxes fo fuel
    (HN.transposeCols ((maskRows batch ws).map (·.1)) (if ws.isSome then h.coerce wkind else h).axes.length) false
    = h1 at *
  refine ⟨_, h1.axes, rfl, ?_, grown⟩
  exact tracksM_fillCore_batch fo h1 h1.axes rows tr1 ok1 (maskRows batch ws) (fun r hr =>
    RowFits.entered grown (List.mem_map.mpr ⟨r, hr, rfl⟩) (hwid r hr))

/-! ## Consequences of the invariant -/

/-- the accounting identity: `total + missed` is the weight entered -/
theorem TracksM.account {fo : FloatOps} {h : HN} {axes : List Binning} {rows : List Row}
    (t : TracksM fo h axes rows) : ∃ m, h.missed = some m ∧ h.total + m = (rows.map (·.2)).sum :=
  ⟨_, t.missed, by unfold HN.total; rw [t.freq]; exact C02_missed _ _⟩

/-- with adaptive axes only, nothing is ever missed -/
theorem TracksM.missing_zero {fo : FloatOps} {h : HN} {axes : List Binning} {rows : List Row}
    (t : TracksM fo h axes rows) (al : AllAdaptive axes) (ok : EdgesOK fo axes) :
    (calcND (axesOf fo axes) rows).missing = 0 :=
  calcND_missing_zero _ _ (fun r hr => by
    obtain ⟨idx, hc, hv, _⟩ := fits_rowCell fo axes al ok t.flags r.1 (t.fits r hr)
    exact ⟨idx, hc, hv⟩)

theorem TracksM.missed_zero {fo : FloatOps} {h : HN} {axes : List Binning} {rows : List Row}
    (t : TracksM fo h axes rows) (al : AllAdaptive axes) (ok : EdgesOK fo axes) : h.missed = some 0 := by
  rw [t.missed, t.missing_zero al ok]

/-- **The total is the total weight entered** (adaptive axes only). -/
theorem TracksM.total {fo : FloatOps} {h : HN} {axes : List Binning} {rows : List Row}
    (t : TracksM fo h axes rows) (al : AllAdaptive axes) (ok : EdgesOK fo axes) :
    h.total = (rows.map (·.2)).sum := by
  obtain ⟨m, hm, hs⟩ := t.account
  rw [t.missed_zero al ok] at hm
  cases hm
  linarith

/-- **Every row entered lies inside a bin** (adaptive axes only): `find_bin` finds it, and on every axis
    the index is that of the cell `k` of the coordinate on the original grid (`k·w + s` in exact
    arithmetic), the bin being `[edge k, edge (k+1))`. -/
theorem TracksM.in_bin {fo : FloatOps} {h : HN} {axes : List Binning} {rows : List Row}
    (t : TracksM fo h axes rows) (al : AllAdaptive axes) (ok : EdgesOK fo axes) (r : Row) (hr : r ∈ rows) :
    ∃ idx, h.findBin fo r.1 = some idx ∧ validIdx (h.shape fo) idx = true ∧
      ∀ (i : Nat) (g : Grid) (x : Rat), axes[i]? = some (Binning.fixed g) → r.1[i]? = some x →
        ∃ k : Int, CellOf (fo.edge g.w g.shift) x k ∧ g.tmin ≤ k ∧ k < g.tmin + g.count ∧
          idx[i]? = some (k - g.tmin).toNat ∧
          (g.bins fo)[(k - g.tmin).toNat]? = some (fo.edge g.w g.shift k, fo.edge g.w g.shift (k + 1)) := by
  obtain ⟨idx, hc, hv, hcells⟩ := fits_rowCell fo axes al ok t.flags r.1 (t.fits r hr)
  have hax := t.hax
  refine ⟨idx, ?_, ?_, ?_⟩
  · rw [← findBin_eq_rowCell fo h (by rw [hax]; exact ok.all_rising) r.1, hax]; exact hc
  · have e : h.shape fo = (axesOf fo axes).map (·.1.length) := by rw [axesOf_shape, ← hax]; rfl
    rw [e]; exact hv
  · intro i g x hg hx
    obtain ⟨k, hk, h1, h2, hi⟩ := hcells i g x hg hx
    refine ⟨k, hk, h1, h2, hi, ?_⟩
    rw [bins_eq_binsFrom, binsFrom_getElem? _ _ _ _ (by omega)]
    have : g.tmin + ((k - g.tmin).toNat : Int) = k := by omega
    rw [this]; rfl

/-- with adaptive axes only, the hypothesis on the edges is: strictly increasing edge functions -/
theorem EdgesOK.of_allAdaptive {fo : FloatOps} {axes : List Binning} (al : AllAdaptive axes)
    (hm : ∀ (i : Nat) (g : Grid), axes[i]? = some (Binning.fixed g) → EdgeMono fo g.w g.shift) : EdgesOK fo axes :=
  ⟨fun i g hg _ => hm i g hg, fun b hb ha => by rw [al b hb] at ha; cases ha⟩

/-- with adaptive axes only, `fill` of a finite point reports a bin (never a miss) -/
theorem tracksM_fill_index (fo : FloatOps) (fuel : Nat) (h : HN) (axes : List Binning) (rows : List Row)
    (tr : TracksM fo h axes rows) (al : AllAdaptive axes) (ok : EdgesOK fo axes) (v : List Rat)
    (hl : v.length = axes.length) (hreach : ReachRow fo fuel axes v) (w : Rat) (wk : H1.NumKind) :
    ∃ idx, (h.fill fo fuel (v.map some) w wk).2 = some (some idx) ∧
      (h.fill fo fuel (v.map some) w wk).1.findBin fo v = some idx := by
  obtain ⟨axes', t, g, e⟩ := tracksM_fill fo fuel h axes rows tr ok v hl hreach w wk
  obtain ⟨idx, hf, _⟩ := t.in_bin (al.grown g) (ok.grown g) (v, w) (by simp)
  exact ⟨idx, by rw [e, hf], hf⟩

/-! ## Any sequence of `fill` / `fill_n` calls -/

/-- all the rows a list of calls enters (after the NaN mask), in order -/
def enteredRows (ops : List OpN) : List Row := (ops.map OpN.rows).flatten

/-- one call keeps the invariant -/
theorem tracksM_apply (fo : FloatOps) (fuel : Nat) (h : HN) (axes : List Binning) (rows : List Row)
    (tr : TracksM fo h axes rows) (ok : EdgesOK fo axes) (op : OpN) (hv : op.Valid axes.length)
    (ha : op.Accepted axes.length) (hreach : ∀ r ∈ op.rows, ReachRow fo fuel axes r.1) :
    ∃ r axes', op.apply fo fuel h = .ok r ∧ TracksM fo r axes' (rows ++ op.rows) ∧
      AxesGrown fo axes axes' (op.rows.map (·.1)) := by
  cases op with
  | fill value w wk =>
    obtain ⟨axes', t, g⟩ := tracksM_fill_opt fo fuel h axes rows tr ok value w wk hv hreach
    exact ⟨_, axes', rfl, t, g⟩
  | fillN batch ws wkind => exact tracksM_fillN fo fuel h axes rows tr ok batch ws wkind ha.1 ha.2 hreach

/-- **ANY sequence of `fill` / `fill_n` calls keeps the invariant.**  Every call is accepted, the final
    state holds the fixed-bin histogram of everything entered over the final bins, every adaptive
    axis has grown to the hull of its initial range and the cells of its column of values, every
    other axis is untouched. -/
theorem tracksM_history (fo : FloatOps) (fuel : Nat) (ops : List OpN) (h : HN) (axes : List Binning)
    (rows0 : List Row) (tr : TracksM fo h axes rows0) (ok : EdgesOK fo axes)
    (hv : ∀ op ∈ ops, op.Valid axes.length) (ha : ∀ op ∈ ops, op.Accepted axes.length)
    (hreach : ∀ r ∈ enteredRows ops, ReachRow fo fuel axes r.1) :
    ∃ r axes', ops.foldlM (OpN.apply fo fuel) h = .ok r ∧ TracksM fo r axes' (rows0 ++ enteredRows ops) ∧
      AxesGrown fo axes axes' ((enteredRows ops).map (·.1)) ∧ EdgesOK fo axes' := by
  induction ops generalizing h axes rows0 with
  | nil => exact ⟨h, axes, rfl, by simpa [enteredRows] using tr, by simpa [enteredRows] using AxesGrown.refl fo axes, ok⟩
  | cons op ops ih =>
    have hr1 : ∀ r ∈ op.rows, ReachRow fo fuel axes r.1 := fun r hr =>
      hreach r (by simp only [enteredRows, List.map_cons, List.flatten_cons]; exact List.mem_append_left _ hr)
    obtain ⟨m, axes1, e1, t1, g1⟩ := tracksM_apply fo fuel h axes rows0 tr ok op
      (hv op (List.mem_cons_self ..)) (ha op (List.mem_cons_self ..)) hr1
    obtain ⟨r, axes', e', t', g', ok'⟩ := ih m axes1 (rows0 ++ op.rows) t1 (ok.grown g1)
      (fun q hq => by rw [g1.len]; exact hv q (List.mem_cons_of_mem _ hq))
      (fun q hq => by rw [g1.len]; exact ha q (List.mem_cons_of_mem _ hq))
      (fun q hq => (hreach q (by
        simp only [enteredRows, List.map_cons, List.flatten_cons]; exact List.mem_append_right _ hq)).grown g1)
    refine ⟨r, axes', ?_, ?_, ?_, ok'⟩
    · simp only [List.foldlM_cons, bind, Except.bind, e1]; exact e'
    · have : rows0 ++ enteredRows (op :: ops) = rows0 ++ op.rows ++ enteredRows ops := by
        simp [enteredRows, List.append_assoc]
      rw [this]; exact t'
    · have : (enteredRows (op :: ops)).map (·.1) = op.rows.map (·.1) ++ (enteredRows ops).map (·.1) := by
        simp [enteredRows]
      rw [this]; exact g1.trans g'

/-! ## All axes adaptive: the invariant in terms of the list of grids -/

/-- the row has one coordinate per grid, and each coordinate's cell `k` on the grid `k·w + s` of its
    axis lies in the current range `tmin ≤ k < tmin + count` -/
def InsideGrids (fo : FloatOps) (grids : List Grid) (row : List Rat) : Prop :=
  row.length = grids.length ∧
  ∀ (i : Nat) (g : Grid) (x : Rat), grids[i]? = some g → row[i]? = some x →
    ∃ k : Int, CellOf (fo.edge g.w g.shift) x k ∧ g.tmin ≤ k ∧ k < g.tmin + g.count

/-- **The invariant of an N-d histogram all of whose axes are adaptive fixed-width grids.**  `h` has
    the grids `grids` as axes, all adaptive, aligned and right-open; contents and squared errors are
    those of the batch histogram (`calculate_nd_frequencies`) of `rows` over the current bins; nothing
    was ever missed; every row lies inside the current range of every axis.
    (That the arrays are well-shaped follows: `TracksA.shapes`.) -/
structure TracksA (fo : FloatOps) (h : HN) (grids : List Grid) (rows : List Row) : Prop where
  hax : h.axes = grids.map Binning.fixed
  flags : ∀ g ∈ grids, g.adaptive = true ∧ g.align = true ∧ g.ire = false
  freq : h.freq = (calcND (h.axesBins fo) rows).freq
  err2 : h.err2 = (calcND (h.axesBins fo) rows).err2
  missed : h.missed = some 0
  inside : ∀ r ∈ rows, InsideGrids fo grids r.1

/-- every grid has a strictly increasing edge function -/
def MonoGrids (fo : FloatOps) (grids : List Grid) : Prop := ∀ g ∈ grids, EdgeMono fo g.w g.shift

/-- every coordinate of the row has a cell on the grid of its axis, within reach of the corrected search -/
def ReachGrids (fo : FloatOps) (fuel : Nat) (grids : List Grid) (row : List Rat) : Prop :=
  ∀ (i : Nat) (g : Grid) (x : Rat), grids[i]? = some g → row[i]? = some x → Reach fo g.w g.shift fuel x

/-- per axis, the new grid is the hull (`SpanHull`: same width and origin, old range and all cells
    needed contained, both ends attained) of the old grid and column `i` of the rows entered -/
structure HullN (fo : FloatOps) (grids grids' : List Grid) (entered : List (List Rat)) : Prop where
  len : grids'.length = grids.length
  each : ∀ (i : Nat) (g g' : Grid), grids[i]? = some g → grids'[i]? = some g' →
    SpanHull (fo.edge g.w g.shift) g g' (col i entered)

theorem map_fixed_getElem? (grids : List Grid) (i : Nat) (g : Grid) :
    (grids.map Binning.fixed)[i]? = some (Binning.fixed g) ↔ grids[i]? = some g := by
  rw [List.getElem?_map]
  cases grids[i]? <;> simp

theorem allAdaptive_map_fixed (grids : List Grid) (h : ∀ g ∈ grids, g.adaptive = true) :
    AllAdaptive (grids.map Binning.fixed) := by
  intro b hb
  obtain ⟨g, hg, rfl⟩ := List.mem_map.mp hb
  exact h g hg

theorem exists_grids (axes : List Binning) (al : AllAdaptive axes) :
    ∃ grids : List Grid, axes = grids.map Binning.fixed ∧ ∀ g ∈ grids, g.adaptive = true := by
  induction axes with
  | nil => exact ⟨[], rfl, by simp⟩
  | cons b bs ih =>
    obtain ⟨gs, e, hg⟩ := ih (fun x hx => al x (List.mem_cons_of_mem _ hx))
    have hb := al b (List.mem_cons_self ..)
    cases b with
    | static _ _ => cases hb
    | fixed g =>
      refine ⟨g :: gs, by rw [e]; rfl, ?_⟩
      intro x hx
      rcases List.mem_cons.mp hx with rfl | hx
      · exact hb
      · exact hg x hx

theorem edgesOK_map_fixed {fo : FloatOps} {grids : List Grid} (ha : ∀ g ∈ grids, g.adaptive = true)
    (hm : MonoGrids fo grids) : EdgesOK fo (grids.map Binning.fixed) :=
  EdgesOK.of_allAdaptive (allAdaptive_map_fixed grids ha) (fun i g hg =>
    hm g (List.mem_of_getElem? ((map_fixed_getElem? grids i g).mp hg)))

theorem monoGrids_of_edgesOK {fo : FloatOps} {grids : List Grid} (ha : ∀ g ∈ grids, g.adaptive = true)
    (ok : EdgesOK fo (grids.map Binning.fixed)) : MonoGrids fo grids := by
  intro g hg
  obtain ⟨i, hi, rfl⟩ := List.getElem_of_mem hg
  exact ok.mono i _ ((map_fixed_getElem? grids i _).mpr (List.getElem?_eq_getElem hi)) (ha _ hg)

theorem insideGrids_iff (fo : FloatOps) (grids : List Grid) (ha : ∀ g ∈ grids, g.adaptive = true) (row : List Rat) :
    InsideGrids fo grids row ↔ RowFits fo (grids.map Binning.fixed) row := by
  constructor
  · rintro ⟨h1, h2⟩
    refine ⟨by simpa using h1, ?_⟩
    intro i g x hg _ hx
    exact h2 i g x ((map_fixed_getElem? grids i g).mp hg) hx
  · rintro ⟨h1, h2⟩
    refine ⟨by simpa using h1, ?_⟩
    intro i g x hg hx
    exact h2 i g x ((map_fixed_getElem? grids i g).mpr hg) (ha g (List.mem_of_getElem? hg)) hx

theorem reachGrids_iff (fo : FloatOps) (fuel : Nat) (grids : List Grid) (row : List Rat) (hr : ReachGrids fo fuel grids row) :
    ReachRow fo fuel (grids.map Binning.fixed) row := by
  intro i g x hg _ hx
  exact hr i g x ((map_fixed_getElem? grids i g).mp hg) hx

/-- the all-adaptive invariant is the general one on the axes `grids.map .fixed` -/
theorem TracksA.toM {fo : FloatOps} {h : HN} {grids : List Grid} {rows : List Row} (t : TracksA fo h grids rows)
    (hm : MonoGrids fo grids) : TracksM fo h (grids.map Binning.fixed) rows := by
  have ha : ∀ g ∈ grids, g.adaptive = true := fun g hg => (t.flags g hg).1
  have hab : h.axesBins fo = axesOf fo (grids.map Binning.fixed) := by rw [← t.hax]; rfl
  have fl : ∀ (i : Nat) (g : Grid), (grids.map Binning.fixed)[i]? = some (Binning.fixed g) → g.adaptive = true →
      g.align = true ∧ g.ire = false := fun i g hg _ =>
    (t.flags g (List.mem_of_getElem? ((map_fixed_getElem? grids i g).mp hg))).2
  have fits : ∀ r ∈ rows, RowFits fo (grids.map Binning.fixed) r.1 := fun r hr =>
    (insideGrids_iff fo grids ha r.1).mp (t.inside r hr)
  have al := allAdaptive_map_fixed grids ha
  have hz : (calcND (axesOf fo (grids.map Binning.fixed)) rows).missing = 0 :=
    calcND_missing_zero _ _ (fun r hr => by
      obtain ⟨idx, hc, hv, _⟩ := fits_rowCell fo _ al (edgesOK_map_fixed ha hm) fl r.1 (fits r hr)
      exact ⟨idx, hc, hv⟩)
  exact ⟨t.hax, Or.inr al, fl, by rw [← hab]; exact t.freq, by rw [← hab]; exact t.err2,
    by rw [hz]; exact t.missed, fits⟩

theorem TracksM.toA {fo : FloatOps} {h : HN} {grids : List Grid} {rows : List Row}
    (t : TracksM fo h (grids.map Binning.fixed) rows) (ha : ∀ g ∈ grids, g.adaptive = true)
    (ok : EdgesOK fo (grids.map Binning.fixed)) : TracksA fo h grids rows := by
  have hab : h.axesBins fo = axesOf fo (grids.map Binning.fixed) := by rw [← t.hax]; rfl
  refine ⟨t.hax, ?_, by rw [hab]; exact t.freq, by rw [hab]; exact t.err2,
    t.missed_zero (allAdaptive_map_fixed grids ha) ok, fun r hr => (insideGrids_iff fo grids ha r.1).mpr (t.fits r hr)⟩
  intro g hg
  obtain ⟨i, hi, rfl⟩ := List.getElem_of_mem hg
  have := t.flags i _ ((map_fixed_getElem? grids i _).mpr (List.getElem?_eq_getElem hi)) (ha _ hg)
  exact ⟨ha _ hg, this.1, this.2⟩

theorem TracksA.shapes {fo : FloatOps} {h : HN} {grids : List Grid} {rows : List Row} (t : TracksA fo h grids rows) :
    h.freq.HasShape (h.shape fo) ∧ h.err2.HasShape (h.shape fo) := by
  rw [t.freq, t.err2, ← HN.axesBins_shape]
  exact ⟨calcND_freq_hasShape _ _, calcND_err2_hasShape _ _⟩

/-- the empty histogram on adaptive grids (any counts, in particular `count = 0` everywhere) -/
theorem tracksA_empty (fo : FloatOps) (grids : List Grid)
    (fl : ∀ g ∈ grids, g.adaptive = true ∧ g.align = true ∧ g.ire = false) (keep : Bool) (dt : Option DType)
    (names : Option (List String)) : TracksA fo (HN.empty fo (grids.map Binning.fixed) keep dt names) grids [] := by
  obtain ⟨z1, z2, _⟩ := calcND_nil ((HN.empty fo (grids.map Binning.fixed) keep dt names).axesBins fo)
  refine ⟨rfl, fl, ?_, ?_, rfl, fun r hr => by cases hr⟩
  · rw [z1, HN.axesBins_shape]; rfl
  · rw [z2, HN.axesBins_shape]; rfl

/-- growth of adaptive grids, read off the general statement -/
theorem hullN_of_grown {fo : FloatOps} {grids : List Grid} {axes' : List Binning} {e : List (List Rat)}
    (ha : ∀ g ∈ grids, g.adaptive = true) (a : AxesGrown fo (grids.map Binning.fixed) axes' e) :
    ∃ grids', axes' = grids'.map Binning.fixed ∧ (∀ g ∈ grids', g.adaptive = true) ∧ HullN fo grids grids' e := by
  obtain ⟨grids', e', ha'⟩ := exists_grids axes' ((allAdaptive_map_fixed grids ha).grown a)
  subst e'
  refine ⟨grids', rfl, ha', by simpa using a.len, ?_⟩
  intro i g g' hg hg'
  obtain ⟨b', hb', gr⟩ := a.each i _ ((map_fixed_getElem? grids i g).mpr hg)
  rw [(map_fixed_getElem? grids' i g').mpr hg'] at hb'
  cases hb'
  obtain ⟨g'', e'', _, _, _, sp⟩ := gr.2 g rfl (ha g (List.mem_of_getElem? hg))
  cases e''
  exact sp

/-! ## All axes adaptive: consequences of the invariant -/

theorem TracksA.missing_zero {fo : FloatOps} {h : HN} {grids : List Grid} {rows : List Row}
    (t : TracksA fo h grids rows) (hm : MonoGrids fo grids) : (calcND (h.axesBins fo) rows).missing = 0 := by
  have ha : ∀ g ∈ grids, g.adaptive = true := fun g hg => (t.flags g hg).1
  have hab : h.axesBins fo = axesOf fo (grids.map Binning.fixed) := by rw [← t.hax]; rfl
  rw [hab]
  exact (t.toM hm).missing_zero (allAdaptive_map_fixed grids ha) (edgesOK_map_fixed ha hm)

/-- **The total is the total weight entered.** -/
theorem TracksA.total {fo : FloatOps} {h : HN} {grids : List Grid} {rows : List Row}
    (t : TracksA fo h grids rows) (hm : MonoGrids fo grids) : h.total = (rows.map (·.2)).sum := by
  have ha : ∀ g ∈ grids, g.adaptive = true := fun g hg => (t.flags g hg).1
  exact (t.toM hm).total (allAdaptive_map_fixed grids ha) (edgesOK_map_fixed ha hm)

/-- **Every row entered lies inside a bin**: `find_bin` finds it; on axis `i` the index is `k - tmin`
    for the cell `k` of the coordinate on the original grid of that axis, and that bin is
    `[edge k, edge (k+1))`. -/
theorem TracksA.in_bin {fo : FloatOps} {h : HN} {grids : List Grid} {rows : List Row}
    (t : TracksA fo h grids rows) (hm : MonoGrids fo grids) (r : Row) (hr : r ∈ rows) :
    ∃ idx, h.findBin fo r.1 = some idx ∧ validIdx (h.shape fo) idx = true ∧
      ∀ (i : Nat) (g : Grid) (x : Rat), grids[i]? = some g → r.1[i]? = some x →
        ∃ k : Int, CellOf (fo.edge g.w g.shift) x k ∧ g.tmin ≤ k ∧ k < g.tmin + g.count ∧
          idx[i]? = some (k - g.tmin).toNat ∧
          (g.bins fo)[(k - g.tmin).toNat]? = some (fo.edge g.w g.shift k, fo.edge g.w g.shift (k + 1)) := by
  have ha : ∀ g ∈ grids, g.adaptive = true := fun g hg => (t.flags g hg).1
  obtain ⟨idx, h1, h2, h3⟩ := (t.toM hm).in_bin (allAdaptive_map_fixed grids ha) (edgesOK_map_fixed ha hm) r hr
  exact ⟨idx, h1, h2, fun i g x hg hx => h3 i g x ((map_fixed_getElem? grids i g).mpr hg) hx⟩

/-- **The bins of every axis stay contiguous on the original grid**: axis `i` has the bins of its grid,
    bin `j` is `[edge (tmin+j), edge (tmin+j+1))` with `edge k = fo.edge w shift k` (`k·w + shift` in
    exact arithmetic), consecutive, `count` of them, right-open. -/
theorem TracksA.axis_bins {fo : FloatOps} {h : HN} {grids : List Grid} {rows : List Row}
    (t : TracksA fo h grids rows) (i : Nat) (g : Grid) (hg : grids[i]? = some g) :
    (h.axesBins fo)[i]? = some (g.bins fo, false) ∧ consecutiveB (g.bins fo) = true ∧
    (g.bins fo).length = g.count ∧
    ∀ j, j < g.count →
      (g.bins fo)[j]? = some (fo.edge g.w g.shift (g.tmin + j), fo.edge g.w g.shift (g.tmin + j + 1)) := by
  have hab : h.axesBins fo = axesOf fo (grids.map Binning.fixed) := by rw [← t.hax]; rfl
  refine ⟨?_, ?_, ?_, fun j hj => (grid_bins_on_grid fo g j hj).1⟩
  · rw [hab, axesOf_getElem? fo _ i _ ((map_fixed_getElem? grids i g).mpr hg)]
    simp [Binning.bins, Binning.ire, (t.flags g (List.mem_of_getElem? hg)).2.2]
  · rw [bins_eq_binsFrom]; exact binsFrom_consecutive _ _ _
  · rw [bins_eq_binsFrom, binsFrom_length]

/-! ## All axes adaptive: `fill`, `fill_n`, histories -/

theorem MonoGrids.hull {fo : FloatOps} {grids grids' : List Grid} {e : List (List Rat)} (hm : MonoGrids fo grids)
    (hu : HullN fo grids grids' e) : MonoGrids fo grids' := by
  intro g' hg'
  obtain ⟨i, hi, rfl⟩ := List.getElem_of_mem hg'
  have hi' : i < grids.length := by rw [← hu.len]; exact hi
  have sp := hu.each i _ _ (List.getElem?_eq_getElem hi') (List.getElem?_eq_getElem hi)
  rw [sp.w, sp.shift]
  exact hm _ (List.getElem_mem hi')

/-- **One `fill` of a finite point** (any weight, any kind of weight) on an all-adaptive histogram: the
    result satisfies the invariant for the old rows followed by the new one; every axis keeps width
    and origin and its range becomes the hull of the old range and the cell of the coordinate; the
    call returns the index `find_bin` gives afterwards, and it is a bin. -/
theorem tracksA_fill (fo : FloatOps) (fuel : Nat) (h : HN) (grids : List Grid) (rows : List Row)
    (t : TracksA fo h grids rows) (hm : MonoGrids fo grids) (v : List Rat) (hl : v.length = grids.length)
    (hreach : ReachGrids fo fuel grids v) (w : Rat) (wk : H1.NumKind) :
    ∃ grids' idx, TracksA fo (h.fill fo fuel (v.map some) w wk).1 grids' (rows ++ [(v, w)]) ∧
      HullN fo grids grids' [v] ∧
      (h.fill fo fuel (v.map some) w wk).2 = some (some idx) ∧
      (h.fill fo fuel (v.map some) w wk).1.findBin fo v = some idx := by
  have ha : ∀ g ∈ grids, g.adaptive = true := fun g hg => (t.flags g hg).1
  have ok := edgesOK_map_fixed ha hm
  obtain ⟨axes', tm, gr, e⟩ := tracksM_fill fo fuel h _ rows (t.toM hm) ok v (by simpa using hl)
    (reachGrids_iff fo fuel grids v hreach) w wk
  obtain ⟨grids', rfl, ha', hu⟩ := hullN_of_grown ha gr
  have ta := tm.toA ha' (ok.grown gr)
  obtain ⟨idx, hf, _⟩ := ta.in_bin (hm.hull hu) (v, w) (by simp)
  exact ⟨grids', idx, ta, hu, by rw [e, hf], hf⟩

/-- **One `fill_n` batch** (NaN rows, the empty batch, weights or none) on an all-adaptive histogram:
    accepted; invariant for the old rows followed by the NaN-masked batch; every axis grows to the
    hull of its old range and the cells of its column. -/
theorem tracksA_fillN (fo : FloatOps) (fuel : Nat) (h : HN) (grids : List Grid) (rows : List Row)
    (t : TracksA fo h grids rows) (hm : MonoGrids fo grids) (batch : List (List (Option Rat)))
    (ws : Option (List Rat)) (wkind : DType) (hcol : ∀ x ∈ batch, x.length = grids.length)
    (hw : ∀ w, ws = some w → w.length = batch.length)
    (hreach : ∀ r ∈ maskRows batch ws, ReachGrids fo fuel grids r.1) :
    ∃ r grids', h.fillN fo fuel batch ws wkind = .ok r ∧ TracksA fo r grids' (rows ++ maskRows batch ws) ∧
      HullN fo grids grids' ((maskRows batch ws).map (·.1)) := by
  have ha : ∀ g ∈ grids, g.adaptive = true := fun g hg => (t.flags g hg).1
  have ok := edgesOK_map_fixed ha hm
  obtain ⟨r, axes', e, tm, gr⟩ := tracksM_fillN fo fuel h _ rows (t.toM hm) ok batch ws wkind
    (by simpa using hcol) hw (fun r hr => reachGrids_iff fo fuel grids r.1 (hreach r hr))
  obtain ⟨grids', rfl, ha', hu⟩ := hullN_of_grown ha gr
  exact ⟨r, grids', e, tm.toA ha' (ok.grown gr), hu⟩

/-- **ANY sequence of `fill` / `fill_n` calls on an all-adaptive N-d histogram keeps the invariant.** -/
theorem tracksA_history (fo : FloatOps) (fuel : Nat) (ops : List OpN) (h : HN) (grids : List Grid)
    (rows0 : List Row) (t : TracksA fo h grids rows0) (hm : MonoGrids fo grids)
    (hv : ∀ op ∈ ops, op.Valid grids.length) (hacc : ∀ op ∈ ops, op.Accepted grids.length)
    (hreach : ∀ r ∈ enteredRows ops, ReachGrids fo fuel grids r.1) :
    ∃ r grids', ops.foldlM (OpN.apply fo fuel) h = .ok r ∧ TracksA fo r grids' (rows0 ++ enteredRows ops) ∧
      HullN fo grids grids' ((enteredRows ops).map (·.1)) ∧ MonoGrids fo grids' := by
  have ha : ∀ g ∈ grids, g.adaptive = true := fun g hg => (t.flags g hg).1
  have ok := edgesOK_map_fixed ha hm
  obtain ⟨r, axes', e, tm, gr, ok'⟩ := tracksM_history fo fuel ops h _ rows0 (t.toM hm) ok
    (by simpa using hv) (by simpa using hacc) (fun r hr => reachGrids_iff fo fuel grids r.1 (hreach r hr))
  obtain ⟨grids', rfl, ha', hu⟩ := hullN_of_grown ha gr
  exact ⟨r, grids', e, tm.toA ha' ok', hu, hm.hull hu⟩

/-- in exact arithmetic, positive widths give increasing edges … -/
theorem monoGrids_exact (grids : List Grid) (hw : ∀ g ∈ grids, 0 < g.w) : MonoGrids FloatOps.exact grids :=
  fun g hg => C04_exact_mono g.w g.shift (hw g hg)

/-- … and every coordinate is within reach of the search, whatever the fuel -/
theorem reachGrids_exact (grids : List Grid) (hw : ∀ g ∈ grids, 0 < g.w) (fuel : Nat) (row : List Rat) :
    ReachGrids FloatOps.exact fuel grids row :=
  fun _ g x hg _ => reach_exact g.w g.shift (hw g (List.mem_of_getElem? hg)) fuel x

/-- mixed axes, exact arithmetic: positive widths of the adaptive grids, rising bins elsewhere -/
theorem edgesOK_exact (axes : List Binning)
    (hw : ∀ (i : Nat) (g : Grid), axes[i]? = some (Binning.fixed g) → g.adaptive = true → 0 < g.w)
    (hr : ∀ b ∈ axes, b.isAdaptive = false → Rising (b.bins FloatOps.exact)) : EdgesOK FloatOps.exact axes :=
  ⟨fun i g hg ha => C04_exact_mono g.w g.shift (hw i g hg ha), hr⟩

theorem reachRow_exact (axes : List Binning)
    (hw : ∀ (i : Nat) (g : Grid), axes[i]? = some (Binning.fixed g) → g.adaptive = true → 0 < g.w)
    (fuel : Nat) (row : List Rat) : ReachRow FloatOps.exact fuel axes row :=
  fun i g x hg ha _ => reach_exact g.w g.shift (hw i g hg ha) fuel x

/-! ## The result IS the fixed-bin histogram of the data over the final bins; chunking does not matter -/

/-- the static copy of the axes has the same bins and the same right-edge rule -/
theorem axesOf_asStatic (fo : FloatOps) (axes : List Binning) :
    axesOf fo (axes.map (Binning.asStatic fo)) = axesOf fo axes := by
  simp only [axesOf, List.map_map]
  apply List.map_congr_left
  intro b _
  cases b <;> rfl

/-- **The state equals what construction from all the rows at once gives** over any axes with the same
    bins — in particular the static (fixed-bin) copy of the final axes (`axesOf_asStatic`) — whatever the
    order of the rows: contents, squared errors, missed. -/
theorem TracksM.eq_construct {fo : FloatOps} {h : HN} {axes : List Binning} {rows : List Row}
    (t : TracksM fo h axes rows) (axesC : List Binning) (hC : axesOf fo axesC = axesOf fo axes)
    (all : List (List (Option Rat))) (ws : Option (List Rat)) (wkind : DType) (dropna : Bool)
    (names : Option (List String)) (c : HN) (hc : HN.construct fo axesC all ws wkind dropna names = .ok c)
    (hp : (maskRows all ws).Perm rows) : c.freq = h.freq ∧ c.err2 = h.err2 ∧ c.missed = h.missed := by
  obtain ⟨_, _, _, h3, h4, h5⟩ := construct_ok fo axesC all ws wkind dropna names c hc
  have e := calcND_perm (axesOf fo axes) _ _ hp
  rw [hC, e] at h3 h4 h5
  exact ⟨by rw [h3, t.freq], by rw [h4, t.err2], by rw [h5, t.missed]⟩

/-- the hull of a grid and a column is unique, so two all-adaptive states that track the same rows and
    grew from the same grids for the same columns are on the same grids with the same contents -/
theorem tracksA_agree {fo : FloatOps} {h1 h2 : HN} {grids g1 g2 : List Grid} {rows : List Row} {e : List (List Rat)}
    (hm : MonoGrids fo grids) (t1 : TracksA fo h1 g1 rows) (t2 : TracksA fo h2 g2 rows)
    (u1 : HullN fo grids g1 e) (u2 : HullN fo grids g2 e) :
    g1 = g2 ∧ h1.axes = h2.axes ∧ h1.freq = h2.freq ∧ h1.err2 = h2.err2 ∧ h1.missed = h2.missed := by
  have hg : g1 = g2 := by
    apply List.ext_getElem?
    intro i
    by_cases hi : i < grids.length
    · have i1 : i < g1.length := by rw [u1.len]; exact hi
      have i2 : i < g2.length := by rw [u2.len]; exact hi
      rw [List.getElem?_eq_getElem i1, List.getElem?_eq_getElem i2]
      have s1 := u1.each i _ _ (List.getElem?_eq_getElem hi) (List.getElem?_eq_getElem i1)
      have s2 := u2.each i _ _ (List.getElem?_eq_getElem hi) (List.getElem?_eq_getElem i2)
      obtain ⟨a1, a2, a3, a4⟩ := s1.unique (hm _ (List.getElem_mem hi)) s2
      have f1 := t1.flags _ (List.getElem_mem i1)
      have f2 := t2.flags _ (List.getElem_mem i2)
      congr 1
      exact grid_ext a1 a2 a3 a4 (by rw [f1.2.1, f2.2.1]) (by rw [f1.1, f2.1]) (by rw [f1.2.2, f2.2.2])
    · rw [List.getElem?_eq_none (by rw [u1.len]; omega), List.getElem?_eq_none (by rw [u2.len]; omega)]
  subst hg
  have ha : h1.axes = h2.axes := by rw [t1.hax, t2.hax]
  have hb : h1.axesBins fo = h2.axesBins fo := by simp only [HN.axesBins, ha]
  exact ⟨rfl, ha, by rw [t1.freq, t2.freq, hb], by rw [t1.err2, t2.err2, hb], by rw [t1.missed, t2.missed]⟩

/-- **Chunking does not matter**: two histories of `fill` / `fill_n` calls that enter the same rows in
    the same order (one batch, single fills, any split, NaN rows and empty batches anywhere) end on the
    same grids with the same contents, squared errors and missed. -/
theorem tracksA_chunking (fo : FloatOps) (fuel : Nat) (ops1 ops2 : List OpN) (h : HN) (grids : List Grid)
    (rows0 : List Row) (t : TracksA fo h grids rows0) (hm : MonoGrids fo grids)
    (hv1 : ∀ op ∈ ops1, op.Valid grids.length) (ha1 : ∀ op ∈ ops1, op.Accepted grids.length)
    (hv2 : ∀ op ∈ ops2, op.Valid grids.length) (ha2 : ∀ op ∈ ops2, op.Accepted grids.length)
    (hsame : enteredRows ops1 = enteredRows ops2)
    (hreach : ∀ r ∈ enteredRows ops1, ReachGrids fo fuel grids r.1) :
    ∃ r1 r2, ops1.foldlM (OpN.apply fo fuel) h = .ok r1 ∧ ops2.foldlM (OpN.apply fo fuel) h = .ok r2 ∧
      r1.axes = r2.axes ∧ r1.freq = r2.freq ∧ r1.err2 = r2.err2 ∧ r1.missed = r2.missed := by
  obtain ⟨r1, g1, e1, t1, u1, _⟩ := tracksA_history fo fuel ops1 h grids rows0 t hm hv1 ha1 hreach
  obtain ⟨r2, g2, e2, t2, u2, _⟩ := tracksA_history fo fuel ops2 h grids rows0 t hm hv2 ha2
    (by rw [← hsame]; exact hreach)
  rw [← hsame] at t2 u2
  obtain ⟨_, a, b, c, d⟩ := tracksA_agree hm t1 t2 u1 u2
  exact ⟨r1, r2, e1, e2, a, b, c, d⟩

end Physt

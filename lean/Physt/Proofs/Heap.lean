import Physt.Model.Heap
/-!
# Lemmas about the heap model (`Model/Heap.lean`) for C12

`Pres` (cells keep their kind; immutable cells keep their contents), `Ext` / `Agree` (allocation),
locality of `snapshot`, the effect summary `Eff` of in-place code and `Fresh` of derivations,
and the invariant `Inv` of worlds along histories.
-/
namespace Physt
namespace Hp

/-! ## well-typedness, unfolded -/

theorem kindAt_lt {h : Heap} {l : Loc} {k : Kind} (e : kindAt h l = some k) : l < h.length := by
  unfold kindAt at e
  cases hl : h[l]? with
  | none => simp [hl] at e
  | some c => exact (List.getElem?_eq_some_iff.mp hl).1

theorem binOk_lt {h : Heap} {l : Loc} (e : binOk h l = true) : l < h.length := by
  unfold binOk at e
  cases hl : h[l]? with
  | none => simp [hl] at e
  | some c => exact (List.getElem?_eq_some_iff.mp hl).1

structure WT (h : Heap) (x : HObj) : Prop where
  inv0 : h[0]? = some (.stats .invalid)
  bins : ∀ l ∈ x.binnings, binOk h l = true
  freq : kindAt h x.freq = some .arr
  err2 : kindAt h x.err2 = some .arr
  missed : kindAt h x.missed = some .arr
  md : kindAt h x.md = some .dict
  stats : ∀ s, x.stats = some s → kindAt h s = some .stats

theorem wtObj_iff {h : Heap} {x : HObj} : wtObj h x = true ↔ WT h x := by
  constructor
  · intro e
    simp only [wtObj, Bool.and_eq_true, beq_iff_eq, List.all_eq_true] at e
    obtain ⟨⟨⟨⟨⟨⟨a, b⟩, c⟩, d⟩, e'⟩, f⟩, g⟩ := e
    refine ⟨a, b, c, d, e', f, ?_⟩
    intro s hs; rw [hs] at g; simpa using g
  · intro w
    simp only [wtObj, Bool.and_eq_true, beq_iff_eq, List.all_eq_true]
    refine ⟨⟨⟨⟨⟨⟨w.inv0, w.bins⟩, w.freq⟩, w.err2⟩, w.missed⟩, w.md⟩, ?_⟩
    cases hs : x.stats with
    | none => rfl
    | some s => simpa using w.stats s hs

theorem WT.arrLoc {h : Heap} {x : HObj} (w : WT h x) (a : Which) : kindAt h (x.arrLoc a) = some .arr := by
  cases a <;> simp [HObj.arrLoc, w.freq, w.err2, w.missed]

theorem mem_arrs {x : HObj} {l : Loc} : l ∈ x.arrs ↔ l = x.freq ∨ l = x.err2 ∨ l = x.missed ∨ l = x.md := by
  simp [HObj.arrs]

theorem mem_refs {x : HObj} {l : Loc} : l ∈ x.refs ↔ l ∈ x.binnings ∨ l ∈ x.arrs := by
  simp [HObj.refs]

theorem WT.lt {h : Heap} {x : HObj} (w : WT h x) : ∀ l ∈ x.refs, l < h.length := by
  intro l hl
  rcases mem_refs.mp hl with hb | ha
  · exact binOk_lt (w.bins l hb)
  · rcases mem_arrs.mp ha with e | e | e | e <;> subst e
    · exact kindAt_lt w.freq
    · exact kindAt_lt w.err2
    · exact kindAt_lt w.missed
    · exact kindAt_lt w.md

/-- kinds of the mutable references -/
theorem WT.kind_refs {h : Heap} {x : HObj} (w : WT h x) :
    ∀ l ∈ x.refs, kindAt h l = some .binning ∨ kindAt h l = some .arr ∨ kindAt h l = some .dict := by
  intro l hl
  rcases mem_refs.mp hl with hb | ha
  · left
    have := w.bins l hb
    unfold binOk at this; unfold kindAt
    split at this <;> simp_all [Cell.kind]
  · rcases mem_arrs.mp ha with e | e | e | e <;> subst e
    · exact Or.inr (Or.inl w.freq)
    · exact Or.inr (Or.inl w.err2)
    · exact Or.inr (Or.inl w.missed)
    · exact Or.inr (Or.inr w.md)

/-! ## `Pres`: what every operation preserves about old cells -/

/-- a cell may be rewritten only within its kind; array-backed binnings, statistics and buffers
    are never rewritten; a recipe binning keeps width, shift and right-edge flag -/
def Stable : Cell → Cell → Prop
  | .binning (.grid w s _ _ _ ire), c' => ∃ t n a, c' = .binning (.grid w s t n a ire)
  | .arr _, c' => ∃ v, c' = .arr v
  | .dict _, c' => ∃ d, c' = .dict d
  | c, c' => c' = c

theorem Stable.refl (c : Cell) : Stable c c := by
  cases c with
  | binning b => cases b <;> simp [Stable]
  | arr a => exact ⟨a, rfl⟩
  | dict d => exact ⟨d, rfl⟩
  | stats s => simp [Stable]
  | buf e => simp [Stable]

theorem Stable.trans {a b c : Cell} (h₁ : Stable a b) (h₂ : Stable b c) : Stable a c := by
  cases a with
  | binning bd =>
    cases bd with
    | arr np buf lo len ire => simp only [Stable] at h₁; subst h₁; exact h₂
    | grid w s t n ad ire =>
      obtain ⟨t', n', a', rfl⟩ := h₁
      exact h₂
  | arr v => obtain ⟨v', rfl⟩ := h₁; exact h₂
  | dict d => obtain ⟨d', rfl⟩ := h₁; exact h₂
  | stats s => simp only [Stable] at h₁; subst h₁; exact h₂
  | buf e => simp only [Stable] at h₁; subst h₁; exact h₂

theorem Stable.kind {a b : Cell} (s : Stable a b) : b.kind = a.kind := by
  cases a with
  | binning bd =>
    cases bd with
    | arr np buf lo len ire => simp only [Stable] at s; subst s; rfl
    | grid w s' t n ad ire => obtain ⟨_, _, _, rfl⟩ := s; rfl
  | arr v => obtain ⟨_, rfl⟩ := s; rfl
  | dict d => obtain ⟨_, rfl⟩ := s; rfl
  | stats s' => simp only [Stable] at s; subst s; rfl
  | buf e => simp only [Stable] at s; subst s; rfl

structure Pres (h h' : Heap) : Prop where
  get : ∀ (l : Loc) (c : Cell), h[l]? = some c → ∃ c', h'[l]? = some c' ∧ Stable c c'

theorem Pres.refl (h : Heap) : Pres h h := ⟨fun _ c e => ⟨c, e, Stable.refl c⟩⟩

theorem Pres.trans {a b c : Heap} (h₁ : Pres a b) (h₂ : Pres b c) : Pres a c := by
  refine ⟨fun l x e => ?_⟩
  obtain ⟨y, ey, sy⟩ := h₁.get l x e
  obtain ⟨z, ez, sz⟩ := h₂.get l y ey
  exact ⟨z, ez, sy.trans sz⟩

theorem Pres.length {h h' : Heap} (p : Pres h h') : h.length ≤ h'.length := by
  rcases Nat.lt_or_ge h'.length h.length with lt | ge
  · obtain ⟨c', e, _⟩ := p.get h'.length h[h'.length] (List.getElem?_eq_getElem lt)
    have := (List.getElem?_eq_some_iff.mp e).1
    omega
  · exact ge

theorem Pres.kind {h h' : Heap} (p : Pres h h') {l : Loc} {k : Kind} (e : kindAt h l = some k) :
    kindAt h' l = some k := by
  unfold kindAt at e ⊢
  cases hl : h[l]? with
  | none => simp [hl] at e
  | some c =>
    obtain ⟨c', e', s⟩ := p.get l c hl
    simp only [hl, Option.map_some, Option.some.injEq] at e
    simp [e', s.kind, e]

theorem Pres.buf {h h' : Heap} (p : Pres h h') {l : Loc} (e : kindAt h l = some .buf) : h'[l]? = h[l]? := by
  unfold kindAt at e
  cases hl : h[l]? with
  | none => simp [hl] at e
  | some c =>
    obtain ⟨c', e', s⟩ := p.get l c hl
    cases c <;> simp [hl, Cell.kind] at e
    simp only [Stable] at s; rw [e', s]

theorem Pres.stats {h h' : Heap} (p : Pres h h') {l : Loc} (e : kindAt h l = some .stats) : h'[l]? = h[l]? := by
  unfold kindAt at e
  cases hl : h[l]? with
  | none => simp [hl] at e
  | some c =>
    obtain ⟨c', e', s⟩ := p.get l c hl
    cases c <;> simp [hl, Cell.kind] at e
    simp only [Stable] at s; rw [e', s]

theorem Pres.bin_ok {h h' : Heap} (p : Pres h h') {l : Loc} (e : binOk h l = true) : binOk h' l = true := by
  unfold binOk at e ⊢
  cases hl : h[l]? with
  | none => simp [hl] at e
  | some c =>
    obtain ⟨c', e', s⟩ := p.get l c hl
    rw [hl] at e
    cases c with
    | binning bd =>
      cases bd with
      | arr np buf lo len ire =>
        simp only [Stable] at s; subst s
        simp only [beq_iff_eq] at e
        simp [e', p.kind e]
      | grid w s' t n ad ire => obtain ⟨_, _, _, rfl⟩ := s; simp [e']
    | _ => simp at e

theorem Pres.wt {h h' : Heap} (p : Pres h h') {x : HObj} (w : WT h x) : WT h' x where
  inv0 := by
    have := p.stats (l := 0) (by simp [kindAt, w.inv0, Cell.kind])
    rw [this, w.inv0]
  bins := fun l hl => p.bin_ok (w.bins l hl)
  freq := p.kind w.freq
  err2 := p.kind w.err2
  missed := p.kind w.missed
  md := p.kind w.md
  stats := fun s hs => p.kind (w.stats s hs)

/-! ## allocation -/

def Ext (h h' : Heap) : Prop := ∃ ext, h' = h ++ ext

theorem Ext.refl (h : Heap) : Ext h h := ⟨[], by simp⟩
theorem Ext.trans {a b c : Heap} (h₁ : Ext a b) (h₂ : Ext b c) : Ext a c := by
  obtain ⟨e₁, rfl⟩ := h₁; obtain ⟨e₂, rfl⟩ := h₂; exact ⟨e₁ ++ e₂, by simp⟩
theorem Ext.append (h : Heap) (e : List Cell) : Ext h (h ++ e) := ⟨e, rfl⟩

/-- old cells are untouched -/
def Agree (h h' : Heap) : Prop := h.length ≤ h'.length ∧ ∀ l, l < h.length → h'[l]? = h[l]?

theorem Ext.agree {h h' : Heap} (e : Ext h h') : Agree h h' := by
  obtain ⟨ext, rfl⟩ := e
  exact ⟨by simp, fun l hl => by simp [List.getElem?_append, hl]⟩

theorem Agree.refl (h : Heap) : Agree h h := ⟨Nat.le_refl _, fun _ _ => rfl⟩
theorem Agree.trans {a b c : Heap} (h₁ : Agree a b) (h₂ : Agree b c) : Agree a c :=
  ⟨Nat.le_trans h₁.1 h₂.1, fun l hl => by rw [h₂.2 l (Nat.lt_of_lt_of_le hl h₁.1), h₁.2 l hl]⟩

theorem Agree.get {h h' : Heap} (a : Agree h h') {l : Loc} {c : Cell} (e : h[l]? = some c) : h'[l]? = some c := by
  rw [a.2 l (List.getElem?_eq_some_iff.mp e).1, e]

theorem Agree.pres {h h' : Heap} (a : Agree h h') : Pres h h' :=
  ⟨fun _ c e => ⟨c, a.get e, Stable.refl c⟩⟩

theorem Agree.kind {h h' : Heap} (a : Agree h h') {l : Loc} {k : Kind} (e : kindAt h l = some k) :
    kindAt h' l = some k := a.pres.kind e

/-! ## locality of the snapshot -/

theorem getArr_congr {h h' : Heap} {l : Loc} (e : h'[l]? = h[l]?) : getArr h' l = getArr h l := by
  simp [getArr, e]
theorem getDict_congr {h h' : Heap} {l : Loc} (e : h'[l]? = h[l]?) : getDict h' l = getDict h l := by
  simp [getDict, e]
theorem getStats_congr {h h' : Heap} {l : Loc} (e : h'[l]? = h[l]?) : getStats h' l = getStats h l := by
  simp [getStats, e]
theorem window_congr {h h' : Heap} {b lo len : Nat} (e : h'[b]? = h[b]?) : window h' b lo len = window h b lo len := by
  simp [window, e]

theorem snapBin_congr {h h' : Heap} (p : Pres h h') {l : Loc} (e : h'[l]? = h[l]?) (ok : binOk h l = true) :
    snapBin h' l = snapBin h l := by
  unfold snapBin
  rw [e]
  unfold binOk at ok
  cases hl : h[l]? with
  | none => rfl
  | some c =>
    rw [hl] at ok
    cases c with
    | binning bd =>
      cases bd with
      | arr np buf lo len ire =>
        simp only [beq_iff_eq] at ok
        simp [snapData, window_congr (p.buf ok)]
      | grid w s t n ad ire => rfl
    | _ => rfl

theorem Snap.ext' {a b : Snap} (h1 : a.bins = b.bins) (h2 : a.freq = b.freq) (h3 : a.err2 = b.err2)
    (h4 : a.missed = b.missed) (h5 : a.md = b.md) (h6 : a.stats = b.stats) (h7 : a.dtype = b.dtype)
    (h8 : a.keep = b.keep) : a = b := by
  cases a; cases b; simp_all

/-- the snapshot of `x` reads the cells `x` references, their buffers and the statistics object -/
theorem snapshot_congr {h h' : Heap} (p : Pres h h') {x : HObj} (w : WT h x)
    (same : ∀ l ∈ x.refs, h'[l]? = h[l]?) : snapshot h' x = snapshot h x := by
  have hr : ∀ l, l ∈ x.arrs → h'[l]? = h[l]? := fun l hl => same l (mem_refs.mpr (Or.inr hl))
  apply Snap.ext'
  · simp only [snapshot]
    apply List.map_congr_left
    intro l hl
    exact snapBin_congr p (same l (mem_refs.mpr (Or.inl hl))) (w.bins l hl)
  · exact getArr_congr (hr _ (by simp [HObj.arrs]))
  · exact getArr_congr (hr _ (by simp [HObj.arrs]))
  · exact getArr_congr (hr _ (by simp [HObj.arrs]))
  · exact getDict_congr (hr _ (by simp [HObj.arrs]))
  · simp only [snapshot]
    cases hs : x.stats with
    | none => rfl
    | some s => simp [getStats_congr (p.stats (w.stats s hs))]
  · rfl
  · rfl

theorem snapshot_agree {h h' : Heap} (a : Agree h h') {x : HObj} (w : WT h x) : snapshot h' x = snapshot h x :=
  snapshot_congr a.pres w (fun l hl => a.2 l (w.lt l hl))

/-! ## small list facts -/

theorem nodup_set {l : List Nat} {a : Nat} (nd : l.Nodup) (ha : a ∉ l) (i : Nat) : (l.set i a).Nodup := by
  induction l generalizing i with
  | nil => simp
  | cons b l ih =>
    rw [List.nodup_cons] at nd
    simp only [List.mem_cons, not_or] at ha
    cases i with
    | zero => simp only [List.set_cons_zero, List.nodup_cons]; exact ⟨ha.2, nd.2⟩
    | succ i =>
      simp only [List.set_cons_succ, List.nodup_cons]
      refine ⟨fun hm => ?_, ih nd.2 ha.2 i⟩
      rcases List.mem_or_eq_of_mem_set hm with h1 | h1
      · exact nd.1 h1
      · exact ha.1 h1.symm

theorem nodup_reverse' {l : List Nat} (nd : l.Nodup) : l.reverse.Nodup := by
  unfold List.Nodup at nd ⊢
  rw [List.pairwise_reverse]
  exact nd.imp (fun h => Ne.symm h)

theorem nodup_refs {x : HObj} :
    x.refs.Nodup ↔ x.binnings.Nodup ∧ x.arrs.Nodup ∧ ∀ a ∈ x.binnings, a ∉ x.arrs := by
  simp only [HObj.refs, List.nodup_append]
  constructor
  · rintro ⟨a, b, c⟩; exact ⟨a, b, fun l hl hm => c l hl l hm rfl⟩
  · rintro ⟨a, b, c⟩; exact ⟨a, b, fun l hl l' hm e => c l hl (e ▸ hm)⟩

theorem set_frame {h : Heap} {l l' : Loc} {c : Cell} (ne : l' ≠ l) : (h.set l c)[l']? = h[l']? := by
  simp [Ne.symm ne]

theorem pres_set {h : Heap} {l : Loc} {c c' : Cell} (e : h[l]? = some c) (s : Stable c c') :
    Pres h (h.set l c') := by
  refine ⟨fun l' d e' => ?_⟩
  by_cases hl : l' = l
  · subst hl
    rw [e] at e'; cases e'
    exact ⟨c', by simp [(List.getElem?_eq_some_iff.mp e).1], s⟩
  · exact ⟨d, by rw [set_frame hl]; exact e', Stable.refl d⟩

theorem kindAt_new (h : Heap) (c : Cell) : kindAt (h ++ [c]) h.length = some c.kind := by
  simp [kindAt]

theorem kindAt_cell {h : Heap} {l : Loc} {k : Kind} (e : kindAt h l = some k) : ∃ c, h[l]? = some c ∧ c.kind = k := by
  unfold kindAt at e
  cases hl : h[l]? with
  | none => simp [hl] at e
  | some c => exact ⟨c, rfl, by simpa [hl] using e⟩

theorem arr_cell {h : Heap} {l : Loc} (e : kindAt h l = some .arr) : ∃ v, h[l]? = some (.arr v) := by
  obtain ⟨c, hc, k⟩ := kindAt_cell e
  cases c <;> simp [Cell.kind] at k
  exact ⟨_, hc⟩

theorem dict_cell {h : Heap} {l : Loc} (e : kindAt h l = some .dict) : ∃ v, h[l]? = some (.dict v) := by
  obtain ⟨c, hc, k⟩ := kindAt_cell e
  cases c <;> simp [Cell.kind] at k
  exact ⟨_, hc⟩

/-! ## the effect of in-place code -/

/-- summary of what a piece of in-place code on `x` does to the heap: old cells keep their kind
    (immutable ones their contents), only cells referenced by `x` are written, and the references
    of the updated object are old references of `x` or newly allocated cells -/
structure Eff (h : Heap) (x : HObj) (h' : Heap) (x' : HObj) : Prop where
  pres : Pres h h'
  frame : ∀ l, l < h.length → l ∉ x.refs → h'[l]? = h[l]?
  bins : ∀ l ∈ x'.binnings, l ∈ x.binnings ∨ h.length ≤ l
  arrs : ∀ l ∈ x'.arrs, l ∈ x.arrs ∨ h.length ≤ l
  nodup : x.refs.Nodup → x'.refs.Nodup
  wt : WT h' x'
  nbins : x'.binnings.length = x.binnings.length

theorem Eff.refl {h : Heap} {x : HObj} (w : WT h x) : Eff h x h x :=
  ⟨Pres.refl h, fun _ _ _ => rfl, fun _ hl => Or.inl hl, fun _ hl => Or.inl hl, id, w, rfl⟩

theorem Eff.trans {h h₁ h₂ : Heap} {x x₁ x₂ : HObj} (a : Eff h x h₁ x₁) (b : Eff h₁ x₁ h₂ x₂) :
    Eff h x h₂ x₂ where
  pres := a.pres.trans b.pres
  frame := by
    intro l hl hn
    have hl1 : l < h₁.length := Nat.lt_of_lt_of_le hl a.pres.length
    rw [b.frame l hl1 ?_, a.frame l hl hn]
    intro hm
    rcases mem_refs.mp hm with h1 | h1
    · rcases a.bins l h1 with h2 | h2
      · exact hn (mem_refs.mpr (Or.inl h2))
      · omega
    · rcases a.arrs l h1 with h2 | h2
      · exact hn (mem_refs.mpr (Or.inr h2))
      · omega
  bins := by
    intro l hl
    rcases b.bins l hl with h1 | h1
    · exact a.bins l h1
    · exact Or.inr (Nat.le_trans a.pres.length h1)
  arrs := by
    intro l hl
    rcases b.arrs l hl with h1 | h1
    · exact a.arrs l h1
    · exact Or.inr (Nat.le_trans a.pres.length h1)
  nodup := fun nd => b.nodup (a.nodup nd)
  wt := b.wt
  nbins := b.nbins.trans a.nbins

/-- in-place write into a cell that `x` references (the object itself is unchanged) -/
theorem eff_set {h : Heap} {x : HObj} (w : WT h x) {l : Loc} {c c' : Cell} (hl : l ∈ x.refs)
    (e : h[l]? = some c) (s : Stable c c') : Eff h x (h.set l c') x where
  pres := pres_set e s
  frame := fun _ _ hn => set_frame (fun e' => hn (e' ▸ hl))
  bins := fun _ hl => Or.inl hl
  arrs := fun _ hl => Or.inl hl
  nodup := id
  wt := (pres_set e s).wt w
  nbins := rfl

theorem arrLoc_mem (x : HObj) (a : Which) : x.arrLoc a ∈ x.refs := by
  cases a <;> simp [HObj.arrLoc, HObj.refs, HObj.arrs]

/-- an array attribute re-assigned to a newly allocated array -/
theorem eff_newArr {h : Heap} {x : HObj} (w : WT h x) (a : Which) (v : List Rat) :
    Eff h x (h ++ [.arr v]) (x.setArrLoc a h.length) := by
  have ag : Agree h (h ++ [.arr v]) := (Ext.append h _).agree
  have hlt := w.lt
  refine ⟨ag.pres, fun l hl _ => ag.2 l hl, ?_, ?_, ?_, ?_, ?_⟩
  · intro l hl; left; cases a <;> exact hl
  · intro l hl
    cases a <;> simp only [HObj.setArrLoc, mem_arrs] at hl ⊢ <;> grind
  · intro nd
    have hf := hlt x.freq (by simp [HObj.refs, HObj.arrs])
    have he := hlt x.err2 (by simp [HObj.refs, HObj.arrs])
    have hm := hlt x.missed (by simp [HObj.refs, HObj.arrs])
    have hd := hlt x.md (by simp [HObj.refs, HObj.arrs])
    have hb : ∀ b ∈ x.binnings, b < h.length := fun b hb => hlt b (mem_refs.mpr (Or.inl hb))
    rw [nodup_refs] at nd ⊢
    obtain ⟨n1, n2, n3⟩ := nd
    simp only [HObj.arrs, List.nodup_cons, List.mem_cons, List.not_mem_nil, or_false, not_or,
      List.nodup_nil, and_true] at n2 n3
    cases a <;>
      simp only [HObj.setArrLoc, HObj.arrs, List.nodup_cons, List.mem_cons, List.not_mem_nil, or_false,
        not_or, List.nodup_nil, and_true] <;>
      refine ⟨n1, ?_, fun b hb' => ?_⟩ <;>
      (first | (have := n3 b hb'; have := hb b hb'; omega) | grind)
  · have w' := ag.pres.wt w
    cases a
    · exact { w' with freq := by simp [HObj.setArrLoc, kindAt_new, Cell.kind] }
    · exact { w' with err2 := by simp [HObj.setArrLoc, kindAt_new, Cell.kind] }
    · exact { w' with missed := by simp [HObj.setArrLoc, kindAt_new, Cell.kind] }
  · cases a <;> rfl

/-- the list of binning references rebuilt from old references and newly allocated binnings -/
theorem eff_bins {h h' : Heap} {x : HObj} (w : WT h x) (ag : Agree h h') (bs : List Loc)
    (hb : ∀ l ∈ bs, l ∈ x.binnings ∨ (h.length ≤ l ∧ binOk h' l = true))
    (nd : x.binnings.Nodup → bs.Nodup) (len : bs.length = x.binnings.length) :
    Eff h x h' { x with binnings := bs } := by
  have hlt := w.lt
  refine ⟨ag.pres, fun l hl _ => ag.2 l hl, ?_, fun l hl => Or.inl hl, ?_, ?_, len⟩
  · intro l hl
    rcases hb l hl with h1 | h1
    · exact Or.inl h1
    · exact Or.inr h1.1
  · intro n
    rw [nodup_refs] at n ⊢
    refine ⟨nd n.1, n.2.1, fun a ha hm => ?_⟩
    rcases hb a ha with h1 | h1
    · exact n.2.2 a h1 hm
    · have h2 : (a : Nat) < h.length := hlt a (mem_refs.mpr (Or.inr hm))
      omega
  · have w' := ag.pres.wt w
    refine { w' with bins := fun l hl => ?_ }
    rcases hb l hl with h1 | h1
    · exact w'.bins l h1
    · exact h1.2

theorem eff_setBin {h h' : Heap} {x : HObj} (w : WT h x) (ag : Agree h h') (i n : Nat)
    (hn : h.length ≤ n) (ok : binOk h' n = true) :
    Eff h x h' { x with binnings := x.binnings.set i n } := by
  apply eff_bins w ag
  · intro l hl
    rcases List.mem_or_eq_of_mem_set hl with h1 | h1
    · exact Or.inl h1
    · subst h1; exact Or.inr ⟨hn, ok⟩
  · intro nd
    apply nodup_set nd
    intro hm
    have h2 : n < h.length := w.lt n (mem_refs.mpr (Or.inl hm))
    omega
  · simp

theorem eff_newMeta {h : Heap} {x : HObj} (w : WT h x) (d : Dict) :
    Eff h x (h ++ [.dict d]) { x with md := h.length } := by
  have ag : Agree h (h ++ [.dict d]) := (Ext.append h _).agree
  have hlt := w.lt
  refine ⟨ag.pres, fun l hl _ => ag.2 l hl, fun l hl => Or.inl hl, ?_, ?_, ?_, rfl⟩
  · intro l hl
    simp only [mem_arrs] at hl ⊢; grind
  · intro nd
    have hf := hlt x.freq (by simp [HObj.refs, HObj.arrs])
    have he := hlt x.err2 (by simp [HObj.refs, HObj.arrs])
    have hm := hlt x.missed (by simp [HObj.refs, HObj.arrs])
    have hb : ∀ b ∈ x.binnings, b < h.length := fun b hb => hlt b (mem_refs.mpr (Or.inl hb))
    rw [nodup_refs] at nd ⊢
    obtain ⟨n1, n2, n3⟩ := nd
    simp only [HObj.arrs, List.nodup_cons, List.mem_cons, List.not_mem_nil, or_false, not_or,
      List.nodup_nil, and_true] at n2 n3 ⊢
    refine ⟨n1, ?_, fun b hb' => ?_⟩
    · grind
    · have h1 := n3 b hb'; have h2 : (b : Nat) < h.length := hb b hb'; omega
  · have w' := ag.pres.wt w
    exact { w' with md := by simp [kindAt_new, Cell.kind] }

theorem eff_stats {h h' : Heap} {x : HObj} (w : WT h x) (ag : Agree h h') (s : Loc)
    (hs : kindAt h' s = some .stats) : Eff h x h' { x with stats := some s } := by
  refine ⟨ag.pres, fun l hl _ => ag.2 l hl, fun l hl => Or.inl hl, fun l hl => Or.inl hl, id, ?_, rfl⟩
  have w' := ag.pres.wt w
  exact { w' with stats := fun s' e => by cases e; exact hs }

theorem binOk_new_grid (h : Heap) (w s : Rat) (t : Int) (n : Nat) (a ire : Bool) :
    binOk (h ++ [.binning (.grid w s t n a ire)]) h.length = true := by
  simp [binOk]

theorem binOk_new_static (h : Heap) (e : List (Rat × Rat)) (np : Bool) (lo len : Nat) (ire : Bool) :
    binOk (h ++ [.buf e, .binning (.arr np h.length lo len ire)]) (h.length + 1) = true := by
  simp [binOk, kindAt, Cell.kind]

theorem prim_eff {h : Heap} {x : HObj} (w : WT h x) (p : Prim) :
    Eff h x (runPrim h x p).1 (runPrim h x p).2 := by
  cases p with
  | writeArr a v =>
    obtain ⟨v', hv⟩ := arr_cell (w.arrLoc a)
    exact eff_set w (arrLoc_mem x a) hv ⟨v, rfl⟩
  | newArr a v => exact eff_newArr w a v
  | realloc a => exact eff_newArr w a _
  | growBin i t n =>
    simp only [runPrim]
    split
    · rename_i l hl
      have hm : l ∈ x.binnings := List.mem_of_getElem? hl
      split
      · rename_i w' s' _ _ ire hc
        exact eff_set w (mem_refs.mpr (Or.inl hm)) hc ⟨t, n, true, rfl⟩
      · exact Eff.refl w
    · exact Eff.refl w
  | setAdaptive i v =>
    simp only [runPrim]
    split
    · rename_i l hl
      have hm : l ∈ x.binnings := List.mem_of_getElem? hl
      split
      · rename_i w' s' t n _ ire hc
        exact eff_set w (mem_refs.mpr (Or.inl hm)) hc ⟨t, n, v, rfl⟩
      · exact Eff.refl w
    · exact Eff.refl w
  | newGrid i t n =>
    simp only [runPrim]
    split
    · split
      · exact eff_setBin w (Ext.append h _).agree i h.length (Nat.le_refl _) (binOk_new_grid ..)
      · exact Eff.refl w
    · exact Eff.refl w
  | newStatic i bins ire =>
    simp only [runPrim]
    split
    · exact eff_setBin w (Ext.append h _).agree i (h.length + 1) (Nat.le_succ _) (binOk_new_static ..)
    · exact Eff.refl w
  | reverseBins =>
    exact eff_bins w (Agree.refl h) _ (fun l hl => Or.inl (List.mem_reverse.mp hl))
      (fun nd => nodup_reverse' nd) (by simp)
  | writeMeta d =>
    obtain ⟨d', hd⟩ := dict_cell w.md
    exact eff_set w (by simp [HObj.refs, HObj.arrs]) hd ⟨d, rfl⟩
  | newMeta d => exact eff_newMeta w d
  | setStats s =>
    simp only [runPrim]
    split
    · exact Eff.refl w
    · split
      · exact eff_stats w (Agree.refl h) 0 (by simp [kindAt, w.inv0, Cell.kind])
      · exact eff_stats w (Ext.append h _).agree h.length (by simp [kindAt_new, Cell.kind])
  | setDtype dt =>
    exact ⟨Pres.refl h, fun _ _ _ => rfl, fun _ hl => Or.inl hl, fun _ hl => Or.inl hl, id,
      ⟨w.inv0, w.bins, w.freq, w.err2, w.missed, w.md, w.stats⟩, rfl⟩

theorem prims_eff {h : Heap} {x : HObj} (w : WT h x) (ps : List Prim) :
    Eff h x (runPrims h x ps).1 (runPrims h x ps).2 := by
  induction ps generalizing h x with
  | nil => exact Eff.refl w
  | cons p ps ih =>
    simp only [runPrims]
    have e := prim_eff w p
    exact Eff.trans e (ih e.wt)

theorem mutate_eff {h : Heap} {x : HObj} (w : WT h x) (m : Mut) :
    Eff h x (mutate h x m).1 (mutate h x m).2 := prims_eff w _

/-! ## derivations allocate -/

/-- summary of a derivation: old cells untouched, every mutable reference of the new object is a
    newly allocated cell, they are pairwise distinct, and the object is well-typed -/
structure Fresh (h h' : Heap) (x' : HObj) : Prop where
  agree : Agree h h'
  refs : ∀ l ∈ x'.refs, h.length ≤ l
  nodup : x'.refs.Nodup
  wt : WT h' x'

theorem Fresh.eff {h h₁ h₂ : Heap} {x₁ x₂ : HObj} (f : Fresh h h₁ x₁) (e : Eff h₁ x₁ h₂ x₂) : Fresh h h₂ x₂ where
  agree := by
    refine ⟨Nat.le_trans f.agree.1 e.pres.length, fun l hl => ?_⟩
    rw [e.frame l (Nat.lt_of_lt_of_le hl f.agree.1) ?_, f.agree.2 l hl]
    intro hm
    have : h.length ≤ l := f.refs l hm
    omega
  refs := by
    intro l hl
    rcases mem_refs.mp hl with h1 | h1
    · rcases e.bins l h1 with h2 | h2
      · exact f.refs l (mem_refs.mpr (Or.inl h2))
      · exact Nat.le_trans f.agree.1 h2
    · rcases e.arrs l h1 with h2 | h2
      · exact f.refs l (mem_refs.mpr (Or.inr h2))
      · exact Nat.le_trans f.agree.1 h2
  nodup := e.nodup f.nodup
  wt := e.wt

theorem Fresh.trans {h h₁ h₂ : Heap} {x₁ x₂ : HObj} (f : Fresh h h₁ x₁) (g : Fresh h₁ h₂ x₂) : Fresh h h₂ x₂ where
  agree := f.agree.trans g.agree
  refs := fun l hl => Nat.le_trans f.agree.1 (g.refs l hl)
  nodup := g.nodup
  wt := g.wt

/-- a function that allocates one binning object -/
structure BAlloc (g : Heap → Loc → Heap × Loc) : Prop where
  ext : ∀ h l, Ext h (g h l).1
  ge : ∀ h l, h.length ≤ (g h l).2
  ok : ∀ h l, binOk (g h l).1 (g h l).2 = true

theorem window_some {h : Heap} {b lo len : Nat} {e : List (Rat × Rat)} (w : window h b lo len = some e) :
    kindAt h b = some .buf := by
  unfold window at w
  split at w
  · rename_i e' he; simp [kindAt, he, Cell.kind]
  · cases w

theorem binOk_junk (h : Heap) : binOk (h ++ [junkBin]) h.length = true := by simp [binOk, junkBin]

theorem binOk_new_view {h : Heap} {b : Nat} (k : kindAt h b = some .buf) (np : Bool) (lo len : Nat) (ire : Bool) :
    binOk (h ++ [.binning (.arr np b lo len ire)]) h.length = true := by
  have := (Ext.append h [Cell.binning (.arr np b lo len ire)]).agree.kind k
  simp [binOk, this]

theorem copyBin_alloc : BAlloc copyBin where
  ext := by
    intro h l; unfold copyBin
    split
    · split <;> exact Ext.append _ _
    · split <;> exact Ext.append _ _
    · exact Ext.append _ _
    · exact Ext.append _ _
  ge := by
    intro h l; unfold copyBin
    split
    · split <;> simp
    · split <;> simp
    · simp
    · simp
  ok := by
    intro h l; unfold copyBin
    split
    · split
      · exact binOk_new_static ..
      · exact binOk_junk h
    · split
      · rename_i e he; exact binOk_new_view (window_some he) ..
      · exact binOk_junk h
    · exact binOk_new_grid ..
    · exact binOk_junk h

theorem selBin_alloc (sel : Sel) : BAlloc (fun h l => selBin h l sel) where
  ext := by
    intro h l; unfold selBin
    split
    · split
      · split <;> exact Ext.append _ _
      · exact Ext.append _ _
    · exact Ext.append _ _
    · exact Ext.append _ _
  ge := by
    intro h l; unfold selBin
    split
    · split
      · split <;> simp
      · simp
    · simp
    · simp
  ok := by
    intro h l; unfold selBin
    split
    · split
      · rename_i e he
        split
        · exact binOk_new_view (window_some he) ..
        · exact binOk_new_static ..
      · exact binOk_junk h
    · exact binOk_new_static ..
    · exact binOk_junk h

theorem parseBin_alloc : BAlloc parseBin where
  ext := by
    intro h l; unfold parseBin
    split
    · split <;> exact Ext.append _ _
    · exact Ext.append _ _
    · exact Ext.append _ _
  ge := by
    intro h l; unfold parseBin
    split
    · split <;> simp
    · simp
    · simp
  ok := by
    intro h l; unfold parseBin
    split
    · split
      · exact binOk_new_static ..
      · exact binOk_junk h
    · exact binOk_new_grid ..
    · exact binOk_junk h

theorem mapAlloc_spec {g : Heap → Loc → Heap × Loc} (ba : BAlloc g) (h : Heap) (ls : List Loc) :
    Ext h (mapAlloc g h ls).1 ∧
    (∀ l ∈ (mapAlloc g h ls).2, h.length ≤ l ∧ binOk (mapAlloc g h ls).1 l = true) ∧
    (mapAlloc g h ls).2.Nodup ∧ (mapAlloc g h ls).2.length = ls.length := by
  induction ls generalizing h with
  | nil => simp [mapAlloc, Ext.refl]
  | cons l ls ih =>
    obtain ⟨e, m, nd, len⟩ := ih (g h l).1
    have e0 := ba.ext h l
    have le0 : h.length ≤ (g h l).1.length := e0.agree.1
    simp only [mapAlloc]
    refine ⟨e0.trans e, ?_, ?_, by simp [len]⟩
    · intro l' hl'
      rcases List.mem_cons.mp hl' with h1 | h1
      · subst h1
        exact ⟨ba.ge h l, e.agree.pres.bin_ok (ba.ok h l)⟩
      · exact ⟨Nat.le_trans le0 (m l' h1).1, (m l' h1).2⟩
    · rw [List.nodup_cons]
      refine ⟨fun hm => ?_, nd⟩
      have h1 := (m _ hm).1
      have h2 := binOk_lt (ba.ok h l)
      omega

theorem mkObj_fresh {h₀ h : Heap} (ag : Agree h₀ h) (inv0 : h[0]? = some (.stats .invalid)) (bs : List Loc)
    (hb : ∀ l ∈ bs, h₀.length ≤ l ∧ binOk h l = true) (nd : bs.Nodup)
    (f e m : List Rat) (d : Dict) (st : StSpec) (dt : DTag) (keep : Bool) :
    Fresh h₀ (mkObj h bs f e m d st dt keep).1 (mkObj h bs f e m d st dt keep).2 := by
  have blt : ∀ l ∈ bs, l < h.length := fun l hl => binOk_lt (hb l hl).2
  have hle := ag.1
  cases st with
  | none =>
    have ex : Ext h (mkObj h bs f e m d .none dt keep).1 := Ext.append _ _
    refine ⟨ag.trans ex.agree, ?_, ?_, ⟨ex.agree.get inv0, fun l hl => ex.agree.pres.bin_ok (hb l hl).2, ?_, ?_, ?_, ?_, ?_⟩⟩
    · intro l hl
      rcases mem_refs.mp hl with h1 | h1
      · exact (hb l h1).1
      · simp only [mkObj, mem_arrs] at h1; omega
    · rw [nodup_refs]
      refine ⟨nd, by simp [mkObj, HObj.arrs], fun a ha hm => ?_⟩
      have := blt a ha
      simp only [mkObj, mem_arrs] at hm; omega
    all_goals simp [mkObj, kindAt, Cell.kind]
  | invalid =>
    have ex : Ext h (mkObj h bs f e m d .invalid dt keep).1 := Ext.append _ _
    refine ⟨ag.trans ex.agree, ?_, ?_, ⟨ex.agree.get inv0, fun l hl => ex.agree.pres.bin_ok (hb l hl).2, ?_, ?_, ?_, ?_, ?_⟩⟩
    · intro l hl
      rcases mem_refs.mp hl with h1 | h1
      · exact (hb l h1).1
      · simp only [mkObj, mem_arrs] at h1; omega
    · rw [nodup_refs]
      refine ⟨nd, by simp [mkObj, HObj.arrs], fun a ha hm => ?_⟩
      have := blt a ha
      simp only [mkObj, mem_arrs] at hm; omega
    · simp [mkObj, kindAt, Cell.kind]
    · simp [mkObj, kindAt, Cell.kind]
    · simp [mkObj, kindAt, Cell.kind]
    · simp [mkObj, kindAt, Cell.kind]
    · intro s hs
      simp only [mkObj, Option.some.injEq] at hs
      subst hs
      have := ex.agree.get inv0
      simp [kindAt, this, Cell.kind]
  | fresh s =>
    have ex : Ext h (mkObj h bs f e m d (.fresh s) dt keep).1 := by
      simp only [mkObj, List.append_assoc]; exact Ext.append _ _
    refine ⟨ag.trans ex.agree, ?_, ?_, ⟨ex.agree.get inv0, fun l hl => ex.agree.pres.bin_ok (hb l hl).2, ?_, ?_, ?_, ?_, ?_⟩⟩
    · intro l hl
      rcases mem_refs.mp hl with h1 | h1
      · exact (hb l h1).1
      · simp only [mkObj, mem_arrs] at h1; omega
    · rw [nodup_refs]
      refine ⟨nd, by simp [mkObj, HObj.arrs], fun a ha hm => ?_⟩
      have := blt a ha
      simp only [mkObj, mem_arrs] at hm; omega
    all_goals simp [mkObj, kindAt, Cell.kind]

theorem build_fresh {g : Heap → Loc → Heap × Loc} (ba : BAlloc g) {h : Heap} (inv0 : h[0]? = some (.stats .invalid))
    (ls : List Loc) (f e m : List Rat) (d : Dict) (st : StSpec) (dt : DTag) (keep : Bool) :
    Fresh h (mkObj (mapAlloc g h ls).1 (mapAlloc g h ls).2 f e m d st dt keep).1
            (mkObj (mapAlloc g h ls).1 (mapAlloc g h ls).2 f e m d st dt keep).2 := by
  obtain ⟨ex, m', nd, _⟩ := mapAlloc_spec ba h ls
  exact mkObj_fresh ex.agree (ex.agree.get inv0) _ m' nd ..

theorem copyObj_fresh {h : Heap} {x : HObj} (w : WT h x) (incl : Bool) :
    Fresh h (copyObj h x incl).1 (copyObj h x incl).2 :=
  build_fresh copyBin_alloc w.inv0 ..

theorem viaCopy_fresh {h : Heap} {x : HObj} (w : WT h x) (ps : List Prim) :
    Fresh h (viaCopy h x ps).1 (viaCopy h x ps).2 :=
  (copyObj_fresh w true).eff (prims_eff (copyObj_fresh w true).wt ps)

/-- a fresh object whose `i`-th binning is re-pointed to a binning allocated just before it -/
theorem fresh_setBin {h h₁ h₂ : Heap} {x : HObj} (e : Ext h h₁) (f : Fresh h₁ h₂ x) (i b : Nat)
    (ge : h.length ≤ b) (ok : binOk h₁ b = true) :
    Fresh h h₂ { x with binnings := x.binnings.set i b } := by
  have blt : b < h₁.length := binOk_lt ok
  have nb : b ∉ x.refs := fun hm => by have := f.refs b hm; omega
  refine ⟨e.agree.trans f.agree, ?_, ?_, ?_⟩
  · intro l hl
    rcases mem_refs.mp hl with h1 | h1
    · rcases List.mem_or_eq_of_mem_set h1 with h2 | h2
      · exact Nat.le_trans e.agree.1 (f.refs l (mem_refs.mpr (Or.inl h2)))
      · omega
    · exact Nat.le_trans e.agree.1 (f.refs l (mem_refs.mpr (Or.inr h1)))
  · have nd := f.nodup
    rw [nodup_refs] at nd ⊢
    refine ⟨nodup_set nd.1 (fun hm => nb (mem_refs.mpr (Or.inl hm))) i, nd.2.1, fun a ha hm => ?_⟩
    rcases List.mem_or_eq_of_mem_set ha with h2 | h2
    · exact nd.2.2 a h2 hm
    · subst h2; exact nb (mem_refs.mpr (Or.inr hm))
  · have w := f.wt
    refine { w with bins := fun l hl => ?_ }
    rcases List.mem_or_eq_of_mem_set hl with h2 | h2
    · exact w.bins l h2
    · subst h2; exact f.agree.pres.bin_ok ok

theorem derive_fresh {h : Heap} {x : HObj} (w : WT h x) (d : Deriv) :
    Fresh h (derive h x d).1 (derive h x d).2 := by
  induction d generalizing h x with
  | copy incl => exact copyObj_fresh w incl
  | add p md => exact viaCopy_fresh w _
  | scale p => exact viaCopy_fresh w _
  | mergeBins axes f e => exact viaCopy_fresh w _
  | accumulate f => exact viaCopy_fresh w _
  | partialNormalize dt f e => exact viaCopy_fresh w _
  | transpose md f e => exact viaCopy_fresh w _
  | selectSlice axis a n f e =>
    simp only [derive]
    split
    · exact copyObj_fresh w true
    · rename_i l hl
      have ba := selBin_alloc (.slice a n)
      have ex : Ext h (selBin h l (.slice a n)).1 := ba.ext h l
      have w1 : WT (selBin h l (.slice a n)).1 x := ex.agree.pres.wt w
      have f1 := fresh_setBin ex (copyObj_fresh w1 true) axis (selBin h l (.slice a n)).2 (ba.ge h l) (ba.ok h l)
      exact f1.eff (prims_eff f1.wt _)
  | reduce axes f e md dt => exact build_fresh copyBin_alloc w.inv0 ..
  | getitem1 sel f e m md keep => exact build_fresh (selBin_alloc sel) w.inv0 ..
  | parse => exact build_fresh parseBin_alloc w.inv0 ..
  | create n md dt p =>
    have f := build_fresh copyBin_alloc w.inv0 (x.binnings.take 1) (List.replicate n 0) (List.replicate n 0)
      [0, 0, 0] md (.fresh .empty) dt true
    exact f.eff (prims_eff f.wt _)
  | seq d₁ d₂ ih₁ ih₂ => exact (ih₁ w).trans (ih₂ (ih₁ w).wt)

/-! ## separation -/

/-- `x` and `y` share no mutable location -/
def SepPair (x y : HObj) : Prop := ∀ l ∈ x.refs, l ∉ y.refs

theorem SepPair.symm {x y : HObj} (s : SepPair x y) : SepPair y x := fun l hl hm => s l hm hl

theorem sepPair_of_bounds {x y : HObj} {n : Nat} (hx : ∀ l ∈ x.refs, l < n) (hy : ∀ l ∈ y.refs, n ≤ l) :
    SepPair x y := fun l hl hm => by
  have := hx l hl; have := hy l hm; omega

theorem sepPair_eff {h h' : Heap} {x x' y : HObj} (e : Eff h x h' x') (hy : ∀ l ∈ y.refs, l < h.length)
    (s : SepPair x y) : SepPair x' y := by
  intro l hl hm
  have h0 : (l : Nat) < h.length := hy l hm
  rcases mem_refs.mp hl with h1 | h1
  · rcases e.bins l h1 with h2 | h2
    · exact s l (mem_refs.mpr (Or.inl h2)) hm
    · omega
  · rcases e.arrs l h1 with h2 | h2
    · exact s l (mem_refs.mpr (Or.inr h2)) hm
    · omega

/-- **Sep**: each live object's own references are pairwise distinct, and two distinct live
    objects reference disjoint sets of mutable cells -/
structure Sep (live : List HObj) : Prop where
  own : ∀ x ∈ live, x.refs.Nodup
  pair : ∀ (i j : Nat) (x y : HObj), live[i]? = some x → live[j]? = some y → i ≠ j → SepPair x y

/-- the invariant of worlds: every live object well-typed, and separation -/
structure Inv (w : World) : Prop where
  wt : ∀ x ∈ w.live, WT w.heap x
  sep : Sep w.live

theorem getElem?_append_cases {α} {l ys : List α} {a : α} {i : Nat} (e : (l ++ ys)[i]? = some a) :
    l[i]? = some a ∨ (l.length ≤ i ∧ ys[i - l.length]? = some a) := by
  rw [List.getElem?_append] at e
  split at e
  · exact Or.inl e
  · exact Or.inr ⟨by omega, e⟩

/-- new objects allocated above the old heap join the live set -/
theorem inv_append {w : World} (iv : Inv w) {h' : Heap} (ag : Agree w.heap h') (ys : List HObj)
    (hy : ∀ y ∈ ys, WT h' y ∧ (∀ l ∈ y.refs, w.heap.length ≤ l) ∧ y.refs.Nodup)
    (hp : ∀ (i j : Nat) (y z : HObj), ys[i]? = some y → ys[j]? = some z → i ≠ j → SepPair y z) :
    Inv { heap := h', live := w.live ++ ys } := by
  refine ⟨?_, ⟨?_, ?_⟩⟩
  · intro y hm
    rcases List.mem_append.mp hm with h1 | h1
    · exact ag.pres.wt (iv.wt y h1)
    · exact (hy y h1).1
  · intro y hm
    rcases List.mem_append.mp hm with h1 | h1
    · exact iv.sep.own y h1
    · exact (hy y h1).2.2
  · intro a b y z ha hb ne
    rcases getElem?_append_cases ha with h1 | ⟨h1, h1'⟩ <;> rcases getElem?_append_cases hb with h2 | ⟨h2, h2'⟩
    · exact iv.sep.pair a b y z h1 h2 ne
    · exact sepPair_of_bounds (iv.wt y (List.mem_of_getElem? h1)).lt (hy z (List.mem_of_getElem? h2')).2.1
    · exact (sepPair_of_bounds (iv.wt z (List.mem_of_getElem? h2)).lt (hy y (List.mem_of_getElem? h1')).2.1).symm
    · exact hp _ _ y z h1' h2' (by omega)

/-- **derivations preserve the invariant** (the new object joins the live set) -/
theorem inv_derive {w : World} (iv : Inv w) {i : Nat} {x : HObj} (hx : w.live[i]? = some x) (d : Deriv) :
    Inv (w.step (.derive i d)) := by
  have f := derive_fresh (iv.wt x (List.mem_of_getElem? hx)) d
  simp only [World.step, hx]
  refine inv_append iv f.agree [_] (fun y hy => ?_) (fun a b y z ha hb ne => ?_)
  · simp only [List.mem_singleton] at hy; subst hy; exact ⟨f.wt, f.refs, f.nodup⟩
  · have := (List.getElem?_eq_some_iff.mp ha).1; have := (List.getElem?_eq_some_iff.mp hb).1
    simp only [List.length_singleton] at *; omega

/-- **in-place operations preserve the invariant** -/
theorem inv_mutate {w : World} (iv : Inv w) {i : Nat} {x : HObj} (hx : w.live[i]? = some x) (m : Mut) :
    Inv (w.step (.mutate i m)) := by
  have wx : WT w.heap x := iv.wt x (List.mem_of_getElem? hx)
  have e := mutate_eff wx m
  have ilt : i < w.live.length := (List.getElem?_eq_some_iff.mp hx).1
  simp only [World.step, hx]
  have get : ∀ (j : Nat) (y : HObj), (w.live.set i (mutate w.heap x m).2)[j]? = some y →
      (j = i ∧ y = (mutate w.heap x m).2) ∨ (j ≠ i ∧ w.live[j]? = some y) := by
    intro j y hj
    rw [List.getElem?_set] at hj
    split at hj
    · rename_i h1; simp only [Option.some.injEq] at hj; exact Or.inl ⟨h1.symm, hj.symm⟩
    · rename_i h1; exact Or.inr ⟨fun e' => h1 e'.symm, hj⟩
  refine ⟨?_, ⟨?_, ?_⟩⟩
  · intro y hy
    rcases List.mem_or_eq_of_mem_set hy with h1 | h1
    · exact e.pres.wt (iv.wt y h1)
    · subst h1; exact e.wt
  · intro y hy
    rcases List.mem_or_eq_of_mem_set hy with h1 | h1
    · exact iv.sep.own y h1
    · subst h1; exact e.nodup (iv.sep.own x (List.mem_of_getElem? hx))
  · intro a b y z ha hb ne
    rcases get a y ha with ⟨h1, rfl⟩ | ⟨h1, h1'⟩ <;> rcases get b z hb with ⟨h2, rfl⟩ | ⟨h2, h2'⟩
    · omega
    · exact sepPair_eff e (iv.wt z (List.mem_of_getElem? h2')).lt (iv.sep.pair i b x z hx h2' (by omega))
    · exact (sepPair_eff e (iv.wt y (List.mem_of_getElem? h1')).lt (iv.sep.pair i a x y hx h1' (by omega))).symm
    · exact iv.sep.pair a b y z h1' h2' ne

/-! ## collection copy (after fix 10ef3a5) -/

theorem copyAll_spec {h : Heap} (xs : List HObj) (wx : ∀ x ∈ xs, WT h x) :
    Agree h (copyAll h xs).1 ∧
    (∀ y ∈ (copyAll h xs).2, WT (copyAll h xs).1 y ∧ (∀ l ∈ y.refs, h.length ≤ l) ∧ y.refs.Nodup) ∧
    (copyAll h xs).2.Pairwise SepPair ∧ (copyAll h xs).2.length = xs.length := by
  induction xs generalizing h with
  | nil => simp [copyAll, Agree.refl]
  | cons x xs ih =>
    have f := copyObj_fresh (wx x (List.mem_cons_self ..)) true
    have ag := f.agree
    obtain ⟨ag', my, pw, len⟩ := ih (h := (copyObj h x true).1)
      (fun y hy => ag.pres.wt (wx y (List.mem_cons_of_mem _ hy)))
    simp only [copyAll]
    refine ⟨ag.trans ag', ?_, ?_, by simp [len]⟩
    · intro y hy
      rcases List.mem_cons.mp hy with h1 | h1
      · subst h1; exact ⟨ag'.pres.wt f.wt, f.refs, f.nodup⟩
      · obtain ⟨a1, a2, a3⟩ := my y h1
        exact ⟨a1, fun l hl => Nat.le_trans ag.1 (a2 l hl), a3⟩
    · rw [List.pairwise_cons]
      exact ⟨fun z hz => sepPair_of_bounds f.wt.lt (my z hz).2.1, pw⟩

/-- the members of the copied collection: well-typed, all their references new, separated from
    each other; the collection's own binning object is new as well and no member references it -/
theorem collCopy_spec {h : Heap} (ms : List HObj) (wx : ∀ x ∈ ms, WT h x) :
    Agree h (collCopy h ms).1 ∧
    (∀ y ∈ (collCopy h ms).2, WT (collCopy h ms).1 y ∧ (∀ l ∈ y.refs, h.length ≤ l) ∧ y.refs.Nodup) ∧
    (∀ (i j : Nat) (y z : HObj), (collCopy h ms).2[i]? = some y → (collCopy h ms).2[j]? = some z → i ≠ j →
        SepPair y z) ∧
    (∀ b0, collBinning ms = some b0 →
        h.length ≤ (copyBin h b0).2 ∧ binOk (collCopy h ms).1 (copyBin h b0).2 = true ∧
        (collCopy h ms).2.length = ms.length ∧ ∀ y ∈ (collCopy h ms).2, (copyBin h b0).2 ∉ y.refs) := by
  unfold collCopy
  cases hb : collBinning ms with
  | none => simp [Agree.refl]
  | some b0 =>
    simp only
    have ex : Ext h (copyBin h b0).1 := copyBin_alloc.ext h b0
    have ok := copyBin_alloc.ok h b0
    obtain ⟨ag, my, pw, len⟩ := copyAll_spec (h := (copyBin h b0).1) ms (fun y hy => ex.agree.pres.wt (wx y hy))
    refine ⟨ex.agree.trans ag, ?_, ?_, ?_⟩
    · intro y hy
      obtain ⟨a1, a2, a3⟩ := my y hy
      exact ⟨a1, fun l hl => Nat.le_trans ex.agree.1 (a2 l hl), a3⟩
    · intro i j y z hi hj ne
      rw [List.pairwise_iff_getElem] at pw
      obtain ⟨hi1, hi2⟩ := List.getElem?_eq_some_iff.mp hi
      obtain ⟨hj1, hj2⟩ := List.getElem?_eq_some_iff.mp hj
      rcases Nat.lt_or_gt_of_ne ne with h1 | h1
      · have := pw i j hi1 hj1 h1; rw [hi2, hj2] at this; exact this
      · have := pw j i hj1 hi1 h1; rw [hi2, hj2] at this; exact this.symm
    · intro b0' e; cases e
      refine ⟨copyBin_alloc.ge h b0, ag.pres.bin_ok ok, len, fun y hy hm => ?_⟩
      have h1 := (my y hy).2.1 _ hm
      have h2 := binOk_lt ok
      omega

/-- **a collection copy preserves the invariant** (its members join the live set) -/
theorem inv_collCopy {w : World} (iv : Inv w) (is : List Nat) : Inv (w.step (.collCopy is)) := by
  have wx : ∀ x ∈ is.filterMap (w.live[·]?), WT w.heap x := by
    intro x hx
    obtain ⟨i, _, hi⟩ := List.mem_filterMap.mp hx
    exact iv.wt x (List.mem_of_getElem? hi)
  obtain ⟨ag, my, pw, _⟩ := collCopy_spec _ wx
  simp only [World.step]
  exact inv_append iv ag _ my pw

theorem inv_step {w : World} (iv : Inv w) (s : Step) : Inv (w.step s) := by
  cases s with
  | derive i d =>
    cases hx : w.live[i]? with
    | none => simpa [World.step, hx] using iv
    | some x => exact inv_derive iv hx d
  | mutate i m =>
    cases hx : w.live[i]? with
    | none => simpa [World.step, hx] using iv
    | some x => exact inv_mutate iv hx m
  | collCopy is => exact inv_collCopy iv is

/-- **the invariant holds along every history** -/
theorem inv_run {w : World} (iv : Inv w) (steps : List Step) : Inv (w.run steps) := by
  induction steps generalizing w with
  | nil => exact iv
  | cons s ss ih => exact ih (inv_step iv s)

/-! ## frame -/

theorem set_getElem?_ne {α} {l : List α} {i j : Nat} {a : α} (ne : i ≠ j) : (l.set i a)[j]? = l[j]? := by
  simp [ne]

/-- **Frame.** An in-place operation on `live[i]` leaves every other live object `live[j]`
    (`j ≠ i`) and everything it reports exactly as it was. -/
theorem frame_mutate {w : World} (iv : Inv w) {i j : Nat} {y : HObj}
    (hy : w.live[j]? = some y) (ne : i ≠ j) (m : Mut) :
    (w.step (.mutate i m)).live[j]? = some y ∧
    snapshot (w.step (.mutate i m)).heap y = snapshot w.heap y := by
  have wy : WT w.heap y := iv.wt y (List.mem_of_getElem? hy)
  cases hx : w.live[i]? with
  | none => simp [World.step, hx, hy]
  | some x =>
    have wx : WT w.heap x := iv.wt x (List.mem_of_getElem? hx)
    have e := mutate_eff wx m
    simp only [World.step, hx]
    refine ⟨by rw [set_getElem?_ne ne]; exact hy, snapshot_congr e.pres wy (fun l hl => ?_)⟩
    exact e.frame l (wy.lt l hl) (fun hm => iv.sep.pair i j x y hx hy ne l hm hl)

/-- **Derivations do not modify their operands** — nor any other live object. -/
theorem frame_derive {w : World} (iv : Inv w) {i j : Nat} {y : HObj} (hy : w.live[j]? = some y) (d : Deriv) :
    (w.step (.derive i d)).live[j]? = some y ∧
    snapshot (w.step (.derive i d)).heap y = snapshot w.heap y := by
  have wy : WT w.heap y := iv.wt y (List.mem_of_getElem? hy)
  cases hx : w.live[i]? with
  | none => simp [World.step, hx, hy]
  | some x =>
    have f := derive_fresh (iv.wt x (List.mem_of_getElem? hx)) d
    simp only [World.step, hx]
    refine ⟨?_, snapshot_agree f.agree wy⟩
    rw [List.getElem?_append_left (List.getElem?_eq_some_iff.mp hy).1]; exact hy

theorem frame_collCopy {w : World} (iv : Inv w) {j : Nat} {y : HObj} (hy : w.live[j]? = some y) (is : List Nat) :
    (w.step (.collCopy is)).live[j]? = some y ∧
    snapshot (w.step (.collCopy is)).heap y = snapshot w.heap y := by
  have wy : WT w.heap y := iv.wt y (List.mem_of_getElem? hy)
  have wx : ∀ x ∈ is.filterMap (w.live[·]?), WT w.heap x := by
    intro x hx
    obtain ⟨i, _, hi⟩ := List.mem_filterMap.mp hx
    exact iv.wt x (List.mem_of_getElem? hi)
  obtain ⟨ag, _, _⟩ := collCopy_spec _ wx
  simp only [World.step]
  refine ⟨?_, snapshot_agree ag wy⟩
  rw [List.getElem?_append_left (List.getElem?_eq_some_iff.mp hy).1]; exact hy

/-- a step other than an in-place operation on `live[j]` itself -/
def Step.spares (j : Nat) : Step → Prop
  | .mutate i _ => i ≠ j
  | _ => True

theorem frame_step {w : World} (iv : Inv w) {j : Nat} {y : HObj} (hy : w.live[j]? = some y) (s : Step)
    (sp : s.spares j) :
    (w.step s).live[j]? = some y ∧ snapshot (w.step s).heap y = snapshot w.heap y := by
  cases s with
  | derive i d => exact frame_derive iv hy d
  | collCopy is => exact frame_collCopy iv hy is
  | mutate i m => exact frame_mutate iv hy sp m

/-- **Frame along every history**: as long as no step is an in-place operation on `live[j]` itself. -/
theorem frame_run {w : World} (iv : Inv w) {j : Nat} {y : HObj} (hy : w.live[j]? = some y) (steps : List Step)
    (sp : ∀ s ∈ steps, s.spares j) :
    (w.run steps).live[j]? = some y ∧ snapshot (w.run steps).heap y = snapshot w.heap y := by
  induction steps generalizing w with
  | nil => exact ⟨hy, rfl⟩
  | cons s ss ih =>
    obtain ⟨h1, h2⟩ := frame_step iv hy s (sp s (List.mem_cons_self ..))
    obtain ⟨h3, h4⟩ := ih (inv_step iv s) h1 (fun s' hs' => sp s' (List.mem_cons_of_mem _ hs'))
    exact ⟨h3, h4.trans h2⟩

/-! ## the executable check -/

theorem nodupB_iff (l : List Nat) : nodupB l = true ↔ l.Nodup := by
  induction l with
  | nil => simp [nodupB]
  | cons a l ih => simp [nodupB, ih, List.nodup_cons]

theorem sepPairB_sound {x y : HObj} (e : sepPairB x y = true) : SepPair x y := by
  simpa [sepPairB, SepPair] using e

theorem pairsB_sound {r : HObj → HObj → Bool} {l : List HObj} (e : pairsB r l = true) :
    ∀ (i j : Nat) (x y : HObj), l[i]? = some x → l[j]? = some y → i ≠ j → r x y = true := by
  induction l with
  | nil => intro i j x y hi; simp at hi
  | cons a l ih =>
    simp only [pairsB, Bool.and_eq_true, List.all_eq_true] at e
    obtain ⟨e1, e2⟩ := e
    intro i j x y hi hj ne
    cases i with
    | zero =>
      cases j with
      | zero => omega
      | succ j =>
        simp only [List.getElem?_cons_zero, Option.some.injEq] at hi
        simp only [List.getElem?_cons_succ] at hj
        subst hi
        exact (e1 y (List.mem_of_getElem? hj)).1
    | succ i =>
      simp only [List.getElem?_cons_succ] at hi
      cases j with
      | zero =>
        simp only [List.getElem?_cons_zero, Option.some.injEq] at hj
        subst hj
        exact (e1 x (List.mem_of_getElem? hi)).2
      | succ j =>
        simp only [List.getElem?_cons_succ] at hj
        exact ih e2 i j x y hi hj (by omega)

/-- **`sepB` is sound**: a world that passes the executable check is well-typed and separated. -/
theorem sepB_sound {h : Heap} {live : List HObj} (e : sepB h live = true) :
    (∀ x ∈ live, WT h x) ∧ Sep live := by
  simp only [sepB, Bool.and_eq_true, List.all_eq_true] at e
  obtain ⟨e1, e2⟩ := e
  refine ⟨fun x hx => wtObj_iff.mp (e1 x hx).1, fun x hx => (nodupB_iff _).mp (e1 x hx).2, ?_⟩
  intro i j x y hi hj ne
  exact sepPairB_sound (pairsB_sound e2 i j x y hi hj ne)

/-- executable check of the whole invariant -/
def invB (w : World) : Bool := sepB w.heap w.live

theorem invB_sound {w : World} (e : invB w = true) : Inv w :=
  ⟨(sepB_sound e).1, (sepB_sound e).2⟩

/-! ## refinement: in-place code acts on the snapshot as the value-level function `primSnap` -/

theorem nodup_facts {x : HObj} (nd : x.refs.Nodup) :
    x.binnings.Nodup ∧
    (x.freq ≠ x.err2 ∧ x.freq ≠ x.missed ∧ x.freq ≠ x.md ∧ x.err2 ≠ x.missed ∧ x.err2 ≠ x.md ∧ x.missed ≠ x.md) ∧
    ∀ b ∈ x.binnings, b ≠ x.freq ∧ b ≠ x.err2 ∧ b ≠ x.missed ∧ b ≠ x.md := by
  rw [nodup_refs] at nd
  obtain ⟨n1, n2, n3⟩ := nd
  simp only [HObj.arrs, List.nodup_cons, List.mem_cons, List.not_mem_nil, or_false, not_or,
    List.nodup_nil, and_true] at n2 n3
  exact ⟨n1, by grind, fun b hb => n3 b hb⟩

theorem getArr_set_same {h : Heap} {l : Loc} (lt : l < h.length) (v : List Rat) :
    getArr (h.set l (.arr v)) l = some v := by
  simp [getArr, lt]

theorem getDict_set_same {h : Heap} {l : Loc} (lt : l < h.length) (d : Dict) :
    getDict (h.set l (.dict d)) l = some d := by
  simp [getDict, lt]

theorem stats_field_congr {h h' : Heap} (p : Pres h h') {x : HObj} (w : WT h x) :
    x.stats.map (getStats h') = x.stats.map (getStats h) := by
  cases hs : x.stats with
  | none => rfl
  | some s => simp [getStats_congr (p.stats (w.stats s hs))]

/-- in-place write of a cell `l` that is none of the binnings of `x`: the bins are reported as before -/
theorem bins_field_congr {h h' : Heap} (p : Pres h h') {x : HObj} (w : WT h x)
    (same : ∀ b ∈ x.binnings, h'[b]? = h[b]?) :
    x.binnings.map (snapBin h') = x.binnings.map (snapBin h) :=
  List.map_congr_left fun b hb => snapBin_congr p (same b hb) (w.bins b hb)

theorem snapshot_set_arr {h : Heap} {x : HObj} (w : WT h x) (nd : x.refs.Nodup) (a : Which) (v : List Rat) :
    snapshot (h.set (x.arrLoc a) (.arr v)) x = (snapshot h x).setArr a (some v) := by
  obtain ⟨_, ⟨d1, d2, d3, d4, d5, d6⟩, nb⟩ := nodup_facts nd
  obtain ⟨v', hv⟩ := arr_cell (w.arrLoc a)
  have p : Pres h (h.set (x.arrLoc a) (.arr v)) := pres_set hv ⟨v, rfl⟩
  have lt := kindAt_lt (w.arrLoc a)
  have hb : x.binnings.map (snapBin (h.set (x.arrLoc a) (.arr v))) = x.binnings.map (snapBin h) :=
    bins_field_congr p w (fun b hb => set_frame (by cases a <;> simp [HObj.arrLoc, nb b hb]))
  have hs := stats_field_congr p w
  cases a
  · apply Snap.ext' <;> simp only [snapshot, Snap.setArr, HObj.arrLoc] at hb hs lt ⊢
    · exact hb
    · exact getArr_set_same lt v
    · exact getArr_congr (set_frame d1.symm)
    · exact getArr_congr (set_frame d2.symm)
    · exact getDict_congr (set_frame d3.symm)
    · exact hs
  · apply Snap.ext' <;> simp only [snapshot, Snap.setArr, HObj.arrLoc] at hb hs lt ⊢
    · exact hb
    · exact getArr_congr (set_frame d1)
    · exact getArr_set_same lt v
    · exact getArr_congr (set_frame d4.symm)
    · exact getDict_congr (set_frame d5.symm)
    · exact hs
  · apply Snap.ext' <;> simp only [snapshot, Snap.setArr, HObj.arrLoc] at hb hs lt ⊢
    · exact hb
    · exact getArr_congr (set_frame d2)
    · exact getArr_congr (set_frame d4)
    · exact getArr_set_same lt v
    · exact getDict_congr (set_frame d6.symm)
    · exact hs

theorem snapshot_set_dict {h : Heap} {x : HObj} (w : WT h x) (nd : x.refs.Nodup) (d : Dict) :
    snapshot (h.set x.md (.dict d)) x = { snapshot h x with md := some d } := by
  obtain ⟨_, ⟨d1, d2, d3, d4, d5, d6⟩, nb⟩ := nodup_facts nd
  obtain ⟨v', hv⟩ := dict_cell w.md
  have p : Pres h (h.set x.md (.dict d)) := pres_set hv ⟨d, rfl⟩
  have lt := kindAt_lt w.md
  apply Snap.ext' <;> simp only [snapshot]
  · exact bins_field_congr p w (fun b hb => set_frame (nb b hb).2.2.2)
  · exact getArr_congr (set_frame d3)
  · exact getArr_congr (set_frame d5)
  · exact getArr_congr (set_frame d6)
  · exact getDict_set_same lt d
  · exact stats_field_congr p w

theorem snapshot_setArrLoc (h : Heap) (x : HObj) (a : Which) (n : Loc) :
    snapshot h (x.setArrLoc a n) = (snapshot h x).setArr a (getArr h n) := by
  cases a <;> rfl

theorem getArr_new (h : Heap) (v : List Rat) : getArr (h ++ [.arr v]) h.length = some v := by
  simp [getArr]

/-- in-place rewrite of the binning object number `i` of `x` (a recipe binning stays one) -/
theorem snapshot_set_bin {h : Heap} {x : HObj} (w : WT h x) (nd : x.refs.Nodup) {i : Nat} {l : Loc}
    (hl : x.binnings[i]? = some l) {c c' : Cell} (hc : h[l]? = some c) (st : Stable c c')
    (F : Option BnSnap → Option BnSnap) (hF : snapBin (h.set l c') l = F (snapBin h l)) :
    snapshot (h.set l c') x = { snapshot h x with bins := (snapshot h x).bins.modify i F } := by
  obtain ⟨nbs, _, nb⟩ := nodup_facts nd
  have hm : l ∈ x.binnings := List.mem_of_getElem? hl
  have p : Pres h (h.set l c') := pres_set hc st
  have ilt : i < x.binnings.length := (List.getElem?_eq_some_iff.mp hl).1
  apply Snap.ext' <;> simp only [snapshot]
  · apply List.ext_getElem?
    intro k
    rw [List.getElem?_modify, List.getElem?_map, List.getElem?_map]
    cases hk : x.binnings[k]? with
    | none => rfl
    | some b =>
      simp only [Option.map_some, Option.map_eq_map]
      by_cases e : i = k
      · subst e
        rw [hl] at hk; cases hk
        simp [hF]
      · have ne : b ≠ l := by
          intro e'; subst e'
          exact e ((List.getElem?_inj ilt nbs).mp (hl.trans hk.symm))
        simp only [e, if_false]
        rw [snapBin_congr p (set_frame ne) (w.bins b (List.mem_of_getElem? hk))]
  · exact getArr_congr (set_frame (Ne.symm (nb l hm).1))
  · exact getArr_congr (set_frame (Ne.symm (nb l hm).2.1))
  · exact getArr_congr (set_frame (Ne.symm (nb l hm).2.2.1))
  · exact getDict_congr (set_frame (Ne.symm (nb l hm).2.2.2))
  · exact stats_field_congr p w

theorem modify_id_at {α} (l : List α) (i : Nat) (F : α → α) (h : ∀ a, l[i]? = some a → F a = a) :
    l.modify i F = l := by
  apply List.ext_getElem?
  intro k
  rw [List.getElem?_modify]
  cases hk : l[k]? with
  | none => rfl
  | some a =>
    by_cases e : i = k
    · subst e; simp [h a hk]
    · simp [e]

/-- the `i`-th binning reference re-pointed to a newly allocated binning `n` -/
theorem snapshot_rebind_bin {h h' : Heap} {x : HObj} (w : WT h x) (ag : Agree h h') {i : Nat} {l : Loc}
    (hl : x.binnings[i]? = some l) (n : Loc) (F : Option BnSnap → Option BnSnap)
    (hF : snapBin h' n = F (snapBin h l)) :
    snapshot h' { x with binnings := x.binnings.set i n } =
      { snapshot h x with bins := (snapshot h x).bins.modify i F } := by
  have e0 := snapshot_agree ag w
  have ilt : i < x.binnings.length := (List.getElem?_eq_some_iff.mp hl).1
  apply Snap.ext'
  · simp only [snapshot]
    apply List.ext_getElem?
    intro k
    rw [List.getElem?_modify, List.getElem?_map, List.getElem?_map, List.getElem?_set]
    by_cases e : i = k
    · subst e
      have hl' : x.binnings[i] = l := (List.getElem?_eq_some_iff.mp hl).2
      simp [ilt, hl', hF]
    · simp only [e, if_false]
      cases hk : x.binnings[k]? with
      | none => rfl
      | some b =>
        simp only [Option.map_some, Option.map_eq_map]
        rw [snapBin_congr ag.pres (ag.2 b (binOk_lt (w.bins b (List.mem_of_getElem? hk))))
          (w.bins b (List.mem_of_getElem? hk))]
  · have := congrArg Snap.freq e0; exact this
  · have := congrArg Snap.err2 e0; exact this
  · have := congrArg Snap.missed e0; exact this
  · have := congrArg Snap.md e0; exact this
  · have := congrArg Snap.stats e0; exact this
  · rfl
  · rfl

theorem growF_id {h : Heap} {l : Loc} (t : Int) (n : Nat)
    (no : ∀ w s t' n' ire, h[l]? = some (.binning (.grid w s t' n' true ire)) → False) :
    growF t n (snapBin h l) = snapBin h l := by
  unfold snapBin
  cases hc : h[l]? with
  | none => rfl
  | some c =>
    cases c with
    | binning bd =>
      cases bd with
      | arr np buf lo len ire => simp only [snapData]; cases window h buf lo len <;> rfl
      | grid w s t' n' ad ire =>
        cases ad with
        | true => exact (no w s t' n' ire hc).elim
        | false => rfl
    | _ => rfl

theorem adaptF_id {h : Heap} {l : Loc} (v : Bool)
    (no : ∀ w s t' n' ad ire, h[l]? = some (.binning (.grid w s t' n' ad ire)) → False) :
    adaptF v (snapBin h l) = snapBin h l := by
  unfold snapBin
  cases hc : h[l]? with
  | none => rfl
  | some c =>
    cases c with
    | binning bd =>
      cases bd with
      | arr np buf lo len ire => simp only [snapData]; cases window h buf lo len <;> rfl
      | grid w s t' n' ad ire => exact (no w s t' n' ad ire hc).elim
    | _ => rfl

theorem regridF_id {h : Heap} {l : Loc} (t : Int) (n : Nat)
    (no : ∀ w s t' n' ad ire, h[l]? = some (.binning (.grid w s t' n' ad ire)) → False) :
    regridF t n (snapBin h l) = snapBin h l := by
  unfold snapBin
  cases hc : h[l]? with
  | none => rfl
  | some c =>
    cases c with
    | binning bd =>
      cases bd with
      | arr np buf lo len ire => simp only [snapData]; cases window h buf lo len <;> rfl
      | grid w s t' n' ad ire => exact (no w s t' n' ad ire hc).elim
    | _ => rfl

theorem bins_modify_noop {h : Heap} {x : HObj} {i : Nat} (F : Option BnSnap → Option BnSnap)
    (hF : ∀ l, x.binnings[i]? = some l → F (snapBin h l) = snapBin h l) :
    ({ snapshot h x with bins := (snapshot h x).bins.modify i F } : Snap) = snapshot h x := by
  apply Snap.ext' <;> try rfl
  apply modify_id_at
  intro a ha
  simp only [snapshot, List.getElem?_map] at ha
  cases hl : x.binnings[i]? with
  | none => simp [hl] at ha
  | some l =>
    simp only [hl, Option.map_some, Option.some.injEq] at ha
    subst ha; exact hF l hl

theorem snapBin_new_static (h : Heap) (bins : List (Rat × Rat)) (ire : Bool) :
    snapBin (h ++ [.buf bins, .binning (.arr false h.length 0 bins.length ire)]) (h.length + 1) =
      some (.arr false bins ire) := by
  simp [snapBin, snapData, window]

theorem snapBin_set_grid {h : Heap} {l : Loc} (lt : l < h.length) (w s : Rat) (t : Int) (n : Nat) (a ire : Bool) :
    snapBin (h.set l (.binning (.grid w s t n a ire))) l = some (.grid w s t n a ire) := by
  simp [snapBin, lt, snapData]

theorem snapBin_grid {h : Heap} {l : Loc} {w s : Rat} {t : Int} {n : Nat} {a ire : Bool}
    (hc : h[l]? = some (.binning (.grid w s t n a ire))) : snapBin h l = some (.grid w s t n a ire) := by
  simp [snapBin, hc, snapData]

theorem prim_snap {h : Heap} {x : HObj} (w : WT h x) (nd : x.refs.Nodup) (p : Prim) :
    snapshot (runPrim h x p).1 (runPrim h x p).2 = primSnap (snapshot h x) p := by
  cases p with
  | writeArr a v => exact snapshot_set_arr w nd a v
  | newArr a v =>
    simp only [runPrim, primSnap]
    rw [snapshot_setArrLoc, getArr_new, snapshot_agree (Ext.append h _).agree w]
  | realloc a =>
    simp only [runPrim, primSnap]
    rw [snapshot_setArrLoc, getArr_new, snapshot_agree (Ext.append h _).agree w]
    obtain ⟨v, hv⟩ := arr_cell (w.arrLoc a)
    have hg : getArr h (x.arrLoc a) = some v := by simp [getArr, hv]
    rw [hg]
    cases a <;> (apply Snap.ext' <;> simp_all [snapshot, Snap.setArr, HObj.arrLoc])
  | growBin i t n =>
    simp only [runPrim, primSnap]
    split
    · rename_i l hl
      split
      · rename_i w' s' t' n' ire hc
        refine snapshot_set_bin w nd hl hc ⟨t, n, true, rfl⟩ _ ?_
        rw [snapBin_set_grid (List.getElem?_eq_some_iff.mp hc).1, snapBin_grid hc]; rfl
      · rename_i no
        exact (bins_modify_noop _ (fun l' hl' => by
          rw [hl] at hl'; cases hl'; exact growF_id t n (fun a b c d e hc => no a b c d e hc))).symm
    · rename_i hl
      exact (bins_modify_noop _ (fun l' hl' => by rw [hl] at hl'; cases hl')).symm
  | setAdaptive i v =>
    simp only [runPrim, primSnap]
    split
    · rename_i l hl
      split
      · rename_i w' s' t' n' ad ire hc
        refine snapshot_set_bin w nd hl hc ⟨t', n', v, rfl⟩ _ ?_
        rw [snapBin_set_grid (List.getElem?_eq_some_iff.mp hc).1, snapBin_grid hc]; rfl
      · rename_i no
        exact (bins_modify_noop _ (fun l' hl' => by
          rw [hl] at hl'; cases hl'; exact adaptF_id v (fun a b c d e f hc => no a b c d e f hc))).symm
    · rename_i hl
      exact (bins_modify_noop _ (fun l' hl' => by rw [hl] at hl'; cases hl')).symm
  | newGrid i t n =>
    simp only [runPrim, primSnap]
    split
    · rename_i l hl
      split
      · rename_i w' s' t' n' ad ire hc
        refine snapshot_rebind_bin w (Ext.append h _).agree hl _ _ ?_
        simp [snapBin, hc, snapData, regridF]
      · rename_i no
        exact (bins_modify_noop _ (fun l' hl' => by
          rw [hl] at hl'; cases hl'; exact regridF_id t n (fun a b c d e f hc => no a b c d e f hc))).symm
    · rename_i hl
      exact (bins_modify_noop _ (fun l' hl' => by rw [hl] at hl'; cases hl')).symm
  | newStatic i bins ire =>
    simp only [runPrim, primSnap]
    split
    · rename_i ilt
      have hl : x.binnings[i]? = some x.binnings[i] := List.getElem?_eq_getElem ilt
      exact snapshot_rebind_bin w (Ext.append h _).agree hl _ _ (snapBin_new_static h bins ire)
    · rename_i nlt
      apply Snap.ext' <;> try rfl
      symm; apply modify_id_at
      intro a ha
      rw [List.getElem?_eq_none (by simp [snapshot]; omega)] at ha; cases ha
  | reverseBins => simp [runPrim, primSnap, snapshot, List.map_reverse]
  | writeMeta d => exact snapshot_set_dict w nd d
  | newMeta d =>
    simp only [runPrim, primSnap]
    have e0 := snapshot_agree (Ext.append h [Cell.dict d]).agree w
    apply Snap.ext'
    · have := congrArg Snap.bins e0; exact this
    · have := congrArg Snap.freq e0; exact this
    · have := congrArg Snap.err2 e0; exact this
    · have := congrArg Snap.missed e0; exact this
    · simp [snapshot, getDict]
    · have := congrArg Snap.stats e0; exact this
    · rfl
    · rfl
  | setStats st =>
    simp only [runPrim, primSnap]
    cases hs : x.stats with
    | none => simp [snapshot, hs]
    | some sl =>
      cases st with
      | invalid =>
        simp only [snapshot, hs, Option.map_some]
        apply Snap.ext' <;> try rfl
        simp [getStats, w.inv0]
      | vals v =>
        simp only [snapshot, hs, Option.map_some]
        have e0 := snapshot_agree (Ext.append h [Cell.stats (.vals v)]).agree w
        apply Snap.ext'
        · have := congrArg Snap.bins e0; exact this
        · have := congrArg Snap.freq e0; exact this
        · have := congrArg Snap.err2 e0; exact this
        · have := congrArg Snap.missed e0; exact this
        · have := congrArg Snap.md e0; exact this
        · simp [getStats]
        · rfl
        · rfl
  | setDtype dt => rfl

theorem prims_snap {h : Heap} {x : HObj} (w : WT h x) (nd : x.refs.Nodup) (ps : List Prim) :
    snapshot (runPrims h x ps).1 (runPrims h x ps).2 = primsSnap (snapshot h x) ps := by
  induction ps generalizing h x with
  | nil => rfl
  | cons p ps ih =>
    simp only [runPrims, primsSnap]
    have e := prim_eff w p
    rw [ih e.wt (e.nodup nd), prim_snap w nd p]

/-- **in-place operations commute with the snapshot**: what `x` reports after the operation is a
    function of what it reported before -/
theorem mutate_snap {h : Heap} {x : HObj} (w : WT h x) (nd : x.refs.Nodup) (m : Mut) :
    snapshot (mutate h x m).1 (mutate h x m).2 = mutateSnap (snapshot h x) m := by
  unfold mutate mutateSnap
  rw [prims_snap w nd]
  simp [snapshot]

/-! ## refinement: derivations act on the snapshot as the value-level function `deriveSnap` -/

theorem window_append_old {h : Heap} {b : Nat} (lt : b < h.length) (ext : List Cell) (lo len : Nat) :
    window (h ++ ext) b lo len = window h b lo len := by
  simp [window, List.getElem?_append, lt]

theorem binOk_arr {h : Heap} {l : Loc} {np : Bool} {buf lo len : Nat} {ire : Bool}
    (hc : h[l]? = some (.binning (.arr np buf lo len ire))) (ok : binOk h l = true) :
    ∃ e, h[buf]? = some (.buf e) := by
  unfold binOk at ok
  rw [hc] at ok
  simp only [beq_iff_eq] at ok
  obtain ⟨c, hc', k⟩ := kindAt_cell ok
  cases c <;> simp [Cell.kind] at k
  exact ⟨_, hc'⟩

theorem snapBin_arr {h : Heap} {l : Loc} {np : Bool} {buf lo len : Nat} {ire : Bool}
    (hc : h[l]? = some (.binning (.arr np buf lo len ire))) :
    snapBin h l = (window h buf lo len).map (BnSnap.arr np · ire) := by
  simp [snapBin, hc, snapData]

theorem snapBin_new_view {h : Heap} {buf : Nat} (blt : buf < h.length) (np : Bool) (lo len : Nat) (ire : Bool) :
    snapBin (h ++ [.binning (.arr np buf lo len ire)]) h.length = (window h buf lo len).map (BnSnap.arr np · ire) := by
  simp [snapBin, snapData, window_append_old blt]

theorem slice_window {α} (E : List α) (lo len a n : Nat) :
    (((E.drop lo).take len).drop a).take n = (E.drop (lo + a)).take (min n (len - a)) := by
  rw [List.drop_take, List.drop_drop, List.take_take]

theorem copyBin_snap {h : Heap} {l : Loc} (ok : binOk h l = true) :
    snapBin (copyBin h l).1 (copyBin h l).2 = snapBin h l := by
  unfold copyBin
  split
  · rename_i buf lo len ire hc
    obtain ⟨E, he⟩ := binOk_arr hc ok
    have hw : window h buf lo len = some ((E.drop lo).take len) := by simp [window, he]
    rw [snapBin_arr hc]
    simp only [hw]
    rw [snapBin_new_static]; rfl
  · rename_i buf lo len ire hc
    obtain ⟨E, he⟩ := binOk_arr hc ok
    have blt := (List.getElem?_eq_some_iff.mp he).1
    have hw : window h buf lo len = some ((E.drop lo).take len) := by simp [window, he]
    rw [snapBin_arr hc]
    simp only [hw]
    rw [snapBin_new_view blt, hw]
  · rename_i w s t n a ire hc
    simp [snapBin, hc, snapData]
  · rename_i no1 no2 no3
    unfold binOk at ok
    split at ok
    · rename_i np buf lo len ire hc
      cases np
      · exact (no1 _ _ _ _ hc).elim
      · exact (no2 _ _ _ _ hc).elim
    · rename_i hc; exact (no3 _ _ _ _ _ _ hc).elim
    · cases ok

theorem parseBin_snap {h : Heap} {l : Loc} (ok : binOk h l = true) :
    snapBin (parseBin h l).1 (parseBin h l).2 = snapBin h l := by
  unfold parseBin
  split
  · rename_i np buf lo len ire hc
    obtain ⟨E, he⟩ := binOk_arr hc ok
    have hw : window h buf lo len = some ((E.drop lo).take len) := by simp [window, he]
    rw [snapBin_arr hc]
    generalize (E.drop lo).take len = e' at hw
    simp only [hw]
    simp [snapBin, snapData, window]
  · rename_i w s t n a ire hc
    simp [snapBin, hc, snapData]
  · rename_i no1 no2
    unfold binOk at ok
    split at ok
    · rename_i hc; exact (no1 _ _ _ _ _ hc).elim
    · rename_i hc; exact (no2 _ _ _ _ _ _ hc).elim
    · cases ok

theorem selBin_snap {h : Heap} {l : Loc} (sel : Sel) (ok : binOk h l = true) :
    snapBin (selBin h l sel).1 (selBin h l sel).2 = selF sel (snapBin h l) := by
  unfold selBin
  split
  · rename_i np buf lo len ire hc
    obtain ⟨E, he⟩ := binOk_arr hc ok
    have blt := (List.getElem?_eq_some_iff.mp he).1
    have hw : window h buf lo len = some ((E.drop lo).take len) := by simp [window, he]
    rw [snapBin_arr hc]
    simp only [hw]
    split
    · rename_i a n
      rw [snapBin_new_view blt]
      simp [window, he, selF, Sel.apply, BnSnap.bins, BnSnap.ire, slice_window]
    · rw [snapBin_new_static]
      simp [selF, BnSnap.bins, BnSnap.ire]
  · rename_i w s t n a ire hc
    rw [snapBin_new_static, snapBin_grid hc]
    simp [selF, BnSnap.bins, BnSnap.ire]
  · rename_i no1 no2
    unfold binOk at ok
    split at ok
    · rename_i hc; exact (no1 _ _ _ _ _ hc).elim
    · rename_i hc; exact (no2 _ _ _ _ _ _ hc).elim
    · cases ok

theorem mapAlloc_snap {g : Heap → Loc → Heap × Loc} (ba : BAlloc g) (F : Option BnSnap → Option BnSnap)
    (hF : ∀ h l, binOk h l = true → snapBin (g h l).1 (g h l).2 = F (snapBin h l))
    (h : Heap) (ls : List Loc) (ok : ∀ l ∈ ls, binOk h l = true) :
    (mapAlloc g h ls).2.map (snapBin (mapAlloc g h ls).1) = ls.map (fun l => F (snapBin h l)) := by
  induction ls generalizing h with
  | nil => rfl
  | cons l ls ih =>
    have e0 := (ba.ext h l).agree
    obtain ⟨ex, _, _, _⟩ := mapAlloc_spec ba (g h l).1 ls
    simp only [mapAlloc, List.map_cons]
    congr 1
    · rw [snapBin_congr ex.agree.pres (ex.agree.2 _ (binOk_lt (ba.ok h l))) (ba.ok h l)]
      exact hF h l (ok l (List.mem_cons_self ..))
    · rw [ih (g h l).1 (fun l' hl' => e0.pres.bin_ok (ok l' (List.mem_cons_of_mem _ hl')))]
      apply List.map_congr_left
      intro l' hl'
      have ok' := ok l' (List.mem_cons_of_mem _ hl')
      rw [snapBin_congr e0.pres (e0.2 _ (binOk_lt ok')) ok']

theorem mkObj_snap {h : Heap} (inv0 : h[0]? = some (.stats .invalid)) (bs : List Loc)
    (ok : ∀ l ∈ bs, binOk h l = true) (f e m : List Rat) (d : Dict) (st : StSpec) (dt : DTag) (keep : Bool) :
    snapshot (mkObj h bs f e m d st dt keep).1 (mkObj h bs f e m d st dt keep).2 =
      { bins := bs.map (snapBin h), freq := some f, err2 := some e, missed := some m, md := some d,
        stats := (match st with | .none => none | .invalid => some (some .invalid) | .fresh s => some (some s)),
        dtype := dt, keep := keep } := by
  have hlt : 0 < h.length := (List.getElem?_eq_some_iff.mp inv0).1
  have bins : ∀ ext : List Cell, bs.map (snapBin (h ++ ext)) = bs.map (snapBin h) := fun ext =>
    List.map_congr_left fun b hb =>
      snapBin_congr (Ext.append h ext).agree.pres ((Ext.append h ext).agree.2 b (binOk_lt (ok b hb))) (ok b hb)
  cases st with
  | none =>
    apply Snap.ext' <;> simp only [snapshot, mkObj]
    · exact bins _
    all_goals simp [getArr, getDict]
  | invalid =>
    have i0 : (h ++ [Cell.arr f, Cell.arr e, Cell.arr m, Cell.dict d])[0]? = some (.stats .invalid) :=
      (Ext.append h _).agree.get inv0
    apply Snap.ext' <;> simp only [snapshot, mkObj]
    all_goals first | exact bins _ | (simp only [Option.map_some, getStats, i0]; done) | simp [getArr, getDict]
  | fresh s =>
    apply Snap.ext' <;> simp only [snapshot, mkObj, List.append_assoc]
    · exact bins _
    all_goals simp [getArr, getDict, getStats]

theorem build_snap {g : Heap → Loc → Heap × Loc} (ba : BAlloc g) (F : Option BnSnap → Option BnSnap)
    (hF : ∀ h l, binOk h l = true → snapBin (g h l).1 (g h l).2 = F (snapBin h l))
    {h : Heap} (inv0 : h[0]? = some (.stats .invalid)) (ls : List Loc) (ok : ∀ l ∈ ls, binOk h l = true)
    (f e m : List Rat) (d : Dict) (st : StSpec) (dt : DTag) (keep : Bool) :
    snapshot (mkObj (mapAlloc g h ls).1 (mapAlloc g h ls).2 f e m d st dt keep).1
             (mkObj (mapAlloc g h ls).1 (mapAlloc g h ls).2 f e m d st dt keep).2 =
      { bins := ls.map (fun l => F (snapBin h l)), freq := some f, err2 := some e, missed := some m, md := some d,
        stats := (match st with | .none => none | .invalid => some (some .invalid) | .fresh s => some (some s)),
        dtype := dt, keep := keep } := by
  obtain ⟨ex, m', _, _⟩ := mapAlloc_spec ba h ls
  rw [mkObj_snap (ex.agree.get inv0) _ (fun l hl => (m' l hl).2), mapAlloc_snap ba F hF h ls ok]

theorem copyObj_snap {h : Heap} {x : HObj} (w : WT h x) (incl : Bool) :
    snapshot (copyObj h x incl).1 (copyObj h x incl).2 = copySnap (snapshot h x) incl := by
  obtain ⟨f, hf⟩ := arr_cell w.freq
  obtain ⟨e, he⟩ := arr_cell w.err2
  obtain ⟨m, hm⟩ := arr_cell w.missed
  obtain ⟨d, hd⟩ := dict_cell w.md
  unfold copyObj
  rw [build_snap copyBin_alloc id (fun h l ok => copyBin_snap ok) w.inv0 _ w.bins]
  cases hs : x.stats with
  | none =>
    cases incl <;> simp [copySnap, snapshot, getArr, getDict, hf, he, hm, hd, hs]
  | some sl =>
    obtain ⟨c, hc, k⟩ := kindAt_cell (w.stats sl hs)
    cases c <;> simp [Cell.kind] at k
    cases incl <;> simp [copySnap, snapshot, getArr, getDict, getStats, hf, he, hm, hd, hs, hc]

theorem viaCopy_snap {h : Heap} {x : HObj} (w : WT h x) (ps : List Prim) :
    snapshot (viaCopy h x ps).1 (viaCopy h x ps).2 = primsSnap (snapshot h x) ps := by
  have f := copyObj_fresh w true
  unfold viaCopy
  rw [prims_snap f.wt f.nodup, copyObj_snap w true]
  rfl

theorem snapshot_bins_length (h : Heap) (x : HObj) : (snapshot h x).bins.length = x.binnings.length := by
  simp [snapshot]

/-- **(d) Refinement.**  What the derived object reports is the value-level function `deriveSnap`
    of what the source reports (and of the derivation's parameters): nothing else on the heap matters. -/
theorem derive_snap {h : Heap} {x : HObj} (w : WT h x) (d : Deriv) :
    snapshot (derive h x d).1 (derive h x d).2 = deriveSnap (snapshot h x) d := by
  induction d generalizing h x with
  | copy incl => exact copyObj_snap w incl
  | add p md => simp only [derive, deriveSnap, snapshot_bins_length]; exact viaCopy_snap w _
  | scale p => simp only [derive, deriveSnap, snapshot_bins_length]; exact viaCopy_snap w _
  | mergeBins axes f e => simp only [derive, deriveSnap, snapshot_bins_length]; exact viaCopy_snap w _
  | accumulate f => exact viaCopy_snap w _
  | partialNormalize dt f e => simp only [derive, deriveSnap, snapshot_bins_length]; exact viaCopy_snap w _
  | transpose md f e => exact viaCopy_snap w _
  | selectSlice axis a n f e =>
    simp only [derive, deriveSnap, snapshot_bins_length]
    split
    · rename_i hl
      have : ¬ axis < x.binnings.length := fun lt => by
        rw [List.getElem?_eq_getElem lt] at hl; cases hl
      simp only [this, if_false]
      exact copyObj_snap w true
    · rename_i l hl
      have alt : axis < x.binnings.length := (List.getElem?_eq_some_iff.mp hl).1
      simp only [alt, if_true]
      have ba := selBin_alloc (.slice a n)
      have ex : Ext h (selBin h l (.slice a n)).1 := ba.ext h l
      have okl : binOk h l = true := w.bins l (List.mem_of_getElem? hl)
      have w1 : WT (selBin h l (.slice a n)).1 x := ex.agree.pres.wt w
      have fc := copyObj_fresh w1 true
      have f1 := fresh_setBin ex fc axis (selBin h l (.slice a n)).2 (ba.ge h l) (ba.ok h l)
      rw [prims_snap f1.wt f1.nodup]
      congr 1
      -- the copy reports what the source reports
      have cs : snapshot (copyObj (selBin h l (.slice a n)).1 x true).1 (copyObj (selBin h l (.slice a n)).1 x true).2
          = snapshot h x := by
        rw [copyObj_snap w1 true]; exact snapshot_agree ex.agree w
      have cb := congrArg Snap.bins cs
      simp only [snapshot] at cb
      have clen : (copyObj (selBin h l (.slice a n)).1 x true).2.binnings.length = x.binnings.length := by
        have := congrArg List.length cb; simpa using this
      have hl' : (copyObj (selBin h l (.slice a n)).1 x true).2.binnings[axis]? =
          some ((copyObj (selBin h l (.slice a n)).1 x true).2.binnings[axis]'(by omega)) :=
        List.getElem?_eq_getElem (by omega)
      rw [snapshot_rebind_bin fc.wt (Agree.refl _) hl' _ (selF (.slice a n)) ?_, cs]
      -- the new binning is the slice of the source's binning
      have h1 := congrArg (·[axis]?) cb
      simp only [List.getElem?_map, hl', hl, Option.map_some, Option.some.injEq] at h1
      rw [h1, ← selBin_snap (.slice a n) okl]
      exact snapBin_congr fc.agree.pres (fc.agree.2 _ (binOk_lt (ba.ok h l))) (ba.ok h l)
  | reduce axes f e md dt =>
    simp only [derive, deriveSnap]
    rw [build_snap copyBin_alloc id (fun h l ok => copyBin_snap ok) w.inv0 _
      (fun l hl => by
        obtain ⟨i, _, hi⟩ := List.mem_filterMap.mp hl
        exact w.bins l (List.mem_of_getElem? hi))]
    apply Snap.ext' <;> try rfl
    · simp only [id, snapshot, List.map_filterMap, List.getElem?_map]
    · by_cases hax : axes.length = 1 <;> simp [hax]
  | getitem1 sel f e m md keep =>
    simp only [derive, deriveSnap]
    rw [build_snap (selBin_alloc sel) (selF sel) (fun h l ok => selBin_snap sel ok) w.inv0 _ w.bins]
    apply Snap.ext' <;> try rfl
    simp [snapshot, List.map_map, Function.comp_def]
  | parse =>
    obtain ⟨f, hf⟩ := arr_cell w.freq
    obtain ⟨e, he⟩ := arr_cell w.err2
    obtain ⟨m, hm⟩ := arr_cell w.missed
    obtain ⟨d, hd⟩ := dict_cell w.md
    simp only [derive, deriveSnap]
    rw [build_snap parseBin_alloc id (fun h l ok => parseBin_snap ok) w.inv0 _ w.bins]
    cases hs : x.stats <;> simp [snapshot, getArr, getDict, hf, he, hm, hd, hs]
  | create n md dt p =>
    have f := build_fresh copyBin_alloc w.inv0 (x.binnings.take 1) (List.replicate n 0) (List.replicate n 0)
      [0, 0, 0] md (.fresh .empty) dt true
    simp only [derive, deriveSnap]
    rw [prims_snap f.wt f.nodup, build_snap copyBin_alloc id (fun h l ok => copyBin_snap ok) w.inv0 _
      (fun l hl => w.bins l (List.mem_of_mem_take hl))]
    congr 1
    simp [snapshot, List.map_take]
  | seq d₁ d₂ ih₁ ih₂ =>
    simp only [derive, deriveSnap]
    rw [ih₂ (derive_fresh w d₁).wt, ih₁ w]

end Hp
end Physt

import Physt.Model.Freq1D
import Mathlib.Algebra.Order.Ring.Rat
import Mathlib.Algebra.BigOperators.Group.List.Basic
import Mathlib.Tactic.Linarith
import Mathlib.Tactic.Ring
/-!
Helper lemmas: insertion sort is a sorted permutation; on a sorted list, `takeWhile` of a
downward-closed predicate is `filter`; a slice between two `searchsorted` positions is a filter.
-/
namespace Physt

def SortedV (s : List Pt) : Prop := s.Pairwise fun a b => a.1 ≤ b.1

theorem insertPt_perm (p : Pt) (l : List Pt) : (insertPt p l).Perm (p :: l) := by
  induction l with
  | nil => simp [insertPt]
  | cons q qs ih =>
    unfold insertPt
    split
    · exact List.Perm.refl _
    · exact (List.Perm.cons q ih).trans (List.Perm.swap p q qs)

theorem sortPts_perm (l : List Pt) : (sortPts l).Perm l := by
  induction l with
  | nil => simp [sortPts]
  | cons p ps ih =>
    unfold sortPts
    exact (insertPt_perm p _).trans (List.Perm.cons p ih)

theorem insertPt_sorted (p : Pt) (l : List Pt) (h : SortedV l) : SortedV (insertPt p l) := by
  induction l with
  | nil => simp [insertPt, SortedV]
  | cons q qs ih =>
    unfold insertPt
    unfold SortedV at h ⊢
    rw [List.pairwise_cons] at h
    split
    · rename_i hpq
      rw [List.pairwise_cons]
      refine ⟨?_, List.pairwise_cons.mpr h⟩
      intro b hb
      rcases List.mem_cons.mp hb with rfl | hb
      · exact hpq
      · exact le_trans hpq (h.1 b hb)
    · rename_i hpq
      rw [List.pairwise_cons]
      refine ⟨?_, ih h.2⟩
      intro b hb
      have hb' := (insertPt_perm p qs).subset hb
      rcases List.mem_cons.mp hb' with rfl | hb'
      · exact le_of_lt (not_le.mp hpq)
      · exact h.1 b hb'

theorem sortPts_sorted (l : List Pt) : SortedV (sortPts l) := by
  induction l with
  | nil => simp [sortPts, SortedV]
  | cons p ps ih => unfold sortPts; exact insertPt_sorted p _ ih

/-- A predicate on points that, once true for a point, is true for every point with a smaller
    value (`v < x`, `v ≤ x`). -/
def DownClosed (p : Pt → Bool) : Prop := ∀ a b : Pt, a.1 ≤ b.1 → p b = true → p a = true

theorem downClosed_lt (x : Rat) : DownClosed fun p => decide (p.1 < x) := by
  intro a b hab hb
  simp only [decide_eq_true_eq] at hb ⊢
  exact lt_of_le_of_lt hab hb

theorem downClosed_le (x : Rat) : DownClosed fun p => decide (p.1 ≤ x) := by
  intro a b hab hb
  simp only [decide_eq_true_eq] at hb ⊢
  exact le_trans hab hb

theorem takeWhile_drop_of_downClosed (p : Pt → Bool) (hp : DownClosed p) (s : List Pt)
    (hs : SortedV s) :
    s.takeWhile p = s.filter p ∧ s.drop (s.takeWhile p).length = s.filter fun x => !p x := by
  induction s with
  | nil => simp
  | cons a t ih =>
    unfold SortedV at hs
    rw [List.pairwise_cons] at hs
    have ih' := ih hs.2
    by_cases ha : p a = true
    · simp [List.takeWhile_cons, List.filter_cons, ha, ih'.1]
      have := ih'.2
      rw [ih'.1] at this
      exact this
    · have hall : ∀ b ∈ t, p b = false := by
        intro b hb
        by_contra hpb
        have hpb' : p b = true := by simpa using hpb
        exact ha (hp a b (hs.1 b hb) hpb')
      have ha' : p a = false := by simpa using ha
      have hf : t.filter p = [] := by
        rw [List.filter_eq_nil_iff]
        intro b hb; simp [hall b hb]
      have hf2 : (t.filter fun x => !p x) = t := by
        rw [List.filter_eq_self]
        intro b hb; simp [hall b hb]
      simp [List.takeWhile_cons, List.filter_cons, ha', hf, hf2]

theorem sortedV_filter (q : Pt → Bool) (s : List Pt) (hs : SortedV s) : SortedV (s.filter q) :=
  List.Pairwise.sublist List.filter_sublist hs

theorem filter_length_split (p1 p2 : Pt → Bool) (h12 : ∀ x, p1 x = true → p2 x = true)
    (s : List Pt) :
    (s.filter p2).length = (s.filter p1).length + (s.filter fun x => !p1 x && p2 x).length := by
  induction s with
  | nil => simp
  | cons a t ih =>
    by_cases h1 : p1 a = true
    · have h2 := h12 a h1
      simp [h1, h2, ih]; omega
    · have h1' : p1 a = false := by simpa using h1
      by_cases h2 : p2 a = true
      · simp [h1', h2, ih]; omega
      · have h2' : p2 a = false := by simpa using h2
        simp [h1', h2', ih]

/-- The slice of a sorted array between the `searchsorted` positions of two nested
    downward-closed predicates is the filter "not the first but the second". -/
theorem pySlice_eq_filter (p1 p2 : Pt → Bool) (hp1 : DownClosed p1) (hp2 : DownClosed p2)
    (h12 : ∀ x, p1 x = true → p2 x = true) (s : List Pt) (hs : SortedV s) :
    pySlice s (s.takeWhile p1).length (s.takeWhile p2).length
      = s.filter fun x => !p1 x && p2 x := by
  unfold pySlice
  have h1 := takeWhile_drop_of_downClosed p1 hp1 s hs
  have h2 := takeWhile_drop_of_downClosed p2 hp2 s hs
  rw [h1.2]
  set t := s.filter fun x => !p1 x with ht
  have hts : SortedV t := sortedV_filter _ s hs
  have h3 := takeWhile_drop_of_downClosed p2 hp2 t hts
  have hlen : (s.takeWhile p2).length - (s.takeWhile p1).length = (t.takeWhile p2).length := by
    rw [h1.1, h2.1, h3.1, ht, List.filter_filter]
    have := filter_length_split p1 p2 h12 s
    have hcomm : (s.filter fun x => p2 x && !p1 x) = s.filter fun x => !p1 x && p2 x := by
      congr 1; funext x; exact Bool.and_comm _ _
    rw [hcomm]; omega
  rw [hlen]
  have : t.take (t.takeWhile p2).length = t.takeWhile p2 := by
    have h := List.takeWhile_append_dropWhile (p := p2) (l := t)
    have h' : (t.takeWhile p2 ++ t.dropWhile p2).take (t.takeWhile p2).length
        = t.takeWhile p2 := List.take_left' rfl
    rw [h] at h'
    exact h'
  rw [this, h3.1, ht, List.filter_filter]
  congr 1; funext x; exact Bool.and_comm _ _

theorem take_length_takeWhile (p : Pt → Bool) (s : List Pt) :
    s.take (s.takeWhile p).length = s.takeWhile p := by
  have h := List.takeWhile_append_dropWhile (p := p) (l := s)
  have h' : (s.takeWhile p ++ s.dropWhile p).take (s.takeWhile p).length
      = s.takeWhile p := List.take_left' rfl
  rw [h] at h'
  exact h'

theorem wsum_perm {a b : List Pt} (h : a.Perm b) : wsum a = wsum b := by
  unfold wsum; exact (h.map _).sum_eq

theorem w2sum_perm {a b : List Pt} (h : a.Perm b) : w2sum a = w2sum b := by
  unfold w2sum; exact (h.map _).sum_eq

theorem wsum_filter_sort (q : Pt → Bool) (data : List Pt) :
    wsum ((sortPts data).filter q) = wsum (data.filter q) :=
  wsum_perm ((sortPts_perm data).filter q)

theorem w2sum_filter_sort (q : Pt → Bool) (data : List Pt) :
    w2sum ((sortPts data).filter q) = w2sum (data.filter q) :=
  w2sum_perm ((sortPts_perm data).filter q)

end Physt

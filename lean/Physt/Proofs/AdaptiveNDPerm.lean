import Physt.Proofs.AdaptiveND
/-!
# Adaptive histograms: the final state does not depend on the ORDER of the rows

`Proofs/AdaptiveHistory.lean` / `Proofs/AdaptiveND.lean` show that any accepted history of `fill` /
`fill_n` calls on an adaptive histogram ends in a state that holds the fixed-bin histogram of all
rows over the final bins, each adaptive axis having grown to the hull (`SpanHull`) of its old range
and the cells of its column.  `tracksA_chunking` compares histories that enter the same rows *in the
same order*.  Here the order is dropped:

* `SpanHull.congr_mem` / `SpanHull.perm` — the hull only depends on the SET of the values entered;
  `SpanHull.unique_of_mem` — so two hulls of the same grid for lists with the same members coincide;
* `NeedsCell`, `SpanHull.lo_least`, `SpanHull.hi_greatest`, `SpanHull.of_extremes`, `spanHull_iff` —
  the order-independent characterisation: the new range starts at the LEAST and ends at the GREATEST
  cell needed (a cell of the old range, or the cell of a value entered), and is untouched when no
  cell is needed; `SpanHull.eq_min_max` (`hullLo`, `hullEnd`) — the same as explicit folds of
  `min` / `max` over the cells of the values;
* `HullN.perm`, `AxesGrown.perm`, `axesGrown_unique` — per axis, in N dimensions;
* `TracksA.perm`, `TracksM.perm`, `GridTracks.perm` — the invariants do not see the order of the rows
  (`calcND_perm`, `C03_order`);
* `tracksA_order` (all axes adaptive), `tracksM_order` (any mix of adaptive and non-adaptive axes),
  `gridTracks_order` (one dimension) — **two accepted histories from the same start whose entered
  rows are permutations of one another end with the same axes, contents, squared errors and missed
  (1-D: underflow / overflow)**.
-/
namespace Physt
open Grid H1

/-! ## The hull depends on the set of values only -/

/-- `SpanHull` mentions the list of values through membership and emptiness only -/
theorem SpanHull.congr_mem {edge : Int → Rat} {g g' : Grid} {vs vs' : List Rat}
    (h : ∀ v, v ∈ vs ↔ v ∈ vs') (a : SpanHull edge g g' vs) : SpanHull edge g g' vs' := by
  have hnil : vs = [] ↔ vs' = [] := by
    rw [List.eq_nil_iff_forall_not_mem, List.eq_nil_iff_forall_not_mem]
    exact ⟨fun hh v hv => hh v ((h v).mpr hv), fun hh v hv => hh v ((h v).mp hv)⟩
  refine ⟨a.w, a.shift, a.keepLo, a.keepHi, fun v hv => a.covers v ((h v).mpr hv), ?_, ?_, ?_, ?_⟩
  · intro hp
    apply a.pos
    rcases hp with hp | hp
    · exact Or.inl hp
    · exact Or.inr (fun he => hp (hnil.mp he))
  · intro hp
    rcases a.loTight hp with hl | ⟨v, hv, hc⟩
    · exact Or.inl hl
    · exact Or.inr ⟨v, (h v).mp hv, hc⟩
  · intro hp
    rcases a.hiTight hp with hl | ⟨v, hv, hc⟩
    · exact Or.inl hl
    · exact Or.inr ⟨v, (h v).mp hv, hc⟩
  · intro he
    exact a.stay (hnil.mpr he)

/-- the hull of a grid and a list of values is the hull of the grid and any permutation of the list -/
theorem SpanHull.perm {edge : Int → Rat} {g g' : Grid} {vs vs' : List Rat} (hp : vs.Perm vs')
    (a : SpanHull edge g g' vs) : SpanHull edge g g' vs' :=
  a.congr_mem (fun _ => hp.mem_iff)

/-- two hulls of the same grid, for lists of values with the same members (in any order, with any
    multiplicities), are the same range -/
theorem SpanHull.unique_of_mem {edge : Int → Rat} (hm : ∀ a b : Int, a < b → edge a < edge b) {g g' g'' : Grid}
    {vs vs' : List Rat} (h : ∀ v, v ∈ vs ↔ v ∈ vs') (a : SpanHull edge g g' vs) (b : SpanHull edge g g'' vs') :
    g'.w = g''.w ∧ g'.shift = g''.shift ∧ g'.tmin = g''.tmin ∧ g'.count = g''.count :=
  (a.congr_mem h).unique hm b

/-! ## The order-independent characterisation of the hull: least and greatest cell needed -/

/-- a cell the new range has to contain: a cell of the old range, or the cell of a value entered -/
def NeedsCell (edge : Int → Rat) (g : Grid) (vs : List Rat) (k : Int) : Prop :=
  (g.tmin ≤ k ∧ k < g.tmin + g.count) ∨ ∃ v ∈ vs, CellOf edge v k

/-- the set of cells needed does not depend on the order (or multiplicity) of the values -/
theorem needsCell_congr {edge : Int → Rat} {g : Grid} {vs vs' : List Rat} (h : ∀ v, v ∈ vs ↔ v ∈ vs') (k : Int) :
    NeedsCell edge g vs k ↔ NeedsCell edge g vs' k := by
  unfold NeedsCell
  constructor
  · rintro (hl | ⟨v, hv, hc⟩)
    · exact Or.inl hl
    · exact Or.inr ⟨v, (h v).mp hv, hc⟩
  · rintro (hl | ⟨v, hv, hc⟩)
    · exact Or.inl hl
    · exact Or.inr ⟨v, (h v).mpr hv, hc⟩

/-- **The new range starts at the least cell needed.** -/
theorem SpanHull.lo_least {edge : Int → Rat} (hm : ∀ a b : Int, a < b → edge a < edge b) {g g' : Grid}
    {vs : List Rat} (sp : SpanHull edge g g' vs) (hp : 0 < g'.count) :
    NeedsCell edge g vs g'.tmin ∧ ∀ k, NeedsCell edge g vs k → g'.tmin ≤ k := by
  constructor
  · rcases sp.loTight hp with ⟨h0, he⟩ | ⟨v, hv, hc⟩
    · exact Or.inl ⟨by omega, by omega⟩
    · exact Or.inr ⟨v, hv, hc⟩
  · rintro k (⟨h1, h2⟩ | ⟨v, hv, hc⟩)
    · have := sp.keepLo (by omega); omega
    · obtain ⟨k', hk', h1, _⟩ := sp.covers v hv
      have := cell_unique hm hc hk'
      omega

/-- **The new range ends at the greatest cell needed.** -/
theorem SpanHull.hi_greatest {edge : Int → Rat} (hm : ∀ a b : Int, a < b → edge a < edge b) {g g' : Grid}
    {vs : List Rat} (sp : SpanHull edge g g' vs) (hp : 0 < g'.count) :
    NeedsCell edge g vs (g'.tmin + g'.count - 1) ∧ ∀ k, NeedsCell edge g vs k → k ≤ g'.tmin + g'.count - 1 := by
  constructor
  · rcases sp.hiTight hp with ⟨h0, he⟩ | ⟨v, hv, hc⟩
    · exact Or.inl ⟨by omega, by omega⟩
    · exact Or.inr ⟨v, hv, hc⟩
  · rintro k (⟨h1, h2⟩ | ⟨v, hv, hc⟩)
    · have := sp.keepHi (by omega); omega
    · obtain ⟨k', hk', _, h2⟩ := sp.covers v hv
      have := cell_unique hm hc hk'
      omega

/-- conversely: a range with the same width and origin that is untouched when no cell is needed, and
    otherwise starts at the least and ends at the greatest cell needed, is the hull -/
theorem SpanHull.of_extremes {edge : Int → Rat} {g g' : Grid} {vs : List Rat}
    (hw : g'.w = g.w) (hs : g'.shift = g.shift) (hcells : ∀ v ∈ vs, ∃ k : Int, CellOf edge v k)
    (hnone : g.count = 0 → vs = [] → g'.tmin = g.tmin ∧ g'.count = g.count)
    (hsome : 0 < g.count ∨ vs ≠ [] → 0 < g'.count ∧ NeedsCell edge g vs g'.tmin ∧
      NeedsCell edge g vs (g'.tmin + g'.count - 1) ∧
      ∀ k, NeedsCell edge g vs k → g'.tmin ≤ k ∧ k ≤ g'.tmin + g'.count - 1) :
    SpanHull edge g g' vs := by
  have klo : 0 < g.count → g'.tmin ≤ g.tmin := fun hp =>
    ((hsome (Or.inl hp)).2.2.2 g.tmin (Or.inl ⟨by omega, by omega⟩)).1
  have khi : 0 < g.count → g.tmin + g.count ≤ g'.tmin + g'.count := fun hp => by
    have := ((hsome (Or.inl hp)).2.2.2 (g.tmin + g.count - 1) (Or.inl ⟨by omega, by omega⟩)).2
    omega
  have hcase : 0 < g'.count → 0 < g.count ∨ vs ≠ [] := by
    intro hp
    by_contra hne
    have h0 : g.count = 0 := by
      by_contra h0; exact hne (Or.inl (Nat.pos_of_ne_zero h0))
    have hv : vs = [] := by
      by_contra hv; exact hne (Or.inr hv)
    have := hnone h0 hv
    omega
  refine ⟨hw, hs, klo, khi, ?_, fun hp => (hsome hp).1, ?_, ?_, ?_⟩
  · intro v hv
    obtain ⟨k, hk⟩ := hcells v hv
    have := (hsome (Or.inr (List.ne_nil_of_mem hv))).2.2.2 k (Or.inr ⟨v, hv, hk⟩)
    exact ⟨k, hk, by omega, by omega⟩
  · intro hp
    rcases (hsome (hcase hp)).2.1 with ⟨h1, h2⟩ | hr
    · have := klo (by omega)
      exact Or.inl ⟨by omega, by omega⟩
    · exact Or.inr hr
  · intro hp
    rcases (hsome (hcase hp)).2.2.1 with ⟨h1, h2⟩ | hr
    · have := khi (by omega)
      exact Or.inl ⟨by omega, by omega⟩
    · exact Or.inr hr
  · intro hv
    by_cases h0 : g.count = 0
    · exact hnone h0 hv
    · have hp : 0 < g.count := Nat.pos_of_ne_zero h0
      obtain ⟨_, n1, n2, _⟩ := hsome (Or.inl hp)
      have := klo hp
      have := khi hp
      subst hv
      rcases n1 with ⟨a1, a2⟩ | ⟨v, hv, _⟩
      · rcases n2 with ⟨b1, b2⟩ | ⟨v, hv, _⟩
        · omega
        · cases hv
      · cases hv

/-- **The hull, characterised without reference to any order**: same width and origin; every value has
    a cell; nothing needed — nothing changes; otherwise the range is non-empty, starts at the least
    and ends at the greatest cell needed. -/
theorem spanHull_iff {edge : Int → Rat} (hm : ∀ a b : Int, a < b → edge a < edge b) (g g' : Grid) (vs : List Rat) :
    SpanHull edge g g' vs ↔
      g'.w = g.w ∧ g'.shift = g.shift ∧ (∀ v ∈ vs, ∃ k : Int, CellOf edge v k) ∧
      (g.count = 0 → vs = [] → g'.tmin = g.tmin ∧ g'.count = g.count) ∧
      (0 < g.count ∨ vs ≠ [] → 0 < g'.count ∧ NeedsCell edge g vs g'.tmin ∧
        NeedsCell edge g vs (g'.tmin + g'.count - 1) ∧
        ∀ k, NeedsCell edge g vs k → g'.tmin ≤ k ∧ k ≤ g'.tmin + g'.count - 1) := by
  constructor
  · intro sp
    refine ⟨sp.w, sp.shift, fun v hv => ?_, fun _ hv => sp.stay hv, fun hc => ?_⟩
    · obtain ⟨k, hk, _⟩ := sp.covers v hv
      exact ⟨k, hk⟩
    · have hp := sp.pos hc
      obtain ⟨l1, l2⟩ := sp.lo_least hm hp
      obtain ⟨u1, u2⟩ := sp.hi_greatest hm hp
      exact ⟨hp, l1, u1, fun k hk => ⟨l2 k hk, u2 k hk⟩⟩
  · rintro ⟨hw, hs, hc, hn, hsm⟩
    exact SpanHull.of_extremes hw hs hc hn hsm

/-! ## … and as explicit folds of `min` / `max` over the cells of the values -/

theorem foldl_min_int (l : List Int) (a : Int) :
    (l.foldl min a ≤ a ∧ ∀ x ∈ l, l.foldl min a ≤ x) ∧ (l.foldl min a = a ∨ l.foldl min a ∈ l) := by
  induction l generalizing a with
  | nil => simp
  | cons x xs ih =>
    obtain ⟨⟨h1, h2⟩, h3⟩ := ih (min a x)
    simp only [List.foldl_cons, List.mem_cons]
    refine ⟨⟨by omega, ?_⟩, ?_⟩
    · rintro y (rfl | hy)
      · omega
      · exact h2 y hy
    · rcases h3 with h3 | h3
      · omega
      · exact Or.inr (Or.inr h3)

theorem foldl_max_int (l : List Int) (a : Int) :
    (a ≤ l.foldl max a ∧ ∀ x ∈ l, x ≤ l.foldl max a) ∧ (l.foldl max a = a ∨ l.foldl max a ∈ l) := by
  induction l generalizing a with
  | nil => simp
  | cons x xs ih =>
    obtain ⟨⟨h1, h2⟩, h3⟩ := ih (max a x)
    simp only [List.foldl_cons, List.mem_cons]
    refine ⟨⟨by omega, ?_⟩, ?_⟩
    · rintro y (rfl | hy)
      · omega
      · exact h2 y hy
    · rcases h3 with h3 | h3
      · omega
      · exact Or.inr (Or.inr h3)

/-- the first cell of the hull of the grid `g` and values with the cells `ks`: the minimum of the old
    first cell (if the grid has cells) and `ks` -/
def hullLo (g : Grid) (ks : List Int) : Int :=
  if 0 < g.count then ks.foldl min g.tmin
  else match ks with
    | [] => g.tmin
    | k :: ks => ks.foldl min k

/-- one past the last cell of the hull: the maximum of the old end (if the grid has cells) and `k + 1`
    over `ks` -/
def hullEnd (g : Grid) (ks : List Int) : Int :=
  if 0 < g.count then ks.foldl max (g.tmin + g.count - 1) + 1
  else match ks with
    | [] => g.tmin + g.count
    | k :: ks => ks.foldl max k + 1

/-- **`tmin' = min (old tmin, cells needed)`, `tmin' + count' = max (old end, cells needed + 1)`**, for
    any function `c` that gives the cell of every value entered. -/
theorem SpanHull.eq_min_max {edge : Int → Rat} (hm : ∀ a b : Int, a < b → edge a < edge b) {g g' : Grid}
    {vs : List Rat} (sp : SpanHull edge g g' vs) (c : Rat → Int) (hc : ∀ v ∈ vs, CellOf edge v (c v)) :
    g'.tmin = hullLo g (vs.map c) ∧ g'.tmin + g'.count = hullEnd g (vs.map c) := by
  have key : ∀ (a b : Int) (l : List Rat), a ≤ b → NeedsCell edge g vs a → NeedsCell edge g vs b →
      (∀ k, NeedsCell edge g vs k → k = a ∨ k = b ∨ k ∈ l.map c ∨ (a ≤ k ∧ k ≤ b)) → (∀ v ∈ l, v ∈ vs) →
      0 < g'.count →
      g'.tmin = (l.map c).foldl min a ∧ g'.tmin + g'.count = (l.map c).foldl max b + 1 := by
    intro a b l hab na nb hall hl hp
    obtain ⟨l1, l2⟩ := sp.lo_least hm hp
    obtain ⟨u1, u2⟩ := sp.hi_greatest hm hp
    obtain ⟨⟨m1, m2⟩, m3⟩ := foldl_min_int (l.map c) a
    obtain ⟨⟨x1, x2⟩, x3⟩ := foldl_max_int (l.map c) b
    have inl : ∀ k ∈ l.map c, NeedsCell edge g vs k := by
      intro k hk
      obtain ⟨v, hv, rfl⟩ := List.mem_map.mp hk
      exact Or.inr ⟨v, hl v hv, hc v (hl v hv)⟩
    have hmin : NeedsCell edge g vs ((l.map c).foldl min a) := by
      rcases m3 with h | h
      · rw [h]; exact na
      · exact inl _ h
    have hmax : NeedsCell edge g vs ((l.map c).foldl max b) := by
      rcases x3 with h | h
      · rw [h]; exact nb
      · exact inl _ h
    have lo1 := l2 _ hmin
    have hi1 := u2 _ hmax
    have lo2 : (l.map c).foldl min a ≤ g'.tmin := by
      rcases hall _ l1 with h | h | h | h
      · omega
      · have := l2 a na; omega
      · exact m2 _ h
      · omega
    have hi2 : g'.tmin + g'.count - 1 ≤ (l.map c).foldl max b := by
      rcases hall _ u1 with h | h | h | h
      · have := u2 b nb; omega
      · omega
      · exact x2 _ h
      · omega
    constructor <;> omega
  by_cases h0 : 0 < g.count
  · have hp := sp.pos (Or.inl h0)
    simp only [hullLo, hullEnd, h0, if_true]
    refine key g.tmin (g.tmin + g.count - 1) vs (by omega) (Or.inl ⟨by omega, by omega⟩) (Or.inl ⟨by omega, by omega⟩) ?_
      (fun v hv => hv) hp
    rintro k (⟨h1, h2⟩ | ⟨v, hv, hk⟩)
    · exact Or.inr (Or.inr (Or.inr ⟨h1, by omega⟩))
    · have := cell_unique hm hk (hc v hv)
      exact Or.inr (Or.inr (Or.inl (List.mem_map.mpr ⟨v, hv, this.symm⟩)))
  · simp only [hullLo, hullEnd, h0, if_false]
    cases vs with
    | nil =>
      have := sp.stay rfl
      simp only [List.map_nil]
      omega
    | cons v rest =>
      have hp := sp.pos (Or.inr (List.cons_ne_nil _ _))
      have nv : NeedsCell edge g (v :: rest) (c v) := Or.inr ⟨v, List.mem_cons_self .., hc v (List.mem_cons_self ..)⟩
      simp only [List.map_cons]
      refine key (c v) (c v) rest (le_refl _) nv nv ?_ (fun x hx => List.mem_cons_of_mem _ hx) hp
      rintro k (⟨h1, h2⟩ | ⟨x, hx, hk⟩)
      · omega
      · have := cell_unique hm hk (hc x hx)
        rcases List.mem_cons.mp hx with rfl | hx
        · exact Or.inl this
        · exact Or.inr (Or.inr (Or.inl (List.mem_map.mpr ⟨x, hx, this.symm⟩)))

/-! ## Columns of permuted rows -/

theorem col_perm (i : Nat) {rows rows' : List (List Rat)} (hp : rows.Perm rows') :
    (col i rows).Perm (col i rows') :=
  hp.filterMap _

theorem HullN.perm {fo : FloatOps} {grids grids' : List Grid} {e e' : List (List Rat)} (hp : e.Perm e')
    (u : HullN fo grids grids' e) : HullN fo grids grids' e' :=
  ⟨u.len, fun i g g' hg hg' => (u.each i g g' hg hg').perm (col_perm i hp)⟩

theorem AxisGrown.perm {fo : FloatOps} {b b' : Binning} {vs vs' : List Rat} (hp : vs.Perm vs')
    (a : AxisGrown fo b b' vs) : AxisGrown fo b b' vs' := by
  refine ⟨a.1, fun g hg hga => ?_⟩
  obtain ⟨g', e, h1, h2, h3, sp⟩ := a.2 g hg hga
  exact ⟨g', e, h1, h2, h3, sp.perm hp⟩

theorem AxesGrown.perm {fo : FloatOps} {axes axes' : List Binning} {e e' : List (List Rat)} (hp : e.Perm e')
    (a : AxesGrown fo axes axes' e) : AxesGrown fo axes axes' e' := by
  refine ⟨a.len, fun i b hb => ?_⟩
  obtain ⟨b', hb', gr⟩ := a.each i b hb
  exact ⟨b', hb', gr.perm (col_perm i hp)⟩

/-! ## The invariants do not see the order of the rows -/

theorem TracksA.perm {fo : FloatOps} {h : HN} {grids : List Grid} {rows rows' : List Row}
    (t : TracksA fo h grids rows) (hp : rows.Perm rows') : TracksA fo h grids rows' := by
  have e := calcND_perm (h.axesBins fo) rows rows' hp
  exact ⟨t.hax, t.flags, by rw [← e]; exact t.freq, by rw [← e]; exact t.err2, t.missed,
    fun r hr => t.inside r (hp.mem_iff.mpr hr)⟩

theorem TracksM.perm {fo : FloatOps} {h : HN} {axes : List Binning} {rows rows' : List Row}
    (t : TracksM fo h axes rows) (hp : rows.Perm rows') : TracksM fo h axes rows' := by
  have e := calcND_perm (axesOf fo axes) rows rows' hp
  exact ⟨t.hax, t.keep, t.flags, by rw [← e]; exact t.freq, by rw [← e]; exact t.err2,
    by rw [← e]; exact t.missed, fun r hr => t.fits r (hp.mem_iff.mpr hr)⟩

theorem GridTracks.perm {fo : FloatOps} {h : H1} {g : Grid} {pts pts' : List Pt}
    (t : GridTracks fo h g pts) (hm : EdgeMono fo g.w g.shift) (hp : pts.Perm pts') :
    GridTracks fo h g pts' := by
  have hr : Rising (g.bins fo) := by rw [bins_eq_binsFrom]; exact binsFrom_rising _ hm _ _
  have e := C03_order (g.bins fo) hr pts pts' hp
  exact ⟨t.state, by rw [← e]; exact t.freq, by rw [← e]; exact t.err2, t.under, t.over,
    fun p hp' => t.inside p (hp.mem_iff.mpr hp')⟩

/-! ## The grown axes are determined by the old axes and the set of rows -/

/-- one axis: the grown axis is determined by the old axis and the members of the column -/
theorem AxisGrown.unique {fo : FloatOps} {b b1 b2 : Binning} {vs vs' : List Rat}
    (hm : ∀ g, b = .fixed g → g.adaptive = true → EdgeMono fo g.w g.shift) (h : ∀ v, v ∈ vs ↔ v ∈ vs')
    (a1 : AxisGrown fo b b1 vs) (a2 : AxisGrown fo b b2 vs') : b1 = b2 := by
  by_cases ha : b.isAdaptive = false
  · rw [a1.1 ha, a2.1 ha]
  · cases b with
    | static bs ire => exact (ha rfl).elim
    | fixed g =>
      have hga : g.adaptive = true := by simpa [Binning.isAdaptive] using ha
      obtain ⟨g1, e1, al1, ad1, ir1, sp1⟩ := a1.2 g rfl hga
      obtain ⟨g2, e2, al2, ad2, ir2, sp2⟩ := a2.2 g rfl hga
      obtain ⟨c1, c2, c3, c4⟩ := sp1.unique_of_mem (hm g rfl hga) h sp2
      rw [e1, e2, grid_ext c1 c2 c3 c4 (al1.trans al2.symm) (ad1.trans ad2.symm) (ir1.trans ir2.symm)]

/-- all axes: growth for permuted rows ends on the same axes -/
theorem axesGrown_unique {fo : FloatOps} {axes axes1 axes2 : List Binning} {e e' : List (List Rat)}
    (ok : EdgesOK fo axes) (hp : e.Perm e') (a1 : AxesGrown fo axes axes1 e) (a2 : AxesGrown fo axes axes2 e') :
    axes1 = axes2 := by
  apply List.ext_getElem?
  intro i
  by_cases hi : i < axes.length
  · obtain ⟨b1, hb1, g1⟩ := a1.each i _ (List.getElem?_eq_getElem hi)
    obtain ⟨b2, hb2, g2⟩ := a2.each i _ (List.getElem?_eq_getElem hi)
    rw [hb1, hb2]
    congr 1
    refine AxisGrown.unique (fun g hg hga => ok.mono i g ?_ hga) (fun _ => (col_perm i hp).mem_iff) g1 g2
    rw [List.getElem?_eq_getElem hi, hg]
  · rw [List.getElem?_eq_none (by rw [a1.len]; omega), List.getElem?_eq_none (by rw [a2.len]; omega)]

/-! ## The order of the rows does not matter -/

/-- two states that track permuted rows on the same axes hold the same contents -/
theorem tracksM_agree_perm {fo : FloatOps} {h1 h2 : HN} {axes : List Binning} {rows rows' : List Row}
    (t1 : TracksM fo h1 axes rows) (t2 : TracksM fo h2 axes rows') (hp : rows.Perm rows') :
    h1.axes = h2.axes ∧ h1.freq = h2.freq ∧ h1.err2 = h2.err2 ∧ h1.missed = h2.missed := by
  have t := t1.perm hp
  exact ⟨by rw [t.hax, t2.hax], by rw [t.freq, t2.freq], by rw [t.err2, t2.err2], by rw [t.missed, t2.missed]⟩

/-- **Order independence, any mix of adaptive and non-adaptive axes.**  Two histories of `fill` /
    `fill_n` calls run from the same state, whose entered rows (after the NaN mask) are permutations of
    one another: both are accepted and end on the same axes `axes'` — every adaptive axis grown to the
    hull of its old range and the cells of its column, in whatever order they came — holding the same
    fixed-bin histogram: same contents, squared errors and missed. -/
theorem tracksM_order (fo : FloatOps) (fuel : Nat) (ops1 ops2 : List OpN) (h : HN) (axes : List Binning)
    (rows0 : List Row) (tr : TracksM fo h axes rows0) (ok : EdgesOK fo axes)
    (hv1 : ∀ op ∈ ops1, op.Valid axes.length) (ha1 : ∀ op ∈ ops1, op.Accepted axes.length)
    (hv2 : ∀ op ∈ ops2, op.Valid axes.length) (ha2 : ∀ op ∈ ops2, op.Accepted axes.length)
    (hperm : (enteredRows ops1).Perm (enteredRows ops2))
    (hreach : ∀ r ∈ enteredRows ops1, ReachRow fo fuel axes r.1) :
    ∃ r1 r2 axes', ops1.foldlM (OpN.apply fo fuel) h = .ok r1 ∧ ops2.foldlM (OpN.apply fo fuel) h = .ok r2 ∧
      TracksM fo r1 axes' (rows0 ++ enteredRows ops1) ∧ TracksM fo r2 axes' (rows0 ++ enteredRows ops1) ∧
      AxesGrown fo axes axes' ((enteredRows ops1).map (·.1)) ∧
      r1.axes = r2.axes ∧ r1.freq = r2.freq ∧ r1.err2 = r2.err2 ∧ r1.missed = r2.missed := by
  obtain ⟨r1, x1, e1, t1, g1, _⟩ := tracksM_history fo fuel ops1 h axes rows0 tr ok hv1 ha1 hreach
  obtain ⟨r2, x2, e2, t2, g2, _⟩ := tracksM_history fo fuel ops2 h axes rows0 tr ok hv2 ha2
    (fun r hr => hreach r (hperm.mem_iff.mpr hr))
  have hx : x1 = x2 := axesGrown_unique ok (hperm.map _) g1 g2
  subst hx
  have t2' := t2.perm ((hperm.symm).append_left rows0)
  obtain ⟨a, b, c, d⟩ := tracksM_agree_perm t1 t2' (List.Perm.refl _)
  exact ⟨r1, r2, x1, e1, e2, t1, t2', g1, a, b, c, d⟩

/-- **Order independence, all axes adaptive.**  Two histories of `fill` / `fill_n` calls run from the
    same state, whose entered rows are permutations of one another, are both accepted and end on
    the same grids `grids'` — per axis the hull of the old range and the cells of the column — with the
    same contents, squared errors and missed (`= 0`). -/
theorem tracksA_order (fo : FloatOps) (fuel : Nat) (ops1 ops2 : List OpN) (h : HN) (grids : List Grid)
    (rows0 : List Row) (t : TracksA fo h grids rows0) (hm : MonoGrids fo grids)
    (hv1 : ∀ op ∈ ops1, op.Valid grids.length) (ha1 : ∀ op ∈ ops1, op.Accepted grids.length)
    (hv2 : ∀ op ∈ ops2, op.Valid grids.length) (ha2 : ∀ op ∈ ops2, op.Accepted grids.length)
    (hperm : (enteredRows ops1).Perm (enteredRows ops2))
    (hreach : ∀ r ∈ enteredRows ops1, ReachGrids fo fuel grids r.1) :
    ∃ r1 r2 grids', ops1.foldlM (OpN.apply fo fuel) h = .ok r1 ∧ ops2.foldlM (OpN.apply fo fuel) h = .ok r2 ∧
      TracksA fo r1 grids' (rows0 ++ enteredRows ops1) ∧ TracksA fo r2 grids' (rows0 ++ enteredRows ops1) ∧
      HullN fo grids grids' ((enteredRows ops1).map (·.1)) ∧
      r1.axes = r2.axes ∧ r1.freq = r2.freq ∧ r1.err2 = r2.err2 ∧ r1.missed = r2.missed := by
  obtain ⟨r1, g1, e1, t1, u1, _⟩ := tracksA_history fo fuel ops1 h grids rows0 t hm hv1 ha1 hreach
  obtain ⟨r2, g2, e2, t2, u2, _⟩ := tracksA_history fo fuel ops2 h grids rows0 t hm hv2 ha2
    (fun r hr => hreach r (hperm.mem_iff.mpr hr))
  have t2' := t2.perm ((hperm.symm).append_left rows0)
  have u2' := u2.perm (hperm.symm.map (·.1))
  obtain ⟨hg, a, b, c, d⟩ := tracksA_agree hm t1 t2' u1 u2'
  subst hg
  exact ⟨r1, r2, g1, e1, e2, t1, t2', u1, a, b, c, d⟩

/-- **Order independence in one dimension.**  Two sequences of `fill` / `fill_n` calls on the same
    adaptive histogram whose entered (value, weight) pairs are permutations of one another are both
    accepted and end on the same grid with the same contents, squared errors, underflow and overflow. -/
theorem gridTracks_order (fo : FloatOps) (fuel : Nat) (w s : Rat) (hm : EdgeMono fo w s) (ops1 ops2 : List FillOp)
    (hok1 : ∀ op ∈ ops1, op.ok = true) (hok2 : ∀ op ∈ ops2, op.ok = true)
    (hperm : (opsPts ops1).Perm (opsPts ops2)) (hreach : ∀ p ∈ opsPts ops1, Reach fo w s fuel p.1)
    (h : H1) (g : Grid) (pts : List Pt) (hw : g.w = w) (hs : g.shift = s) (tr : GridTracks fo h g pts) :
    ∃ (h1 h2 : H1) (g' : Grid), runOps fo fuel h ops1 = .ok h1 ∧ runOps fo fuel h ops2 = .ok h2 ∧
      GridTracks fo h1 g' (pts ++ opsPts ops1) ∧ GridTracks fo h2 g' (pts ++ opsPts ops1) ∧
      SpanHull (fo.edge w s) g g' ((opsPts ops1).map (·.1)) ∧
      h1.binning = h2.binning ∧ h1.freq = h2.freq ∧ h1.err2 = h2.err2 ∧ h1.under = h2.under ∧
      h1.over = h2.over ∧ h1.keep = h2.keep := by
  subst hw hs
  obtain ⟨h1, g1, e1, t1, s1⟩ := gridTracks_ops fo fuel g.w g.shift hm ops1 hok1 hreach h g pts rfl rfl tr
  obtain ⟨h2, g2, e2, t2, s2⟩ := gridTracks_ops fo fuel g.w g.shift hm ops2 hok2
    (fun p hp => hreach p (hperm.mem_iff.mpr hp)) h g pts rfl rfl tr
  have hm2 : EdgeMono fo g2.w g2.shift := by rw [s2.w, s2.shift]; exact hm
  have t2' := t2.perm hm2 ((hperm.symm).append_left pts)
  have s2' := s2.perm (hperm.symm.map (·.1))
  obtain ⟨hg, a, b, c, d, e, f⟩ := gridTracks_agree hm t1 t2' s1 s2'
  subst hg
  exact ⟨h1, h2, g1, e1, e2, t1, t2', s1, a, b, c, d, e, f⟩

end Physt

import Physt.Proofs.AdaptiveND
/-!
# `find_bin` and the value returned by `fill`, N dimensions, ANY mix of axes (C03)

No hypothesis on the axes (adaptive grids, non-adaptive grids, static bins in any mix), on the
`FloatOps`, on the fuel, on the shapes of the arrays or on the number of coordinates of the value:

* `fill_of_finite`, `fill_of_nan` — the two branches of `HN.fill` written out;
* `fill_axes`, `fill_snd_eq_findBin`, `fill_snd_none_iff` — the axes after a `fill` are the grown axes,
  the value returned is what `find_bin` returns on the histogram AFTER the call, and nothing is
  returned exactly when a coordinate is NaN (and then nothing at all happened);
* `growAxis`, `growAxes`, `reshapeAll`, `adaptAxes_single` — the growth loop of `fill` in closed form:
  axis `i` is replaced by `growAxis` of the ORIGINAL axis `i` and coordinate `i`, and both arrays go
  through the same sequence of `HN.reshapeAxis` instructions, one per axis;
* `fill_outside_nokeep` — with `keep_missed = False`, a point that ends outside the bins changes the
  dtype (promotion), the adaptive axes (growth) and the arrays (the reshape instructions of that
  growth: zero padding) — and nothing else;
* `get_reshapeAxis` — one reshape instruction cell by cell (old entry, moved, or zero);
* `RoomFor`, `total_reshapeAll`, `forceSingle_room` — the reshape instructions keep the totals when
  every instruction has room for the old contents; the instruction `forceSingle` gives has room when
  the grid edges increase and the cell search reaches the cell (`EdgeMono`, `Reach`), and
  `forceSingle_no_room` shows a `FloatOps` / fuel for which it has not (the axis is CUT).
-/
namespace Physt
open Grid

/-! ## The two branches of `fill` -/

/-- the histogram between the growth step and the cell search of `fill`: dtype promoted, adaptive
    axes grown for the coordinates of the value -/
def HN.grown (fo : FloatOps) (fuel : Nat) (h : HN) (value : List (Option Rat)) (wk : H1.NumKind) : HN :=
  (h.coerce wk.dtype).adaptAxes fo fuel ((value.filterMap id).map fun x => [x]) true

/-- `fill` of a value without NaN, written out: promote the dtype, grow the adaptive axes, search the
    cell in the grown axes, then add to the cell or to `missed` -/
theorem fill_of_finite (fo : FloatOps) (fuel : Nat) (h : HN) (value : List (Option Rat)) (w : Rat)
    (wk : H1.NumKind) (hv : value.any Option.isNone = false) :
    h.fill fo fuel value w wk =
      match (h.grown fo fuel value wk).findBin fo (value.filterMap id) with
      | none =>
        (if (h.grown fo fuel value wk).keep
          then { h.grown fo fuel value wk with missed := nadd (h.grown fo fuel value wk).missed (some w) }
          else h.grown fo fuel value wk, some none)
      | some idx =>
        ({ h.grown fo fuel value wk with
           freq := HN.addAtIdx (h.grown fo fuel value wk).freq idx w,
           err2 := HN.addAtIdx (h.grown fo fuel value wk).err2 idx (w * w) },
         some (some idx)) := by
  unfold HN.fill
  simp only [hv, Bool.false_eq_true, if_false]
  rfl

/-- `fill` of a value with a NaN coordinate: nothing happens (not even the dtype promotion) and
    nothing is returned -/
theorem fill_of_nan (fo : FloatOps) (fuel : Nat) (h : HN) (value : List (Option Rat)) (w : Rat)
    (wk : H1.NumKind) (hv : value.any Option.isNone = true) : h.fill fo fuel value w wk = (h, none) := by
  unfold HN.fill
  simp only [hv, if_true]

/-- after the growth step `fill` touches contents, squared errors and missed only: axes, names,
    `keep_missed` and dtype of the result are those of the grown histogram -/
theorem fill_fields (fo : FloatOps) (fuel : Nat) (h : HN) (value : List (Option Rat)) (w : Rat)
    (wk : H1.NumKind) (hv : value.any Option.isNone = false) :
    (h.fill fo fuel value w wk).1.axes = (h.grown fo fuel value wk).axes ∧
    (h.fill fo fuel value w wk).1.names = (h.grown fo fuel value wk).names ∧
    (h.fill fo fuel value w wk).1.keep = (h.grown fo fuel value wk).keep ∧
    (h.fill fo fuel value w wk).1.dtype = (h.grown fo fuel value wk).dtype ∧
    (h.fill fo fuel value w wk).2 = some ((h.grown fo fuel value wk).findBin fo (value.filterMap id)) := by
  rw [fill_of_finite fo fuel h value w wk hv]
  generalize h.grown fo fuel value wk = h1
  cases h1.findBin fo (value.filterMap id) with
  | none =>
    show (if h1.keep = true then _ else _ : HN).axes = _ ∧ _
    split <;> exact ⟨rfl, rfl, rfl, rfl, rfl⟩
  | some idx => exact ⟨rfl, rfl, rfl, rfl, rfl⟩

/-- **The axes after a `fill`** are the axes after the growth step. -/
theorem fill_axes (fo : FloatOps) (fuel : Nat) (h : HN) (value : List (Option Rat)) (w : Rat)
    (wk : H1.NumKind) (hv : value.any Option.isNone = false) :
    (h.fill fo fuel value w wk).1.axes = (h.grown fo fuel value wk).axes :=
  (fill_fields fo fuel h value w wk hv).1

/-- **`fill` returns what `find_bin` returns afterwards**: for a value without NaN, on any mix of
    adaptive and non-adaptive axes, the value returned by `fill` is the result of `find_bin` on the
    histogram AFTER the call (grown axes). -/
theorem fill_snd_eq_findBin (fo : FloatOps) (fuel : Nat) (h : HN) (value : List (Option Rat)) (w : Rat)
    (wk : H1.NumKind) (hv : value.any Option.isNone = false) :
    (h.fill fo fuel value w wk).2
      = some ((h.fill fo fuel value w wk).1.findBin fo (value.filterMap id)) := by
  obtain ⟨f1, _, _, _, f5⟩ := fill_fields fo fuel h value w wk hv
  rw [f5, HN.findBin_axes fo (h.grown fo fuel value wk) _ f1]

/-- `fill` returns nothing exactly when a coordinate is NaN -/
theorem fill_snd_none_iff (fo : FloatOps) (fuel : Nat) (h : HN) (value : List (Option Rat)) (w : Rat)
    (wk : H1.NumKind) : (h.fill fo fuel value w wk).2 = none ↔ value.any Option.isNone = true := by
  constructor
  · intro hn
    by_contra hv
    have hv' : value.any Option.isNone = false := by
      cases hb : value.any Option.isNone with
      | false => rfl
      | true => exact absurd hb hv
    rw [(fill_fields fo fuel h value w wk hv').2.2.2.2] at hn
    cases hn
  · intro hv
    rw [fill_of_nan fo fuel h value w wk hv]

/-! ## The growth step of `fill` in closed form -/

/-- what the growth step of `fill` does to ONE axis, given the coordinate of the value on it: the new
    binning, and the instruction `_reshape_data` is given for that axis (new bin count, reshape).
    Only an adaptive grid that gets a coordinate can change (`_force_bin_existence_single`). -/
def growAxis (fo : FloatOps) (fuel : Nat) (b : Binning) (x : Option Rat) : Binning × Nat × Reshape :=
  match b, x with
  | .fixed g, some v =>
    if g.adaptive then
      (.fixed (g.forceSingle fo fuel v g.ire).1, (g.forceSingle fo fuel v g.ire).1.count,
        (g.forceSingle fo fuel v g.ire).2)
    else (b, (b.bins fo).length, .noChange)
  | _, _ => (b, (b.bins fo).length, .noChange)

/-- a non-adaptive axis is left alone -/
theorem growAxis_nonadaptive (fo : FloatOps) (fuel : Nat) (b : Binning) (x : Option Rat)
    (hb : b.isAdaptive = false) : growAxis fo fuel b x = (b, (b.bins fo).length, .noChange) := by
  cases b with
  | static bs ire => rfl
  | fixed g =>
    have : g.adaptive = false := hb
    cases x <;> simp [growAxis, this]

/-- an adaptive grid with a coordinate grows as `_force_bin_existence_single` says -/
theorem growAxis_adaptive (fo : FloatOps) (fuel : Nat) (g : Grid) (v : Rat) (ha : g.adaptive = true) :
    growAxis fo fuel (.fixed g) (some v)
      = (.fixed (g.forceSingle fo fuel v g.ire).1, (g.forceSingle fo fuel v g.ire).1.count,
          (g.forceSingle fo fuel v g.ire).2) := by
  simp [growAxis, ha]

/-- the growth of all the axes for the value `v`: axis `i` with coordinate `v[i]?` -/
def growAxes (fo : FloatOps) (fuel : Nat) (axes : List Binning) (v : List Rat) :
    List (Binning × Nat × Reshape) :=
  axes.mapIdx fun i b => growAxis fo fuel b v[i]?

theorem growAxes_length (fo : FloatOps) (fuel : Nat) (axes : List Binning) (v : List Rat) :
    (growAxes fo fuel axes v).length = axes.length := by
  simp [growAxes]

theorem growAxes_getElem? (fo : FloatOps) (fuel : Nat) (axes : List Binning) (v : List Rat) (i : Nat) :
    (growAxes fo fuel axes v)[i]? = axes[i]?.map fun b => growAxis fo fuel b v[i]? := by
  simp [growAxes, List.getElem?_mapIdx]

/-- apply one `_reshape_data` instruction per axis, axis 0 first (`plan[i]` is for axis `i`) -/
def reshapeAll (a : Arr) (plan : List (Nat × Reshape)) : Arr :=
  plan.zipIdx.foldl (fun a p => HN.reshapeAxis a p.2 p.1.1 p.1.2) a

theorem reshapeAll_nil (a : Arr) : reshapeAll a [] = a := rfl

theorem reshapeAll_append_singleton (a : Arr) (plan : List (Nat × Reshape)) (p : Nat × Reshape) :
    reshapeAll a (plan ++ [p]) = HN.reshapeAxis (reshapeAll a plan) plan.length p.1 p.2 := by
  simp [reshapeAll, List.zipIdx_append, List.foldl_append]

/-- one round of the growth loop of `fill` (each column holds one coordinate) -/
theorem adaptStep_single (fo : FloatOps) (fuel : Nat) (v : List Rat) (h : HN) (i : Nat) (b : Binning)
    (hb : h.axes[i]? = some b) :
    adaptStep fo fuel (v.map fun x => [x]) true h i =
      { h with axes := h.axes.set i (growAxis fo fuel b v[i]?).1,
               freq := HN.reshapeAxis h.freq i (growAxis fo fuel b v[i]?).2.1 (growAxis fo fuel b v[i]?).2.2,
               err2 := HN.reshapeAxis h.err2 i (growAxis fo fuel b v[i]?).2.1 (growAxis fo fuel b v[i]?).2.2 } := by
  have hset : h.axes.set i b = h.axes := by
    obtain ⟨hi, rfl⟩ := List.getElem?_eq_some_iff.mp hb
    exact List.set_getElem_self hi
  have stay : h = { h with axes := h.axes.set i b, freq := HN.reshapeAxis h.freq i (b.bins fo).length .noChange,
                           err2 := HN.reshapeAxis h.err2 i (b.bins fo).length .noChange } := by
    rw [hset]; rfl
  by_cases had : b.isAdaptive = false
  · rw [adaptStep_stay fo fuel _ true h i b hb had, growAxis_nonadaptive fo fuel b _ had]
    exact stay
  · cases b with
    | static bs ire => exact (had rfl).elim
    | fixed g =>
      have hga : g.adaptive = true := by simpa [Binning.isAdaptive] using had
      cases hx : v[i]? with
      | none =>
        have hc : (v.map fun x => [x])[i]? = none := by simp [hx]
        have : adaptStep fo fuel (v.map fun x => [x]) true h i = h := by
          unfold adaptStep; simp only [hb, hc]
        rw [this]
        exact stay
      | some x =>
        have hc : (v.map fun x => [x])[i]? = some [x] := by simp [hx]
        rw [adaptStep_grow fo fuel _ true h i g [x] hb hc hga, growAxis_adaptive fo fuel g x hga]
        rfl

theorem set_prefix {α} (pre l : List α) (n : Nat) (hn : n < l.length) (hp : pre.length = n) (x : α) :
    (pre ++ l.drop n).set n x = (pre ++ [x]) ++ l.drop (n + 1) := by
  subst hp
  rw [List.drop_eq_getElem_cons hn, List.set_append_right _ _ (Nat.le_refl _), Nat.sub_self, List.set_cons_zero,
    List.append_assoc, List.singleton_append]

/-- **The growth loop of `fill` in closed form.**  Axis `i` becomes `growAxis` of the original axis `i`
    and coordinate `i` of the value; contents and squared errors both go through the reshape
    instructions of the axes, in the order of the axes; nothing else changes. -/
theorem adaptAxes_single (fo : FloatOps) (fuel : Nat) (h : HN) (v : List Rat) :
    h.adaptAxes fo fuel (v.map fun x => [x]) true =
      { h with axes := (growAxes fo fuel h.axes v).map (·.1),
               freq := reshapeAll h.freq ((growAxes fo fuel h.axes v).map (·.2)),
               err2 := reshapeAll h.err2 ((growAxes fo fuel h.axes v).map (·.2)) } := by
  rw [adaptAxes_eq]
  have key : ∀ n, n ≤ h.axes.length →
      (List.range n).foldl (adaptStep fo fuel (v.map fun x => [x]) true) h =
        { h with axes := ((growAxes fo fuel h.axes v).take n).map (·.1) ++ h.axes.drop n,
                 freq := reshapeAll h.freq (((growAxes fo fuel h.axes v).take n).map (·.2)),
                 err2 := reshapeAll h.err2 (((growAxes fo fuel h.axes v).take n).map (·.2)) } := by
    intro n
    induction n with
    | zero => intro _; rfl
    | succ n ih =>
      intro hn
      have hlt : n < h.axes.length := by omega
      have hG : n < (growAxes fo fuel h.axes v).length := by rw [growAxes_length]; exact hlt
      have hpre : (((growAxes fo fuel h.axes v).take n).map (·.1)).length = n := by
        simp [growAxes_length]; omega
      rw [List.range_succ, List.foldl_append, List.foldl_cons, List.foldl_nil, ih (by omega)]
      have hb : (((growAxes fo fuel h.axes v).take n).map (·.1) ++ h.axes.drop n)[n]? = some h.axes[n] := by
        rw [List.getElem?_append_right (by omega), hpre]
        simp [List.getElem?_eq_getElem hlt]
      rw [adaptStep_single fo fuel v _ n h.axes[n] hb]
      have hGn : (growAxes fo fuel h.axes v)[n] = growAxis fo fuel h.axes[n] v[n]? := by
        have := growAxes_getElem? fo fuel h.axes v n
        rw [List.getElem?_eq_getElem hG, List.getElem?_eq_getElem hlt] at this
        simpa using this
      have htake : (growAxes fo fuel h.axes v).take (n + 1)
          = (growAxes fo fuel h.axes v).take n ++ [growAxis fo fuel h.axes[n] v[n]?] := by
        rw [List.take_succ_eq_append_getElem hG, hGn]
      have hlen2 : (((growAxes fo fuel h.axes v).take n).map (·.2)).length = n := by
        simp [growAxes_length]; omega
      simp only [htake, List.map_append, List.map_cons, List.map_nil, reshapeAll_append_singleton, hlen2]
      rw [set_prefix _ h.axes n hlt hpre]
  have := key h.axes.length (le_refl _)
  rw [this]
  have e : (growAxes fo fuel h.axes v).take h.axes.length = growAxes fo fuel h.axes v := by
    rw [← growAxes_length fo fuel h.axes v, List.take_length]
  rw [e]
  simp

/-- the grown axes, one by one -/
theorem adaptAxes_single_axis (fo : FloatOps) (fuel : Nat) (h : HN) (v : List Rat) (i : Nat) :
    (h.adaptAxes fo fuel (v.map fun x => [x]) true).axes[i]?
      = h.axes[i]?.map fun b => (growAxis fo fuel b v[i]?).1 := by
  rw [adaptAxes_single]
  simp [growAxes_getElem?, Function.comp_def]

/-! ## A point outside the bins, tracking of missed values off -/

/-- the histogram after the growth step of `fill`, in closed form -/
theorem grown_eq (fo : FloatOps) (fuel : Nat) (h : HN) (value : List (Option Rat)) (wk : H1.NumKind) :
    h.grown fo fuel value wk =
      { h with dtype := h.dtype.promote wk.dtype,
               axes := (growAxes fo fuel h.axes (value.filterMap id)).map (·.1),
               freq := reshapeAll h.freq ((growAxes fo fuel h.axes (value.filterMap id)).map (·.2)),
               err2 := reshapeAll h.err2 ((growAxes fo fuel h.axes (value.filterMap id)).map (·.2)) } := by
  unfold HN.grown
  rw [adaptAxes_single]
  rfl

/-- **Outside the bins with `keep_missed = False`: only growth and dtype.**  If the value has no NaN,
    missed values are not tracked and `fill` reports that the point is outside the bins (after the
    growth of the adaptive axes), then the histogram after the call is the old one with the dtype
    promoted, every axis replaced by its grown version and BOTH arrays passed through the reshape
    instructions of that growth (zero padding) — missed, `keep_missed`, names untouched, no content
    added anywhere. -/
theorem fill_outside_nokeep (fo : FloatOps) (fuel : Nat) (h : HN) (value : List (Option Rat)) (w : Rat)
    (wk : H1.NumKind) (hv : value.any Option.isNone = false) (hk : h.keep = false)
    (hout : (h.fill fo fuel value w wk).2 = some none) :
    (h.fill fo fuel value w wk).1 =
      { h with dtype := h.dtype.promote wk.dtype,
               axes := (growAxes fo fuel h.axes (value.filterMap id)).map (·.1),
               freq := reshapeAll h.freq ((growAxes fo fuel h.axes (value.filterMap id)).map (·.2)),
               err2 := reshapeAll h.err2 ((growAxes fo fuel h.axes (value.filterMap id)).map (·.2)) } := by
  have hg := grown_eq fo fuel h value wk
  rw [fill_of_finite fo fuel h value w wk hv] at hout ⊢
  generalize h.grown fo fuel value wk = h1 at hg hout ⊢
  have hk1 : h1.keep = false := by rw [hg]; exact hk
  cases hfb : h1.findBin fo (value.filterMap id) with
  | some idx => rw [hfb] at hout; cases hout
  | none =>
    simp only [hk1, Bool.false_eq_true, if_false]
    exact hg

/-- the same with all axes non-adaptive: the histogram is literally unchanged up to the dtype -/
theorem fill_outside_nokeep_static (fo : FloatOps) (fuel : Nat) (h : HN) (hs : NonAdaptive h.axes)
    (value : List (Option Rat)) (w : Rat) (wk : H1.NumKind) (hv : value.any Option.isNone = false)
    (hk : h.keep = false) (hout : h.findBin fo (value.filterMap id) = none) :
    h.fill fo fuel value w wk = (h.coerce wk.dtype, some none) := by
  have hg : h.grown fo fuel value wk = h.coerce wk.dtype :=
    adaptAxes_nonadaptive fo fuel (h.coerce wk.dtype) _ true hs
  rw [fill_of_finite fo fuel h value w wk hv, hg, HN.findBin_axes fo h (h.coerce wk.dtype) rfl, hout]
  have : (h.coerce wk.dtype).keep = false := hk
  simp only [this, Bool.false_eq_true, if_false]

/-- with non-adaptive axes only, no `fill` ever changes the axes -/
theorem fill_axes_static (fo : FloatOps) (fuel : Nat) (h : HN) (hs : NonAdaptive h.axes)
    (value : List (Option Rat)) (w : Rat) (wk : H1.NumKind) : (h.fill fo fuel value w wk).1.axes = h.axes := by
  cases hv : value.any Option.isNone with
  | true => rw [fill_of_nan fo fuel h value w wk hv]
  | false =>
    rw [fill_axes fo fuel h value w wk hv]
    show ((h.coerce wk.dtype).adaptAxes fo fuel _ true).axes = h.axes
    rw [adaptAxes_nonadaptive fo fuel (h.coerce wk.dtype) _ true hs]
    rfl

/-- **What one reshape instruction does, cell by cell** (this is the zero padding): at a valid index
    of the new shape whose component along the axis is `j`, the new array holds the old entry (no
    change), `0` (fresh), or the old entry `k` cells further down if there is one and `0` otherwise
    (shift by `k`) -/
theorem get_reshapeAxis (a : Arr) (i n : Nat) (r : Reshape) (idx : List Nat)
    (hv : validIdx (Arr.setAt a.shape i n) idx = true) (j : Nat) (hj : idx[i]? = some j) :
    (HN.reshapeAxis a i n r).get idx =
      match r with
      | .noChange => a.get idx
      | .fresh => 0
      | .shift k => if k ≤ j ∧ j - k < a.shape[i]?.getD 0 then a.get (idx.set i (j - k)) else 0 := by
  cases r with
  | noChange => rfl
  | fresh => exact Arr.get_ofFn _ _ idx hv
  | shift k => exact Arr.get_shiftAxis a i k n idx hv j hj

/-! ## The reshape instructions keep the totals when they have room -/

/-- the instruction has room for the old contents of an axis of `old` bins that gets `newN` bins:
    nothing to do; or a fresh array for an axis that had no bin (so no content); or a shift by `k`
    with `k + old ≤ newN` (nothing is cut off) -/
def RoomFor (old newN : Nat) : Reshape → Prop
  | .noChange => True
  | .fresh => old = 0
  | .shift k => k + old ≤ newN

instance (old newN : Nat) (r : Reshape) : Decidable (RoomFor old newN r) := by
  cases r <;> unfold RoomFor <;> infer_instance

theorem prodL_eq_zero (s : List Nat) (i : Nat) (h : s[i]? = some 0) : prodL s = 0 := by
  induction s generalizing i with
  | nil => simp at h
  | cons n rest ih =>
    cases i with
    | zero =>
      simp only [List.getElem?_cons_zero, Option.some.injEq] at h
      subst h; simp [prodL]
    | succ i =>
      simp only [List.getElem?_cons_succ] at h
      simp [prodL, ih i h]

/-- an array with an axis of length 0 holds nothing -/
theorem Arr.total_of_empty_axis (a : Arr) (hw : a.WellShaped) (i : Nat) (h : a.shape[i]? = some 0) :
    a.total = 0 := by
  have : a.data = [] := List.length_eq_zero_iff.mp (by rw [hw, prodL_eq_zero a.shape i h])
  simp [Arr.total, this]

/-- one reshape instruction: the array stays well-shaped, keeps its number of axes and the lengths
    of the other axes -/
theorem reshapeAxis_shape (a : Arr) (i n : Nat) (r : Reshape) (hw : a.WellShaped) :
    (HN.reshapeAxis a i n r).WellShaped ∧ (HN.reshapeAxis a i n r).shape.length = a.shape.length ∧
    ∀ j, j ≠ i → (HN.reshapeAxis a i n r).shape[j]? = a.shape[j]? := by
  cases r with
  | noChange => exact ⟨hw, rfl, fun _ _ => rfl⟩
  | fresh =>
    refine ⟨Arr.wellShaped_zeros _, ?_, ?_⟩
    · show (Arr.setAt a.shape i n).length = _
      simp [Arr.setAt]
    · intro j hj
      show (Arr.setAt a.shape i n)[j]? = _
      simp only [Arr.setAt]
      exact List.getElem?_set_ne (fun e => hj e.symm)
  | shift k =>
    refine ⟨Arr.wellShaped_gather _ _ _ _, ?_, ?_⟩
    · show (Arr.setAt a.shape i n).length = _
      simp [Arr.setAt]
    · intro j hj
      show (Arr.setAt a.shape i n)[j]? = _
      simp only [Arr.setAt]
      exact List.getElem?_set_ne (fun e => hj e.symm)

/-- one reshape instruction with room keeps the total -/
theorem total_reshapeAxis (a : Arr) (i n : Nat) (r : Reshape) (hw : a.WellShaped) (hi : i < a.shape.length)
    (hroom : RoomFor (a.shape[i]?.getD 0) n r) : (HN.reshapeAxis a i n r).total = a.total := by
  cases r with
  | noChange => rfl
  | fresh =>
    have h0 : a.shape[i]? = some 0 := by
      have : a.shape[i]?.getD 0 = 0 := hroom
      rw [List.getElem?_eq_getElem hi] at this ⊢
      simpa using this
    show (Arr.zeros _).total = _
    rw [Arr.total_zeros, Arr.total_of_empty_axis a hw i h0]
  | shift k => exact Arr.total_shiftAxis a hw i k n hi hroom

/-- the instructions `plan` applied to the axes `k, k + 1, …` -/
theorem total_reshapeFrom (plan : List (Nat × Reshape)) : ∀ (k : Nat) (a : Arr), a.WellShaped →
    k + plan.length ≤ a.shape.length →
    (∀ (i : Nat) (p : Nat × Reshape), plan[i]? = some p → RoomFor (a.shape[k + i]?.getD 0) p.1 p.2) →
    ((plan.zipIdx k).foldl (fun a p => HN.reshapeAxis a p.2 p.1.1 p.1.2) a).total = a.total := by
  induction plan with
  | nil => intro k a _ _ _; rfl
  | cons p ps ih =>
    intro k a hw hlen hroom
    rw [List.zipIdx_cons, List.foldl_cons]
    simp only [List.length_cons] at hlen
    obtain ⟨w1, w2, w3⟩ := reshapeAxis_shape a k p.1 p.2 hw
    have t1 := total_reshapeAxis a k p.1 p.2 hw (by omega) (by simpa using hroom 0 p rfl)
    rw [ih (k + 1) _ w1 (by rw [w2]; omega) ?_, t1]
    intro i q hq
    rw [w3 (k + 1 + i) (by omega)]
    have := hroom (i + 1) q (by simpa using hq)
    rwa [show k + (i + 1) = k + 1 + i by omega] at this

/-- **Reshape instructions with room keep the total**: one instruction per axis (not more
    instructions than axes), each with room for the contents of its axis. -/
theorem total_reshapeAll (a : Arr) (plan : List (Nat × Reshape)) (hw : a.WellShaped)
    (hlen : plan.length ≤ a.shape.length)
    (hroom : ∀ (i : Nat) (p : Nat × Reshape), plan[i]? = some p → RoomFor (a.shape[i]?.getD 0) p.1 p.2) :
    (reshapeAll a plan).total = a.total :=
  total_reshapeFrom plan 0 a hw (by omega) (by simpa using hroom)

/-- **`_force_bin_existence_single` leaves room** when the grid edges increase and the cell search
    reaches the cell of the value (any right-edge flag): the instruction it hands to `_reshape_data`
    never cuts old contents off. -/
theorem forceSingle_room (fo : FloatOps) (fuel : Nat) (g : Grid) (v : Rat) (ire : Bool)
    (hm : EdgeMono fo g.w g.shift) (hr : Reach fo g.w g.shift fuel v) :
    RoomFor g.count (g.forceSingle fo fuel v ire).1.count (g.forceSingle fo fuel v ire).2 := by
  obtain ⟨k, hk, hf⟩ := hr
  have hloc : g.findIndex fo fuel v = k := locate_spec (g.edgeAt fo) v hm k _ fuel hk hf
  unfold forceSingle
  simp only []
  split_ifs with h0 h1 h2 h3 h4 h5 h6
  all_goals simp only [RoomFor]
  all_goals first | exact h0 | omega | skip
  all_goals
    have hge : g.tmin + g.count ≤ k := cell_ge_of_le hm hk h4
    rw [hloc] at *
    omega

/-- the growth instruction of one axis has room for the bins the axis had -/
theorem growAxis_room (fo : FloatOps) (fuel : Nat) (b : Binning) (x : Option Rat)
    (hgood : ∀ (g : Grid) (v : Rat), b = .fixed g → g.adaptive = true → x = some v →
      EdgeMono fo g.w g.shift ∧ Reach fo g.w g.shift fuel v) :
    RoomFor (b.bins fo).length (growAxis fo fuel b x).2.1 (growAxis fo fuel b x).2.2 := by
  by_cases had : b.isAdaptive = false
  · rw [growAxis_nonadaptive fo fuel b x had]; exact True.intro
  · cases b with
    | static bs ire => exact (had rfl).elim
    | fixed g =>
      have hga : g.adaptive = true := by simpa [Binning.isAdaptive] using had
      cases x with
      | none => exact True.intro
      | some v =>
        rw [growAxis_adaptive fo fuel g v hga]
        obtain ⟨hm, hr⟩ := hgood g v rfl hga rfl
        have := forceSingle_room fo fuel g v g.ire hm hr
        show RoomFor (g.bins fo).length _ _
        rw [grid_bins_length]; exact this

/-- what the totals need: on every adaptive grid that gets a coordinate the edges increase and the
    cell search reaches the cell of the coordinate (true in exact arithmetic with positive widths:
    `growthReaches_exact`; `forceSingle_no_room` shows what happens otherwise) -/
def GrowthReaches (fo : FloatOps) (fuel : Nat) (axes : List Binning) (v : List Rat) : Prop :=
  ∀ (i : Nat) (g : Grid) (x : Rat), axes[i]? = some (Binning.fixed g) → g.adaptive = true → v[i]? = some x →
    EdgeMono fo g.w g.shift ∧ Reach fo g.w g.shift fuel x

theorem growthReaches_exact (fuel : Nat) (axes : List Binning) (v : List Rat)
    (hw : ∀ (i : Nat) (g : Grid), axes[i]? = some (Binning.fixed g) → g.adaptive = true → 0 < g.w) :
    GrowthReaches FloatOps.exact fuel axes v :=
  fun i g x hg ha _ => ⟨C04_exact_mono g.w g.shift (hw i g hg ha), reach_exact g.w g.shift (hw i g hg ha) fuel x⟩

/-- non-adaptive axes need nothing -/
theorem growthReaches_static (fo : FloatOps) (fuel : Nat) (axes : List Binning) (v : List Rat)
    (hs : NonAdaptive axes) : GrowthReaches fo fuel axes v := by
  intro i g x hg ha _
  have := hs _ (List.mem_of_getElem? hg)
  simp [Binning.isAdaptive, ha] at this

/-- the instructions of the growth step have room in any array shaped like the histogram -/
theorem growAxes_room (fo : FloatOps) (fuel : Nat) (axes : List Binning) (v : List Rat)
    (hreach : GrowthReaches fo fuel axes v) (shape : List Nat)
    (hshape : shape = axes.map fun b => (b.bins fo).length) (i : Nat) (p : Nat × Reshape)
    (hp : ((growAxes fo fuel axes v).map (·.2))[i]? = some p) : RoomFor (shape[i]?.getD 0) p.1 p.2 := by
  rw [List.getElem?_map, growAxes_getElem?] at hp
  cases hb : axes[i]? with
  | none => simp [hb] at hp
  | some b =>
    simp only [hb, Option.map_some, Option.some.injEq] at hp
    subst hp
    have : shape[i]? = some (b.bins fo).length := by simp [hshape, hb]
    rw [this]
    exact growAxis_room fo fuel b v[i]? (fun g x hg ha hx => hreach i g x (by rw [hb, hg]) ha hx)

/-- **Outside the bins with `keep_missed = False`: the totals stay.**  Under the hypotheses of
    `fill_outside_nokeep`, for arrays shaped like the bins, when the growth of every adaptive axis
    reaches the cell of its coordinate (`GrowthReaches`), the totals of contents and of squared
    errors after the call are the old ones: the growth only pads with zeros. -/
theorem fill_outside_nokeep_totals (fo : FloatOps) (fuel : Nat) (h : HN) (value : List (Option Rat)) (w : Rat)
    (wk : H1.NumKind) (hv : value.any Option.isNone = false) (hk : h.keep = false)
    (hout : (h.fill fo fuel value w wk).2 = some none)
    (hf : h.freq.HasShape (h.shape fo)) (he : h.err2.HasShape (h.shape fo))
    (hreach : GrowthReaches fo fuel h.axes (value.filterMap id)) :
    (h.fill fo fuel value w wk).1.freq.total = h.freq.total ∧
    (h.fill fo fuel value w wk).1.err2.total = h.err2.total := by
  rw [fill_outside_nokeep fo fuel h value w wk hv hk hout]
  have hlen : ∀ a : Arr, a.shape = h.shape fo →
      ((growAxes fo fuel h.axes (value.filterMap id)).map (·.2)).length ≤ a.shape.length := by
    intro a ha
    rw [ha, List.length_map, growAxes_length]
    simp [HN.shape]
  exact ⟨total_reshapeAll _ _ hf.wellShaped (hlen _ hf.1)
      (growAxes_room fo fuel h.axes _ hreach _ (by rw [hf.1]; rfl)),
    total_reshapeAll _ _ he.wellShaped (hlen _ he.1)
      (growAxes_room fo fuel h.axes _ hreach _ (by rw [he.1]; rfl))⟩

/-- for non-adaptive axes the value returned is also what `find_bin` gave BEFORE the call (no hypothesis
    on bins, shapes, `keep_missed` or the number of coordinates) -/
theorem fill_snd_static (fo : FloatOps) (fuel : Nat) (h : HN) (hs : NonAdaptive h.axes)
    (value : List (Option Rat)) (w : Rat) (wk : H1.NumKind) (hv : value.any Option.isNone = false) :
    (h.fill fo fuel value w wk).2 = some (h.findBin fo (value.filterMap id)) := by
  rw [fill_snd_eq_findBin fo fuel h value w wk hv,
    HN.findBin_axes fo h _ (fill_axes_static fo fuel h hs value w wk)]

/-! ## The room hypothesis is needed: a search that stops short CUTS the axis -/

/-- a `FloatOps` whose cell estimate is useless (always 0); with fuel 0 the search cannot correct it -/
def badEstimate : FloatOps where
  edge w s k := (k : Rat) * w + s
  est _ _ _ := 0
  shiftOf _ _ v := v

/-- with the useless estimate and no fuel, a value far to the right of a 3-bin grid makes
    `_force_bin_existence_single` SHRINK the grid to 1 bin and order a shift by 0: no room -/
theorem forceSingle_no_room :
    ({ w := 1, tmin := 0, count := 3, adaptive := true } : Grid).forceSingle badEstimate 0 10 false
      = ({ w := 1, tmin := 0, count := 1, adaptive := true }, .shift 0) ∧
    ¬ RoomFor 3 1 (.shift 0) := by decide +kernel

/-- … and `fill` then loses contents although it reports a point outside the bins and does not track
    missed values: the total drops from 6 to 1.  (An artefact of the fuel-limited search of the model
    with a wrong estimate; `GrowthReaches` excludes it.) -/
theorem fill_outside_cut :
    let h : HN := { axes := [.fixed { w := 1, tmin := 0, count := 3, adaptive := true }],
                    freq := ⟨[3], [1, 2, 3]⟩, err2 := ⟨[3], [1, 2, 3]⟩, keep := false }
    (h.fill badEstimate 0 [some 10] 1 .pyInt).2 = some none ∧
    (h.fill badEstimate 0 [some 10] 1 .pyInt).1.freq = ⟨[1], [1]⟩ ∧
    h.freq.total = 6 ∧ (h.fill badEstimate 0 [some 10] 1 .pyInt).1.freq.total = 1 := by decide +kernel

/-! ## Non-vacuity: one adaptive grid axis and one static axis -/

namespace ExampleFind

/-- axis 0: an adaptive grid of width 1 with the bins [0, 1), [1, 2); axis 1: static bins [0, 1), [1, 2] -/
def axes : List Binning :=
  [.fixed { w := 1, tmin := 0, count := 2, adaptive := true }, .static [(0, 1), (1, 2)] true]

/-- a histogram with contents, `keep_missed = False` -/
def h : HN :=
  { axes := axes, freq := ⟨[2, 2], [1, 2, 3, 4]⟩, err2 := ⟨[2, 2], [1, 4, 9, 16]⟩, missed := some 0,
    keep := false, dtype := .i64, names := ["x", "y"] }

/-- a point left of the grid (it grows by two cells) and outside the static axis -/
def outside : List (Option Rat) := [some (-3 / 2), some 5]
/-- a point left of the grid and inside the static axis -/
def inside : List (Option Rat) := [some (-3 / 2), some (1 / 2)]

theorem outside_finite : outside.any Option.isNone = false := by decide
theorem inside_finite : inside.any Option.isNone = false := by decide

theorem reaches (fuel : Nat) (v : List Rat) : GrowthReaches FloatOps.exact fuel h.axes v := by
  apply growthReaches_exact
  intro i g hg _
  have : i = 0 ∨ i = 1 ∨ 2 ≤ i := by omega
  rcases this with rfl | rfl | h2
  · have : g = { w := 1, tmin := 0, count := 2, adaptive := true } := by
      simpa [h, axes] using hg.symm
    subst this; decide
  · simp [h, axes] at hg
  · obtain ⟨k, rfl⟩ : ∃ k, i = k + 2 := ⟨i - 2, by omega⟩
    simp [h, axes] at hg

theorem shapes : h.freq.HasShape (h.shape FloatOps.exact) ∧ h.err2.HasShape (h.shape FloatOps.exact) := by
  unfold Arr.HasShape
  decide +kernel

/-- the growth really happens and the point really ends outside: the grid has 4 bins from -2 afterwards,
    the contents are the old ones moved two cells up along axis 0 (zeros in the new cells), missed is
    untouched — and this is what `fill_outside_nokeep` says -/
example :
    (h.fill FloatOps.exact 8 outside 1 .pyFloat).2 = some none ∧
    (h.fill FloatOps.exact 8 outside 1 .pyFloat).1 =
      { h with dtype := .f64,
               axes := [.fixed { w := 1, tmin := -2, count := 4, adaptive := true }, .static [(0, 1), (1, 2)] true],
               freq := ⟨[4, 2], [0, 0, 0, 0, 1, 2, 3, 4]⟩, err2 := ⟨[4, 2], [0, 0, 0, 0, 1, 4, 9, 16]⟩ } ∧
    (growAxes FloatOps.exact 8 h.axes (outside.filterMap id)).map (·.2) = [(4, .shift 2), (2, .noChange)] := by
  decide +kernel

example :
    (h.fill FloatOps.exact 8 outside 1 .pyFloat).1 =
      { h with dtype := h.dtype.promote H1.NumKind.pyFloat.dtype,
               axes := (growAxes FloatOps.exact 8 h.axes (outside.filterMap id)).map (·.1),
               freq := reshapeAll h.freq ((growAxes FloatOps.exact 8 h.axes (outside.filterMap id)).map (·.2)),
               err2 := reshapeAll h.err2 ((growAxes FloatOps.exact 8 h.axes (outside.filterMap id)).map (·.2)) } :=
  fill_outside_nokeep FloatOps.exact 8 h outside 1 .pyFloat outside_finite rfl (by decide +kernel)

example :
    (h.fill FloatOps.exact 8 outside 1 .pyFloat).1.freq.total = h.freq.total ∧
    (h.fill FloatOps.exact 8 outside 1 .pyFloat).1.err2.total = h.err2.total :=
  fill_outside_nokeep_totals FloatOps.exact 8 h outside 1 .pyFloat outside_finite rfl (by decide +kernel)
    shapes.1 shapes.2 (reaches 8 _)

/-- `find_bin` BEFORE the call does not find the point, `fill` returns the cell `find_bin` finds AFTER
    the growth -/
example :
    h.findBin FloatOps.exact (inside.filterMap id) = none ∧
    (h.fill FloatOps.exact 8 inside 1 .pyInt).2 = some (some [0, 0]) ∧
    (h.fill FloatOps.exact 8 inside 1 .pyInt).1.findBin FloatOps.exact (inside.filterMap id) = some [0, 0] ∧
    (h.fill FloatOps.exact 8 inside 1 .pyInt).1.freq = ⟨[4, 2], [1, 0, 0, 0, 1, 2, 3, 4]⟩ := by
  decide +kernel

example :
    (h.fill FloatOps.exact 8 inside 1 .pyInt).2
      = some ((h.fill FloatOps.exact 8 inside 1 .pyInt).1.findBin FloatOps.exact (inside.filterMap id)) :=
  fill_snd_eq_findBin FloatOps.exact 8 h inside 1 .pyInt inside_finite

/-- a NaN coordinate: nothing is returned, nothing changes -/
example : h.fill FloatOps.exact 8 [some (-3 / 2), none] 1 .pyFloat = (h, none) :=
  fill_of_nan FloatOps.exact 8 h _ 1 .pyFloat (by decide)

end ExampleFind

end Physt

import Physt.Proofs.Lists
import Physt.Theorems.C01
/-! `calc1d` is additive in the data (a monoid homomorphism), and `fill` adds a one-point histogram. -/
namespace Physt
open H1

theorem wsum_nil : wsum [] = 0 := rfl
theorem w2sum_nil : w2sum [] = 0 := rfl

theorem calc1d_freq_length (bins : Bins) (d : List Pt) : (calc1d bins d).freq.length = bins.length :=
  (C01_shape bins d).1
theorem calc1d_err2_length (bins : Bins) (d : List Pt) : (calc1d bins d).err2.length = bins.length :=
  (C01_shape bins d).2

theorem calc1d_append_freq (bins : Bins) (hb : Rising bins) (a b : List Pt) :
    (calc1d bins (a ++ b)).freq = zipAdd (calc1d bins a).freq (calc1d bins b).freq := by
  apply List.ext_getElem?
  intro i
  rw [zipAdd_getElem?]
  by_cases hi : i < bins.length
  · rw [(C01_content bins (a ++ b) hb i hi).1, (C01_content bins a hb i hi).1, (C01_content bins b hb i hi).1]
    simp [List.filter_append, wsum_append]
  · have h1 := calc1d_freq_length bins (a ++ b)
    have h2 := calc1d_freq_length bins a
    rw [List.getElem?_eq_none (by omega), List.getElem?_eq_none (by omega)]
    rfl

theorem calc1d_append_err2 (bins : Bins) (hb : Rising bins) (a b : List Pt) :
    (calc1d bins (a ++ b)).err2 = zipAdd (calc1d bins a).err2 (calc1d bins b).err2 := by
  apply List.ext_getElem?
  intro i
  rw [zipAdd_getElem?]
  by_cases hi : i < bins.length
  · rw [(C01_content bins (a ++ b) hb i hi).2, (C01_content bins a hb i hi).2, (C01_content bins b hb i hi).2]
    simp [List.filter_append, w2sum_append]
  · have h1 := calc1d_err2_length bins (a ++ b)
    have h2 := calc1d_err2_length bins a
    rw [List.getElem?_eq_none (by omega), List.getElem?_eq_none (by omega)]
    rfl

theorem calc1d_append_missed (bins : Bins) (hne : bins ≠ []) (a b : List Pt) :
    (calc1d bins (a ++ b)).under = nadd (calc1d bins a).under (calc1d bins b).under ∧
    (calc1d bins (a ++ b)).over = nadd (calc1d bins a).over (calc1d bins b).over := by
  by_cases hc : consecutiveB bins = true
  · obtain ⟨b0, h0⟩ : ∃ b0, bins.head? = some b0 := by
      cases bins with
      | nil => exact (hne rfl).elim
      | cons x xs => exact ⟨x, rfl⟩
    have hl : bins.getLast? = some (bins.getLast hne) := List.getLast?_eq_some_getLast _
    have e1 := C01_under_over bins (a ++ b) hc b0 _ h0 hl
    have e2 := C01_under_over bins a hc b0 _ h0 hl
    have e3 := C01_under_over bins b hc b0 _ h0 hl
    rw [e1.1, e1.2, e2.1, e2.2, e3.1, e3.2]
    simp [nadd, List.filter_append, wsum_append]
  · have hc' : consecutiveB bins = false := by simpa using hc
    rw [(C01_gaps bins (a ++ b) hc').1, (C01_gaps bins (a ++ b) hc').2, (C01_gaps bins a hc').1,
      (C01_gaps bins a hc').2]
    simp [nadd]

theorem calc1d_nil_freq (bins : Bins) (hb : Rising bins) : (calc1d bins []).freq = zeros bins.length := by
  apply List.ext_getElem?
  intro i
  by_cases hi : i < bins.length
  · rw [(C01_content bins [] hb i hi).1]
    simp [zeros, List.getElem?_replicate, hi, wsum]
  · have h1 := calc1d_freq_length bins []
    rw [List.getElem?_eq_none (by omega)]
    simp [zeros, List.getElem?_replicate, hi]

theorem calc1d_nil_err2 (bins : Bins) (hb : Rising bins) : (calc1d bins []).err2 = zeros bins.length := by
  apply List.ext_getElem?
  intro i
  by_cases hi : i < bins.length
  · rw [(C01_content bins [] hb i hi).2]
    simp [zeros, List.getElem?_replicate, hi, w2sum]
  · have h1 := calc1d_err2_length bins []
    rw [List.getElem?_eq_none (by omega)]
    simp [zeros, List.getElem?_replicate, hi]

/-- contents of the histogram of a single point -/
theorem calc1d_single (bins : Bins) (hb : Rising bins) (v w : Rat) :
    (∀ i, inBin bins true i v = true →
      (calc1d bins [(v, w)]).freq = indicator bins.length i w ∧
      (calc1d bins [(v, w)]).err2 = indicator bins.length i (w * w)) ∧
    ((∀ i, inBin bins true i v = false) →
      (calc1d bins [(v, w)]).freq = zeros bins.length ∧ (calc1d bins [(v, w)]).err2 = zeros bins.length) := by
  constructor
  · intro i hi
    constructor
    · apply List.ext_getElem?
      intro j
      by_cases hj : j < bins.length
      · rw [(C01_content bins [(v, w)] hb j hj).1]
        simp only [indicator, List.getElem?_map, List.getElem?_range hj, Option.map_some]
        by_cases hji : j = i
        · subst hji; simp [hi, wsum]
        · have : inBin bins true j v = false := by
            by_contra hne
            have : inBin bins true j v = true := by simpa using hne
            exact hji (C01_once bins hb v j i this hi)
          simp [this, hji, wsum]
      · have h1 := calc1d_freq_length bins [(v, w)]
        rw [List.getElem?_eq_none (by omega)]
        simp [indicator, hj]
    · apply List.ext_getElem?
      intro j
      by_cases hj : j < bins.length
      · rw [(C01_content bins [(v, w)] hb j hj).2]
        simp only [indicator, List.getElem?_map, List.getElem?_range hj, Option.map_some]
        by_cases hji : j = i
        · subst hji; simp [hi, w2sum]
        · have : inBin bins true j v = false := by
            by_contra hne
            have : inBin bins true j v = true := by simpa using hne
            exact hji (C01_once bins hb v j i this hi)
          simp [this, hji, w2sum]
      · have h1 := calc1d_err2_length bins [(v, w)]
        rw [List.getElem?_eq_none (by omega)]
        simp [indicator, hj]
  · intro hnone
    constructor
    · apply List.ext_getElem?
      intro j
      by_cases hj : j < bins.length
      · rw [(C01_content bins [(v, w)] hb j hj).1]
        simp [hnone j, zeros, List.getElem?_replicate, hj, wsum]
      · have h1 := calc1d_freq_length bins [(v, w)]
        rw [List.getElem?_eq_none (by omega)]
        simp [zeros, List.getElem?_replicate, hj]
    · apply List.ext_getElem?
      intro j
      by_cases hj : j < bins.length
      · rw [(C01_content bins [(v, w)] hb j hj).2]
        simp [hnone j, zeros, List.getElem?_replicate, hj, w2sum]
      · have h1 := calc1d_err2_length bins [(v, w)]
        rw [List.getElem?_eq_none (by omega)]
        simp [zeros, List.getElem?_replicate, hj]

end Physt

import Physt.Proofs.FindBin
import Physt.Model.HistND
/-!
# `to_numpy_bins_with_mask` + `histogramdd` + mask lookup finds the bin that contains the value

`axisCell` (the route taken by `calculate_nd_frequencies`) and `HN.findBinAxis` (the route taken by
`find_bin`) both return bin `i` exactly when `inBin bins ire i x`, for every rising binning, every
value and both right-edge conventions; hence they agree.
-/
namespace Physt

/-! ## generic list facts -/

/-- In a strictly increasing list the number `k` of entries `≤ x` separates the entries `≤ x`
    (positions `< k`) from the entries `> x`. -/
theorem countLe_spec (E : List Rat) (h : E.Pairwise (· < ·)) (x : Rat) :
    ∀ t e, E[t]? = some e → (t < (E.filter fun e => decide (e ≤ x)).length ↔ e ≤ x) := by
  induction E with
  | nil => intro t e he; simp at he
  | cons a E ih =>
    rw [List.pairwise_cons] at h
    intro t e he
    by_cases ha : a ≤ x
    · have hf : ((a :: E).filter fun e => decide (e ≤ x)).length
          = (E.filter fun e => decide (e ≤ x)).length + 1 := by
        simp [ha]
      rw [hf]
      cases t with
      | zero =>
        simp only [List.getElem?_cons_zero, Option.some.injEq] at he
        subst he
        simp [ha]
      | succ t =>
        simp only [List.getElem?_cons_succ] at he
        rw [← ih h.2 t e he]
        omega
    · have hall : ∀ b ∈ E, ¬ b ≤ x := by
        intro b hb hbx
        have := h.1 b hb
        exact ha (by linarith)
      have hf : ((a :: E).filter fun e => decide (e ≤ x)) = [] := by
        rw [List.filter_eq_nil_iff]
        intro b hb
        rcases List.mem_cons.mp hb with rfl | hb
        · simpa using ha
        · simpa using hall b hb
      rw [hf]
      have hmem : e ∈ a :: E := List.mem_of_getElem? he
      have hne : ¬ e ≤ x := by
        rcases List.mem_cons.mp hmem with rfl | hm
        · exact ha
        · exact hall e hm
      simp [hne]

/-- the mask lookup `ix_(mask)` on a duplicate-free mask -/
theorem idxOf_lookup (ms : List Nat) (hnd : ms.Nodup) (nb i : Nat) :
    (if ms.idxOf nb < ms.length then some (ms.idxOf nb) else none) = some i ↔ ms[i]? = some nb := by
  constructor
  · intro h
    by_cases hlt : ms.idxOf nb < ms.length
    · simp only [hlt, if_true, Option.some.injEq] at h
      subst h
      rw [List.getElem?_eq_getElem hlt, List.getElem_idxOf hlt]
    · simp [hlt] at h
  · intro h
    obtain ⟨hi, hget⟩ := List.getElem?_eq_some_iff.mp h
    have := hnd.idxOf_getElem i hi
    rw [hget] at this
    rw [this]
    simp [hi]

/-! ## the structure of `maskedEdgesAux` -/

theorem maskedEdgesAux_cons₂ (l r l' r' : Rat) (rest : Bins) (j : Nat) :
    maskedEdgesAux ((l, r) :: (l', r') :: rest) j =
      if r = l' then
        (r :: (maskedEdgesAux ((l', r') :: rest) (j + 1)).1,
          j :: (maskedEdgesAux ((l', r') :: rest) (j + 1)).2)
      else
        (r :: l' :: (maskedEdgesAux ((l', r') :: rest) (j + 2)).1,
          j :: (maskedEdgesAux ((l', r') :: rest) (j + 2)).2) := by
  rw [maskedEdgesAux]

/-- The invariant connecting a binning, the list `E` of all its edges (gaps included) and the
    mask `ms` of the real bins, numbered from `j`. -/
structure MaskInv (bins : Bins) (j : Nat) (E : List Rat) (ms : List Nat) : Prop where
  len : ms.length = bins.length
  ge : ∀ m ∈ ms, j ≤ m
  incr : ms.Pairwise (· < ·)
  sorted : E.Pairwise (· < ·)
  pos : ∀ i a b, bins[i]? = some (a, b) →
    ∃ m, ms[i]? = some m ∧ j ≤ m ∧ E[m - j]? = some a ∧ E[m - j + 1]? = some b ∧
      (i + 1 = bins.length → m + 2 = j + E.length)

theorem MaskInv.single (l r : Rat) (h : l < r) (j : Nat) : MaskInv [(l, r)] j [l, r] [j] where
  len := rfl
  ge := by simp
  incr := by simp
  sorted := by simp [h]
  pos := by
    intro i a b hi
    cases i with
    | zero =>
      simp only [List.getElem?_cons_zero, Option.some.injEq, Prod.mk.injEq] at hi
      obtain ⟨rfl, rfl⟩ := hi
      exact ⟨j, by simp⟩
    | succ i => simp at hi

theorem MaskInv.step_eq {l l' r' : Rat} {rest : Bins} {j : Nat} {es : List Rat} {ms : List Nat}
    (h : MaskInv ((l', r') :: rest) (j + 1) (l' :: es) ms) (hl : l < l') :
    MaskInv ((l, l') :: (l', r') :: rest) j (l :: l' :: es) (j :: ms) where
  len := by simp [h.len]
  ge := by
    intro m hm
    rcases List.mem_cons.mp hm with rfl | hm
    · exact Nat.le_refl _
    · have := h.ge m hm; omega
  incr := by
    rw [List.pairwise_cons]
    exact ⟨fun m hm => h.ge m hm, h.incr⟩
  sorted := by
    have hs := h.sorted
    rw [List.pairwise_cons]
    refine ⟨?_, hs⟩
    rw [List.pairwise_cons] at hs
    intro e he
    rcases List.mem_cons.mp he with rfl | he
    · exact hl
    · exact lt_trans hl (hs.1 e he)
  pos := by
    intro i a b hi
    cases i with
    | zero =>
      simp only [List.getElem?_cons_zero, Option.some.injEq, Prod.mk.injEq] at hi
      obtain ⟨rfl, rfl⟩ := hi
      exact ⟨j, by simp⟩
    | succ i =>
      simp only [List.getElem?_cons_succ] at hi
      obtain ⟨m, hm, hjm, ha, hb, hlast⟩ := h.pos i a b hi
      refine ⟨m, by simpa using hm, by omega, ?_, ?_, ?_⟩
      · have : m - j = (m - (j + 1)) + 1 := by omega
        rw [this, List.getElem?_cons_succ]; exact ha
      · have : m - j + 1 = (m - (j + 1) + 1) + 1 := by omega
        rw [this, List.getElem?_cons_succ]; exact hb
      · intro hlen
        simp only [List.length_cons] at hlen hlast ⊢
        have := hlast (by omega)
        omega

theorem MaskInv.step_gap {l r l' r' : Rat} {rest : Bins} {j : Nat} {es : List Rat} {ms : List Nat}
    (h : MaskInv ((l', r') :: rest) (j + 2) (l' :: es) ms) (hl : l < r) (hr : r < l') :
    MaskInv ((l, r) :: (l', r') :: rest) j (l :: r :: l' :: es) (j :: ms) where
  len := by simp [h.len]
  ge := by
    intro m hm
    rcases List.mem_cons.mp hm with rfl | hm
    · exact Nat.le_refl _
    · have := h.ge m hm; omega
  incr := by
    rw [List.pairwise_cons]
    exact ⟨fun m hm => by have := h.ge m hm; omega, h.incr⟩
  sorted := by
    have hs := h.sorted
    have hs' := hs
    rw [List.pairwise_cons] at hs'
    have h2 : (r :: l' :: es).Pairwise (· < ·) := by
      rw [List.pairwise_cons]
      refine ⟨?_, hs⟩
      intro e he
      rcases List.mem_cons.mp he with rfl | he
      · exact hr
      · exact lt_trans hr (hs'.1 e he)
    rw [List.pairwise_cons]
    refine ⟨?_, h2⟩
    rw [List.pairwise_cons] at h2
    intro e he
    rcases List.mem_cons.mp he with rfl | he
    · exact hl
    · exact lt_trans hl (h2.1 e he)
  pos := by
    intro i a b hi
    cases i with
    | zero =>
      simp only [List.getElem?_cons_zero, Option.some.injEq, Prod.mk.injEq] at hi
      obtain ⟨rfl, rfl⟩ := hi
      exact ⟨j, by simp⟩
    | succ i =>
      simp only [List.getElem?_cons_succ] at hi
      obtain ⟨m, hm, hjm, ha, hb, hlast⟩ := h.pos i a b hi
      refine ⟨m, by simpa using hm, by omega, ?_, ?_, ?_⟩
      · have : m - j = (m - (j + 2)) + 1 + 1 := by omega
        rw [this, List.getElem?_cons_succ, List.getElem?_cons_succ]; exact ha
      · have : m - j + 1 = (m - (j + 2) + 1) + 1 + 1 := by omega
        rw [this, List.getElem?_cons_succ, List.getElem?_cons_succ]; exact hb
      · intro hlen
        simp only [List.length_cons] at hlen hlast ⊢
        have := hlast (by omega)
        omega

/-- `maskedEdgesAux` on a rising binning satisfies the invariant. -/
theorem maskInv_aux (rest : Bins) : ∀ (l r : Rat) (j : Nat), Rising ((l, r) :: rest) →
    MaskInv ((l, r) :: rest) j (l :: (maskedEdgesAux ((l, r) :: rest) j).1)
      (maskedEdgesAux ((l, r) :: rest) j).2 := by
  induction rest with
  | nil => intro l r j h; exact MaskInv.single l r h j
  | cons c rest ih =>
    obtain ⟨l', r'⟩ := c
    intro l r j h
    have hl : l < r := h.1
    have hr : r ≤ l' := h.2.1
    have ht : Rising ((l', r') :: rest) := h.2.2
    rw [maskedEdgesAux_cons₂]
    by_cases heq : r = l'
    · subst heq
      simp only [if_true]
      exact (ih r r' (j + 1) ht).step_eq hl
    · simp only [heq, if_false]
      exact (ih l' r' (j + 2) ht).step_gap hl (lt_of_le_of_ne hr heq)

theorem maskedEdges_cons (l r : Rat) (rest : Bins) :
    maskedEdges ((l, r) :: rest) =
      (l :: (maskedEdgesAux ((l, r) :: rest) 0).1, (maskedEdgesAux ((l, r) :: rest) 0).2) := rfl

/-- `to_numpy_bins_with_mask` on a rising non-empty binning satisfies the invariant (from 0). -/
theorem maskInv_maskedEdges (bins : Bins) (hb : Rising bins) (hne : bins ≠ []) :
    MaskInv bins 0 (maskedEdges bins).1 (maskedEdges bins).2 := by
  cases bins with
  | nil => exact (hne rfl).elim
  | cons c rest =>
    obtain ⟨l, r⟩ := c
    rw [maskedEdges_cons]
    exact maskInv_aux rest l r 0 hb

theorem axisCell_eq (bins : Bins) (ire : Bool) (x : Rat) :
    axisCell bins ire x =
      match numpyBinOf (maskedEdges bins).1 ire x with
      | none => none
      | some nb =>
        if (maskedEdges bins).2.idxOf nb < (maskedEdges bins).2.length
          then some ((maskedEdges bins).2.idxOf nb) else none := rfl

/-! ## `numpyBinOf` on a strictly increasing edge list -/

/-- `numpyBinOf` returns `m` exactly when `E[m] ≤ x < E[m+1]`, or `x` is the last edge, the
    binning is right-closed and `m` is the last numpy bin. -/
theorem numpyBinOf_spec (E : List Rat) (hs : E.Pairwise (· < ·)) (ire : Bool) (x : Rat) (m : Nat)
    (a b : Rat) (ha : E[m]? = some a) (hb : E[m + 1]? = some b) :
    numpyBinOf E ire x = some m ↔
      a ≤ x ∧ (x < b ∨ (ire = true ∧ m + 2 = E.length ∧ x = b)) := by
  have spec := countLe_spec E hs x
  have hkle : (E.filter fun e => decide (e ≤ x)).length ≤ E.length := List.length_filter_le _ _
  have hm1 : m + 1 < E.length := (List.getElem?_eq_some_iff.mp hb).1
  have sa := spec m a ha
  have sb := spec (m + 1) b hb
  unfold numpyBinOf
  simp only
  generalize (E.filter fun e => decide (e ≤ x)).length = k at *
  constructor
  · intro h
    by_cases hk0 : k = 0
    · simp [hk0] at h
    · simp only [hk0, if_false] at h
      by_cases hkn : k = E.length
      · simp only [hkn, if_true] at h
        by_cases hc : ire = true ∧ E.getLast? = some x ∧ 2 ≤ E.length
        · simp only [hc, and_self, if_true, Option.some.injEq] at h
          have hm2 : m + 2 = E.length := by omega
          have hlast : E[m + 1]? = some x := by
            rw [← hc.2.1, List.getLast?_eq_getElem?]; congr 1; omega
          rw [hb] at hlast
          have hbx : b = x := by simpa using hlast
          refine ⟨sa.mp (by omega), Or.inr ⟨hc.1, hm2, hbx.symm⟩⟩
        · simp [hc] at h
      · simp only [hkn, if_false, Option.some.injEq] at h
        have hkm : k = m + 1 := by omega
        refine ⟨sa.mp (by omega), Or.inl ?_⟩
        have : ¬ b ≤ x := fun hbx => by have := sb.mpr hbx; omega
        exact not_le.mp this
  · rintro ⟨hax, hx⟩
    have hmk : m < k := sa.mpr hax
    have hk0 : ¬ k = 0 := by omega
    simp only [hk0, if_false]
    rcases hx with hxb | ⟨hire, hm2, hxb⟩
    · have hnb : ¬ m + 1 < k := fun hlt => by have := sb.mp hlt; linarith
      have hkn : ¬ k = E.length := by omega
      simp only [hkn, if_false, Option.some.injEq]
      omega
    · have hk : k = E.length := by
        have := sb.mpr (le_of_eq hxb.symm)
        omega
      have hlast : E.getLast? = some x := by
        rw [List.getLast?_eq_getElem?, hxb, ← hb]; congr 1; omega
      have h2 : 2 ≤ E.length := by omega
      simp only [hk, if_true, hire, hlast, h2, and_self, Option.some.injEq]
      omega

/-- if `numpyBinOf` answers `m` then `m` is a numpy bin: both its edges exist -/
theorem numpyBinOf_lt (E : List Rat) (ire : Bool) (x : Rat) (m : Nat)
    (h : numpyBinOf E ire x = some m) : m + 1 < E.length := by
  have hkle : (E.filter fun e => decide (e ≤ x)).length ≤ E.length := List.length_filter_le _ _
  unfold numpyBinOf at h
  simp only at h
  generalize (E.filter fun e => decide (e ≤ x)).length = k at *
  by_cases hk0 : k = 0
  · simp [hk0] at h
  · simp only [hk0, if_false] at h
    by_cases hkn : k = E.length
    · simp only [hkn, if_true] at h
      by_cases hc : ire = true ∧ E.getLast? = some x ∧ 2 ≤ E.length
      · simp only [hc, and_self, if_true, Option.some.injEq] at h
        omega
      · simp [hc] at h
    · simp only [hkn, if_false, Option.some.injEq] at h
      omega

/-! ## the three theorems -/

/-- In the invariant, a mask entry `m = ms[i]` with `m + 2 = E.length` belongs to the last bin. -/
theorem MaskInv.last_of {bins : Bins} {E : List Rat} {ms : List Nat} (h : MaskInv bins 0 E ms)
    (i m : Nat) (hm : ms[i]? = some m) (hlast : m + 2 = E.length) : i + 1 = bins.length := by
  have hi : i < ms.length := (List.getElem?_eq_some_iff.mp hm).1
  have hlen := h.len
  by_contra hne
  have hi1 : i + 1 < bins.length := by omega
  obtain ⟨a', b'⟩ := bins[i + 1]'hi1
  obtain ⟨m', hm', _, _, hb', _⟩ := h.pos (i + 1) _ _ (List.getElem?_eq_getElem hi1)
  have hm'lt : m' + 1 < E.length := by
    have := (List.getElem?_eq_some_iff.mp hb').1
    omega
  have hi1' : i + 1 < ms.length := by omega
  have hlt := List.pairwise_iff_getElem.mp h.incr i (i + 1) hi hi1' (by omega)
  rw [(List.getElem?_eq_some_iff.mp hm).2, (List.getElem?_eq_some_iff.mp hm').2] at hlt
  omega

/-- **`to_numpy_bins_with_mask` + `histogramdd` + mask lookup.**  For a rising binning the cell
    search of `calculate_nd_frequencies` along one axis finds bin `i` exactly when
    `left_i ≤ x < right_i` (the last bin right-closed iff `ire`). -/
theorem axisCell_spec (bins : Bins) (hb : Rising bins) (ire : Bool) (x : Rat) (i : Nat) :
    axisCell bins ire x = some i ↔ inBin bins ire i x = true := by
  by_cases hne : bins = []
  · subst hne
    simp [axisCell_eq, maskedEdges, numpyBinOf, inBin]
  have inv := maskInv_maskedEdges bins hb hne
  rw [axisCell_eq]
  generalize (maskedEdges bins).1 = E at *
  generalize (maskedEdges bins).2 = ms at *
  have hnd : ms.Nodup := inv.incr.imp (fun h => Nat.ne_of_lt h)
  constructor
  · intro h
    cases hnb : numpyBinOf E ire x with
    | none => simp [hnb] at h
    | some nb =>
      simp only [hnb] at h
      have hmi : ms[i]? = some nb := (idxOf_lookup ms hnd nb i).mp h
      have hi : i < bins.length := by
        have := (List.getElem?_eq_some_iff.mp hmi).1
        have := inv.len
        omega
      have hget : bins[i]? = some bins[i] := List.getElem?_eq_getElem hi
      rcases hbi : bins[i] with ⟨a, b⟩
      rw [hbi] at hget
      obtain ⟨m, hm, _, ha, hbb, _⟩ := inv.pos i a b hget
      rw [hmi] at hm
      cases hm
      simp only [Nat.sub_zero] at ha hbb
      have hspec := (numpyBinOf_spec E inv.sorted ire x nb a b ha hbb).mp hnb
      unfold inBin
      rw [hget]
      simp only [Bool.and_eq_true, Bool.or_eq_true, decide_eq_true_eq, beq_iff_eq]
      refine ⟨hspec.1, ?_⟩
      rcases hspec.2 with h1 | ⟨h1, h2, h3⟩
      · exact Or.inl h1
      · exact Or.inr ⟨⟨h1, inv.last_of i nb hmi h2⟩, h3⟩
  · intro h
    unfold inBin at h
    cases hget : bins[i]? with
    | none => simp [hget] at h
    | some c =>
      obtain ⟨a, b⟩ := c
      simp only [hget, Bool.and_eq_true, Bool.or_eq_true, decide_eq_true_eq, beq_iff_eq] at h
      obtain ⟨m, hm, _, ha, hbb, hlast⟩ := inv.pos i a b hget
      simp only [Nat.sub_zero, Nat.zero_add] at ha hbb hlast
      have hnb : numpyBinOf E ire x = some m := by
        rw [numpyBinOf_spec E inv.sorted ire x m a b ha hbb]
        refine ⟨h.1, ?_⟩
        rcases h.2 with h1 | ⟨⟨h1, h2⟩, h3⟩
        · exact Or.inl h1
        · exact Or.inr ⟨h1, hlast h2, h3⟩
      simp only [hnb]
      exact (idxOf_lookup ms hnd m i).mpr hm

/-- **find_bin along an axis**, both right-edge conventions. -/
theorem findBinAxis_spec (bins : Bins) (hb : Rising bins) (ire : Bool) (v : Rat) (i : Nat) :
    HN.findBinAxis bins ire v = some i ↔ inBin bins ire i v = true := by
  have spec := leCount_spec bins hb v
  have hpw := hb.pairwise
  unfold HN.findBinAxis
  simp only
  rw [show (bins.filter fun b => decide (b.1 ≤ v)).length = leCount bins v from rfl]
  have hkle : leCount bins v ≤ bins.length := List.length_filter_le _ _
  generalize leCount bins v = k at *
  constructor
  · intro h
    by_cases hk0 : k = 0
    · simp [hk0] at h
    · simp only [hk0, if_false] at h
      cases hget : bins[k - 1]? with
      | none => simp [hget] at h
      | some b =>
        obtain ⟨l, r⟩ := b
        simp only [hget] at h
        have hle : l ≤ v := (spec _ _ hget).mp (by omega)
        by_cases hkn : k = bins.length
        · simp only [hkn, if_true] at h
          by_cases hvr : v < r ∨ (v = r ∧ ire = true)
          · simp only [hvr, if_true, Option.some.injEq] at h
            subst h
            unfold inBin
            rw [hkn] at hget
            rw [hget]
            have hlen : bins.length - 1 + 1 = bins.length := by omega
            simp only [hle, decide_true, Bool.true_and, hlen, beq_self_eq_true, Bool.or_eq_true,
              decide_eq_true_eq, Bool.and_eq_true, and_true]
            rcases hvr with h1 | ⟨h1, h2⟩
            · exact Or.inl h1
            · exact Or.inr ⟨h2, h1⟩
          · simp [hvr] at h
        · simp only [hkn, if_false] at h
          by_cases hvr : v < r
          · simp only [hvr, if_true, Option.some.injEq] at h
            subst h
            unfold inBin
            rw [hget]
            simp [hle, hvr]
          · simp [hvr] at h
  · intro h
    unfold inBin at h
    cases hget : bins[i]? with
    | none => simp [hget] at h
    | some b =>
      obtain ⟨l, r⟩ := b
      simp only [hget, Bool.and_eq_true, Bool.or_eq_true, decide_eq_true_eq, beq_iff_eq] at h
      have hin : i < bins.length := (List.getElem?_eq_some_iff.mp hget).1
      have hik : i < k := (spec i (l, r) hget).mpr h.1
      have hk : k = i + 1 := by
        by_contra hne
        have hgt : i + 1 < k := by omega
        have hin1 : i + 1 < bins.length := by omega
        obtain ⟨b1, hb1⟩ : ∃ b1, bins[i + 1]? = some b1 := ⟨_, List.getElem?_eq_getElem hin1⟩
        have h1 : b1.1 ≤ v := (spec (i + 1) b1 hb1).mp hgt
        have h2 := List.pairwise_iff_getElem.mp hpw i (i + 1) hin hin1 (by omega)
        rw [(List.getElem?_eq_some_iff.mp hget).2, (List.getElem?_eq_some_iff.mp hb1).2] at h2
        simp only at h2
        rcases h.2 with h3 | h3
        · linarith
        · omega
      have hk0 : ¬ k = 0 := by omega
      simp only [hk, Nat.add_sub_cancel, hget]
      have hne : bins ≠ [] := by intro h0; subst h0; simp at hin
      by_cases hlast : i + 1 = bins.length
      · simp only [hlast, if_true]
        rcases h.2 with h3 | h3
        · simp [h3, hne]
        · simp [h3.2, h3.1.1, hne]
      · simp only [hlast, if_false]
        rcases h.2 with h3 | h3
        · simp [h3]
        · exact (hlast h3.1.2).elim

/-- The cell search of `calculate_nd_frequencies` and `find_bin` agree along every rising axis. -/
theorem axisCell_eq_findBinAxis (bins : Bins) (hb : Rising bins) (ire : Bool) (x : Rat) :
    axisCell bins ire x = HN.findBinAxis bins ire x :=
  Option.ext fun i => (axisCell_spec bins hb ire x i).trans (findBinAxis_spec bins hb ire x i).symm

end Physt

import Physt.Proofs.Sorted
/-! Helper lemmas about `calc1d`, `Rising`, `inBin`. -/
namespace Physt

theorem sweepAux_getElem? (s : List Pt) (n : Nat) (bs : Bins) (k j : Nat) :
    (sweepAux s n k bs)[j]? = bs[j]?.map (binSlice s n (k + j)) := by
  induction bs generalizing k j with
  | nil => simp [sweepAux]
  | cons b bs ih =>
    cases j with
    | zero => simp [sweepAux]
    | succ j =>
      simp only [sweepAux, List.getElem?_cons_succ]
      rw [ih (k + 1) j]
      congr 2; omega

theorem sweepAux_length (s : List Pt) (n : Nat) (bs : Bins) (k : Nat) :
    (sweepAux s n k bs).length = bs.length := by
  induction bs generalizing k with
  | nil => simp [sweepAux]
  | cons b bs ih => simp [sweepAux, ih]

theorem Rising.tail {b : Bin} {bs : Bins} (h : Rising (b :: bs)) : Rising bs := by
  cases bs with
  | nil => trivial
  | cons c cs => obtain ⟨l, r⟩ := b; obtain ⟨l', r'⟩ := c; exact h.2.2

theorem Rising.head_lt {b : Bin} {bs : Bins} (h : Rising (b :: bs)) : b.1 < b.2 := by
  cases bs with
  | nil => obtain ⟨l, r⟩ := b; exact h
  | cons c cs => obtain ⟨l, r⟩ := b; obtain ⟨l', r'⟩ := c; exact h.1

theorem Rising.lt {bins : Bins} (h : Rising bins) : ∀ b ∈ bins, b.1 < b.2 := by
  induction bins with
  | nil => intro b hb; cases hb
  | cons c cs ih =>
    intro b hb
    rcases List.mem_cons.mp hb with rfl | hb
    · exact h.head_lt
    · exact ih h.tail b hb

/-- In a rising binning every later bin starts at or after the end of every earlier bin. -/
theorem Rising.pairwise {bins : Bins} (h : Rising bins) :
    bins.Pairwise fun a b => a.2 ≤ b.1 := by
  induction bins with
  | nil => exact List.Pairwise.nil
  | cons c cs ih =>
    rw [List.pairwise_cons]
    refine ⟨?_, ih h.tail⟩
    cases cs with
    | nil => intro b hb; cases hb
    | cons d ds =>
      obtain ⟨l, r⟩ := c; obtain ⟨l', r'⟩ := d
      have h1 : r ≤ l' := h.2.1
      have hpw := ih h.tail
      rw [List.pairwise_cons] at hpw
      intro b hb
      rcases List.mem_cons.mp hb with rfl | hb
      · exact h1
      · have hlt : l' < r' := (Rising.tail h).head_lt
        have := hpw.1 b hb
        simp only at this
        linarith

theorem risingB_iff (bins : Bins) : risingB bins = true ↔ Rising bins := by
  induction bins with
  | nil => simp [risingB, Rising]
  | cons c cs ih =>
    cases cs with
    | nil => obtain ⟨l, r⟩ := c; simp [risingB, Rising]
    | cons d ds =>
      obtain ⟨l, r⟩ := c; obtain ⟨l', r'⟩ := d
      simp only [risingB, Rising, Bool.and_eq_true, decide_eq_true_eq]
      rw [ih]
      tauto

theorem not_decide_lt (a b : Rat) : (!decide (a < b)) = decide (b ≤ a) := by
  by_cases h : a < b
  · simp [h, not_le.mpr h]
  · simp [h, not_lt.mp h]

/-- The slice assigned to bin `i` is the filter of the sorted data by the bin's interval. -/
theorem binSlice_eq_filter (s : List Pt) (hs : SortedV s) (n i : Nat) (b : Bin) (hb : b.1 < b.2) :
    binSlice s n i b = s.filter fun p =>
      decide (b.1 ≤ p.1) && (if i + 1 = n then decide (p.1 ≤ b.2) else decide (p.1 < b.2)) := by
  unfold binSlice ssLeft ssRight
  by_cases hin : i + 1 = n
  · simp only [hin, if_true]
    rw [pySlice_eq_filter _ _ (downClosed_lt b.1) (downClosed_le b.2) ?_ s hs]
    · congr 1; funext p; rw [not_decide_lt]
    · intro x hx; simp only [decide_eq_true_eq] at hx ⊢; linarith
  · simp only [hin, if_false]
    rw [pySlice_eq_filter _ _ (downClosed_lt b.1) (downClosed_lt b.2) ?_ s hs]
    · congr 1; funext p; rw [not_decide_lt]
    · intro x hx; simp only [decide_eq_true_eq] at hx ⊢; linarith

theorem inBin_eq (bins : Bins) (i : Nat) (l r : Rat) (h : bins[i]? = some (l, r)) (v : Rat) :
    inBin bins true i v =
      (decide (l ≤ v) && (if i + 1 = bins.length then decide (v ≤ r) else decide (v < r))) := by
  unfold inBin
  rw [h]
  by_cases hin : i + 1 = bins.length
  · simp only [hin, if_true, Bool.true_and, beq_self_eq_true]
    congr 1
    rw [Bool.eq_iff_iff]
    simp [le_iff_lt_or_eq]
  · have hb : (i + 1 == bins.length) = false := beq_eq_false_iff_ne.mpr hin
    simp [hb, hin]

end Physt

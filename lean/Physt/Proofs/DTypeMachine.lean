import Physt.Model.DTypeMachine
/-!
# Lemmas about the dtype machine (`Model/DTypeMachine.lean`)

Finite facts about numpy's promotion table (by exhaustive `decide`), then what each primitive of
the machine (`setAll`, `coerce`, `assignFreq`, `assignErr2`, `reshape`, …) does to the two
invariants `Consistent` and `MissedInv`.
-/
namespace Physt
open DType

namespace DType

theorem promote_self (a : DType) : promote a a = a := by cases a <;> decide

theorem promote_comm (a b : DType) : promote a b = promote b a := by cases a <;> cases b <;> decide

/-- promoting twice by the same type is promoting once -/
theorem promote_promote_right (a b : DType) : promote (promote a b) b = promote a b := by
  cases a <;> cases b <;> decide

/-- `k` is absorbed by `x` (`promote x k = x`) — then it is absorbed by anything `x` is promoted to -/
theorem above_promote (k x t : DType) : promote x k = x → promote (promote x t) k = promote x t := by
  cases k <;> cases x <;> cases t <;> decide

theorem promote_float_left (a b : DType) : a.isInt = false → (promote a b).isInt = false := by
  cases a <;> cases b <;> decide

theorem promote_float_right (a b : DType) : b.isInt = false → (promote a b).isInt = false := by
  cases a <;> cases b <;> decide

theorem promote_int (a b : DType) : a.isInt = true → b.isInt = true → (promote a b).isInt = true := by
  cases a <;> cases b <;> decide

theorem promote_isInt (a b : DType) : (promote a b).isInt = (a.isInt && b.isInt) := by
  cases a <;> cases b <;> decide

theorem canCast_promote_left (a b : DType) : canCast a (promote a b) = true := by
  cases a <;> cases b <;> decide

theorem canCast_promote_right (a b : DType) : canCast b (promote a b) = true := by
  cases a <;> cases b <;> decide

theorem canCast_refl (a : DType) : canCast a a = true := by cases a <;> decide

theorem canCast_trans (a b c : DType) : canCast a b = true → canCast b c = true → canCast a c = true := by
  cases a <;> cases b <;> cases c <;> decide

theorem canCast_sumType (a : DType) : canCast a a.sumType = true := by cases a <;> decide

theorem sumType_isInt (a : DType) : a.sumType.isInt = a.isInt := by cases a <;> decide

theorem sumType_eq_iff (a : DType) : a.sumType = a ↔ (a ≠ i16 ∧ a ≠ i32) := by cases a <;> decide

theorem weakFloat_float (a : DType) : a.isInt = false → a.weakFloat = a := by
  intro h; simp [weakFloat, h]

theorem weakFloat_isInt (a : DType) : a.weakFloat.isInt = false := by cases a <;> decide

/-- after `_coerce_dtype(np.float64)` the type is float64 or float128 -/
theorem promote_f64 (a : DType) : promote a f64 = f64 ∨ promote a f64 = f128 := by cases a <;> decide

theorem promote_f64_isInt (a : DType) : (promote a f64).isInt = false := by cases a <;> decide

end DType

namespace DScalar

/-- `array * c` after `_coerce_dtype(dtype of c)` stays in the coerced type -/
theorem mulType_coerced (r : DType) (c : DScalar) : c.mulType (promote r c.dtype) = promote r c.dtype := by
  cases c with
  | pyInt => rfl
  | pyFloat => cases r <;> decide
  | np k => exact promote_promote_right r k

/-- `array / c` after `_coerce_dtype(np.float64)` stays in the coerced type — **except** for a
    float128 numpy scalar under a narrower histogram -/
theorem divType_coerced (r : DType) (c : DScalar) :
    c.divType (promote r f64) = promote r f64 ↔ ¬ (c = .np f128 ∧ r ≠ f128) := by
  cases c with
  | pyInt => cases r <;> decide
  | pyFloat => cases r <;> decide
  | np k => cases r <;> cases k <;> decide

theorem divType_coerced_isInt (r : DType) (c : DScalar) : (c.divType (promote r f64)).isInt = false := by
  cases c with
  | pyInt => cases r <;> decide
  | pyFloat => cases r <;> decide
  | np k => cases r <;> cases k <;> decide

/-- a float128 divisor: the quotient is float128 -/
theorem divType_f128 (a : DType) : (DScalar.np f128).divType a = f128 := by cases a <;> decide

theorem mulType_float (a : DType) (c : DScalar) : a.isInt = false → (c.mulType a).isInt = false := by
  cases c with
  | pyInt => exact id
  | pyFloat => intro h; simpa [mulType, weakFloat_float a h] using h
  | np k => exact promote_float_left a k

/-- `array * c` is the array's type or a float type … -/
theorem mulType_py (a : DType) (c : DScalar) (hc : ∀ k, c ≠ .np k) : c.mulType a = a ∨ (c.mulType a).isInt = false := by
  cases c with
  | pyInt => exact .inl rfl
  | pyFloat => exact .inr (weakFloat_isInt a)
  | np k => exact absurd rfl (hc k)

end DScalar

/-! ## `Consistent`: the reported dtype is the element type of `frequencies` and `errors2` -/

/-- **The invariant of C13's first sentence.** -/
def Consistent (s : DState) : Prop := s.freq = s.reported ∧ s.err2 = s.reported

instance (s : DState) : Decidable (Consistent s) := by unfold Consistent; infer_instance

namespace DState

theorem setAll_consistent (s : DState) (v : DType) : Consistent (s.setAll v) := ⟨rfl, rfl⟩

@[simp] theorem setAll_reported (s : DState) (v : DType) : (s.setAll v).reported = v := rfl
@[simp] theorem setAll_freq (s : DState) (v : DType) : (s.setAll v).freq = v := rfl
@[simp] theorem setAll_err2 (s : DState) (v : DType) : (s.setAll v).err2 = v := rfl
@[simp] theorem setAll_missedNaN (s : DState) (v : DType) : (s.setAll v).missedNaN = s.missedNaN := rfl

theorem coerce_reported (s : DState) (k : DType) : (s.coerce k).reported = promote s.reported k := by
  simp only [coerce]
  split
  · rename_i h; exact h.symm
  · rfl

theorem coerce_missedNaN (s : DState) (k : DType) : (s.coerce k).missedNaN = s.missedNaN := by
  simp only [coerce]; split <;> rfl

theorem coerce_consistent {s : DState} (h : Consistent s) (k : DType) : Consistent (s.coerce k) := by
  simp only [coerce]
  split
  · exact h
  · exact setAll_consistent _ _

/-- a consistent histogram after `_coerce_dtype(k)`: all three types are `promote reported k` -/
theorem coerce_all {s : DState} (h : Consistent s) (k : DType) :
    (s.coerce k).reported = promote s.reported k ∧ (s.coerce k).freq = promote s.reported k ∧
    (s.coerce k).err2 = promote s.reported k := by
  have hc := coerce_consistent h k
  have hr := coerce_reported s k
  exact ⟨hr, hc.1.trans hr, hc.2.trans hr⟩

/-- coercion by a type that is already absorbed does nothing -/
theorem coerce_of_above (s : DState) (k : DType) (h : promote s.reported k = s.reported) : s.coerce k = s := by
  simp [coerce, h]

theorem setDType_consistent {s : DState} (h : Consistent s) (d : DType) (fit : Bool) :
    Consistent (s.setDType d fit) := by
  simp only [setDType]
  split
  · exact h
  · split
    · exact setAll_consistent _ _
    · exact h

theorem reshape_consistent {s : DState} (h : Consistent s) : Consistent s.reshape := ⟨h.1, h.1⟩

@[simp] theorem reshape_reported (s : DState) : s.reshape.reported = s.reported := rfl
@[simp] theorem reshape_freq (s : DState) : s.reshape.freq = s.freq := rfl
@[simp] theorem reshape_err2 (s : DState) : s.reshape.err2 = s.freq := rfl

/-- assigning an array that already has the content type: both versions of the setter just store it -/
theorem assignFreq_same (cfg : Cfg) (s : DState) : s.assignFreq cfg s.reported = { s with freq := s.reported } := by
  simp [assignFreq]

theorem assignErr2_same (cfg : Cfg) (s : DState) : s.assignErr2 cfg s.reported = { s with err2 := s.reported } := by
  simp [assignErr2]

/-- the repaired setter re-establishes consistency whatever is assigned -/
theorem assignFreq_patched {cfg : Cfg} (hcfg : cfg.castOnAssign = true) (s : DState) (t : DType)
    (he : s.err2 = s.reported) : Consistent (s.assignFreq cfg t) := by
  simp only [assignFreq, hcfg, if_true]
  split
  · rename_i h; exact ⟨h, he⟩
  · simp only [coerce]
    split
    · exact ⟨rfl, he⟩
    · exact ⟨rfl, rfl⟩

theorem assignErr2_patched {cfg : Cfg} (hcfg : cfg.castOnAssign = true) (s : DState) (t : DType)
    (hf : s.freq = s.reported) : Consistent (s.assignErr2 cfg t) := by
  simp only [assignErr2, hcfg, if_true]
  split
  · rename_i h; exact ⟨hf, h⟩
  · simp only [coerce]
    split
    · exact ⟨hf, rfl⟩
    · exact ⟨rfl, rfl⟩

/-- the setter of commit d3f2ae4 stores the array as it comes -/
theorem assignFreq_head {cfg : Cfg} (hcfg : cfg.castOnAssign = false) (s : DState) (t : DType) :
    s.assignFreq cfg t = { s with freq := t } := by
  simp [assignFreq, hcfg]

theorem assignErr2_head {cfg : Cfg} (hcfg : cfg.castOnAssign = false) (s : DState) (t : DType) :
    s.assignErr2 cfg t = { s with err2 := t } := by
  simp [assignErr2, hcfg]

/-- the repaired setter, assigned a type that differs from the content type: the histogram is
    promoted to hold it -/
theorem assignFreq_patched_reported {cfg : Cfg} (hcfg : cfg.castOnAssign = true) (s : DState) (t : DType) :
    (s.assignFreq cfg t).reported = promote s.reported t := by
  simp only [assignFreq, hcfg, if_true]
  split
  · rename_i h; subst h; exact (promote_self _).symm
  · exact coerce_reported s t

theorem assignErr2_patched_reported {cfg : Cfg} (hcfg : cfg.castOnAssign = true) (s : DState) (t : DType) :
    (s.assignErr2 cfg t).reported = promote s.reported t := by
  simp only [assignErr2, hcfg, if_true]
  split
  · rename_i h; subst h; exact (promote_self _).symm
  · exact coerce_reported s t


theorem reshape_of_consistent {s : DState} (hc : Consistent s) : s.reshape = s := by
  obtain ⟨r, fr, e, m, n⟩ := s
  obtain ⟨h1, h2⟩ := hc
  simp only at h1 h2
  subst h1 h2
  rfl

/-- the two assignments `self.frequencies = f(self.frequencies)`, `self.errors2 = g(self.errors2)`
    of a consistent histogram, when both expressions stay in the content type, change nothing
    (with either setter) -/
theorem assign_pair (cfg : Cfg) {s : DState} (hc : Consistent s) (f g : DType → DType)
    (hf : f s.reported = s.reported) (hg : g s.reported = s.reported) :
    (s.assignFreq cfg (f s.freq)).assignErr2 cfg (g (s.assignFreq cfg (f s.freq)).err2) = s := by
  obtain ⟨r, fr, e, m, n⟩ := s
  obtain ⟨h1, h2⟩ := hc
  simp only at h1 h2 hf hg
  subst h1 h2
  simp only [hf]
  rw [assignFreq_same]
  simp only [hg]
  rw [assignErr2_same]

/-- `h *= c` on a consistent histogram (either setter): `_coerce_dtype(dtype of c)`, contents
    unchanged in type, `_missed * c` -/
theorem mulStep_eq (cfg : Cfg) {s : DState} (h : Consistent s) (c : DScalar) :
    s.mulStep cfg c = { s.coerce c.dtype with missed := c.mulType (s.coerce c.dtype).missed } := by
  have hc := coerce_consistent h c.dtype
  have hr := coerce_reported s c.dtype
  have key := assign_pair cfg hc c.mulType c.mulType
    (by rw [hr]; exact DScalar.mulType_coerced _ _) (by rw [hr]; exact DScalar.mulType_coerced _ _)
  simp only [mulStep]
  rw [key]

theorem mulStep_spec (cfg : Cfg) {s : DState} (h : Consistent s) (c : DScalar) :
    (s.mulStep cfg c).reported = promote s.reported c.dtype ∧ Consistent (s.mulStep cfg c) := by
  rw [mulStep_eq cfg h c]
  exact ⟨coerce_reported s c.dtype, coerce_consistent h c.dtype⟩

/-- `h /= c` on a consistent histogram, `c` not a float128 scalar under a narrower histogram
    (either setter): just `_coerce_dtype(np.float64)` as far as types go -/
theorem divStep_eq (cfg : Cfg) {s : DState} (h : Consistent s) (c : DScalar)
    (hc128 : ¬ (c = .np f128 ∧ s.reported ≠ f128)) : s.divStep cfg c = s.coerce f64 := by
  have hc := coerce_consistent h f64
  have hr := coerce_reported s f64
  have key := assign_pair cfg hc c.divType c.divType
    (by rw [hr]; exact (DScalar.divType_coerced _ _).2 hc128) (by rw [hr]; exact (DScalar.divType_coerced _ _).2 hc128)
  simp only [divStep]
  rw [key]

/-- **before the fix** (setter of d3f2ae4): `h /= np.longdouble(x)` on a histogram narrower than
    float128 reports float64 over float128 arrays -/
theorem divStep_head_f128 {cfg : Cfg} (hcfg : cfg.castOnAssign = false) {s : DState} (hs : s.reported ≠ f128) :
    (s.divStep cfg (.np f128)).reported = f64 ∧ (s.divStep cfg (.np f128)).freq = f128 ∧
    (s.divStep cfg (.np f128)).err2 = f128 := by
  refine ⟨?_, ?_, ?_⟩
  · simp only [divStep, assignFreq_head hcfg, assignErr2_head hcfg]
    rw [coerce_reported]
    revert hs
    cases s.reported <;> decide
  · simp only [divStep, assignFreq_head hcfg, assignErr2_head hcfg, DScalar.divType_f128]
  · simp only [divStep, assignFreq_head hcfg, assignErr2_head hcfg, DScalar.divType_f128]

/-- **after the fix** (`_as_contents`): the same division promotes the histogram to float128 -/
theorem divStep_patched_f128 {cfg : Cfg} (hcfg : cfg.castOnAssign = true) {s : DState} (h : Consistent s) :
    (s.divStep cfg (.np f128)).reported = f128 ∧ Consistent (s.divStep cfg (.np f128)) := by
  have hc := coerce_consistent h f64
  simp only [divStep]
  have c2 := assignFreq_patched hcfg (s.coerce f64) ((DScalar.np f128).divType (s.coerce f64).freq) hc.2
  have c3 := assignErr2_patched hcfg _ ((DScalar.np f128).divType ((s.coerce f64).assignFreq cfg
    ((DScalar.np f128).divType (s.coerce f64).freq)).err2) c2.1
  refine ⟨?_, c3⟩
  rw [assignErr2_patched_reported hcfg, assignFreq_patched_reported hcfg, DScalar.divType_f128, DScalar.divType_f128]
  cases (s.coerce f64).reported <;> decide

/-- `h += o` on consistent histograms (either setter, same or adapted bins) -/
theorem addStep_eq (cfg : Cfg) {s o : DState} (h : Consistent s) (ho : Consistent o) (adaptive : Bool) :
    s.addStep cfg o adaptive =
      if adaptive then s.coerce o.reported
      else { s.coerce o.reported with
               missed := promote (s.coerce o.reported).missed o.missed,
               missedNaN := (s.coerce o.reported).missedNaN || o.missedNaN } := by
  have hc := coerce_consistent h o.reported
  have hr := coerce_reported s o.reported
  have habs : promote (s.coerce o.reported).reported o.freq = (s.coerce o.reported).reported := by
    rw [hr, ho.1]; exact promote_promote_right _ _
  cases adaptive with
  | false =>
    have key := assign_pair cfg hc (fun x => promote x o.freq) (fun x => promote x o.err2) habs
      (by rw [ho.2]; rw [ho.1] at habs; exact habs)
    simp only [addStep, Bool.false_eq_true, if_false]
    rw [key]
  | true =>
    have hre : (s.coerce o.reported).reshape = s.coerce o.reported := reshape_of_consistent hc
    have key := assign_pair cfg hc (fun x => promote x o.freq) (fun x => promote x o.freq) habs habs
    simp only [addStep, if_true, hre, reshape_freq, reshape_err2]
    rw [key]

theorem addStep_spec (cfg : Cfg) {s o : DState} (h : Consistent s) (ho : Consistent o) (adaptive : Bool) :
    (s.addStep cfg o adaptive).reported = promote s.reported o.reported ∧
    Consistent (s.addStep cfg o adaptive) := by
  rw [addStep_eq cfg h ho]
  cases adaptive
  · exact ⟨coerce_reported s o.reported, coerce_consistent h o.reported⟩
  · exact ⟨coerce_reported s o.reported, coerce_consistent h o.reported⟩

/-- `h -= o` on a consistent histogram (either setter; `o` need not be consistent: the results
    are stored `.astype(self.dtype)`) -/
theorem subStep_eq (cfg : Cfg) {s : DState} (h : Consistent s) (o : DState) :
    s.subStep cfg o =
      { s.coerce o.reported with
          missed := promote (s.coerce o.reported).missed o.missed,
          missedNaN := (s.coerce o.reported).missedNaN || o.missedNaN } := by
  have hc := coerce_consistent h o.reported
  have key := assign_pair cfg hc (fun _ => (s.coerce o.reported).reported)
    (fun _ => (s.coerce o.reported).reported) rfl rfl
  simp only [subStep]
  have e2 : ((s.coerce o.reported).assignFreq cfg (s.coerce o.reported).reported).reported
      = (s.coerce o.reported).reported := by rw [assignFreq_same]
  rw [e2, key]

theorem subStep_spec (cfg : Cfg) {s : DState} (h : Consistent s) (o : DState) :
    (s.subStep cfg o).reported = promote s.reported o.reported ∧ Consistent (s.subStep cfg o) := by
  rw [subStep_eq cfg h o]
  exact ⟨coerce_reported s o.reported, coerce_consistent h o.reported⟩


theorem missNaN_consistent {s : DState} (h : Consistent s) : Consistent s.missNaN := h

theorem fresh_consistent (d : DType) : Consistent (fresh d) := ⟨rfl, rfl⟩

theorem construct_consistent (arr explicit : Option DType) (nan : Bool) :
    Consistent (construct arr explicit nan) := ⟨rfl, rfl⟩

end DState

/-- histogram operands whose consistency matters for the consistency of the result (`h -= o`
    stores `.astype(self.dtype)`, so there `o` does not matter) -/
def DOp.addends : DOp → List DState
  | .add o _ => [o]
  | _ => []

/-- all histogram operands -/
def DOp.operands : DOp → List DState
  | .add o _ => [o]
  | .sub o => [o]
  | _ => []

/-- **Where the three types diverge** (on a consistent histogram):
    * `HistogramND.accumulate` of an int16 / int32 histogram (`np.cumsum` widens to int64) —
      unless the result is assigned through the repaired setter (both switches on);
    * division by a float128 numpy scalar of a narrower histogram — only with the setter of
      d3f2ae4 (`castOnAssign = false`). -/
def DOp.diverges (cfg : Cfg) (s : DState) : DOp → Bool
  | .accumulate => !(cfg.castOnAssign && cfg.accumulateViaSetter) && (s.reported == i16 || s.reported == i32)
  | .div (.np k) => !cfg.castOnAssign && k == f128 && s.reported != f128
  | _ => false

namespace DState

theorem fill_consistent (cfg : Cfg) {s : DState} (h : Consistent s) (w : DScalar) (reshaped gap : Bool) :
    Consistent (s.step cfg (.fill w reshaped gap)) := by
  have hc := coerce_consistent h w.dtype
  simp only [step]
  cases reshaped <;> cases gap <;> simp only [if_true, if_false, Bool.false_eq_true]
  · exact hc
  · exact missNaN_consistent hc
  · exact reshape_consistent hc
  · exact missNaN_consistent (reshape_consistent hc)

theorem fillN_consistent (cfg : Cfg) {s : DState} (h : Consistent s) (w : Option DType) (reshaped nd gap : Bool) :
    Consistent (s.step cfg (.fillN w reshaped nd gap)) := by
  have co : ∀ x : DState, Consistent x → Consistent (match w with | some k => x.coerce k | none => x) := by
    intro x hx; cases w with
    | none => exact hx
    | some k => exact coerce_consistent hx k
  have rs : ∀ x : DState, Consistent x → Consistent (if reshaped = true then x.reshape else x) := by
    intro x hx; cases reshaped
    · exact hx
    · exact reshape_consistent hx
  simp only [step]
  cases nd <;> cases gap <;> simp only [if_true, if_false, Bool.false_eq_true]
  · exact co _ (rs _ h)
  · exact missNaN_consistent (co _ (rs _ h))
  · exact rs _ (co _ h)
  · exact missNaN_consistent (rs _ (co _ h))

theorem div_consistent_iff (cfg : Cfg) {s : DState} (h : Consistent s) (c : DScalar) :
    Consistent (s.divStep cfg c) ↔ (DOp.div c).diverges cfg s = false := by
  by_cases hbad : c = .np f128 ∧ s.reported ≠ f128
  · obtain ⟨rfl, hs⟩ := hbad
    cases hcfg : cfg.castOnAssign with
    | false =>
      have hd := divStep_head_f128 hcfg (s := s) hs
      have : ¬ Consistent (s.divStep cfg (.np f128)) := by
        intro hc
        have := hc.1
        rw [hd.1, hd.2.1] at this
        cases this
      simp [DOp.diverges, this, hs, hcfg]
    | true =>
      exact iff_of_true (divStep_patched_f128 hcfg h).2 (by simp [DOp.diverges, hcfg])
  · rw [divStep_eq cfg h c hbad]
    refine iff_of_true (coerce_consistent h f64) ?_
    cases c with
    | pyInt => rfl
    | pyFloat => rfl
    | np k =>
      simp only [DOp.diverges, Bool.and_eq_false_iff, Bool.not_eq_false', bne_eq_false_iff_eq, beq_eq_false_iff_ne]
      by_cases hk : k = f128
      · subst hk
        right
        by_cases hs : s.reported = f128
        · exact hs
        · exact absurd ⟨rfl, hs⟩ hbad
      · exact .inl (.inr hk)

theorem normalize_consistent (cfg : Cfg) {s : DState} (h : Consistent s) (inplace : Bool) :
    Consistent (s.step cfg (.normalize inplace)) := by
  have hpy : ¬ (s.totalKind = .np f128 ∧ s.reported ≠ f128) := by
    intro hh
    have := hh.1
    simp only [totalKind] at this
    split at this <;> cases this
  have hd : Consistent (s.divStep cfg s.totalKind) := by
    rw [divStep_eq cfg h _ hpy]; exact coerce_consistent h f64
  simp only [step]
  cases inplace
  · exact (mulStep_spec cfg hd .pyInt).2
  · exact hd

theorem accumulate_consistent_iff (cfg : Cfg) {s : DState} (h : Consistent s) :
    Consistent (s.step cfg .accumulate) ↔ DOp.accumulate.diverges cfg s = false := by
  by_cases hboth : cfg.castOnAssign = true ∧ cfg.accumulateViaSetter = true
  · refine iff_of_true ?_ (by simp [DOp.diverges, hboth.1, hboth.2])
    simp only [step, hboth.2, if_true]
    exact assignFreq_patched hboth.1 s _ h.2
  · have hdirect : s.step cfg .accumulate = { s with freq := s.freq.sumType } := by
      simp only [step]
      split
      · rename_i hacc
        have hc : cfg.castOnAssign = false := by
          cases hcc : cfg.castOnAssign
          · rfl
          · exact absurd ⟨hcc, hacc⟩ hboth
        exact assignFreq_head hc s _
      · rfl
    have hflag : (cfg.castOnAssign && cfg.accumulateViaSetter) = false := by
      cases h1 : cfg.castOnAssign <;> cases h2 : cfg.accumulateViaSetter <;> simp_all
    rw [hdirect]
    obtain ⟨r, fr, e, m, n⟩ := s
    obtain ⟨h1, h2⟩ := h
    simp only at h1 h2
    subst h1 h2
    simp only [Consistent, DOp.diverges, hflag, and_true, Bool.not_false, Bool.true_and]
    cases e <;> decide

/-- **One step.**  On a consistent histogram, with consistent histogram operands of `+`, the
    result of any operation is consistent *exactly* when the operation is not one of the two
    diverging ones (`DOp.diverges`). -/
theorem step_consistent_iff (cfg : Cfg) {s : DState} (op : DOp) (h : Consistent s)
    (ho : ∀ o ∈ op.addends, Consistent o) :
    Consistent (s.step cfg op) ↔ op.diverges cfg s = false := by
  cases op with
  | construct arr explicit nan => exact iff_of_true (construct_consistent _ _ _) rfl
  | fill w reshaped gap => exact iff_of_true (fill_consistent cfg h w reshaped gap) rfl
  | fillN w reshaped nd gap => exact iff_of_true (fillN_consistent cfg h w reshaped nd gap) rfl
  | add o adaptive =>
    exact iff_of_true (addStep_spec cfg h (ho o (by simp [DOp.addends])) adaptive).2 rfl
  | sub o => exact iff_of_true (subStep_spec cfg h o).2 rfl
  | mul c => exact iff_of_true (mulStep_spec cfg h c).2 rfl
  | div c => exact div_consistent_iff cfg h c
  | normalize inplace => exact iff_of_true (normalize_consistent cfg h inplace) rfl
  | merge => exact iff_of_true (reshape_consistent h) rfl
  | reshape => exact iff_of_true (reshape_consistent h) rfl
  | setDType d fit => exact iff_of_true (setDType_consistent h d fit) rfl
  | copy withFreq => exact iff_of_true h rfl
  | projection => exact iff_of_true (fresh_consistent _) rfl
  | select1D keep => exact iff_of_true ⟨rfl, rfl⟩ rfl
  | selectNDInt => exact iff_of_true (fresh_consistent _) rfl
  | selectNDSlice => exact iff_of_true h rfl
  | accumulate => exact accumulate_consistent_iff cfg h
  | partialNormalize => exact iff_of_true (coerce_consistent h f64) rfl
  | refusedAfterCoerce k => exact iff_of_true (coerce_consistent h k) rfl


/-! ## Histories -/

/-- a history none of whose steps is a diverging operation (in the state it is applied to) and
    whose `+` operands are consistent -/
def Admissible (cfg : Cfg) : DState → List DOp → Prop
  | _, [] => True
  | s, op :: ops =>
      op.diverges cfg s = false ∧ (∀ o ∈ op.addends, Consistent o) ∧ Admissible cfg (s.step cfg op) ops

theorem trace_consistent (cfg : Cfg) (ops : List DOp) : ∀ s : DState, Consistent s → Admissible cfg s ops →
    ∀ t ∈ trace cfg s ops, Consistent t := by
  induction ops with
  | nil => intro s _ _ t ht; simp [trace] at ht
  | cons op ops ih =>
    intro s hs ha t ht
    obtain ⟨hd, ho, hrest⟩ := ha
    have h1 : Consistent (s.step cfg op) := (step_consistent_iff cfg op hs ho).2 hd
    simp only [trace, List.mem_cons] at ht
    rcases ht with rfl | ht
    · exact h1
    · exact ih _ h1 hrest t ht

theorem run_consistent (cfg : Cfg) (ops : List DOp) : ∀ s : DState, Consistent s → Admissible cfg s ops →
    Consistent (run cfg s ops) := by
  induction ops with
  | nil => intro s hs _; exact hs
  | cons op ops ih =>
    intro s hs ha
    obtain ⟨hd, ho, hrest⟩ := ha
    exact ih _ ((step_consistent_iff cfg op hs ho).2 hd) hrest

theorem run_append (cfg : Cfg) (s : DState) (a b : List DOp) : run cfg s (a ++ b) = run cfg (run cfg s a) b := by
  simp [run, List.foldl_append]

/-- the first diverging operation of an otherwise admissible history does break consistency -/
theorem run_diverges (cfg : Cfg) (ops : List DOp) (op : DOp) (s : DState) (hs : Consistent s)
    (ha : Admissible cfg s ops) (ho : ∀ o ∈ op.addends, Consistent o)
    (hd : op.diverges cfg (run cfg s ops) = true) : ¬ Consistent (run cfg s (ops ++ [op])) := by
  rw [run_append]
  intro hc
  have := (step_consistent_iff cfg op (run_consistent cfg ops s hs ha) ho).1 hc
  rw [hd] at this
  cases this

end DState

/-- operations that never diverge, whatever the state: everything except `accumulate` and (with
    the old setter) division by a float128 numpy scalar -/
def DOp.safe (cfg : Cfg) : DOp → Bool
  | .accumulate => cfg.castOnAssign && cfg.accumulateViaSetter
  | .div (.np k) => cfg.castOnAssign || k != f128
  | _ => true

theorem DOp.not_diverges_of_safe (cfg : Cfg) (s : DState) (op : DOp) (h : op.safe cfg = true) :
    op.diverges cfg s = false := by
  cases op with
  | accumulate =>
    simp only [DOp.safe] at h
    simp [DOp.diverges, h]
  | div c =>
    cases c with
    | pyInt => rfl
    | pyFloat => rfl
    | np k =>
      simp only [DOp.safe, Bool.or_eq_true, bne_iff_ne, ne_eq] at h
      simp only [DOp.diverges, Bool.and_eq_false_iff, Bool.not_eq_false', beq_eq_false_iff_ne, ne_eq]
      rcases h with h | h
      · exact .inl (.inl h)
      · exact .inl (.inr h)
  | _ => rfl

namespace DState

theorem admissible_of_safe (cfg : Cfg) (ops : List DOp) (hsafe : ∀ op ∈ ops, op.safe cfg = true)
    (hops : ∀ op ∈ ops, ∀ o ∈ op.addends, Consistent o) : ∀ s : DState, Admissible cfg s ops := by
  induction ops with
  | nil => intro s; trivial
  | cons op ops ih =>
    intro s
    refine ⟨DOp.not_diverges_of_safe cfg s op (hsafe op (by simp)), hops op (by simp), ?_⟩
    exact ih (fun o ho => hsafe o (by simp [ho])) (fun o ho => hops o (by simp [ho])) _

end DState

/-! ## `_missed` -/

/-- what can be said about the type of `_missed`: it is the reported dtype or some float type, and
    a float type whenever it holds a NaN -/
def MInv (r m : DType) (n : Bool) : Prop := (n = true → m.isInt = false) ∧ (m = r ∨ m.isInt = false)

def MissedInv (s : DState) : Prop := MInv s.reported s.missed s.missedNaN

namespace DState

theorem setAll_missedInv {s : DState} (h : MissedInv s) (v : DType) : MissedInv (s.setAll v) := by
  obtain ⟨h1, h2⟩ := h
  simp only [MissedInv, MInv, setAll]
  cases hv : v.isInt <;> cases hn : s.missedNaN <;>
    simp only [Bool.and_true, Bool.and_false, Bool.false_eq_true, if_true, if_false]
  · exact ⟨fun _ => hv, .inl trivial⟩
  · exact ⟨fun _ => hv, .inl trivial⟩
  · exact ⟨fun hh => (by cases hh), .inl trivial⟩
  · exact ⟨fun _ => h1 hn, .inr (h1 hn)⟩

theorem coerce_missedInv {s : DState} (h : MissedInv s) (k : DType) : MissedInv (s.coerce k) := by
  simp only [coerce]
  split
  · exact h
  · exact setAll_missedInv h _

theorem setDType_missedInv {s : DState} (h : MissedInv s) (d : DType) (fit : Bool) :
    MissedInv (s.setDType d fit) := by
  simp only [setDType]
  split
  · exact h
  · split
    · exact setAll_missedInv h _
    · exact h

theorem assignFreq_missedInv (cfg : Cfg) {s : DState} (h : MissedInv s) (t : DType) :
    MissedInv (s.assignFreq cfg t) := by
  simp only [assignFreq]
  split
  · split
    · exact h
    · exact coerce_missedInv h t
  · exact h

theorem assignErr2_missedInv (cfg : Cfg) {s : DState} (h : MissedInv s) (t : DType) :
    MissedInv (s.assignErr2 cfg t) := by
  simp only [assignErr2]
  split
  · split
    · exact h
    · exact coerce_missedInv h t
  · exact h

/-- `k` is absorbed by the reported dtype -/
def AboveR (k : DType) (s : DState) : Prop := promote s.reported k = s.reported

theorem coerce_aboveR_self (s : DState) (k : DType) : AboveR k (s.coerce k) := by
  simp only [AboveR, coerce_reported]; exact promote_promote_right _ _

theorem coerce_aboveR {k : DType} {s : DState} (h : AboveR k s) (t : DType) : AboveR k (s.coerce t) := by
  simp only [AboveR, coerce_reported]; exact above_promote k _ t h

theorem assignFreq_aboveR (cfg : Cfg) {k : DType} {s : DState} (h : AboveR k s) (t : DType) :
    AboveR k (s.assignFreq cfg t) := by
  simp only [assignFreq]
  split
  · split
    · exact h
    · exact coerce_aboveR h t
  · exact h

theorem assignErr2_aboveR (cfg : Cfg) {k : DType} {s : DState} (h : AboveR k s) (t : DType) :
    AboveR k (s.assignErr2 cfg t) := by
  simp only [assignErr2]
  split
  · split
    · exact h
    · exact coerce_aboveR h t
  · exact h

theorem mul_missed_final {x : DState} (h : MissedInv x) (c : DScalar)
    (habove : ∀ k, c = .np k → AboveR k x) : MissedInv { x with missed := c.mulType x.missed } := by
  obtain ⟨h1, h2⟩ := h
  simp only [MissedInv, MInv]
  cases c with
  | pyInt => exact ⟨h1, h2⟩
  | pyFloat =>
    simp only [DScalar.mulType, weakFloat]
    cases hm : x.missed.isInt
    · simp only [Bool.false_eq_true, if_false]; exact ⟨fun _ => hm, .inr hm⟩
    · simp only [if_true]; exact ⟨fun _ => rfl, .inr rfl⟩
  | np k =>
    simp only [DScalar.mulType]
    refine ⟨fun hn => promote_float_left _ _ (h1 hn), ?_⟩
    rcases h2 with h2 | h2
    · left; rw [h2]; exact habove k rfl
    · right; exact promote_float_left _ _ h2

theorem add_missed_final {x o : DState} (h : MissedInv x) (ho : MissedInv o) (habove : AboveR o.reported x) :
    MissedInv { x with missed := promote x.missed o.missed, missedNaN := x.missedNaN || o.missedNaN } := by
  obtain ⟨h1, h2⟩ := h
  obtain ⟨o1, o2⟩ := ho
  simp only [MissedInv, MInv, Bool.or_eq_true]
  refine ⟨fun hn => ?_, ?_⟩
  · rcases hn with hn | hn
    · exact promote_float_left _ _ (h1 hn)
    · exact promote_float_right _ _ (o1 hn)
  · rcases h2 with h2 | h2
    · rcases o2 with o2 | o2
      · left; rw [h2, o2]; exact habove
      · right; exact promote_float_right _ _ o2
    · right; exact promote_float_left _ _ h2

theorem mulStep_missedInv (cfg : Cfg) {s : DState} (h : MissedInv s) (c : DScalar) : MissedInv (s.mulStep cfg c) := by
  simp only [mulStep]
  apply mul_missed_final
  · exact assignErr2_missedInv cfg (assignFreq_missedInv cfg (coerce_missedInv h _) _) _
  · intro k hk
    subst hk
    exact assignErr2_aboveR cfg (assignFreq_aboveR cfg (coerce_aboveR_self s k) _) _

theorem divStep_missedInv (cfg : Cfg) {s : DState} (h : MissedInv s) (c : DScalar) : MissedInv (s.divStep cfg c) := by
  simp only [divStep]
  exact assignErr2_missedInv cfg (assignFreq_missedInv cfg (coerce_missedInv h _) _) _

theorem reshape_missedInv {s : DState} (h : MissedInv s) : MissedInv s.reshape := h

theorem addStep_missedInv (cfg : Cfg) {s o : DState} (h : MissedInv s) (ho : MissedInv o) (adaptive : Bool) :
    MissedInv (s.addStep cfg o adaptive) := by
  simp only [addStep]
  cases adaptive with
  | true =>
    simp only [if_true]
    exact assignErr2_missedInv cfg (assignFreq_missedInv cfg (reshape_missedInv (coerce_missedInv h _)) _) _
  | false =>
    simp only [Bool.false_eq_true, if_false]
    apply add_missed_final
    · exact assignErr2_missedInv cfg (assignFreq_missedInv cfg (coerce_missedInv h _) _) _
    · exact ho
    · exact assignErr2_aboveR cfg (assignFreq_aboveR cfg (coerce_aboveR_self s _) _) _

theorem subStep_missedInv (cfg : Cfg) {s o : DState} (h : MissedInv s) (ho : MissedInv o) :
    MissedInv (s.subStep cfg o) := by
  simp only [subStep]
  apply add_missed_final
  · exact assignErr2_missedInv cfg (assignFreq_missedInv cfg (coerce_missedInv h _) _) _
  · exact ho
  · exact assignErr2_aboveR cfg (assignFreq_aboveR cfg (coerce_aboveR_self s _) _) _

theorem missNaN_missedInv (s : DState) : MissedInv s.missNaN := by
  simp only [MissedInv, MInv, missNaN]
  cases hm : s.missed.isInt
  · simp only [Bool.false_eq_true, if_false]; exact ⟨fun _ => hm, .inr hm⟩
  · simp only [if_true]; exact ⟨fun _ => rfl, .inr rfl⟩

theorem fresh_missedInv (d : DType) : MissedInv (fresh d) := ⟨fun h => (by cases h), .inl rfl⟩

/-- the content type chosen by the constructor: `dtype=` if given, else the type of the
    `frequencies` argument, else int64 -/
def ctorType (arr explicit : Option DType) : DType :=
  match explicit with
  | some d => d
  | none => match arr with
    | some t => t
    | none => i64

theorem construct_eq (arr explicit : Option DType) (nan : Bool) :
    construct arr explicit nan =
      { reported := ctorType arr explicit, freq := ctorType arr explicit, err2 := ctorType arr explicit,
        missed := if nan && (ctorType arr explicit).isInt then f64 else ctorType arr explicit,
        missedNaN := nan } := rfl

theorem construct_missedInv (arr explicit : Option DType) (nan : Bool) :
    MissedInv (construct arr explicit nan) := by
  rw [construct_eq]
  generalize ctorType arr explicit = d
  simp only [MissedInv, MInv]
  cases nan <;> cases hd : d.isInt <;>
    simp only [Bool.and_true, Bool.and_false, Bool.false_eq_true, if_true, if_false]
  · exact ⟨fun _ => hd, .inl trivial⟩
  · exact ⟨fun hh => (by cases hh), .inl trivial⟩
  · exact ⟨fun _ => hd, .inl trivial⟩
  · exact ⟨fun _ => rfl, .inr rfl⟩

/-- **`_missed` over one step**: whatever the operation (consistent or not, either setter), if
    the invariant holds of the histogram and of its histogram operands it holds afterwards. -/
theorem step_missedInv (cfg : Cfg) {s : DState} (op : DOp) (h : MissedInv s)
    (ho : ∀ o ∈ op.operands, MissedInv o) : MissedInv (s.step cfg op) := by
  cases op with
  | construct arr explicit nan => exact construct_missedInv _ _ _
  | fill w reshaped gap =>
    simp only [step]
    cases gap
    · simp only [Bool.false_eq_true, if_false]
      cases reshaped
      · exact coerce_missedInv h _
      · exact reshape_missedInv (coerce_missedInv h _)
    · exact missNaN_missedInv _
  | fillN w reshaped nd gap =>
    clear ho
    have co : ∀ x : DState, MissedInv x → MissedInv (match w with | some k => x.coerce k | none => x) := by
      intro x hx; cases w with
      | none => exact hx
      | some k => exact coerce_missedInv hx k
    have rs : ∀ x : DState, MissedInv x → MissedInv (if reshaped = true then x.reshape else x) := by
      intro x hx; cases reshaped
      · exact hx
      · exact reshape_missedInv hx
    simp only [step]
    cases gap
    · simp only [Bool.false_eq_true, if_false]
      cases nd
      · exact co _ (rs _ h)
      · exact rs _ (co _ h)
    · exact missNaN_missedInv _
  | add o adaptive => exact addStep_missedInv cfg h (ho o (by simp [DOp.operands])) adaptive
  | sub o => exact subStep_missedInv cfg h (ho o (by simp [DOp.operands]))
  | mul c => exact mulStep_missedInv cfg h c
  | div c => exact divStep_missedInv cfg h c
  | normalize inplace =>
    simp only [step]
    cases inplace
    · exact mulStep_missedInv cfg (divStep_missedInv cfg h _) _
    · exact divStep_missedInv cfg h _
  | merge => exact reshape_missedInv h
  | reshape => exact reshape_missedInv h
  | setDType d fit => exact setDType_missedInv h d fit
  | copy withFreq =>
    obtain ⟨h1, h2⟩ := h
    refine ⟨fun hn => h1 ?_, h2⟩
    have hn' : (s.missedNaN && withFreq) = true := hn
    simp only [Bool.and_eq_true] at hn'
    exact hn'.1
  | projection => exact fresh_missedInv _
  | select1D keep =>
    simp only [step, MissedInv, MInv]
    cases keep <;> cases hn : s.missedNaN <;> cases hr : s.reported.isInt <;>
      simp only [Bool.and_true, Bool.and_false, Bool.false_eq_true, if_true, if_false]
    · exact ⟨fun _ => hr, .inl trivial⟩
    · exact ⟨fun hh => (by cases hh), .inl trivial⟩
    · exact ⟨fun _ => hr, .inl trivial⟩
    · exact ⟨fun hh => (by cases hh), .inl trivial⟩
    · exact ⟨fun _ => hr, .inl trivial⟩
    · exact ⟨fun hh => (by cases hh), .inl trivial⟩
    · exact ⟨fun _ => hr, .inl trivial⟩
    · exact ⟨fun _ => rfl, .inr rfl⟩
  | selectNDInt => exact fresh_missedInv _
  | selectNDSlice => exact h
  | accumulate =>
    simp only [step]
    split
    · exact assignFreq_missedInv cfg h _
    · exact h
  | partialNormalize => exact coerce_missedInv h _
  | refusedAfterCoerce k => exact coerce_missedInv h _

end DState

/-! ## Everything a history can produce -/

/-- the states produced by a constructor followed by any operations — histogram operands being
    themselves such products — none of the steps being a diverging operation -/
inductive Reachable (cfg : Cfg) : DState → Prop
  | construct (arr explicit : Option DType) (nan : Bool) : Reachable cfg (DState.construct arr explicit nan)
  | step {s : DState} (op : DOp) : Reachable cfg s → (∀ o ∈ op.operands, Reachable cfg o) →
      op.diverges cfg s = false → Reachable cfg (s.step cfg op)

theorem DOp.addends_subset (op : DOp) : ∀ o ∈ op.addends, o ∈ op.operands := by
  cases op <;> simp [DOp.addends, DOp.operands]

theorem Reachable.inv {cfg : Cfg} {s : DState} (h : Reachable cfg s) : Consistent s ∧ MissedInv s := by
  induction h with
  | construct arr explicit nan => exact ⟨DState.construct_consistent _ _ _, DState.construct_missedInv _ _ _⟩
  | step op _ _ hd ih iho =>
    refine ⟨?_, ?_⟩
    · exact (DState.step_consistent_iff cfg op ih.1 (fun o ho => (iho o (op.addends_subset o ho)).1)).2 hd
    · exact DState.step_missedInv cfg op ih.2 (fun o ho => (iho o ho).2)


/-! ## The kind clauses on the machine -/
namespace DState

theorem fill_reported (cfg : Cfg) (s : DState) (w : DScalar) (reshaped gap : Bool) :
    (s.step cfg (.fill w reshaped gap)).reported = promote s.reported w.dtype := by
  simp only [step]
  cases reshaped <;> cases gap <;> exact coerce_reported s w.dtype

theorem fillN_reported (cfg : Cfg) (s : DState) (w : Option DType) (reshaped nd gap : Bool) :
    (s.step cfg (.fillN w reshaped nd gap)).reported =
      match w with
      | some k => promote s.reported k
      | none => s.reported := by
  simp only [step]
  cases w with
  | none => cases reshaped <;> cases nd <;> cases gap <;> rfl
  | some k => cases reshaped <;> cases nd <;> cases gap <;> exact coerce_reported _ k

/-- `h /= c`: reported dtype and both arrays are float types — in every case, also the diverging one -/
theorem divStep_float (cfg : Cfg) {s : DState} (h : Consistent s) (c : DScalar) :
    (s.divStep cfg c).reported.isInt = false ∧ (s.divStep cfg c).freq.isInt = false ∧
    (s.divStep cfg c).err2.isInt = false := by
  by_cases hbad : c = .np f128 ∧ s.reported ≠ f128
  · obtain ⟨rfl, hs⟩ := hbad
    cases hcfg : cfg.castOnAssign with
    | false =>
      obtain ⟨h1, h2, h3⟩ := divStep_head_f128 hcfg (s := s) hs
      rw [h1, h2, h3]; decide
    | true =>
      obtain ⟨h1, h2⟩ := divStep_patched_f128 hcfg h
      rw [h2.1, h2.2, h1]; decide
  · rw [divStep_eq cfg h c hbad]
    obtain ⟨h1, h2, h3⟩ := coerce_all h f64
    rw [h1, h2, h3]
    exact ⟨promote_f64_isInt _, promote_f64_isInt _, promote_f64_isInt _⟩

theorem normalize_float (cfg : Cfg) {s : DState} (h : Consistent s) (inplace : Bool) :
    (s.step cfg (.normalize inplace)).reported.isInt = false := by
  have hpy : ¬ (s.totalKind = .np f128 ∧ s.reported ≠ f128) := by
    intro hh
    have := hh.1
    simp only [totalKind] at this
    split at this <;> cases this
  have hd : Consistent (s.divStep cfg s.totalKind) := by
    rw [divStep_eq cfg h _ hpy]; exact coerce_consistent h f64
  simp only [step]
  cases inplace
  · simp only [Bool.false_eq_true, if_false]
    rw [(mulStep_spec cfg hd .pyInt).1]
    exact promote_float_left _ _ (divStep_float cfg h _).1
  · exact (divStep_float cfg h _).1

theorem setDType_accepted {s : DState} (h : Consistent s) (d : DType) (fit : Bool)
    (ha : s.setDTypeAccepted d fit = true) :
    (s.setDType d fit).reported = d ∧ (s.setDType d fit).freq = d ∧ (s.setDType d fit).err2 = d := by
  simp only [setDType]
  split
  · rename_i hd; subst hd; exact ⟨rfl, h.1, h.2⟩
  · rename_i hd
    have : (canCast s.reported d || fit) = true := by
      simp only [setDTypeAccepted, Bool.or_eq_true, decide_eq_true_eq] at ha
      simp only [Bool.or_eq_true]
      rcases ha with (ha | ha) | ha
      · exact absurd ha hd
      · exact .inl ha
      · exact .inr ha
    simp only [this, if_true]
    exact ⟨rfl, rfl, rfl⟩

theorem setDType_refused (s : DState) (d : DType) (fit : Bool) (ha : s.setDTypeAccepted d fit = false) :
    s.setDType d fit = s := by
  simp only [setDTypeAccepted, Bool.or_eq_false_iff, decide_eq_false_iff_not] at ha
  obtain ⟨⟨h1, h2⟩, h3⟩ := ha
  simp [setDType, h1, h2, h3]

/-- the value checks are consulted only when the cast is not safe -/
theorem setDType_safe_cast (s : DState) (d : DType) (hc : canCast s.reported d = true) (fit : Bool) :
    s.setDTypeAccepted d fit = true := by
  simp [setDTypeAccepted, hc]

/-! ### No implicit change of the reported dtype loses information -/

/-- `a` casts safely to the reported dtype -/
def Holds (a : DType) (s : DState) : Prop := canCast a s.reported = true

theorem coerce_holds {a : DType} {s : DState} (h : Holds a s) (k : DType) : Holds a (s.coerce k) := by
  simp only [Holds, coerce_reported]
  exact canCast_trans _ _ _ h (canCast_promote_left _ _)

theorem assignFreq_holds (cfg : Cfg) {a : DType} {s : DState} (h : Holds a s) (t : DType) :
    Holds a (s.assignFreq cfg t) := by
  simp only [assignFreq]
  split
  · split
    · exact h
    · exact coerce_holds h t
  · exact h

theorem assignErr2_holds (cfg : Cfg) {a : DType} {s : DState} (h : Holds a s) (t : DType) :
    Holds a (s.assignErr2 cfg t) := by
  simp only [assignErr2]
  split
  · split
    · exact h
    · exact coerce_holds h t
  · exact h

theorem mulStep_holds (cfg : Cfg) {a : DType} {s : DState} (h : Holds a s) (c : DScalar) : Holds a (s.mulStep cfg c) :=
  assignErr2_holds cfg (assignFreq_holds cfg (coerce_holds h _) _) _

theorem divStep_holds (cfg : Cfg) {a : DType} {s : DState} (h : Holds a s) (c : DScalar) : Holds a (s.divStep cfg c) :=
  assignErr2_holds cfg (assignFreq_holds cfg (coerce_holds h _) _) _

theorem addStep_holds (cfg : Cfg) {a : DType} {s : DState} (h : Holds a s) (o : DState) (adaptive : Bool) :
    Holds a (s.addStep cfg o adaptive) := by
  simp only [addStep]
  cases adaptive
  · simp only [Bool.false_eq_true, if_false]
    exact assignErr2_holds cfg (assignFreq_holds cfg (coerce_holds h _) _) _
  · simp only [if_true]
    have hr : Holds a (s.coerce o.reported).reshape := coerce_holds h _
    exact assignErr2_holds cfg (assignFreq_holds cfg hr _) _

theorem subStep_holds (cfg : Cfg) {a : DType} {s : DState} (h : Holds a s) (o : DState) :
    Holds a (s.subStep cfg o) :=
  assignErr2_holds cfg (assignFreq_holds cfg (coerce_holds h _) _) _

/-- operations that state the new dtype themselves -/
def _root_.Physt.DOp.explicit : DOp → Bool
  | .construct .. => true
  | .setDType .. => true
  | _ => false

/-- **Never narrower.**  Every operation other than a constructor and an explicit `set_dtype`
    leaves a reported dtype to which the previous one casts safely (`np.can_cast`, "safe"): no
    implicit conversion can truncate or wrap a content.  (`freq = reported` is needed for
    projections and integer selections, which take the type of the array.) -/
theorem step_lossless (cfg : Cfg) (s : DState) (op : DOp) (hf : s.freq = s.reported) (he : op.explicit = false) :
    canCast s.reported (s.step cfg op).reported = true := by
  have h0 : Holds s.reported s := canCast_refl _
  cases op with
  | construct arr explicit nan => cases he
  | setDType d fit => cases he
  | fill w reshaped gap => rw [fill_reported]; exact canCast_promote_left _ _
  | fillN w reshaped nd gap =>
    rw [fillN_reported]
    cases w with
    | none => exact canCast_refl _
    | some k => exact canCast_promote_left _ _
  | add o adaptive => exact addStep_holds cfg h0 o adaptive
  | sub o => exact subStep_holds cfg h0 o
  | mul c => exact mulStep_holds cfg h0 c
  | div c => exact divStep_holds cfg h0 c
  | normalize inplace =>
    simp only [step]
    cases inplace
    · exact mulStep_holds cfg (divStep_holds cfg h0 _) _
    · exact divStep_holds cfg h0 _
  | merge => exact canCast_refl _
  | reshape => exact canCast_refl _
  | copy withFreq => exact canCast_refl _
  | projection => simp only [step, fresh, hf]; exact canCast_sumType _
  | select1D keep => exact canCast_refl _
  | selectNDInt => simp only [step, fresh, hf]; exact canCast_refl _
  | selectNDSlice => exact canCast_refl _
  | accumulate =>
    simp only [step]
    split
    · exact assignFreq_holds cfg h0 _
    · exact canCast_refl _
  | partialNormalize => exact coerce_holds h0 _
  | refusedAfterCoerce k => exact coerce_holds h0 _

end DState
end Physt

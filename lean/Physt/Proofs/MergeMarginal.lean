import Physt.Proofs.MergeRuns
/-!
# Merging one axis does not change the marginal along another axis; the `min_frequency` maps of
# `merge_bins(axis=None)` are those of the ORIGINAL marginals

* `Arr.sumAxis_gather_self` — summing over the axis that was just gathered (merged) gives the sum
  over that axis of the array before;
* `Arr.sumAxes_congr_of_sumAxis` — two arrays with the same number of axes and the same sum over
  axis `j` have the same sum over any decreasing list of axes that contains `j`;
* `Arr.marginal_mergeAxis` — the marginal along `k` is not changed by a merge along `j ≠ k`;
* `MarginalUpTo` / `HN.mergeAll_marginal_spec` — the loop invariant of `merge_bins(axis=None)` with
  the bin map of every axis computed on the original histogram;
* `HN.mergeAll_minfreq_ok_iff` — acceptance decided on the original histogram.
-/
namespace Physt
open H1

/-! ## 1. arrays -/

/-- the marginal of an array with `n` axes along axis `k`, as `merge_bins` computes it: all other
    axes summed away, highest first -/
def Arr.marginal (a : Arr) (n k : Nat) : Arr := a.sumAxes (((List.range n).filter (· != k)).reverse)

theorem Arr.marginal_eq_dropList (a : Arr) (n k : Nat) :
    a.marginal n k = a.sumAxes (dropList n (fun i => i == k)) := rfl

/-- **Summing over the axis that was just regrouped.**  If every old position of `axis` occurs in
    exactly one `src j` (`j < newN`), exactly once, then summing the gathered array over `axis`
    gives the same array as summing the old one over `axis`. -/
theorem Arr.sumAxis_gather_self (a : Arr) (axis newN : Nat) (src : Nat → List Nat)
    (hax : axis < a.shape.length)
    (hsrc : ∀ k, k < a.shape[axis]?.getD 0 → ((List.range newN).flatMap src).count k = 1) :
    (a.gather axis newN src).sumAxis axis = a.sumAxis axis := by
  have hax1 : axis < (a.gather axis newN src).shape.length := by
    simpa [Arr.shape_gather, Arr.setAt] using hax
  have hs : ((a.gather axis newN src).sumAxis axis).shape = (a.sumAxis axis).shape := by
    rw [Arr.shape_sumAxis, Arr.shape_sumAxis, Arr.shape_gather, removeAt_setAt]
  apply Arr.ext_get _ _ (Arr.wellShaped_sumAxis _ _) (Arr.wellShaped_sumAxis _ _) hs
  intro idx hv
  have hv0 : validIdx (Arr.removeAt a.shape axis) idx = true := by
    rw [hs, Arr.shape_sumAxis] at hv; exact hv
  have hlen := length_le_of_valid_removeAt a.shape idx axis hax hv0
  rw [Arr.get_sumAxis _ axis idx hax1 (by rw [Arr.shape_gather, removeAt_setAt]; exact hv0),
    Arr.get_sumAxis a axis idx hax hv0]
  have hN : (a.gather axis newN src).shape[axis]?.getD 0 = newN := by
    simp [Arr.shape_gather, Arr.setAt, hax]
  rw [hN]
  have hstep : ((List.range newN).map fun m => (a.gather axis newN src).get (insAt idx axis m))
      = (List.range newN).map fun m => ((src m).map fun k => a.get (insAt idx axis k)).sum := by
    apply List.map_congr_left
    intro m hm
    have hvm : validIdx (Arr.setAt a.shape axis newN) (insAt idx axis m) = true := by
      rw [validIdx_insAt _ _ _ _ (by simpa [Arr.setAt] using hax), removeAt_setAt]
      exact ⟨hv0, by simpa [Arr.setAt, hax] using List.mem_range.mp hm⟩
    rw [C09_gather a axis newN src _ hvm, insAt_getElem? idx axis m hlen, Option.getD_some]
    apply congrArg List.sum
    apply List.map_congr_left
    intro k _
    rw [setAt_insAt idx axis m k hlen]
  rw [hstep, ← sum_flatMap_map]
  exact sum_map_of_count_one _ _ _ (fun k hk => Arr.get_insAt_of_ge a idx axis k hax hk) hsrc

/-- the bin map of a merge sends every old bin to exactly one new bin -/
theorem mergeAxis_src_count (map : List Nat) (newN n : Nat) (hl : n ≤ map.length)
    (hm : ∀ k j, k < n → map[k]? = some j → j < newN) (k : Nat) (hk : k < n) :
    ((List.range newN).flatMap fun j => (List.range map.length).filter fun k => map[k]? == some j).count k = 1 := by
  have hkl : k < map.length := by omega
  have hmk : map[k]? = some map[k] := List.getElem?_eq_getElem hkl
  rw [List.count_flatMap, sum_range_single newN map[k] _ (hm k _ hk hmk)]
  · simp only [Function.comp]
    rw [List.count_filter (by simp [hmk]), List.count_range, if_pos hkl]
  · intro j _ hne
    simp only [Function.comp]
    rw [List.count_eq_zero]
    intro hmem
    have := (List.mem_filter.mp hmem).2
    rw [hmk] at this
    simp at this
    exact hne this.symm

/-- **Merging an axis and then summing over it = summing over it** (the map has an entry for every
    old bin of the axis, each below `newN`). -/
theorem Arr.sumAxis_mergeAxis_self (a : Arr) (axis : Nat) (map : List Nat) (newN : Nat)
    (hax : axis < a.shape.length) (hl : a.shape[axis]?.getD 0 ≤ map.length)
    (hm : ∀ k j, k < a.shape[axis]?.getD 0 → map[k]? = some j → j < newN) :
    (a.mergeAxis axis map newN).sumAxis axis = a.sumAxis axis := by
  unfold Arr.mergeAxis
  exact Arr.sumAxis_gather_self a axis newN _ hax (mergeAxis_src_count map newN _ hl hm)

/-- summing a lower axis `j` after a decreasing list of higher axes = summing `j` first and then
    the higher axes, each one place further left -/
theorem Arr.sumAxes_sumAxis_low (a : Arr) (hi : List Nat) (j : Nat) (hd : hi.Pairwise (· > ·))
    (hgt : ∀ x ∈ hi, j < x) (hlt : ∀ x ∈ hi, x < a.shape.length) :
    (a.sumAxes hi).sumAxis j = (a.sumAxis j).sumAxes (hi.map (· - 1)) := by
  induction hi generalizing a with
  | nil => rfl
  | cons x xs ih =>
    have hx : j < x := hgt x (List.mem_cons_self ..)
    have hxl : x < a.shape.length := hlt x (List.mem_cons_self ..)
    have hp := List.pairwise_cons.mp hd
    rw [Arr.sumAxes_cons, List.map_cons, Arr.sumAxes_cons,
      ih (a.sumAxis x) hp.2 (fun y hy => hgt y (List.mem_cons_of_mem _ hy))
        (fun y hy => by
          have := hp.1 y hy
          rw [Arr.shape_length_sumAxis a x hxl]; omega),
      Arr.sumAxis_comm' a j x hx hxl]

theorem pairwise_gt_split (l : List Nat) (j : Nat) (hd : l.Pairwise (· > ·)) (hj : j ∈ l) :
    ∃ hi lo, l = hi ++ j :: lo ∧ (∀ x ∈ hi, j < x) ∧ hi.Pairwise (· > ·) := by
  obtain ⟨hi, lo, rfl⟩ := List.append_of_mem hj
  have hp := List.pairwise_append.mp hd
  exact ⟨hi, lo, rfl, fun x hx => hp.2.2 x hx j (List.mem_cons_self ..), hp.1⟩

/-- **Two arrays with the same number of axes and the same sum over axis `j` have the same sum over
    any decreasing list of (valid) axes that contains `j`.** -/
theorem Arr.sumAxes_congr_of_sumAxis (a b : Arr) (l : List Nat) (j : Nat) (hd : l.Pairwise (· > ·))
    (hj : j ∈ l) (hl : ∀ x ∈ l, x < a.shape.length) (hlen : a.shape.length = b.shape.length)
    (h : a.sumAxis j = b.sumAxis j) : a.sumAxes l = b.sumAxes l := by
  obtain ⟨hi, lo, rfl, hgt, hdh⟩ := pairwise_gt_split l j hd hj
  have hlh : ∀ x ∈ hi, x < a.shape.length := fun x hx => hl x (List.mem_append_left _ hx)
  rw [Arr.sumAxes_append, Arr.sumAxes_append, Arr.sumAxes_cons, Arr.sumAxes_cons,
    Arr.sumAxes_sumAxis_low a hi j hdh hgt hlh,
    Arr.sumAxes_sumAxis_low b hi j hdh hgt (fun x hx => by rw [← hlen]; exact hlh x hx), h]

/-- **Merging another axis does not change the marginal.**  For an array with `n` axes, `j ≠ k`
    both below `n`, and a bin map with an entry for every old bin of axis `j`, each below `newN`:
    the marginal along `k` after the merge along `j` is the marginal along `k` before. -/
theorem Arr.marginal_mergeAxis (a : Arr) (n j k : Nat) (map : List Nat) (newN : Nat)
    (hn : a.shape.length = n) (hj : j < n) (hjk : j ≠ k)
    (hl : a.shape[j]?.getD 0 ≤ map.length)
    (hm : ∀ i m, i < a.shape[j]?.getD 0 → map[i]? = some m → m < newN) :
    (a.mergeAxis j map newN).marginal n k = a.marginal n k := by
  rw [Arr.marginal_eq_dropList, Arr.marginal_eq_dropList]
  have hshape : (a.mergeAxis j map newN).shape.length = n := by
    rw [Arr.shape_mergeAxis]; simpa [Arr.setAt] using hn
  apply Arr.sumAxes_congr_of_sumAxis _ _ _ j (dropList_desc _ _)
  · unfold dropList
    rw [List.mem_reverse, List.mem_filter]
    exact ⟨List.mem_range.mpr hj, by simpa using hjk⟩
  · intro x hx
    rw [hshape]; exact dropList_lt _ _ x hx
  · rw [hshape, hn]
  · exact Arr.sumAxis_mergeAxis_self a j map newN (by omega) hl hm

/-- the form used by `merge_bins`: one map entry per old bin, every entry below `newN` -/
theorem Arr.marginal_mergeAxis' (a : Arr) (n j k : Nat) (map : List Nat) (newN : Nat)
    (hn : a.shape.length = n) (hj : j < n) (hjk : j ≠ k)
    (hl : map.length = a.shape[j]?.getD 0) (hm : ∀ m ∈ map, m < newN) :
    (a.mergeAxis j map newN).marginal n k = a.marginal n k :=
  Arr.marginal_mergeAxis a n j k map newN hn hj hjk (by omega) (fun _ _ _ h => hm _ (List.mem_of_getElem? h))

/-! ### the marginal along the merged axis itself -/

/-- position of axis `j` after axis `i ≠ j` has been removed -/
def posAfter (i j : Nat) : Nat := if i < j then j - 1 else j

theorem insAt_getElem?_ne (idx : List Nat) (i k j : Nat) (hi : i ≤ idx.length) (hij : i ≠ j) :
    (insAt idx i k)[j]? = idx[posAfter i j]? := by
  unfold posAfter
  induction i generalizing idx j with
  | zero =>
    cases j with
    | zero => omega
    | succ j => simp
  | succ i ih =>
    cases idx with
    | nil => simp at hi
    | cons x xs =>
      cases j with
      | zero => simp
      | succ j =>
        have := ih xs j (by simpa using hi) (by omega)
        simp only [insAt_succ_cons, List.getElem?_cons_succ, this]
        by_cases h : i < j
        · have h' : i + 1 < j + 1 := by omega
          simp only [h, h', if_true]
          obtain ⟨j', rfl⟩ : ∃ j', j = j' + 1 := ⟨j - 1, by omega⟩
          simp
        · have h' : ¬ i + 1 < j + 1 := by omega
          simp [h, h']

theorem setAt_insAt_ne (idx : List Nat) (i k j m : Nat) (hi : i ≤ idx.length) (hij : i ≠ j) :
    Arr.setAt (insAt idx i k) j m = insAt (Arr.setAt idx (posAfter i j) m) i k := by
  unfold posAfter
  induction i generalizing idx j with
  | zero =>
    cases j with
    | zero => omega
    | succ j => simp [Arr.setAt]
  | succ i ih =>
    cases idx with
    | nil => simp at hi
    | cons x xs =>
      cases j with
      | zero => simp [Arr.setAt]
      | succ j =>
        have := ih xs j (by simpa using hi) (by omega)
        simp only [Arr.setAt] at this
        simp only [Arr.setAt, insAt_succ_cons, List.set_cons_succ, this]
        by_cases h : i < j
        · have h' : i + 1 < j + 1 := by omega
          simp only [h, h', if_true]
          obtain ⟨j', rfl⟩ : ∃ j', j = j' + 1 := ⟨j - 1, by omega⟩
          simp
        · have h' : ¬ i + 1 < j + 1 := by omega
          simp [h, h']

/-- entries of `a.sum(axis)`, at any index tuple (an invalid one reads 0 on both sides) -/
theorem Arr.get_sumAxis_any (a : Arr) (axis : Nat) (idx : List Nat) (hax : axis < a.shape.length) :
    (a.sumAxis axis).get idx
      = ((List.range (a.shape[axis]?.getD 0)).map fun k => a.get (insAt idx axis k)).sum := by
  by_cases hv : validIdx (Arr.removeAt a.shape axis) idx = true
  · exact Arr.get_sumAxis a axis idx hax hv
  · rw [Arr.get_invalid _ _ (by rw [Arr.shape_sumAxis]; simpa using hv)]
    symm
    apply List.sum_eq_zero
    intro x hx
    obtain ⟨k, _, rfl⟩ := List.mem_map.mp hx
    apply Arr.get_invalid
    cases h1 : validIdx a.shape (insAt idx axis k) with
    | false => rfl
    | true => exact absurd ((validIdx_insAt a.shape idx axis k hax).mp h1).1 hv

theorem removeAt_setAt_ne {α} (l : List α) (i j : Nat) (x : α) (hij : i ≠ j) :
    Arr.removeAt (Arr.setAt l j x) i = Arr.setAt (Arr.removeAt l i) (posAfter i j) x := by
  unfold posAfter Arr.removeAt Arr.setAt
  by_cases h : i < j
  · simp only [h, if_true]; exact List.eraseIdx_set_lt h
  · simp only [h, if_false]; exact List.eraseIdx_set_gt (by omega)

/-- **Summing over axis `i` commutes with regrouping another axis `j`** (afterwards `j` sits at
    `posAfter i j`). -/
theorem Arr.sumAxis_gather_ne (a : Arr) (i j N : Nat) (src : Nat → List Nat) (hij : i ≠ j)
    (hi : i < a.shape.length) :
    (a.gather j N src).sumAxis i = (a.sumAxis i).gather (posAfter i j) N src := by
  have hs : ((a.gather j N src).sumAxis i).shape = ((a.sumAxis i).gather (posAfter i j) N src).shape := by
    rw [Arr.shape_sumAxis, Arr.shape_gather, Arr.shape_gather, Arr.shape_sumAxis]
    exact removeAt_setAt_ne _ _ _ _ hij
  apply Arr.ext_get _ _ (Arr.wellShaped_sumAxis _ _) (Arr.wellShaped_gather _ _ _ _) hs
  intro idx hv
  have hi1 : i < (a.gather j N src).shape.length := by simpa [Arr.shape_gather, Arr.setAt] using hi
  have hv1 : validIdx (Arr.removeAt (Arr.setAt a.shape j N) i) idx = true := by
    rw [Arr.shape_sumAxis, Arr.shape_gather] at hv; exact hv
  have hlen : i ≤ idx.length :=
    length_le_of_valid_removeAt _ idx i (by simpa [Arr.setAt] using hi) hv1
  have hNi : (a.gather j N src).shape[i]?.getD 0 = a.shape[i]?.getD 0 := by
    rw [Arr.shape_gather]; simp only [Arr.setAt]; rw [List.getElem?_set_ne (fun e => hij e.symm)]
  rw [Arr.get_sumAxis _ i idx hi1 (by rw [Arr.shape_gather]; exact hv1), hNi,
    C09_gather _ _ _ _ idx (by rw [hs] at hv; exact hv)]
  have hL : ((List.range (a.shape[i]?.getD 0)).map fun k => (a.gather j N src).get (insAt idx i k))
      = (List.range (a.shape[i]?.getD 0)).map fun k =>
          ((src (idx[posAfter i j]?.getD 0)).map fun m => a.get (insAt (Arr.setAt idx (posAfter i j) m) i k)).sum := by
    apply List.map_congr_left
    intro k hk
    have hvk : validIdx (Arr.setAt a.shape j N) (insAt idx i k) = true := by
      rw [validIdx_insAt _ _ _ _ (by simpa [Arr.setAt] using hi)]
      refine ⟨hv1, ?_⟩
      simp only [Arr.setAt]; rw [List.getElem?_set_ne (fun e => hij e.symm)]
      exact List.mem_range.mp hk
    rw [C09_gather a j N src _ hvk, insAt_getElem?_ne idx i k j hlen hij]
    apply congrArg List.sum
    apply List.map_congr_left
    intro m _
    rw [setAt_insAt_ne idx i k j m hlen hij]
  have hR : ((src (idx[posAfter i j]?.getD 0)).map fun m => (a.sumAxis i).get (Arr.setAt idx (posAfter i j) m))
      = (src (idx[posAfter i j]?.getD 0)).map fun m =>
          ((List.range (a.shape[i]?.getD 0)).map fun k => a.get (insAt (Arr.setAt idx (posAfter i j) m) i k)).sum := by
    apply List.map_congr_left
    intro m _
    exact Arr.get_sumAxis_any a i _ hi
  rw [hL, hR, sum_map_comm]

/-- … and with any decreasing list of other axes: the regrouped axis ends up at some position `p`
    of the result -/
theorem Arr.sumAxes_gather_ne (a : Arr) (l : List Nat) (j N : Nat) (src : Nat → List Nat)
    (hd : l.Pairwise (· > ·)) (hjl : j ∉ l) (hl : ∀ x ∈ l, x < a.shape.length) (hj : j < a.shape.length) :
    ∃ p, p < (a.sumAxes l).shape.length ∧ (a.gather j N src).sumAxes l = (a.sumAxes l).gather p N src := by
  induction l generalizing a j with
  | nil => exact ⟨j, hj, rfl⟩
  | cons x xs ih =>
    have hx : x < a.shape.length := hl x (List.mem_cons_self ..)
    have hp := List.pairwise_cons.mp hd
    have hxj : x ≠ j := fun e => hjl (e ▸ List.mem_cons_self ..)
    rw [Arr.sumAxes_cons, Arr.sumAxes_cons, Arr.sumAxis_gather_ne a x j N src hxj hx]
    have hlen := Arr.shape_length_sumAxis a x hx
    apply ih (a.sumAxis x) (posAfter x j) hp.2
    · intro hmem
      have h1 := hp.1 _ hmem
      unfold posAfter at hmem h1
      by_cases hc : x < j
      · simp only [hc, if_true] at h1; omega
      · simp only [hc, if_false] at hmem; exact hjl (List.mem_cons_of_mem _ hmem)
    · intro y hy
      have := hp.1 y hy
      rw [hlen]; omega
    · rw [hlen]; unfold posAfter; split <;> omega

theorem Arr.marginal_shape (a : Arr) (n k : Nat) (hn : a.shape.length = n) (hk : k < n) :
    (a.marginal n k).shape = [a.shape[k]?.getD 0] := by
  rw [Arr.marginal_eq_dropList, Arr.shape_sumAxes_dropList a _ n (by omega)]
  unfold keptOf
  rw [filter_range_beq n k hk, List.drop_eq_nil_of_le (by omega)]
  simp [List.getElem?_eq_getElem (show k < a.shape.length by omega)]

/-- **The marginal along the regrouped axis is the regrouped marginal.** -/
theorem Arr.marginal_gather_self (a : Arr) (n k N : Nat) (src : Nat → List Nat)
    (hn : a.shape.length = n) (hk : k < n) :
    (a.gather k N src).marginal n k = (a.marginal n k).gather 0 N src := by
  rw [Arr.marginal_eq_dropList, Arr.marginal_eq_dropList]
  obtain ⟨p, hp, e⟩ := Arr.sumAxes_gather_ne a (dropList n fun i => i == k) k N src (dropList_desc _ _)
    (by
      unfold dropList
      rw [List.mem_reverse, List.mem_filter]
      simp)
    (fun x hx => by rw [hn]; exact dropList_lt _ _ x hx) (by omega)
  rw [← Arr.marginal_eq_dropList, Arr.marginal_shape a n k hn hk] at hp
  have : p = 0 := by simpa using hp
  subst this
  exact e

theorem Arr.marginal_mergeAxis_self (a : Arr) (n k : Nat) (map : List Nat) (newN : Nat)
    (hn : a.shape.length = n) (hk : k < n) :
    (a.mergeAxis k map newN).marginal n k = (a.marginal n k).mergeAxis 0 map newN :=
  Arr.marginal_gather_self a n k newN _ hn hk

/-! ### 1-D arrays: `mergeAxis 0` is `mergeVals` -/

theorem allIdx_singleton (N : Nat) : allIdx [N] = (List.range N).map fun i => [i] := by
  simp only [allIdx, List.map_cons, List.map_nil]
  induction (List.range N) with
  | nil => rfl
  | cons x xs ih => simp [List.flatMap_cons, ih]

theorem zip_filter_eq_range (d : List Rat) (m : List Nat) (hl : m.length = d.length) (j : Nat) :
    ((d.zip m).filter (·.2 == j)).map (·.1)
      = ((List.range m.length).filter fun k => m[k]? == some j).map fun k => d[k]?.getD 0 := by
  induction d generalizing m with
  | nil =>
    cases m with
    | nil => rfl
    | cons _ _ => simp at hl
  | cons x xs ih =>
    cases m with
    | nil => simp at hl
    | cons y ys =>
      have := ih ys (by simpa using hl)
      rw [List.length_cons, List.range_succ_eq_map, List.filter_cons, List.filter_map, List.zip_cons_cons,
        List.filter_cons]
      by_cases hy : y = j
      · subst hy
        simp [this, Function.comp_def]
      · simp [hy, this, Function.comp_def]

/-- **on a 1-D array, `mergeAxis 0` is the 1-D `mergeVals`** -/
theorem Arr.mergeAxis_zero_data (b : Arr) (s : Nat) (map : List Nat) (newN : Nat)
    (hs : b.shape = [s]) (hd : b.data.length = s) (hl : map.length = s) :
    (b.mergeAxis 0 map newN).data = mergeVals b.data map newN := by
  unfold Arr.mergeAxis Arr.gather Arr.ofFn mergeVals
  simp only [hs, Arr.setAt, List.set_cons_zero, allIdx_singleton, List.map_map, Function.comp_def,
    List.getElem?_cons_zero, Option.getD_some]
  apply List.map_congr_left
  intro j _
  rw [zip_filter_eq_range b.data map (by omega) j]
  apply congrArg List.sum
  apply List.map_congr_left
  intro k hk
  have hk' : k < s := by
    have := (List.mem_filter.mp hk).1
    rw [List.mem_range] at this; omega
  simp [Arr.get, hs, validIdx, ravel, prodL, hk']

/-! ## 2. `merge_bins(axis=None)`: the bin map of every axis is the one of the ORIGINAL histogram -/

/-- the array after the axes below `i` have been merged, axis `k` with the map `maps k` -/
def Arr.mergeAxesUpTo (a : Arr) (maps : Nat → List Nat) (i : Nat) : Arr :=
  (List.range i).foldl (fun b k => b.mergeAxis k (maps k) (newCount (maps k))) a

theorem Arr.mergeAxesUpTo_succ (a : Arr) (maps : Nat → List Nat) (i : Nat) :
    a.mergeAxesUpTo maps (i + 1) = (a.mergeAxesUpTo maps i).mergeAxis i (maps i) (newCount (maps i)) := by
  unfold Arr.mergeAxesUpTo
  rw [List.range_succ, List.foldl_append]
  rfl

theorem HN.axisMap_minfreq (h : HN) (k : Nat) (t : Rat) :
    h.axisMap k none (some t) = minFreqMap t (h.freq.marginal h.axes.length k).data := rfl

/-- the state of `merge_bins(axis=None)` after the axes below `i` have been merged, with every bin
    map computed on the ORIGINAL histogram `h` (`h.axisMap k`: the `amount` map of the original axis
    length, or `minFreqMap` of the original marginal along `k`) -/
structure MarginalUpTo (fo : FloatOps) (amount : Option Nat) (thr : Option Rat) (h : HN) (i : Nat) (g : HN) : Prop where
  base : MergedUpTo fo amount h i g
  /-- the marginals along the axes not yet merged are still those of the original -/
  marg : ∀ k, i ≤ k → k < h.axes.length →
    g.freq.marginal h.axes.length k = h.freq.marginal h.axes.length k
  /-- the marginals along the axes already merged are the merged original marginals -/
  margDone : ∀ k, k < i → g.freq.marginal h.axes.length k
    = (h.freq.marginal h.axes.length k).mergeAxis 0 (h.axisMap k amount thr) (newCount (h.axisMap k amount thr))
  /-- the axes already merged were merged with the original's maps -/
  maps : ∀ k bn, k < i → h.axes[k]? = some bn →
    0 < (bn.bins fo).length ∧ MapRunsMeet (bn.bins fo) (h.axisMap k amount thr) ∧
    g.axes[k]? = some (.static (mergedByMap (bn.bins fo) (h.axisMap k amount thr)) bn.ire)
  freq : g.freq = h.freq.mergeAxesUpTo (fun k => h.axisMap k amount thr) i
  err2 : g.err2 = h.err2.mergeAxesUpTo (fun k => h.axisMap k amount thr) i

theorem MarginalUpTo.start (fo : FloatOps) (amount : Option Nat) (thr : Option Rat) (h : HN)
    (hfs : h.freq.shape = h.shape fo) (hes : h.err2.shape = h.shape fo)
    (hfw : h.freq.WellShaped) (hew : h.err2.WellShaped) : MarginalUpTo fo amount thr h 0 h :=
  ⟨MergedUpTo.start fo amount h hfs hes hfw hew, fun _ _ _ => rfl, fun k hk => absurd hk (Nat.not_lt_zero k),
    fun k _ hk => absurd hk (Nat.not_lt_zero k), rfl, rfl⟩

/-- **the map the loop computes on axis `i` (on the partly merged histogram) is the map of the
    original histogram** -/
theorem MarginalUpTo.axisMap_eq {fo : FloatOps} {amount : Option Nat} {thr : Option Rat} {h g : HN} {i : Nat}
    (inv : MarginalUpTo fo amount thr h i g) (hfs : h.freq.shape = h.shape fo) (hi : i < h.axes.length) :
    g.axisMap i amount thr = h.axisMap i amount thr := by
  unfold HN.axisMap
  cases amount with
  | some a =>
    simp only
    rw [inv.base.fshape, hfs]
    simp only [HN.shape, List.getElem?_map, inv.base.rest i (Nat.le_refl _)]
  | none =>
    cases thr with
    | none => rfl
    | some t =>
      simp only
      have := inv.marg i (Nat.le_refl _) hi
      unfold Arr.marginal at this
      rw [inv.base.len, this]

/-- one step of `merge_bins(axis=None)` keeps the invariant -/
theorem MarginalUpTo.step (fo : FloatOps) (amount : Option Nat) (thr : Option Rat) (h g g' : HN) (i : Nat)
    (hfs : h.freq.shape = h.shape fo) (hi : i < h.axes.length)
    (inv : MarginalUpTo fo amount thr h i g) (hr : g.mergeAxis fo i amount thr = .ok g') :
    MarginalUpTo fo amount thr h (i + 1) g' := by
  have base' := MergedUpTo.step fo amount thr h g g' i hi inv.base hr
  have hm : MergeMode amount thr := by
    by_contra hm
    obtain ⟨e, he⟩ := HN.mergeAxis_badMode fo g i amount thr hm
    rw [he] at hr; cases hr
  rw [HN.mergeAxis_eq fo g i amount thr hm] at hr
  obtain ⟨bn, newBins, hne, hbn, hnb, rfl⟩ := HN.mergeAxisWithMap_inv fo g g' i _ hr
  obtain ⟨hc, h0, hl, _⟩ := HN.axisMap_stepChain fo g i bn amount thr hm hbn inv.base.fshape inv.base.fws
  rw [inv.axisMap_eq hfs hi] at hne hnb hc h0 hl base' ⊢
  generalize hmap : h.axisMap i amount thr = map at *
  have hmeet : MapRunsMeet (bn.bins fo) map := (mergeBinsAux_ok_iff _ _).mp ⟨newBins, hnb⟩
  have hnew : newBins = mergedByMap (bn.bins fo) map := by
    have := (mergeBinsAux_stepChain (bn.bins fo) map hl hc h0).1 hmeet
    rw [hnb] at this
    exact Except.ok.inj this
  have hlast := getLast?_mergedByMap (bn.bins fo) map hl
  unfold lastEdge? at hlast
  have hire : (bn.ire && (newBins.getLast?.map (·.2) == (bn.bins fo).getLast?.map (·.2))) = bn.ire := by
    rw [hnew, hlast]; simp
  have hNlen : newBins.length = newCount map := by rw [hnew, mergedByMap_length]
  have hig : i < g.axes.length := by rw [inv.base.len]; exact hi
  have hsh : g.freq.shape[i]?.getD 0 = (bn.bins fo).length := by
    rw [inv.base.fshape]; exact HN.shape_getElem? fo g i bn hbn
  have hflen : g.freq.shape.length = h.axes.length := by
    rw [inv.base.fshape, ← inv.base.len]; simp [HN.shape]
  have hbnh : h.axes[i]? = some bn := by rw [← inv.base.rest i (Nat.le_refl _)]; exact hbn
  refine ⟨base', ?_, ?_, ?_, ?_, ?_⟩
  · intro k hk hkn
    show (g.freq.mergeAxis i map newBins.length).marginal h.axes.length k = _
    rw [Arr.marginal_mergeAxis' g.freq h.axes.length i k map newBins.length hflen hi (by omega) (by omega)
      (by rw [hNlen]; exact stepChain_lt_newCount map hc)]
    exact inv.marg k (by omega) hkn
  · intro k hk
    show (g.freq.mergeAxis i map newBins.length).marginal h.axes.length k = _
    by_cases e : k = i
    · subst e
      rw [Arr.marginal_mergeAxis_self g.freq h.axes.length k map newBins.length hflen hi,
        inv.marg k (Nat.le_refl _) hi, hmap, hNlen]
    · rw [Arr.marginal_mergeAxis' g.freq h.axes.length i k map newBins.length hflen hi (fun e' => e e'.symm) (by omega)
        (by rw [hNlen]; exact stepChain_lt_newCount map hc)]
      exact inv.margDone k (by omega)
  · intro k bn' hk hbn'
    by_cases e : k = i
    · subst e
      have : bn' = bn := by rw [hbnh] at hbn'; exact (Option.some.inj hbn').symm
      subst this
      refine ⟨?_, ?_, ?_⟩
      · rw [← hl]
        cases map with
        | nil => exact absurd rfl hne
        | cons _ _ => simp
      · rw [hmap]; exact hmeet
      · show (g.axes.set k _)[k]? = _
        rw [List.getElem?_set_self hig, hire, hnew, hmap]
    · obtain ⟨h1, h2, h3⟩ := inv.maps k bn' (by omega) hbn'
      refine ⟨h1, h2, ?_⟩
      show (g.axes.set i _)[k]? = _
      rw [List.getElem?_set_ne (fun e' => e e'.symm)]
      exact h3
  · show g.freq.mergeAxis i map newBins.length = _
    rw [Arr.mergeAxesUpTo_succ, ← inv.freq, hmap, hNlen]
  · show g.err2.mergeAxis i map newBins.length = _
    rw [Arr.mergeAxesUpTo_succ, ← inv.err2, hmap, hNlen]

/-- **`merge_bins(axis=None)`, when accepted**: the invariant holds with all axes merged. -/
theorem HN.mergeAll_marginal_spec (fo : FloatOps) (h r : HN) (amount : Option Nat) (thr : Option Rat)
    (hfs : h.freq.shape = h.shape fo) (hes : h.err2.shape = h.shape fo)
    (hfw : h.freq.WellShaped) (hew : h.err2.WellShaped)
    (hr : h.mergeAll fo amount thr = .ok r) : MarginalUpTo fo amount thr h h.axes.length r := by
  rw [HN.mergeAll_eq] at hr
  exact foldlM_range'_inv (MarginalUpTo fo amount thr h) _ h.axes.length
    (fun i a a' hi hP hf => MarginalUpTo.step fo amount thr h a a' i hfs hi hP hf)
    h.axes.length 0 h r (by omega) (MarginalUpTo.start fo amount thr h hfs hes hfw hew) hr

/-- **Acceptance is decided on the original histogram**: with a usable way of calling it,
    `merge_bins(axis=None)` is accepted iff every axis has a bin and the bin map of every axis —
    computed on the original histogram — has no gap inside a run. -/
theorem HN.mergeAll_ok_iff (fo : FloatOps) (h : HN) (amount : Option Nat) (thr : Option Rat)
    (hm : MergeMode amount thr)
    (hfs : h.freq.shape = h.shape fo) (hes : h.err2.shape = h.shape fo)
    (hfw : h.freq.WellShaped) (hew : h.err2.WellShaped) :
    (∃ r, h.mergeAll fo amount thr = .ok r) ↔
      ∀ (k : Nat) (bn : Binning), h.axes[k]? = some bn →
        0 < (bn.bins fo).length ∧ MapRunsMeet (bn.bins fo) (h.axisMap k amount thr) := by
  constructor
  · rintro ⟨r, hr⟩ k bn hbn
    have inv := HN.mergeAll_marginal_spec fo h r amount thr hfs hes hfw hew hr
    obtain ⟨h1, h2, _⟩ := inv.maps k bn (List.getElem?_eq_some_iff.mp hbn).1 hbn
    exact ⟨h1, h2⟩
  · intro hall
    rw [HN.mergeAll_eq]
    refine foldlM_range'_ok (MarginalUpTo fo amount thr h) _ h.axes.length
      (fun i g g' hi hP hf => MarginalUpTo.step fo amount thr h g g' i hfs hi hP hf) ?_
      h.axes.length 0 h (by omega) (MarginalUpTo.start fo amount thr h hfs hes hfw hew)
    intro i g hi inv
    obtain ⟨bn, hbn⟩ : ∃ bn, h.axes[i]? = some bn := ⟨h.axes[i], List.getElem?_eq_getElem hi⟩
    have hbn' : g.axes[i]? = some bn := by rw [inv.base.rest i (Nat.le_refl _)]; exact hbn
    obtain ⟨hpos, hmeet⟩ := hall i bn hbn
    obtain ⟨_, _, hl, _⟩ := HN.axisMap_stepChain fo g i bn amount thr hm hbn' inv.base.fshape inv.base.fws
    rw [inv.axisMap_eq hfs hi] at hl
    obtain ⟨newBins, hnb⟩ := (mergeBinsAux_ok_iff _ _).mpr hmeet
    rw [HN.mergeAxis_eq fo g i amount thr hm, inv.axisMap_eq hfs hi]
    exact ⟨_, HN.mergeAxisWithMap_ok fo g i _ bn newBins
      (by intro e; rw [e] at hl; simp at hl; omega) hbn' hnb⟩

/-! ## 3. the `min_frequency` form -/

/-- the bin map `merge_bins(min_frequency=t)` uses on axis `k`, computed on the marginal of `h` itself -/
def HN.minFreqMapOf (h : HN) (t : Rat) (k : Nat) : List Nat :=
  minFreqMap t (h.freq.marginal h.axes.length k).data

/-- what `merge_bins(min_frequency=t)` on all axes returns for axis `k` -/
theorem HN.mergeAll_minfreq_axis (fo : FloatOps) (h r : HN) (t : Rat)
    (hfs : h.freq.shape = h.shape fo) (hes : h.err2.shape = h.shape fo)
    (hfw : h.freq.WellShaped) (hew : h.err2.WellShaped)
    (hr : h.mergeAll fo none (some t) = .ok r) (k : Nat) (bn : Binning) (hbn : h.axes[k]? = some bn) :
    (h.minFreqMapOf t k).length = (bn.bins fo).length ∧ 0 < (bn.bins fo).length ∧
    MapRunsMeet (bn.bins fo) (h.minFreqMapOf t k) ∧
    r.axes[k]? = some (.static (mergedByMap (bn.bins fo) (h.minFreqMapOf t k)) bn.ire) ∧
    (r.freq.marginal h.axes.length k).data
      = mergeVals (h.freq.marginal h.axes.length k).data (h.minFreqMapOf t k) (newCount (h.minFreqMapOf t k)) := by
  have inv := HN.mergeAll_marginal_spec fo h r none (some t) hfs hes hfw hew hr
  have hk : k < h.axes.length := (List.getElem?_eq_some_iff.mp hbn).1
  obtain ⟨h1, h2, h3⟩ := inv.maps k bn hk hbn
  obtain ⟨_, _, hl, _⟩ := HN.axisMap_stepChain fo h k bn none (some t) (Or.inr ⟨rfl, t, rfl⟩) hbn hfs hfw
  have hn : h.freq.shape.length = h.axes.length := by rw [hfs]; simp [HN.shape]
  have hsh : h.freq.shape[k]?.getD 0 = (bn.bins fo).length := by rw [hfs]; exact HN.shape_getElem? fo h k bn hbn
  refine ⟨hl, h1, h2, h3, ?_⟩
  rw [inv.margDone k hk]
  exact Arr.mergeAxis_zero_data _ (h.freq.shape[k]?.getD 0) _ _ (Arr.marginal_shape h.freq _ k hn hk)
    (marginal_length h.freq hfw _ k hn hk) (by rw [hsh]; exact hl)

end Physt

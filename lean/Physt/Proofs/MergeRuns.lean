import Physt.Proofs.HistoryND
/-!
# `merge_bins` for any bin map that is a step chain: the runs, the merged edges, `min_frequency`,
# all axes at once

* `mergeBinsAux_ok_iff` — `apply_bin_map` accepts a bin map iff neighbouring old bins that go to the
  same new bin meet (any map);
* `mergeBinsAux_stepChain` — for a step chain starting at 0 the result is `mergedByMap`: new bin `j`
  spans run `j` (`runOf`), from the left edge of its first to the right edge of its last old bin;
* outer edges, `Rising`, the runs concatenate to the old bins;
* `minFreqMap_runs`, `minFreqMap_unique` — what the threshold guarantees about the runs, and that
  these guarantees determine the grouping;
* `H1.mergeWithMap_spec`, `H1.mergeMinFreq_spec` — 1-D histograms;
* `Arr.gather_comm`, `Arr.mergeAxis_comm`, `HN.mergeAxis_amount_comm` — merging two different axes commutes;
* `HN.mergeAll_spec`, `HN.mergeAll_amount_ok`, `HN.mergeAll_amount_refused`, `HN.mergeAll_refused_at`;
* `mapRunsMeet_iff_runs` — acceptance run by run (`is_consecutive` of every run).
-/
namespace Physt
open H1

/-! ## 1. what `mergeBinsAux` computes, and when -/

/-- what `mergeBinsAux` returns when it does not refuse (the gap check left out) -/
def mergeRuns : List (Bin × Nat) → Bin × Nat → List Bin
  | [], c => [c.1]
  | z :: rest, c =>
    if z.2 = c.2 then mergeRuns rest ((c.1.1, z.1.2), c.2) else c.1 :: mergeRuns rest z

/-- two neighbouring old bins that go to the same new bin must meet -/
def MeetIfSame (x y : Bin × Nat) : Prop := x.2 = y.2 → x.1.2 = y.1.1

theorem isChain_meet_congr (x y : Bin × Nat) (rest : List (Bin × Nat)) (h1 : x.1.2 = y.1.2) (h2 : x.2 = y.2) :
    List.IsChain MeetIfSame (x :: rest) ↔ List.IsChain MeetIfSame (y :: rest) := by
  cases rest with
  | nil => simp
  | cons z rest => simp only [List.isChain_cons_cons, MeetIfSame, h1, h2]

theorem mergeBinsAux_some (zs : List (Bin × Nat)) : ∀ (c : Bin × Nat),
    (List.IsChain MeetIfSame (c :: zs) → mergeBinsAux zs (some c) = .ok (mergeRuns zs c)) ∧
    (¬ List.IsChain MeetIfSame (c :: zs) → mergeBinsAux zs (some c) = .error "merging non-consecutive bins") := by
  induction zs with
  | nil =>
    intro c
    obtain ⟨cur, cj⟩ := c
    simp [mergeBinsAux, mergeRuns, pure, Except.pure]
  | cons z rest ih =>
    intro c
    obtain ⟨cur, cj⟩ := c
    obtain ⟨b, j⟩ := z
    rw [List.isChain_cons_cons]
    simp only [mergeBinsAux, mergeRuns]
    by_cases hj : j = cj
    · subst hj
      simp only [if_true]
      by_cases hm : cur.2 = b.1
      · simp only [hm, if_true]
        have hcg := isChain_meet_congr ((cur.1, b.2), j) (b, j) rest rfl rfl
        have := ih ((cur.1, b.2), j)
        rw [hcg] at this
        constructor
        · intro hc; exact this.1 hc.2
        · intro hc; exact this.2 (fun h => hc ⟨fun _ => hm, h⟩)
      · simp only [hm, if_false]
        constructor
        · intro hc; exact absurd (hc.1 rfl) hm
        · intro _; rfl
    · simp only [hj, if_false]
      have := ih (b, j)
      constructor
      · intro hc
        rw [this.1 hc.2]; rfl
      · intro hc
        rw [this.2 (fun h => hc ⟨fun e => absurd e.symm hj, h⟩)]; rfl

/-- the result of `mergeBinsAux` started without a current bin -/
def mergeRuns0 : List (Bin × Nat) → List Bin
  | [] => []
  | z :: rest => mergeRuns rest z

theorem mergeBinsAux_none (zs : List (Bin × Nat)) :
    (List.IsChain MeetIfSame zs → mergeBinsAux zs none = .ok (mergeRuns0 zs)) ∧
    (¬ List.IsChain MeetIfSame zs → mergeBinsAux zs none = .error "merging non-consecutive bins") := by
  cases zs with
  | nil => simp [mergeBinsAux, mergeRuns0, pure, Except.pure]
  | cons z rest =>
    obtain ⟨b, j⟩ := z
    simp only [mergeBinsAux, mergeRuns0]
    exact mergeBinsAux_some rest (b, j)

/-- within every run of the bin map, adjacent old bins meet: whenever old bins `k` and `k + 1` go
    to the same new bin, the right edge of `k` is the left edge of `k + 1` -/
def MapRunsMeet (bins : Bins) (map : List Nat) : Prop :=
  ∀ k b c m, bins[k]? = some b → bins[k + 1]? = some c → map[k]? = some m → map[k + 1]? = some m → b.2 = c.1

theorem isChain_zip_iff (bins : Bins) (map : List Nat) :
    List.IsChain MeetIfSame (bins.zip map) ↔ MapRunsMeet bins map := by
  rw [List.isChain_iff_getElem]
  constructor
  · intro h k b c m hb hc hm hm'
    obtain ⟨hkb, rfl⟩ := List.getElem?_eq_some_iff.mp hb
    obtain ⟨hkc, rfl⟩ := List.getElem?_eq_some_iff.mp hc
    obtain ⟨hkm, e1⟩ := List.getElem?_eq_some_iff.mp hm
    obtain ⟨hkm', e2⟩ := List.getElem?_eq_some_iff.mp hm'
    have := h k (by simp; omega)
    simp only [MeetIfSame, List.getElem_zip] at this
    exact this (by rw [e1, e2])
  · intro h k hk
    simp only [List.length_zip] at hk
    simp only [MeetIfSame, List.getElem_zip]
    intro e
    exact h k _ _ _ (List.getElem?_eq_getElem (by omega)) (List.getElem?_eq_getElem (by omega))
      (List.getElem?_eq_getElem (by omega)) (by rw [List.getElem?_eq_getElem (by omega), e])

/-- **Acceptance, for any bin map**: `apply_bin_map` succeeds iff no run has a gap inside. -/
theorem mergeBinsAux_ok_iff (bins : Bins) (map : List Nat) :
    (∃ r, mergeBinsAux (bins.zip map) none = .ok r) ↔ MapRunsMeet bins map := by
  rw [← isChain_zip_iff]
  constructor
  · rintro ⟨r, hr⟩
    by_contra hc
    rw [(mergeBinsAux_none _).2 hc] at hr
    cases hr
  · intro hc
    exact ⟨_, (mergeBinsAux_none _).1 hc⟩

theorem mergeBinsAux_refused (bins : Bins) (map : List Nat) (h : ¬ MapRunsMeet bins map) :
    mergeBinsAux (bins.zip map) none = .error "merging non-consecutive bins" :=
  (mergeBinsAux_none _).2 (by rwa [isChain_zip_iff])

theorem mergeBinsAux_accepted (bins : Bins) (map : List Nat) (h : MapRunsMeet bins map) :
    mergeBinsAux (bins.zip map) none = .ok (mergeRuns0 (bins.zip map)) :=
  (mergeBinsAux_none _).1 (by rwa [isChain_zip_iff])

/-! ## 2. runs of a step chain and the bins they span -/

/-- the old bins that go to new bin `j`, in order (the same filter as in `C10_run_content`) -/
def runOf {α} (zs : List (α × Nat)) (j : Nat) : List α := (zs.filter (·.2 == j)).map (·.1)

/-- from the left edge of the first to the right edge of the last bin of a run (`(0, 0)` for an
    empty run; never read there below) -/
def spanOf (run : Bins) : Bin := ((run.head?.getD (0, 0)).1, (run.getLast?.getD (0, 0)).2)

theorem runOf_cons {α} (z : α × Nat) (rest : List (α × Nat)) (k : Nat) :
    runOf (z :: rest) k = if z.2 = k then z.1 :: runOf rest k else runOf rest k := by
  unfold runOf
  by_cases h : z.2 = k <;> simp [h]

theorem runOf_eq_nil {α} (zs : List (α × Nat)) (j : Nat) (h : ∀ z ∈ zs, z.2 ≠ j) : runOf zs j = [] := by
  unfold runOf
  rw [List.map_eq_nil_iff, List.filter_eq_nil_iff]
  intro z hz
  simpa using h z hz

theorem spanOf_cons (x : Bin) (R : Bins) : spanOf (x :: R) = (x.1, (R.getLast?.getD x).2) := by
  simp [spanOf, List.getLast?_cons]

theorem spanOf_merge (c b : Bin) (R : Bins) : spanOf ((c.1, b.2) :: R) = spanOf (c :: b :: R) := by
  rw [spanOf_cons, spanOf_cons, List.getLast?_cons]
  cases R.getLast? <;> rfl

theorem stepChain_ge : ∀ (l : List Nat) (s : Nat), StepChain s l → ∀ x ∈ l, s ≤ x := by
  intro l
  induction l with
  | nil => intro s _ x hx; cases hx
  | cons y ys ih =>
    intro s h x hx
    rcases List.mem_cons.mp hx with rfl | hx
    · rcases h.1 with e | e <;> omega
    · have := ih y h.2 x hx
      rcases h.1 with e | e <;> omega

/-- the last map value, `d` for an empty map -/
def lastKey (zs : List (Bin × Nat)) (d : Nat) : Nat := (zs.getLast?.map (·.2)).getD d

theorem lastKey_cons (z : Bin × Nat) (rest : List (Bin × Nat)) (d : Nat) :
    lastKey (z :: rest) d = lastKey rest z.2 := by
  unfold lastKey
  rw [List.getLast?_cons]
  cases rest.getLast? <;> rfl

theorem lastKey_ge (zs : List (Bin × Nat)) (s : Nat) (h : StepChain s (zs.map (·.2))) : s ≤ lastKey zs s := by
  unfold lastKey
  cases hl : zs.getLast? with
  | none => simp
  | some z =>
    have hm : z ∈ zs := List.mem_of_getLast? hl
    exact stepChain_ge _ s h z.2 (List.mem_map.mpr ⟨z, hm, rfl⟩)

/-- **The runs of a step chain, merged.**  Continuing a current bin `c` of new index `c.2`: the
    current bin is extended over the rest of its run, and every later run `c.2 + 1 + i` becomes one
    bin spanning it. -/
theorem mergeRuns_stepChain (zs : List (Bin × Nat)) : ∀ (c : Bin × Nat), StepChain c.2 (zs.map (·.2)) →
    mergeRuns zs c = spanOf (c.1 :: runOf zs c.2) ::
      (List.range (lastKey zs c.2 - c.2)).map fun i => spanOf (runOf zs (c.2 + 1 + i)) := by
  induction zs with
  | nil =>
    intro c _
    simp [mergeRuns, runOf, spanOf, lastKey]
  | cons z rest ih =>
    intro c hc
    obtain ⟨cur, cj⟩ := c
    obtain ⟨b, j⟩ := z
    simp only [List.map_cons] at hc
    obtain ⟨hj, hrest⟩ := hc
    simp only [mergeRuns, lastKey_cons]
    by_cases e : j = cj
    · subst e
      simp only [if_true]
      rw [ih ((cur.1, b.2), j) hrest]
      simp only [runOf_cons, if_true, spanOf_merge]
      congr 1
      apply List.map_congr_left
      intro i _
      rw [if_neg (by omega)]
    · have e' : j = cj + 1 := by rcases hj with h | h <;> omega
      subst e'
      simp only [e, if_false]
      rw [ih (b, cj + 1) hrest]
      have hnil : runOf rest cj = [] := by
        apply runOf_eq_nil
        intro z hz
        have := stepChain_ge _ _ hrest z.2 (List.mem_map.mpr ⟨z, hz, rfl⟩)
        omega
      have hge := lastKey_ge rest (cj + 1) hrest
      obtain ⟨d, hd⟩ : ∃ d, lastKey rest (cj + 1) - cj = d + 1 := ⟨lastKey rest (cj + 1) - cj - 1, by omega⟩
      have hd' : lastKey rest (cj + 1) - (cj + 1) = d := by omega
      rw [hd, hd', List.range_succ_eq_map, List.map_cons, List.map_map]
      simp only [runOf_cons, e, if_false, hnil, Nat.add_zero, if_true]
      rw [spanOf_cons]
      congr 2
      apply List.map_congr_left
      intro i _
      simp only [Function.comp]
      rw [if_neg (by omega)]
      congr 2
      omega

/-- number of new bins of a bin map: its last value + 1 (0 for the empty map) -/
def newCount (map : List Nat) : Nat := (map.getLast?.map (· + 1)).getD 0

/-- what `merge_bins` must produce for a bin map: new bin `j` spans run `j` -/
def mergedByMap (bins : Bins) (map : List Nat) : Bins :=
  (List.range (newCount map)).map fun j => spanOf (runOf (bins.zip map) j)

theorem lastKey_zip (bins : Bins) (map : List Nat) (hl : map.length = bins.length) (d : Nat) :
    lastKey (bins.zip map) d = map.getLast?.getD d := by
  unfold lastKey
  rw [← List.getLast?_map, List.map_snd_zip (by omega)]

theorem mergeRuns0_stepChain (bins : Bins) (map : List Nat) (hl : map.length = bins.length)
    (hc : StepChain 0 map) (h0 : ∀ x, map.head? = some x → x = 0) :
    mergeRuns0 (bins.zip map) = mergedByMap bins map := by
  cases bins with
  | nil => cases map with
    | nil => rfl
    | cons m ms => simp at hl
  | cons b bs =>
    cases map with
    | nil => simp at hl
    | cons m ms =>
      have hm : m = 0 := h0 m rfl
      subst hm
      have hl' : ms.length = bs.length := by simpa using hl
      simp only [List.zip_cons_cons, mergeRuns0]
      rw [mergeRuns_stepChain (bs.zip ms) (b, 0) (by
        simp only [List.map_snd_zip (show ms.length ≤ bs.length by omega)]; exact hc.2)]
      have hn : newCount (0 :: ms) = lastKey (bs.zip ms) 0 + 1 := by
        rw [lastKey_zip bs ms hl']
        unfold newCount
        rw [List.getLast?_cons]
        cases ms.getLast? <;> rfl
      unfold mergedByMap
      rw [hn, List.range_succ_eq_map, List.map_cons, List.map_map]
      simp only [List.zip_cons_cons, runOf_cons, if_true, Nat.sub_zero]
      congr 1
      apply List.map_congr_left
      intro i _
      simp only [Function.comp, Nat.zero_add]
      rw [if_neg (by omega), Nat.add_comm]

/-- **`apply_bin_map` for a step chain starting at 0** (`merge_bins(amount)` and
    `merge_bins(min_frequency=…)` alike): accepted iff no run has a gap inside; then the result is
    `mergedByMap`, otherwise the call is refused. -/
theorem mergeBinsAux_stepChain (bins : Bins) (map : List Nat) (hl : map.length = bins.length)
    (hc : StepChain 0 map) (h0 : ∀ x, map.head? = some x → x = 0) :
    (MapRunsMeet bins map → mergeBinsAux (bins.zip map) none = .ok (mergedByMap bins map)) ∧
    (¬ MapRunsMeet bins map → mergeBinsAux (bins.zip map) none = .error "merging non-consecutive bins") :=
  ⟨fun h => by rw [mergeBinsAux_accepted bins map h, mergeRuns0_stepChain bins map hl hc h0],
   mergeBinsAux_refused bins map⟩

theorem mergedByMap_length (bins : Bins) (map : List Nat) : (mergedByMap bins map).length = newCount map := by
  simp [mergedByMap]

/-- every value between the start and the last value of a step chain occurs in it -/
theorem stepChain_mem : ∀ (l : List Nat) (s L : Nat), StepChain s l → l.getLast? = some L →
    ∀ j, s < j → j ≤ L → j ∈ l := by
  intro l
  induction l with
  | nil => intro s L _ h; cases h
  | cons x xs ih =>
    intro s L h hL j hsj hjL
    by_cases e : j = x
    · subst e; exact List.mem_cons_self ..
    · cases xs with
      | nil =>
        simp only [List.getLast?_singleton, Option.some.injEq] at hL
        rcases h.1 with e' | e' <;> omega
      | cons y ys =>
        rw [List.getLast?_cons_cons] at hL
        exact List.mem_cons_of_mem _ (ih x L h.2 hL j (by rcases h.1 with e' | e' <;> omega) hjL)

theorem stepChain0_mem (map : List Nat) (L : Nat) (hc : StepChain 0 map) (h0 : ∀ x, map.head? = some x → x = 0)
    (hL : map.getLast? = some L) : ∀ j, j ≤ L → j ∈ map := by
  intro j hj
  by_cases e : j = 0
  · subst e
    cases map with
    | nil => cases hL
    | cons m ms => rw [h0 m rfl]; exact List.mem_cons_self ..
  · exact stepChain_mem map 0 L hc hL j (by omega) hj

theorem runOf_zip_ne_nil {α} (bins : List α) (map : List Nat) (hl : map.length = bins.length) (j : Nat) (hj : j ∈ map) :
    runOf (bins.zip map) j ≠ [] := by
  obtain ⟨k, hk, rfl⟩ := List.getElem_of_mem hj
  unfold runOf
  rw [Ne, List.map_eq_nil_iff, List.filter_eq_nil_iff]
  intro h
  have := h (bins[k]'(by omega), map[k]) (by
    rw [List.mem_iff_getElem]
    exact ⟨k, by simp; omega, by simp⟩)
  simp at this

/-- **New bin `j`** reaches from the left edge of the first old bin of run `j` to the right edge of
    its last old bin, and the run is not empty. -/
theorem mergedByMap_getElem? (bins : Bins) (map : List Nat) (hl : map.length = bins.length)
    (hc : StepChain 0 map) (h0 : ∀ x, map.head? = some x → x = 0) (j : Nat) (hj : j < newCount map) :
    ∃ f l, (runOf (bins.zip map) j).head? = some f ∧ (runOf (bins.zip map) j).getLast? = some l ∧
      (mergedByMap bins map)[j]? = some (f.1, l.2) := by
  have hmem : j ∈ map := by
    unfold newCount at hj
    cases hL : map.getLast? with
    | none => simp [hL] at hj
    | some L =>
      simp only [hL, Option.map_some, Option.getD_some] at hj
      exact stepChain0_mem map L hc h0 hL j (by omega)
  have hne := runOf_zip_ne_nil bins map hl j hmem
  cases hr : runOf (bins.zip map) j with
  | nil => exact absurd hr hne
  | cons f R =>
    refine ⟨f, R.getLast?.getD f, rfl, List.getLast?_cons, ?_⟩
    simp only [mergedByMap, List.getElem?_map, List.getElem?_range hj, Option.map_some, hr, spanOf_cons]

/-! ## 3. outer edges, `Rising`, the runs concatenate to the old bins -/

theorem getLast?_filter_of_last {α} (l : List α) (p : α → Bool) (z : α) (hl : l.getLast? = some z) (hp : p z = true) :
    (l.filter p).getLast? = some z := by
  obtain ⟨ys, rfl⟩ := List.getLast?_eq_some_iff.mp hl
  rw [List.filter_append]
  simp [hp]

theorem head?_mergedByMap (bins : Bins) (map : List Nat) (hl : map.length = bins.length)
    (h0 : ∀ x, map.head? = some x → x = 0) :
    firstEdge? (mergedByMap bins map) = firstEdge? bins := by
  cases bins with
  | nil => cases map with
    | nil => rfl
    | cons m ms => simp at hl
  | cons b bs =>
    cases map with
    | nil => simp at hl
    | cons m ms =>
      have hm : m = 0 := h0 m rfl
      subst hm
      have hn : ∃ d, newCount (0 :: ms) = d + 1 := by
        unfold newCount
        rw [List.getLast?_cons]
        exact ⟨_, rfl⟩
      obtain ⟨d, hd⟩ := hn
      simp only [firstEdge?, mergedByMap, hd, List.range_succ_eq_map, List.map_cons, List.head?_cons,
        List.zip_cons_cons, runOf_cons, if_true, spanOf_cons, Option.map_some]

theorem getLast?_mergedByMap (bins : Bins) (map : List Nat) (hl : map.length = bins.length) :
    lastEdge? (mergedByMap bins map) = lastEdge? bins := by
  cases hL : map.getLast? with
  | none =>
    have : map = [] := by simpa using hL
    subst this
    have : bins = [] := List.eq_nil_of_length_eq_zero (by simpa using hl.symm)
    subst this
    rfl
  | some L =>
    have hz : (bins.zip map).getLast?.map (·.2) = some L := by
      rw [← List.getLast?_map, List.map_snd_zip (by omega), hL]
    have hz1 : (bins.zip map).getLast?.map (·.1) = bins.getLast? := by
      rw [← List.getLast?_map, List.map_fst_zip (by omega)]
    cases hzl : (bins.zip map).getLast? with
    | none => rw [hzl] at hz; cases hz
    | some z =>
      rw [hzl] at hz hz1
      simp only [Option.map_some, Option.some.injEq] at hz
      have hrun : (runOf (bins.zip map) L).getLast? = some z.1 := by
        unfold runOf
        rw [List.getLast?_map, getLast?_filter_of_last _ _ z hzl (by simp [hz])]
        rfl
      have hn : newCount map = L + 1 := by simp [newCount, hL]
      simp only [lastEdge?, mergedByMap, hn, List.range_succ, List.map_append, List.map_cons, List.map_nil,
        List.getLast?_append, List.getLast?_singleton]
      rw [← hz1]
      simp [spanOf, hrun]

theorem rising_cons_iff (x : Bin) (l : Bins) :
    Rising (x :: l) ↔ x.1 < x.2 ∧ (∀ y, l.head? = some y → x.2 ≤ y.1) ∧ Rising l := by
  obtain ⟨a, b⟩ := x
  cases l with
  | nil => simp [Rising]
  | cons y ys => obtain ⟨c, d⟩ := y; simp [Rising]

theorem mergeRuns_rising (zs : List (Bin × Nat)) : ∀ (c : Bin × Nat), Rising (c.1 :: zs.map (·.1)) →
    Rising (mergeRuns zs c) ∧ ∃ y, (mergeRuns zs c).head? = some y ∧ y.1 = c.1.1 := by
  induction zs with
  | nil =>
    intro c h
    exact ⟨h, c.1, rfl, rfl⟩
  | cons z rest ih =>
    intro c h
    obtain ⟨cur, cj⟩ := c
    obtain ⟨b, j⟩ := z
    simp only [List.map_cons] at h
    rw [rising_cons_iff] at h
    obtain ⟨h1, h2, h3⟩ := h
    have h2' : cur.2 ≤ b.1 := h2 b rfl
    have h3' := (rising_cons_iff _ _).mp h3
    simp only [mergeRuns]
    by_cases e : j = cj
    · simp only [e, if_true]
      apply ih ((cur.1, b.2), cj)
      rw [rising_cons_iff]
      exact ⟨by show cur.1 < b.2; linarith [h3'.1], h3'.2.1, h3'.2.2⟩
    · simp only [e, if_false]
      obtain ⟨hr, y, hy, hy1⟩ := ih (b, j) h3
      refine ⟨?_, cur, rfl, rfl⟩
      rw [rising_cons_iff]
      refine ⟨h1, ?_, hr⟩
      intro y' hy'
      rw [hy] at hy'
      cases hy'
      rw [hy1]
      exact h2'

/-- **Rising bins stay rising** under any bin map (when the merge is accepted at all). -/
theorem mergeRuns0_rising (zs : List (Bin × Nat)) (h : Rising (zs.map (·.1))) : Rising (mergeRuns0 zs) := by
  cases zs with
  | nil => trivial
  | cons z rest => exact (mergeRuns_rising rest z h).1

theorem mergeBinsAux_rising (bins : Bins) (map : List Nat) (hl : bins.length ≤ map.length) (hb : Rising bins)
    (r : Bins) (hr : mergeBinsAux (bins.zip map) none = .ok r) : Rising r := by
  have hm : MapRunsMeet bins map := (mergeBinsAux_ok_iff bins map).mp ⟨r, hr⟩
  rw [mergeBinsAux_accepted bins map hm] at hr
  cases hr
  apply mergeRuns0_rising
  rw [List.map_fst_zip hl]
  exact hb

theorem stepChain_sorted : ∀ (l : List Nat) (s : Nat), StepChain s l → l.Pairwise (· ≤ ·) := by
  intro l
  induction l with
  | nil => intro _ _; exact List.Pairwise.nil
  | cons x xs ih =>
    intro s h
    rw [List.pairwise_cons]
    exact ⟨stepChain_ge xs x h.2, ih x h.2⟩

theorem filter_lt_succ {α} (key : α → Nat) (zs : List α) (hs : (zs.map key).Pairwise (· ≤ ·)) (N : Nat) :
    zs.filter (fun z => decide (key z < N)) ++ zs.filter (fun z => key z == N)
      = zs.filter (fun z => decide (key z < N + 1)) := by
  induction zs with
  | nil => rfl
  | cons z rest ih =>
    simp only [List.map_cons, List.pairwise_cons] at hs
    have ih' := ih hs.2
    by_cases h1 : key z < N
    · have h2 : ¬ key z = N := by omega
      have h3 : key z < N + 1 := by omega
      simp [h1, h2, h3, ← ih']
    · have hnil : rest.filter (fun z => decide (key z < N)) = [] := by
        rw [List.filter_eq_nil_iff]
        intro y hy
        have := hs.1 (key y) (List.mem_map.mpr ⟨y, hy, rfl⟩)
        simp only [decide_eq_true_eq]
        omega
      rw [hnil, List.nil_append] at ih'
      by_cases h2 : key z = N
      · have h3 : key z < N + 1 := by omega
        simp [h2, hnil, ← ih']
      · have h3 : ¬ key z < N + 1 := by omega
        simp [h1, h2, h3, hnil, ← ih']

theorem flatMap_filter_eq {α} (key : α → Nat) (zs : List α) (hs : (zs.map key).Pairwise (· ≤ ·)) (N : Nat) :
    (List.range N).flatMap (fun j => zs.filter (fun z => key z == j)) = zs.filter (fun z => decide (key z < N)) := by
  induction N with
  | zero => simp
  | succ N ih => rw [List.range_succ, List.flatMap_append, ih, ← filter_lt_succ key zs hs N]; simp

theorem stepChain_lt_newCount (map : List Nat) (hc : StepChain 0 map) : ∀ j ∈ map, j < newCount map := by
  intro j hj
  have hsorted := stepChain_sorted map 0 hc
  unfold newCount
  cases hL : map.getLast? with
  | none => have : map = [] := by simpa using hL
            subst this; cases hj
  | some L =>
    obtain ⟨ys, rfl⟩ := List.getLast?_eq_some_iff.mp hL
    rw [List.pairwise_append] at hsorted
    simp only [Option.map_some, Option.getD_some]
    rcases List.mem_append.mp hj with h | h
    · have := hsorted.2.2 _ h L (by simp)
      omega
    · simp at h; omega

/-- **Nothing is lost, nothing is reordered**: the runs `0, 1, …` of a step chain, one after the
    other, are the old bins (or the old contents). -/
theorem runs_concat {α} (bins : List α) (map : List Nat) (hl : map.length = bins.length) (hc : StepChain 0 map) :
    (List.range (newCount map)).flatMap (runOf (bins.zip map)) = bins := by
  have hs : ((bins.zip map).map (·.2)).Pairwise (· ≤ ·) := by
    rw [List.map_snd_zip (by omega)]; exact stepChain_sorted map 0 hc
  unfold runOf
  have hf := flatMap_filter_eq (fun z : α × Nat => z.2) (bins.zip map) hs (newCount map)
  rw [← List.map_flatMap, hf]
  have hall : (bins.zip map).filter (fun z => decide (z.2 < newCount map)) = bins.zip map := by
    rw [List.filter_eq_self]
    intro z hz
    simpa using stepChain_lt_newCount map hc z.2 (List.of_mem_zip hz).2
  rw [hall, List.map_fst_zip (by omega)]

/-! ## 4. `min_frequency`: what the threshold guarantees -/

theorem minFreqMapAux_ge (thr : Rat) (fs : List Rat) (cur : Nat) (sum : Rat) :
    ∀ x ∈ minFreqMapAux thr fs cur sum, cur ≤ x :=
  stepChain_ge _ cur (minFreqMapAux_chain thr fs cur sum).1

/-- one step of the `min_frequency` loop, with the facts its two `if`s establish -/
theorem minFreqMapAux_cons (thr f : Rat) (fs : List Rat) (cur : Nat) (sum : Rat) :
    ∃ c1 c3 s1 s3, minFreqMapAux thr (f :: fs) cur sum = c1 :: minFreqMapAux thr fs c3 s3 ∧
      ((c1 = cur ∧ s1 = sum ∧ ¬ (thr ≤ f ∧ 0 < sum)) ∨ (c1 = cur + 1 ∧ s1 = 0 ∧ thr ≤ f ∧ 0 < sum)) ∧
      ((c3 = c1 + 1 ∧ s3 = 0 ∧ thr < s1 + f) ∨ (c3 = c1 ∧ s3 = s1 + f ∧ ¬ thr < s1 + f)) := by
  by_cases h1 : thr ≤ f ∧ 0 < sum
  · by_cases h2 : thr < 0 + f
    · have e : minFreqMapAux thr (f :: fs) cur sum = (cur + 1) :: minFreqMapAux thr fs (cur + 1 + 1) 0 := by
        simp only [minFreqMapAux, h1, and_self, if_true, h2]
      exact ⟨cur + 1, cur + 1 + 1, 0, 0, e, Or.inr ⟨rfl, rfl, h1⟩, Or.inl ⟨rfl, rfl, h2⟩⟩
    · have e : minFreqMapAux thr (f :: fs) cur sum = (cur + 1) :: minFreqMapAux thr fs (cur + 1) (0 + f) := by
        simp only [minFreqMapAux, h1, and_self, if_true, h2, if_false]
      exact ⟨cur + 1, cur + 1, 0, 0 + f, e, Or.inr ⟨rfl, rfl, h1⟩, Or.inr ⟨rfl, rfl, h2⟩⟩
  · by_cases h2 : thr < sum + f
    · have e : minFreqMapAux thr (f :: fs) cur sum = cur :: minFreqMapAux thr fs (cur + 1) 0 := by
        simp only [minFreqMapAux, h1, if_false, h2, if_true]
      exact ⟨cur, cur + 1, sum, 0, e, Or.inl ⟨rfl, rfl, h1⟩, Or.inl ⟨rfl, rfl, h2⟩⟩
    · have e : minFreqMapAux thr (f :: fs) cur sum = cur :: minFreqMapAux thr fs cur (sum + f) := by
        simp only [minFreqMapAux, h1, if_false, h2]
      exact ⟨cur, cur, sum, sum + f, e, Or.inl ⟨rfl, rfl, h1⟩, Or.inr ⟨rfl, rfl, h2⟩⟩


/-- the content the `min_frequency` loop holds for run `j` before it reads on: `sum` for the open
    run `cur`, nothing for later runs -/
def carry (cur : Nat) (sum : Rat) (j : Nat) : Rat := if j = cur then sum else 0

/-- what the loop guarantees about the runs it forms from here on -/
structure MinFreqInv (thr : Rat) (zs : List (Rat × Nat)) (cur : Nat) (sum : Rat) : Prop where
  full : ∀ L, zs.getLast?.map (·.2) = some L → ∀ j, cur ≤ j → j < L →
    thr < carry cur sum j + (runOf zs j).sum ∨
      (0 < carry cur sum j + (runOf zs j).sum ∧ ∃ g, (runOf zs (j + 1)).head? = some g ∧ thr ≤ g)
  minimal : ∀ j p q, cur ≤ j → runOf zs j = p ++ q → p ≠ [] → q ≠ [] → carry cur sum j + p.sum ≤ thr
  high : ∀ j p g q, cur ≤ j → runOf zs j = p ++ g :: q → thr ≤ g → carry cur sum j + p.sum ≤ 0

theorem getLast?_cons_snd {α} (z : α × Nat) (zs : List (α × Nat)) (L : Nat)
    (h : (z :: zs).getLast?.map (·.2) = some L) :
    (zs = [] ∧ L = z.2) ∨ (zs ≠ [] ∧ zs.getLast?.map (·.2) = some L) := by
  rw [List.getLast?_cons] at h
  cases hz : zs.getLast? with
  | none =>
    left
    rw [hz] at h
    simp only [Option.getD_none, Option.map_some, Option.some.injEq] at h
    exact ⟨List.getLast?_eq_none_iff.mp hz, h.symm⟩
  | some w =>
    right
    rw [hz] at h
    refine ⟨?_, h⟩
    intro e; subst e; cases hz

theorem minFreqInv (thr : Rat) (fs : List Rat) : ∀ (cur : Nat) (sum : Rat),
    MinFreqInv thr (fs.zip (minFreqMapAux thr fs cur sum)) cur sum := by
  induction fs with
  | nil =>
    intro cur sum
    refine ⟨?_, ?_, ?_⟩
    · intro L hL; simp [minFreqMapAux] at hL
    · intro j p q _ h hp _
      simp only [minFreqMapAux, List.zip_nil_right, runOf, List.filter_nil, List.map_nil] at h
      have := List.append_eq_nil_iff.mp h.symm
      exact absurd this.1 hp
    · intro j p g q _ h
      simp only [minFreqMapAux, List.zip_nil_right, runOf, List.filter_nil, List.map_nil] at h
      have := List.append_eq_nil_iff.mp h.symm
      cases this.2
  | cons f fs ih =>
    intro cur sum
    obtain ⟨c1, c3, s1, s3, e, hA, hB⟩ := minFreqMapAux_cons thr f fs cur sum
    rw [e, List.zip_cons_cons]
    have IH := ih c3 s3
    generalize hzs : fs.zip (minFreqMapAux thr fs c3 s3) = zs' at IH
    have hkeys : ∀ z ∈ zs', c3 ≤ z.2 := by
      intro z hz
      rw [← hzs] at hz
      exact minFreqMapAux_ge thr fs c3 s3 z.2 (List.of_mem_zip hz).2
    have hc1 : cur ≤ c1 := by rcases hA with h | h <;> omega
    have hc3 : c1 ≤ c3 := by rcases hB with h | h <;> omega
    have hcarry1 : carry cur sum c1 = s1 := by
      unfold carry
      rcases hA with ⟨h1, h2, _⟩ | ⟨h1, h2, _⟩
      · rw [if_pos h1, h2]
      · rw [if_neg (by omega), h2]
    have hcarry_gt : ∀ j, c1 < j → carry cur sum j = 0 ∧ carry c3 s3 j = 0 := by
      intro j hj
      unfold carry
      refine ⟨by rw [if_neg (by omega)], ?_⟩
      by_cases ej : j = c3
      · rw [if_pos ej]
        rcases hB with ⟨_, h2, _⟩ | ⟨h1, _, _⟩
        · exact h2
        · omega
      · rw [if_neg ej]
    have hnil_lt : ∀ j, j < c3 → runOf zs' j = [] := by
      intro j hj
      apply runOf_eq_nil
      intro z hz
      have := hkeys z hz
      omega
    refine ⟨?_, ?_, ?_⟩
    · -- full
      intro L hL j hcj hjL
      rcases Nat.lt_trichotomy j c1 with hlt | heq | hgt
      · -- rule 1 fired: the open run `cur` is closed before `f`
        rcases hA with ⟨h1, _, _⟩ | ⟨h1, _, hf, hs⟩
        · omega
        · have ej : j = cur := by omega
          subst ej
          right
          rw [runOf_cons, if_neg (by simp only; omega), hnil_lt j (by omega), runOf_cons, if_pos (by simp only; omega)]
          simp only [carry, if_true, List.sum_nil, add_zero]
          exact ⟨hs, f, rfl, hf⟩
      · subst heq
        rw [runOf_cons, if_pos rfl, hcarry1, List.sum_cons, runOf_cons, if_neg (by simp only; omega)]
        rcases hB with ⟨h1, _, h3⟩ | ⟨h1, h2, _⟩
        · left
          rw [hnil_lt j (by omega)]
          simpa using h3
        · rcases getLast?_cons_snd _ _ _ hL with ⟨_, hl⟩ | ⟨_, hl⟩
          · simp only at hl; omega
          · have := IH.full L hl j (by omega) hjL
            have hc : carry c3 s3 j = s1 + f := by unfold carry; rw [if_pos h1.symm, h2]
            rw [hc] at this
            rw [← add_assoc]
            exact this
      · rw [runOf_cons, if_neg (by simp only; omega), runOf_cons, if_neg (by simp only; omega),
          (hcarry_gt j hgt).1]
        rcases getLast?_cons_snd _ _ _ hL with ⟨_, hl⟩ | ⟨_, hl⟩
        · simp only at hl; omega
        · have := IH.full L hl j (by rcases hB with h | h <;> omega) hjL
          rw [(hcarry_gt j hgt).2] at this
          exact this
    · -- minimal
      intro j p q hcj hrun hp hq
      rcases Nat.lt_trichotomy j c1 with hlt | heq | hgt
      · rw [runOf_cons, if_neg (by simp only; omega), hnil_lt j (by omega)] at hrun
        exact absurd (List.append_eq_nil_iff.mp hrun.symm).1 hp
      · subst heq
        rw [runOf_cons, if_pos rfl] at hrun
        cases p with
        | nil => exact absurd rfl hp
        | cons x p' =>
          simp only [List.cons_append, List.cons.injEq] at hrun
          obtain ⟨rfl, hrun'⟩ := hrun
          rw [hcarry1, List.sum_cons]
          rcases hB with ⟨h1, _, _⟩ | ⟨h1, h2, h3⟩
          · rw [hnil_lt j (by omega)] at hrun'
            exact absurd (List.append_eq_nil_iff.mp hrun'.symm).2 hq
          · have hc : carry c3 s3 j = s1 + f := by unfold carry; rw [if_pos h1.symm, h2]
            by_cases hp' : p' = []
            · subst hp'
              simp only [List.sum_nil, add_zero]
              exact not_lt.mp h3
            · have := IH.minimal j p' q (by omega) hrun' hp' hq
              rw [hc] at this
              linarith
      · rw [runOf_cons, if_neg (by simp only; omega)] at hrun
        have := IH.minimal j p q (by rcases hB with h | h <;> omega) hrun hp hq
        rw [(hcarry_gt j hgt).2] at this
        rw [(hcarry_gt j hgt).1]
        exact this
    · -- high
      intro j p g q hcj hrun hg
      rcases Nat.lt_trichotomy j c1 with hlt | heq | hgt
      · rw [runOf_cons, if_neg (by simp only; omega), hnil_lt j (by omega)] at hrun
        have := List.append_eq_nil_iff.mp hrun.symm
        cases this.2
      · subst heq
        rw [runOf_cons, if_pos rfl] at hrun
        rw [hcarry1]
        cases p with
        | nil =>
          simp only [List.nil_append, List.cons.injEq] at hrun
          obtain ⟨rfl, _⟩ := hrun
          simp only [List.sum_nil, add_zero]
          rcases hA with ⟨_, h2, h3⟩ | ⟨_, h2, _⟩
          · rw [h2]
            by_contra hc
            exact h3 ⟨hg, not_le.mp hc⟩
          · rw [h2]
        | cons x p' =>
          simp only [List.cons_append, List.cons.injEq] at hrun
          obtain ⟨rfl, hrun'⟩ := hrun
          rw [List.sum_cons]
          rcases hB with ⟨h1, _, _⟩ | ⟨h1, h2, h3⟩
          · rw [hnil_lt j (by omega)] at hrun'
            have := List.append_eq_nil_iff.mp hrun'.symm
            cases this.2
          · have hc : carry c3 s3 j = s1 + f := by unfold carry; rw [if_pos h1.symm, h2]
            have := IH.high j p' g q (by omega) hrun' hg
            rw [hc] at this
            linarith
      · rw [runOf_cons, if_neg (by simp only; omega)] at hrun
        have := IH.high j p g q (by rcases hB with h | h <;> omega) hrun hg
        rw [(hcarry_gt j hgt).2] at this
        rw [(hcarry_gt j hgt).1]
        exact this

theorem carry_zero (j : Nat) : carry 0 0 j = 0 := by unfold carry; split <;> rfl

/-- **What `min_frequency` guarantees.**  With `m = minFreqMap thr freq` and the runs of contents
    `runOf (freq.zip m) j`:
    * every run but the last either exceeds the threshold, or is positive and is followed by a bin
      that reaches the threshold on its own (a minimum before a high bin is left below the threshold);
    * no run is longer than needed: a proper non-empty initial part of a run does not exceed the threshold;
    * a bin that reaches the threshold on its own is preceded in its run only by bins whose contents
      sum to at most 0 (it starts a new run as soon as something positive is pending). -/
theorem minFreqMap_runs (thr : Rat) (freq : List Rat) :
    (∀ j, j + 1 < newCount (minFreqMap thr freq) →
      thr < (runOf (freq.zip (minFreqMap thr freq)) j).sum ∨
      (0 < (runOf (freq.zip (minFreqMap thr freq)) j).sum ∧
        ∃ g, (runOf (freq.zip (minFreqMap thr freq)) (j + 1)).head? = some g ∧ thr ≤ g)) ∧
    (∀ j p q, runOf (freq.zip (minFreqMap thr freq)) j = p ++ q → p ≠ [] → q ≠ [] → p.sum ≤ thr) ∧
    (∀ j p g q, runOf (freq.zip (minFreqMap thr freq)) j = p ++ g :: q → thr ≤ g → p.sum ≤ 0) := by
  have inv : MinFreqInv thr (freq.zip (minFreqMap thr freq)) 0 0 := minFreqInv thr freq 0 0
  have hlen := (C10_minfreq thr freq).2.1
  refine ⟨?_, ?_, ?_⟩
  · intro j hj
    unfold newCount at hj
    cases hL : (minFreqMap thr freq).getLast? with
    | none => simp [hL] at hj
    | some L =>
      simp only [hL, Option.map_some, Option.getD_some] at hj
      have hz : (freq.zip (minFreqMap thr freq)).getLast?.map (·.2) = some L := by
        rw [← List.getLast?_map, List.map_snd_zip (by omega), hL]
      have := inv.full L hz j (Nat.zero_le _) (by omega)
      simpa only [carry_zero, zero_add] using this
  · intro j p q h hp hq
    have := inv.minimal j p q (Nat.zero_le _) h hp hq
    simpa only [carry_zero, zero_add] using this
  · intro j p g q h hg
    have := inv.high j p g q (Nat.zero_le _) h hg
    simpa only [carry_zero, zero_add] using this

/-! ## 5. the `amount` map is a step chain; 1-D histograms -/

theorem stepChain_of_getElem : ∀ (l : List Nat) (s : Nat),
    (∀ h : 0 < l.length, l[0] = s ∨ l[0] = s + 1) →
    (∀ k (h : k + 1 < l.length), l[k + 1] = l[k] ∨ l[k + 1] = l[k] + 1) → StepChain s l := by
  intro l
  induction l with
  | nil => intro _ _ _; trivial
  | cons x xs ih =>
    intro s h0 h1
    refine ⟨h0 (by simp), ih x ?_ ?_⟩
    · intro h
      have := h1 0 (by simpa using h)
      simpa using this
    · intro k h
      have := h1 (k + 1) (by simpa using h)
      simpa using this

theorem amountMap_stepChain (n amount : Nat) :
    StepChain 0 (amountMap n amount) ∧ ∀ x, (amountMap n amount).head? = some x → x = 0 := by
  constructor
  · apply stepChain_of_getElem
    · intro h; left; simp [amountMap]
    · intro k h
      simp only [amountMap, List.getElem_map, List.getElem_range]
      rw [Nat.succ_div]
      split <;> simp
  · intro x hx
    cases n with
    | zero => simp [amountMap] at hx
    | succ n => simp [amountMap, List.range_succ_eq_map] at hx; exact hx.symm

theorem mapRunsMeet_amount (bins : Bins) (amount : Nat) :
    MapRunsMeet bins (amountMap bins.length amount) ↔ RunsMeet bins amount := by
  constructor
  · intro h k hk he
    rw [binAt_eq bins k (by omega), binAt_eq bins (k + 1) hk]
    apply h k _ _ (k / amount) (List.getElem?_eq_getElem (by omega)) (List.getElem?_eq_getElem hk)
    · simp only [amountMap, List.getElem?_map, List.getElem?_range (show k < bins.length by omega), Option.map_some]
    · simp only [amountMap, List.getElem?_map, List.getElem?_range hk, Option.map_some, he]
  · intro h k b c m hb hc hm hm'
    obtain ⟨hkb, rfl⟩ := List.getElem?_eq_some_iff.mp hb
    obtain ⟨hkc, rfl⟩ := List.getElem?_eq_some_iff.mp hc
    have := h k hkc (by
      simp only [amountMap, List.getElem?_map, List.getElem?_range hkb, List.getElem?_range hkc, Option.map_some,
        Option.some.injEq] at hm hm'
      omega)
    rwa [binAt_eq bins k hkb, binAt_eq bins (k + 1) hkc] at this

/-- for the `amount` map the run-wise description and the arithmetic one (`mergedBins`) agree -/
theorem mergedByMap_amount (bins : Bins) (amount : Nat) (ha : 0 < amount) (hc : RunsMeet bins amount) :
    mergedByMap bins (amountMap bins.length amount) = mergedBins bins amount := by
  have h1 := mergeBinsAux_amount bins amount ha hc
  have h2 := (mergeBinsAux_stepChain bins (amountMap bins.length amount) (by simp [amountMap])
    (amountMap_stepChain _ _).1 (amountMap_stepChain _ _).2).1 ((mapRunsMeet_amount bins amount).mpr hc)
  rw [h1] at h2
  exact (Except.ok.inj h2).symm

/-- **`merge_bins` of a 1-D histogram with a step-chain bin map** (one entry per bin, starting at
    0): accepted iff no run has a gap inside.  Then the bins are `mergedByMap`, contents and squared
    errors are the run sums, the right-edge flag and everything else is kept. -/
theorem H1.mergeWithMap_stepChain (fo : FloatOps) (h : H1) (map : List Nat) (hne : map ≠ [])
    (hl : map.length = (h.bins fo).length) (hc : StepChain 0 map) (h0 : ∀ x, map.head? = some x → x = 0) :
    (MapRunsMeet (h.bins fo) map → h.mergeWithMap fo map = .ok
      { h with binning := .static (mergedByMap (h.bins fo) map) h.binning.ire,
               freq := mergeVals h.freq map (newCount map), err2 := mergeVals h.err2 map (newCount map) }) ∧
    (¬ MapRunsMeet (h.bins fo) map → h.mergeWithMap fo map = .error "merging non-consecutive bins") := by
  have hemp : map.isEmpty = false := by cases map with
    | nil => exact absurd rfl hne
    | cons _ _ => rfl
  obtain ⟨h1, h2⟩ := mergeBinsAux_stepChain (h.bins fo) map hl hc h0
  constructor
  · intro hm
    have hlast := getLast?_mergedByMap (h.bins fo) map hl
    unfold lastEdge? at hlast
    unfold H1.mergeWithMap
    simp only [bind, Except.bind, pure, Except.pure, hemp, Bool.false_eq_true, if_false, h1 hm, hlast,
      mergedByMap_length, beq_self_eq_true, Bool.and_true]
  · intro hm
    unfold H1.mergeWithMap
    simp only [bind, Except.bind, hemp, Bool.false_eq_true, if_false, h2 hm]


/-- the consequences of an accepted merge with a step-chain map, spelled out -/
theorem H1.mergeWithMap_spec (fo : FloatOps) (h : H1) (map : List Nat) (hne : map ≠ [])
    (hl : map.length = (h.bins fo).length) (hlen : h.freq.length = (h.bins fo).length)
    (hc : StepChain 0 map) (h0 : ∀ x, map.head? = some x → x = 0) (hm : MapRunsMeet (h.bins fo) map) :
    ∃ r, h.mergeWithMap fo map = .ok r ∧
      r.bins fo = mergedByMap (h.bins fo) map ∧ (r.bins fo).length = newCount map ∧
      r.freq = mergeVals h.freq map (newCount map) ∧ r.err2 = mergeVals h.err2 map (newCount map) ∧
      r.freq.sum = h.freq.sum ∧ (h.err2.length = h.freq.length → r.err2.sum = h.err2.sum) ∧
      r.under = h.under ∧ r.over = h.over ∧ r.inner = h.inner ∧ r.keep = h.keep ∧ r.dtype = h.dtype ∧
      r.binning.ire = h.binning.ire ∧
      firstEdge? (r.bins fo) = firstEdge? (h.bins fo) ∧ lastEdge? (r.bins fo) = lastEdge? (h.bins fo) ∧
      (Rising (h.bins fo) → Rising (r.bins fo)) := by
  refine ⟨_, (H1.mergeWithMap_stepChain fo h map hne hl hc h0).1 hm, rfl, mergedByMap_length _ _, rfl, rfl,
    C10_conserve _ _ _ (by omega) (stepChain_lt_newCount map hc),
    fun he => C10_conserve _ _ _ (by omega) (stepChain_lt_newCount map hc),
    rfl, rfl, rfl, rfl, rfl, rfl, head?_mergedByMap _ _ hl h0, getLast?_mergedByMap _ _ hl, ?_⟩
  intro hb
  exact mergeBinsAux_rising (h.bins fo) map (by omega) hb _
    ((mergeBinsAux_stepChain (h.bins fo) map hl hc h0).1 hm)

/-- **`merge_bins(min_frequency=thr)` of a 1-D histogram** with at least one bin: accepted iff no run
    of `minFreqMap thr freq` has a gap inside; then (see `H1.mergeWithMap_spec`) each new bin spans
    its run, contents and squared errors are the run sums, totals, missed counts and outer edges are
    unchanged. -/
theorem H1.mergeMinFreq_spec (fo : FloatOps) (h : H1) (thr : Rat) (hpos : 0 < h.freq.length)
    (hlen : h.freq.length = (h.bins fo).length) :
    (MapRunsMeet (h.bins fo) (minFreqMap thr h.freq) →
      ∃ r, h.mergeMinFreq fo thr = .ok r ∧
        r.bins fo = mergedByMap (h.bins fo) (minFreqMap thr h.freq) ∧
        (r.bins fo).length = newCount (minFreqMap thr h.freq) ∧
        r.freq = mergeVals h.freq (minFreqMap thr h.freq) (newCount (minFreqMap thr h.freq)) ∧
        r.err2 = mergeVals h.err2 (minFreqMap thr h.freq) (newCount (minFreqMap thr h.freq)) ∧
        r.freq.sum = h.freq.sum ∧ (h.err2.length = h.freq.length → r.err2.sum = h.err2.sum) ∧
        r.under = h.under ∧ r.over = h.over ∧ r.inner = h.inner ∧ r.keep = h.keep ∧ r.dtype = h.dtype ∧
        r.binning.ire = h.binning.ire ∧
        firstEdge? (r.bins fo) = firstEdge? (h.bins fo) ∧ lastEdge? (r.bins fo) = lastEdge? (h.bins fo) ∧
        (Rising (h.bins fo) → Rising (r.bins fo))) ∧
    (¬ MapRunsMeet (h.bins fo) (minFreqMap thr h.freq) →
      h.mergeMinFreq fo thr = .error "merging non-consecutive bins") := by
  obtain ⟨hc, hl, h0⟩ := C10_minfreq thr h.freq
  have hne : minFreqMap thr h.freq ≠ [] := by
    intro e; rw [e] at hl; simp at hl; omega
  exact ⟨H1.mergeWithMap_spec fo h _ hne (by omega) hlen hc h0,
    (H1.mergeWithMap_stepChain fo h _ hne (by omega) hc h0).2⟩

/-! ## 6. merging two different axes commutes -/

/-- validity of an index tuple, position by position -/
theorem validIdx_iff (shape idx : List Nat) :
    validIdx shape idx = true ↔
      idx.length = shape.length ∧ ∀ k, k < shape.length → idx[k]?.getD 0 < shape[k]?.getD 0 := by
  induction shape generalizing idx with
  | nil => cases idx <;> simp [validIdx]
  | cons n rest ih =>
    cases idx with
    | nil => simp [validIdx]
    | cons i is =>
      simp only [validIdx, Bool.and_eq_true, decide_eq_true_eq, ih is, List.length_cons]
      constructor
      · rintro ⟨h1, h2, h3⟩
        refine ⟨by omega, ?_⟩
        intro k hk
        cases k with
        | zero => simpa using h1
        | succ k => simpa using h3 k (by omega)
      · rintro ⟨h1, h2⟩
        refine ⟨by simpa using h2 0 (by omega), by omega, ?_⟩
        intro k hk
        simpa using h2 (k + 1) (by omega)

theorem validIdx_set_back (shape idx : List Nat) (i j Ni Nj k l : Nat) (hij : i ≠ j)
    (hv : validIdx ((shape.set i Ni).set j Nj) idx = true)
    (h1 : validIdx shape ((idx.set j l).set i k) = true) :
    validIdx (shape.set i Ni) (idx.set j l) = true := by
  rw [validIdx_iff] at hv h1 ⊢
  simp only [List.length_set] at hv h1 ⊢
  refine ⟨hv.1, ?_⟩
  intro p hp
  have a1 := hv.2 p hp
  have a2 := h1.2 p hp
  simp only [List.getElem?_set] at a1 a2 ⊢
  by_cases e1 : i = p
  · subst e1
    have hji : ¬ j = i := fun e => hij e.symm
    simp only [hji, if_false, if_true, hp] at a1 ⊢
    simpa using a1
  · simp only [e1, if_false] at a2 ⊢
    exact a2

theorem Arr.gather_get_set (a : Arr) (i j Ni Nj : Nat) (si : Nat → List Nat) (idx : List Nat) (l : Nat)
    (hij : i ≠ j) (hv : validIdx (Arr.setAt (Arr.setAt a.shape i Ni) j Nj) idx = true) :
    (a.gather i Ni si).get (Arr.setAt idx j l)
      = ((si (idx[i]?.getD 0)).map fun k => a.get (Arr.setAt (Arr.setAt idx j l) i k)).sum := by
  by_cases hvalid : validIdx (Arr.setAt a.shape i Ni) (Arr.setAt idx j l) = true
  · rw [C09_gather a i Ni si _ hvalid]
    simp only [Arr.setAt, List.getElem?_set_ne (fun e => hij e.symm)]
  · rw [Arr.get_invalid _ _ (by simpa [Arr.shape_gather] using hvalid)]
    symm
    apply List.sum_eq_zero
    intro x hx
    obtain ⟨k, _, rfl⟩ := List.mem_map.mp hx
    apply Arr.get_invalid
    cases h1 : validIdx a.shape (Arr.setAt (Arr.setAt idx j l) i k) with
    | false => rfl
    | true => exact absurd (validIdx_set_back a.shape idx i j Ni Nj k l hij hv h1) hvalid

/-- **Gathering along two different axes commutes** (full equality of arrays, any shape). -/
theorem Arr.gather_comm (a : Arr) (i j Ni Nj : Nat) (si sj : Nat → List Nat) (hij : i ≠ j) :
    (a.gather i Ni si).gather j Nj sj = (a.gather j Nj sj).gather i Ni si := by
  have hs : Arr.setAt (Arr.setAt a.shape i Ni) j Nj = Arr.setAt (Arr.setAt a.shape j Nj) i Ni := by
    simp only [Arr.setAt]; exact List.set_comm _ _ hij
  show Arr.ofFn (Arr.setAt (Arr.setAt a.shape i Ni) j Nj) _ = Arr.ofFn (Arr.setAt (Arr.setAt a.shape j Nj) i Ni) _
  rw [← hs]
  apply Arr.ofFn_congr_valid
  intro idx hv
  have hv' : validIdx (Arr.setAt (Arr.setAt a.shape j Nj) i Ni) idx = true := by rw [← hs]; exact hv
  have e1 : ∀ l, (a.gather i Ni si).get (Arr.setAt idx j l) = _ := fun l => Arr.gather_get_set a i j Ni Nj si idx l hij hv
  have e2 : ∀ k, (a.gather j Nj sj).get (Arr.setAt idx i k) = _ :=
    fun k => Arr.gather_get_set a j i Nj Ni sj idx k (fun e => hij e.symm) hv'
  simp only [e1, e2]
  rw [sum_map_comm]
  apply congrArg List.sum
  apply List.map_congr_left
  intro k _
  apply congrArg List.sum
  apply List.map_congr_left
  intro l _
  simp only [Arr.setAt]
  rw [List.set_comm _ _ hij]

/-- **Merging two different axes commutes**: axis `i` then `j` = `j` then `i`. -/
theorem Arr.mergeAxis_comm (a : Arr) (i j : Nat) (mi mj : List Nat) (Ni Nj : Nat) (hij : i ≠ j) :
    (a.mergeAxis i mi Ni).mergeAxis j mj Nj = (a.mergeAxis j mj Nj).mergeAxis i mi Ni :=
  Arr.gather_comm a i j Ni Nj _ _ hij

/-! ## 7. `merge_bins(axis=None)`: all axes, one after the other -/

theorem foldlM_range'_inv {α} (P : Nat → α → Prop) (f : α → Nat → R α) (n : Nat)
    (hstep : ∀ i a a', i < n → P i a → f a i = .ok a' → P (i + 1) a') :
    ∀ k i a r, i + k = n → P i a → (List.range' i k).foldlM f a = .ok r → P n r := by
  intro k
  induction k with
  | zero =>
    intro i a r hik hP hr
    simp only [List.range'_zero, List.foldlM_nil, pure, Except.pure, Except.ok.injEq] at hr
    subst hr
    have : i = n := by omega
    subst this
    exact hP
  | succ k ih =>
    intro i a r hik hP hr
    simp only [List.range'_succ, List.foldlM_cons, bind, Except.bind] at hr
    cases hf : f a i with
    | error e => simp [hf] at hr
    | ok a' =>
      simp only [hf] at hr
      exact ih (i + 1) a' r (by omega) (hstep i a a' (by omega) hP hf) hr

theorem foldlM_range'_ok {α} (P : Nat → α → Prop) (f : α → Nat → R α) (n : Nat)
    (hstep : ∀ i a a', i < n → P i a → f a i = .ok a' → P (i + 1) a')
    (hok : ∀ i a, i < n → P i a → ∃ a', f a i = .ok a') :
    ∀ k i a, i + k = n → P i a → ∃ r, (List.range' i k).foldlM f a = .ok r := by
  intro k
  induction k with
  | zero => intro i a _ _; exact ⟨a, rfl⟩
  | succ k ih =>
    intro i a hik hP
    obtain ⟨a', hf⟩ := hok i a (by omega) hP
    obtain ⟨r, hr⟩ := ih (i + 1) a' (by omega) (hstep i a a' (by omega) hP hf)
    exact ⟨r, by simp only [List.range'_succ, List.foldlM_cons, bind, Except.bind, hf, hr]⟩

theorem foldlM_range'_err {α} (P : Nat → α → Prop) (f : α → Nat → R α) (n i0 : Nat) (hi0 : i0 < n)
    (hstep : ∀ i a a', i < n → P i a → f a i = .ok a' → P (i + 1) a')
    (herr : ∀ a, P i0 a → ∃ e, f a i0 = .error e) :
    ∀ k i a, i + k = n → i ≤ i0 → P i a → ∃ e, (List.range' i k).foldlM f a = .error e := by
  intro k
  induction k with
  | zero => intro i a hik hi _; omega
  | succ k ih =>
    intro i a hik hi hP
    simp only [List.range'_succ, List.foldlM_cons, bind, Except.bind]
    cases hf : f a i with
    | error e => exact ⟨e, rfl⟩
    | ok a' =>
      have hne : i ≠ i0 := by
        intro e; subst e
        obtain ⟨e, he⟩ := herr a hP
        rw [he] at hf; cases hf
      exact ih (i + 1) a' (by omega) (by omega) (hstep i a a' (by omega) hP hf)

/-- the bin map `merge_bins` uses on one axis: by amount, or by `min_frequency` on the marginal -/
def HN.axisMap (h : HN) (axis : Nat) (amount : Option Nat) (thr : Option Rat) : List Nat :=
  match amount, thr with
  | some a, _ => amountMap (h.freq.shape[axis]?.getD 0) a
  | none, some t =>
    minFreqMap t (h.freq.sumAxes (((List.range h.axes.length).filter (· != axis)).reverse)).data
  | none, none => []

/-- a usable way of calling `merge_bins`: a positive amount, or (without amount) a `min_frequency` -/
def MergeMode (amount : Option Nat) (thr : Option Rat) : Prop :=
  (∃ a, amount = some a ∧ 0 < a) ∨ (amount = none ∧ ∃ t, thr = some t)

theorem HN.mergeAxis_eq (fo : FloatOps) (h : HN) (axis : Nat) (amount : Option Nat) (thr : Option Rat)
    (hm : MergeMode amount thr) :
    h.mergeAxis fo axis amount thr = h.mergeAxisWithMap fo axis (h.axisMap axis amount thr) := by
  rcases hm with ⟨a, rfl, ha⟩ | ⟨rfl, t, rfl⟩
  · have : ¬ a = 0 := by omega
    simp only [HN.mergeAxis, HN.axisMap, this, if_false]
  · simp only [HN.mergeAxis, HN.axisMap]

theorem HN.mergeAxis_badMode (fo : FloatOps) (h : HN) (axis : Nat) (amount : Option Nat) (thr : Option Rat)
    (hm : ¬ MergeMode amount thr) : ∃ e, h.mergeAxis fo axis amount thr = .error e := by
  unfold MergeMode at hm
  cases amount with
  | some a =>
    have : a = 0 := by
      by_contra h0
      exact hm (Or.inl ⟨a, rfl, by omega⟩)
    subst this
    exact ⟨_, by simp only [HN.mergeAxis, if_true, throw, throwThe, MonadExceptOf.throw]; rfl⟩
  | none =>
    cases thr with
    | some t => exact absurd (Or.inr ⟨rfl, t, rfl⟩) hm
    | none => exact ⟨_, rfl⟩

/-- what an accepted `mergeAxisWithMap` returns -/
theorem HN.mergeAxisWithMap_inv (fo : FloatOps) (h r : HN) (axis : Nat) (map : List Nat)
    (hr : h.mergeAxisWithMap fo axis map = .ok r) :
    ∃ bn newBins, map ≠ [] ∧ h.axes[axis]? = some bn ∧
      mergeBinsAux ((bn.bins fo).zip map) none = .ok newBins ∧
      r = { h with
        axes := h.axes.set axis (.static newBins
          (bn.ire && (newBins.getLast?.map (·.2) == (bn.bins fo).getLast?.map (·.2)))),
        freq := h.freq.mergeAxis axis map newBins.length,
        err2 := h.err2.mergeAxis axis map newBins.length } := by
  unfold HN.mergeAxisWithMap at hr
  simp only [bind, Except.bind, pure, Except.pure, throw, throwThe, MonadExceptOf.throw] at hr
  split at hr
  · cases hr
  rename_i hemp
  split at hr
  · cases hr
  rename_i bn hbn
  split at hr
  · cases hr
  rename_i newBins hnb
  cases hr
  refine ⟨bn, newBins, ?_, hbn, hnb, rfl⟩
  intro e; subst e; simp at hemp


theorem filter_range_beq (n i : Nat) (hi : i < n) : (List.range n).filter (fun k => k == i) = [i] := by
  induction n with
  | zero => omega
  | succ n ih =>
    rw [List.range_succ, List.filter_append]
    by_cases e : i = n
    · subst e
      have : (List.range i).filter (fun k => k == i) = [] := by
        rw [List.filter_eq_nil_iff]
        intro k hk
        have := List.mem_range.mp hk
        simp; omega
      simp [this]
    · have hne : ¬ n = i := fun h => e h.symm
      rw [ih (by omega)]
      simp [hne]

/-- the marginal `min_frequency` looks at has one entry per bin of the axis -/
theorem marginal_length (a : Arr) (hw : a.WellShaped) (n i : Nat) (hn : a.shape.length = n) (hi : i < n) :
    (a.sumAxes (((List.range n).filter (· != i)).reverse)).data.length = a.shape[i]?.getD 0 := by
  have hd : ((List.range n).filter (· != i)).reverse = dropList n (fun k => k == i) := rfl
  rw [hd]
  have hws := Arr.wellShaped_sumAxes a hw (dropList n (fun k => k == i))
  unfold Arr.WellShaped at hws
  rw [hws, Arr.shape_sumAxes_dropList a _ n (by omega)]
  unfold keptOf
  rw [filter_range_beq n i hi, List.drop_eq_nil_of_le (by omega)]
  simp [List.getElem?_eq_getElem (show i < a.shape.length by omega), prodL]

/-- the state of `merge_bins(axis=None)` after the axes below `i` have been merged -/
structure MergedUpTo (fo : FloatOps) (amount : Option Nat) (h : HN) (i : Nat) (g : HN) : Prop where
  len : g.axes.length = h.axes.length
  rest : ∀ k, i ≤ k → g.axes[k]? = h.axes[k]?
  done : ∀ k bn, k < i → h.axes[k]? = some bn → ∃ map,
    StepChain 0 map ∧ (∀ x, map.head? = some x → x = 0) ∧ map.length = (bn.bins fo).length ∧
    MapRunsMeet (bn.bins fo) map ∧ (∀ a, amount = some a → map = amountMap (bn.bins fo).length a) ∧
    g.axes[k]? = some (.static (mergedByMap (bn.bins fo) map) bn.ire)
  fshape : g.freq.shape = g.shape fo
  eshape : g.err2.shape = g.shape fo
  fws : g.freq.WellShaped
  ews : g.err2.WellShaped
  ftot : g.freq.total = h.freq.total
  etot : g.err2.total = h.err2.total
  missed : g.missed = h.missed
  names : g.names = h.names
  dtype : g.dtype = h.dtype
  keep : g.keep = h.keep

theorem HN.shape_getElem? (fo : FloatOps) (g : HN) (i : Nat) (bn : Binning) (hbn : g.axes[i]? = some bn) :
    (g.shape fo)[i]?.getD 0 = (bn.bins fo).length := by
  simp [HN.shape, List.getElem?_map, hbn]

/-- the bin map of an axis is a step chain from 0 with one entry per bin -/
theorem HN.axisMap_stepChain (fo : FloatOps) (g : HN) (i : Nat) (bn : Binning) (amount : Option Nat) (thr : Option Rat)
    (hm : MergeMode amount thr) (hbn : g.axes[i]? = some bn) (hfs : g.freq.shape = g.shape fo)
    (hws : g.freq.WellShaped) :
    StepChain 0 (g.axisMap i amount thr) ∧ (∀ x, (g.axisMap i amount thr).head? = some x → x = 0) ∧
    (g.axisMap i amount thr).length = (bn.bins fo).length ∧
    (∀ a, amount = some a → g.axisMap i amount thr = amountMap (bn.bins fo).length a) := by
  have hi : i < g.axes.length := (List.getElem?_eq_some_iff.mp hbn).1
  have hsh : g.freq.shape[i]?.getD 0 = (bn.bins fo).length := by rw [hfs]; exact HN.shape_getElem? fo g i bn hbn
  rcases hm with ⟨a, rfl, ha⟩ | ⟨rfl, t, rfl⟩
  · simp only [HN.axisMap, hsh]
    exact ⟨(amountMap_stepChain _ _).1, (amountMap_stepChain _ _).2, by simp [amountMap],
      fun a' h => by cases h; rfl⟩
  · simp only [HN.axisMap]
    obtain ⟨h1, h2, h3⟩ := C10_minfreq t (g.freq.sumAxes (((List.range g.axes.length).filter (· != i)).reverse)).data
    refine ⟨h1, h3, ?_, fun a h => by cases h⟩
    rw [h2, marginal_length g.freq hws g.axes.length i (by rw [hfs]; simp [HN.shape]) hi, hsh]

/-- one step of `merge_bins(axis=None)` keeps the invariant -/
theorem MergedUpTo.step (fo : FloatOps) (amount : Option Nat) (thr : Option Rat) (h g g' : HN) (i : Nat)
    (hi : i < h.axes.length) (inv : MergedUpTo fo amount h i g) (hr : g.mergeAxis fo i amount thr = .ok g') :
    MergedUpTo fo amount h (i + 1) g' := by
  have hm : MergeMode amount thr := by
    by_contra hm
    obtain ⟨e, he⟩ := HN.mergeAxis_badMode fo g i amount thr hm
    rw [he] at hr; cases hr
  rw [HN.mergeAxis_eq fo g i amount thr hm] at hr
  obtain ⟨bn, newBins, hne, hbn, hnb, rfl⟩ := HN.mergeAxisWithMap_inv fo g g' i _ hr
  obtain ⟨hc, h0, hl, hamt⟩ := HN.axisMap_stepChain fo g i bn amount thr hm hbn inv.fshape inv.fws
  generalize g.axisMap i amount thr = map at *
  have hmeet : MapRunsMeet (bn.bins fo) map := (mergeBinsAux_ok_iff _ _).mp ⟨newBins, hnb⟩
  have hnew : newBins = mergedByMap (bn.bins fo) map := by
    have := (mergeBinsAux_stepChain (bn.bins fo) map hl hc h0).1 hmeet
    rw [hnb] at this
    exact Except.ok.inj this
  have hlast := getLast?_mergedByMap (bn.bins fo) map hl
  unfold lastEdge? at hlast
  have hire : (bn.ire && (newBins.getLast?.map (·.2) == (bn.bins fo).getLast?.map (·.2))) = bn.ire := by
    rw [hnew, hlast]; simp
  have hNlen : newBins.length = newCount map := by rw [hnew, mergedByMap_length]
  have hig : i < g.axes.length := by rw [inv.len]; exact hi
  have hsh : g.freq.shape[i]?.getD 0 = (bn.bins fo).length := by
    rw [inv.fshape]; exact HN.shape_getElem? fo g i bn hbn
  have hshe : g.err2.shape[i]?.getD 0 = (bn.bins fo).length := by
    rw [inv.eshape]; exact HN.shape_getElem? fo g i bn hbn
  have hflen : g.freq.shape.length = g.axes.length := by rw [inv.fshape]; simp [HN.shape]
  have helen : g.err2.shape.length = g.axes.length := by rw [inv.eshape]; simp [HN.shape]
  have hshape : ∀ s : List Nat, s = g.shape fo → ∀ ire,
      Arr.setAt s i newBins.length = (g.axes.set i (.static newBins ire)).map fun b => (b.bins fo).length := by
    intro s hs ire
    rw [HN.shape_set, hs]; rfl
  refine ⟨?_, ?_, ?_, ?_, ?_, Arr.wellShaped_gather _ _ _ _, Arr.wellShaped_gather _ _ _ _, ?_, ?_,
    inv.missed, inv.names, inv.dtype, inv.keep⟩
  · simp only [List.length_set]; exact inv.len
  · intro k hk
    simp only
    rw [List.getElem?_set_ne (by omega)]
    exact inv.rest k (by omega)
  · intro k bn' hk hbn'
    by_cases e : k = i
    · subst e
      have : bn' = bn := by
        have := inv.rest k (Nat.le_refl _)
        rw [hbn, hbn'] at this
        exact (Option.some.inj this).symm
      subst this
      refine ⟨map, hc, h0, hl, hmeet, hamt, ?_⟩
      simp only
      rw [List.getElem?_set_self hig, hire, hnew]
    · obtain ⟨m, h1, h2, h3, h4, h5, h6⟩ := inv.done k bn' (by omega) hbn'
      refine ⟨m, h1, h2, h3, h4, h5, ?_⟩
      simp only
      rw [List.getElem?_set_ne (fun e' => e e'.symm)]
      exact h6
  · exact hshape _ inv.fshape _
  · exact hshape _ inv.eshape _
  · rw [← inv.ftot]
    exact Arr.total_mergeAxis' g.freq inv.fws i map _ (by omega) (by omega)
      (by rw [hNlen]; exact stepChain_lt_newCount map hc)
  · rw [← inv.etot]
    exact Arr.total_mergeAxis' g.err2 inv.ews i map _ (by omega) (by omega)
      (by rw [hNlen]; exact stepChain_lt_newCount map hc)


theorem MergedUpTo.start (fo : FloatOps) (amount : Option Nat) (h : HN) (hfs : h.freq.shape = h.shape fo)
    (hes : h.err2.shape = h.shape fo) (hfw : h.freq.WellShaped) (hew : h.err2.WellShaped) :
    MergedUpTo fo amount h 0 h :=
  ⟨rfl, fun _ _ => rfl, fun k _ hk => absurd hk (Nat.not_lt_zero k), hfs, hes, hfw, hew, rfl, rfl, rfl, rfl, rfl, rfl⟩

theorem HN.mergeAll_eq (fo : FloatOps) (h : HN) (amount : Option Nat) (thr : Option Rat) :
    h.mergeAll fo amount thr
      = (List.range' 0 h.axes.length).foldlM (fun g i => g.mergeAxis fo i amount thr) h := by
  unfold HN.mergeAll
  rw [List.range_eq_range']

/-- **`merge_bins(axis=None)`, when accepted** (amount or `min_frequency`): every axis has been
    merged by a step-chain bin map of its own (for the `amount` form: the `amount` map), its new
    bins are `mergedByMap` of its old bins and it keeps its right-edge flag; totals of contents and
    squared errors, missed count, names, dtype are unchanged. -/
theorem HN.mergeAll_spec (fo : FloatOps) (h r : HN) (amount : Option Nat) (thr : Option Rat)
    (hfs : h.freq.shape = h.shape fo) (hes : h.err2.shape = h.shape fo)
    (hfw : h.freq.WellShaped) (hew : h.err2.WellShaped)
    (hr : h.mergeAll fo amount thr = .ok r) : MergedUpTo fo amount h h.axes.length r := by
  rw [HN.mergeAll_eq] at hr
  exact foldlM_range'_inv (MergedUpTo fo amount h) _ h.axes.length
    (fun i a a' hi hP hf => MergedUpTo.step fo amount thr h a a' i hi hP hf)
    h.axes.length 0 h r (by omega) (MergedUpTo.start fo amount h hfs hes hfw hew) hr

/-- **All-or-nothing**: if, after the axes below `i` have been merged, axis `i` is refused, the
    whole call is refused with that error and nothing is returned. -/
theorem HN.mergeAll_refused_at (fo : FloatOps) (h g : HN) (amount : Option Nat) (thr : Option Rat) (i : Nat) (e : String)
    (hi : i < h.axes.length)
    (hg : (List.range i).foldlM (fun g k => g.mergeAxis fo k amount thr) h = .ok g)
    (he : g.mergeAxis fo i amount thr = .error e) : h.mergeAll fo amount thr = .error e := by
  unfold HN.mergeAll
  have hsplit : List.range h.axes.length = List.range i ++ i :: List.range' (i + 1) (h.axes.length - (i + 1)) := by
    rw [List.range_eq_range', List.range_eq_range', ← List.range'_succ]
    have : h.axes.length = i + (h.axes.length - (i + 1) + 1) := by omega
    conv => lhs; rw [this]
    rw [← List.range'_append_1]
    simp
  rw [hsplit, List.foldlM_append]
  simp only [bind, Except.bind, hg, List.foldlM_cons, he]

/-- **`merge_bins(amount)` on all axes is accepted** when every axis has a bin and no run of
    `amount` bins on any axis has a gap inside. -/
theorem HN.mergeAll_amount_ok (fo : FloatOps) (h : HN) (a : Nat) (thr : Option Rat) (ha : 0 < a)
    (hfs : h.freq.shape = h.shape fo) (hes : h.err2.shape = h.shape fo)
    (hfw : h.freq.WellShaped) (hew : h.err2.WellShaped)
    (hall : ∀ (k : Nat) (bn : Binning), h.axes[k]? = some bn → 0 < (bn.bins fo).length ∧ RunsMeet (bn.bins fo) a) :
    ∃ r, h.mergeAll fo (some a) thr = .ok r := by
  rw [HN.mergeAll_eq]
  refine foldlM_range'_ok (MergedUpTo fo (some a) h) _ h.axes.length
    (fun i g g' hi hP hf => MergedUpTo.step fo (some a) thr h g g' i hi hP hf) ?_
    h.axes.length 0 h (by omega) (MergedUpTo.start fo (some a) h hfs hes hfw hew)
  intro i g hi inv
  obtain ⟨bn, hbn⟩ : ∃ bn, h.axes[i]? = some bn := ⟨h.axes[i], List.getElem?_eq_getElem hi⟩
  have hbn' : g.axes[i]? = some bn := by rw [inv.rest i (Nat.le_refl _)]; exact hbn
  obtain ⟨hpos, hc⟩ := hall i bn hbn
  have hsh : g.freq.shape[i]?.getD 0 = (bn.bins fo).length := by
    rw [inv.fshape]; exact HN.shape_getElem? fo g i bn hbn'
  obtain ⟨r, _, hr, _⟩ := HN.mergeAxis_amount fo g i a thr bn ha hbn' hpos hsh hc
  exact ⟨r, hr⟩

/-- **… and refused as a whole** as soon as one axis has a run with a gap inside. -/
theorem HN.mergeAll_amount_refused (fo : FloatOps) (h : HN) (a : Nat) (thr : Option Rat)
    (hfs : h.freq.shape = h.shape fo) (hes : h.err2.shape = h.shape fo)
    (hfw : h.freq.WellShaped) (hew : h.err2.WellShaped)
    (k : Nat) (bn : Binning) (hbn : h.axes[k]? = some bn) (hbad : ¬ RunsMeet (bn.bins fo) a) :
    ∃ e, h.mergeAll fo (some a) thr = .error e := by
  have hk : k < h.axes.length := (List.getElem?_eq_some_iff.mp hbn).1
  rw [HN.mergeAll_eq]
  refine foldlM_range'_err (MergedUpTo fo (some a) h) _ h.axes.length k hk
    (fun i g g' hi hP hf => MergedUpTo.step fo (some a) thr h g g' i hi hP hf) ?_
    h.axes.length 0 h (by omega) (Nat.zero_le _) (MergedUpTo.start fo (some a) h hfs hes hfw hew)
  intro g inv
  by_cases ha : a = 0
  · subst ha
    exact HN.mergeAxis_badMode fo g k (some 0) thr (by
      rintro (⟨a, h1, h2⟩ | ⟨h1, _⟩)
      · cases h1; omega
      · cases h1)
  have hmode : MergeMode (some a) thr := Or.inl ⟨a, rfl, by omega⟩
  have hbn' : g.axes[k]? = some bn := by rw [inv.rest k (Nat.le_refl _)]; exact hbn
  obtain ⟨_, _, _, hamt⟩ := HN.axisMap_stepChain fo g k bn (some a) thr hmode hbn' inv.fshape inv.fws
  rw [HN.mergeAxis_eq fo g k (some a) thr hmode, hamt a rfl]
  have hrefuse := mergeBinsAux_refused (bn.bins fo) (amountMap (bn.bins fo).length a)
    (fun hm => hbad ((mapRunsMeet_amount _ _).mp hm))
  unfold HN.mergeAxisWithMap
  simp only [bind, Except.bind, hbn', hrefuse]
  split
  · exact ⟨_, rfl⟩
  · exact ⟨_, rfl⟩

/-- for the `amount` form the new bins of every axis are `mergedBins` -/
theorem HN.mergeAll_amount_bins (fo : FloatOps) (h r : HN) (a : Nat) (thr : Option Rat)
    (hfs : h.freq.shape = h.shape fo) (hes : h.err2.shape = h.shape fo)
    (hfw : h.freq.WellShaped) (hew : h.err2.WellShaped)
    (hr : h.mergeAll fo (some a) thr = .ok r) (k : Nat) (bn : Binning) (hbn : h.axes[k]? = some bn) :
    RunsMeet (bn.bins fo) a ∧ r.axes[k]? = some (.static (mergedBins (bn.bins fo) a) bn.ire) := by
  have hk : k < h.axes.length := (List.getElem?_eq_some_iff.mp hbn).1
  have ha : 0 < a := by
    by_contra h0
    have : a = 0 := by omega
    subst this
    obtain ⟨e, he⟩ := HN.mergeAxis_badMode fo h 0 (some 0) thr (by
      rintro (⟨a, h1, h2⟩ | ⟨h1, _⟩)
      · cases h1; omega
      · cases h1)
    rw [HN.mergeAll_refused_at fo h h (some 0) thr 0 e (by omega) rfl he] at hr
    cases hr
  obtain ⟨map, _, _, _, hmeet, hamt, hax⟩ := (HN.mergeAll_spec fo h r (some a) thr hfs hes hfw hew hr).done k bn hk hbn
  rw [hamt a rfl] at hmeet hax
  have hc := (mapRunsMeet_amount _ _).mp hmeet
  rw [mergedByMap_amount _ _ ha hc] at hax
  exact ⟨hc, hax⟩

/-! ## 8. the three guarantees determine the `min_frequency` grouping -/

theorem minFreqInv_unique (thr : Rat) (fs : List Rat) : ∀ (ms : List Nat) (cur : Nat) (sum : Rat),
    ms.length = fs.length → StepChain cur ms →
    ((sum = 0 ∧ ∀ x, ms.head? = some x → x = cur) ∨ sum ≤ thr) →
    MinFreqInv thr (fs.zip ms) cur sum → ms = minFreqMapAux thr fs cur sum := by
  induction fs with
  | nil =>
    intro ms cur sum hl _ _ _
    have : ms = [] := List.eq_nil_of_length_eq_zero (by simpa using hl)
    subst this
    rfl
  | cons f fs ih =>
    intro ms cur sum hl hc hstate inv
    cases ms with
    | nil => simp at hl
    | cons c ms' =>
      have hl' : ms'.length = fs.length := by simpa using hl
      obtain ⟨hcc, hc'⟩ := hc
      obtain ⟨c1, c3, s1, s3, e, hA, hB⟩ := minFreqMapAux_cons thr f fs cur sum
      rw [e]
      rw [List.zip_cons_cons] at inv
      generalize hzs : fs.zip ms' = zs' at inv
      have hkeys : ∀ z ∈ zs', c ≤ z.2 := by
        intro z hz
        rw [← hzs] at hz
        exact stepChain_ge ms' c hc' z.2 (List.of_mem_zip hz).2
      have hzlast : zs'.getLast?.map (·.2) = ms'.getLast? := by
        rw [← hzs, ← List.getLast?_map, List.map_snd_zip (by omega)]
      -- the first entry is the one the loop writes
      have hcc1 : c = c1 := by
        rcases hA with ⟨h1, h2, h3⟩ | ⟨h1, h2, hf, hs⟩
        · -- the loop stays in run `cur`
          rcases hcc with hcc | hcc
          · omega
          · exfalso
            rcases hstate with ⟨_, hh⟩ | hle
            · have := hh c rfl; omega
            · have hnil : runOf ((f, c) :: zs') cur = [] := by
                apply runOf_eq_nil
                intro z hz
                rcases List.mem_cons.mp hz with rfl | hz
                · simp only; omega
                · have := hkeys z hz; omega
              have hL : ∃ L, (((f, c) :: zs').getLast?.map (·.2)) = some L ∧ cur < L := by
                rw [List.getLast?_cons]
                cases hz : zs'.getLast? with
                | none => exact ⟨c, rfl, by omega⟩
                | some w =>
                  exact ⟨w.2, rfl, by have := hkeys w (List.mem_of_getLast? hz); omega⟩
              obtain ⟨L, hL1, hL2⟩ := hL
              have := inv.full L hL1 cur (Nat.le_refl _) hL2
              rw [hnil, runOf_cons, if_pos (by simp only; omega)] at this
              simp only [carry, if_true, List.sum_nil, add_zero, List.head?_cons, Option.some.injEq] at this
              rcases this with h | ⟨h, g, rfl, hg⟩
              · exact absurd h (not_lt.mpr hle)
              · exact h3 ⟨hg, h⟩
        · -- the loop closes run `cur` before `f`
          rcases hcc with hcc | hcc
          · exfalso
            have := inv.high cur [] f (runOf zs' cur) (Nat.le_refl _) (by
              rw [runOf_cons, if_pos (by simp only; omega)]; rfl) hf
            simp only [carry, if_true, List.sum_nil, add_zero] at this
            exact absurd hs (not_lt.mpr this)
          · omega
      subst hcc1
      have hc1 : cur ≤ c := by rcases hA with h | h <;> omega
      have hcarry1 : carry cur sum c = s1 := by
        unfold carry
        rcases hA with ⟨h1, h2, _⟩ | ⟨h1, h2, _⟩
        · rw [if_pos h1, h2]
        · rw [if_neg (by omega), h2]
      have hcarry_gt : ∀ j, c < j → carry cur sum j = 0 ∧ carry c3 s3 j = 0 := by
        intro j hj
        unfold carry
        refine ⟨by rw [if_neg (by omega)], ?_⟩
        by_cases ej : j = c3
        · rw [if_pos ej]
          rcases hB with ⟨_, h2, _⟩ | ⟨h1, _, _⟩
          · exact h2
          · omega
        · rw [if_neg ej]
      -- the next entry, when the loop has just closed run `c`
      have hnext : c3 = c + 1 → ∀ x, ms'.head? = some x → x = c3 := by
        intro h3 x hx
        cases ms' with
        | nil => cases hx
        | cons d ms'' =>
          simp only [List.head?_cons, Option.some.injEq] at hx
          subst hx
          rcases hc'.1 with hd | hd
          · exfalso
            rcases hB with ⟨_, _, hlt⟩ | ⟨h1, _, _⟩
            · cases fs with
              | nil => simp at hl'
              | cons f' fs' =>
                rw [List.zip_cons_cons] at hzs
                subst hzs
                have := inv.minimal c [f] (f' :: runOf (fs'.zip ms'') c) hc1 (by
                  rw [runOf_cons, if_pos rfl, runOf_cons, if_pos (by simp only; omega)]; rfl)
                  (by simp) (by simp)
                rw [hcarry1] at this
                simp only [List.sum_cons, List.sum_nil, add_zero] at this
                exact absurd hlt (not_lt.mpr this)
            · omega
          · omega
      congr 1
      apply ih ms' c3 s3 hl'
      · rcases hB with ⟨h1, _, _⟩ | ⟨h1, _, _⟩
        · cases hm : ms' with
          | nil => trivial
          | cons d ms'' =>
            have := hnext h1 d (by rw [hm]; rfl)
            rw [hm] at hc'
            exact ⟨Or.inl this, hc'.2⟩
        · rw [h1]; exact hc'
      · rcases hB with ⟨h1, h2, _⟩ | ⟨_, h2, h3⟩
        · exact Or.inl ⟨h2, hnext h1⟩
        · exact Or.inr (by rw [h2]; exact not_lt.mp h3)
      · rw [hzs]
        have hc3 : c ≤ c3 := by rcases hB with h | h <;> omega
        have hcarry3 : c3 = c → carry c3 s3 c = s1 + f := by
          intro h3
          unfold carry
          rw [if_pos h3.symm]
          rcases hB with ⟨h1, _, _⟩ | ⟨_, h2, _⟩
          · omega
          · exact h2
        refine ⟨?_, ?_, ?_⟩
        · intro L hL j hcj hjL
          have hne : zs' ≠ [] := by intro e; subst e; cases hL
          have hL' : (((f, c) :: zs').getLast?.map (·.2)) = some L := by
            rw [List.getLast?_cons_of_ne_nil hne]; exact hL
          have := inv.full L hL' j (by omega) hjL
          rw [runOf_cons, runOf_cons, if_neg (show ¬ (f, c).2 = j + 1 by simp only; omega)] at this
          by_cases ej : j = c
          · subst ej
            rw [if_pos rfl, hcarry1, List.sum_cons, ← add_assoc] at this
            rw [hcarry3 (by omega)]
            exact this
          · rw [if_neg (by simp only; omega), (hcarry_gt j (by omega)).1] at this
            rw [(hcarry_gt j (by omega)).2]
            exact this
        · intro j p q hcj hrun hp hq
          by_cases ej : j = c
          · subst ej
            have := inv.minimal j (f :: p) q hc1 (by rw [runOf_cons, if_pos rfl, hrun]; rfl) (by simp) hq
            rw [hcarry1, List.sum_cons, ← add_assoc] at this
            rw [hcarry3 (by omega)]
            exact this
          · have := inv.minimal j p q (by omega) (by rw [runOf_cons, if_neg (by simp only; omega)]; exact hrun) hp hq
            rw [(hcarry_gt j (by omega)).1] at this
            rw [(hcarry_gt j (by omega)).2]
            exact this
        · intro j p g q hcj hrun hg
          by_cases ej : j = c
          · subst ej
            have := inv.high j (f :: p) g q hc1 (by rw [runOf_cons, if_pos rfl, hrun]; rfl) hg
            rw [hcarry1, List.sum_cons, ← add_assoc] at this
            rw [hcarry3 (by omega)]
            exact this
          · have := inv.high j p g q (by omega) (by rw [runOf_cons, if_neg (by simp only; omega)]; exact hrun) hg
            rw [(hcarry_gt j (by omega)).1] at this
            rw [(hcarry_gt j (by omega)).2]
            exact this


/-- **The guarantees characterise the grouping**: a bin map that starts at 0, climbs in steps of 0
    or 1, has one entry per bin and satisfies the three properties of `minFreqMap_runs` is the map
    `merge_bins(min_frequency=thr)` computes. -/
theorem minFreqMap_unique (thr : Rat) (freq : List Rat) (m : List Nat) (hl : m.length = freq.length)
    (hc : StepChain 0 m) (h0 : ∀ x, m.head? = some x → x = 0)
    (hG : ∀ j, j + 1 < newCount m →
      thr < (runOf (freq.zip m) j).sum ∨
      (0 < (runOf (freq.zip m) j).sum ∧ ∃ g, (runOf (freq.zip m) (j + 1)).head? = some g ∧ thr ≤ g))
    (hM : ∀ j p q, runOf (freq.zip m) j = p ++ q → p ≠ [] → q ≠ [] → p.sum ≤ thr)
    (hH : ∀ j p g q, runOf (freq.zip m) j = p ++ g :: q → thr ≤ g → p.sum ≤ 0) :
    m = minFreqMap thr freq := by
  apply minFreqInv_unique thr freq m 0 0 hl hc (Or.inl ⟨rfl, h0⟩)
  refine ⟨?_, ?_, ?_⟩
  · intro L hL j _ hjL
    rw [← List.getLast?_map, List.map_snd_zip (by omega)] at hL
    have := hG j (by simp only [newCount, hL, Option.map_some, Option.getD_some]; omega)
    simpa only [carry_zero, zero_add] using this
  · intro j p q _ h hp hq
    simpa only [carry_zero, zero_add] using hM j p q h hp hq
  · intro j p g q _ h hg
    simpa only [carry_zero, zero_add] using hH j p g q h hg

/-! ## 9. acceptance, run by run -/

theorem consecutiveB_iff_isChain (bins : Bins) :
    consecutiveB bins = true ↔ List.IsChain (fun b c : Bin => b.2 = c.1) bins := by
  induction bins with
  | nil => simp [consecutiveB]
  | cons b rest ih =>
    cases rest with
    | nil => simp [consecutiveB]
    | cons c rest' =>
      obtain ⟨l, r⟩ := b
      obtain ⟨l', r'⟩ := c
      simp only [consecutiveB, Bool.and_eq_true, decide_eq_true_eq, ih, List.isChain_cons_cons]

theorem isChain_cons_head {α} (R : α → α → Prop) (a : α) (l : List α) :
    List.IsChain R (a :: l) ↔ (∀ y, l.head? = some y → R a y) ∧ List.IsChain R l := by
  cases l with
  | nil => simp
  | cons b l' => simp [List.isChain_cons_cons]

theorem isChain_meet_iff_runs (zs : List (Bin × Nat)) (hs : (zs.map (·.2)).Pairwise (· ≤ ·)) :
    List.IsChain MeetIfSame zs ↔ ∀ j, consecutiveB (runOf zs j) = true := by
  simp only [consecutiveB_iff_isChain]
  induction zs with
  | nil => simp [runOf]
  | cons z rest ih =>
    simp only [List.map_cons, List.pairwise_cons] at hs
    rw [isChain_cons_head, ih hs.2]
    have hhead : (∀ y, rest.head? = some y → MeetIfSame z y) ↔
        (∀ y, (runOf rest z.2).head? = some y → z.1.2 = y.1) := by
      cases rest with
      | nil => simp [runOf]
      | cons y rest' =>
        simp only [List.head?_cons, Option.some.injEq, forall_eq', MeetIfSame]
        by_cases e : y.2 = z.2
        · rw [runOf_cons, if_pos e]
          simp [e]
        · have hnil : runOf (y :: rest') z.2 = [] := by
            apply runOf_eq_nil
            intro w hw
            have := hs.1 w.2 (List.mem_map.mpr ⟨w, hw, rfl⟩)
            have hy := hs.1 y.2 (List.mem_map.mpr ⟨y, List.mem_cons_self .., rfl⟩)
            rcases List.mem_cons.mp hw with rfl | hw'
            · exact e
            · simp only [List.map_cons, List.pairwise_cons] at hs
              have := hs.2.1 w.2 (List.mem_map.mpr ⟨w, hw', rfl⟩)
              omega
          rw [hnil]
          simp only [List.head?_nil, reduceCtorEq, false_implies, implies_true, iff_true]
          intro h; exact absurd h.symm e
    rw [hhead]
    constructor
    · rintro ⟨h1, h2⟩ j
      rw [runOf_cons]
      by_cases e : z.2 = j
      · subst e
        rw [if_pos rfl, isChain_cons_head]
        exact ⟨h1, h2 _⟩
      · rw [if_neg e]; exact h2 j
    · intro h
      have hz := h z.2
      rw [runOf_cons, if_pos rfl, isChain_cons_head] at hz
      refine ⟨hz.1, ?_⟩
      intro j
      have hj := h j
      rw [runOf_cons] at hj
      by_cases e : z.2 = j
      · subst e; exact hz.2
      · rwa [if_neg e] at hj

/-- **Acceptance, run by run**: for a step-chain bin map, no run has an inner gap iff every run is
    a consecutive binning (`is_consecutive`). -/
theorem mapRunsMeet_iff_runs (bins : Bins) (map : List Nat) (hl : map.length = bins.length) (hc : StepChain 0 map) :
    MapRunsMeet bins map ↔ ∀ j, consecutiveB (runOf (bins.zip map) j) = true := by
  rw [← isChain_zip_iff]
  apply isChain_meet_iff_runs
  rw [List.map_snd_zip (by omega)]
  exact stepChain_sorted map 0 hc

/-! ## 10. the order of two axes does not matter for the histogram either (`amount` form) -/

theorem HN.mergeAxisWithMap_ok (fo : FloatOps) (h : HN) (axis : Nat) (map : List Nat) (bn : Binning) (newBins : Bins)
    (hne : map ≠ []) (hbn : h.axes[axis]? = some bn)
    (hnb : mergeBinsAux ((bn.bins fo).zip map) none = .ok newBins) :
    h.mergeAxisWithMap fo axis map = .ok { h with
      axes := h.axes.set axis (.static newBins
        (bn.ire && (newBins.getLast?.map (·.2) == (bn.bins fo).getLast?.map (·.2)))),
      freq := h.freq.mergeAxis axis map newBins.length,
      err2 := h.err2.mergeAxis axis map newBins.length } := by
  have hemp : map.isEmpty = false := by
    cases map with
    | nil => exact absurd rfl hne
    | cons _ _ => rfl
  unfold HN.mergeAxisWithMap
  simp only [bind, Except.bind, pure, Except.pure, hemp, Bool.false_eq_true, if_false, hbn, hnb]

theorem HN.axisMap_amount_set (h : HN) (i j a : Nat) (thr : Option Rat) (hij : i ≠ j) (ax : List Binning)
    (f e : Arr) (N : Nat) (hf : f.shape = Arr.setAt h.freq.shape i N) :
    HN.axisMap { h with axes := ax, freq := f, err2 := e } j (some a) thr = h.axisMap j (some a) thr := by
  simp only [HN.axisMap]
  rw [hf]
  simp only [Arr.setAt, List.getElem?_set_ne hij]

/-- **Merging axis `i` and then axis `j ≠ i` by amount gives the same histogram as `j` first and
    `i` second** (bins, contents, squared errors, everything). -/
theorem HN.mergeAxis_amount_comm (fo : FloatOps) (h g r : HN) (i j a : Nat) (thr : Option Rat) (hij : i ≠ j)
    (h1 : h.mergeAxis fo i (some a) thr = .ok g) (h2 : g.mergeAxis fo j (some a) thr = .ok r) :
    ∃ g', h.mergeAxis fo j (some a) thr = .ok g' ∧ g'.mergeAxis fo i (some a) thr = .ok r := by
  have hm : MergeMode (some a) thr := by
    by_contra hm
    obtain ⟨e, he⟩ := HN.mergeAxis_badMode fo h i (some a) thr hm
    rw [he] at h1; cases h1
  rw [HN.mergeAxis_eq fo h i _ thr hm] at h1
  obtain ⟨bi, nbi, nei, hbi, hnbi, rfl⟩ := HN.mergeAxisWithMap_inv fo h g i _ h1
  rw [HN.mergeAxis_eq fo _ j _ thr hm] at h2
  obtain ⟨bj, nbj, nej, hbj, hnbj, rfl⟩ := HN.mergeAxisWithMap_inv fo _ r j _ h2
  simp only at hbj
  rw [List.getElem?_set_ne hij] at hbj
  have emj := HN.axisMap_amount_set h i j a thr hij
    (h.axes.set i (.static nbi (bi.ire && (nbi.getLast?.map (·.2) == (bi.bins fo).getLast?.map (·.2)))))
    (h.freq.mergeAxis i (h.axisMap i (some a) thr) nbi.length)
    (h.err2.mergeAxis i (h.axisMap i (some a) thr) nbi.length) nbi.length rfl
  rw [emj] at hnbj nej ⊢
  refine ⟨{ h with
      axes := h.axes.set j (.static nbj (bj.ire && (nbj.getLast?.map (·.2) == (bj.bins fo).getLast?.map (·.2)))),
      freq := h.freq.mergeAxis j (h.axisMap j (some a) thr) nbj.length,
      err2 := h.err2.mergeAxis j (h.axisMap j (some a) thr) nbj.length }, ?_, ?_⟩
  · rw [HN.mergeAxis_eq fo h j _ thr hm]
    exact HN.mergeAxisWithMap_ok fo h j _ bj nbj nej hbj hnbj
  · rw [HN.mergeAxis_eq fo _ i _ thr hm]
    have emi := HN.axisMap_amount_set h j i a thr (fun e => hij e.symm)
      (h.axes.set j (.static nbj (bj.ire && (nbj.getLast?.map (·.2) == (bj.bins fo).getLast?.map (·.2)))))
      (h.freq.mergeAxis j (h.axisMap j (some a) thr) nbj.length)
      (h.err2.mergeAxis j (h.axisMap j (some a) thr) nbj.length) nbj.length rfl
    rw [emi]
    rw [HN.mergeAxisWithMap_ok fo _ i _ bi nbi nei
      (by simp only; rw [List.getElem?_set_ne (fun e => hij e.symm)]; exact hbi) hnbi]
    simp only [Except.ok.injEq]
    rw [List.set_comm _ _ hij, Arr.mergeAxis_comm h.freq i j _ _ _ _ hij, Arr.mergeAxis_comm h.err2 i j _ _ _ _ hij]

end Physt
